(** Proofs about the ownership model with a three-step [destroy_database] ([LockPhases.v]):
    the repaired order (unlink LOCK while the lock is held) keeps a single owner in every
    interleaving, the original order (release, then unlink) does not. *)
From Coq Require Import Lia.
From RainVerif.model Require Import LockOwner LockPhases.
Open Scope N_scope.

(** * The inductive invariant of the repaired variant

    no handle and no destroyer holds a lock on an unlinked LOCK inode; the open handles are exactly
    the handle that holds the lock on LOCK; the destroyer holds that lock exactly while it is
    parked in phase 1; whenever somebody holds the lock the LOCK file is there, and while a handle
    is open the database files are there. (In phase 1 the database files need not be gone: a
    refused open re-creates the directories.) *)
Definition pinv (w : pworld) : Prop :=
  pw_orphan w = [] /\
  match pw_lock w with
  | Some (OwnH h) => pw_open w = [h] /\ pw_dphase w <> 1 /\ pw_lockfile w = true /\ pw_files w = true
  | Some OwnD => pw_open w = [] /\ pw_dphase w = 1 /\ pw_lockfile w = true
  | None => pw_open w = [] /\ pw_dphase w <> 1
  end.

Lemma pinv_init : pinv pworld_init.
Proof. split; [reflexivity|]. cbn. split; [reflexivity | discriminate]. Qed.

Lemma pstep_pinv w a : pinv w -> pinv (fst (pstep true w a)).
Proof.
  destruct w as [l orp op f lf ph]. unfold pinv. cbn [pw_orphan pw_lock pw_open pw_dphase pw_lockfile pw_files].
  intros [Ho Hl]. subst orp.
  destruct a as [h | h | | | ]; cbn [pstep pw_orphan pw_lock pw_open pw_dphase pw_lockfile pw_files].
  - (* open *)
    destruct l as [[h0|]|]; cbn [fst pw_orphan pw_lock pw_open pw_dphase pw_lockfile pw_files].
    + split; [reflexivity|]. destruct Hl as [Hop [Hph [Hlf _]]]. repeat split; assumption.
    + split; [reflexivity | exact Hl].
    + destruct Hl as [Hop Hph]. subst op. repeat split; assumption.
  - (* close *)
    destruct l as [[h0|]|].
    + destruct Hl as [Hop [Hph [Hlf Hfi]]]. subst op. cbn [existsb]. rewrite Bool.orb_false_r.
      destruct (N.eqb_spec h h0) as [E|E]; cbn [fst pw_orphan pw_lock pw_open pw_dphase pw_lockfile pw_files].
      * subst h0. cbn [owner_eqb filter]. rewrite N.eqb_refl. cbn [negb].
        repeat split; try reflexivity; assumption.
      * repeat split; try reflexivity; assumption.
    + destruct Hl as [Hop Hr]. subst op. cbn [existsb fst pw_orphan pw_lock pw_open pw_dphase pw_lockfile pw_files].
      split; [reflexivity|]. split; [reflexivity | exact Hr].
    + destruct Hl as [Hop Hr]. subst op. cbn [existsb fst pw_orphan pw_lock pw_open pw_dphase pw_lockfile pw_files].
      split; [reflexivity|]. split; [reflexivity | exact Hr].
  - (* destroy: start *)
    destruct (negb (ph =? 0)); [split; [reflexivity | exact Hl]|].
    destruct (negb (f || lf)); [split; [reflexivity | exact Hl]|].
    destruct l as [[h0|]|]; cbn [fst pw_orphan pw_lock pw_open pw_dphase pw_lockfile pw_files].
    + split; [reflexivity | exact Hl].
    + split; [reflexivity | exact Hl].
    + destruct Hl as [Hop _]. subst op. repeat split; reflexivity.
  - (* destroy: unlink *)
    destruct (N.eqb_spec ph 1) as [E|E]; cbn [negb fst pw_orphan pw_lock pw_open pw_dphase pw_lockfile pw_files].
    + subst ph. destruct l as [[h0|]|].
      * destruct Hl as [_ [Hph _]]. congruence.
      * destruct Hl as [Hop _]. subst op. cbn. repeat split; try reflexivity. discriminate.
      * destruct Hl as [_ Hph]. congruence.
    + split; [reflexivity | exact Hl].
  - (* destroy: finish *)
    destruct (N.eqb_spec ph 2) as [E|E]; cbn [negb fst pw_orphan pw_lock pw_open pw_dphase pw_lockfile pw_files].
    + subst ph. split; [reflexivity|]. destruct l as [[h0|]|].
      * destruct Hl as [Hop [_ [Hlf Hfi]]]. repeat split; try assumption. discriminate.
      * destruct Hl as [_ [Hph _]]. discriminate.
      * destruct Hl as [Hop _]. split; [assumption | discriminate].
    + split; [reflexivity | exact Hl].
Qed.

Lemma prun_pinv acts : forall w, pinv w -> pinv (fst (prun true w acts)).
Proof.
  induction acts as [|a r IH]; intros w Hs; cbn [prun fst].
  - exact Hs.
  - apply IH. apply pstep_pinv. exact Hs.
Qed.

(** states reachable from the initial world by any interleaving *)
Definition preach (b : bool) (w : pworld) : Prop := exists acts, w = fst (prun b pworld_init acts).

Lemma preach_pinv w : preach true w -> pinv w.
Proof. intros [acts ->]. apply prun_pinv. exact pinv_init. Qed.

Lemma pinv_one_owner w : pinv w -> one_owner w.
Proof.
  unfold pinv, one_owner. intros [_ Hl].
  destruct (pw_lock w) as [[h|]|].
  - destruct Hl as [-> _]. reflexivity.
  - destruct Hl as [-> _]. exact I.
  - destruct Hl as [-> _]. exact I.
Qed.

Lemma pinv_open_le1 w : pinv w -> (length (pw_open w) <= 1)%nat.
Proof.
  unfold pinv. intros [_ Hl].
  destruct (pw_lock w) as [[h|]|]; destruct Hl as [-> _]; cbn; lia.
Qed.

(** what the invariant says once a handle is open, resp. once the destroyer is parked in phase 1 *)
Lemma pinv_open_lock w h : pinv w -> pw_open w = [h] ->
  pw_lock w = Some (OwnH h) /\ pw_dphase w <> 1 /\ pw_lockfile w = true /\ pw_files w = true.
Proof.
  unfold pinv. intros [_ Hl] Hop.
  destruct (pw_lock w) as [[h0|]|].
  - destruct Hl as [Hop' Hr]. rewrite Hop in Hop'. injection Hop' as ->. split; [reflexivity | exact Hr].
  - destruct Hl as [Hop' _]. rewrite Hop in Hop'. discriminate.
  - destruct Hl as [Hop' _]. rewrite Hop in Hop'. discriminate.
Qed.

Lemma pinv_phase1_lock w : pinv w -> pw_dphase w = 1 ->
  pw_lock w = Some OwnD /\ pw_open w = [] /\ pw_lockfile w = true.
Proof.
  unfold pinv. intros [_ Hl] Hph.
  destruct (pw_lock w) as [[h0|]|].
  - destruct Hl as [_ [Hn _]]. contradiction.
  - destruct Hl as [Hop [_ Hlf]]. repeat split; assumption.
  - destruct Hl as [_ Hn]. contradiction.
Qed.

(** * T1: single owner in every interleaving (repaired variant) *)
Theorem repaired_one_owner acts : one_owner (fst (prun true pworld_init acts)).
Proof. apply pinv_one_owner, prun_pinv, pinv_init. Qed.

Theorem repaired_at_most_one_open acts :
  (length (pw_open (fst (prun true pworld_init acts))) <= 1)%nat.
Proof. apply pinv_open_le1, prun_pinv, pinv_init. Qed.

(** nobody ever keeps a lock on an unlinked LOCK inode *)
Theorem repaired_no_orphan acts : pw_orphan (fst (prun true pworld_init acts)) = [].
Proof. exact (proj1 (prun_pinv acts _ pinv_init)). Qed.

(** the destroyer holds the lock exactly while it is parked before the unlink *)
Theorem repaired_destroyer_holds_lock acts :
  let w := fst (prun true pworld_init acts) in
  pw_dphase w = 1 <-> pw_lock w = Some OwnD.
Proof.
  cbn zeta. pose proof (prun_pinv acts _ pinv_init) as [_ Hl].
  destruct (pw_lock (fst (prun true pworld_init acts))) as [[h|]|].
  - destruct Hl as [_ [Hn _]]. split; [contradiction | discriminate].
  - destruct Hl as [_ [Hp _]]. split; [reflexivity | intros _; exact Hp].
  - destruct Hl as [_ Hn]. split; [contradiction | discriminate].
Qed.

(** * T2: exclusion (repaired variant) *)

(** what a refused open leaves behind: the database directories (created before the lock is tried) *)
Definition with_files (w : pworld) : pworld :=
  mkPW (pw_lock w) (pw_orphan w) (pw_open w) true (pw_lockfile w) (pw_dphase w).

Lemma with_files_id w : pw_files w = true -> with_files w = w.
Proof. destruct w as [l orp op f lf ph]. cbn. intros ->. reflexivity. Qed.

(** an open is refused whenever somebody holds the lock, and then the only thing that changes is
    that the database directories exist (either variant, any state) *)
Theorem refused_open_effect b w h o :
  pw_lock w = Some o -> pstep b w (POpenH h) = (with_files w, PErr).
Proof. intros Hl. unfold with_files. cbn [pstep]. rewrite Hl. reflexivity. Qed.

(** while a handle is open every further open fails and changes nothing (the directories are
    there already) *)
Theorem open_excludes_open w h h' :
  preach true w -> pw_open w = [h] -> pstep true w (POpenH h') = (w, PErr).
Proof.
  intros Hr Hop. destruct (pinv_open_lock w h (preach_pinv w Hr) Hop) as [Hl [_ [_ Hf]]].
  rewrite (refused_open_effect true w h' _ Hl), (with_files_id w Hf). reflexivity.
Qed.

(** while a handle is open a [destroy_database] call cannot take its first step: it returns an
    error and changes nothing. ([PDestroyStart] is not an enabled action when the one modelled
    destroyer is already parked in phase 2, see [open_excludes_destroy_any].) *)
Theorem open_excludes_destroy w h :
  preach true w -> pw_open w = [h] -> pw_dphase w = 0 -> pstep true w PDestroyStart = (w, PErr).
Proof.
  intros Hr Hop Hph. destruct (pinv_open_lock w h (preach_pinv w Hr) Hop) as [Hl _].
  cbn [pstep]. rewrite Hph, Hl. cbn. destruct (negb (pw_files w || pw_lockfile w)); reflexivity.
Qed.

(** in whatever phase: a destroy-start never succeeds and never changes anything while a handle
    is open; it is [PErr] when no destroyer is running and [PNone] (not enabled) otherwise *)
Theorem open_excludes_destroy_any w h :
  preach true w -> pw_open w = [h] ->
  pstep true w PDestroyStart = (w, if pw_dphase w =? 0 then PErr else PNone).
Proof.
  intros Hr Hop. destruct (pinv_open_lock w h (preach_pinv w Hr) Hop) as [Hl _].
  cbn [pstep]. rewrite Hl. destruct (pw_dphase w =? 0); cbn [negb]; [|reflexivity].
  destruct (negb (pw_files w || pw_lockfile w)); reflexivity.
Qed.

(** the unrestricted form of the statement ("every [PDestroyStart] returns [PErr] while a handle
    is open") is false: with the destroyer parked in phase 2 the answer is [PNone] *)
Example open_destroy_start_phase2 :
  let w := fst (prun true pworld_init [POpenH 1; PCloseH 1; PDestroyStart; PDestroyUnlink; POpenH 2]) in
  pw_open w = [2] /\ pw_dphase w = 2 /\ pstep true w PDestroyStart = (w, PNone).
Proof. vm_compute. repeat split. Qed.

(** while the destroyer is parked before the unlink every open fails; nothing changes except that
    the database directories are there again *)
Theorem destroying_excludes_open w h :
  preach true w -> pw_dphase w = 1 -> pstep true w (POpenH h) = (with_files w, PErr).
Proof.
  intros Hr Hph. destruct (pinv_phase1_lock w (preach_pinv w Hr) Hph) as [Hl _].
  exact (refused_open_effect true w h _ Hl).
Qed.

(** ... and that does change the world when the destroyer had deleted the files: its last step
    will then fail *)
Example refused_open_spoils_destroy :
  let acts := [POpenH 1; PCloseH 1; PDestroyStart; POpenH 2; PDestroyUnlink; PDestroyFinish] in
  snd (prun true pworld_init acts) = [POk; POk; PParked; PErr; PParked; PErr] /\
  pw_open (fst (prun true pworld_init acts)) = [] /\
  pw_lock (fst (prun true pworld_init acts)) = None /\
  pw_files (fst (prun true pworld_init acts)) = true /\
  pw_dphase (fst (prun true pworld_init acts)) = 0.
Proof. vm_compute. repeat split. Qed.

(** * T3: failed actions (either variant) *)

Definition reset_phase (w : pworld) : pworld :=
  mkPW (pw_lock w) (pw_orphan w) (pw_open w) (pw_files w) (pw_lockfile w) 0.

(** an action that returns [PErr] or [PNone] leaves the world as it is, with two exceptions: the
    last step of the destroyer returns [PErr] when the directory is not empty (a database was
    created in it meanwhile), and then the destroyer is gone: the phase goes from 2 to 0 and
    nothing else changes; and a refused open leaves the database directories behind *)
Theorem failed_action_effect b w a :
  snd (pstep b w a) = PErr \/ snd (pstep b w a) = PNone ->
  match a, snd (pstep b w a) with
  | PDestroyFinish, PErr =>
      pw_dphase w = 2 /\ (pw_files w || pw_lockfile w) = true /\ fst (pstep b w a) = reset_phase w
  | POpenH _, PErr => pw_lock w <> None /\ fst (pstep b w a) = with_files w
  | _, _ => fst (pstep b w a) = w
  end.
Proof.
  intros Hf. destruct a as [h | h | | | ]; cbn [pstep] in *.
  - unfold with_files. destruct (pw_lock w); cbn [fst snd] in *; [split; [discriminate | reflexivity]|].
    destruct Hf; discriminate.
  - destruct (existsb (N.eqb h) (pw_open w)); cbn [fst snd] in *; [|reflexivity].
    destruct Hf; discriminate.
  - destruct (negb (pw_dphase w =? 0)); [reflexivity|].
    destruct (negb (pw_files w || pw_lockfile w)); [reflexivity|].
    destruct (pw_lock w); cbn [fst snd] in *; [reflexivity|].
    destruct Hf; discriminate.
  - destruct (negb (pw_dphase w =? 1)); cbn [fst snd] in *; [reflexivity|].
    destruct Hf; discriminate.
  - destruct (N.eqb_spec (pw_dphase w) 2) as [E|E]; cbn [negb fst snd] in *; [|reflexivity].
    destruct (pw_files w || pw_lockfile w); cbn in *.
    + repeat split. exact E.
    + destruct Hf; discriminate.
Qed.

Corollary failed_action_no_effect b w a :
  snd (pstep b w a) = PErr \/ snd (pstep b w a) = PNone ->
  a <> PDestroyFinish -> (forall h, a <> POpenH h) -> fst (pstep b w a) = w.
Proof.
  intros Hf Ha Ho. pose proof (failed_action_effect b w a Hf) as H.
  destruct a as [h | h | | | ]; try exact H; [exfalso; exact (Ho h eq_refl) | congruence].
Qed.

(** in reachable states of the repaired variant with a handle open, a refused open is no exception *)
Corollary failed_open_no_effect_when_open w h h' :
  preach true w -> pw_open w = [h] -> fst (pstep true w (POpenH h')) = w.
Proof. intros Hr Hop. rewrite (open_excludes_open w h h' Hr Hop). reflexivity. Qed.

Corollary not_enabled_no_effect b w a : snd (pstep b w a) = PNone -> fst (pstep b w a) = w.
Proof.
  intros Hf. pose proof (failed_action_effect b w a (or_intror Hf)) as H.
  destruct a; try exact H; rewrite Hf in H; exact H.
Qed.

(** * T4: the original order is refuted *)

(** open a, close a, destroy-start, open b, destroy-unlink, open c *)
Definition race_schedule : list pact :=
  [POpenH 1; PCloseH 1; PDestroyStart; POpenH 2; PDestroyUnlink; POpenH 3].

Theorem original_two_owners :
  ~ one_owner (fst (prun false pworld_init race_schedule)) /\
  length (pw_open (fst (prun false pworld_init race_schedule))) = 2%nat /\
  snd (prun false pworld_init race_schedule) = [POk; POk; PParked; POk; PParked; POk] /\
  (* handle 2 is open and holds a lock on an inode that no longer has a name *)
  pw_orphan (fst (prun false pworld_init race_schedule)) = [OwnH 2] /\
  pw_open (fst (prun false pworld_init race_schedule)) = [3; 2].
Proof.
  split; [intros H; vm_compute in H; exact H|].
  vm_compute. repeat split.
Qed.

Theorem original_not_single_owner :
  exists acts, ~ one_owner (fst (prun false pworld_init acts)) /\
               length (pw_open (fst (prun false pworld_init acts))) = 2%nat.
Proof.
  exists race_schedule. split; [exact (proj1 original_two_owners) | exact (proj1 (proj2 original_two_owners))].
Qed.

Theorem repaired_on_race_schedule :
  snd (prun true pworld_init race_schedule) = [POk; POk; PParked; PErr; PParked; POk] /\
  pw_open (fst (prun true pworld_init race_schedule)) = [3] /\
  pw_orphan (fst (prun true pworld_init race_schedule)) = [] /\
  snd (prun true pworld_init (race_schedule ++ [PDestroyFinish; PDestroyStart])) =
    [POk; POk; PParked; PErr; PParked; POk; PErr; PErr].
Proof. vm_compute. repeat split. Qed.

(** * T5: an undisturbed destroy is the atomic destroy of [LockOwner.v] *)

Definition destroy_steps : list pact := [PDestroyStart; PDestroyUnlink; PDestroyFinish].

(** lock free and directory present: the three steps succeed and leave nothing behind *)
Theorem destroy_alone_succeeds w :
  preach true w -> pw_dphase w = 0 -> pw_lock w = None -> (pw_files w || pw_lockfile w) = true ->
  prun true w destroy_steps = (mkPW None [] [] false false 0, [PParked; PParked; POk]) /\
  pw_open w = [].
Proof.
  intros Hr Hph Hl Hd. destruct (preach_pinv w Hr) as [Ho Hi]. rewrite Hl in Hi. destruct Hi as [Hop _].
  split; [|exact Hop].
  unfold destroy_steps. cbn [prun]. cbn [pstep]. rewrite Hph, Hl, Hd, Ho, Hop. reflexivity.
Qed.

Lemma destroy_steps_fail w :
  pw_dphase w = 0 -> pstep true w PDestroyStart = (w, PErr) ->
  prun true w destroy_steps = (w, [PErr; PNone; PNone]).
Proof.
  intros Hph Hs. unfold destroy_steps. cbn [prun].
  assert (Hu : pstep true w PDestroyUnlink = (w, PNone)) by (cbn [pstep]; rewrite Hph; reflexivity).
  assert (Hf : pstep true w PDestroyFinish = (w, PNone)) by (cbn [pstep]; rewrite Hph; reflexivity).
  rewrite Hs. cbn [fst snd]. rewrite Hu. cbn [fst snd]. rewrite Hf. reflexivity.
Qed.

(** a handle is open: the first step fails, the other two are not enabled, nothing changes *)
Theorem destroy_alone_fails w h :
  preach true w -> pw_dphase w = 0 -> pw_open w = [h] ->
  prun true w destroy_steps = (w, [PErr; PNone; PNone]).
Proof.
  intros Hr Hph Hop. apply destroy_steps_fail; [exact Hph|].
  exact (open_excludes_destroy w h Hr Hop Hph).
Qed.

(** there is no directory: the same *)
Theorem destroy_alone_nothing w :
  pw_dphase w = 0 -> (pw_files w || pw_lockfile w) = false ->
  prun true w destroy_steps = (w, [PErr; PNone; PNone]).
Proof.
  intros Hph Hd. apply destroy_steps_fail; [exact Hph|].
  cbn [pstep]. rewrite Hph, Hd. reflexivity.
Qed.

(** the atomic world a phase world stands for (the generation counter of [LockOwner.world] is not
    part of the phase model, it is supplied) *)
Definition abs_world (g : N) (w : pworld) : world :=
  mkWorld (match pw_lock w with Some (OwnH h) => Some h | _ => None end)
          (pw_open w) (pw_files w || pw_lockfile w) g.

Definition abs_outs (l : list pout) : outcome :=
  match l with [PParked; PParked; POk] => OOk | _ => OErr end.

(** from every reachable state in which no destroyer is running, the three steps run back to back
    do exactly what [LockOwner.step _ ADestroy] does: same outcome, same resulting world *)
Theorem destroy_refines_atomic g w :
  preach true w -> pw_dphase w = 0 ->
  let r := prun true w destroy_steps in
  let s := step (abs_world g w) ADestroy in
  snd s = abs_outs (snd r) /\
  fst s = abs_world (match snd s with OOk => g + 1 | _ => g end) (fst r) /\
  (snd r = [PParked; PParked; POk] \/ snd r = [PErr; PNone; PNone] /\ fst r = w).
Proof.
  intros Hr Hph. cbn zeta.
  destruct (pw_files w || pw_lockfile w) eqn:Hd.
  - destruct (pw_lock w) as [[h|]|] eqn:Hl.
    + assert (Hop : pw_open w = [h]).
      { destruct (preach_pinv w Hr) as [_ Hi]. rewrite Hl in Hi. exact (proj1 Hi). }
      rewrite (destroy_alone_fails w h Hr Hph Hop).
      unfold abs_world. cbn [step w_exists w_lock w_open w_gen]. rewrite Hd, Hl. cbn.
      rewrite Hd, Hl. repeat split. right. split; reflexivity.
    + destruct (preach_pinv w Hr) as [_ Hi]. rewrite Hl in Hi.
      destruct Hi as [_ [Hp _]]. rewrite Hph in Hp. discriminate.
    + destruct (destroy_alone_succeeds w Hr Hph Hl Hd) as [Hrun Hop]. rewrite Hrun.
      unfold abs_world. cbn [step w_exists w_lock w_open w_gen]. rewrite Hd, Hl, Hop. cbn.
      repeat split. left. reflexivity.
  - rewrite (destroy_alone_nothing w Hph Hd).
    unfold abs_world. cbn [step w_exists w_lock w_open w_gen]. rewrite Hd. cbn.
    rewrite Hd. repeat split. right. split; reflexivity.
Qed.

(** the hypotheses of the lemmas above are satisfiable *)
Example destroy_alone_hyps_sat :
  let w := fst (prun true pworld_init [POpenH 1; PCloseH 1]) in
  preach true w /\ pw_dphase w = 0 /\ pw_lock w = None /\ (pw_files w || pw_lockfile w) = true.
Proof. split; [exists [POpenH 1; PCloseH 1]; reflexivity|]. vm_compute. repeat split. Qed.

Example destroy_fails_hyps_sat :
  let w := fst (prun true pworld_init [POpenH 1]) in
  preach true w /\ pw_dphase w = 0 /\ pw_open w = [1].
Proof. split; [exists [POpenH 1]; reflexivity|]. vm_compute. repeat split. Qed.

Example phase1_hyps_sat :
  let w := fst (prun true pworld_init [POpenH 1; PCloseH 1; PDestroyStart]) in
  preach true w /\ pw_dphase w = 1.
Proof. split; [exists [POpenH 1; PCloseH 1; PDestroyStart]; reflexivity|]. vm_compute. reflexivity. Qed.
