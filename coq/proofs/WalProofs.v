(** The write-ahead log as a durable list of batches: crash atomicity (C02), torn tail followed
    by continued use (C16) and single byte corruption (C15). Built on [LogProofs] (framing) and
    [CodecProofs] (batch codec). No axioms. *)
From Coq Require Import Lia ZArith ZifyN ZifyBool ZifyNat Arith List NArith Bool.
From RainVerif Require Import Params.
From RainVerif.model Require Import Bytes Key Block Crc Log LogScript Version Lsm DbSpec Codec WalModel.
From RainVerif.proofs Require Import CrcProofs LogProofs CodecProofs.
Import ListNotations.
Open Scope N_scope.
Ltac Zify.zify_post_hook ::= Z.div_mod_to_equations.
Arguments N.add : simpl never.
Arguments N.sub : simpl never.
Arguments N.mul : simpl never.
Arguments N.div : simpl never.
Arguments N.modulo : simpl never.
Arguments N.eqb : simpl never.
Arguments N.ltb : simpl never.
Arguments N.leb : simpl never.
Arguments N.min : simpl never.
Arguments N.max : simpl never.
Arguments N.pow : simpl never.
Arguments N.of_nat : simpl never.
Arguments N.to_nat : simpl never.

(** * T2. Crash atomicity of one log file *)

Definition batches_ok (bs : list batch) : Prop := Forall (fun b => batch_ok b = true) bs.

Lemma decode_all_map bs : batches_ok bs -> decode_all (map batch_bytes bs) = Some bs.
Proof.
  induction 1 as [|b bs Hb Hbs IH]; [reflexivity|].
  cbn [map decode_all]. rewrite batch_decode_encode by assumption. rewrite IH. reflexivity.
Qed.

Lemma Forall_firstn {A} (P : A -> Prop) k l : Forall P l -> Forall P (firstn k l).
Proof.
  intros Hl. rewrite <- (firstn_skipn k l) in Hl. apply Forall_app in Hl. tauto.
Qed.

Lemma concat_map_map {A C} (f : A -> C) (ls : list (list A)) :
  concat (map (map f) ls) = map f (concat ls).
Proof. symmetry. apply concat_map. Qed.

Lemma takeN_all_ge n (l : bytes) : blen l <= n -> takeN n l = l.
Proof. intros Hn. unfold takeN. apply firstn_all2. unfold blen in Hn. lia. Qed.

(** the log script that writes the sessions, used to name the end offset of every record *)
Definition wal_script (sessions : list (list batch)) : list lop :=
  map (fun s => LSess s None) (map (map batch_bytes) sessions).

(** After a crash that leaves any byte prefix of the log (a crash between two file operations
    or a torn final write), recovery yields a prefix of the batches, in order, each batch wholly
    or not at all; the prefix contains exactly the batches whose record ends at or before byte
    [n] (end offsets [e] as computed by [sess_records] inside [script_run]). *)
Theorem wal_crash_atomic :
  forall (sessions : list (list batch)) (n : N),
    Forall batches_ok sessions ->
    let st := log_script_run (wal_script sessions) in
    fst st = wal_bytes_sessions sessions /\
    map fst (snd st) = map batch_bytes (concat sessions) /\
    exists k,
      wal_recover (takeN n (wal_bytes_sessions sessions)) = Some (firstn k (concat sessions)) /\
      forall j r e, nth_error (snd st) j = Some (r, e) -> (e <= n <-> (j < k)%nat).
Proof.
  intros sessions n Hok. cbv zeta. unfold wal_script, wal_bytes_sessions.
  destruct (log_truncation_inst (map (map batch_bytes) sessions) n) as [E1 [E2 [k [Hk1 Hk2]]]].
  split; [exact E1|]. split; [rewrite E2; apply concat_map_map|].
  exists k. split; [|exact Hk2].
  unfold wal_recover. rewrite Hk1. cbn [fst].
  rewrite concat_map_map, firstn_map. apply decode_all_map.
  apply Forall_firstn. apply Forall_concat. exact Hok.
Qed.

(** the same without the offsets: some prefix *)
Corollary wal_crash_prefix sessions n :
  Forall batches_ok sessions ->
  exists k, wal_recover (takeN n (wal_bytes_sessions sessions)) = Some (firstn k (concat sessions)).
Proof.
  intros Hok. destruct (wal_crash_atomic sessions n Hok) as [_ [_ [k [Hk _]]]].
  exists k. exact Hk.
Qed.

(** replaying what was recovered is replaying a prefix of the appended batches *)
Corollary wal_crash_replay sessions n m :
  Forall batches_ok sessions ->
  exists k recovered,
    wal_recover (takeN n (wal_bytes_sessions sessions)) = Some recovered /\
    recovered = firstn k (concat sessions) /\
    replay m recovered = replay m (firstn k (concat sessions)).
Proof.
  intros Hok. destruct (wal_crash_prefix sessions n Hok) as [k Hk].
  exists k, (firstn k (concat sessions)). auto.
Qed.

(** nothing cut off: everything is recovered *)
Theorem wal_recover_all sessions :
  Forall batches_ok sessions ->
  wal_recover (wal_bytes_sessions sessions) = Some (concat sessions).
Proof.
  intros Hok. unfold wal_recover, wal_bytes_sessions. rewrite log_roundtrip_inst. cbn [fst].
  rewrite concat_map_map. apply decode_all_map. apply Forall_concat. exact Hok.
Qed.

Corollary wal_crash_complete sessions n m :
  Forall batches_ok sessions ->
  blen (wal_bytes_sessions sessions) <= n ->
  wal_recover (takeN n (wal_bytes_sessions sessions))
    = Some (firstn (length (concat sessions)) (concat sessions)) /\
  wal_recover (takeN n (wal_bytes_sessions sessions)) = Some (concat sessions) /\
  replay m (concat sessions) = replay m (firstn (length (concat sessions)) (concat sessions)).
Proof.
  intros Hok Hn. rewrite takeN_all_ge by assumption. rewrite firstn_all.
  rewrite wal_recover_all by assumption. auto.
Qed.

(** ** Chained sequence numbers *)

(** [last_sequence_number] as computed by [recover_wal_records]: the maximum over the batches of
    [starting_seq + len - 1], starting from 0 *)
Definition recovered_last_seq (bs : list batch) : N :=
  fold_left (fun m b => N.max m (fst b + N.of_nat (length (snd b)) - 1)) bs 0.

Definition total_ops (bs : list batch) : N :=
  fold_left (fun a b => a + N.of_nat (length (snd b))) bs 0.

Lemma batches_chained_firstn : forall bs start k,
  batches_chained start bs = true -> batches_chained start (firstn k bs) = true.
Proof.
  induction bs as [|b bs IH]; intros start k Hc; [rewrite firstn_nil; reflexivity|].
  destruct k as [|k]; [reflexivity|].
  cbn [firstn batches_chained] in *. apply andb_true_iff in Hc. destruct Hc as [H1 H2].
  rewrite H1. cbn [andb]. apply IH. exact H2.
Qed.

Lemma fold_max_ge : forall (bs : list batch) z,
  z <= fold_left (fun m b => N.max m (fst b + N.of_nat (length (snd b)) - 1)) bs z.
Proof.
  induction bs as [|c bs IH]; intros z; cbn [fold_left]; [lia|].
  specialize (IH (N.max z (fst c + N.of_nat (length (snd c)) - 1))). lia.
Qed.

Lemma chained_last_seq_gen : forall bs start m a,
  batches_chained (start + a) bs = true -> m <= start + a ->
  N.max (start + a)
        (fold_left (fun m b => N.max m (fst b + N.of_nat (length (snd b)) - 1)) bs m)
  = start + fold_left (fun a b => a + N.of_nat (length (snd b))) bs a.
Proof.
  induction bs as [|b bs IH]; intros start m a Hc Hm; cbn [fold_left].
  - lia.
  - cbn [batches_chained] in Hc. apply andb_true_iff in Hc. destruct Hc as [H1 H2].
    apply N.eqb_eq in H1.
    replace (start + a + N.of_nat (length (snd b)))
      with (start + (a + N.of_nat (length (snd b)))) in H2 by lia.
    specialize (IH start (N.max m (fst b + N.of_nat (length (snd b)) - 1))
                   (a + N.of_nat (length (snd b))) H2).
    rewrite <- IH by lia.
    pose proof (fold_max_ge bs (N.max m (fst b + N.of_nat (length (snd b)) - 1))) as HX.
    lia.
Qed.

(** with chained sequence numbers starting after [start], the last sequence number after
    recovery is [start] plus the number of operations of the recovered batches *)
Theorem chained_last_seq bs start :
  batches_chained start bs = true ->
  N.max start (recovered_last_seq bs) = start + total_ops bs.
Proof.
  intros Hc. unfold recovered_last_seq, total_ops.
  pose proof (chained_last_seq_gen bs start 0 0) as Hg.
  rewrite N.add_0_r in Hg. apply Hg; [assumption|lia].
Qed.

Corollary wal_crash_last_seq sessions n start :
  Forall batches_ok sessions ->
  batches_chained start (concat sessions) = true ->
  exists k recovered,
    wal_recover (takeN n (wal_bytes_sessions sessions)) = Some recovered /\
    recovered = firstn k (concat sessions) /\
    batches_chained start recovered = true /\
    N.max start (recovered_last_seq recovered) = start + total_ops (firstn k (concat sessions)).
Proof.
  intros Hok Hc. destruct (wal_crash_prefix sessions n Hok) as [k Hk].
  exists k, (firstn k (concat sessions)).
  pose proof (batches_chained_firstn _ _ k Hc) as Hck.
  split; [exact Hk|]. split; [reflexivity|]. split; [exact Hck|].
  apply chained_last_seq. exact Hck.
Qed.

(** * T3. Torn tail, then a new log (repair of D10) *)

Lemma replay_app m a b : replay (replay m a) b = replay m (a ++ b).
Proof. unfold replay. rewrite fold_left_app. reflexivity. Qed.

(** Recovery after a torn tail does not append to the torn file but starts a new log. The next
    clean reopen reads both files: the surviving prefix of the first and everything written to
    the second; nothing acknowledged after the recovery is lost. *)
Theorem wal_torn_then_new_log :
  forall (s1 : list (list batch)) (n : N) (bs2 : list batch) (m : list kv),
    Forall batches_ok s1 -> batches_ok bs2 ->
    let file1 := takeN n (wal_bytes_sessions s1) in
    let file2 := wal_bytes bs2 in
    let st := log_script_run (wal_script s1) in
    exists k,
      wal_recover file1 = Some (firstn k (concat s1)) /\
      wal_recover file2 = Some bs2 /\
      (forall j r e, nth_error (snd st) j = Some (r, e) -> (e <= n <-> (j < k)%nat)) /\
      (forall r1 r2, wal_recover file1 = Some r1 -> wal_recover file2 = Some r2 ->
         replay (replay m r1) r2 = replay m (firstn k (concat s1) ++ bs2)).
Proof.
  intros s1 n bs2 m Hok1 Hok2. cbv zeta.
  destruct (wal_crash_atomic s1 n Hok1) as [_ [_ [k [Hk1 Hk2]]]].
  assert (H2 : wal_recover (wal_bytes bs2) = Some bs2).
  { unfold wal_bytes. rewrite wal_recover_all.
    - cbn [concat]. rewrite app_nil_r. reflexivity.
    - constructor; [assumption|constructor]. }
  exists k. split; [exact Hk1|]. split; [exact H2|]. split; [exact Hk2|].
  intros r1 r2 E1 E2. rewrite Hk1 in E1. rewrite H2 in E2.
  injection E1 as <-. injection E2 as <-. apply replay_app.
Qed.

(** Sensitivity witness (block size 32): appending a new session directly after a torn tail,
    as the code did before the repair of D10, makes the appended record unreadable. *)
Definition wit16_recs : list bytes := [repeat 65 10].
Definition wit16_new : list bytes := [[1; 2; 3]].

Theorem append_after_torn_tail_refuted :
  exists (recs new : list bytes) (n : N),
    let file := write_sessions 32 7 crc32c [] [recs] in
    let torn := takeN n file in
    let file' := torn ++ fst (append_all 32 7 crc32c (blen torn mod 32) new) in
    n < blen file /\ new <> [] /\
    (* the same records in a fresh log are read back *)
    read_all 32 7 crc32c true (write_sessions 32 7 crc32c [] [new]) = (new, false) /\
    (* appended after the torn tail, none of them is *)
    forall r, In r new -> ~ In r (fst (read_all 32 7 crc32c true file')).
Proof.
  exists wit16_recs, wit16_new, 12. cbv zeta.
  split; [vm_compute; reflexivity|]. split; [discriminate|].
  split; [vm_compute; reflexivity|].
  intros r Hr.
  assert (E : fst (read_all 32 7 crc32c true
            (takeN 12 (write_sessions 32 7 crc32c [] [wit16_recs]) ++
             fst (append_all 32 7 crc32c
                    (blen (takeN 12 (write_sessions 32 7 crc32c [] [wit16_recs])) mod 32)
                    wit16_new))) = []) by (vm_compute; reflexivity).
  rewrite E. intros [].
Qed.

(** * T4. A single changed byte in the log (C15) *)

Lemma unmask_inj m m' :
  m < two32 -> m' < two32 -> unmask_checksum m = unmask_checksum m' -> m = m'.
Proof.
  unfold unmask_checksum, two32. unfold CRC_MASKING_DELTA. intros Hm Hm'.
  set (u := (m + 4294967296 - 2726488792 mod 4294967296) mod 4294967296).
  set (u' := (m' + 4294967296 - 2726488792 mod 4294967296) mod 4294967296).
  intros E.
  assert (Hu : u < 4294967296) by (subst u; lia).
  assert (Hu' : u' < 4294967296) by (subst u'; lia).
  assert (Euu : u = u') by (unfold rot_left15 in E; lia).
  subst u u'. lia.
Qed.

(** ** Generic list surgery *)

Lemma update_at_app_r (a l : bytes) k v :
  update_at (length a + k) v (a ++ l) = a ++ update_at k v l.
Proof.
  induction a as [|x a IH]; [reflexivity|]. cbn [length app Nat.add update_at]. rewrite IH.
  reflexivity.
Qed.

Lemma update_at_app_l (x l : bytes) k v :
  (k < length x)%nat -> update_at k v (x ++ l) = update_at k v x ++ l.
Proof.
  revert k. induction x as [|y x IH]; intros k Hk; cbn [length] in Hk; [lia|].
  destruct k as [|k]; cbn [app update_at]; [reflexivity|]. rewrite IH by lia. reflexivity.
Qed.

Lemma update_at_split (d : bytes) k v :
  (k < length d)%nat ->
  d = firstn k d ++ nth k d 0 :: skipn (S k) d /\
  update_at k v d = firstn k d ++ v :: skipn (S k) d.
Proof.
  revert k. induction d as [|y d IH]; intros k Hk; cbn [length] in Hk; [lia|].
  destruct k as [|k]; [split; reflexivity|].
  destruct (IH k) as [E1 E2]; [lia|].
  cbn [firstn nth skipn update_at app]. cbn [skipn] in E1, E2. rewrite E2, <- E1. split; reflexivity.
Qed.

Lemma length_update_at (d : bytes) k v : length (update_at k v d) = length d.
Proof.
  revert k. induction d as [|y d IH]; intros k; [destruct k; reflexivity|].
  destruct k as [|k]; cbn [update_at length]; [reflexivity|]. rewrite IH. reflexivity.
Qed.

(** The trusted property of the checksum: two byte strings that differ in exactly one byte have
    different checksums. (True of CRC-32C, which detects every error burst of at most 32 bits;
    it is not proved here and appears as an explicit hypothesis of the theorems below.) *)
Definition crc_detects_single_byte (crc : bytes -> N) : Prop :=
  forall a x y c, x < 256 -> y < 256 -> x <> y -> crc (a ++ x :: c) <> crc (a ++ y :: c).

Section CORRUPT.
Variable B H : N.
Variable crc : bytes -> N.
Hypothesis H_is_7 : H = 7.
Hypothesis B_big : H < B.
Hypothesis B_small : B - H < 65536.
Hypothesis crc_bound : forall d, crc d < two32.

Local Notation a4 L := (L B H crc H_is_7 B_big B_small crc_bound) (only parsing).
Local Notation a3 L := (L B H H_is_7 B_big B_small) (only parsing).
Local Notation rd := (LogProofs.rd B).
Local Notation item_ok := (LogProofs.item_ok B H).
Local Notation layout_ok := (LogProofs.layout_ok B H).
Local Notation bytes_of := (LogProofs.bytes_of crc).
Local Notation item_bytes := (LogProofs.item_bytes crc).
Local Notation size := (LogProofs.size H).
Local Notation isize := (LogProofs.isize H).
Local Notation asm := (LogProofs.asm H).
Local Notation next := (LogProofs.next H).
Local Notation hdr := (LogProofs.hdr crc).

(** ** A fragment whose checksum does not verify *)

(** [h'], [d'] stand where the header and payload of a fragment with payload [d] stood; the
    length field is intact and the checksum (or the type) check fails *)
Definition bad_frag (d h' d' : bytes) : Prop :=
  blen h' = H /\ blen d' = blen d /\ le_decode (firstn 2 (skipn 4 h')) = blen d /\
  ((3 <? nth 6 h' 0) || negb (crc d' =? unmask_checksum (le_decode (firstn 4 h')))) = true.

Lemma rhp_bad b pos flen d h' d' tail :
  bad_frag d h' d' ->
  read_header_and_payload B H crc (mkReader (h' ++ d' ++ tail) b pos flen)
  = PSkip (mkReader tail (b + H) pos flen).
Proof.
  intros [Hh [Hd [Hl Hbad]]]. unfold read_header_and_payload. cbn [r_rest r_boff r_cpos r_flen].
  rewrite (LogProofs.takeN_app_exact H h') by assumption.
  rewrite (LogProofs.dropN_app_exact H h') by assumption.
  rewrite Hl, <- Hd.
  rewrite (LogProofs.takeN_app_exact (blen d') d') by reflexivity.
  rewrite (LogProofs.dropN_app_exact (blen d') d') by reflexivity.
  rewrite !LogProofs.blen_app, Hh.
  destruct (H + (blen d' + blen tail) <? H) eqn:E1; [lia|].
  destruct (blen d' + blen tail <? blen d') eqn:E2; [lia|].
  rewrite Hbad. reflexivity.
Qed.

Lemma rp_bad pos n t d h' d' tail :
  item_ok pos (It n t d) -> bad_frag d h' d' ->
  read_physical B H crc (rd pos (zeros (N.to_nat n) ++ h' ++ d' ++ tail))
  = PSkip (mkReader tail ((pos + n) mod B + H) (pos + n) (pos + (n + H + blen d + blen tail))).
Proof.
  intros Hok Hbad. destruct Hok as [Ht Hok]. pose proof (a3 mod_lt pos) as Hm.
  assert (Hlen : blen (zeros (N.to_nat n) ++ h' ++ d' ++ tail) = n + H + blen d + blen tail).
  { destruct Hbad as [Hh [Hd _]]. rewrite !LogProofs.blen_app, blen_zeros, Hh, Hd. lia. }
  unfold read_physical, LogProofs.rd. cbn [r_rest r_boff r_cpos r_flen].
  rewrite Hlen.
  destruct (B <? pos mod B) eqn:E0; [lia|].
  destruct Hok as [[-> Hfit]|[Hn0 [HnH [Hpad Hfit]]]].
  - destruct (B - pos mod B <? H) eqn:E1; [lia|].
    change (zeros (N.to_nat 0)) with (@nil N). cbn [app].
    rewrite (rhp_bad _ _ _ d) by assumption. rewrite !N.add_0_r. reflexivity.
  - destruct (B - pos mod B <? H) eqn:E1; [|lia].
    replace (B - pos mod B) with n by lia.
    destruct (n =? 0) eqn:E2; [lia|].
    destruct (n + H + blen d + blen tail <? n) eqn:E3; [lia|].
    rewrite (LogProofs.dropN_app_exact n) by apply blen_zeros.
    rewrite (rhp_bad _ _ _ d) by assumption.
    rewrite <- (a3 mod_add_l pos n), Hpad, N.mod_same by lia. reflexivity.
Qed.

(** ** Reading with a lagging block offset (D11), inside one block *)

Definition unpadded (its : list item) : Prop :=
  Forall (fun it => match it with It n t d => n = 0 /\ t <= 3 end) its.

Lemma rp_lag br c fl t d tail :
  t <= 3 -> br + H + blen d <= B ->
  read_physical B H crc (mkReader (fragment crc t d ++ tail) br c fl)
  = PRec t d (mkReader tail ((br + H + blen d) mod B) (c + H + blen d) fl).
Proof.
  intros Ht Hfit. unfold read_physical. cbn [r_rest r_boff r_cpos r_flen].
  destruct (B <? br) eqn:E0; [lia|].
  destruct (B - br <? H) eqn:E1; [lia|].
  apply (a4 rhp_frag); [assumption|lia].
Qed.

Lemma eof_lag br c fl : br <= B -> read_physical B H crc (mkReader [] br c fl) = PEof.
Proof.
  intros Hb. unfold read_physical. cbn [r_rest r_boff r_cpos r_flen]. rewrite blen_nil.
  destruct (B <? br) eqn:E0; [lia|].
  unfold read_header_and_payload. cbn [r_rest r_boff r_cpos r_flen]. rewrite blen_nil.
  destruct (0 <? H) eqn:E3; [|lia].
  destruct (B - br <? H) eqn:E1; [|reflexivity].
  destruct (B - br =? 0) eqn:E2; [reflexivity|].
  destruct (0 <? B - br) eqn:E4; [reflexivity|lia].
Qed.

Lemma rrl_lag its : forall fuel pos br c fl buf infrag,
  unpadded its -> br + size its <= B -> (length its < fuel)%nat ->
  match next pos infrag buf its with
  | None =>
      read_record_loop B H crc true fuel (mkReader (bytes_of its) br c fl) buf infrag = REof
  | Some (d, e, r) =>
      exists br' c',
        read_record_loop B H crc true fuel (mkReader (bytes_of its) br c fl) buf infrag
        = RRec d (mkReader (bytes_of r) br' c' fl) /\
        br' + size r <= B /\ unpadded r /\ c' + size r = c + size its /\
        (length r < length its)%nat
  end.
Proof.
  induction its as [|[n t d] its IH]; intros fuel pos br c fl buf infrag Hu Hb Hf;
    (destruct fuel as [|fuel]; [cbn [length] in Hf; lia|]).
  - cbn [LogProofs.next LogProofs.bytes_of read_record_loop].
    cbn [LogProofs.size] in Hb. rewrite eof_lag by lia. reflexivity.
  - pose proof (Forall_inv Hu) as Hh. cbv beta iota in Hh. destruct Hh as [Hn Ht].
    pose proof (Forall_inv_tail Hu) as Hu'. subst n.
    cbn [LogProofs.size LogProofs.isize] in Hb. cbn [length] in Hf.
    assert (Hf' : (length its < fuel)%nat) by lia.
    assert (Hmod : (br + H + blen d) mod B <= br + H + blen d) by (apply N.mod_le; lia).
    cbn [LogProofs.next LogProofs.bytes_of LogProofs.item_bytes read_record_loop].
    change (zeros (N.to_nat 0)) with (@nil N). cbn [app].
    rewrite rp_lag by (assumption || lia).
    cbn [negb]. unfold fstep, T_FULL, T_FIRST, T_MIDDLE, T_LAST.
    cbn [LogProofs.isize LogProofs.size length].
    set (br' := (br + H + blen d) mod B) in *.
    assert (Hb' : br' + size its <= B) by lia.
    assert (Rec : forall P I Bf,
      match next P I Bf its with
      | Some (d0, e, r) =>
          exists br2 c2,
            read_record_loop B H crc true fuel
              (mkReader (bytes_of its) br' (c + H + blen d) fl) Bf I
            = RRec d0 (mkReader (bytes_of r) br2 c2 fl) /\
            br2 + size r <= B /\ unpadded r /\
            c2 + size r = c + (0 + H + blen d + size its) /\ (length r < S (length its))%nat
      | None =>
          read_record_loop B H crc true fuel
            (mkReader (bytes_of its) br' (c + H + blen d) fl) Bf I = REof
      end).
    { intros P I Bf.
      pose proof (IH fuel P br' (c + H + blen d) fl Bf I Hu' Hb' Hf') as IH'.
      destruct (next P I Bf its) as [[[d0 e] r]|]; [|exact IH'].
      destruct IH' as [b2 [c2 [E [H1 [H2 [H3 H4]]]]]]. exists b2, c2.
      split; [exact E|]. split; [exact H1|]. split; [exact H2|]. split; lia. }
    destruct (t =? 0).
    + exists br', (c + H + blen d). split; [reflexivity|]. split; [exact Hb'|].
      split; [exact Hu'|]. split; lia.
    + destruct (t =? 1); [apply Rec|].
      destruct (t =? 2); destruct infrag; try apply Rec.
      exists br', (c + H + blen d). split; [reflexivity|]. split; [exact Hb'|].
      split; [exact Hu'|]. split; lia.
Qed.

Lemma ral_lag : forall fuel its pos br c fl,
  unpadded its -> br + size its <= B -> c + size its <= fl -> (length its < fuel)%nat ->
  read_all_loop B H crc true fuel (mkReader (bytes_of its) br c fl)
  = (map fst (asm pos false [] its), false).
Proof.
  induction fuel as [|fuel IH]; intros its pos br c fl Hu Hb Hc Hf; [lia|].
  cbn [read_all_loop]. unfold read_record. cbn [r_cpos r_flen r_rest].
  destruct ((0 <? c) && (fl <=? c)) eqn:E.
  - assert (Hs : size its = 0) by lia.
    destruct its as [|it its]; [reflexivity|].
    cbn [LogProofs.size] in Hs. pose proof (a4 isize_pos it). lia.
  - clear E.
    pose proof (rrl_lag its (S (length (bytes_of its))) pos br c fl [] false Hu Hb) as Hr.
    assert (Hlen : (length its < S (length (bytes_of its)))%nat).
    { pose proof (a4 size_length its) as Hs. rewrite <- (a4 blen_bytes_of) in Hs.
      unfold blen in Hs. lia. }
    specialize (Hr Hlen). rewrite LogProofs.asm_next.
    destruct (next pos false [] its) as [[[d e] r]|].
    + destruct Hr as [br' [c' [E [H1 [H2 [H3 H4]]]]]]. rewrite E.
      rewrite (IH r e br' c' fl); [reflexivity|assumption|assumption|lia|lia].
    + rewrite Hr. reflexivity.
Qed.

(** ** The intact part before the bad fragment *)

Lemma rrl_prefix its : forall fuel pos buf infrag tail,
  layout_ok pos its -> (length its <= fuel)%nat ->
  read_record_loop B H crc true fuel (rd pos (bytes_of its ++ tail)) buf infrag =
  match next pos infrag buf its with
  | Some (d, e, r) => RRec d (rd e (bytes_of r ++ tail))
  | None =>
      read_record_loop B H crc true (fuel - length its) (rd (pos + size its) tail)
        (snd (fin infrag buf its)) (fst (fin infrag buf its))
  end.
Proof.
  induction its as [|[n t d] its IH]; intros fuel pos buf infrag tail Hl Hf.
  - cbn [LogProofs.next LogProofs.bytes_of LogProofs.size fin length app fst snd].
    rewrite N.add_0_r, Nat.sub_0_r. reflexivity.
  - destruct fuel as [|fuel]; [cbn [length] in Hf; lia|].
    cbn [LogProofs.layout_ok] in Hl. destruct Hl as [Hok Hl]. cbn [length] in Hf.
    assert (Hf' : (length its <= fuel)%nat) by lia.
    cbn [LogProofs.bytes_of LogProofs.next read_record_loop fin LogProofs.size length].
    rewrite <- app_assoc, (a4 rp_item) by assumption.
    cbn [negb Nat.sub]. unfold fstep, T_FULL, T_FIRST, T_MIDDLE, T_LAST.
    rewrite N.add_assoc.
    destruct (t =? 0); [reflexivity|].
    destruct (t =? 1); [apply IH; assumption|].
    destruct (t =? 2); destruct infrag; try (apply IH; assumption). reflexivity.
Qed.

Lemma next_split its : forall pos i b d e r,
  next pos i b its = Some (d, e, r) ->
  exists c, its = c ++ r /\ e = pos + size c /\ (length r < length its)%nat.
Proof.
  induction its as [|[n t x] its IH]; intros pos i b d e r Hn; cbn [LogProofs.next] in Hn;
    [discriminate|].
  destruct (fstep i b t x) as [[[y|] i'] b'].
  - injection Hn as <- <- <-. exists [It n t x]. cbn [app LogProofs.size LogProofs.isize length].
    split; [reflexivity|]. split; lia.
  - destruct (IH _ _ _ _ _ _ Hn) as [c [E1 [E2 E3]]]. exists (It n t x :: c).
    cbn [app LogProofs.size LogProofs.isize length]. cbn [LogProofs.isize] in E2. split; [f_equal; exact E1|]. split; lia.
Qed.

Lemma next_none_asm its pos i b : next pos i b its = None -> asm pos i b its = [].
Proof. intros E. rewrite LogProofs.asm_next, E. reflexivity. Qed.

(** ** The whole file with one bad fragment *)

Section ONEBAD.
Variables (n t : N) (d h' d' : bytes) (its2 : list item).
Hypothesis Hbad : bad_frag d h' d'.
Hypothesis Hu2 : unpadded its2.

Definition bad_tail : bytes := zeros (N.to_nat n) ++ h' ++ d' ++ bytes_of its2.

Lemma blen_bad_tail : blen bad_tail = n + H + blen d + size its2.
Proof.
  destruct Hbad as [Hh [Hd _]]. unfold bad_tail.
  rewrite !LogProofs.blen_app, blen_zeros, Hh, Hd, (a4 blen_bytes_of). lia.
Qed.

Lemma ral_corrupt : forall fuel its1 pos,
  layout_ok pos (its1 ++ It n t d :: its2) ->
  (pos + size its1 + n) mod B + H + size its2 <= B ->
  (length its1 + length its2 + 2 <= fuel)%nat ->
  read_all_loop B H crc true fuel (rd pos (bytes_of its1 ++ bad_tail))
  = (map fst (asm pos false [] its1) ++ map fst (asm 0 false [] its2), false).
Proof.
  induction fuel as [|fuel IH]; intros its1 pos Hl Hblk Hf; [lia|].
  cbn [read_all_loop]. unfold read_record.
  pose proof blen_bad_tail as Hbt.
  assert (Hrest : blen (bytes_of its1 ++ bad_tail) = size its1 + (n + H + blen d + size its2)).
  { rewrite LogProofs.blen_app, (a4 blen_bytes_of), Hbt. reflexivity. }
  cbn [LogProofs.rd r_cpos r_flen r_rest]. rewrite Hrest.
  destruct ((0 <? pos) && (pos + (size its1 + (n + H + blen d + size its2)) <=? pos)) eqn:E;
    [lia|]. clear E.
  fold (rd pos (bytes_of its1 ++ bad_tail)).
  pose proof (a4 size_length its1) as Hs1.
  pose proof (a4 size_length its2) as Hs2.
  assert (Hlen : length (bytes_of its1 ++ bad_tail)
                 = N.to_nat (size its1 + (n + H + blen d + size its2))).
  { rewrite <- Hrest. unfold blen. lia. }
  apply (a3 layout_ok_app) in Hl. destruct Hl as [Hl1 Hl2].
  cbn [LogProofs.layout_ok] in Hl2. destruct Hl2 as [Hok Hl3].
  rewrite rrl_prefix by (assumption || lia).
  destruct (next pos false [] its1) as [[[d0 e] r]|] eqn:En.
  - destruct (next_split _ _ _ _ _ _ _ En) as [c [E1 [E2 E3]]].
    rewrite LogProofs.asm_next, En. cbn [map fst app].
    rewrite (IH r e).
    + reflexivity.
    + subst its1 e. apply (a3 layout_ok_app). rewrite (a3 size_app) in *.
      apply (a3 layout_ok_app) in Hl1. destruct Hl1 as [_ Hl1]. split; [exact Hl1|].
      cbn [LogProofs.layout_ok].
      replace (pos + size c + size r) with (pos + (size c + size r)) by lia.
      split; [exact Hok|exact Hl3].
    + subst its1 e. rewrite (a3 size_app) in Hblk.
      replace (pos + size c + size r + n) with (pos + (size c + size r) + n) by lia. exact Hblk.
    + lia.
  - rewrite (next_none_asm _ _ _ _ En). cbn [map app].
    rewrite Hlen.
    assert (Hfu : exists f, (S (N.to_nat (size its1 + (n + H + blen d + size its2))) - length its1
                             = S f)%nat /\ (length its2 < f)%nat).
    { exists (N.to_nat (size its1 + (n + H + blen d + size its2)) - length its1)%nat. lia. }
    destruct Hfu as [f [Ef Hf2]]. rewrite Ef. clear Ef.
    cbn [read_record_loop]. unfold bad_tail at 1.
    rewrite (rp_bad _ n t d) by assumption.
    pose proof (rrl_lag its2 f 0 ((pos + size its1 + n) mod B + H) (pos + size its1 + n)
                  (pos + size its1 + (n + H + blen d + blen (bytes_of its2))) [] false Hu2) as Hr.
    specialize (Hr ltac:(lia) Hf2).
    rewrite (LogProofs.asm_next H 0 false [] its2).
    destruct (next 0 false [] its2) as [[[d2 e2] r2]|].
    + destruct Hr as [br' [c' [E [H1 [H2 [H3 H4]]]]]]. rewrite E.
      rewrite (ral_lag fuel r2 e2 br' c'); [reflexivity|assumption|assumption| |lia].
      rewrite (a4 blen_bytes_of). lia.
    + rewrite Hr. reflexivity.
Qed.

Theorem read_all_one_bad its1 :
  layout_ok 0 (its1 ++ It n t d :: its2) ->
  (size its1 + n) mod B + H + size its2 <= B ->
  read_all B H crc true (bytes_of its1 ++ bad_tail)
  = (map fst (asm 0 false [] its1) ++ map fst (asm 0 false [] its2), false).
Proof.
  intros Hl Hblk. unfold read_all. rewrite (a3 reader_open_rd). apply ral_corrupt.
  - exact Hl.
  - rewrite N.add_0_l. exact Hblk.
  - pose proof (a4 size_length its1) as Hs1. pose proof (a4 size_length its2) as Hs2.
    pose proof blen_bad_tail as Hbt.
    rewrite app_length. rewrite <- (a4 blen_bytes_of) in Hs1. unfold blen in *. lia.
Qed.

End ONEBAD.

(** ** Which records survive *)

Lemma asm_false_buf its pos b : asm pos false b its = asm pos false [] its.
Proof.
  destruct its as [|[n t d] its]; [reflexivity|]. cbn [LogProofs.asm]. unfold fstep.
  destruct (t =? 0); [reflexivity|]. destruct (t =? 1); [reflexivity|].
  destruct (t =? 2); reflexivity.
Qed.

Lemma asm_pos_indep its : forall pos p' i b,
  map fst (asm pos i b its) = map fst (asm p' i b its).
Proof.
  induction its as [|[n t d] its IH]; intros pos p' i b; [reflexivity|].
  cbn [LogProofs.asm]. destruct (fstep i b t d) as [[[y|] i'] b']; cbn [map fst].
  - f_equal. apply IH.
  - apply IH.
Qed.

(** a reader that lost its fragment state misses at most the record that was in progress *)
Lemma asm_drop its : forall pos i b,
  exists pre, map fst (asm pos i b its) = pre ++ map fst (asm pos false [] its) /\
              (length pre <= 1)%nat.
Proof.
  induction its as [|[n t d] its IH]; intros pos i b.
  - exists []. split; [reflexivity|cbn [length]; lia].
  - destruct i.
    2:{ exists []. rewrite asm_false_buf. split; [reflexivity|cbn [length]; lia]. }
    cbn [LogProofs.asm]. unfold fstep.
    destruct (t =? 0); [exists []; split; [reflexivity|cbn [length]; lia]|].
    destruct (t =? 1); [exists []; split; [reflexivity|cbn [length]; lia]|].
    destruct (t =? 2).
    + apply IH.
    + exists [b ++ d]. split; [reflexivity|cbn [length]; lia].
Qed.

Lemma fstep_some i b t d y i' b' : fstep i b t d = (Some y, i', b') -> i' = false.
Proof.
  unfold fstep. destruct (t =? 0); [intros E; injection E; auto|].
  destruct (t =? 1); [discriminate|].
  destruct (t =? 2); destruct i; try discriminate. intros E; injection E; auto.
Qed.

Lemma records_one_bad its1 n t d its2 :
  exists l1 x l2,
    map fst (asm 0 false [] (its1 ++ It n t d :: its2)) = l1 ++ x ++ l2 /\
    (length x <= 1)%nat /\
    map fst (asm 0 false [] its1) ++ map fst (asm 0 false [] its2) = l1 ++ l2.
Proof.
  rewrite LogProofs.asm_app, map_app. exists (map fst (asm 0 false [] its1)).
  set (st := fin false [] its1). cbn [LogProofs.asm].
  destruct (fstep (fst st) (snd st) t d) as [[[y|] i'] b'] eqn:Ef.
  - apply fstep_some in Ef. subst i'. exists [y], (map fst (asm 0 false [] its2)).
    split; [|split; [cbn [length]; lia|reflexivity]].
    f_equal. cbn [map fst app]. f_equal. rewrite asm_false_buf. apply asm_pos_indep.
  - match goal with |- context [LogProofs.asm H ?P i' b' its2] =>
      destruct (asm_drop its2 P i' b') as [pre [E Hp]] end.
    exists pre, (map fst (asm 0 false [] its2)).
    split; [|split; [exact Hp|reflexivity]].
    f_equal. rewrite E. f_equal. apply asm_pos_indep.
Qed.

(** ** The two kinds of change that are claimed: a checksum byte, a payload byte *)

Lemma bad_crc t d k v :
  (k < 4)%nat -> v < 256 -> v <> nth k (hdr t d) 0 -> blen d < 65536 ->
  bad_frag d (update_at k v (hdr t d)) d.
Proof.
  intros Hk Hv Hne Hd.
  pose proof (unmask_mask (crc d) (crc_bound d)) as Hum.
  pose proof (mask_bound (crc d)) as Hm. unfold two32 in Hm.
  revert Hne Hum. unfold LogProofs.hdr. cbn [le_encode app].
  set (m := mask_checksum (crc d)) in *. clearbody m.
  set (l := blen d) in *.
  intros Hne Hum.
  assert (Hinj : forall s, s < 4294967296 -> s <> m -> crc d =? unmask_checksum s = false).
  { intros s Hs Hsm. apply N.eqb_neq. intros E. apply Hsm.
    apply unmask_inj; unfold two32; try assumption. congruence. }
  destruct k as [|[|[|[|k]]]]; [| | | |lia];
    cbn [update_at nth] in *;
    (split; [rewrite H_is_7; reflexivity|]);
    (split; [reflexivity|]);
    (split; [cbn [skipn firstn le_decode]; lia|]);
    apply orb_true_iff; right; apply negb_true_iff; apply Hinj;
    cbn [firstn le_decode]; lia.
Qed.

Hypothesis crc_detects : crc_detects_single_byte crc.

Lemma bad_payload t d a x y c :
  d = a ++ x :: c -> x < 256 -> y < 256 -> x <> y -> blen d < 65536 ->
  bad_frag d (hdr t d) (a ++ y :: c).
Proof.
  intros Ed Hx Hy Hxy Hd.
  split; [apply (LogProofs.blen_hdr H crc H_is_7)|].
  split; [subst d; unfold blen; rewrite !app_length; reflexivity|].
  split; [apply LogProofs.hdr_dlen; assumption|].
  rewrite LogProofs.hdr_crc, unmask_mask by apply crc_bound.
  apply orb_true_iff; right. apply negb_true_iff. apply N.eqb_neq. subst d.
  apply crc_detects; auto.
Qed.

(** ** Offsets at which a change is claimed to be detected: the four checksum bytes and the
    payload of any fragment (not the two length bytes, not the type byte, not the padding) *)
Fixpoint protected_offset (pos : N) (its : list item) (off : N) : bool :=
  match its with
  | [] => false
  | It n t d :: r =>
      ((pos + n <=? off) && (off <? pos + n + 4))
      || ((pos + n + H <=? off) && (off <? pos + n + H + blen d))
      || protected_offset (pos + (n + H + blen d)) r off
  end.

Lemma protected_split its : forall pos off,
  protected_offset pos its off = true ->
  exists its1 n t d its2,
    its = its1 ++ It n t d :: its2 /\
    ((pos + size its1 + n <= off /\ off < pos + size its1 + n + 4) \/
     (pos + size its1 + n + H <= off /\ off < pos + size its1 + n + H + blen d)).
Proof.
  induction its as [|[n t d] its IH]; intros pos off Hp; cbn [protected_offset] in Hp;
    [discriminate|].
  apply orb_true_iff in Hp. destruct Hp as [Hp|Hp].
  - exists [], n, t, d, its. cbn [app LogProofs.size]. split; [reflexivity|]. lia.
  - destruct (IH _ _ Hp) as [i1 [n' [t' [d' [i2 [E Hc]]]]]].
    exists (It n t d :: i1), n', t', d', i2. cbn [app LogProofs.size LogProofs.isize].
    split; [rewrite E; reflexivity|]. lia.
Qed.

Lemma unpadded_fit its : forall pos,
  layout_ok pos its -> pos mod B + size its <= B -> unpadded its.
Proof.
  induction its as [|[n t d] its IH]; intros pos Hl Hfit; [constructor|].
  cbn [LogProofs.layout_ok] in Hl. destruct Hl as [[Ht Hok] Hl].
  cbn [LogProofs.size LogProofs.isize] in Hfit.
  assert (Hn : n = 0) by lia. subst n.
  constructor; [split; [reflexivity|assumption]|].
  apply (IH _ Hl). cbn [LogProofs.isize].
  rewrite <- (a3 mod_add_l).
  assert (Hm : (pos mod B + (0 + H + blen d)) mod B <= pos mod B + (0 + H + blen d))
    by (apply N.mod_le; lia).
  lia.
Qed.

Lemma unpadded_fit' its pos q :
  layout_ok pos its -> pos mod B = q mod B -> q + size its <= B -> unpadded its.
Proof.
  intros Hl Hq Hfit. destruct its as [|it its]; [constructor|].
  pose proof (a4 isize_pos it) as Hp. cbn [LogProofs.size] in Hfit.
  apply (unpadded_fit _ pos Hl). rewrite Hq, N.mod_small by lia. exact Hfit.
Qed.

(** the fragment lies in one block; if the file ends in that block, everything after the
    fragment does too *)
Lemma last_block_fit s k len rest off :
  s mod B + len <= B -> s <= off -> off < s + len -> k = 0 + k ->
  s + len + rest <= (off / B + 1) * B ->
  s mod B + len + rest <= B.
Proof.
  intros Hfit Hlo Hhi _ Hend.
  assert (HB : B <> 0) by lia.
  pose proof (N.div_mod s B HB) as Es.
  pose proof (N.mod_upper_bound s B HB) as Hr.
  set (q := s / B) in *. set (r := s mod B) in *. clearbody q r.
  assert (Eq : q = off / B).
  { apply (N.div_unique off B q (r + (off - s))); lia. }
  rewrite <- Eq in Hend. nia.
Qed.

Theorem single_byte_read its off v :
  layout_ok 0 its -> protected_offset 0 its off = true ->
  v < 256 -> nth (N.to_nat off) (bytes_of its) 0 < 256 ->
  v <> nth (N.to_nat off) (bytes_of its) 0 ->
  size its <= (off / B + 1) * B ->
  exists its1 n t d its2,
    its = its1 ++ It n t d :: its2 /\
    read_all B H crc true (update_at (N.to_nat off) v (bytes_of its))
    = (map fst (asm 0 false [] its1) ++ map fst (asm 0 false [] its2), false).
Proof.
  intros Hl Hp Hv Hold Hne Hend.
  destruct (protected_split its 0 off Hp) as [its1 [n [t [d [its2 [E Hc]]]]]].
  rewrite !N.add_0_l in Hc. subst its.
  pose proof Hl as Hl0.
  apply (a3 layout_ok_app) in Hl. destruct Hl as [Hl1 Hl2]. rewrite N.add_0_l in Hl2.
  cbn [LogProofs.layout_ok] in Hl2. destruct Hl2 as [Hok Hl3].
  pose proof (a4 item_ok_dlen _ _ _ _ Hok) as Hd.
  rewrite (a3 size_app) in Hend. cbn [LogProofs.size LogProofs.isize] in Hend, Hl3.
  set (s := size its1 + n) in *.
  (* the fragment within its block *)
  assert (Hfrag : s mod B + (H + blen d) <= B).
  { destruct Hok as [_ [[-> Hf]|[Hn0 [HnH [Hpad Hf]]]]].
    - subst s. rewrite N.add_0_r. lia.
    - subst s. rewrite <- (a3 mod_add_l), Hpad, N.mod_same by lia. lia. }
  assert (Hblk : s mod B + (H + blen d) + size its2 <= B).
  { apply (last_block_fit s 0 (H + blen d) (size its2) off); try lia. }
  assert (Hu2 : unpadded its2).
  { apply (unpadded_fit' its2 _ (s mod B + (H + blen d)) Hl3); [|lia].
    replace (size its1 + (n + H + blen d)) with (s + (H + blen d)) by lia.
    rewrite (a3 mod_add_l). reflexivity. }
  (* the bytes *)
  set (A := bytes_of its1 ++ zeros (N.to_nat n)).
  assert (HA : length A = N.to_nat s).
  { subst A s. rewrite app_length, length_zeros.
    pose proof (a4 blen_bytes_of its1) as Hb. unfold blen in Hb. lia. }
  assert (Efile : bytes_of (its1 ++ It n t d :: its2) = A ++ hdr t d ++ d ++ bytes_of its2).
  { subst A. rewrite LogProofs.bytes_of_app. cbn [LogProofs.bytes_of LogProofs.item_bytes].
    rewrite LogProofs.frag_split, <- !app_assoc. reflexivity. }
  assert (Hh7 : length (hdr t d) = 7%nat) by reflexivity.
  rewrite Efile in *.
  exists its1, n, t, d, its2. split; [reflexivity|].
  destruct Hc as [[Hlo Hhi]|[Hlo Hhi]].
  - (* a checksum byte *)
    set (k := N.to_nat (off - s)).
    assert (Ek : N.to_nat off = (length A + k)%nat) by (subst k; lia).
    assert (Hk : (k < 4)%nat) by (subst k; lia).
    rewrite Ek in *. rewrite update_at_app_r.
    rewrite update_at_app_l by lia.
    rewrite app_nth2_plus in Hold, Hne. rewrite app_nth1 in Hold, Hne by lia.
    pose proof (bad_crc t d k v Hk Hv Hne Hd) as Hbad.
    subst A. rewrite <- app_assoc.
    apply (read_all_one_bad n t d _ d its2 Hbad Hu2 its1 Hl0).
    fold s. lia.
  - (* a payload byte *)
    set (k := N.to_nat (off - s - H)).
    assert (Ek : N.to_nat off = (length A + (length (hdr t d) + k))%nat)
      by (subst k; rewrite Hh7; lia).
    assert (Hk : (k < length d)%nat) by (subst k; unfold blen in Hhi; lia).
    rewrite Ek in *. rewrite update_at_app_r, update_at_app_r.
    rewrite update_at_app_l by lia.
    rewrite app_nth2_plus, app_nth2_plus in Hold, Hne. rewrite app_nth1 in Hold, Hne by lia.
    destruct (update_at_split d k v Hk) as [E1 E2]. rewrite E2.
    pose proof (bad_payload t d _ _ v _ E1 Hold Hv (fun e => Hne (eq_sym e)) Hd) as Hbad.
    subst A. rewrite <- app_assoc.
    apply (read_all_one_bad n t d _ _ its2 Hbad Hu2 its1 Hl0).
    fold s. lia.
Qed.

Theorem single_byte_items its off v :
  layout_ok 0 its -> protected_offset 0 its off = true ->
  v < 256 -> nth (N.to_nat off) (bytes_of its) 0 < 256 ->
  v <> nth (N.to_nat off) (bytes_of its) 0 ->
  size its <= (off / B + 1) * B ->
  exists l1 x l2,
    map fst (asm 0 false [] its) = l1 ++ x ++ l2 /\ (length x <= 1)%nat /\
    read_all B H crc true (update_at (N.to_nat off) v (bytes_of its)) = (l1 ++ l2, false).
Proof.
  intros Hl Hp Hv Hold Hne Hend.
  destruct (single_byte_read its off v Hl Hp Hv Hold Hne Hend)
    as [its1 [n [t [d [its2 [E Er]]]]]].
  destruct (records_one_bad its1 n t d its2) as [l1 [x [l2 [Ea [Hx Eres]]]]].
  exists l1, x, l2. rewrite E at 1. split; [exact Ea|]. split; [exact Hx|].
  rewrite Er, Eres. reflexivity.
Qed.

(** ** At the level of the writer *)

Lemma log_layout_exists recs :
  exists its, fst (append_all B H crc 0 recs) = bytes_of its /\ layout_ok 0 its.
Proof.
  assert (Hw : wst B 0 0).
  { pose proof (a3 wst_open 0) as Hw. unfold open_boff in Hw.
    rewrite N.mod_0_l in Hw by lia. exact Hw. }
  destruct (a4 sess_records_items recs 0 0 Hw) as [its [Hb [Hl _]]].
  destruct (LogProofs.sess_records_append_all B H crc recs 0 0) as [E1 _].
  exists its. rewrite <- E1, Hb. split; [reflexivity|exact Hl].
Qed.

Lemma layout_records recs its :
  fst (append_all B H crc 0 recs) = bytes_of its -> layout_ok 0 its ->
  map fst (asm 0 false [] its) = recs.
Proof.
  intros Ef Hl.
  pose proof (a4 log_roundtrip [recs]) as Hr.
  cbn [write_sessions concat app] in Hr. unfold open_boff in Hr. rewrite blen_nil in Hr.
  rewrite N.mod_0_l in Hr by lia. rewrite app_nil_r in Hr. rewrite Ef in Hr.
  pose proof (a4 read_all_layout its [] Hl (LogProofs.eof_nil B H crc H_is_7 B_big B_small _)) as Hr2.
  rewrite app_nil_r in Hr2. congruence.
Qed.

(** One session of records; one byte, inside the checksum or the payload of a fragment, is
    overwritten with a different byte; the file ends in the block that contains the changed
    byte (known finding D11: after a checksum failure the reader's block offset lags, so that
    later block boundaries are mis-framed; the claim therefore stops at the end of the block).
    Then the reader returns the appended records, in order, with at most one of them missing;
    in particular no record is invented or altered. *)
Theorem log_single_byte_detected_gen recs its off v :
  let file := fst (append_all B H crc 0 recs) in
  file = bytes_of its -> layout_ok 0 its ->
  protected_offset 0 its off = true ->
  v < 256 -> nth (N.to_nat off) file 0 < 256 -> v <> nth (N.to_nat off) file 0 ->
  blen file <= (off / B + 1) * B ->
  exists l1 x l2,
    recs = l1 ++ x ++ l2 /\ (length x <= 1)%nat /\
    read_all B H crc true (update_at (N.to_nat off) v file) = (l1 ++ l2, false).
Proof.
  cbv zeta. intros Ef Hl Hp Hv Hold Hne Hend.
  pose proof (layout_records recs its Ef Hl) as Er. rewrite Ef in *. rewrite <- Er.
  rewrite (a4 blen_bytes_of) in Hend.
  apply single_byte_items; assumption.
Qed.

(** ** Exactly one record is lost *)

(** the fragments the writer emits for a list of records *)
Fixpoint recs_items (boff : N) (recs : list bytes) : list item :=
  match recs with
  | [] => []
  | r :: rs =>
      append_items B H (append_fuel r) boff r true
      ++ recs_items (append_end B H (append_fuel r) boff r) rs
  end.

Lemma append_all_items : forall recs boff,
  fst (append_all B H crc boff recs) = bytes_of (recs_items boff recs).
Proof.
  induction recs as [|r rs IH]; intros boff; [reflexivity|].
  cbn [append_all recs_items fst snd]. unfold append. rewrite LogProofs.append_loop_items.
  cbn [fst snd]. rewrite LogProofs.bytes_of_app, IH. reflexivity.
Qed.

Lemma recs_items_layout : forall recs pos boff,
  wst B pos boff -> layout_ok pos (recs_items boff recs).
Proof.
  induction recs as [|r rs IH]; intros pos boff Hw; cbn [recs_items]; [exact I|].
  destruct (a4 append_items_layout (append_fuel r) boff r true pos Hw) as [Hl Hw'].
  apply (a3 layout_ok_app). split; [exact Hl|]. apply IH. exact Hw'.
Qed.

(** well-formed fragment sequences: Full | First Middle* Last *)
Fixpoint wfseq (i : bool) (its : list item) : bool :=
  match its with
  | [] => negb i
  | It n t d :: r =>
      if i then (if t =? 2 then wfseq true r else if t =? 3 then wfseq false r else false)
      else (if t =? 0 then wfseq false r else if t =? 1 then wfseq true r else false)
  end.

Lemma wf_append_items : forall fuel boff data first rest,
  completes B H fuel boff data = true ->
  wfseq (negb first) (append_items B H fuel boff data first ++ rest) = wfseq false rest.
Proof.
  induction fuel as [|fuel IH]; intros boff data first rest Hc; cbn [completes] in Hc;
    [discriminate|].
  cbn [append_items].
  destruct (dropN (w_n B H boff data) data) as [|x l] eqn:E.
  - pose proof (a4 drop_nil _ _ E) as En. unfold w_item. rewrite En, N.eqb_refl.
    destruct first; reflexivity.
  - pose proof (a4 drop_cons _ _ _ _ E) as En. rewrite <- E in *. clear E.
    unfold w_item at 1.
    destruct (blen data =? w_n B H boff data) eqn:E2; [lia|].
    etransitivity; [|apply (IH (w_boff2 B H boff data) _ false rest Hc)].
    destruct first; reflexivity.
Qed.

Lemma recs_items_wf : forall recs boff, wfseq false (recs_items boff recs) = true.
Proof.
  induction recs as [|r rs IH]; intros boff; cbn [recs_items]; [reflexivity|].
  pose proof (wf_append_items (append_fuel r) boff r true
                (recs_items (append_end B H (append_fuel r) boff r) rs)
                (a4 completes_append boff r)) as Hw.
  cbn [negb] in Hw. rewrite Hw. apply IH.
Qed.

Ltac type_cases t :=
  destruct (t =? 0) eqn:?E0; destruct (t =? 1) eqn:?E1; destruct (t =? 2) eqn:?E2;
  destruct (t =? 3) eqn:?E3; try (exfalso; lia).

Lemma wfseq_app x : forall i b y,
  wfseq i (x ++ y) = true -> wfseq (fst (fin i b x)) y = true.
Proof.
  induction x as [|[n t d] x IH]; intros i b y Hw; [exact Hw|].
  cbn [app wfseq] in Hw. cbn [fin]. unfold fstep.
  destruct i; type_cases t; try discriminate Hw; apply IH; exact Hw.
Qed.

Lemma drop_exact its : forall pos b,
  wfseq true its = true ->
  exists y, map fst (asm pos true b its) = y :: map fst (asm pos false [] its).
Proof.
  induction its as [|[n t d] its IH]; intros pos b Hw; cbn [wfseq] in Hw; [discriminate|].
  cbn [LogProofs.asm]. unfold fstep.
  type_cases t; try discriminate Hw.
  - apply IH. exact Hw.
  - exists (b ++ d). reflexivity.
Qed.

Lemma records_one_bad_wf its1 n t d its2 :
  wfseq false (its1 ++ It n t d :: its2) = true ->
  exists l1 y l2,
    map fst (asm 0 false [] (its1 ++ It n t d :: its2)) = l1 ++ y :: l2 /\
    map fst (asm 0 false [] its1) ++ map fst (asm 0 false [] its2) = l1 ++ l2.
Proof.
  intros Hw. apply (wfseq_app its1 false []) in Hw.
  rewrite LogProofs.asm_app, map_app. exists (map fst (asm 0 false [] its1)).
  set (st := fin false [] its1) in *. destruct st as [i1 b1]. cbn [fst snd] in *.
  cbn [wfseq] in Hw. cbn [LogProofs.asm]. unfold fstep.
  destruct i1; type_cases t; try discriminate Hw.
  - (* Middle inside a record *)
    match goal with |- context [LogProofs.asm H ?P true ?bb its2] =>
      destruct (drop_exact its2 P bb Hw) as [y Ey] end.
    exists y, (map fst (asm 0 false [] its2)). split; [|reflexivity].
    f_equal. rewrite Ey. f_equal. apply asm_pos_indep.
  - (* Last *)
    exists (b1 ++ d), (map fst (asm 0 false [] its2)). split; [|reflexivity].
    f_equal. cbn [map fst]. f_equal. apply asm_pos_indep.
  - (* Full *)
    exists d, (map fst (asm 0 false [] its2)). split; [|reflexivity].
    f_equal. cbn [map fst]. f_equal. apply asm_pos_indep.
  - (* First *)
    match goal with |- context [LogProofs.asm H ?P true ?bb its2] =>
      destruct (drop_exact its2 P bb Hw) as [y Ey] end.
    exists y, (map fst (asm 0 false [] its2)). split; [|reflexivity].
    f_equal. rewrite Ey. f_equal. apply asm_pos_indep.
Qed.

Lemma wst_0_0 : wst B 0 0.
Proof.
  pose proof (a3 wst_open 0) as Hw. unfold open_boff in Hw.
  rewrite N.mod_0_l in Hw by lia. exact Hw.
Qed.

(** With the fragment list the writer actually produced: the reader returns all records but
    exactly one (the record that contains the changed byte). *)
Theorem log_single_byte_drops_one_gen recs off v :
  let file := fst (append_all B H crc 0 recs) in
  let its := recs_items 0 recs in
  protected_offset 0 its off = true ->
  v < 256 -> nth (N.to_nat off) file 0 < 256 -> v <> nth (N.to_nat off) file 0 ->
  blen file <= (off / B + 1) * B ->
  file = bytes_of its /\ layout_ok 0 its /\
  exists l1 r l2,
    recs = l1 ++ r :: l2 /\
    read_all B H crc true (update_at (N.to_nat off) v file) = (l1 ++ l2, false).
Proof.
  cbv zeta. intros Hp Hv Hold Hne Hend.
  pose proof (append_all_items recs 0) as Ef.
  pose proof (recs_items_layout recs 0 0 wst_0_0) as Hl.
  pose proof (recs_items_wf recs 0) as Hwf.
  split; [exact Ef|]. split; [exact Hl|].
  set (its := recs_items 0 recs) in *. clearbody its.
  pose proof (layout_records recs _ Ef Hl) as Er. rewrite Ef in *.
  rewrite (a4 blen_bytes_of) in Hend.
  destruct (single_byte_read _ off v Hl Hp Hv Hold Hne Hend)
    as [its1 [n [t [d [its2 [E Eread]]]]]].
  rewrite Eread. rewrite E in Hwf, Er.
  destruct (records_one_bad_wf its1 n t d its2 Hwf) as [l1 [y [l2 [Ea Eres]]]].
  exists l1, y, l2. rewrite <- Er. split; [exact Ea|]. rewrite Eres. reflexivity.
Qed.

End CORRUPT.

(** * CRC-32C detects every single byte change *)

Lemma lxor_lt a b n : a < 2 ^ n -> b < 2 ^ n -> N.lxor a b < 2 ^ n.
Proof.
  intros Ha Hb.
  destruct (N.eq_dec (N.lxor a b) 0) as [E|E]; [rewrite E; apply N.neq_0_lt_0, N.pow_nonzero; discriminate|].
  apply N.log2_lt_pow2; [apply N.neq_0_lt_0; exact E|].
  pose proof (N.log2_lxor a b) as Hl.
  destruct (N.eq_dec a 0) as [Ea|Ea].
  - subst a. rewrite N.lxor_0_l in *. apply N.log2_lt_pow2; [apply N.neq_0_lt_0; exact E|exact Hb].
  - destruct (N.eq_dec b 0) as [Eb|Eb].
    + subst b. rewrite N.lxor_0_r in *. apply N.log2_lt_pow2; [apply N.neq_0_lt_0; exact E|exact Ha].
    + apply N.log2_lt_pow2 in Ha; [|apply N.neq_0_lt_0; exact Ea].
      apply N.log2_lt_pow2 in Hb; [|apply N.neq_0_lt_0; exact Eb].
      lia.
Qed.

Ltac bits_bool :=
  apply N.bits_inj; intros ?k; rewrite ?N.lxor_spec;
  repeat match goal with |- context [N.testbit ?a ?k] => destruct (N.testbit a k) end;
  reflexivity.

Lemma step_bit_lxor u w :
  crc_step_bit (N.lxor u w) = N.lxor (crc_step_bit u) (crc_step_bit w).
Proof.
  unfold crc_step_bit. rewrite N.lxor_spec, N.shiftr_lxor.
  destruct (N.testbit u 0), (N.testbit w 0); cbn [xorb]; bits_bool.
Qed.

Lemma step_bit_0 : crc_step_bit 0 = 0.
Proof. reflexivity. Qed.

Lemma step_bit_bound w : w < 2 ^ 32 -> crc_step_bit w < 2 ^ 32.
Proof.
  intros Hw. unfold crc_step_bit.
  assert (Hs : N.shiftr w 1 < 2 ^ 32).
  { rewrite N.shiftr_div_pow2. change (2 ^ 1) with 2. change (2 ^ 32) with 4294967296 in *. lia. }
  destruct (N.testbit w 0); [|exact Hs].
  apply lxor_lt; [exact Hs|]. unfold crc_poly_reflected. change (2 ^ 32) with 4294967296. lia.
Qed.

Lemma step_bit_nz w : w < 2 ^ 32 -> w <> 0 -> crc_step_bit w <> 0.
Proof.
  intros Hw Hnz E. apply Hnz. unfold crc_step_bit in E. change (2 ^ 32) with 4294967296 in Hw.
  pose proof (N.bit0_mod w) as Hb0. rewrite N.shiftr_div_pow2 in E. change (2 ^ 1) with 2 in E.
  destruct (N.testbit w 0); cbn [N.b2n] in Hb0.
  - apply N.lxor_eq in E. unfold crc_poly_reflected in E. lia.
  - lia.
Qed.

Fixpoint iter_step (k : nat) (w : N) : N :=
  match k with O => w | S k' => iter_step k' (crc_step_bit w) end.

Lemma iter_step_lxor k : forall u w,
  iter_step k (N.lxor u w) = N.lxor (iter_step k u) (iter_step k w).
Proof.
  induction k as [|k IH]; intros u w; cbn [iter_step]; [reflexivity|].
  rewrite step_bit_lxor. apply IH.
Qed.

Lemma iter_step_good k : forall w,
  w < 2 ^ 32 -> w <> 0 -> iter_step k w < 2 ^ 32 /\ iter_step k w <> 0.
Proof.
  induction k as [|k IH]; intros w Hw Hnz; cbn [iter_step]; [auto|].
  apply IH; [apply step_bit_bound; assumption|apply step_bit_nz; assumption].
Qed.

Lemma step_byte_iter c b : crc_step_byte c b = iter_step 8 (N.lxor c b).
Proof. reflexivity. Qed.

Lemma step_byte_lxor c dl b :
  crc_step_byte (N.lxor c dl) b = N.lxor (crc_step_byte c b) (iter_step 8 dl).
Proof.
  rewrite !step_byte_iter, <- iter_step_lxor. f_equal.
  rewrite !N.lxor_assoc. f_equal. apply N.lxor_comm.
Qed.

Lemma fold_lxor (l : bytes) : forall st dl,
  fold_left crc_step_byte l (N.lxor st dl)
  = N.lxor (fold_left crc_step_byte l st) (iter_step (8 * length l) dl).
Proof.
  induction l as [|b l IH]; intros st dl.
  - cbn [fold_left length Nat.mul iter_step]. reflexivity.
  - cbn [fold_left]. rewrite step_byte_lxor, IH. f_equal.
    replace (8 * length (b :: l))%nat with (8 + 8 * length l)%nat by (cbn [length]; lia).
    generalize (8 * length l)%nat. intros m. cbn [Nat.add iter_step]. reflexivity.
Qed.

Theorem crc32c_detects_single_byte : crc_detects_single_byte crc32c.
Proof.
  intros a x y c Hx Hy Hxy. unfold crc32c. rewrite !fold_left_app. cbn [fold_left].
  set (st := fold_left crc_step_byte a 4294967295).
  set (dl := N.lxor x y).
  assert (Hdl : dl < 2 ^ 32 /\ dl <> 0).
  { subst dl. split.
    - apply (N.lt_trans _ (2 ^ 8)); [apply lxor_lt; change (2 ^ 8) with 256; assumption|].
      change (2 ^ 8) with 256. change (2 ^ 32) with 4294967296. lia.
    - intros E. apply N.lxor_eq in E. contradiction. }
  destruct Hdl as [Hdl Hnz].
  replace (crc_step_byte st y) with (N.lxor (crc_step_byte st x) (iter_step 8 dl)).
  2:{ rewrite <- step_byte_lxor. rewrite !step_byte_iter. f_equal. subst dl.
      rewrite N.lxor_assoc. bits_bool. }
  rewrite fold_lxor.
  destruct (iter_step_good 8 dl Hdl Hnz) as [H1 H2].
  destruct (iter_step_good (8 * length c) _ H1 H2) as [H3 H4].
  set (d2 := iter_step (8 * length c) (iter_step 8 dl)) in *. clearbody d2.
  set (s1 := fold_left crc_step_byte c (crc_step_byte st x)). clearbody s1.
  unfold two32. change 4294967296 with (2 ^ 32).
  intros E.
  assert (Hk : N.log2 d2 < 32) by (apply N.log2_lt_pow2; [apply N.neq_0_lt_0|]; assumption).
  apply (f_equal (fun z => N.testbit z (N.log2 d2))) in E.
  rewrite !N.mod_pow2_bits_low in E by exact Hk.
  rewrite !N.lxor_spec in E. rewrite (N.bit_log2 d2 H4) in E.
  destruct (N.testbit s1 (N.log2 d2)), (N.testbit 4294967295 (N.log2 d2)); discriminate E.
Qed.


(** ** Instances at the parameters of the implementation *)

Theorem log_layout_exists_inst recs :
  exists its,
    fst (log_append_all 0 recs) = bytes_of crc32c its /\
    layout_ok BLOCK_SIZE_BYTES HEADER_LENGTH_BYTES 0 its.
Proof.
  apply (log_layout_exists BLOCK_SIZE_BYTES HEADER_LENGTH_BYTES crc32c).
  - reflexivity.
  - reflexivity.
  - reflexivity.
  - exact crc32c_bound.
Qed.

Theorem log_single_byte_detected :
  crc_detects_single_byte crc32c ->
  forall (recs : list bytes) (its : list item) (off v : N),
    let file := fst (log_append_all 0 recs) in
    file = bytes_of crc32c its ->
    layout_ok BLOCK_SIZE_BYTES HEADER_LENGTH_BYTES 0 its ->
    protected_offset HEADER_LENGTH_BYTES 0 its off = true ->
    v < 256 -> nth (N.to_nat off) file 0 < 256 -> v <> nth (N.to_nat off) file 0 ->
    blen file <= (off / BLOCK_SIZE_BYTES + 1) * BLOCK_SIZE_BYTES ->
    exists l1 x l2,
      recs = l1 ++ x ++ l2 /\ (length x <= 1)%nat /\
      log_read_all true (update_at (N.to_nat off) v file) = (l1 ++ l2, false).
Proof.
  intros Hcrc.
  apply (log_single_byte_detected_gen BLOCK_SIZE_BYTES HEADER_LENGTH_BYTES crc32c).
  - reflexivity.
  - reflexivity.
  - reflexivity.
  - exact crc32c_bound.
  - exact Hcrc.
Qed.

(** the weaker reading: nothing is invented, and the order is kept *)
Corollary log_single_byte_no_invented_record :
  crc_detects_single_byte crc32c ->
  forall (recs : list bytes) (its : list item) (off v : N),
    let file := fst (log_append_all 0 recs) in
    file = bytes_of crc32c its ->
    layout_ok BLOCK_SIZE_BYTES HEADER_LENGTH_BYTES 0 its ->
    protected_offset HEADER_LENGTH_BYTES 0 its off = true ->
    v < 256 -> nth (N.to_nat off) file 0 < 256 -> v <> nth (N.to_nat off) file 0 ->
    blen file <= (off / BLOCK_SIZE_BYTES + 1) * BLOCK_SIZE_BYTES ->
    forall r, In r (fst (log_read_all true (update_at (N.to_nat off) v file))) -> In r recs.
Proof.
  intros Hcrc recs its off v file Ef Hl Hp Hv Hold Hne Hend r Hin.
  destruct (log_single_byte_detected Hcrc recs its off v Ef Hl Hp Hv Hold Hne Hend)
    as [l1 [x [l2 [Er [_ Eread]]]]].
  fold file in Eread. rewrite Eread in Hin. cbn [fst] in Hin. rewrite Er.
  apply in_app_or in Hin. apply in_or_app.
  destruct Hin as [Hin|Hin]; [left; exact Hin|right; apply in_or_app; right; exact Hin].
Qed.

(** at the level of the write-ahead log: recovery loses at most the one batch whose record
    contains the changed byte, and never replays a batch that was not written *)
Corollary wal_single_byte_detected :
  crc_detects_single_byte crc32c ->
  forall (bs : list batch) (its : list item) (off v : N),
    batches_ok bs ->
    let file := wal_bytes bs in
    file = bytes_of crc32c its ->
    layout_ok BLOCK_SIZE_BYTES HEADER_LENGTH_BYTES 0 its ->
    protected_offset HEADER_LENGTH_BYTES 0 its off = true ->
    v < 256 -> nth (N.to_nat off) file 0 < 256 -> v <> nth (N.to_nat off) file 0 ->
    blen file <= (off / BLOCK_SIZE_BYTES + 1) * BLOCK_SIZE_BYTES ->
    exists b1 x b2,
      bs = b1 ++ x ++ b2 /\ (length x <= 1)%nat /\
      wal_recover (update_at (N.to_nat off) v file) = Some (b1 ++ b2).
Proof.
  intros Hcrc bs its off v Hok file.
  assert (Efile : file = fst (log_append_all 0 (map batch_bytes bs))).
  { unfold file, wal_bytes, wal_bytes_sessions, log_write_sessions. cbn [map write_sessions].
    unfold open_boff. reflexivity. }
  rewrite Efile. intros Ef Hl Hp Hv Hold Hne Hend.
  destruct (log_single_byte_detected Hcrc (map batch_bytes bs) its off v Ef Hl Hp Hv Hold Hne Hend)
    as [l1 [x [l2 [Er [Hx Eread]]]]].
  apply map_eq_app in Er. destruct Er as [b1 [b' [Eb [E1 E']]]].
  apply map_eq_app in E'. destruct E' as [bx [b2 [Eb' [Ex E2]]]].
  exists b1, bx, b2. subst bs b' l1 x l2.
  split; [reflexivity|]. split; [rewrite map_length in Hx; exact Hx|].
  unfold wal_recover. rewrite Eread. cbn [fst]. rewrite <- map_app. apply decode_all_map.
  unfold batches_ok in *. rewrite !Forall_app in Hok. rewrite Forall_app. tauto.
Qed.


(** exactly one record is lost, with the fragment list the writer produced *)
Theorem log_single_byte_drops_one :
  crc_detects_single_byte crc32c ->
  forall (recs : list bytes) (off v : N),
    let file := fst (log_append_all 0 recs) in
    let its := recs_items BLOCK_SIZE_BYTES HEADER_LENGTH_BYTES 0 recs in
    protected_offset HEADER_LENGTH_BYTES 0 its off = true ->
    v < 256 -> nth (N.to_nat off) file 0 < 256 -> v <> nth (N.to_nat off) file 0 ->
    blen file <= (off / BLOCK_SIZE_BYTES + 1) * BLOCK_SIZE_BYTES ->
    file = bytes_of crc32c its /\
    layout_ok BLOCK_SIZE_BYTES HEADER_LENGTH_BYTES 0 its /\
    exists l1 r l2,
      recs = l1 ++ r :: l2 /\
      log_read_all true (update_at (N.to_nat off) v file) = (l1 ++ l2, false).
Proof.
  intros Hcrc.
  apply (log_single_byte_drops_one_gen BLOCK_SIZE_BYTES HEADER_LENGTH_BYTES crc32c).
  - reflexivity.
  - reflexivity.
  - reflexivity.
  - exact crc32c_bound.
  - exact Hcrc.
Qed.

(** the same with the checksum property discharged by [crc32c_detects_single_byte]: no
    hypothesis about the checksum is left *)
Theorem log_single_byte_detected_crc32c :
  forall (recs : list bytes) (its : list item) (off v : N),
    let file := fst (log_append_all 0 recs) in
    file = bytes_of crc32c its ->
    layout_ok BLOCK_SIZE_BYTES HEADER_LENGTH_BYTES 0 its ->
    protected_offset HEADER_LENGTH_BYTES 0 its off = true ->
    v < 256 -> nth (N.to_nat off) file 0 < 256 -> v <> nth (N.to_nat off) file 0 ->
    blen file <= (off / BLOCK_SIZE_BYTES + 1) * BLOCK_SIZE_BYTES ->
    exists l1 x l2,
      recs = l1 ++ x ++ l2 /\ (length x <= 1)%nat /\
      log_read_all true (update_at (N.to_nat off) v file) = (l1 ++ l2, false).
Proof. exact (log_single_byte_detected crc32c_detects_single_byte). Qed.

Theorem log_single_byte_drops_one_crc32c :
  forall (recs : list bytes) (off v : N),
    let file := fst (log_append_all 0 recs) in
    let its := recs_items BLOCK_SIZE_BYTES HEADER_LENGTH_BYTES 0 recs in
    protected_offset HEADER_LENGTH_BYTES 0 its off = true ->
    v < 256 -> nth (N.to_nat off) file 0 < 256 -> v <> nth (N.to_nat off) file 0 ->
    blen file <= (off / BLOCK_SIZE_BYTES + 1) * BLOCK_SIZE_BYTES ->
    file = bytes_of crc32c its /\
    layout_ok BLOCK_SIZE_BYTES HEADER_LENGTH_BYTES 0 its /\
    exists l1 r l2,
      recs = l1 ++ r :: l2 /\
      log_read_all true (update_at (N.to_nat off) v file) = (l1 ++ l2, false).
Proof. exact (log_single_byte_drops_one crc32c_detects_single_byte). Qed.

Theorem wal_single_byte_detected_crc32c :
  forall (bs : list batch) (its : list item) (off v : N),
    batches_ok bs ->
    let file := wal_bytes bs in
    file = bytes_of crc32c its ->
    layout_ok BLOCK_SIZE_BYTES HEADER_LENGTH_BYTES 0 its ->
    protected_offset HEADER_LENGTH_BYTES 0 its off = true ->
    v < 256 -> nth (N.to_nat off) file 0 < 256 -> v <> nth (N.to_nat off) file 0 ->
    blen file <= (off / BLOCK_SIZE_BYTES + 1) * BLOCK_SIZE_BYTES ->
    exists b1 x b2,
      bs = b1 ++ x ++ b2 /\ (length x <= 1)%nat /\
      wal_recover (update_at (N.to_nat off) v file) = Some (b1 ++ b2).
Proof. exact (wal_single_byte_detected crc32c_detects_single_byte). Qed.

(** * T5. Non-vacuity on small instances (block size 32) *)

Fixpoint list_eqb {A} (eqb : A -> A -> bool) (a b : list A) : bool :=
  match a, b with
  | [], [] => true
  | x :: a', y :: b' => eqb x y && list_eqb eqb a' b'
  | _, _ => false
  end.

Definition wop_eqb (a b : wop) : bool :=
  match a, b with
  | WPut k v, WPut k' v' => list_eqb N.eqb k k' && list_eqb N.eqb v v'
  | WDel k, WDel k' => list_eqb N.eqb k k'
  | _, _ => false
  end.

Definition batch_eqb (a b : batch) : bool :=
  (fst a =? fst b) && list_eqb wop_eqb (snd a) (snd b).

Definition opt_batches_eqb (a : option (list batch)) (b : list batch) : bool :=
  match a with Some l => list_eqb batch_eqb l b | None => false end.

(** recovery with the small block size *)
Definition wal_recover32 (file : bytes) : option (list batch) :=
  decode_all (fst (read_all 32 7 crc32c true file)).

Definition ex_batches : list batch :=
  [(1, [WPut [1] [2]; WDel [3]]); (3, [WPut (repeat 7 40) [9]]); (4, [WDel [5]])].
Definition ex_file : bytes := write_sessions 32 7 crc32c [] [map batch_bytes ex_batches].
(** end offsets of the three records *)
Definition ex_ends : list N :=
  map snd (snd (script_run 32 7 crc32c [LSess (map batch_bytes ex_batches) None])).

(** the log cut at every byte: recovery returns exactly the batches whose record ends at or
    before the cut *)
Lemma ex_cut_everywhere :
  length ex_file = 124%nat /\ ex_ends = [24; 105; 124] /\
  forallb (fun n =>
             opt_batches_eqb
               (wal_recover32 (takeN (N.of_nat n) ex_file))
               (firstn (length (filter (fun e => e <=? N.of_nat n) ex_ends)) ex_batches))
          (seq 0 (S (length ex_file))) = true.
Proof. vm_compute. repeat split. Qed.

Definition ex_small : list batch := [(1, [WDel [3]]); (2, [WDel [4]]); (3, [WDel [5]])].
Definition ex_small_file : bytes := write_sessions 32 7 crc32c [] [map batch_bytes ex_small].

(** a changed payload byte in the last block of the file drops exactly the batch it belongs to
    (offset 40 lies in the second fragment of the second record, which spans bytes 19..45) *)
Lemma ex_corrupt_payload_drops_one :
  length ex_small_file = 64%nat /\
  wal_recover32 ex_small_file = Some ex_small /\
  wal_recover32 (update_at 40 77 ex_small_file) = Some [(1, [WDel [3]]); (3, [WDel [5]])].
Proof. vm_compute. repeat split. Qed.

(** sensitivity (known finding D11): the same change in a block that is not the last one (offset
    24, first fragment of the second record) mis-frames the following block, and the third
    batch is lost as well; this is why [log_single_byte_detected] stops at the end of the
    block. The length bytes are not protected at all (offset 4: everything is lost). *)
Lemma ex_corrupt_earlier_block_loses_more :
  wal_recover32 (update_at 24 77 ex_small_file) = Some [(1, [WDel [3]])] /\
  wal_recover32 (update_at 4 77 ex_small_file) = Some [].
Proof. vm_compute. repeat split. Qed.
