(** The full stack: the logical LSM state machine ([model/Lsm.v]) and the persistence protocol
    ([model/Proto.v], [model/Recover.v]) in lockstep.
    S1 the coupling ([StackDefs.Coupled]) is preserved by every joint step ([cpl_write], [cpl_rotate],
       [cpl_flush], [install_coupled]);
    S2 [joint_step] / [joint_step_h]: the protocol operation a logical step determines satisfies the
       side conditions of the protocol's crash-safety theorem ([step_okP]: [install_preserves] is
       discharged from [LsmProofs.c_post_visible], the structural conjuncts of [install_okb] are
       proved; with the monotone history [JointH] only numeric side conditions remain) and leads to
       a coupled state; [compact_install_ok] spells out the compaction case;
    S3 [stack_run] / [stack_crash_get]: every joint run from the freshly created database, every
       crash point, every tear: the image recovers, and a lookup in the recovered contents returns
       what [db_get] (the real search path) returns in the logical state reached by the
       acknowledged writes; [joint_get]: the two sides agree at every step boundary;
    S4 [reopen_joint] / [reopen_jointH] / [reopen_get]: the logical state rebuilt by [p_open] is
       well formed and coupled again, for every crashed directory that is the image of a logical
       state ([LogicalImg], [HistImg]); every step boundary, every crash image of a step
       ([jrun_crash_logical], [jrun_crash_hist]) and every crash image of a recovery
       ([open_crash_logical], [open_crash_hist]) is one; [joint_session_safe_h] / [jreach_h_get]:
       any number of sessions, each ending in a crash anywhere;
    S5 [ex_every_crash_point]: an evaluated run, every crash point reopened.
    Finding: the counters differ by 2 ([init_counter_offset]). No axioms. *)
From Coq Require Import Lia ZArith ZifyN ZifyBool ZifyNat Arith List NArith Bool Permutation Sorted.
From RainVerif Require Import Params.
From RainVerif.model Require Import Bytes Key Block Crc Log Table TableSpec Version Lsm LsmSpec DbSpec Codec WalModel Gc Recover Proto.
From RainVerif.proofs Require Import LogXProofs ImgProofs ManifestSem ContentsProofs ProtoDurable ProtoSteps ProtoReplay ProtoOpen ProtoInstall ProtoProofs ProtoCrash ProtoHistory.
From RainVerif.proofs Require Import KeyProofs GetProofs CompactProofs SelectProofs LsmProofs StackDefs.
From RainVerif.proofs Require CodecProofs WalProofs.
Import ListNotations.
Open Scope N_scope.
Arguments N.add : simpl never.
Arguments N.sub : simpl never.
Arguments N.mul : simpl never.
Arguments N.div : simpl never.
Arguments N.modulo : simpl never.
Arguments N.eqb : simpl never.
Arguments N.ltb : simpl never.
Arguments N.leb : simpl never.
Arguments N.min : simpl never.
Arguments N.max : simpl never.
Arguments N.pow : simpl never.
Arguments N.of_nat : simpl never.
Arguments N.to_nat : simpl never.
Arguments N.compare : simpl never.

Lemma fresh_lsm_reachable mfs : lsm_run true true mfs [SRotate; SFlush] = fresh_lsm.
Proof. reflexivity. Qed.

Lemma fresh_lsm_wf : lsm_wf_b fresh_lsm = true.
Proof. vm_compute. reflexivity. Qed.

Lemma apply_batch_fold b : forall mem seq,
  apply_batch mem seq b
  = (fold_left (fun m e => insert_entry e m) (ops_entries (seq + 1) b) mem, seq + N.of_nat (length b)).
Proof.
  induction b as [|o r IH]; intros mem seq.
  - cbn [apply_batch ops_entries fold_left length]. f_equal. lia.
  - destruct o as [k v|k]; cbn [apply_batch ops_entries fold_left length Recover.wop_entry]; rewrite IH;
      f_equal; lia.
Qed.

Section CPL.
Variable mfs : N.
Notation lstep := (lsm_step true true mfs).

Lemma file_entries_store l l' n : l_store l' = l_store l -> file_entries l' n = file_entries l n.
Proof. intros E. unfold file_entries. rewrite E. reflexivity. Qed.

Lemma cpl_write l d b : Coupled l d -> Coupled (lstep l (SWrite b)) (fst (p_write d b)).
Proof.
  intros [Hm Hi Hv Hs Hn Hp Ht]. unfold lsm_step. rewrite Hp. unfold p_write. cbn [fst].
  rewrite apply_batch_fold. cbn [fst snd].
  constructor; cbn [pd_mem pd_imm pd_ver pd_seq pd_next pd_img l_mem l_imm l_ver l_seq l_next l_panic].
  - unfold batch_entries. cbn [fst snd]. rewrite Hm, Hs. reflexivity.
  - exact Hi.
  - exact Hv.
  - rewrite Hs. reflexivity.
  - exact Hn.
  - reflexivity.
  - intros n Hin. exact (Ht n Hin).
Qed.

Lemma live_write d b : TabsLive d -> TabsLive (fst (p_write d b)).
Proof. intros H n Hn. apply H. exact Hn. Qed.

Lemma cpl_rotate l d : Coupled l d -> Coupled (lstep l SRotate) (fst (p_rotate d)).
Proof.
  intros [Hm Hi Hv Hs Hn Hp Ht]. unfold lsm_step. rewrite Hp. unfold p_rotate. rewrite Hi.
  destruct (l_imm l) as [i|] eqn:EI; cbn [fst].
  - constructor; auto. rewrite Hi. symmetry. exact EI.
  - constructor; cbn [pd_mem pd_imm pd_ver pd_seq pd_next pd_img l_mem l_imm l_ver l_seq l_next l_panic]; auto; congruence.
Qed.

Lemma live_rotate d : TabsLive d -> TabsLive (fst (p_rotate d)).
Proof.
  intros H n Hn. unfold p_rotate in *. destruct (pd_imm d); cbn [fst] in *; apply H; exact Hn.
Qed.
End CPL.

(** * Tables of the directory under the operations of a step *)

Definition nontable (o : fsop) : Prop :=
  match o with
  | FsCreate (FTable _) | FsTable _ _ | FsRemove (FTable _) => False
  | _ => True
  end.

Lemma nontable_tables img o : nontable o -> i_tables (apply_fsop img o) = i_tables img.
Proof.
  destruct o as [f|f x|n es|n|f]; try destruct f; cbn [nontable apply_fsop i_tables]; try tauto; intros _;
    try reflexivity.
  destruct (lookupN n (i_temps img)); reflexivity.
Qed.

Lemma nontable_tables_list ops : forall img, Forall nontable ops -> i_tables (apply_fsops img ops) = i_tables img.
Proof.
  induction ops as [|o ops IH]; intros img H; [reflexivity|].
  cbn [apply_fsops fold_left]. pose proof (IH (apply_fsop img o) (Forall_inv_tail H)) as E.
  unfold apply_fsops in E. rewrite E. apply nontable_tables. exact (Forall_inv H).
Qed.

Lemma laa_fields d c seq d2 ops :
  log_and_apply d c seq = Some (d2, ops) ->
  apply_edit (pd_ver d) (edit_of c) = Some (pd_ver d2) /\
  i_tables (pd_img d2) = i_tables (pd_img d) /\
  pd_next d2 = pd_next d /\ pd_seq d2 = pd_seq d /\ pd_mem d2 = pd_mem d /\ pd_imm d2 = pd_imm d.
Proof.
  unfold log_and_apply. destruct (apply_edit (pd_ver d) (edit_of c)) as [v'|]; [|discriminate].
  intros H. injection H as <- <-. cbn [pd_ver pd_img pd_next pd_seq pd_mem pd_imm].
  split; [reflexivity|]. split; [|repeat split].
  apply nontable_tables_list.
  destruct (pd_manifest_open d); cbn [app]; repeat constructor.
Qed.

Lemma laa_none d c seq : log_and_apply d c seq = None <-> apply_edit (pd_ver d) (edit_of c) = None.
Proof.
  unfold log_and_apply. destruct (apply_edit (pd_ver d) (edit_of c)); split; congruence.
Qed.

(** removing files *)
Lemma remove_tables_lookup fs : forall img n,
  ~ In (FTable n) fs -> lookupN n (i_tables (apply_fsops img (map FsRemove fs))) = lookupN n (i_tables img).
Proof.
  induction fs as [|f fs IH]; intros img n H; [reflexivity|].
  cbn [map apply_fsops fold_left]. pose proof (IH (apply_fsop img (FsRemove f)) n) as E.
  unfold apply_fsops in E. rewrite E by (intros X; apply H; right; exact X).
  destruct f; cbn [apply_fsop i_tables]; try reflexivity.
  rewrite lookupN_del_assoc. destruct (n =? n0) eqn:En; [|reflexivity].
  apply N.eqb_eq in En. subst. exfalso. apply H. left. reflexivity.
Qed.

Lemma remove_tables_names fs : forall img n,
  In n (map fst (i_tables (apply_fsops img (map FsRemove fs)))) ->
  In n (map fst (i_tables img)) /\ ~ In (FTable n) fs.
Proof.
  induction fs as [|f fs IH]; intros img n H; [split; [exact H|intros []]|].
  cbn [map apply_fsops fold_left] in H. pose proof (IH (apply_fsop img (FsRemove f)) n) as E.
  unfold apply_fsops in E. specialize (E H). destruct E as [E1 E2].
  destruct f; cbn [apply_fsop i_tables] in E1; try (split; [exact E1|intros [X|X]; [discriminate|exact (E2 X)]]).
  rewrite map_fst_del_assoc in E1. apply filter_In in E1. destruct E1 as [E1 E3].
  split; [exact E1|]. intros [X|X]; [|exact (E2 X)]. injection X as ->.
  rewrite N.eqb_refl in E3. discriminate.
Qed.

Lemma gc_fields d :
  let d' := fst (do_gc d) in
  pd_ver d' = pd_ver d /\ pd_next d' = pd_next d /\ pd_seq d' = pd_seq d /\ pd_mem d' = pd_mem d /\
  pd_imm d' = pd_imm d /\
  (forall n, In n (version_numbers (pd_ver d)) ->
     lookupN n (i_tables (pd_img d')) = lookupN n (i_tables (pd_img d))) /\
  TabsLive d'.
Proof.
  cbv zeta. unfold do_gc. cbn [fst with_img pd_ver pd_next pd_seq pd_mem pd_imm pd_img].
  repeat (split; [reflexivity|]). split.
  - intros n Hn. unfold gc_ops. apply remove_tables_lookup. intros Hin. apply filter_In in Hin.
    destruct Hin as [_ Hk]. cbn [keep gc_view_of g_inuse g_live app] in Hk.
    apply negb_true_iff in Hk. unfold memN in Hk.
    assert (existsb (N.eqb n) (version_numbers (pd_ver d)) = true); [|congruence].
    apply existsb_eqb_In. exact Hn.
  - intros n Hn. unfold TabsLive, with_img in *. cbn [pd_img pd_ver] in *. unfold gc_ops in Hn.
    apply remove_tables_names in Hn. destruct Hn as [H1 H2].
    destruct (existsb (N.eqb n) (version_numbers (pd_ver d))) eqn:E; [apply existsb_eqb_In; exact E|].
    exfalso. apply H2. apply filter_In. split.
    + unfold image_files. rewrite !in_app_iff. right. left. apply in_map_iff in H1. destruct H1 as (p & <- & Hp).
      apply in_map_iff. exists p. split; [reflexivity|exact Hp].
    + cbn [keep gc_view_of g_inuse g_live app]. unfold memN. rewrite E. reflexivity.
Qed.

Lemma table_entries_of_some img n es :
  table_entries_of img n = Some es <-> lookupN n (i_tables img) = Some (Some es).
Proof.
  unfold table_entries_of. destruct (lookupN n (i_tables img)) as [[x|]|]; split; intros H; try discriminate;
    injection H as <-; reflexivity.
Qed.


(** * [p_flush] and [p_install] field by field *)

Definition flush_added (num level size : N) (es : list entry) : list (nat * fmeta) :=
  match table_meta num size es with Some f => [(N.to_nat level, f)] | None => [] end.

Lemma p_flush_spec d level size seq es :
  pd_imm d = Some es ->
  match apply_edit (pd_ver d) (mkVE [] (flush_added (pd_next d + 1) level size es)) with
  | None => p_flush d level size seq = None
  | Some v' =>
      exists d' ops, p_flush d level size seq = Some (d', ops) /\
        pd_ver d' = v' /\ pd_next d' = pd_next d + 1 /\ pd_seq d' = pd_seq d /\ pd_mem d' = pd_mem d /\
        pd_imm d' = None /\ TabsLive d' /\
        forall n, In n (version_numbers v') ->
          lookupN n (i_tables (pd_img d'))
          = lookupN n (i_tables (apply_fsops (pd_img d) (table_ops (pd_next d + 1) es)))
  end.
Proof.
  intros Himm. unfold p_flush. rewrite Himm.
  set (num := pd_next d + 1).
  match goal with |- context [log_and_apply ?a ?b seq] => set (d1 := a); set (c := b) end.
  assert (Ee : edit_of c = mkVE [] (flush_added num level size es)).
  { unfold edit_of, c, flush_added. cbn [vc_deleted vc_new map].
    destruct (table_meta num size es); reflexivity. }
  destruct (log_and_apply d1 c seq) as [[d2 ops2]|] eqn:E.
  - destruct (laa_fields _ _ _ _ _ E) as (H1 & H2 & H3 & H4 & H5 & H6).
    rewrite Ee in H1. cbn [d1 pd_ver] in H1. rewrite H1.
    set (d3 := mkPD (pd_img d2) (pd_ver d2) (pd_pointers d2) (pd_next d2) (pd_manifest d2)
                    (pd_manifest_open d2) (pd_manifest_boff d2) (pd_vs_wal d2) (pd_prev_wal d2)
                    (pd_wal d2) (pd_wal_boff d2) (pd_seq d2) (pd_mem d2) None).
    pose proof (gc_fields d3) as G. cbv zeta in G. destruct (do_gc d3) as [d4 ops4]. cbn [fst] in G.
    destruct G as (G1 & G2 & G3 & G4 & G5 & G6 & G7).
    exists d4, (table_ops num es ++ ops2 ++ ops4). split; [reflexivity|].
    cbn [d3 pd_ver pd_next pd_seq pd_mem pd_imm pd_img] in *.
    split; [exact G1|]. split; [rewrite G2, H3; reflexivity|]. split; [rewrite G3, H4; reflexivity|].
    split; [rewrite G4, H5; reflexivity|]. split; [exact G5|]. split; [exact G7|].
    intros n Hn. rewrite (G6 n Hn), H2. reflexivity.
  - apply laa_none in E. rewrite Ee in E. cbn [d1 pd_ver] in E. rewrite E. reflexivity.
Qed.

Lemma p_install_spec d deleted added ptrs seq :
  match apply_edit (pd_ver d) (edit_of (mkVC None None None None ptrs deleted (map fst added))) with
  | None => p_install d deleted added ptrs seq = None
  | Some v' =>
      exists d' ops, p_install d deleted added ptrs seq = Some (d', ops) /\
        pd_ver d' = v' /\ pd_next d' = snd (install_parts d added) /\ pd_seq d' = pd_seq d /\
        pd_mem d' = pd_mem d /\ pd_imm d' = pd_imm d /\ TabsLive d' /\
        forall n, In n (version_numbers v') ->
          lookupN n (i_tables (pd_img d'))
          = lookupN n (i_tables (apply_fsops (pd_img d) (fst (install_parts d added))))
  end.
Proof.
  unfold p_install, install_parts. cbn [fst snd].
  match goal with |- context [log_and_apply ?a ?b seq] => set (d1 := a); set (c := b) end.
  destruct (log_and_apply d1 c seq) as [[d2 ops2]|] eqn:E.
  - destruct (laa_fields _ _ _ _ _ E) as (H1 & H2 & H3 & H4 & H5 & H6).
    cbn [d1 pd_ver] in H1. rewrite H1.
    pose proof (gc_fields d2) as G. cbv zeta in G. destruct (do_gc d2) as [d3 ops3]. cbn [fst] in G.
    destruct G as (G1 & G2 & G3 & G4 & G5 & G6 & G7).
    eexists d3, _. split; [reflexivity|].
    cbn [d1 pd_ver pd_next pd_seq pd_mem pd_imm pd_img] in *.
    split; [exact G1|]. split; [rewrite G2, H3; reflexivity|]. split; [rewrite G3, H4; reflexivity|].
    split; [rewrite G4, H5; reflexivity|]. split; [rewrite G5, H6; reflexivity|]. split; [exact G7|].
    intros n Hn. rewrite (G6 n Hn), H2. reflexivity.
  - apply laa_none in E. cbn [d1 pd_ver] in E. rewrite E. reflexivity.
Qed.

(** * Versions *)

Lemma apply_edit_nums v e v' n :
  apply_edit v e = Some v' -> In n (version_numbers v') ->
  In n (version_numbers v) \/ In n (map (fun p => fm_num (snd p)) (ve_added e)).
Proof.
  intros He Hn. apply vn_in in Hn. destruct Hn as (i & f & Hf & E).
  pose proof (nth_in_lt _ _ _ Hf) as L. rewrite (apply_edit_len _ _ _ He) in L.
  pose proof (apply_edit_In _ _ _ He i f L) as K. unfold level_files in K.
  apply K in Hf. destruct Hf as [[Hf|Hf] _].
  - left. apply vn_in. eauto.
  - right. apply in_map_iff. exists (i, f). auto.
Qed.

Lemma vn_levels v n : In n (version_numbers v) <-> exists i f, In f (level_files v i) /\ fm_num f = n.
Proof. apply vn_in. Qed.

(** the empty edit leaves a version built from a manifest unchanged (its levels are sorted) *)
Lemma merge_files_nil_r fuel X : merge_files (S fuel) X [] = X.
Proof. destruct X; reflexivity. Qed.

Lemma apply_level_empty_edit j B :
  StronglySorted flt B -> (j <> O -> check_disjoint B = true) -> apply_level j B [] [] = Some B.
Proof.
  intros S C. rewrite apply_level_eq. cbv zeta. cbn [sort_fmeta fold_right length].
  rewrite merge_files_nil_r, (sort_id B S), filter_keepb_nil.
  destruct (Nat.eqb_spec j 0) as [E|E]; [reflexivity|]. rewrite (C E). reflexivity.
Qed.

Lemma ael_id : forall v k,
  (forall i, (i < length v)%nat -> apply_level (k + i) (nth i v []) [] [] = Some (nth i v [])) ->
  apply_edit_levels v (mkVE [] []) k = Some v.
Proof.
  induction v as [|B rest IH]; intros k H; [reflexivity|].
  rewrite ael_cons. change (ae_del (mkVE [] []) k) with (@nil N). change (ae_add (mkVE [] []) k) with (@nil fmeta).
  pose proof (H O ltac:(cbn [length]; lia)) as H0. rewrite Nat.add_0_r in H0. cbn [nth] in H0. rewrite H0.
  rewrite (IH (S k)); [reflexivity|]. intros i Li. specialize (H (S i) ltac:(cbn [length]; lia)).
  rewrite Nat.add_succ_r in H. exact H.
Qed.

Definition VerSorted (v : version) : Prop := apply_edit v (mkVE [] []) = Some v.

Lemma built_sorted a v :
  NoDup (lvl_nums (ma_added a)) -> build_levels 0 NLEVELS a = Some v -> VerSorted v.
Proof.
  intros ND Hb. destruct (bl_char _ _ _ _ Hb) as [Lv Hv]. unfold VerSorted, apply_edit.
  apply ael_id. intros i Li. rewrite Lv in Li. specialize (Hv i Li). cbn [Nat.add] in *.
  apply apply_level_empty_edit.
  - rewrite (apply_level_res_nil _ _ _ _ Hv). apply filter_ssorted. apply sort_ssorted.
    apply (nodup_level _ i ND).
  - apply (apply_level_facts _ _ _ _ _ Hv).
Qed.

Lemma InvE_sorted d acked : InvE d acked -> VerSorted (pd_ver d).
Proof.
  intros (dv & bsF & Q & older & bsM & I & _).
  destruct (rec_dur _ _ _ _ (iv_rec _ _ _ _ _ _ I)) as (_ & _ & (_ & _ & _ & _ & Hb) & _ & _).
  rewrite (iv_ver _ _ _ _ _ _ I). apply (built_sorted _ _ (proj1 (iv_hist _ _ _ _ _ _ I)) Hb).
Qed.

Section CPL2.
Variable mfs : N.
Notation lstep := (lsm_step true true mfs).

Lemma table_entries_lookup img img' n :
  lookupN n (i_tables img') = lookupN n (i_tables img) -> table_entries_of img' n = table_entries_of img n.
Proof. intros E. unfold table_entries_of. rewrite E. reflexivity. Qed.

Lemma cpl_flush l d acked :
  lsm_wf_b l = true -> l_seq l <= MAX_SEQ -> Coupled l d -> InvE d acked -> TabsLive d ->
  forall lv sz q, flush_pops mfs l = [QFlush lv sz q] ->
  exists d' ops, p_flush d lv sz q = Some (d', ops) /\ Coupled (do_flush mfs l) d' /\ TabsLive d'.
Proof.
  intros Hwf Hseq C I TL lv sz q Hp. pose proof (WF_of_b _ Hwf) as W.
  destruct (flush_ok mfs l W Hseq) as [W' _]. pose proof (wf_panic _ W') as NP.
  destruct C as [Hm Hi Hv Hs Hn Hpn Ht].
  unfold flush_pops in Hp. unfold do_flush in *. destruct (l_imm l) as [[|e0 r]|] eqn:EI; [| |discriminate].
  - injection Hp as <- <- <-.
    pose proof (p_flush_spec d 0 0 (l_seq l) [] ltac:(rewrite Hi; reflexivity)) as S.
    unfold flush_added in S. rewrite table_meta_nil, (InvE_sorted _ _ I) in S.
    destruct S as (d' & ops & E & S1 & S2 & S3 & S4 & S5 & S6 & S7). exists d', ops. split; [exact E|].
    split; [|exact S6].
    constructor; cbn [l_mem l_imm l_ver l_seq l_next l_panic]; try congruence.
    intros n Hin. transitivity (table_entries_of (pd_img d) n); [|exact (Ht n Hin)].
    apply table_entries_lookup. rewrite S7 by (rewrite Hv; exact Hin). reflexivity.
  - destruct (last_key (e0 :: r)) as [lk|] eqn:LK; [|discriminate]. injection Hp as <- <- <-.
    set (es := e0 :: r) in *.
    set (level := pick_level_for_memtable_output (l_ver l) mfs (ik_user (fst e0)) (ik_user lk)) in *.
    pose proof (p_flush_spec d (N.of_nat level) (ents_size es) (l_seq l) es ltac:(rewrite Hi; reflexivity)) as S.
    assert (Ea : flush_added (pd_next d + 1) (N.of_nat level) (ents_size es) es
                 = [(level, mkFM (l_next l + 1) (ents_size es) (fst e0) lk)]).
    { unfold flush_added, table_meta. rewrite LK. unfold es at 1. cbn [first_key]. rewrite Nat2N.id, Hn. reflexivity. }
    rewrite Ea, Hv in S. fold (ents_size es) in W', NP |- *.
    destruct (apply_edit (l_ver l) (mkVE [] [(level, mkFM (l_next l + 1) (ents_size es) (fst e0) lk)])) as [v'|] eqn:EA;
      [|cbn [set_panic l_panic] in NP; discriminate].
    destruct S as (d' & ops & E & S1 & S2 & S3 & S4 & S5 & S6 & S7). exists d', ops. split; [exact E|].
    split; [|exact S6].
    constructor; cbn [l_mem l_imm l_ver l_seq l_next l_panic]; try congruence.
    intros n Hin. unfold table_entries_of. rewrite (S7 n Hin), table_ops_tables. unfold es at 1.
    unfold file_entries. cbn [l_store find fst]. rewrite Hn, (N.eqb_sym n).
    destruct (l_next l + 1 =? n) eqn:En; [reflexivity|].
    apply N.eqb_neq in En.
    destruct (apply_edit_nums _ _ _ _ EA Hin) as [Ho|Ho].
    + exact (Ht n Ho).
    + cbn [ve_added map snd fm_num] in Ho. destruct Ho as [Ho|[]]. congruence.
Qed.
End CPL2.

(** * Side conditions of the protocol steps from the logical invariant *)

Lemma recorded_seq_le d acked : InvE d acked -> recorded_seq (pd_img d) <= pd_seq d.
Proof.
  intros (dv & bsF & Q & older & bsM & I & _).
  pose proof (iv_rec _ _ _ _ _ _ I) as R. unfold recorded_seq.
  rewrite (recover_manifest_durable _ _ (rec_dur _ _ _ _ R)). cbn [ms_of ms_seq].
  rewrite (iv_seq _ _ _ _ _ _ I). apply (rec_seq _ _ _ _ R).
Qed.

Lemma InvE_bounds d acked : InvE d acked -> pd_next d < two64 /\ pd_seq d < two64.
Proof. intros (dv & bsF & Q & older & bsM & I & _). apply (iv_bounds _ _ _ _ _ _ I). Qed.

Definition started (d : pdb) : prun := mkPR (pd_img d) (Some d) false.

Lemma joint_one d acked o d' :
  InvE d acked -> step_okP (started d) o ->
  fst (p_step (started d) o) = started d' ->
  InvE d' (acked ++ acked_batches (nops acked) [o]).
Proof.
  intros I Hok E.
  assert (R : RInv (started d) acked) by (split; [reflexivity|split; [reflexivity|exact I]]).
  assert (Hnf : pr_failed (fst (p_step (started d) o)) = false) by (rewrite E; reflexivity).
  destruct (step_safe _ o acked R Hok Hnf) as (_ & [_ S2] & _).
  rewrite (step_writes_length (started d) o (nops acked) (eq_refl false) Hok), firstn_all in S2.
  rewrite E in S2. cbn [started pr_db] in S2. apply S2.
Qed.

Lemma p_run_one s o : p_run s [o] = (fst (p_step s o), snd (p_step s o)).
Proof. cbn [p_run]. destruct (p_step s o) as [s1 e1]. cbn [fst snd]. rewrite app_nil_r. reflexivity. Qed.

Section STEP.
Variable mfs : N.
Notation lstep := (lsm_step true true mfs).

(** what a joint step needs from each kind of step: the protocol operation is admissible
    ([step_okP], the hypothesis of the crash-safety theorem) and leads to a coupled state *)
Definition step_result (l : lsm) (d : pdb) (st : step) (ptrs : list (N * ikey)) : Prop :=
  (pops_of_step mfs l st ptrs = [] /\ Coupled (lstep l st) d /\ TabsLive d) \/
  (exists o d', pops_of_step mfs l st ptrs = [o] /\ step_okP (started d) o /\
                fst (p_step (started d) o) = started d' /\ Coupled (lstep l st) d' /\ TabsLive d').

Lemma step_write l d acked b ptrs :
  Joint l d acked -> step_num_ok mfs l d (SWrite b) ptrs -> step_result l d (SWrite b) ptrs.
Proof.
  intros [Hwf C I TL] [N1 N2]. right. exists (QWrite b), (fst (p_write d b)).
  split; [reflexivity|]. split; [|split; [|split; [apply cpl_write; exact C|apply live_write; exact TL]]].
  - unfold step_okP, step_ok. cbn [started pr_db]. unfold write_okb. rewrite (cp_seq _ _ C), N1.
    apply N.ltb_lt in N2. rewrite N2. reflexivity.
  - unfold p_step. cbn [started pr_failed pr_db]. destruct (p_write d b); reflexivity.
Qed.

Lemma step_rotate l d acked ptrs :
  Joint l d acked -> step_num_ok mfs l d SRotate ptrs -> step_result l d SRotate ptrs.
Proof.
  intros [Hwf C I TL] N1. right. exists QRotate, (fst (p_rotate d)).
  split; [reflexivity|]. split; [|split; [|split; [apply cpl_rotate; exact C|apply live_rotate; exact TL]]].
  - unfold step_okP, step_ok. cbn [started pr_db]. destruct (pd_imm d); [reflexivity|].
    unfold rotate_okb. rewrite (cp_next _ _ C). apply N.ltb_lt. exact N1.
  - unfold p_step. cbn [started pr_failed pr_db]. destruct (p_rotate d); reflexivity.
Qed.

Lemma coupled_snaps l d snaps :
  Coupled l d ->
  Coupled (mkLsm (l_mem l) (l_imm l) (l_ver l) (l_store l) (l_seq l) snaps (l_next l) false) d.
Proof. intros [Hm Hi Hv Hs Hn Hp Ht]. constructor; auto. Qed.

Lemma step_snapshot l d acked ptrs : Joint l d acked -> step_result l d SSnapshot ptrs.
Proof.
  intros [Hwf C I TL]. left. split; [reflexivity|]. split; [|exact TL].
  unfold lsm_step. rewrite (cp_panic _ _ C). apply coupled_snaps. exact C.
Qed.

Lemma step_release l d acked q ptrs : Joint l d acked -> step_result l d (SRelease q) ptrs.
Proof.
  intros [Hwf C I TL]. left. split; [reflexivity|]. split; [|exact TL].
  unfold lsm_step. rewrite (cp_panic _ _ C). apply coupled_snaps. exact C.
Qed.

Lemma step_flush l d acked ptrs :
  Joint l d acked -> step_admissible l SFlush -> step_num_ok mfs l d SFlush ptrs ->
  step_result l d SFlush ptrs.
Proof.
  intros [Hwf C I TL] A [N1 N2]. cbn [step_admissible] in A.
  unfold step_result. rewrite (step_unfold _ _ _ _ _ (cp_panic _ _ C)). cbn [pops_of_step].
  destruct (flush_pops mfs l) as [|o [|o2 rest]] eqn:EP.
  - left. split; [reflexivity|]. split; [|exact TL]. unfold flush_pops in EP. unfold do_flush.
    destruct (l_imm l) as [[|e0 r]|] eqn:EI; [discriminate| |exact C].
    destruct (last_key (e0 :: r)) eqn:LK; [discriminate|]. exact C.
  - assert (Ho : exists lv sz, o = QFlush lv sz (l_seq l) /\ lv < MAX_NUM_LEVELS /\ sz < two64).
    { unfold flush_pops in EP. destruct (l_imm l) as [[|e0 r]|] eqn:EI; [| |discriminate].
      - injection EP as <-. exists 0, 0. split; [reflexivity|]. split; reflexivity.
      - destruct (last_key (e0 :: r)) as [lk|] eqn:LK; [|discriminate]. injection EP as <-.
        eexists _, _. split; [reflexivity|]. split; [|exact N2].
        pose proof (pick_level_spec (l_ver l) mfs (ik_user (fst e0)) (ik_user lk)) as P. cbv zeta in P.
        destruct P as [P _]. unfold MAX_NUM_LEVELS. lia. }
    destruct Ho as (lv & sz & -> & Hlv & Hsz).
    destruct (cpl_flush mfs l d acked Hwf A C I TL lv sz (l_seq l) EP) as (d' & ops & E & C' & TL').
    right. exists (QFlush lv sz (l_seq l)), d'. split; [reflexivity|].
    split; [|split; [|split; [exact C'|exact TL']]].
    + unfold step_okP, step_ok. cbn [started pr_db]. destruct (pd_imm d) as [es|] eqn:Ei; [|reflexivity].
      unfold flush_okb. rewrite Ei.
      apply N.ltb_lt in Hlv, Hsz. rewrite Hlv, Hsz. rewrite (cp_next _ _ C).
      apply N.ltb_lt in N1. rewrite N1. cbn [andb].
      pose proof (recorded_seq_le _ _ I) as RS. rewrite (cp_seq _ _ C) in RS. apply N.leb_le in RS. rewrite RS.
      rewrite (cp_seq _ _ C), N.leb_refl, andb_true_r. cbn [andb].
      apply forallb_forall. intros e He. apply N.leb_le.
      pose proof (WF_of_b _ Hwf) as W. pose proof (wf_eok_i l W e) as Ok.
      unfold imm_l in Ok. rewrite <- (cp_imm _ _ C), Ei in Ok. specialize (Ok He).
      apply entry_ok_iff in Ok. lia.
    + unfold p_step. cbn [started pr_failed pr_db]. rewrite E. reflexivity.
  - exfalso. unfold flush_pops in EP. destruct (l_imm l) as [[|e0 r]|]; try discriminate.
    destruct (last_key (e0 :: r)); discriminate.
Qed.
End STEP.

(** * Creating the database *)

Lemma coupled_fresh d :
  pd_mem d = [] -> pd_imm d = None -> pd_ver d = empty_version -> pd_seq d = 0 -> pd_next d = 3 ->
  Coupled fresh_lsm d.
Proof.
  intros H1 H2 H3 H4 H5. constructor; cbn [fresh_lsm l_mem l_imm l_ver l_seq l_next l_panic]; auto.
  intros n [].
Qed.

Lemma open_fresh o :
  exists d0 ops0, p_open o empty_image = Some (d0, ops0) /\ Coupled fresh_lsm d0 /\ TabsLive d0.
Proof.
  rewrite p_open_unfold. change (i_current empty_image) with (@None bytes). cbv zeta iota.
  assert (R : exists rc, recover_image (apply_fsops empty_image init_ops) = inl rc /\
                         rc_wals rc = [] /\ rc_seq rc = 0 /\ ms_version (rc_manifest rc) = empty_version /\
                         ms_next (rc_manifest rc) = 1 /\ ms_pointers (rc_manifest rc) = [] /\
                         ms_wal (rc_manifest rc) = 0 /\ ms_prev_wal (rc_manifest rc) = None).
  { eexists. split; [vm_compute; reflexivity|]. repeat split. }
  destruct R as (rc & -> & R1 & R2 & R3 & R4 & R5 & R6 & R7).
  unfold open_rest. cbv zeta. rewrite R1, R2, R3, R4, R5, R6, R7.
  cbn [replay_logs].
  set (rm := ms_intact (rc_manifest rc) && oo_reuse o && (ms_size (rc_manifest rc) <? oo_max_file_size o)).
  cbn [rs_next rs_added rs_ops rs_new_manifest app].
  destruct rm; cbn [negb orb].
  - match goal with |- context [do_gc ?x] => set (d1 := x) end.
    pose proof (gc_fields d1) as G. cbv zeta in G. destruct (do_gc d1) as [d3 ops3]. cbn [fst] in G.
    destruct G as (G1 & G2 & G3 & G4 & G5 & G6 & G7).
    eexists d3, _. split; [reflexivity|]. split; [|exact G7].
    apply coupled_fresh; [rewrite G4|rewrite G5|rewrite G1|rewrite G3|rewrite G2]; reflexivity.
  - match goal with |- context [log_and_apply ?a ?b 0] => set (d1 := a); set (c := b) end.
    destruct (log_and_apply d1 c 0) as [[d2 ops2]|] eqn:E.
    + destruct (laa_fields _ _ _ _ _ E) as (H1 & H2 & H3 & H4 & H5 & H6).
      pose proof (gc_fields d2) as G. cbv zeta in G. destruct (do_gc d2) as [d3 ops3]. cbn [fst] in G.
      destruct G as (G1 & G2 & G3 & G4 & G5 & G6 & G7).
      eexists d3, _. split; [reflexivity|]. split; [|exact G7].
      apply coupled_fresh.
      * rewrite G4, H5. reflexivity.
      * rewrite G5, H6. reflexivity.
      * rewrite G1. assert (X : apply_edit (pd_ver d1) (edit_of c) = Some empty_version) by (vm_compute; reflexivity).
        congruence.
      * rewrite G3, H4. reflexivity.
      * rewrite G2, H3. reflexivity.
    + exfalso. apply laa_none in E. vm_compute in E. discriminate.
Qed.

(** * Installs: tables written, numbering of the outputs *)

Notation anum := (fun a : N * fmeta * list entry => fm_num (snd (fst a))).

Lemma install_tables_other add : forall img n,
  ~ In n (map anum add) ->
  lookupN n (i_tables (apply_fsops img (flat_map (fun a => table_ops (anum a) (snd a)) add)))
  = lookupN n (i_tables img).
Proof.
  induction add as [|a r IH]; intros img n Hn; [reflexivity|].
  cbn [flat_map]. rewrite apply_fsops_app, IH by (intros X; apply Hn; right; exact X).
  rewrite table_ops_tables. destruct (snd a); [reflexivity|].
  destruct (n =? anum a) eqn:E; [|reflexivity]. apply N.eqb_eq in E. exfalso. apply Hn. left. symmetry. exact E.
Qed.

Lemma install_tables_new add : forall img a,
  NoDup (map anum add) -> In a add -> snd a <> [] ->
  lookupN (anum a) (i_tables (apply_fsops img (flat_map (fun a => table_ops (anum a) (snd a)) add)))
  = Some (Some (snd a)).
Proof.
  induction add as [|b r IH]; intros img a ND Ha Hne; [destruct Ha|].
  cbn [map] in ND. apply NoDup_cons_iff in ND. destruct ND as [Nb ND].
  cbn [flat_map]. rewrite apply_fsops_app. destruct Ha as [->|Ha].
  - rewrite install_tables_other by exact Nb. rewrite table_ops_tables.
    destruct (snd a) as [|e es] eqn:Es; [congruence|]. rewrite N.eqb_refl. reflexivity.
  - apply IH; assumption.
Qed.

Lemma fold_max_nums (l : list (N * fmeta * list entry)) : forall m,
  (forall a, In a l -> anum a <= m) -> fold_left (fun m a => N.max m (anum a)) l m = m.
Proof.
  induction l as [|a l IH]; intros m H; [reflexivity|]. cbn [fold_left].
  replace (N.max m (anum a)) with m by (specialize (H a (or_introl eq_refl)); lia).
  apply IH. intros b Hb. apply H. right. exact Hb.
Qed.

Lemma number_outputs_max lv runs : forall next m, m <= next ->
  fold_left (fun m a => N.max m (anum a))
            (map (fun o : fmeta * list entry => (lv, fst o, snd o)) (number_outputs runs next)) m
  = if match number_outputs runs next with [] => true | _ => false end then m
    else next + N.of_nat (length (number_outputs runs next)).
Proof.
  induction runs as [|r rest IH]; intros next m Hm; [reflexivity|].
  cbn [number_outputs]. destruct (first_key r) as [a|]; [|apply IH; exact Hm].
  destruct (last_key r) as [b|]; [|apply IH; exact Hm].
  cbn [map fold_left fst snd fm_num length].
  rewrite (IH (next + 1) (N.max m (next + 1))) by lia.
  destruct (number_outputs rest (next + 1)); cbn [length]; lia.
Qed.

Lemma NoDup_nodup_ln l : NoDup l -> nodup_ln l = true.
Proof.
  induction 1 as [|x r Hx Hr IH]; [reflexivity|]. cbn [nodup_ln]. rewrite IH, andb_true_r.
  apply negb_true_iff. apply not_true_iff_false. intros E. apply existsb_exists in E.
  destruct E as (y & Hy & E). apply andb_true_iff in E. destruct E as [E1 E2].
  apply Nat.eqb_eq in E1. apply N.eqb_eq in E2. apply Hx.
  destruct x as [x1 x2], y as [y1 y2]. cbn [fst snd] in *. subst. exact Hy.
Qed.

(** the logical state without its memtables: the table files alone *)
Definition strip (l : lsm) : lsm :=
  mkLsm [] None (l_ver l) (l_store l) (l_seq l) (l_snaps l) (l_next l) (l_panic l).

Lemma strip_WF l : WF l -> WF (strip l).
Proof.
  intros [W1 W2 W3 W4 W5 W6 W7 W8 W9 W10 W11 W12 W13 W14 W15 W16].
  constructor; cbn [strip l_panic l_ver l_mem l_seq l_snaps l_next]; auto;
    try (intros; apply nt_nil_l); try (intros ? []).
Qed.

Lemma strip_entries l e : In e (all_entries (strip l)) <-> exists i f, In f (lfs l i) /\ In e (fe l f).
Proof.
  rewrite all_entries_In. cbn [strip l_mem]. unfold imm_l. cbn [strip l_imm]. split.
  - intros [[]|[[]|H]]. exact H.
  - intros H. right. right. exact H.
Qed.

Lemma tabs_entries_iff l img e :
  (forall n, In n (version_numbers (l_ver l)) -> table_entries_of img n = Some (file_entries l n)) ->
  (In e (tab_entries img (l_ver l)) <-> exists i f, In f (lfs l i) /\ In e (fe l f)).
Proof.
  intros C. rewrite in_tab_entries. split.
  - intros (n & es & Hn & Hl & He). pose proof (C n Hn) as T.
    apply table_entries_of_some in T. rewrite T in Hl. injection Hl as <-.
    apply vn_in in Hn. destruct Hn as (i & f & Hf & <-). exists i, f. split; [exact Hf|exact He].
  - intros (i & f & Hf & He). exists (fm_num f), (file_entries l (fm_num f)).
    assert (Hn : In (fm_num f) (version_numbers (l_ver l))) by (apply vn_in; exists i, f; split; [exact Hf|reflexivity]).
    split; [exact Hn|]. split; [|exact He]. apply table_entries_of_some. apply (C _ Hn).
Qed.

Lemma coupled_tab_entries l d e :
  Coupled l d ->
  (In e (tab_entries (pd_img d) (pd_ver d)) <-> exists i f, In f (lfs l i) /\ In e (fe l f)).
Proof. intros C. rewrite (cp_ver _ _ C). apply tabs_entries_iff. exact (cp_tabs _ _ C). Qed.

(** * Installs: coupling and the side conditions of the protocol's crash-safety theorem *)

Definition TabsAre (l : lsm) (img : image) : Prop :=
  forall n, In n (version_numbers (l_ver l)) -> table_entries_of img n = Some (file_entries l n).

Lemma install_coupled l d l' del add ptrs :
  Coupled l d ->
  apply_edit (l_ver l) (edit_of (mkVC None None None None ptrs del (map fst add))) = Some (l_ver l') ->
  l_mem l' = l_mem l -> l_imm l' = l_imm l -> l_seq l' = l_seq l ->
  l_next l' = snd (install_parts d add) -> l_panic l' = false ->
  TabsAre l' (apply_fsops (pd_img d) (fst (install_parts d add))) ->
  exists d' ops, p_install d del add ptrs (l_seq l) = Some (d', ops) /\ Coupled l' d' /\ TabsLive d'.
Proof.
  intros C EA M I S Nx P CT. pose proof (p_install_spec d del add ptrs (l_seq l)) as Sp.
  rewrite (cp_ver _ _ C), EA in Sp. destruct Sp as (d' & ops & E & S1 & S2 & S3 & S4 & S5 & S6 & S7).
  exists d', ops. split; [exact E|]. split; [|exact S6].
  constructor.
  - rewrite S4, M. apply (cp_mem _ _ C).
  - rewrite S5, I. apply (cp_imm _ _ C).
  - exact S1.
  - rewrite S3, S. apply (cp_seq _ _ C).
  - rewrite S2, Nx. reflexivity.
  - exact P.
  - intros n Hn. rewrite <- (CT n Hn). apply table_entries_lookup. apply S7. exact Hn.
Qed.

Lemma vchange_ok_next c : CodecProofs.vchange_ok c = true -> CodecProofs.opt_ok (vc_curr_file c) = true.
Proof.
  unfold CodecProofs.vchange_ok. intros H. do 7 (apply andb_true_iff in H; destruct H as [H ?]). assumption.
Qed.

Lemma install_okP l d acked del add ptrs l' :
  Joint l d acked ->
  CodecProofs.vchange_ok (install_change' d del add ptrs (l_seq l)) = true ->
  apply_edit (l_ver l) (edit_of (mkVC None None None None ptrs del (map fst add))) = Some (l_ver l') ->
  TabsAre l' (apply_fsops (pd_img d) (fst (install_parts d add))) ->
  NoDup (lvl_nums (ma_added (recorded_acc (pd_img d)) ++ news_of (install_change' d del add ptrs (l_seq l)))) ->
  (forall a, In a add -> fm_num (snd (fst a)) <= snd (install_parts d add)) ->
  WF l' ->
  (forall e, (exists i f, In f (lfs l' i) /\ In e (fe l' f)) -> exists i f, In f (lfs l i) /\ In e (fe l f)) ->
  (forall q k, l_seq l <= q -> visible (all_entries (strip l')) q k = visible (all_entries (strip l)) q k) ->
  install_okb d del add ptrs (l_seq l) = true /\ install_preserves d del add ptrs (l_seq l).
Proof.
  intros [Hwf C I TL] Hvok EA CT ND Hnums W' Hsub Hvis.
  assert (EA' : apply_edit (pd_ver d) (edit_of (install_change' d del add ptrs (l_seq l))) = Some (l_ver l')).
  { rewrite (cp_ver _ _ C). exact EA. }
  split.
  - unfold install_okb. rewrite Hvok, EA'.
    pose proof (vchange_ok_next _ Hvok) as Hnx. cbn [install_change' vc_curr_file CodecProofs.opt_ok] in Hnx.
    unfold two64. rewrite Hnx.
    pose proof (recorded_seq_le _ _ I) as RS. rewrite (cp_seq _ _ C) in RS. apply N.leb_le in RS. rewrite RS.
    rewrite (cp_seq _ _ C), N.leb_refl. rewrite (NoDup_nodup_ln _ ND). cbn [andb].
    apply andb_true_iff. split.
    + apply forallb_forall. intros a Ha. apply N.leb_le. apply Hnums. exact Ha.
    + apply forallb_forall. intros n Hn. rewrite (CT n Hn). reflexivity.
  - unfold install_preserves. rewrite EA'. cbv zeta.
    pose proof (WF_of_b _ Hwf) as W.
    assert (T1 : forall e, In e (tab_entries (pd_img d) (pd_ver d)) <-> In e (all_entries (strip l))).
    { intros e. rewrite strip_entries. apply coupled_tab_entries. exact C. }
    assert (T2 : forall e, In e (tab_entries (apply_fsops (pd_img d) (fst (install_parts d add))) (l_ver l'))
                           <-> In e (all_entries (strip l'))).
    { intros e. rewrite strip_entries. apply tabs_entries_iff. exact CT. }
    split.
    + intros e He. apply T1. apply strip_entries. apply Hsub. apply strip_entries. apply T2. exact He.
    + intros q k Hq. rewrite (cp_seq _ _ C) in Hq.
      rewrite <- (CompactProofs.visible_ext _ _ q k (WF_key_inj _ (strip_WF _ W')) (fun e => iff_sym (T2 e))).
      rewrite <- (CompactProofs.visible_ext _ _ q k (WF_key_inj _ (strip_WF _ W)) (fun e => iff_sym (T1 e))).
      apply Hvis. exact Hq.
Qed.

Lemma nodup_app_intro {A} (a b : list A) :
  NoDup a -> NoDup b -> (forall x, In x a -> In x b -> False) -> NoDup (a ++ b).
Proof.
  induction a as [|x a IH]; intros Na Nb D; [exact Nb|].
  inversion Na as [|? ? Hx Na']. subst. cbn [app]. constructor.
  - intros H. apply in_app_or in H. destruct H as [H|H]; [contradiction|].
    apply (D x); [left; reflexivity|exact H].
  - apply IH; [exact Na'|exact Nb|]. intros y Hy. apply D. right. exact Hy.
Qed.

Lemma filter_all {A} (p : A -> bool) l : (forall a, In a l -> p a = true) -> filter p l = l.
Proof.
  induction l as [|a l IH]; intros H; [reflexivity|]. cbn [filter]. rewrite (H a (or_introl eq_refl)).
  f_equal. apply IH. intros b Hb. apply H. right. exact Hb.
Qed.

(** the history of the manifest only names files numbered at most the counter *)
Lemma history_bound d acked :
  InvE d acked ->
  NoDup (lvl_nums (ma_added (recorded_acc (pd_img d)))) /\
  forall lv f, In (lv, f) (ma_added (recorded_acc (pd_img d))) -> fm_num f <= pd_next d.
Proof.
  intros (dv & bsF & Q & older & bsM & I & _).
  rewrite (recorded_acc_durable _ _ (rec_dur _ _ _ _ (iv_rec _ _ _ _ _ _ I))).
  destruct (iv_hist _ _ _ _ _ _ I) as [H1 H2]. split; [exact H1|].
  intros lv f Hf. destruct (H2 lv f Hf) as [H _]. pose proof (proj1 (iv_next _ _ _ _ _ _ I)). lia.
Qed.

Section INSTALLS.
Variable mfs : N.
Notation lstep := (lsm_step true true mfs).

(** a table of the directory is numbered at most the counter *)
Lemma tables_bound l d acked n :
  Joint l d acked -> In n (map fst (i_tables (pd_img d))) -> n <= l_next l.
Proof.
  intros [Hwf C I TL] Hn. apply TL in Hn. rewrite (cp_ver _ _ C) in Hn. apply vn_in in Hn.
  destruct Hn as (i & f & Hf & <-). apply (wf_nums l (WF_of_b _ Hwf) i f Hf).
Qed.

Lemma fresh_all l d acked add :
  Joint l d acked -> (forall a, In a add -> l_next l < fm_num (snd (fst a))) ->
  install_parts d add
  = (flat_map (fun a => table_ops (fm_num (snd (fst a))) (snd a)) add,
     fold_left (fun m a => N.max m (fm_num (snd (fst a)))) add (pd_next d)).
Proof.
  intros J H. unfold install_parts. rewrite filter_all; [reflexivity|].
  intros a Ha. apply negb_true_iff. apply not_true_iff_false. intros E. apply existsb_exists in E.
  destruct E as (p & Hp & E). apply N.eqb_eq in E.
  assert (Hin : In (fm_num (snd (fst a))) (map fst (i_tables (pd_img d)))) by (rewrite <- E; apply in_map; exact Hp).
  pose proof (tables_bound l d acked _ J Hin). specialize (H a Ha). lia.
Qed.

Lemma step_compact l d acked level seed cuts ptrs :
  Joint l d acked -> step_admissible l (SCompact level seed cuts) ->
  step_num_ok mfs l d (SCompact level seed cuts) ptrs ->
  step_result mfs l d (SCompact level seed cuts) ptrs.
Proof.
  intros J [Adm Hss] Nk. pose proof J as [Hwf C I TL]. pose proof (WF_of_b _ Hwf) as W.
  destruct (compact_cfacts mfs l level seed W Adm) as (c & Ec & CF). pose proof Adm as (Alen & _).
  destruct (c_edit_some l level c cuts W CF Alen Hss) as (v' & EA & WFv').
  assert (EL : lstep l (SCompact level seed cuts) = c_post l level c cuts v').
  { rewrite (step_unfold _ _ _ _ _ (cp_panic _ _ C)), (do_compact_eq mfs l level seed cuts c Ec),
      (c_edit_eq l level c cuts CF), EA. reflexivity. }
  set (outs := c_outs l level c cuts).
  set (del := compact_deleted level c). set (add := compact_added level outs).
  assert (EP : pops_of_step mfs l (SCompact level seed cuts) ptrs = [QInstall del add ptrs (l_seq l)]).
  { cbn [pops_of_step]. unfold compact_pops. rewrite Ec. reflexivity. }
  cbn [step_num_ok] in Nk. change (compact_pops mfs l level seed cuts ptrs)
    with (pops_of_step mfs l (SCompact level seed cuts) ptrs) in Nk. rewrite EP in Nk.
  apply Forall_inv in Nk. cbn [install_num_ok] in Nk.
  assert (Eedit : edit_of (mkVC None None None None ptrs del (map fst add)) = c_edit l level c cuts).
  { rewrite <- (c_edit_eq l level c cuts CF). unfold edit_of, del, add, compact_deleted, compact_added.
    cbn [vc_deleted vc_new]. rewrite map_app, !map_map. cbn [fst snd]. rewrite !Nat2N.id. reflexivity. }
  assert (Hnum : forall a, In a add -> exists o, In o outs /\ a = (N.of_nat (S level), fst o, snd o)).
  { intros a Ha. unfold add, compact_added in Ha. apply in_map_iff in Ha. destruct Ha as (o & <- & Ho). eauto. }
  assert (Hgt : forall a, In a add -> l_next l < fm_num (snd (fst a))).
  { intros a Ha. destruct (Hnum a Ha) as (o & Ho & ->). cbn [fst snd].
    destruct (outs_keys l level c cuts Alen Hss o Ho) as (_ & _ & K). unfold onum in K. lia. }
  assert (Hparts : install_parts d add
                   = (flat_map (fun a => table_ops (fm_num (snd (fst a))) (snd a)) add,
                      l_next l + N.of_nat (length outs))).
  { rewrite (fresh_all l d acked add J Hgt). f_equal. unfold add, compact_added, outs, c_outs.
    rewrite number_outputs_max by (rewrite (cp_next _ _ C); lia). rewrite (cp_next _ _ C).
    destruct (number_outputs _ _); cbn [length]; lia. }
  assert (NDa : NoDup (map (fun a : N * fmeta * list entry => fm_num (snd (fst a))) add)).
  { unfold add, compact_added. rewrite map_map. cbn [fst snd]. apply (outs_nodup l level c cuts). }
  assert (CT : TabsAre (c_post l level c cuts v') (apply_fsops (pd_img d) (fst (install_parts d add)))).
  { rewrite Hparts. cbn [fst]. intros n Hn. apply vn_in in Hn. destruct Hn as (i & f & Hf & <-).
    change (In f (lfs (c_post l level c cuts v') i)) in Hf.
    destruct (new_files_cases l level c cuts v' W CF Alen Hss EA i f Hf) as [(o & Ho & -> & ->)|(Hf' & _)].
    - apply table_entries_of_some.
      assert (Ha : In (N.of_nat (S level), fst o, snd o) add)
        by (unfold add, compact_added; apply in_map_iff; exists o; auto).
      pose proof (install_tables_new add (pd_img d) _ NDa Ha) as T. cbn [fst snd] in T.
      rewrite T.
      + f_equal. f_equal. symmetry. apply (fe_new l level c cuts v' o Ho).
      + pose proof (runs_ne l level c cuts) as R. rewrite Forall_forall in R. apply R.
        apply (out_run l level c cuts o Ho).
    - pose proof (wf_nums l W i f Hf') as Hle.
      unfold table_entries_of. rewrite install_tables_other.
      + change (table_entries_of (pd_img d) (fm_num f) = Some (file_entries (c_post l level c cuts v') (fm_num f))).
        change (file_entries (c_post l level c cuts v') (fm_num f)) with (fe (c_post l level c cuts v') f).
        rewrite (fe_old l level c cuts v' W CF Alen Hss i f Hf').
        apply (cp_tabs _ _ C). apply vn_in. exists i, f. split; [exact Hf'|reflexivity].
      + intros Hin. apply in_map_iff in Hin. destruct Hin as (a & E & Ha). specialize (Hgt a Ha). lia. }
  rewrite <- Eedit in EA.
  assert (W' : WF (c_post l level c cuts v')).
  { rewrite Eedit in EA. apply c_post_WF; assumption. }
  destruct (install_coupled l d (c_post l level c cuts v') del add ptrs C EA eq_refl eq_refl eq_refl)
    as (d' & ops & E & C' & TL').
  { rewrite Hparts. reflexivity. }
  { apply (wf_panic _ W'). }
  { exact CT. }
  destruct (install_okP l d acked del add ptrs (c_post l level c cuts v') J Nk EA CT) as [Ok1 Ok2].
  { destruct (history_bound d acked I) as [H1 H2].
    unfold lvl_nums. rewrite map_app. apply nodup_app_intro.
    - exact H1.
    - unfold news_of, install_change', add, compact_added. cbn [vc_new]. rewrite !map_map. cbn [fst snd].
      rewrite Nat2N.id.
      pose proof (outs_nodup l level c cuts) as ND. fold outs in ND. clear -ND.
      induction outs as [|o r IH]; [constructor|]. cbn [map] in *. apply NoDup_cons_iff in ND. destruct ND as [Nx ND].
      constructor; [|apply IH; exact ND]. intros Hin. apply Nx. apply in_map_iff in Hin.
      destruct Hin as (o' & E' & Ho'). injection E' as E'. apply in_map_iff. exists o'. split; [exact E'|exact Ho'].
    - intros [lv n] Hx Hy. apply in_map_iff in Hx. destruct Hx as ([lv' f] & Ex & Hf).
      cbn [fst snd] in Ex. injection Ex as -> <-. apply H2 in Hf.
      unfold news_of, install_change' in Hy. cbn [vc_new] in Hy. rewrite !map_map in Hy. cbn [fst snd] in Hy.
      apply in_map_iff in Hy. destruct Hy as (a & Ey & Ha). injection Ey as _ Ey. specialize (Hgt a Ha).
      rewrite (cp_next _ _ C) in Hf. lia. }
  { intros a Ha. rewrite Hparts. cbn [snd]. destruct (Hnum a Ha) as (o & Ho & ->). cbn [fst snd].
    destruct (outs_keys l level c cuts Alen Hss o Ho) as (_ & _ & K). unfold onum in K. fold outs in K. lia. }
  { exact W'. }
  { intros e (i & f & Hf & He).
    rewrite Eedit in EA.
    destruct (new_files_cases l level c cuts v' W CF Alen Hss EA i f Hf) as [(o & Ho & -> & ->)|(Hf' & _)].
    - rewrite (fe_new l level c cuts v' o Ho) in He.
      destruct (out_sub l level c cuts o e Ho He) as (h & Hh & Hi).
      destruct (inp_level l level c CF h Hh) as (j & Hj). exists j, h. auto.
    - rewrite (fe_old l level c cuts v' W CF Alen Hss i f Hf') in He. exists i, f. auto. }
  { intros q k Hq. rewrite Eedit in EA.
    apply (c_post_visible (strip l) level c cuts v' (strip_WF _ W) CF Alen Hss EA WFv' q k).
    pose proof (proj1 (fold_min_le (l_snaps l) (l_seq l))) as M.
    unfold smallest_snapshot. cbn [strip l_snaps l_seq]. lia. }
  right. exists (QInstall del add ptrs (l_seq l)), d'. split; [exact EP|].
  split; [|split; [|split]].
  - unfold step_okP. cbn [started pr_db]. split; assumption.
  - unfold p_step. cbn [started pr_failed pr_db]. rewrite E. reflexivity.
  - rewrite EL. exact C'.
  - exact TL'.
Qed.
End INSTALLS.

Section MOVES.
Variable mfs : N.
Notation lstep := (lsm_step true true mfs).

Lemma step_move l d acked level seed ptrs :
  Joint l d acked -> step_admissible l (STrivialMove level seed) ->
  step_num_ok mfs l d (STrivialMove level seed) ptrs ->
  step_result mfs l d (STrivialMove level seed) ptrs.
Proof.
  intros J Adm [Nk Nh]. pose proof J as [Hwf C I TL]. pose proof (WF_of_b _ Hwf) as W.
  cbn [step_admissible] in Adm.
  destruct (compact_cfacts mfs l level seed W Adm) as (c & Ec & CF).
  destruct (trivial_move_ok mfs l level seed W Adm) as [W' Hent].
  unfold step_result. rewrite (step_unfold _ _ _ _ _ (cp_panic _ _ C)). cbn [pops_of_step].
  unfold move_pops in *. unfold do_trivial_move in *. rewrite Ec in *.
  destruct (ci_in0 c) as [|f [|g r]] eqn:E0; try (left; split; [reflexivity|split; [exact C|exact TL]]).
  destruct (negb (is_trivial_move mfs c)); [left; split; [reflexivity|split; [exact C|exact TL]]|].
  apply Forall_inv in Nk. apply Forall_inv in Nh. cbn [install_num_ok install_hist_ok] in Nk, Nh.
  destruct (apply_edit (l_ver l) (mkVE [(level, fm_num f)] [(S level, f)])) as [v'|] eqn:EA;
    [|pose proof (wf_panic _ W') as P; cbn [set_panic l_panic] in P; discriminate].
  set (l' := mkLsm (l_mem l) (l_imm l) v' (l_store l) (l_seq l) (l_snaps l) (l_next l) (l_panic l)) in *.
  set (del := [(N.of_nat level, fm_num f)]) in *.
  set (add := [(N.of_nat (S level), f, file_entries l (fm_num f))]) in *.
  assert (Hf : In f (lfs l level)) by (apply (cf_sub0 _ _ _ CF); rewrite E0; left; reflexivity).
  assert (Hfn : In (fm_num f) (version_numbers (l_ver l))) by (apply vn_in; exists level, f; split; [exact Hf|reflexivity]).
  assert (Eedit : edit_of (mkVC None None None None ptrs del (map fst add)) = mkVE [(level, fm_num f)] [(S level, f)]).
  { unfold edit_of, del, add. cbn [vc_deleted vc_new map fst snd]. rewrite !Nat2N.id. reflexivity. }
  assert (Hparts : install_parts d add = ([], pd_next d)).
  { unfold install_parts, add. cbn [filter fst snd].
    pose proof (cp_tabs _ _ C _ Hfn) as T. apply table_entries_of_some in T.
    assert (X : existsb (fun p : N * option (list entry) => fst p =? fm_num f) (i_tables (pd_img d)) = true).
    { apply existsb_exists. unfold lookupN in T.
      destruct (find (fun p => fst p =? fm_num f) (i_tables (pd_img d))) as [p|] eqn:Ef; [|discriminate].
      apply find_some in Ef. exists p. exact Ef. }
    rewrite X. reflexivity. }
  assert (CT : TabsAre l' (apply_fsops (pd_img d) (fst (install_parts d add)))).
  { rewrite Hparts. cbn [fst apply_fsops fold_left]. intros n Hn. cbn [l' l_ver] in Hn.
    change (file_entries l' n) with (file_entries l n). apply (cp_tabs _ _ C).
    destruct (apply_edit_nums _ _ _ _ EA Hn) as [Ho|Ho]; [exact Ho|].
    cbn [ve_added map snd] in Ho. destruct Ho as [<-|[]]. exact Hfn. }
  rewrite <- Eedit in EA.
  destruct (install_coupled l d l' del add ptrs C EA eq_refl eq_refl eq_refl) as (d' & ops & E & C' & TL').
  { rewrite Hparts. cbn [snd l' l_next]. symmetry. apply (cp_next _ _ C). }
  { apply (wf_panic _ W'). }
  { exact CT. }
  destruct (install_okP l d acked del add ptrs l' J Nk EA CT Nh) as [Ok1 Ok2].
  { intros a [<-|[]]. rewrite Hparts. cbn [fst snd]. rewrite (cp_next _ _ C). apply (wf_nums l W level f Hf). }
  { exact W'. }
  { intros e (i & g & Hg & He). change (fe l' g) with (fe l g) in He.
    assert (Hgn : In (fm_num g) (version_numbers (l_ver l))).
    { assert (Hn' : In (fm_num g) (version_numbers v')) by (apply vn_in; exists i, g; split; [exact Hg|reflexivity]).
      rewrite Eedit in EA. destruct (apply_edit_nums _ _ _ _ EA Hn') as [Ho|Ho]; [exact Ho|].
      cbn [ve_added map snd] in Ho. destruct Ho as [<-|[]]. exact Hfn. }
    apply vn_in in Hgn. destruct Hgn as (j & h & Hh & Eh). exists j, h. split; [exact Hh|].
    unfold fe in *. rewrite Eh. exact He. }
  { intros q k Hq. apply (CompactProofs.visible_ext _ _ q k (WF_key_inj _ (strip_WF _ W'))).
    intros e. rewrite !strip_entries. split.
    - intros (i & g & Hg & He). change (fe l' g) with (fe l g) in He.
      assert (Hgn : In (fm_num g) (version_numbers (l_ver l))).
      { assert (Hn' : In (fm_num g) (version_numbers v')) by (apply vn_in; exists i, g; split; [exact Hg|reflexivity]).
        rewrite Eedit in EA. destruct (apply_edit_nums _ _ _ _ EA Hn') as [Ho|Ho]; [exact Ho|].
        cbn [ve_added map snd] in Ho. destruct Ho as [<-|[]]. exact Hfn. }
      apply vn_in in Hgn. destruct Hgn as (j & h & Hh & Eh). exists j, h. split; [exact Hh|].
      unfold fe in *. rewrite Eh. exact He.
    - intros (i & g & Hg & He).
      assert (X : In e (all_entries l)) by (apply all_entries_In; right; right; exists i, g; auto).
      apply Hent in X. apply all_entries_In in X. destruct X as [X|[X|X]]; [| |exact X].
      + exfalso. pose proof (wf_r_mf l W i g Hg) as R.
        pose proof (WF_key_inj l W) as KI.
        assert (A1 : In e (all_entries l)) by (apply all_entries_In; left; exact X).
        assert (A2 : In e (all_entries l)) by (apply all_entries_In; right; right; exists i, g; auto).
        specialize (R e e X He eq_refl). lia.
      + exfalso. pose proof (wf_r_if l W i g Hg) as R. specialize (R e e X He eq_refl). lia. }
  right. exists (QInstall del add ptrs (l_seq l)), d'. split; [reflexivity|].
  split; [|split; [|split]].
  - unfold step_okP. cbn [started pr_db]. split; assumption.
  - unfold p_step. cbn [started pr_failed pr_db]. rewrite E. reflexivity.
  - exact C'.
  - exact TL'.
Qed.
End MOVES.

(** * Runs *)

Lemma p_run_app : forall a s b,
  fst (p_run s (a ++ b)) = fst (p_run (fst (p_run s a)) b) /\
  snd (p_run s (a ++ b)) = snd (p_run s a) ++ snd (p_run (fst (p_run s a)) b).
Proof.
  induction a as [|o a IH]; intros s b; [split; reflexivity|].
  cbn [app]. destruct (p_run_cons s o (a ++ b)) as [E1 E2]. destruct (p_run_cons s o a) as [F1 F2].
  destruct (IH (fst (p_step s o)) b) as [I1 I2].
  rewrite E1, E2, F1, F2, I1, I2, List.app_assoc. split; reflexivity.
Qed.

Lemma run_okP_app : forall a s b, run_okP s (a ++ b) <-> run_okP s a /\ run_okP (fst (p_run s a)) b.
Proof.
  induction a as [|o a IH]; intros s b; cbn [app run_okP].
  - cbn [p_run fst]. tauto.
  - rewrite IH. destruct (p_run_cons s o a) as [E1 _]. rewrite E1. tauto.
Qed.

Lemma acked_batches_app : forall a seq b,
  acked_batches seq (a ++ b) = acked_batches seq a ++ acked_batches (seq + nops (acked_batches seq a)) b.
Proof.
  induction a as [|o a IH]; intros seq b.
  - cbn [app acked_batches]. replace (seq + nops []) with seq by (rewrite nops_nil; lia). reflexivity.
  - cbn [app]. rewrite (acked_batches_cons seq o (a ++ b)), (acked_batches_cons seq o a), IH, nops_app.
    rewrite <- List.app_assoc, N.add_assoc. reflexivity.
Qed.

Section RUNS.
Variable mfs : N.
Notation lstep := (lsm_step true true mfs).
Lemma step_all l d acked st ptrs :
  Joint l d acked -> step_admissible l st -> step_num_ok mfs l d st ptrs -> step_result mfs l d st ptrs.
Proof.
  intros J A Nk. destruct st.
  - apply (step_write mfs l d acked); assumption.
  - apply (step_rotate mfs l d acked); assumption.
  - apply (step_flush mfs l d acked); assumption.
  - apply (step_compact mfs l d acked); assumption.
  - apply (step_move mfs l d acked); assumption.
  - apply (step_snapshot mfs l d acked); assumption.
  - apply (step_release mfs l d acked); assumption.
Qed.

(** S2: a joint step keeps the joint invariant, and its protocol operation satisfies the side
    conditions of the crash-safety theorem *)
Theorem joint_step l d acked st ptrs :
  Joint l d acked -> step_admissible l st -> step_num_ok mfs l d st ptrs ->
  let ops := pops_of_step mfs l st ptrs in
  run_okP (started d) ops /\
  exists d', fst (p_run (started d) ops) = started d' /\
             Joint (lstep l st) d' (acked ++ acked_batches (nops acked) ops).
Proof.
  intros J A Nk. cbv zeta. pose proof (step_preserves_wf mfs l st (j_wf _ _ _ J) A) as Hwf'.
  destruct (step_all l d acked st ptrs J A Nk) as [(E & C' & TL')|(o & d' & E & Hok & Es & C' & TL')]; rewrite E.
  - split; [exact Logic.I|]. exists d. split; [reflexivity|].
    cbn [acked_batches]. rewrite app_nil_r. constructor; [exact Hwf'|exact C'|exact (j_inv _ _ _ J)|exact TL'].
  - split; [split; [exact Hok|exact Logic.I]|]. exists d'. rewrite p_run_one. cbn [fst]. split; [exact Es|].
    constructor; [exact Hwf'|exact C'| |exact TL']. apply (joint_one d acked o d' (j_inv _ _ _ J) Hok Es).
Qed.

Lemma jlsm_cons l st ptrs r : jlsm mfs l ((st, ptrs) :: r) = jlsm mfs (lstep l st) r.
Proof. reflexivity. Qed.

Theorem joint_run : forall js l d acked,
  Joint l d acked -> jrun_ok mfs l (started d) js ->
  let ops := joint_pops mfs l js in
  run_okP (started d) ops /\
  exists d', fst (p_run (started d) ops) = started d' /\
             Joint (jlsm mfs l js) d' (acked ++ acked_batches (nops acked) ops).
Proof.
  induction js as [|[st ptrs] r IH]; intros l d acked J Hok; cbv zeta.
  - cbn [joint_pops run_okP p_run fst acked_batches jlsm map fold_left]. split; [exact Logic.I|].
    exists d. split; [reflexivity|]. rewrite app_nil_r. exact J.
  - cbn [jrun_ok] in Hok. destruct Hok as (A & Nk & Hr). specialize (Nk d eq_refl).
    destruct (joint_step l d acked st ptrs J A Nk) as (O1 & d1 & E1 & J1). cbv zeta in *.
    cbn [joint_pops]. rewrite E1 in Hr.
    destruct (IH _ _ _ J1 Hr) as (O2 & d2 & E2 & J2). cbv zeta in *.
    split; [apply run_okP_app; rewrite E1; split; assumption|].
    exists d2. destruct (p_run_app (pops_of_step mfs l st ptrs) (started d) (joint_pops mfs (lstep l st) r)) as [F _].
    rewrite F, E1. split; [exact E2|].
    rewrite jlsm_cons, acked_batches_app, List.app_assoc, <- nops_app. exact J2.
Qed.

(** * The two sides agree: a lookup through the real search path of the logical state returns what
    the acknowledged batches replay to *)

Theorem joint_contents l d acked :
  Joint l d acked -> contents (all_entries l) (l_seq l) = replay [] acked.
Proof.
  intros [Hwf C I TL]. destruct I as (dv & bsF & Q & older & bsM & I & ->).
  pose proof (iv_rec _ _ _ _ _ _ I) as R.
  assert (Hseq : l_seq l = nops (bsF ++ log_batches (dv_logs dv))).
  { rewrite <- (cp_seq _ _ C). apply (iv_seq _ _ _ _ _ _ I). }
  apply (contents_replay_gen (tab_entries (pd_img d) (dv_ver dv)) bsF (log_batches (dv_logs dv)) _ Q).
  - apply (rec_chain _ _ _ _ R).
  - apply (rec_tab _ _ _ _ R).
  - intros e. rewrite all_entries_In, <- (iv_ver _ _ _ _ _ _ I), (coupled_tab_entries l d e C).
    rewrite (iv_logs _ _ _ _ _ _ I), log_batches_app, log_batches_single, all_entries_app, in_app_iff.
    rewrite <- (iv_mem _ _ _ _ _ _ I e), (cp_mem _ _ C).
    pose proof (iv_imm _ _ _ _ _ _ I) as Himm. rewrite (cp_imm _ _ C) in Himm. unfold imm_l.
    destruct (l_imm l) as [es|].
    + rewrite <- (Himm e). tauto.
    + rewrite Himm. cbn [all_entries_of flat_map In]. tauto.
  - rewrite Hseq. apply (rec_Q _ _ _ _ R).
  - rewrite Hseq. lia.
Qed.

Theorem joint_get l d acked :
  Joint l d acked -> forall k, db_get l k = map_get k (replay [] acked).
Proof.
  intros J k. rewrite (db_get_contents l (j_wf _ _ _ J) k), (joint_contents l d acked J). reflexivity.
Qed.

Lemma joint_seq l d acked : Joint l d acked -> l_seq l = nops acked.
Proof.
  intros [Hwf C I TL]. destruct I as (dv & bsF & Q & older & bsM & I & ->).
  rewrite <- (cp_seq _ _ C). apply (iv_seq _ _ _ _ _ _ I).
Qed.

(** * S3: the full stack from the freshly created database *)

Lemma opened_eq o d0 ops0 : p_open o empty_image = Some (d0, ops0) -> opened o = started d0.
Proof. intros E. unfold opened, p_step. cbn [prun_init pr_failed pr_img]. rewrite E. reflexivity. Qed.

Theorem stack_run o js :
  open_okb o empty_image = true -> jrun_ok mfs fresh_lsm (opened o) js ->
  let ops := joint_ops mfs o js in
  run_okP prun_init ops /\ pr_failed (fst (p_run prun_init ops)) = false /\
  exists d', pr_db (fst (p_run prun_init ops)) = Some d' /\ pr_img (fst (p_run prun_init ops)) = pd_img d' /\
             Joint (jlsm mfs fresh_lsm js) d' (acked_batches 0 ops).
Proof.
  intros Hoo Hok. cbv zeta. unfold joint_ops.
  destruct (open_fresh o) as (d0 & ops0 & E & C0 & TL0). rewrite (opened_eq o d0 ops0 E) in Hok.
  assert (I0 : InvE d0 []).
  { apply (open_step o empty_image [] d0 ops0); [left; split; reflexivity|exact Hoo|exact E]. }
  assert (J0 : Joint fresh_lsm d0 []) by (constructor; [exact fresh_lsm_wf|exact C0|exact I0|exact TL0]).
  destruct (joint_run js fresh_lsm d0 [] J0 Hok) as (O & d' & E' & J'). cbv zeta in *.
  destruct (p_run_cons prun_init (QOpen o) (joint_pops mfs fresh_lsm js)) as [F1 _].
  fold (opened o) in F1. rewrite (opened_eq o d0 ops0 E) in F1.
  split; [|split].
  - cbn [run_okP]. fold (opened o). rewrite (opened_eq o d0 ops0 E). split; [exact Hoo|exact O].
  - rewrite F1, E'. reflexivity.
  - exists d'. rewrite F1, E'. split; [reflexivity|]. split; [reflexivity|].
    cbn [acked_batches]. rewrite nops_nil in J'. exact J'.
Qed.

Lemma jrun_ok_firstn : forall js j l s, jrun_ok mfs l s js -> jrun_ok mfs l s (firstn j js).
Proof.
  induction js as [|[st ptrs] r IH]; intros j l s H; destruct j as [|j]; cbn [firstn jrun_ok]; auto.
  cbn [jrun_ok] in H. destruct H as (A & B & C). split; [exact A|]. split; [exact B|]. apply IH. exact C.
Qed.

Lemma joint_pops_app : forall a l b,
  joint_pops mfs l (a ++ b) = joint_pops mfs l a ++ joint_pops mfs (jlsm mfs l a) b.
Proof.
  induction a as [|[st ptrs] a IH]; intros l b; [reflexivity|].
  cbn [app joint_pops]. rewrite IH, jlsm_cons, List.app_assoc. reflexivity.
Qed.

Lemma pops_writes l st ptrs seq :
  acked_batches seq (pops_of_step mfs l st ptrs) = match st with SWrite b => [(seq + 1, b)] | _ => [] end.
Proof.
  destruct st; cbn [pops_of_step acked_batches]; try reflexivity.
  - unfold flush_pops. destruct (l_imm l) as [[|e0 r]|]; try reflexivity. destruct (last_key _); reflexivity.
  - unfold compact_pops. destruct (finalize_inputs _ _ _ _ _ _); reflexivity.
  - unfold move_pops. destruct (finalize_inputs _ _ _ _ _ _) as [ci|]; [|reflexivity].
    destruct (ci_in0 ci) as [|f [|g r]]; try reflexivity. destruct (negb _); reflexivity.
Qed.

Lemma joint_pops_writes : forall js l seq,
  length (acked_batches seq (joint_pops mfs l js)) = jwrites js.
Proof.
  induction js as [|[st ptrs] r IH]; intros l seq; [reflexivity|].
  cbn [joint_pops]. rewrite acked_batches_app, app_length, IH, pops_writes.
  unfold jwrites. cbn [filter fst]. destruct st; reflexivity.
Qed.

Lemma jwrites_prefix_exists : forall js k, (k <= jwrites js)%nat ->
  exists j, (j <= length js)%nat /\ jwrites (firstn j js) = k.
Proof.
  induction js as [|[st ptrs] r IH]; intros k Hk.
  - exists O. split; [lia|]. unfold jwrites in *. cbn in *. lia.
  - pose (w := match st with SWrite _ => 1%nat | _ => 0%nat end).
    assert (Hc : forall x, jwrites ((st, ptrs) :: x) = (w + jwrites x)%nat).
    { intros x. unfold jwrites, w. cbn [filter fst]. destruct st; reflexivity. }
    assert (Hw : (w <= 1)%nat) by (unfold w; destruct st; lia).
    rewrite Hc in Hk. clearbody w.
    destruct k as [|k]; [exists O; split; [lia|reflexivity]|].
    destruct (IH (S k - w)%nat ltac:(lia)) as (j & Lj & Ej). exists (S j). split; [cbn [length]; lia|].
    cbn [firstn]. rewrite Hc, Ej. lia.
Qed.

Lemma crash_k_le : forall ops s seq n torn,
  pr_failed s = false -> run_okP s ops -> pr_failed (fst (p_run s ops)) = false ->
  (crash_k s ops n torn <= length (acked_batches seq ops))%nat.
Proof.
  induction ops as [|o r IH]; intros s seq n torn Hf Hok Hnf; [cbn; lia|].
  destruct (p_run_cons s o r) as [E1 E2]. rewrite E1 in Hnf.
  cbn [run_okP] in Hok. destruct Hok as [Hok1 Hok2].
  assert (pr_failed (fst (p_step s o)) = false) as Hnf1.
  { destruct (pr_failed (fst (p_step s o))) eqn:F; [|reflexivity].
    destruct (failed_sticky r _ F) as [C _]. rewrite C in Hnf. discriminate. }
  rewrite acked_batches_cons, app_length. cbn [crash_k].
  rewrite <- (step_writes_length s o seq Hf Hok1).
  destruct (_ <=? _)%nat.
  - pose proof (step_extra_le s o n torn). lia.
  - specialize (IH _ (seq + nops (acked_batches seq [o])) (n - length (snd (p_step s o)))%nat torn Hnf1 Hok2 Hnf). lia.
Qed.

Theorem stack_crash_get o js :
  open_okb o empty_image = true -> jrun_ok mfs fresh_lsm (opened o) js ->
  let ops := joint_ops mfs o js in
  let eff := snd (p_run prun_init ops) in
  forall n torn, (n <= length eff)%nat ->
  let img := crash_image empty_image eff n torn in
  let k := crash_k prun_init ops n torn in
  (k <= jwrites js)%nat /\
  ((i_current img = None /\ k = 0%nat) \/
   exists rc, recover_image img = inl rc /\
     forall j, (j <= length js)%nat -> jwrites (firstn j js) = k ->
       let lj := jlsm mfs fresh_lsm (firstn j js) in
       lsm_wf_b lj = true /\ rc_seq rc = l_seq lj /\
       forall key, map_get key (rec_contents img rc) = db_get lj key).
Proof.
  intros Hoo Hok. cbv zeta. intros n torn Hn.
  destruct (stack_run o js Hoo Hok) as (O & Hnf & _). cbv zeta in *.
  pose proof (crash_safe_P _ O Hnf n torn Hn) as CS.
  set (ops := joint_ops mfs o js) in *. set (k := crash_k prun_init ops n torn) in *.
  assert (Hk : (k <= jwrites js)%nat).
  { pose proof (crash_k_le ops prun_init 0 n torn eq_refl O Hnf) as L. fold k in L.
    unfold ops, joint_ops in L. cbn [acked_batches] in L. rewrite joint_pops_writes in L. exact L. }
  split; [exact Hk|].
  assert (Hacked : forall j, (j <= length js)%nat -> jwrites (firstn j js) = k ->
            firstn k (acked_batches 0 ops) = acked_batches 0 (joint_ops mfs o (firstn j js))).
  { intros j Lj Ej. unfold ops, joint_ops. cbn [acked_batches].
    rewrite <- (firstn_skipn j js) at 1. rewrite joint_pops_app, acked_batches_app.
    rewrite <- Ej, <- (joint_pops_writes (firstn j js) fresh_lsm 0).
    rewrite firstn_app, Nat.sub_diag, firstn_all. cbn [firstn]. apply app_nil_r. }
  destruct CS as [[Hc He]|G].
  - left. split; [exact Hc|].
    destruct (jwrites_prefix_exists js k Hk) as (j & Lj & Ej). rewrite (Hacked j Lj Ej) in He.
    apply (f_equal (@length batch)) in He. unfold joint_ops in He. cbn [acked_batches length] in He.
    rewrite joint_pops_writes in He. lia.
  - right. destruct G as (rc & Hr & Hc & Hs). exists rc. split; [exact Hr|].
    intros j Lj Ej.
    destruct (stack_run o (firstn j js) Hoo (jrun_ok_firstn js j _ _ Hok)) as (_ & _ & dj & _ & _ & Jj).
    cbv zeta in Jj. rewrite <- (Hacked j Lj Ej) in Jj.
    split; [exact (j_wf _ _ _ Jj)|]. split; [rewrite Hs; symmetry; apply (joint_seq _ _ _ Jj)|].
    intros key. rewrite Hc. symmetry. apply (joint_get _ _ _ Jj).
Qed.

(** the same with the specification of a read spelled out: the recovered contents answer like
    [visible] on all entries of the logical state at its last sequence number *)
Theorem stack_crash_visible o js :
  open_okb o empty_image = true -> jrun_ok mfs fresh_lsm (opened o) js ->
  let ops := joint_ops mfs o js in
  let eff := snd (p_run prun_init ops) in
  forall n torn, (n <= length eff)%nat ->
  let img := crash_image empty_image eff n torn in
  let k := crash_k prun_init ops n torn in
  i_current img = None \/
  exists rc, recover_image img = inl rc /\
    forall j, (j <= length js)%nat -> jwrites (firstn j js) = k ->
      let lj := jlsm mfs fresh_lsm (firstn j js) in
      forall key, map_get key (rec_contents img rc) = visible (all_entries lj) (l_seq lj) key.
Proof.
  intros Hoo Hok. cbv zeta. intros n torn Hn.
  destruct (stack_crash_get o js Hoo Hok n torn Hn) as (_ & [[H _]|(rc & Hr & H)]); [left; exact H|right].
  exists rc. split; [exact Hr|]. intros j Lj Ej key. destruct (H j Lj Ej) as (Hwf & _ & Hg).
  rewrite (Hg key). apply (db_get_current _ key Hwf).
Qed.
End RUNS.

(** * S4: what recovery builds, seen from the logical side *)

(** the tables written by a list of file operations, in order *)
Definition written (ops : list fsop) : list (N * list entry) :=
  flat_map (fun o => match o with FsTable n es => [(n, es)] | _ => [] end) ops.

Lemma written_app a b : written (a ++ b) = written a ++ written b.
Proof. apply flat_map_app. Qed.

Lemma written_table_ops num es :
  written (table_ops num es) = match es with [] => [] | _ => [(num, es)] end.
Proof. destruct es; reflexivity. Qed.

Definition tops_of (ws : list (N * list entry)) : list fsop :=
  flat_map (fun p => table_ops (fst p) (snd p)) ws.

(** sequence number in (a, b], a put or a deletion *)
Definition eshape (a b : N) (e : entry) : Prop :=
  a < ik_seq (fst e) /\ ik_seq (fst e) <= b /\ ik_op (fst e) <= 1.

Lemma eshape_mono a b a' b' e : eshape a b e -> a' <= a -> b <= b' -> eshape a' b' e.
Proof. unfold eshape. intros (H1 & H2 & H3) Ha Hb. repeat split; lia. Qed.

(** tables in the order recovery writes them: increasing numbers, increasing sequence numbers *)
Definition wrel (x y : N * list entry) : Prop :=
  fst x < fst y /\ forall e1 e2, In e1 (snd x) -> In e2 (snd y) -> ik_seq (fst e1) < ik_seq (fst e2).

Definition added_of (sizes : list (N * N)) (ws : list (N * list entry)) : list (N * fmeta) :=
  flat_map (fun p => match table_meta (fst p) (size_of sizes (fst p)) (snd p) with
                     | Some f => [(0, f)] | None => [] end) ws.

Definition file_ok (base nbase lo nx : N) (p : N * list entry) : Prop :=
  snd p <> [] /\ sorted_entries (snd p) = true /\ nbase < fst p /\ fst p <= nx /\
  forall e, In e (snd p) -> eshape base lo e.

Record LR (sizes : list (N * N)) (base nbase : N) (r : replay_state) (lo hi : N) : Prop := mkLR {
  lr_ops : rs_ops r = tops_of (written (rs_ops r));
  lr_added : rs_added r = added_of sizes (written (rs_ops r));
  lr_files : Forall (file_ok base nbase lo (rs_next r)) (written (rs_ops r));
  lr_ord : StronglySorted wrel (written (rs_ops r));
  lr_mem_sorted : sorted_entries (rs_mem r) = true;
  lr_mem : forall e, In e (rs_mem r) -> eshape lo hi e;
  lr_lohi : base <= lo /\ lo <= hi;
  lr_next : nbase <= rs_next r;
  lr_nm : rs_new_manifest r = false -> rs_ops r = []
}.

Lemma file_ok_mono base nbase lo nx lo' nx' p :
  file_ok base nbase lo nx p -> lo <= lo' -> nx <= nx' -> file_ok base nbase lo' nx' p.
Proof.
  intros (H1 & H2 & H3 & H4 & H5) Hl Hn. repeat split; try assumption; try lia.
  all: destruct (H5 e H) as (A & B & C); lia.
Qed.

Section LREPLAY.
Variables (sizes : list (N * N)) (base nbase : N).
Notation LRs := (LR sizes base nbase).

Lemma LR_flush r lo hi : LRs r lo hi -> LRs (rs_flush sizes r) hi hi.
Proof.
  intros [H1 H2 H3 H4 H5 H6 H7 H8 H9]. set (num := rs_next r + 1).
  assert (Hw : written (rs_ops (rs_flush sizes r))
               = written (rs_ops r) ++ match rs_mem r with [] => [] | _ => [(num, rs_mem r)] end).
  { unfold rs_flush. cbn [rs_ops]. rewrite written_app, written_table_ops. reflexivity. }
  constructor.
  - rewrite Hw. unfold tops_of. rewrite flat_map_app. fold (tops_of (written (rs_ops r))). rewrite <- H1.
    unfold rs_flush. cbn [rs_ops]. f_equal. fold num. destruct (rs_mem r); [reflexivity|].
    cbn [flat_map fst snd]. rewrite app_nil_r. reflexivity.
  - rewrite Hw. unfold rs_flush. cbn [rs_added]. unfold added_of. rewrite flat_map_app. fold (added_of sizes (written (rs_ops r))).
    rewrite <- H2. f_equal. fold num. destruct (rs_mem r) as [|e0 m] eqn:M; [reflexivity|].
    cbn [flat_map fst snd]. rewrite app_nil_r. reflexivity.
  - rewrite Hw. apply Forall_app. split.
    + eapply Forall_impl; [|exact H3]. intros p Hp. apply (file_ok_mono _ _ _ _ _ _ _ Hp); [lia|].
      unfold rs_flush. cbn [rs_next]. lia.
    + destruct (rs_mem r) as [|e0 m] eqn:M; [constructor|]. constructor; [|constructor].
      unfold file_ok. cbn [fst snd]. split; [discriminate|]. split; [exact H5|].
      unfold rs_flush. cbn [rs_next]. fold num. split; [unfold num; lia|]. split; [lia|].
      intros e He. apply (eshape_mono _ _ _ _ _ (H6 e He)); lia.
  - rewrite Hw. apply SS_app; [exact H4| |].
    + destruct (rs_mem r); [constructor|]. constructor; constructor.
    + intros x y Hx Hy. destruct (rs_mem r) as [|e0 m] eqn:M; [destruct Hy|]. destruct Hy as [<-|[]].
      rewrite Forall_forall in H3. destruct (H3 x Hx) as (_ & _ & _ & Hn & Hs).
      split; [cbn [fst]; unfold num; lia|]. cbn [snd]. intros e1 e2 He1 He2.
      destruct (Hs e1 He1) as (_ & A & _). destruct (H6 e2 He2) as (B & _ & _). lia.
  - reflexivity.
  - intros e [].
  - lia.
  - unfold rs_flush. cbn [rs_next]. lia.
  - unfold rs_flush. cbn [rs_new_manifest]. discriminate.
Qed.

Lemma wop_entry_shape o n : ik_seq (fst (Recover.wop_entry o n)) = n /\ ik_op (fst (Recover.wop_entry o n)) <= 1.
Proof. destruct o; cbn; unfold OP_PUT, OP_DELETE; split; try reflexivity; lia. Qed.

(** inserting the entries of a batch numbered from [s + 1] into a sorted memtable below [s] *)
Lemma insert_ops_sorted ops : forall s mem lo,
  sorted_entries mem = true -> (forall e, In e mem -> eshape lo s e) -> lo <= s ->
  let mem' := fold_left (fun m e => insert_entry e m) (ops_entries (s + 1) ops) mem in
  sorted_entries mem' = true /\ forall e, In e mem' -> eshape lo (s + N.of_nat (length ops)) e.
Proof.
  induction ops as [|o r IH]; intros s mem lo S Hm Hl; cbv zeta.
  - cbn [ops_entries fold_left length]. split; [exact S|]. intros e He.
    apply (eshape_mono _ _ _ _ _ (Hm e He)); lia.
  - cbn [ops_entries fold_left length]. destruct (wop_entry_shape o (s + 1)) as [W1 W2].
    specialize (IH (s + 1) (insert_entry (Recover.wop_entry o (s + 1)) mem) lo). cbv zeta in IH.
    destruct IH as [I1 I2].
    + apply insert_entry_sorted; [exact S|]. intros x Hx E. apply ikey_cmp_eq_iff in E. destruct E as [_ E].
      destruct (Hm x Hx) as (_ & A & _). rewrite W1 in E. lia.
    + intros e He. apply insert_entry_in in He. destruct He as [->|He].
      * unfold eshape. rewrite W1. repeat split; lia.
      * apply (eshape_mono _ _ _ _ _ (Hm e He)); lia.
    + lia.
    + split; [exact I1|]. intros e He. apply (eshape_mono _ _ _ _ _ (I2 e He)); lia.
Qed.

Lemma LR_batch b r lo hi :
  LRs r lo hi -> fst b = hi + 1 ->
  exists lo', LRs (batch_step sizes b r) lo' (hi + N.of_nat (length (snd b))).
Proof.
  intros L Hb. pose proof L as [H1 H2 H3 H4 H5 H6 H7 H8 H9].
  assert (Eb : batch_entries b = ops_entries (hi + 1) (snd b)) by (unfold batch_entries; rewrite Hb; reflexivity).
  set (mem := fold_left (fun m e => insert_entry e m) (ops_entries (hi + 1) (snd b)) (rs_mem r)).
  destruct (insert_ops_sorted (snd b) hi (rs_mem r) lo H5 H6 (proj2 H7)) as [M1 M2].
  fold mem in M1, M2.
  assert (Lr : forall cuts, LRs (mkRS (rs_next r) mem cuts (rs_ops r) (rs_added r) (rs_flushes r) (rs_new_manifest r))
                                lo (hi + N.of_nat (length (snd b)))).
  { intros cuts. constructor; cbn [rs_ops rs_added rs_next rs_mem rs_new_manifest]; try assumption. lia. }
  unfold batch_step. rewrite Eb. fold mem.
  destruct (rs_cuts r) as [|c cs]; [exists lo; apply Lr|].
  destruct (c =? batch_last_seq b); [|exists lo; apply Lr].
  eexists. apply (LR_flush _ lo). apply Lr.
Qed.

Lemma LR_batches : forall bs r lo hi,
  LRs r lo hi -> batches_chained hi bs = true ->
  exists lo', LRs (replay_batches sizes bs r) lo' (hi + nops bs).
Proof.
  induction bs as [|b bs IH]; intros r lo hi L Hc.
  - exists lo. cbn [replay_batches]. rewrite nops_nil, N.add_0_r. exact L.
  - apply chained_cons_inv in Hc. destruct Hc as [Hb Hc]. rewrite replay_batches_cons.
    destruct (LR_batch b r lo hi L Hb) as (lo1 & L1).
    destruct (IH _ _ _ L1 Hc) as (lo2 & L2). exists lo2. rewrite nops_cons, N.add_assoc. exact L2.
Qed.

Lemma LR_reset r lo hi fl :
  LRs r lo hi -> LRs (mkRS (rs_next r) [] (rs_cuts r) (rs_ops r) (rs_added r) fl (rs_new_manifest r)) hi hi.
Proof.
  intros [H1 H2 H3 H4 H5 H6 H7 H8 H9].
  constructor; cbn [rs_ops rs_added rs_next rs_mem rs_new_manifest]; try assumption; try reflexivity.
  - eapply Forall_impl; [|exact H3]. intros p Hp. apply (file_ok_mono _ _ _ _ _ _ _ Hp); lia.
  - intros e [].
  - lia.
Qed.

Lemma LR_next r lo hi nx :
  LRs r lo hi -> rs_next r <= nx ->
  LRs (mkRS nx (rs_mem r) (rs_cuts r) (rs_ops r) (rs_added r) (rs_flushes r) (rs_new_manifest r)) lo hi.
Proof.
  intros [H1 H2 H3 H4 H5 H6 H7 H8 H9] Hn.
  constructor; cbn [rs_ops rs_added rs_next rs_mem rs_new_manifest]; try assumption.
  - eapply Forall_impl; [|exact H3]. intros p Hp. apply (file_ok_mono _ _ _ _ _ _ _ Hp); lia.
  - lia.
Qed.
End LREPLAY.

Lemma LR_logs o wimg base nbase : forall ws r lo hi r' reused,
  LR (oo_sizes o) base nbase r lo hi -> rs_mem r = [] ->
  batches_chained hi (flat_map wr_batches ws) = true ->
  replay_logs o wimg ws r = (r', reused) ->
  exists lo', LR (oo_sizes o) base nbase r' lo' (hi + nops (flat_map wr_batches ws)) /\
              (reused = None -> rs_mem r' = []).
Proof.
  induction ws as [|w rest IH]; intros r lo hi r' reused L Hm Hc Hrun.
  - cbn [replay_logs] in Hrun. injection Hrun as <- <-. exists lo. cbn [flat_map]. rewrite nops_nil, N.add_0_r.
    split; [exact L|]. intros _. exact Hm.
  - cbn [flat_map] in Hc. rewrite chained_app in Hc. apply andb_true_iff in Hc. destruct Hc as [Hc1 Hc2].
    rewrite replay_logs_cons in Hrun.
    pose proof (LR_reset (oo_sizes o) base nbase r lo hi O L) as L0.
    destruct (LR_batches (oo_sizes o) base nbase (wr_batches w) _ _ _ L0 Hc1) as (lo1 & L1).
    change (replay_batches (oo_sizes o) (wr_batches w)
              (mkRS (rs_next r) [] (rs_cuts r) (rs_ops r) (rs_added r) O (rs_new_manifest r)))
      with (log_r1 o w r) in L1.
    assert (L3 : exists lo3, LR (oo_sizes o) base nbase (log_r3 o w rest r) lo3 (hi + nops (wr_batches w)) /\
                             (log_reuse o w rest r = false -> rs_mem (log_r3 o w rest r) = [])).
    { unfold log_r3.
      destruct (log_reuse o w rest r && negb (match rs_mem (log_r1 o w r) with [] => true | _ => false end)) eqn:K.
      - exists lo1. split.
        + apply (LR_next (oo_sizes o) base nbase (log_r1 o w r) lo1 _ _ L1). lia.
        + intros F. rewrite F in K. discriminate.
      - exists (hi + nops (wr_batches w)). split.
        + apply (LR_next (oo_sizes o) base nbase _ _ _ _ (LR_flush (oo_sizes o) base nbase _ _ _ L1)). lia.
        + intros _. reflexivity. }
    destruct L3 as (lo3 & L3 & M3).
    cbn [flat_map]. rewrite nops_app, N.add_assoc.
    destruct (log_reuse o w rest r) eqn:RU.
    + injection Hrun as <- <-. unfold log_reuse in RU.
      assert (rest = []) as -> by (destruct rest; [reflexivity|]; rewrite andb_false_r in RU; cbn in RU; discriminate).
      cbn [flat_map]. rewrite nops_nil, N.add_0_r. exists lo3. split; [exact L3|discriminate].
    + apply (IH _ _ _ _ _ L3 (M3 eq_refl) Hc2 Hrun).
Qed.

(** the result of [p_open] after recovery, field by field *)
Lemma open_rest_spec o img0 ops0 img1 rc d' ops :
  img1 = apply_fsops img0 ops0 -> Forall nontable ops0 ->
  open_rest o img0 ops0 img1 rc = Some (d', ops) ->
  exists r reused,
    replay_logs o img1 (rc_wals rc) (mkRS (ms_next (rc_manifest rc) + 1) [] (oo_cuts o) [] [] O false) = (r, reused) /\
    ((rs_new_manifest r = false /\ pd_ver d' = ms_version (rc_manifest rc)) \/
     apply_edit (ms_version (rc_manifest rc))
                (mkVE [] (map (fun x => (N.to_nat (fst x), snd x)) (rs_added r))) = Some (pd_ver d')) /\
    pd_mem d' = match reused with Some _ => rs_mem r | None => [] end /\
    pd_imm d' = None /\ pd_seq d' = rc_seq rc /\
    pd_next d' = match reused with Some _ => rs_next r | None => rs_next r + 1 end /\
    TabsLive d' /\
    forall n, In n (version_numbers (pd_ver d')) ->
      lookupN n (i_tables (pd_img d')) = lookupN n (i_tables (apply_fsops img1 (rs_ops r))).
Proof.
  intros E1 Hnt H. unfold open_rest in H. cbv zeta in H.
  destruct (replay_logs o img1 (rc_wals rc) _) as [r reused] eqn:RL.
  exists r, reused. split; [reflexivity|].
  assert (Htab : forall W, Forall nontable W ->
            i_tables (apply_fsops img0 (ops0 ++ rs_ops r ++ W)) = i_tables (apply_fsops img1 (rs_ops r))).
  { intros W HW. rewrite !apply_fsops_app, <- E1. apply nontable_tables_list. exact HW. }
  match type of H with context [mkPD ?a ?b ?c ?d ?e ?f ?g ?h ?i ?j ?k ?l ?m ?n] =>
    set (d1 := mkPD a b c d e f g h i j k l m n) in * end.
  destruct (negb _ || rs_new_manifest r) eqn:NS.
  - match type of H with context [log_and_apply d1 ?c ?q] => destruct (log_and_apply d1 c q) as [[d2 ops2]|] eqn:LA end;
      [|discriminate].
    destruct (laa_fields _ _ _ _ _ LA) as (H1 & H2 & H3 & H4 & H5 & H6).
    pose proof (gc_fields d2) as G. cbv zeta in G. destruct (do_gc d2) as [d3 ops3]. cbn [fst] in G.
    destruct G as (G1 & G2 & G3 & G4 & G5 & G6 & G7). injection H as <- _.
    cbn [d1 pd_ver pd_img pd_next pd_seq pd_mem pd_imm] in *.
    split; [right; rewrite G1; exact H1|].
    split; [rewrite G4, H5; reflexivity|]. split; [rewrite G5, H6; reflexivity|].
    split; [rewrite G3, H4; reflexivity|]. split; [rewrite G2, H3; destruct reused; reflexivity|].
    split; [exact G7|]. intros n Hn. rewrite G1 in Hn. rewrite (G6 n Hn), H2. unfold d1. cbn [pd_img].
    rewrite Htab by (destruct reused; repeat constructor). reflexivity.
  - pose proof (gc_fields d1) as G. cbv zeta in G. destruct (do_gc d1) as [d3 ops3]. cbn [fst] in G.
    destruct G as (G1 & G2 & G3 & G4 & G5 & G6 & G7). injection H as <- _.
    cbn [d1 pd_ver pd_img pd_next pd_seq pd_mem pd_imm] in *.
    apply orb_false_iff in NS. destruct NS as [_ NS].
    split; [left; split; [exact NS|exact G1]|].
    split; [exact G4|]. split; [exact G5|]. split; [exact G3|]. split; [rewrite G2; destruct reused; reflexivity|].
    split; [exact G7|]. intros n Hn. rewrite G1 in Hn. rewrite (G6 n Hn). unfold d1. cbn [pd_img].
    rewrite Htab by (destruct reused; repeat constructor). reflexivity.
Qed.

(** the store read off a directory *)
Lemma store_of_find t n es :
  lookupN n t = Some (Some es) ->
  find (fun p : N * list entry => fst p =? n)
       (flat_map (fun p : N * option (list entry) => match snd p with Some x => [(fst p, x)] | None => [] end) t)
  = Some (n, es).
Proof.
  unfold lookupN. induction t as [|[m x] t IH]; cbn [find flat_map fst snd]; [discriminate|].
  destruct (m =? n) eqn:E.
  - intros H. injection H as ->. cbn [app find fst]. rewrite E. apply N.eqb_eq in E. subst. reflexivity.
  - intros H. destruct x as [x|]; cbn [app find fst]; [rewrite E|]; apply IH; exact H.
Qed.

Lemma lsm_of_pdb_entries d n es :
  table_entries_of (pd_img d) n = Some es -> file_entries (lsm_of_pdb d) n = es.
Proof.
  intros H. apply table_entries_of_some in H. unfold file_entries, lsm_of_pdb, store_of. cbn [l_store].
  rewrite (store_of_find _ _ _ H). reflexivity.
Qed.

(** tables after the table operations of a list of (number, entries) with distinct numbers *)
Lemma tops_lookup_other ws : forall img n,
  ~ In n (map fst ws) -> lookupN n (i_tables (apply_fsops img (tops_of ws))) = lookupN n (i_tables img).
Proof.
  induction ws as [|a r IH]; intros img n Hn; [reflexivity|].
  unfold tops_of in *. cbn [flat_map]. rewrite apply_fsops_app, IH by (intros X; apply Hn; right; exact X).
  rewrite table_ops_tables. destruct (snd a); [reflexivity|].
  destruct (n =? fst a) eqn:E; [|reflexivity]. apply N.eqb_eq in E. exfalso. apply Hn. left. symmetry. exact E.
Qed.

Lemma tops_lookup_new ws : forall img a,
  NoDup (map fst ws) -> In a ws -> snd a <> [] ->
  lookupN (fst a) (i_tables (apply_fsops img (tops_of ws))) = Some (Some (snd a)).
Proof.
  induction ws as [|b r IH]; intros img a ND Ha Hne; [destruct Ha|].
  cbn [map] in ND. apply NoDup_cons_iff in ND. destruct ND as [Nb ND].
  unfold tops_of in *. cbn [flat_map]. rewrite apply_fsops_app. destruct Ha as [->|Ha].
  - rewrite (tops_lookup_other r) by exact Nb. rewrite table_ops_tables.
    destruct (snd a) as [|e es] eqn:Es; [congruence|]. rewrite N.eqb_refl. reflexivity.
  - apply IH; assumption.
Qed.

Lemma wrel_nodup ws : StronglySorted wrel ws -> NoDup (map fst ws).
Proof.
  induction 1 as [|x r Hr IH Hx]; [constructor|]. cbn [map]. constructor; [|exact IH].
  intros Hin. apply in_map_iff in Hin. destruct Hin as (y & E & Hy). rewrite Forall_forall in Hx.
  destruct (Hx y Hy) as [L _]. lia.
Qed.

Lemma SS_in_order {A} (R : A -> A -> Prop) l : StronglySorted R l ->
  forall x y, In x l -> In y l -> x = y \/ R x y \/ R y x.
Proof.
  induction 1 as [|a r Hr IH Ha]; intros x y Hx Hy; [destruct Hx|].
  rewrite Forall_forall in Ha. destruct Hx as [<-|Hx], Hy as [<-|Hy]; auto.
Qed.

Lemma built_level_nodup a v i :
  NoDup (lvl_nums (ma_added a)) -> build_levels 0 NLEVELS a = Some v -> NoDup (map fm_num (nth i v [])).
Proof.
  intros ND Hb. destruct (bl_char _ _ _ _ Hb) as [Lv Hv].
  destruct (Nat.lt_ge_cases i NLEVELS) as [Li|Li].
  - specialize (Hv i Li). cbn [Nat.add] in Hv. rewrite (apply_level_res_nil _ _ _ _ Hv).
    apply NoDup_map_filter. eapply Permutation_NoDup; [apply Permutation_map; symmetry; apply SelectProofs.sort_perm|].
    apply (nodup_level _ i ND).
  - rewrite nth_overflow by lia. constructor.
Qed.

(** * S4: reopening. The directory [img1] (after the creation operations when there was no CURRENT)
    satisfies the protocol's crash invariant [CS] for the durable view [dv]; [lb] is a well-formed
    logical table state whose version is the version of the manifest and whose files are the
    tables of the directory. Then the state [p_open] builds is well formed and coupled. *)
Section REOPEN.
Variables (o : open_oracle) (img0 : image) (ops0 : list fsop) (img1 : image)
          (dv : dview) (bsF : list batch) (Q : N) (d' : pdb) (ops : list fsop) (lb : lsm).
Hypothesis C : CS img1 dv bsF Q.
Hypothesis E1 : img1 = apply_fsops img0 ops0.
Hypothesis Hnt : Forall nontable ops0.
Hypothesis Hop : open_rest o img0 ops0 img1 (rc_of img1 dv) = Some (d', ops).
Hypothesis IE : InvE d' (bsF ++ log_batches (dv_logs dv)).
Hypothesis Wb : WF (strip lb).
Hypothesis Vb : l_ver lb = dv_ver dv.
Hypothesis Tb : TabsAre lb img1.

Let base := nops bsF.
Let nbase := dv_next dv + 1.
Let L := log_batches (dv_logs dv).
Let s := lsm_of_pdb d'.

Lemma ro_base_seq i f e : In f (lfs lb i) -> In e (fe lb f) -> ik_seq (fst e) <= base.
Proof.
  intros Hf He. destruct (rec_tab _ _ _ _ (cs_rec _ _ _ _ C)) as (_ & B & _). apply B.
  rewrite <- Vb. apply (tabs_entries_iff lb img1 e Tb). exists i, f. auto.
Qed.

Lemma ro_base_num i f : In f (lfs lb i) -> fm_num f <= dv_next dv.
Proof.
  intros Hf. apply (oc_ver_bound img1 dv bsF Q C). rewrite <- Vb. apply vn_in. exists i, f. auto.
Qed.

Lemma ro_spec :
  exists r (reused : option (N * N)) lo,
    LR (oo_sizes o) base nbase r lo (base + nops L) /\ (reused = None -> rs_mem r = []) /\
    ((rs_new_manifest r = false /\ pd_ver d' = dv_ver dv) \/
     apply_edit (dv_ver dv) (mkVE [] (map (fun x => (N.to_nat (fst x), snd x)) (rs_added r))) = Some (pd_ver d')) /\
    pd_mem d' = match reused with Some _ => rs_mem r | None => [] end /\
    pd_imm d' = None /\ pd_seq d' = base + nops L /\ rs_next r <= pd_next d' /\ TabsLive d' /\
    forall n, In n (version_numbers (pd_ver d')) ->
      lookupN n (i_tables (pd_img d')) = lookupN n (i_tables (apply_fsops img1 (rs_ops r))).
Proof.
  destruct (open_rest_spec o img0 ops0 img1 _ d' ops E1 Hnt Hop)
    as (r & reused & RL & Hver & Hmem & Himm & Hseq & Hnext & TL & Htab).
  cbn [rc_of rc_manifest rc_wals ms_of ms_version ms_next] in *.
  assert (L0 : LR (oo_sizes o) base nbase (mkRS (dv_next dv + 1) [] (oo_cuts o) [] [] O false) base base).
  { constructor; cbn [rs_ops rs_added rs_next rs_mem rs_new_manifest written tops_of added_of flat_map].
    - reflexivity.
    - reflexivity.
    - constructor.
    - constructor.
    - reflexivity.
    - intros e0 [].
    - lia.
    - unfold nbase. lia.
    - intros _. reflexivity. }
  assert (Hc : batches_chained base (flat_map wr_batches (map (wr_of img1) (dv_logs dv))) = true).
  { rewrite flat_map_wr_batches. pose proof (rec_chain _ _ _ _ (cs_rec _ _ _ _ C)) as Hc.
    rewrite chained_app in Hc. apply andb_true_iff in Hc. rewrite N.add_0_l in Hc. apply Hc. }
  destruct (LR_logs o img1 base nbase _ _ _ _ _ _ L0 eq_refl Hc RL) as (lo & LRf & Hnone).
  rewrite flat_map_wr_batches in LRf.
  exists r, reused, lo. split; [exact LRf|]. split; [exact Hnone|]. split; [exact Hver|].
  split; [exact Hmem|]. split; [exact Himm|].
  split; [rewrite Hseq, (oc_seq img1 dv bsF Q C), nops_app; reflexivity|].
  split; [rewrite Hnext; destruct reused; lia|]. split; [exact TL|exact Htab].
Qed.

Lemma table_meta_inv num size es f :
  table_meta num size es = Some f ->
  fm_num f = num /\ first_key es = Some (fm_small f) /\ last_key es = Some (fm_large f).
Proof.
  unfold table_meta. destruct (first_key es) as [a|]; [|discriminate]. destruct (last_key es) as [b|]; [|discriminate].
  intros H. injection H as <-. repeat split.
Qed.

Definition meta_of (p : N * list entry) (f : fmeta) : Prop :=
  table_meta (fst p) (size_of (oo_sizes o) (fst p)) (snd p) = Some f.

Theorem ro_wf : WF s /\ Coupled s d' /\ TabsLive d'.
Proof.
  destruct ro_spec as (r & reused & lo & LRf & Hnone & Hver & Hmem & Himm & Hseq & Hnext & TL & Htab).
  pose proof LRf as [R1 R2 R3 R4 R5 R6 R7 R8 R9].
  set (W := written (rs_ops r)) in *. set (hi := base + nops L) in *.
  rewrite Forall_forall in R3.
  pose proof (wrel_nodup W R4) as NDW.
  assert (Hlen : length (dv_ver dv) = 7%nat).
  { destruct (rec_dur _ _ _ _ (cs_rec _ _ _ _ C)) as (_ & _ & (_ & _ & _ & _ & Hb) & _ & _).
    apply (build_levels_length _ _ Hb). }
  (* the files of the new version *)
  assert (FC : forall i f, In f (level_files (pd_ver d') i) <->
                 In f (level_files (dv_ver dv) i) \/ (i = 0%nat /\ exists p, In p W /\ meta_of p f)).
  { intros i f. destruct Hver as [[Hnm ->]|EA].
    - assert (W = []) as -> by (unfold W; rewrite (R9 Hnm); reflexivity).
      split; [auto|]. intros [H|(_ & p & [] & _)]. exact H.
    - assert (Hadd : forall j, In (j, f) (map (fun x : N * fmeta => (N.to_nat (fst x), snd x)) (rs_added r)) <->
                               j = 0%nat /\ exists p, In p W /\ meta_of p f).
      { intros j. rewrite R2, in_map_iff. fold W. split.
        - intros ([lv g] & E & Hin). cbn [fst snd] in E. injection E as <- <-.
          unfold added_of in Hin. apply in_flat_map in Hin. destruct Hin as (p & Hp & Hin).
          destruct (table_meta (fst p) (size_of (oo_sizes o) (fst p)) (snd p)) as [g'|] eqn:TM; [|destruct Hin].
          destruct Hin as [Hin|[]]. injection Hin as <- <-. split; [reflexivity|]. exists p. split; [exact Hp|exact TM].
        - intros (-> & p & Hp & TM). exists (0, f). split; [reflexivity|].
          unfold added_of. apply in_flat_map. exists p. split; [exact Hp|]. unfold meta_of in TM. rewrite TM. left. reflexivity. }
      destruct (Nat.lt_ge_cases i (length (dv_ver dv))) as [Li|Li].
      + rewrite (apply_edit_In _ _ _ EA i f Li). cbn [ve_added ve_deleted]. rewrite Hadd. split.
        * intros [H _]. exact H.
        * intros H. split; [exact H|]. intros [[] _].
      + rewrite (apply_edit_overflow _ _ _ EA i Li), (level_files_overflow _ i Li). split; [intros []|].
        intros [[]|(-> & _)]. lia. }
  (* what the files hold *)
  assert (FEb : forall i f, In f (level_files (dv_ver dv) i) -> In f (level_files (pd_ver d') i) ->
                            fe (lsm_of_pdb d') f = fe lb f).
  { intros i f Hb Hf. unfold fe. apply lsm_of_pdb_entries. apply table_entries_of_some.
    assert (Hn : In (fm_num f) (version_numbers (pd_ver d'))) by (apply vn_in; exists i, f; auto).
    rewrite (Htab _ Hn), R1. fold W. rewrite tops_lookup_other.
    - apply table_entries_of_some. apply Tb. rewrite Vb. apply vn_in. exists i, f. auto.
    - intros Hin. apply in_map_iff in Hin. destruct Hin as (p & E & Hp).
      destruct (R3 p Hp) as (_ & _ & Hlt & _). rewrite <- Vb in Hb. pose proof (ro_base_num i f Hb). unfold nbase in Hlt. lia. }
  assert (FEa : forall p f, In p W -> meta_of p f -> In f (level_files (pd_ver d') 0) -> fe (lsm_of_pdb d') f = snd p).
  { intros p f Hp TM Hf. destruct (table_meta_inv _ _ _ _ TM) as (En & _ & _).
    unfold fe. apply lsm_of_pdb_entries. apply table_entries_of_some.
    assert (Hn : In (fm_num f) (version_numbers (pd_ver d'))) by (apply vn_in; exists 0%nat, f; auto).
    rewrite (Htab _ Hn), R1, En. fold W. apply tops_lookup_new; [exact NDW|exact Hp|apply (R3 p Hp)]. }
  (* entries of the base files and of the new files *)
  assert (Bseq : forall i f e, In f (level_files (dv_ver dv) i) -> In e (fe lb f) -> ik_seq (fst e) <= base).
  { intros i f e Hf He. rewrite <- Vb in Hf. apply (ro_base_seq i f e Hf He). }
  assert (Bok : forall i f e, In f (level_files (dv_ver dv) i) -> In e (fe lb f) -> entry_ok (pd_seq d') e = true).
  { intros i f e Hf He. pose proof (Bseq i f e Hf He) as B1. rewrite <- Vb in Hf.
    pose proof (wf_eok_f _ Wb i f e Hf He) as Ok. apply entry_ok_iff in Ok. apply entry_ok_iff. rewrite Hseq. fold hi.
    destruct R7. unfold hi in *. lia. }
  assert (Aok : forall p e, In p W -> In e (snd p) -> base < ik_seq (fst e) /\ ik_seq (fst e) <= lo /\ ik_op (fst e) <= 1).
  { intros p e Hp He. destruct (R3 p Hp) as (_ & _ & _ & _ & Hs). apply (Hs e He). }
  assert (Hmem' : forall e, In e (pd_mem d') -> lo < ik_seq (fst e) /\ ik_seq (fst e) <= hi /\ ik_op (fst e) <= 1).
  { intros e He. rewrite Hmem in He. destruct reused; [apply (R6 e He)|destruct He]. }
  assert (Hmem_s : sorted_entries (pd_mem d') = true).
  { rewrite Hmem. destruct reused; [exact R5|reflexivity]. }
  assert (Hlohi : base <= lo /\ lo <= hi) by exact R7.
  (* the invariant *)
  assert (Wf : WF s).
  { destruct IE as (dv' & bsF' & Q' & older & bsM & I & _).
    constructor; unfold s, lfs, imm_l; cbn [lsm_of_pdb l_panic l_ver l_mem l_imm l_seq l_next l_snaps]; rewrite ?Himm.
    - reflexivity.
    - rewrite (iv_ver _ _ _ _ _ _ I).
      destruct (rec_dur _ _ _ _ (iv_rec _ _ _ _ _ _ I)) as (_ & _ & (_ & _ & _ & _ & Hb) & _ & _).
      apply (build_levels_length _ _ Hb).
    - pose proof (wf_ver _ Wb) as Vw. cbn [strip l_ver] in Vw. rewrite Vb in Vw.
      apply version_wf_intro.
      + intros i Hi. destruct Hver as [[_ ->]|EA].
        * unfold version_wf in Vw. apply andb_true_iff in Vw. destruct Vw as [Vw _]. apply andb_true_iff in Vw.
          destruct Vw as [Vw _]. rewrite forallb_forall in Vw. destruct i as [|i]; [congruence|].
          destruct (Nat.lt_ge_cases (S i) (length (dv_ver dv))) as [Li|Li].
          -- apply Vw. apply levels_tl. exact Li.
          -- rewrite (level_files_overflow _ _ Li). reflexivity.
        * apply (apply_edit_cd _ _ _ EA i Hi).
      + intros i f Hf. apply FC in Hf. destruct Hf as [Hf|(-> & p & Hp & TM)].
        * rewrite <- Vb in Hf. apply (file_ordered (fe lb f)). apply (wf_bounds _ Wb i f Hf).
        * destruct (table_meta_inv _ _ _ _ TM) as (_ & F1 & F2). destruct (R3 p Hp) as (_ & Sp & _).
          apply (file_ordered (snd p)). apply bounds_intro; assumption.
      + intros i. rewrite (iv_ver _ _ _ _ _ _ I).
        destruct (rec_dur _ _ _ _ (iv_rec _ _ _ _ _ _ I)) as (_ & _ & (_ & _ & _ & _ & Hb) & _ & _).
        apply (built_level_nodup _ _ i (proj1 (iv_hist _ _ _ _ _ _ I)) Hb).
      + intros i j f g Nij Hf Hg E. apply FC in Hf. apply FC in Hg.
        destruct Hf as [Hf|(-> & p & Hp & TMp)], Hg as [Hg|(-> & q & Hq & TMq)].
        * destruct (wf_same_num _ _ _ _ _ Vw Hf Hg E) as [X _]. exact (Nij X).
        * destruct (table_meta_inv _ _ _ _ TMq) as (En & _ & _). destruct (R3 q Hq) as (_ & _ & Hlt & _).
          rewrite <- Vb in Hf. pose proof (ro_base_num i f Hf). unfold nbase in Hlt. lia.
        * destruct (table_meta_inv _ _ _ _ TMp) as (En & _ & _). destruct (R3 p Hp) as (_ & _ & Hlt & _).
          rewrite <- Vb in Hg. pose proof (ro_base_num j g Hg). unfold nbase in Hlt. lia.
        * exact (Nij eq_refl).
    - intros i f Hf. pose proof Hf as Hf0. apply FC in Hf. destruct Hf as [Hf|(-> & p & Hp & TM)].
      + rewrite (FEb i f Hf Hf0). rewrite <- Vb in Hf. apply (wf_bounds _ Wb i f Hf).
      + rewrite (FEa p f Hp TM Hf0). destruct (table_meta_inv _ _ _ _ TM) as (_ & F1 & F2).
        destruct (R3 p Hp) as (_ & Sp & _). apply bounds_intro; assumption.
    - exact Hmem_s.
    - reflexivity.
    - apply nt_nil_r.
    - intros i f Hf x y Hx Hy _. destruct (Hmem' x Hx) as (A & _). pose proof Hf as Hf0. apply FC in Hf.
      destruct Hf as [Hf|(-> & p & Hp & TM)].
      + rewrite (FEb i f Hf Hf0) in Hy. pose proof (Bseq i f y Hf Hy). lia.
      + rewrite (FEa p f Hp TM Hf0) in Hy. destruct (Aok p y Hp Hy) as (_ & B & _). lia.
    - intros; apply nt_nil_l.
    - intros f g Hf Hg Lt x y Hx Hy EU. pose proof Hf as Hf0. pose proof Hg as Hg0. apply FC in Hf. apply FC in Hg.
      destruct Hf as [Hf|(_ & p & Hp & TMp)], Hg as [Hg|(_ & q & Hq & TMq)].
      + rewrite (FEb _ f Hf Hf0) in Hx. rewrite (FEb _ g Hg Hg0) in Hy. rewrite <- Vb in Hf, Hg.
        apply (wf_r_l0 _ Wb f g Hf Hg Lt x y Hx Hy EU).
      + destruct (table_meta_inv _ _ _ _ TMq) as (En & _ & _). destruct (R3 q Hq) as (_ & _ & Hlt & _).
        rewrite <- Vb in Hf. pose proof (ro_base_num _ f Hf). unfold nbase in Hlt. lia.
      + rewrite (FEa p f Hp TMp Hf0) in Hx. rewrite (FEb _ g Hg Hg0) in Hy.
        destruct (Aok p x Hp Hx) as (A & _). pose proof (Bseq _ g y Hg Hy). lia.
      + rewrite (FEa p f Hp TMp Hf0) in Hx. rewrite (FEa q g Hq TMq Hg0) in Hy.
        destruct (table_meta_inv _ _ _ _ TMp) as (Enp & _ & _). destruct (table_meta_inv _ _ _ _ TMq) as (Enq & _ & _).
        destruct (SS_in_order _ _ R4 p q Hp Hq) as [->|[[Rl _]|[_ Rs]]].
        * lia.
        * lia.
        * apply (Rs y x Hy Hx).
    - intros i j f g Lij Hf Hg x y Hx Hy EU. pose proof Hf as Hf0. pose proof Hg as Hg0. apply FC in Hf. apply FC in Hg.
      destruct Hg as [Hg|(-> & _)]; [|lia]. rewrite (FEb _ g Hg Hg0) in Hy.
      destruct Hf as [Hf|(-> & p & Hp & TMp)].
      + rewrite (FEb _ f Hf Hf0) in Hx. rewrite <- Vb in Hf, Hg. apply (wf_r_lev _ Wb i j f g Lij Hf Hg x y Hx Hy EU).
      + rewrite (FEa p f Hp TMp Hf0) in Hx. destruct (Aok p x Hp Hx) as (A & _). pose proof (Bseq _ g y Hg Hy). lia.
    - intros e He. apply entry_ok_iff. destruct (Hmem' e He) as (A & B & D). rewrite Hseq. fold hi. lia.
    - intros e [].
    - intros i f e Hf He. pose proof Hf as Hf0. apply FC in Hf. destruct Hf as [Hf|(-> & p & Hp & TM)].
      + rewrite (FEb i f Hf Hf0) in He. apply (Bok i f e Hf He).
      + rewrite (FEa p f Hp TM Hf0) in He. destruct (Aok p e Hp He) as (A & B & D).
        apply entry_ok_iff. rewrite Hseq. fold hi. lia.
    - intros i f Hf. pose proof (iv_hist _ _ _ _ _ _ I) as [_ Hh].
      destruct (rec_dur _ _ _ _ (iv_rec _ _ _ _ _ _ I)) as (_ & _ & (_ & _ & _ & _ & Hb) & _ & _).
      rewrite (iv_ver _ _ _ _ _ _ I) in Hf. apply (build_levels_in _ _ _ _ Hb) in Hf.
      destruct (Hh _ _ Hf) as [H1 _]. pose proof (proj1 (iv_next _ _ _ _ _ _ I)). lia.
    - intros q []. }
  split; [exact Wf|]. split; [|exact TL].
  constructor; unfold s; cbn [lsm_of_pdb l_mem l_imm l_ver l_seq l_next l_panic]; try reflexivity.
  intros n Hn. destruct IE as (dv' & bsF' & Q' & older & bsM & I & _).
  destruct (rec_dur _ _ _ _ (iv_rec _ _ _ _ _ _ I)) as (_ & _ & _ & DT & _).
  rewrite (iv_ver _ _ _ _ _ _ I) in Hn. destruct (DT n Hn) as [es He].
  apply table_entries_of_some in He. rewrite He. f_equal. symmetry. apply lsm_of_pdb_entries. exact He.
Qed.
End REOPEN.

(** the directory is the image of a logical state: whatever manifest CURRENT names, the version it
    describes and the tables of the directory form a well-formed logical table state *)
Definition LogicalImg (img : image) : Prop :=
  forall ms, recover_manifest img = inl ms ->
    exists lb, WF (strip lb) /\ l_ver lb = ms_version ms /\ TabsAre lb img.

Lemma init_ops_nontable : Forall nontable init_ops.
Proof. unfold init_ops, set_current_ops. repeat constructor. Qed.

Lemma empty_lb_wf : WF (strip (mkLsm [] None (repeat [] NLEVELS) [] 0 [] 0 false)).
Proof. apply WF_of_b. vm_compute. reflexivity. Qed.

(** S4: opening a directory that a crash or a clean shutdown left, and that is the image of a
    logical state: the rebuilt logical state is well formed and coupled with the database that
    [p_open] returns; the joint invariant holds again *)
Theorem reopen_joint o img bs d' ops :
  Crashed img bs -> LogicalImg img -> open_okb o img = true ->
  p_open o img = Some (d', ops) ->
  Joint (lsm_of_pdb d') d' bs.
Proof.
  intros Hc HL Hok Hop.
  destruct (open_step_c o img bs d' ops Hc Hok Hop) as (_ & IE & _).
  rewrite p_open_unfold in Hop. cbv zeta in Hop.
  destruct Hc as [[Hn ->]|(dv & bsF & Q & C & ->)].
  - rewrite (proj1 Hn) in Hop.
    assert (C1 : CS (apply_fsops img init_ops) dv_init [] 0) by (rewrite (NoCur_init _ Hn); apply CS_init).
    rewrite (recover_durable _ _ (rec_dur _ _ _ _ (cs_rec _ _ _ _ C1))) in Hop.
    destruct (ro_wf o img init_ops _ dv_init [] 0 d' ops (mkLsm [] None (repeat [] NLEVELS) [] 0 [] 0 false)
                    C1 eq_refl init_ops_nontable Hop IE empty_lb_wf eq_refl) as (W & Cp & TL).
    { intros n []. }
    constructor; [apply WF_to_b; exact W|exact Cp|exact IE|exact TL].
  - destruct (rec_dur _ _ _ _ (cs_rec _ _ _ _ C)) as ((Hcur & _) & _).
    rewrite Hcur in Hop. cbn [apply_fsops fold_left] in Hop.
    pose proof (recover_manifest_durable _ _ (rec_dur _ _ _ _ (cs_rec _ _ _ _ C))) as RM.
    destruct (HL _ RM) as (lb & Wb & Vb & Tb). cbn [ms_of ms_version] in Vb.
    rewrite (recover_durable _ _ (rec_dur _ _ _ _ (cs_rec _ _ _ _ C))) in Hop.
    destruct (ro_wf o img [] img dv bsF Q d' ops lb C eq_refl (Forall_nil _) Hop IE Wb Vb Tb) as (W & Cp & TL).
    constructor; [apply WF_to_b; exact W|exact Cp|exact IE|exact TL].
Qed.

Theorem reopen_get o img bs d' ops :
  Crashed img bs -> LogicalImg img -> open_okb o img = true ->
  p_open o img = Some (d', ops) ->
  forall k, db_get (lsm_of_pdb d') k = map_get k (replay [] bs).
Proof. intros Hc HL Hok Hop. apply (joint_get _ _ _ (reopen_joint o img bs d' ops Hc HL Hok Hop)). Qed.

(** the directory of a joint state (a clean shutdown at any step boundary) *)
Lemma joint_logical l d acked : Joint l d acked -> LogicalImg (pd_img d).
Proof.
  intros [Hwf C I TL] ms RM. destruct I as (dv & bsF & Q & older & bsM & I & _).
  rewrite (recover_manifest_durable _ _ (rec_dur _ _ _ _ (iv_rec _ _ _ _ _ _ I))) in RM. injection RM as <-.
  exists l. split; [apply strip_WF; apply WF_of_b; exact Hwf|]. cbn [ms_of ms_version].
  split; [rewrite <- (iv_ver _ _ _ _ _ _ I); symmetry; apply (cp_ver _ _ C)|exact (cp_tabs _ _ C)].
Qed.

Theorem reopen_after_close o l d acked d' ops :
  Joint l d acked -> open_okb o (pd_img d) = true -> p_open o (pd_img d) = Some (d', ops) ->
  Joint (lsm_of_pdb d') d' acked.
Proof.
  intros J Hok Hop. apply (reopen_joint o (pd_img d) acked d' ops); try assumption.
  - apply InvE_Crashed. exact (j_inv _ _ _ J).
  - apply (joint_logical l d acked J).
Qed.

(** * Corollaries for the property file *)

(** the finding about the counters: [lsm_init] itself is never coupled with a freshly created
    database (its counter is 1, the protocol's is 3) *)
Theorem init_counter_offset o d ops :
  p_open o empty_image = Some (d, ops) ->
  pd_next d = 3 /\ l_next lsm_init = 1 /\ ~ Coupled lsm_init d /\ Coupled fresh_lsm d.
Proof.
  intros E. destruct (open_fresh o) as (d0 & ops0 & E0 & C0 & _). rewrite E in E0. injection E0 as <- <-.
  pose proof (cp_next _ _ C0) as Hn. cbn [fresh_lsm l_next] in Hn.
  split; [exact Hn|]. split; [reflexivity|]. split; [|exact C0].
  intros C. pose proof (cp_next _ _ C) as Hn'. cbn [lsm_init l_next] in Hn'. rewrite Hn in Hn'. discriminate.
Qed.

(** S2, the compaction case spelled out: the hypothesis [install_preserves] of the protocol's
    crash-safety theorem holds for the edit of [do_compact], and [install_okb] holds, given only
    that the manifest record fits the wire format; the only condition on snapshots is the one of
    [step_admissible] ([smallest_snapshot l < MAX_SEQ], the sentinel of the drop rule) *)
Theorem compact_install_ok mfs l d acked level seed cuts ptrs ci :
  Joint l d acked -> compact_adm l level seed -> smallest_snapshot l < MAX_SEQ ->
  finalize_inputs true true mfs (l_ver l) level (files_of (l_ver l) level seed) = Some ci ->
  let del := compact_deleted level ci in
  let add := compact_added level (compact_outs l level ci cuts) in
  CodecProofs.vchange_ok (install_change' d del add ptrs (l_seq l)) = true ->
  install_okb d del add ptrs (l_seq l) = true /\ install_preserves d del add ptrs (l_seq l).
Proof.
  intros J Adm Hss Ec. cbv zeta. intros Hv.
  assert (EP : compact_pops mfs l level seed cuts ptrs
               = [QInstall (compact_deleted level ci) (compact_added level (compact_outs l level ci cuts)) ptrs (l_seq l)]).
  { unfold compact_pops. rewrite Ec. reflexivity. }
  assert (Nk : step_num_ok mfs l d (SCompact level seed cuts) ptrs).
  { cbn [step_num_ok]. rewrite EP. constructor; [exact Hv|constructor]. }
  destruct (step_compact mfs l d acked level seed cuts ptrs J (conj Adm Hss) Nk) as [(E & _)|(o & d' & E & Hok & _)].
  - cbn [pops_of_step] in E. rewrite EP in E. discriminate.
  - cbn [pops_of_step] in E. rewrite EP in E. injection E as <-. exact Hok.
Qed.

(** the records spelled out *)
Lemma Coupled_iff l d :
  Coupled l d <->
  (pd_mem d = l_mem l /\ pd_imm d = l_imm l /\ pd_ver d = l_ver l /\ pd_seq d = l_seq l /\
   pd_next d = l_next l /\ l_panic l = false /\
   forall n, In n (version_numbers (l_ver l)) -> table_entries_of (pd_img d) n = Some (file_entries l n)).
Proof.
  split.
  - intros [H1 H2 H3 H4 H5 H6 H7]. tauto.
  - intros (H1 & H2 & H3 & H4 & H5 & H6 & H7). constructor; assumption.
Qed.

Lemma Joint_iff l d acked :
  Joint l d acked <-> (lsm_wf_b l = true /\ Coupled l d /\ InvE d acked /\ TabsLive d).
Proof.
  split.
  - intros [H1 H2 H3 H4]. tauto.
  - intros (H1 & H2 & H3 & H4). constructor; assumption.
Qed.

(** the trivial-move case spelled out. PARTIAL: besides the wire format of the record, the
    hypothesis [install_hist_ok] remains (the manifest does not already name the file at its new
    level). It holds in the implementation because a file only ever moves down; deriving it needs
    an invariant relating the history of the manifest to the levels of the live files, which is
    established neither by the protocol invariant [Inv] nor by [lsm_wf_b]. *)
Theorem move_install_ok_partial mfs l d acked level seed ptrs o :
  Joint l d acked -> compact_adm l level seed ->
  move_pops mfs l level seed ptrs = [o] -> install_num_ok d o -> install_hist_ok d o ->
  step_okP (started d) o.
Proof.
  intros J Adm EP Hn Hh.
  assert (Nk : step_num_ok mfs l d (STrivialMove level seed) ptrs).
  { cbn [step_num_ok]. rewrite EP. split; constructor; try constructor; assumption. }
  destruct (step_move mfs l d acked level seed ptrs J Adm Nk) as [(E & _)|(o' & d' & E & Hok & _)].
  - cbn [pops_of_step] in E. rewrite EP in E. discriminate.
  - cbn [pops_of_step] in E. rewrite EP in E. injection E as <-. exact Hok.
Qed.

(** * S4 for the crash images of the steps of a joint run: they are images of a logical state *)

Lemma all_crash_closed (P : image -> Prop) (Ok : fsop -> Prop) :
  (forall i o, P i -> Ok o -> P (apply_fsop i o)) ->
  (forall o k, Ok o -> Forall Ok (torn_fsop o k)) ->
  forall ops img, P img -> Forall Ok ops -> all_crash P img ops /\ P (apply_fsops img ops).
Proof.
  intros Hc Ht.
  assert (Hl : forall ops img, P img -> Forall Ok ops -> P (apply_fsops img ops)).
  { induction ops as [|o ops IH]; intros img HP HO; [exact HP|]. cbn [apply_fsops fold_left].
    apply IH; [apply Hc; [exact HP|exact (Forall_inv HO)]|exact (Forall_inv_tail HO)]. }
  intros ops img HP HO. split; [|apply Hl; assumption]. revert img HP HO.
  induction ops as [|o ops IH]; intros img HP HO.
  - apply all_crash_nil. exact HP.
  - apply all_crash_cons; [exact HP| |].
    + intros k. apply Hl; [exact HP|apply Ht; exact (Forall_inv HO)].
    + apply IH; [apply Hc; [exact HP|exact (Forall_inv HO)]|exact (Forall_inv_tail HO)].
Qed.

Lemma recover_manifest_ext i j c n :
  i_current j = Some c -> parse_current c = Some n -> i_current i = Some c ->
  lookupN n (i_manifests i) = lookupN n (i_manifests j) -> recover_manifest i = recover_manifest j.
Proof. intros Hj Hp Hi Hl. unfold recover_manifest. rewrite Hj, Hi, Hp, Hl. reflexivity. Qed.

Lemma recover_manifest_torn_version i j c n f recs boff x t :
  i_current j = Some c -> parse_current c = Some n -> i_current i = Some c ->
  lookupN n (i_manifests j) = Some f -> logfile f recs boff ->
  lookupN n (i_manifests i) = Some (f ++ firstn t (fst (log_append boff x))) ->
  (t < length (fst (log_append boff x)))%nat ->
  forall ms, recover_manifest i = inl ms -> exists ms', recover_manifest j = inl ms' /\ ms_version ms' = ms_version ms.
Proof.
  intros Hj Hp Hi Hlj Hf Hli Ht ms. unfold recover_manifest. rewrite Hj, Hi, Hp, Hlj, Hli.
  rewrite (logfile_read _ _ _ Hf). destruct (logfile_read_torn _ _ _ x t Hf Ht) as [b ->].
  cbn [rx_panic rx_records rx_skipped rx_intact].
  destruct (decode_changes recs) as [cs|]; [|discriminate]. change (0 <? 0) with false. cbv iota.
  destruct (ma_next _) as [nx|]; [|discriminate]. destruct (ma_wal _) as [w|]; [|discriminate].
  destruct (ma_seq _) as [q|]; [|discriminate]. destruct (build_levels _ _ _) as [v|]; [|discriminate].
  intros H. injection H as <-. eexists. split; reflexivity.
Qed.

Lemma joint_manifest l d acked :
  Joint l d acked ->
  exists f recs,
    i_current (pd_img d) = Some (current_contents (pd_manifest d)) /\
    parse_current (current_contents (pd_manifest d)) = Some (pd_manifest d) /\
    lookupN (pd_manifest d) (i_manifests (pd_img d)) = Some f /\
    logfile f recs (pd_manifest_boff d) /\ pd_manifest_open d = true /\
    (forall ms, recover_manifest (pd_img d) = inl ms -> ms_version ms = l_ver l).
Proof.
  intros [Hwf C I TL]. destruct I as (dv & bsF & Q & older & bsM & I & _).
  pose proof (rec_dur _ _ _ _ (iv_rec _ _ _ _ _ _ I)) as D.
  destruct D as ((Hc & Hlt) & _). destruct (iv_manfile _ _ _ _ _ _ I) as (f & Hl & Hlf).
  rewrite <- (iv_man _ _ _ _ _ _ I) in *.
  exists f, (map vchange_encode (dv_changes dv)). split; [exact Hc|]. split; [apply parse_current_contents; exact Hlt|].
  split; [exact Hl|]. split; [exact Hlf|]. split; [apply (iv_open _ _ _ _ _ _ I)|].
  intros ms RM. rewrite (recover_manifest_durable _ _ (rec_dur _ _ _ _ (iv_rec _ _ _ _ _ _ I))) in RM. injection RM as <-.
  cbn [ms_of ms_version]. rewrite <- (iv_ver _ _ _ _ _ _ I). apply (cp_ver _ _ C).
Qed.

Lemma tabs_same l d i :
  Coupled l d ->
  (forall n, In n (version_numbers (l_ver l)) -> lookupN n (i_tables i) = lookupN n (i_tables (pd_img d))) ->
  TabsAre l i.
Proof.
  intros C H n Hn. rewrite <- (cp_tabs _ _ C n Hn). apply table_entries_lookup. apply H. exact Hn.
Qed.

(** same CURRENT, same current manifest, same tables of the version as a joint state *)
Lemma logical_same l d acked i :
  Joint l d acked -> i_current i = i_current (pd_img d) ->
  lookupN (pd_manifest d) (i_manifests i) = lookupN (pd_manifest d) (i_manifests (pd_img d)) ->
  (forall n, In n (version_numbers (l_ver l)) -> lookupN n (i_tables i) = lookupN n (i_tables (pd_img d))) ->
  LogicalImg i.
Proof.
  intros J Hc Hm Ht ms RM. destruct (joint_manifest l d acked J) as (f & recs & M1 & M2 & M3 & M4 & M5 & M6).
  rewrite (recover_manifest_ext i (pd_img d) _ _ M1 M2) in RM by (rewrite ?Hc; assumption).
  exists l. split; [apply strip_WF; apply WF_of_b; exact (j_wf _ _ _ J)|]. split; [symmetry; apply M6; exact RM|].
  apply (tabs_same l d i (j_cpl _ _ _ J) Ht).
Qed.

(** the current manifest ends in a torn record *)
Lemma logical_torn l d acked i f recs x t :
  Joint l d acked -> i_current i = i_current (pd_img d) ->
  lookupN (pd_manifest d) (i_manifests (pd_img d)) = Some f -> logfile f recs (pd_manifest_boff d) ->
  lookupN (pd_manifest d) (i_manifests i) = Some (f ++ firstn t (fst (log_append (pd_manifest_boff d) x))) ->
  (t < length (fst (log_append (pd_manifest_boff d) x)))%nat ->
  (forall n, In n (version_numbers (l_ver l)) -> lookupN n (i_tables i) = lookupN n (i_tables (pd_img d))) ->
  LogicalImg i.
Proof.
  intros J Hc Hl Hf Hi Hlt Ht ms RM.
  destruct (joint_manifest l d acked J) as (f' & recs' & M1 & M2 & M3 & M4 & M5 & M6).
  destruct (recover_manifest_torn_version i (pd_img d) _ _ f recs _ x t M1 M2 (eq_trans Hc M1) Hl Hf Hi Hlt ms RM)
    as (ms' & RM' & Ev).
  exists l. split; [apply strip_WF; apply WF_of_b; exact (j_wf _ _ _ J)|]. split; [rewrite <- Ev; symmetry; apply M6; exact RM'|].
  apply (tabs_same l d i (j_cpl _ _ _ J) Ht).
Qed.

(** operations that touch neither CURRENT, nor the manifests, nor the tables numbered in [V] *)
Definition quiet (V : list N) (o : fsop) : Prop :=
  match o with
  | FsCreate (FTable n) | FsTable n _ => ~ In n V
  | FsCreate (FWal _) | FsAppend (FWal _) _ => True
  | _ => False
  end.

Definition same_view (V : list N) (m : N) (a b : image) : Prop :=
  i_current b = i_current a /\ lookupN m (i_manifests b) = lookupN m (i_manifests a) /\
  forall n, In n V -> lookupN n (i_tables b) = lookupN n (i_tables a).

Lemma same_view_refl V m a : same_view V m a a.
Proof. repeat split. Qed.

Lemma quiet_step V m a i o : same_view V m a i -> quiet V o -> same_view V m a (apply_fsop i o).
Proof.
  intros (H1 & H2 & H3) Hq.
  destruct o as [f|f x|n es|n|f]; try destruct f; cbn [quiet] in Hq; try contradiction;
    cbn [apply_fsop i_current i_manifests i_tables]; (split; [exact H1|split; [exact H2|]]); try exact H3.
  - intros k Hk. cbn [i_tables]. rewrite lookupN_set_assoc. destruct (k =? n) eqn:E; [apply N.eqb_eq in E; subst; contradiction|].
    apply H3. exact Hk.
  - intros k Hk. cbn [i_tables]. rewrite lookupN_set_assoc. destruct (k =? n) eqn:E; [apply N.eqb_eq in E; subst; contradiction|].
    apply H3. exact Hk.
Qed.

Lemma quiet_torn V o k : quiet V o -> Forall (quiet V) (torn_fsop o k).
Proof.
  destruct o as [f|f x|n es|n|f]; try destruct f; cbn [quiet torn_fsop]; try contradiction; intros H;
    repeat constructor; exact H.
Qed.

(** removals that spare CURRENT, the manifest [m] and the tables numbered in [V] *)
Definition spares (V : list N) (m : N) (o : fsop) : Prop :=
  exists f, o = FsRemove f /\ f <> FCurrent /\ f <> FManifest m /\ forall n, In n V -> f <> FTable n.

Lemma spares_step V m a i o : same_view V m a i -> spares V m o -> same_view V m a (apply_fsop i o).
Proof.
  intros (H1 & H2 & H3) (f & -> & F1 & F2 & F3).
  destruct f; cbn [apply_fsop i_current i_manifests i_tables]; try congruence;
    (split; [exact H1|split; [try exact H2|try exact H3]]).
  - cbn [i_manifests]. rewrite lookupN_del_assoc. destruct (m =? n) eqn:E; [apply N.eqb_eq in E; subst; congruence|exact H2].
  - intros k Hk. cbn [i_tables]. rewrite lookupN_del_assoc. destruct (k =? n) eqn:E; [apply N.eqb_eq in E; subst; exfalso; exact (F3 n Hk eq_refl)|].
    apply H3. exact Hk.
Qed.

Lemma spares_torn V m o k : spares V m o -> Forall (spares V m) (torn_fsop o k).
Proof. intros (f & -> & H). cbn [torn_fsop]. constructor; [exists f; split; [reflexivity|exact H]|constructor]. Qed.

Lemma same_view_trans V m a b c : same_view V m a b -> same_view V m b c -> same_view V m a c.
Proof.
  intros (A1 & A2 & A3) (B1 & B2 & B3). split; [congruence|]. split; [congruence|].
  intros n Hn. rewrite (B3 n Hn). apply A3. exact Hn.
Qed.

Lemma same_view_sym V m a b : same_view V m a b -> same_view V m b a.
Proof. intros (A1 & A2 & A3). split; [auto|]. split; [auto|]. intros n Hn. symmetry. apply A3. exact Hn. Qed.

(** the shape of a flush or an install: new tables, one record appended to the open manifest,
    removal of obsolete files *)
Definition step_shape_x (d d' : pdb) (V V' : list N) (ops : list fsop) (x : bytes) : Prop :=
  exists A G,
    ops = A ++ [FsAppend (FManifest (pd_manifest d)) (fst (log_append (pd_manifest_boff d) x))] ++ G /\
    Forall (quiet V) A /\ Forall (spares V' (pd_manifest d)) G /\
    pd_img d' = apply_fsops (pd_img d) ops /\ pd_manifest d' = pd_manifest d.

Definition step_shape (d d' : pdb) (V V' : list N) (ops : list fsop) : Prop :=
  exists x, step_shape_x d d' V V' ops x.

Lemma shape_crash_logical l d acked l' d' acked' ops :
  Joint l d acked -> Joint l' d' acked' ->
  step_shape d d' (version_numbers (l_ver l)) (version_numbers (l_ver l')) ops ->
  all_crash LogicalImg (pd_img d) ops.
Proof.
  intros J J' (x & A & G & -> & HA & HG & Himg & Hman).
  set (V := version_numbers (l_ver l)) in *. set (V' := version_numbers (l_ver l')) in *.
  set (m := pd_manifest d) in *.
  destruct (joint_manifest l d acked J) as (f & recs & M1 & M2 & M3 & M4 & M5 & M6).
  destruct (all_crash_closed (same_view V m (pd_img d)) (quiet V) (quiet_step V m (pd_img d)) (quiet_torn V)
              A (pd_img d) (same_view_refl _ _ _) HA) as [CA SA].
  set (img1 := apply_fsops (pd_img d) A) in *.
  set (M := FsAppend (FManifest m) (fst (log_append (pd_manifest_boff d) x))) in *.
  set (img2 := apply_fsop img1 M).
  destruct (all_crash_closed (same_view V' m img2) (spares V' m) (spares_step V' m img2) (spares_torn V' m)
              G img2 (same_view_refl _ _ _) HG) as [CG SG].
  assert (Eimg : pd_img d' = apply_fsops img2 G).
  { rewrite Himg, !apply_fsops_app. reflexivity. }
  assert (L1 : forall i, same_view V m (pd_img d) i -> LogicalImg i).
  { intros i (S1 & S2 & S3). apply (logical_same l d acked i J S1 S2 S3). }
  assert (L3 : forall i, same_view V' m img2 i -> LogicalImg i).
  { intros i Si. rewrite <- Eimg in SG.
    destruct (same_view_trans V' m _ _ _ (same_view_sym _ _ _ _ SG) Si) as (S1 & S2 & S3).
    rewrite <- Hman in S2. apply (logical_same l' d' acked' i J' S1 S2 S3). }
  apply all_crash_app; [apply (all_crash_impl _ _ _ _ L1 CA)|]. fold img1.
  apply all_crash_app.
  - apply all_crash_cons.
    + apply L1. exact SA.
    + intros k. cbn [torn_fsop M apply_fsops fold_left].
      destruct (Nat.lt_ge_cases k (length (fst (log_append (pd_manifest_boff d) x)))) as [Lk|Lk].
      * destruct SA as (S1 & S2 & S3).
        apply (logical_torn l d acked _ f recs x k J); cbn [apply_fsop i_current i_manifests i_tables];
          try assumption.
        rewrite lookupN_app_assoc, N.eqb_refl. fold m. rewrite S2. unfold m. rewrite M3. reflexivity.
      * rewrite firstn_all2 by exact Lk. apply L3. apply same_view_refl.
    + apply all_crash_nil. apply L3. apply same_view_refl.
  - cbn [apply_fsops fold_left]. apply (all_crash_impl _ _ _ _ L3 CG).
Qed.

(** the operations of [log_and_apply] on an open manifest *)
(** the record [log_and_apply] writes *)
Definition laa_record (d : pdb) (c : vchange) (seq : N) : vchange :=
  mkVC (Some (match vc_wal c with Some w => w | None => pd_vs_wal d end))
       (match vc_prev_wal c with Some p => Some p | None => pd_prev_wal d end)
       (Some (pd_next d)) (Some seq) (vc_pointers c) (vc_deleted c) (vc_new c).

Lemma laa_open d c seq d2 ops :
  pd_manifest_open d = true -> log_and_apply d c seq = Some (d2, ops) ->
  ops = [FsAppend (FManifest (pd_manifest d))
                  (fst (log_append (pd_manifest_boff d) (vchange_encode (laa_record d c seq))))] /\
  pd_img d2 = apply_fsops (pd_img d) ops /\ pd_manifest d2 = pd_manifest d.
Proof.
  intros Ho. unfold log_and_apply. rewrite Ho. destruct (apply_edit _ _) as [v'|]; [|discriminate].
  intros H. injection H as <- <-. cbn [app pd_img pd_manifest]. split; [reflexivity|]. split; reflexivity.
Qed.

Lemma gc_spares d : Forall (spares (version_numbers (pd_ver d)) (pd_manifest d)) (gc_ops d).
Proof.
  unfold gc_ops. apply Forall_forall. intros o Ho. apply in_map_iff in Ho. destruct Ho as (f & <- & Hf).
  apply filter_In in Hf. destruct Hf as [_ Hk]. apply negb_true_iff in Hk.
  exists f. split; [reflexivity|]. split; [|split].
  - intros ->. discriminate.
  - intros ->. cbn [keep gc_view_of g_manifest] in Hk. rewrite N.leb_refl in Hk. discriminate.
  - intros n Hn ->. cbn [keep gc_view_of g_inuse g_live app] in Hk. unfold memN in Hk.
    assert (existsb (N.eqb n) (version_numbers (pd_ver d)) = true) by (apply existsb_eqb_In; exact Hn). congruence.
Qed.

Lemma quiet_table_ops V num es : ~ In num V -> Forall (quiet V) (table_ops num es).
Proof. intros H. destruct es; cbn [table_ops]; repeat constructor; exact H. Qed.

Definition flush_record (d : pdb) (lv sz q : N) (es : list entry) : vchange :=
  mkVC (Some (pd_wal d)) (pd_prev_wal d) (Some (pd_next d + 1)) (Some q) [] []
       (match table_meta (pd_next d + 1) sz es with Some f => [(lv, f)] | None => [] end).

Lemma flush_shape d lv sz q es d' ops V :
  pd_imm d = Some es -> pd_manifest_open d = true -> ~ In (pd_next d + 1) V ->
  p_flush d lv sz q = Some (d', ops) ->
  step_shape_x d d' V (version_numbers (pd_ver d')) ops (vchange_encode (flush_record d lv sz q es)).
Proof.
  intros Himm Ho HV. unfold p_flush. rewrite Himm.
  match goal with |- context [log_and_apply ?a ?b q] => set (d1 := a); set (c := b) end.
  destruct (log_and_apply d1 c q) as [[d2 ops2]|] eqn:LA; [|discriminate].
  destruct (laa_open d1 c q d2 ops2 Ho LA) as (-> & Hi2 & Hm2).
  match goal with |- context [do_gc ?a] => set (d3 := a) end.
  unfold do_gc. intros H. injection H as <- <-.
  exists (table_ops (pd_next d + 1) es), (gc_ops d3). cbn [d1 pd_manifest pd_manifest_boff] in *.
  split; [reflexivity|]. split; [apply quiet_table_ops; exact HV|]. split.
  - cbn [with_img pd_ver]. pose proof (gc_spares d3) as G. cbn [d3 pd_ver pd_manifest] in G. rewrite Hm2 in G. exact G.
  - split; [|cbn [with_img pd_manifest d3]; exact Hm2].
    cbn [with_img pd_img d3]. rewrite Hi2. cbn [pd_img]. rewrite !apply_fsops_app. reflexivity.
Qed.

Definition install_record (d : pdb) (del : list (N * N)) (add : list (N * fmeta * list entry))
           (ptrs : list (N * ikey)) (q : N) : vchange :=
  mkVC (Some (pd_vs_wal d)) (pd_prev_wal d) (Some (snd (install_parts d add))) (Some q) ptrs del (map fst add).

Lemma install_shape d del add ptrs q d' ops V :
  pd_manifest_open d = true -> (forall n, In n V -> In n (map fst (i_tables (pd_img d)))) ->
  p_install d del add ptrs q = Some (d', ops) ->
  step_shape_x d d' V (version_numbers (pd_ver d')) ops (vchange_encode (install_record d del add ptrs q)).
Proof.
  intros Ho HV. unfold p_install.
  match goal with |- context [log_and_apply ?a ?b q] => set (d1 := a); set (c := b) end.
  destruct (log_and_apply d1 c q) as [[d2 ops2]|] eqn:LA; [|discriminate].
  destruct (laa_open d1 c q d2 ops2 Ho LA) as (-> & Hi2 & Hm2).
  unfold do_gc. intros H. injection H as <- <-.
  eexists _, (gc_ops d2). cbn [d1 pd_manifest pd_manifest_boff] in *.
  split; [reflexivity|]. split; [|split].
  - apply Forall_forall. intros o Hin. apply in_flat_map in Hin. destruct Hin as (a & Ha & Hin).
    apply filter_In in Ha. destruct Ha as [_ Hf]. apply negb_true_iff in Hf.
    assert (HnV : ~ In (fm_num (snd (fst a))) V).
    { intros Hn. apply HV in Hn. apply in_map_iff in Hn. destruct Hn as (p & E & Hp).
      assert (existsb (fun p0 : N * option (list entry) => fst p0 =? fm_num (snd (fst a))) (i_tables (pd_img d)) = true).
      { apply existsb_exists. exists p. split; [exact Hp|apply N.eqb_eq; exact E]. }
      congruence. }
    pose proof (quiet_table_ops V _ (snd a) HnV) as Q. rewrite Forall_forall in Q. apply Q. exact Hin.
  - cbn [with_img pd_ver]. pose proof (gc_spares d2) as G. rewrite Hm2 in G. exact G.
  - split; [|cbn [with_img pd_manifest]; exact Hm2].
    cbn [with_img pd_img]. rewrite Hi2. cbn [pd_img]. rewrite !apply_fsops_app. reflexivity.
Qed.

Lemma version_tables_present l d n : Coupled l d -> In n (version_numbers (l_ver l)) -> In n (map fst (i_tables (pd_img d))).
Proof.
  intros C Hn. pose proof (cp_tabs _ _ C n Hn) as T. apply table_entries_of_some in T.
  apply lookupN_in. rewrite T. discriminate.
Qed.

(** the crash images of one protocol operation between two joint states *)
Lemma op_crash_logical l d acked l' d' acked' o :
  Joint l d acked -> Joint l' d' acked' -> fst (p_step (started d) o) = started d' ->
  (forall oo, o <> QOpen oo) ->
  all_crash LogicalImg (pd_img d) (snd (p_step (started d) o)).
Proof.
  intros J J' Es Hno.
  destruct (joint_manifest l d acked J) as (f & recs & M1 & M2 & M3 & M4 & M5 & M6).
  set (V := version_numbers (l_ver l)).
  assert (Lq : forall ops, Forall (quiet V) ops -> all_crash LogicalImg (pd_img d) ops).
  { intros ops Hq.
    destruct (all_crash_closed (same_view V (pd_manifest d) (pd_img d)) (quiet V)
                (quiet_step V _ (pd_img d)) (quiet_torn V) ops (pd_img d) (same_view_refl _ _ _) Hq) as [CA _].
    apply (all_crash_impl _ _ _ _ (fun i S => logical_same l d acked i J (proj1 S) (proj1 (proj2 S)) (proj2 (proj2 S))) CA). }
  unfold p_step in *. cbn [started pr_failed pr_db] in *.
  destruct o as [oo|b| |lv sz q|del add ptrs q].
  - exfalso. exact (Hno oo eq_refl).
  - unfold p_write. cbn [snd]. apply Lq. repeat constructor.
  - unfold p_rotate. destruct (pd_imm d); cbn [snd]; apply Lq; repeat constructor.
  - destruct (p_flush d lv sz q) as [[d1 ops]|] eqn:E; [|cbn [fst] in Es; discriminate].
    cbn [fst snd] in *. injection Es as Ed. 
    assert (d1 = d') as -> by (unfold started in *; congruence).
    destruct (pd_imm d) as [es|] eqn:Ei.
    + apply (shape_crash_logical l d acked l' d' acked' ops J J').
      rewrite <- (cp_ver _ _ (j_cpl _ _ _ J')). eexists.
      apply (flush_shape d lv sz q es d' ops V Ei M5); [|exact E].
      intros Hin. apply vn_in in Hin. destruct Hin as (i & g & Hg & En).
      pose proof (wf_nums l (WF_of_b _ (j_wf _ _ _ J)) i g Hg). rewrite (cp_next _ _ (j_cpl _ _ _ J)) in En. lia.
    + unfold p_flush in E. rewrite Ei in E. injection E as _ <-. apply Lq. constructor.
  - destruct (p_install d del add ptrs q) as [[d1 ops]|] eqn:E; [|cbn [fst] in Es; discriminate].
    cbn [fst snd] in *.
    assert (d1 = d') as -> by (unfold started in *; congruence).
    apply (shape_crash_logical l d acked l' d' acked' ops J J').
    rewrite <- (cp_ver _ _ (j_cpl _ _ _ J')). eexists.
    apply (install_shape d del add ptrs q d' ops V M5); [|exact E].
    intros n Hn. apply (version_tables_present l d n (j_cpl _ _ _ J) Hn).
Qed.

Section CRASHRUN.
Variable mfs : N.
Notation lstep := (lsm_step true true mfs).

Lemma pops_no_open l st ptrs o oo : In o (pops_of_step mfs l st ptrs) -> o <> QOpen oo.
Proof.
  destruct st; cbn [pops_of_step].
  - intros [<-|[]]. discriminate.
  - intros [<-|[]]. discriminate.
  - unfold flush_pops. destruct (l_imm l) as [[|e0 r]|].
    + intros [<-|[]]. discriminate.
    + destruct (last_key _); [intros [<-|[]]; discriminate|intros []].
    + intros [].
  - unfold compact_pops. destruct (finalize_inputs _ _ _ _ _ _); [intros [<-|[]]; discriminate|intros []].
  - unfold move_pops. destruct (finalize_inputs _ _ _ _ _ _) as [ci|]; [|intros []].
    destruct (ci_in0 ci) as [|f [|g r]]; [intros []| |intros []]. destruct (negb _); [intros []|intros [<-|[]]; discriminate].
  - intros [].
  - intros [].
Qed.

Lemma jstep_crash_logical l d acked st ptrs :
  Joint l d acked -> step_admissible l st -> step_num_ok mfs l d st ptrs ->
  all_crash LogicalImg (pd_img d) (snd (p_run (started d) (pops_of_step mfs l st ptrs))).
Proof.
  intros J A Nk.
  destruct (joint_step mfs l d acked st ptrs J A Nk) as (_ & d' & E' & J'). cbv zeta in *.
  destruct (step_all mfs l d acked st ptrs J A Nk) as [(E & _)|(o & d1 & E & Hok & Es & _)].
  - rewrite E. cbn [p_run snd]. apply all_crash_nil. apply (joint_logical l d acked J).
  - rewrite E in *. rewrite p_run_one in *. cbn [fst snd] in *.
    apply (op_crash_logical l d acked _ d' _ o J J' E').
    intros oo. apply (pops_no_open l st ptrs o oo). rewrite E. left. reflexivity.
Qed.

Theorem jrun_crash_logical : forall js l d acked,
  Joint l d acked -> jrun_ok mfs l (started d) js ->
  all_crash LogicalImg (pd_img d) (snd (p_run (started d) (joint_pops mfs l js))).
Proof.
  induction js as [|[st ptrs] r IH]; intros l d acked J Hok.
  - cbn [joint_pops p_run snd]. apply all_crash_nil. apply (joint_logical l d acked J).
  - cbn [jrun_ok] in Hok. destruct Hok as (A & Nk & Hr). specialize (Nk d eq_refl).
    destruct (joint_step mfs l d acked st ptrs J A Nk) as (O1 & d1 & E1 & J1). cbv zeta in *.
    cbn [joint_pops]. rewrite E1 in Hr.
    destruct (p_run_app (pops_of_step mfs l st ptrs) (started d) (joint_pops mfs (lstep l st) r)) as [_ F2].
    rewrite F2, E1. apply all_crash_app; [apply (jstep_crash_logical l d acked st ptrs J A Nk)|].
    assert (R : RInv (started d) acked) by (split; [reflexivity|split; [reflexivity|exact (j_inv _ _ _ J)]]).
    assert (Hnf : pr_failed (fst (p_run (started d) (pops_of_step mfs l st ptrs))) = false) by (rewrite E1; reflexivity).
    destruct (run_safe _ _ _ R O1 Hnf) as [Himg _]. rewrite E1 in Himg. cbn [started pr_img] in Himg.
    rewrite <- Himg. apply (IH _ _ _ J1 Hr).
Qed.

(** S3 + S4: a crash anywhere in the steps of a joint run (any number of file operations, the last
    one torn anywhere), then a reopen with any oracle: the rebuilt logical state is well formed and
    coupled with the recovered database, for exactly the batches the crash point preserves; the
    joint run continues from there *)
Theorem joint_crash_reopen l d acked js :
  Joint l d acked -> jrun_ok mfs l (started d) js ->
  let ops := joint_pops mfs l js in
  let eff := snd (p_run (started d) ops) in
  forall n torn, (n <= length eff)%nat ->
  let img := crash_image (pd_img d) eff n torn in
  let bs := acked ++ firstn (crash_k (started d) ops n torn) (acked_batches (nops acked) ops) in
  Crashed img bs /\ LogicalImg img /\
  forall o2 d' ops', open_okb o2 img = true -> p_open o2 img = Some (d', ops') ->
    Joint (lsm_of_pdb d') d' bs /\ forall k, db_get (lsm_of_pdb d') k = map_get k (replay [] bs).
Proof.
  intros J Hok. cbv zeta. intros n torn Hn.
  destruct (joint_run mfs js l d acked J Hok) as (O & d1 & E1 & J1). cbv zeta in *.
  assert (R : RInvC (started d) acked).
  { apply RInv_RInvC. split; [reflexivity|split; [reflexivity|exact (j_inv _ _ _ J)]]. }
  assert (Hnf : pr_failed (fst (p_run (started d) (joint_pops mfs l js))) = false) by (rewrite E1; reflexivity).
  destruct (run_crash_safe_c _ _ _ R O Hnf) as (_ & _ & Hc). specialize (Hc n torn Hn). cbn [started pr_img] in Hc.
  pose proof (jrun_crash_logical js l d acked J Hok n torn Hn) as HL.
  split; [exact Hc|]. split; [exact HL|]. intros o2 d' ops' Hoo Hop.
  pose proof (reopen_joint o2 _ _ d' ops' Hc HL Hoo Hop) as J'. split; [exact J'|]. apply (joint_get _ _ _ J').
Qed.

(** from the freshly created database: every crash point after the creation completed *)
Theorem stack_crash_reopen o js :
  open_okb o empty_image = true -> jrun_ok mfs fresh_lsm (opened o) js ->
  let ops := joint_pops mfs fresh_lsm js in
  let eff := snd (p_run (opened o) ops) in
  forall n torn, (n <= length eff)%nat ->
  let img := crash_image (pr_img (opened o)) eff n torn in
  let bs := firstn (crash_k (opened o) ops n torn) (acked_batches 0 ops) in
  Crashed img bs /\ LogicalImg img /\
  forall o2 d' ops', open_okb o2 img = true -> p_open o2 img = Some (d', ops') ->
    Joint (lsm_of_pdb d') d' bs /\ forall k, db_get (lsm_of_pdb d') k = map_get k (replay [] bs).
Proof.
  intros Hoo Hok. cbv zeta.
  destruct (open_fresh o) as (d0 & ops0 & E & C0 & TL0). rewrite (opened_eq o d0 ops0 E) in *.
  assert (I0 : InvE d0 []).
  { apply (open_step o empty_image [] d0 ops0); [left; split; reflexivity|exact Hoo|exact E]. }
  assert (J0 : Joint fresh_lsm d0 []) by (constructor; [exact fresh_lsm_wf|exact C0|exact I0|exact TL0]).
  intros n torn Hn. apply (joint_crash_reopen fresh_lsm d0 [] js J0 Hok n torn Hn).
Qed.
End CRASHRUN.

(** * S4 for the crash images of a recovery *)

(** operations that leave CURRENT, the manifest [m] and the tables numbered in [V] alone *)
Definition qv (V : list N) (m : N) (o : fsop) : Prop :=
  match o with
  | FsCreate (FTable n) | FsTable n _ | FsRemove (FTable n) => ~ In n V
  | FsCreate (FManifest k) | FsAppend (FManifest k) _ | FsRemove (FManifest k) => k <> m
  | FsCreate (FWal _) | FsAppend (FWal _) _ | FsRemove (FWal _) => True
  | FsCreate (FTemp _) | FsAppend (FTemp _) _ | FsRemove (FTemp _) | FsRemove FLock => True
  | _ => False
  end.

Lemma qv_step V m a i o : same_view V m a i -> qv V m o -> same_view V m a (apply_fsop i o).
Proof.
  intros (H1 & H2 & H3) Hq.
  destruct o as [f|f x|n es|n|f]; try destruct f; cbn [qv] in Hq; try contradiction;
    cbn [apply_fsop i_current i_manifests i_tables];
    (split; [exact H1|split;
      [first [exact H2
             |cbn [i_manifests];
              first [rewrite lookupN_set_assoc|rewrite lookupN_app_assoc|rewrite lookupN_del_assoc];
              destruct (m =? n) eqn:E; [apply N.eqb_eq in E; congruence|exact H2]]
      |first [exact H3
             |intros k Hk; cbn [i_tables];
              first [rewrite lookupN_set_assoc|rewrite lookupN_del_assoc];
              destruct (k =? n) eqn:E; [apply N.eqb_eq in E; subst; contradiction|apply H3; exact Hk]]]]).
Qed.

Lemma qv_torn V m o k : qv V m o -> Forall (qv V m) (torn_fsop o k).
Proof.
  destruct o as [f|f x|n es|n|f]; try destruct f; cbn [qv torn_fsop]; try contradiction; intros H;
    repeat constructor; exact H.
Qed.

Lemma quiet_qv V m o : quiet V o -> qv V m o.
Proof. destruct o as [f|f x|n es|n|f]; try destruct f; cbn [quiet qv]; auto. Qed.

Lemma spares_qv V m o : spares V m o -> qv V m o.
Proof.
  intros (f & -> & F1 & F2 & F3). destruct f; cbn [qv]; try congruence; try exact I.
  intros Hn. exact (F3 n Hn eq_refl).
Qed.

Lemma logical_nocur i : i_current i = None -> LogicalImg i.
Proof. intros H ms RM. unfold recover_manifest in RM. rewrite H in RM. discriminate. Qed.

(** same CURRENT, same current manifest, same tables of the version as a logical image *)
Lemma logical_view a i c m ver :
  LogicalImg a -> i_current a = Some c -> parse_current c = Some m ->
  (forall ms, recover_manifest a = inl ms -> ms_version ms = ver) ->
  same_view (version_numbers ver) m a i -> LogicalImg i.
Proof.
  intros HL Hc Hp Hv (S1 & S2 & S3) ms RM.
  rewrite (recover_manifest_ext i a c m Hc Hp (eq_trans S1 Hc) S2) in RM.
  destruct (HL ms RM) as (lb & Wb & Vb & Tb). exists lb. split; [exact Wb|]. split; [exact Vb|].
  intros n Hn. rewrite <- (Tb n Hn). apply table_entries_lookup. apply S3. rewrite <- (Hv ms RM), <- Vb. exact Hn.
Qed.

Lemma logical_view_torn a i c m ver f recs boff x t :
  LogicalImg a -> i_current a = Some c -> parse_current c = Some m ->
  (forall ms, recover_manifest a = inl ms -> ms_version ms = ver) ->
  i_current i = Some c -> lookupN m (i_manifests a) = Some f -> logfile f recs boff ->
  lookupN m (i_manifests i) = Some (f ++ firstn t (fst (log_append boff x))) ->
  (t < length (fst (log_append boff x)))%nat ->
  (forall n, In n (version_numbers ver) -> lookupN n (i_tables i) = lookupN n (i_tables a)) ->
  LogicalImg i.
Proof.
  intros HL Hc Hp Hv Hci Hl Hf Hli Hlt Ht ms RM.
  destruct (recover_manifest_torn_version i a c m f recs boff x t Hc Hp Hci Hl Hf Hli Hlt ms RM) as (ms' & RM' & Ev).
  destruct (HL ms' RM') as (lb & Wb & Vb & Tb). exists lb. split; [exact Wb|]. split; [congruence|].
  intros n Hn. rewrite <- (Tb n Hn). apply table_entries_lookup. apply Ht. rewrite <- (Hv ms' RM'), <- Vb. exact Hn.
Qed.

(** the file operations of [p_open] after recovery *)
Lemma open_rest_ops o img0 ops0 img1 rc d' ops :
  img1 = apply_fsops img0 ops0 ->
  open_rest o img0 ops0 img1 rc = Some (d', ops) ->
  let ms := rc_manifest rc in
  let rm := ms_intact ms && oo_reuse o && (ms_size ms <? oo_max_file_size o) in
  let m' := if rm then ms_number ms else ms_next ms + 1 in
  exists r (reused : option (N * N)) ops2 G,
    replay_logs o img1 (rc_wals rc) (mkRS (ms_next ms + 1) [] (oo_cuts o) [] [] O false) = (r, reused) /\
    ops = ops0 ++ (rs_ops r ++ match reused with Some _ => [] | None => [FsCreate (FWal (rs_next r + 1))] end)
               ++ ops2 ++ G /\
    Forall (spares (version_numbers (pd_ver d')) (pd_manifest d')) G /\ pd_manifest d' = m' /\
    pd_img d' = apply_fsops img1 ((rs_ops r ++ match reused with Some _ => [] | None => [FsCreate (FWal (rs_next r + 1))] end)
                                  ++ ops2 ++ G) /\
    ((ops2 = [] /\ rm = true /\ pd_ver d' = ms_version ms) \/
     (rm = true /\ exists x, ops2 = [FsAppend (FManifest m') (fst (log_append (ms_size ms mod BLOCK_SIZE_BYTES) x))]) \/
     (rm = false /\ exists a b, ops2 = [FsCreate (FManifest m'); FsAppend (FManifest m') a; FsAppend (FManifest m') b;
                                        FsCreate (FTemp m'); FsAppend (FTemp m') (current_contents m'); FsRename m'])).
Proof.
  intros E1 H. cbv zeta. unfold open_rest in H. cbv zeta in H.
  destruct (replay_logs o img1 (rc_wals rc) _) as [r reused] eqn:RL.
  set (rm := ms_intact (rc_manifest rc) && oo_reuse o && (ms_size (rc_manifest rc) <? oo_max_file_size o)) in *.
  assert (Ew : match reused with Some _ => @nil fsop | None => [FsCreate (FWal (match reused with Some _ => rs_next r | None => rs_next r + 1 end))] end
               = match reused with Some _ => [] | None => [FsCreate (FWal (rs_next r + 1))] end) by (destruct reused; reflexivity).
  rewrite Ew in H. set (W := match reused with Some _ => [] | None => [FsCreate (FWal (rs_next r + 1))] end) in *.
  match type of H with context [mkPD ?a ?b ?c ?d ?e ?f ?g ?h ?i ?j ?k ?l ?m ?n] =>
    set (d1 := mkPD a b c d e f g h i j k l m n) in * end.
  assert (Ei1 : pd_img d1 = apply_fsops img1 (rs_ops r ++ W)).
  { unfold d1. cbn [pd_img]. rewrite apply_fsops_app, <- E1. reflexivity. }
  exists r, reused.
  destruct (negb rm || rs_new_manifest r) eqn:NS.
  - match type of H with context [log_and_apply d1 ?c ?q] => destruct (log_and_apply d1 c q) as [[d2 ops2]|] eqn:LA end;
      [|discriminate].
    unfold do_gc in H. injection H as <- <-.
    exists ops2, (gc_ops d2). split; [reflexivity|]. split; [rewrite <- !List.app_assoc; reflexivity|].
    split; [cbn [with_img pd_ver pd_manifest]; apply gc_spares|].
    unfold log_and_apply in LA. destruct (apply_edit (pd_ver d1) _) as [v'|]; [|discriminate].
    injection LA as <- <-. cbn [with_img pd_manifest pd_img d1 pd_manifest_open pd_manifest_boff].
    split; [reflexivity|]. split.
    + change (apply_fsops img0 (ops0 ++ rs_ops r ++ W)) with (pd_img d1). rewrite Ei1, <- !apply_fsops_app.
      rewrite <- !List.app_assoc. reflexivity.
    + right. destruct rm; cbn [app]; [left|right]; (split; [reflexivity|]); unfold set_current_ops; eexists; [reflexivity|].
      eexists. reflexivity.
  - unfold do_gc in H. injection H as <- <-.
    apply orb_false_iff in NS. destruct NS as [NS _]. apply negb_false_iff in NS.
    exists [], (gc_ops d1). split; [reflexivity|]. split; [rewrite <- !List.app_assoc; reflexivity|].
    split; [cbn [with_img pd_ver pd_manifest]; apply gc_spares|].
    split; [cbn [with_img pd_manifest]; unfold d1; cbn [pd_manifest]; rewrite NS; reflexivity|].
    split.
    + cbn [with_img pd_img]. rewrite (apply_fsops_app img1 (rs_ops r ++ W)). cbn [app]. rewrite <- Ei1. reflexivity.
    + left. split; [reflexivity|]. split; [exact NS|]. reflexivity.
Qed.

(** after the operation that switches the view: the images are compared with the final state *)
Lemma post_pivot_logical l' d' acked' img2 G i :
  Joint l' d' acked' -> Forall (spares (version_numbers (l_ver l')) (pd_manifest d')) G ->
  pd_img d' = apply_fsops img2 G ->
  same_view (version_numbers (l_ver l')) (pd_manifest d') img2 i -> LogicalImg i.
Proof.
  intros J' HG Eimg Si.
  destruct (all_crash_closed (same_view (version_numbers (l_ver l')) (pd_manifest d') img2)
              (spares (version_numbers (l_ver l')) (pd_manifest d')) (spares_step _ _ img2) (spares_torn _ _)
              G img2 (same_view_refl _ _ _) HG) as [_ SG].
  rewrite <- Eimg in SG.
  destruct (same_view_trans _ _ _ _ _ (same_view_sym _ _ _ _ SG) Si) as (S1 & S2 & S3).
  apply (logical_same l' d' acked' i J' S1 S2 S3).
Qed.

(** quiet operations, one operation that switches the view, removals *)
Lemma pivot_crash a c m ver Pre pivot G l' d' acked' :
  LogicalImg a -> i_current a = Some c -> parse_current c = Some m ->
  (forall ms, recover_manifest a = inl ms -> ms_version ms = ver) ->
  Forall (qv (version_numbers ver) m) Pre ->
  (forall k, LogicalImg (apply_fsops (apply_fsops a Pre) (torn_fsop pivot k))) ->
  Joint l' d' acked' -> Forall (spares (version_numbers (l_ver l')) (pd_manifest d')) G ->
  pd_img d' = apply_fsops a (Pre ++ [pivot] ++ G) ->
  all_crash LogicalImg a (Pre ++ [pivot] ++ G).
Proof.
  intros HL Hc Hp Hv HPre Htorn J' HG Eimg.
  destruct (all_crash_closed (same_view (version_numbers ver) m a) (qv (version_numbers ver) m)
              (qv_step _ _ a) (qv_torn _ _) Pre a (same_view_refl _ _ _) HPre) as [CA SA].
  assert (L1 : forall i, same_view (version_numbers ver) m a i -> LogicalImg i).
  { intros i Si. apply (logical_view a i c m ver HL Hc Hp Hv Si). }
  rewrite !apply_fsops_app in Eimg. cbn [apply_fsops fold_left] in Eimg.
  apply all_crash_app; [apply (all_crash_impl _ _ _ _ L1 CA)|].
  apply all_crash_app.
  - apply all_crash_cons; [apply L1; exact SA|exact Htorn|].
    apply all_crash_nil. apply (post_pivot_logical l' d' acked' _ G _ J' HG Eimg). apply same_view_refl.
  - cbn [apply_fsops fold_left].
    destruct (all_crash_closed (same_view (version_numbers (l_ver l')) (pd_manifest d') (apply_fsop (apply_fsops a Pre) pivot))
                (spares (version_numbers (l_ver l')) (pd_manifest d')) (spares_step _ _ _) (spares_torn _ _)
                G _ (same_view_refl _ _ _) HG) as [CG _].
    apply (all_crash_impl _ _ _ _ (fun i Si => post_pivot_logical l' d' acked' _ G i J' HG Eimg Si) CG).
Qed.

(** only quiet operations *)
Lemma quiet_crash a c m ver ops :
  LogicalImg a -> i_current a = Some c -> parse_current c = Some m ->
  (forall ms, recover_manifest a = inl ms -> ms_version ms = ver) ->
  Forall (qv (version_numbers ver) m) ops -> all_crash LogicalImg a ops.
Proof.
  intros HL Hc Hp Hv Hq.
  destruct (all_crash_closed (same_view (version_numbers ver) m a) (qv (version_numbers ver) m)
              (qv_step _ _ a) (qv_torn _ _) ops a (same_view_refl _ _ _) Hq) as [CA _].
  apply (all_crash_impl _ _ _ _ (fun i Si => logical_view a i c m ver HL Hc Hp Hv Si) CA).
Qed.

Lemma replay_LR o img1 dv bsF Q r reused :
  CS img1 dv bsF Q ->
  replay_logs o img1 (map (wr_of img1) (dv_logs dv)) (mkRS (dv_next dv + 1) [] (oo_cuts o) [] [] O false) = (r, reused) ->
  exists lo, LR (oo_sizes o) (nops bsF) (dv_next dv + 1) r lo (nops bsF + nops (log_batches (dv_logs dv))).
Proof.
  intros C RL.
  assert (L0 : LR (oo_sizes o) (nops bsF) (dv_next dv + 1) (mkRS (dv_next dv + 1) [] (oo_cuts o) [] [] O false) (nops bsF) (nops bsF)).
  { constructor; cbn [rs_ops rs_added rs_next rs_mem rs_new_manifest written tops_of added_of flat_map].
    - reflexivity.
    - reflexivity.
    - constructor.
    - constructor.
    - reflexivity.
    - intros e0 [].
    - lia.
    - lia.
    - intros _. reflexivity. }
  assert (Hc : batches_chained (nops bsF) (flat_map wr_batches (map (wr_of img1) (dv_logs dv))) = true).
  { rewrite flat_map_wr_batches. pose proof (rec_chain _ _ _ _ (cs_rec _ _ _ _ C)) as Hc.
    rewrite chained_app in Hc. apply andb_true_iff in Hc. rewrite N.add_0_l in Hc. apply Hc. }
  destruct (LR_logs o img1 _ _ _ _ _ _ _ _ L0 eq_refl Hc RL) as (lo & LRf & _).
  rewrite flat_map_wr_batches in LRf. exists lo. exact LRf.
Qed.

Lemma LR_ops_qv sizes base nbase r lo hi V m :
  LR sizes base nbase r lo hi -> (forall n, In n V -> n < nbase) -> Forall (qv V m) (rs_ops r).
Proof.
  intros L HV. rewrite (lr_ops _ _ _ _ _ _ L). pose proof (lr_files _ _ _ _ _ _ L) as F.
  rewrite Forall_forall in F. apply Forall_forall. intros o Ho. unfold tops_of in Ho.
  apply in_flat_map in Ho. destruct Ho as (p & Hp & Ho). destruct (F p Hp) as (_ & _ & Hlt & _).
  assert (Hn : ~ In (fst p) V) by (intros Hin; specialize (HV _ Hin); lia).
  destruct (snd p); cbn [table_ops] in Ho; [destruct Ho|].
  destruct Ho as [<-|[<-|[]]]; exact Hn.
Qed.

(** the crash images of a recovery ([p_open] after the creation operations, if any) are images of
    a logical state *)
Theorem rec_crash_logical o img0 ops0 img1 dv bsF Q d' ops l' acked' :
  CS img1 dv bsF Q -> img1 = apply_fsops img0 ops0 ->
  open_rest o img0 ops0 img1 (rc_of img1 dv) = Some (d', ops) ->
  LogicalImg img1 -> Joint l' d' acked' ->
  exists opsR, ops = ops0 ++ opsR /\ all_crash LogicalImg img1 opsR.
Proof.
  intros C E1 Hop HL1 J'.
  destruct (open_rest_ops o img0 ops0 img1 _ d' ops E1 Hop) as (r & reused & ops2 & G & RL & Eops & HG & Hm' & Himg & Hcase).
  cbv zeta in *. cbn [rc_of rc_manifest rc_wals ms_of ms_version ms_next ms_number ms_intact ms_size] in *.
  set (W := match reused with Some _ => [] | None => [FsCreate (FWal (rs_next r + 1))] end) in *.
  set (file := file_of (dv_man dv) (i_manifests img1)) in *.
  set (m := dv_man dv) in *. set (V := version_numbers (dv_ver dv)).
  eexists. split; [exact Eops|].
  pose proof (rec_dur _ _ _ _ (cs_rec _ _ _ _ C)) as D. destruct D as ((Hc & Hlt) & _).
  pose proof (parse_current_contents _ Hlt) as Hp.
  assert (Hv : forall ms, recover_manifest img1 = inl ms -> ms_version ms = dv_ver dv).
  { intros ms RM. rewrite (recover_manifest_durable _ _ (rec_dur _ _ _ _ (cs_rec _ _ _ _ C))) in RM. injection RM as <-. reflexivity. }
  destruct (replay_LR o img1 dv bsF Q r reused C RL) as (lo & LRf).
  assert (HA : Forall (qv V m) (rs_ops r ++ W)).
  { apply Forall_app. split.
    - apply (LR_ops_qv _ _ _ _ _ _ V m LRf). intros n Hn. pose proof (oc_ver_bound img1 dv bsF Q C n Hn). lia.
    - unfold W. destruct reused; repeat constructor. }
  rewrite (cp_ver _ _ (j_cpl _ _ _ J')) in HG.
  destruct Hcase as [(-> & Hrm & Hver)|[(Hrm & x & ->)|(Hrm & a & b & ->)]].
  - (* nothing written to the manifest *)
    rewrite Hrm in Hm'. cbn [app].
    apply (quiet_crash img1 _ m (dv_ver dv) _ HL1 Hc Hp Hv). apply Forall_app. split; [exact HA|].
    eapply Forall_impl; [|exact HG]. intros o0 Ho. rewrite Hm', <- (cp_ver _ _ (j_cpl _ _ _ J')), Hver in Ho.
    apply spares_qv. exact Ho.
  - (* a record appended to the reused manifest *)
    rewrite Hrm in *.
    destruct (cs_manfile _ _ _ _ C) as (f0 & Hl0 & i0 & Hr0 & Hi0).
    assert (Ef : file = f0).
    { unfold file, file_of. assert (Hl' : @lookupN (list N) m (i_manifests img1) = Some f0) by exact Hl0.
      rewrite Hl'. reflexivity. }
    assert (Hint : i0 = true).
    { apply andb_true_iff in Hrm. destruct Hrm as [Hrm _]. apply andb_true_iff in Hrm. destruct Hrm as [Hrm _].
      rewrite Ef, Hr0 in Hrm. exact Hrm. }
    destruct (Hi0 Hint) as (boff0 & Hlf0). pose proof (logfile_reopen _ _ _ Hlf0) as Hlf. rewrite <- Ef in Hlf.
    destruct (all_crash_closed (same_view V m img1) (qv V m) (qv_step _ _ img1) (qv_torn _ _)
                (rs_ops r ++ W) img1 (same_view_refl _ _ _) HA) as [_ SA].
    refine (pivot_crash img1 _ m (dv_ver dv) (rs_ops r ++ W) _ G l' d' acked' HL1 Hc Hp Hv HA _ J' HG Himg).
    intros k. cbn [torn_fsop apply_fsops fold_left].
    destruct (Nat.lt_ge_cases k (length (fst (log_append (blen file mod BLOCK_SIZE_BYTES) x)))) as [Lk|Lk].
    + destruct SA as (S1 & S2 & S3).
      refine (logical_view_torn img1 _ (current_contents m) m (dv_ver dv) file (map vchange_encode (dv_changes dv))
                (blen file mod BLOCK_SIZE_BYTES) x k HL1 Hc Hp Hv _ _ Hlf _ Lk _).
      * cbn [apply_fsop i_current]. rewrite S1. exact Hc.
      * rewrite Ef. exact Hl0.
      * cbn [apply_fsop i_manifests]. rewrite lookupN_app_assoc, N.eqb_refl. fold m. rewrite S2. unfold m. rewrite Hl0, Ef. reflexivity.
      * cbn [apply_fsop i_tables]. exact S3.
    + rewrite firstn_all2 by exact Lk.
      eapply (post_pivot_logical l' d' acked' _ G _ J' HG); [|rewrite Hm'; apply same_view_refl].
      rewrite Himg, !apply_fsops_app. reflexivity.
  - (* a new manifest, then CURRENT switched *)
    rewrite Hrm in *. destruct (cs_next _ _ _ _ C) as [Hmn _].
    assert (Hne : dv_next dv + 1 <> m) by (unfold m; lia).
    set (m' := dv_next dv + 1) in *.
    set (Pre := (rs_ops r ++ W) ++ [FsCreate (FManifest m'); FsAppend (FManifest m') a; FsAppend (FManifest m') b;
                                    FsCreate (FTemp m'); FsAppend (FTemp m') (current_contents m')]).
    assert (Eo : (rs_ops r ++ W) ++ [FsCreate (FManifest m'); FsAppend (FManifest m') a; FsAppend (FManifest m') b;
                                     FsCreate (FTemp m'); FsAppend (FTemp m') (current_contents m'); FsRename m'] ++ G
                 = Pre ++ [FsRename m'] ++ G).
    { unfold Pre. rewrite <- !List.app_assoc. reflexivity. }
    rewrite Eo in *.
    assert (HPre : Forall (qv V m) Pre).
    { unfold Pre. apply Forall_app. split; [exact HA|]. repeat constructor; exact Hne. }
    refine (pivot_crash img1 _ m (dv_ver dv) Pre _ G l' d' acked' HL1 Hc Hp Hv HPre _ J' HG Himg).
    intros k. cbn [torn_fsop].
    eapply (post_pivot_logical l' d' acked' _ G _ J' HG); [|rewrite Hm'; apply same_view_refl].
    rewrite Himg, !apply_fsops_app. reflexivity.
Qed.

Lemma logical_img_init : LogicalImg img_init.
Proof.
  intros ms RM.
  rewrite (recover_manifest_durable _ _ (rec_dur _ _ _ _ (cs_rec _ _ _ _ CS_init))) in RM. injection RM as <-.
  exists (mkLsm [] None (repeat [] NLEVELS) [] 0 [] 0 false). split; [exact empty_lb_wf|]. split; [reflexivity|].
  intros n [].
Qed.

Lemma init_crash_logical img : NoCur img -> all_crash LogicalImg img init_ops.
Proof.
  intros Hn. pose proof (NoCur_init img Hn) as Einit.
  set (Ok := fun o : fsop => match o with
                             | FsCreate (FManifest _) | FsAppend (FManifest _) _
                             | FsCreate (FTemp _) | FsAppend (FTemp _) _ => True
                             | _ => False end).
  assert (Hc : forall i o, i_current i = None -> Ok o -> i_current (apply_fsop i o) = None).
  { intros i o Hi Ho. destruct o as [f|f x|n es|n|f]; try destruct f; cbn [Ok] in Ho; try contradiction; exact Hi. }
  assert (Ht : forall o k, Ok o -> Forall Ok (torn_fsop o k)).
  { intros o k Ho. destruct o as [f|f x|n es|n|f]; try destruct f; cbn [Ok] in Ho; try contradiction;
      cbn [torn_fsop]; repeat constructor. }
  unfold init_ops, set_current_ops in *. cbn [app] in *.
  change [FsCreate (FManifest 1); FsAppend (FManifest 1) (fst (log_append 0 (vchange_encode new_db_change)));
          FsCreate (FTemp 1); FsAppend (FTemp 1) (current_contents 1); FsRename 1]
    with ([FsCreate (FManifest 1); FsAppend (FManifest 1) (fst (log_append 0 (vchange_encode new_db_change)));
           FsCreate (FTemp 1); FsAppend (FTemp 1) (current_contents 1)] ++ [FsRename 1]) in *.
  destruct (all_crash_closed (fun i => i_current i = None) Ok Hc Ht
              [FsCreate (FManifest 1); FsAppend (FManifest 1) (fst (log_append 0 (vchange_encode new_db_change)));
               FsCreate (FTemp 1); FsAppend (FTemp 1) (current_contents 1)] img (proj1 Hn))
    as [CA SA]; [repeat constructor|].
  rewrite apply_fsops_app in Einit.
  apply all_crash_app; [apply (all_crash_impl _ _ _ _ logical_nocur CA)|].
  apply all_crash_cons.
  - apply logical_nocur. exact SA.
  - intros k. cbn [torn_fsop]. rewrite Einit. exact logical_img_init.
  - apply all_crash_nil. pose proof logical_img_init as X. rewrite <- Einit in X. exact X.
Qed.

(** S4, crashes during a recovery: every crash image of [p_open] on a crashed directory that is
    the image of a logical state is again the image of a logical state *)
Theorem open_crash_logical o img bs d' ops :
  Crashed img bs -> LogicalImg img -> open_okb o img = true ->
  p_open o img = Some (d', ops) ->
  all_crash LogicalImg img ops.
Proof.
  intros Hc HL Hok Hop. pose proof (reopen_joint o img bs d' ops Hc HL Hok Hop) as J'.
  rewrite p_open_unfold in Hop. cbv zeta in Hop.
  destruct Hc as [[Hn ->]|(dv & bsF & Q & C & ->)].
  - rewrite (proj1 Hn) in Hop.
    assert (C1 : CS (apply_fsops img init_ops) dv_init [] 0) by (rewrite (NoCur_init _ Hn); apply CS_init).
    rewrite (recover_durable _ _ (rec_dur _ _ _ _ (cs_rec _ _ _ _ C1))) in Hop.
    assert (HL1 : LogicalImg (apply_fsops img init_ops)) by (rewrite (NoCur_init _ Hn); exact logical_img_init).
    destruct (rec_crash_logical o img init_ops _ dv_init [] 0 d' ops _ _ C1 eq_refl Hop HL1 J') as (opsR & -> & Hcr).
    apply all_crash_app; [apply init_crash_logical; exact Hn|exact Hcr].
  - destruct (rec_dur _ _ _ _ (cs_rec _ _ _ _ C)) as ((Hcur & _) & _).
    rewrite Hcur in Hop. cbn [apply_fsops fold_left] in Hop.
    rewrite (recover_durable _ _ (rec_dur _ _ _ _ (cs_rec _ _ _ _ C))) in Hop.
    destruct (rec_crash_logical o img [] img dv bsF Q d' ops _ _ C eq_refl Hop HL J') as (opsR & -> & Hcr).
    exact Hcr.
Qed.

(** * End to end: sessions *)
Section SESSIONS.
Variable mfs : N.

(** one session on a directory left by a crash or a clean shutdown: open (recovery), then a joint
    run, then a crash anywhere (in the recovery or in the steps; [n = length eff], [torn = None] is
    the clean end). What the session leaves is again a crashed directory that is the image of a
    logical state, for the batches that were there plus those the crash point preserves. *)
Theorem joint_session_safe img bs o js d0 ops0 :
  Crashed img bs -> LogicalImg img -> open_okb o img = true -> p_open o img = Some (d0, ops0) ->
  jrun_ok mfs (lsm_of_pdb d0) (started d0) js ->
  let ops := QOpen o :: joint_pops mfs (lsm_of_pdb d0) js in
  let s := session_start img in
  let eff := snd (p_run s ops) in
  forall n torn, (n <= length eff)%nat ->
    let img' := crash_image img eff n torn in
    let bs' := bs ++ firstn (crash_k s ops n torn) (acked_batches (nops bs) ops) in
    Crashed img' bs' /\ LogicalImg img'.
Proof.
  intros Hc HL Hoo Hop Hok. cbv zeta. intros n torn Hn.
  pose proof (reopen_joint o img bs d0 ops0 Hc HL Hoo Hop) as J0.
  destruct (open_step_c o img bs d0 ops0 Hc Hoo Hop) as (Himg0 & _ & _).
  destruct (joint_run mfs js _ d0 bs J0 Hok) as (O & d1 & E1 & J1). cbv zeta in *.
  assert (Es : p_step (session_start img) (QOpen o) = (started d0, ops0)).
  { unfold p_step, session_start. cbn [pr_failed pr_img]. rewrite Hop. reflexivity. }
  destruct (p_run_cons (session_start img) (QOpen o) (joint_pops mfs (lsm_of_pdb d0) js)) as [F1 F2].
  rewrite Es in F1, F2. cbn [fst snd] in F1, F2.
  split.
  - assert (R : RInvC (session_start img) bs) by (apply RInvC_start; exact Hc).
    assert (Okp : run_okP (session_start img) (QOpen o :: joint_pops mfs (lsm_of_pdb d0) js)).
    { cbn [run_okP]. rewrite Es. cbn [fst]. split; [exact Hoo|exact O]. }
    assert (Hnf : pr_failed (fst (p_run (session_start img) (QOpen o :: joint_pops mfs (lsm_of_pdb d0) js))) = false)
      by (rewrite F1, E1; reflexivity).
    destruct (run_crash_safe_c _ _ _ R Okp Hnf) as (_ & _ & Hcr). apply (Hcr n torn Hn).
  - rewrite F2 in *. revert n torn Hn. change (all_crash LogicalImg img (ops0 ++ snd (p_run (started d0) (joint_pops mfs (lsm_of_pdb d0) js)))).
    apply all_crash_app; [apply (open_crash_logical o img bs d0 ops0 Hc HL Hoo Hop)|].
    rewrite <- Himg0. apply (jrun_crash_logical mfs js _ d0 bs J0 Hok).
Qed.

(** the directories reachable by any number of such sessions from the empty directory *)
Inductive JReach : image -> list batch -> Prop :=
| jr_empty : JReach empty_image []
| jr_session : forall img bs o js d0 ops0 n torn,
    JReach img bs -> open_okb o img = true -> p_open o img = Some (d0, ops0) ->
    jrun_ok mfs (lsm_of_pdb d0) (started d0) js ->
    (n <= length (snd (p_run (session_start img) (QOpen o :: joint_pops mfs (lsm_of_pdb d0) js))))%nat ->
    JReach (crash_image img (snd (p_run (session_start img) (QOpen o :: joint_pops mfs (lsm_of_pdb d0) js))) n torn)
           (bs ++ firstn (crash_k (session_start img) (QOpen o :: joint_pops mfs (lsm_of_pdb d0) js) n torn)
                         (acked_batches (nops bs) (QOpen o :: joint_pops mfs (lsm_of_pdb d0) js))).

Theorem jreach_safe img bs : JReach img bs -> Crashed img bs /\ LogicalImg img.
Proof.
  induction 1 as [|img bs o js d0 ops0 n torn _ [IH1 IH2] Hoo Hop Hok Hn].
  - split; [apply Crashed_empty|apply logical_nocur; reflexivity].
  - apply (joint_session_safe img bs o js d0 ops0 IH1 IH2 Hoo Hop Hok n torn Hn).
Qed.

(** across any number of crashes and recoveries: a get on the reopened database, through the real
    lookup path of the rebuilt logical state, returns the latest acknowledged write *)
Theorem jreach_get img bs o d' ops :
  JReach img bs -> open_okb o img = true -> p_open o img = Some (d', ops) ->
  Joint (lsm_of_pdb d') d' bs /\ forall k, db_get (lsm_of_pdb d') k = map_get k (replay [] bs).
Proof.
  intros HR Hoo Hop. destruct (jreach_safe img bs HR) as [Hc HL].
  pose proof (reopen_joint o img bs d' ops Hc HL Hoo Hop) as J. split; [exact J|apply (joint_get _ _ _ J)].
Qed.
End SESSIONS.

(** * The history of the manifest and the levels of the live files: a file only moves down *)

(** every (level, file) the manifest ever added lies at or above the level where a live file with
    that number is now *)
Definition HistMonoV (a : macc) (v : version) : Prop :=
  forall lv g, In (lv, g) (ma_added a) ->
  forall i f, In f (level_files v i) -> fm_num f = fm_num g -> (lv <= i)%nat.

Definition NumLevel (v : version) : Prop :=
  forall i j f g, In f (level_files v i) -> In g (level_files v j) -> fm_num f = fm_num g -> i = j.

Lemma WF_NumLevel l : WF l -> NumLevel (l_ver l).
Proof. intros W i j f g Hf Hg E. apply (wf_same_num _ _ _ _ _ (wf_ver l W) Hf Hg E). Qed.

Lemma hist_step a c v v' :
  HistMonoV a v -> apply_edit v (edit_of c) = Some v' -> NumLevel v' ->
  (forall i f, In (i, f) (news_of c) -> (i < length v)%nat) ->
  (forall i f, In (i, f) (news_of c) ->
     forall lv g, In (lv, g) (ma_added a) -> fm_num g = fm_num f -> (lv <= i)%nat) ->
  HistMonoV (accumulate a c) v'.
Proof.
  intros H EA NL Hlv Hadd lv g Hg i f Hf En.
  change (ma_added (accumulate a c)) with (ma_added a ++ news_of c) in Hg.
  destruct (Nat.lt_ge_cases i (length v)) as [Li|Li].
  2:{ rewrite (apply_edit_overflow _ _ _ EA i Li) in Hf. destruct Hf. }
  pose proof Hf as Hf0. apply (apply_edit_In _ _ _ EA i f Li) in Hf. destruct Hf as [Hf _].
  apply in_app_or in Hg. destruct Hg as [Hg|Hg].
  - destruct Hf as [Hf|Hf]; [apply (H lv g Hg i f Hf En)|].
    apply (Hadd i f Hf lv g Hg). symmetry. exact En.
  - assert (Hgl : In g (level_files v' lv)).
    { apply (apply_edit_In _ _ _ EA lv g (Hlv lv g Hg)). split; [right; exact Hg|].
      intros [_ Hn]. apply Hn. apply in_map. apply ae_add_In. exact Hg. }
    rewrite (NL i lv f g Hf0 Hgl En). lia.
Qed.

(** the accumulated manifest state is determined by CURRENT and the manifest it names *)
Lemma recorded_acc_ext i j c n :
  i_current j = Some c -> parse_current c = Some n -> i_current i = Some c ->
  lookupN n (i_manifests i) = lookupN n (i_manifests j) -> recorded_acc i = recorded_acc j.
Proof. intros Hj Hp Hi Hl. unfold recorded_acc. rewrite Hj, Hi, Hp, Hl. reflexivity. Qed.

Lemma recorded_acc_torn i j c n f recs boff x t :
  i_current j = Some c -> parse_current c = Some n -> i_current i = Some c ->
  lookupN n (i_manifests j) = Some f -> logfile f recs boff ->
  lookupN n (i_manifests i) = Some (f ++ firstn t (fst (log_append boff x))) ->
  (t < length (fst (log_append boff x)))%nat ->
  recorded_acc i = recorded_acc j.
Proof.
  intros Hj Hp Hi Hlj Hf Hli Ht. unfold recorded_acc. rewrite Hj, Hi, Hp, Hlj, Hli.
  rewrite (logfile_read _ _ _ Hf). destruct (logfile_read_torn _ _ _ x t Hf Ht) as [b ->]. reflexivity.
Qed.

Lemma recorded_acc_append i j c n f cs boff c' :
  i_current j = Some c -> parse_current c = Some n -> i_current i = Some c ->
  lookupN n (i_manifests j) = Some f -> logfile f (map vchange_encode cs) boff -> Forall vok cs -> vok c' ->
  lookupN n (i_manifests i) = Some (f ++ fst (log_append boff (vchange_encode c'))) ->
  recorded_acc i = accumulate (recorded_acc j) c'.
Proof.
  intros Hj Hp Hi Hlj Hf Hok Hc' Hli. unfold recorded_acc. rewrite Hj, Hi, Hp, Hlj, Hli.
  rewrite (logfile_read _ _ _ Hf), (logfile_read _ _ _ (logfile_append _ _ _ (vchange_encode c') Hf)).
  cbn [rx_records]. rewrite (decode_changes_map cs Hok).
  replace (map vchange_encode cs ++ [vchange_encode c']) with (map vchange_encode (cs ++ [c']))
    by (rewrite map_app; reflexivity).
  rewrite (decode_changes_map (cs ++ [c'])) by (apply Forall_app; split; [exact Hok|constructor; [exact Hc'|constructor]]).
  rewrite fold_left_app. reflexivity.
Qed.

Lemma joint_manifest_cs l d acked :
  Joint l d acked ->
  exists f cs,
    i_current (pd_img d) = Some (current_contents (pd_manifest d)) /\
    parse_current (current_contents (pd_manifest d)) = Some (pd_manifest d) /\
    lookupN (pd_manifest d) (i_manifests (pd_img d)) = Some f /\
    logfile f (map vchange_encode cs) (pd_manifest_boff d) /\ Forall vok cs /\
    pd_manifest_open d = true /\ pd_prev_wal d = None.
Proof.
  intros [Hwf C I TL]. destruct I as (dv & bsF & Q & older & bsM & I & _).
  pose proof (rec_dur _ _ _ _ (iv_rec _ _ _ _ _ _ I)) as D.
  destruct D as ((Hc & Hlt) & _ & (Hok & _) & _). destruct (iv_manfile _ _ _ _ _ _ I) as (f & Hl & Hlf).
  rewrite <- (iv_man _ _ _ _ _ _ I) in *.
  exists f, (dv_changes dv). split; [exact Hc|]. split; [apply parse_current_contents; exact Hlt|].
  split; [exact Hl|]. split; [exact Hlf|]. split; [exact Hok|]. split; [apply (iv_open _ _ _ _ _ _ I)|].
  apply (iv_prev _ _ _ _ _ _ I).
Qed.

(** a flush or an install appends its record to the history *)
Lemma shape_recorded_acc l d acked d' V V' ops c' :
  Joint l d acked -> step_shape_x d d' V V' ops (vchange_encode c') -> vok c' ->
  recorded_acc (pd_img d') = accumulate (recorded_acc (pd_img d)) c'.
Proof.
  intros J (A & G & -> & HA & HG & Himg & Hman) Hv.
  destruct (joint_manifest_cs l d acked J) as (f & cs & M1 & M2 & M3 & M4 & M5 & M6 & M7).
  set (m := pd_manifest d) in *.
  destruct (all_crash_closed (same_view V m (pd_img d)) (quiet V) (quiet_step V m (pd_img d)) (quiet_torn V)
              A (pd_img d) (same_view_refl _ _ _) HA) as [_ (A1 & A2 & _)].
  set (img1 := apply_fsops (pd_img d) A) in *.
  set (M := FsAppend (FManifest m) (fst (log_append (pd_manifest_boff d) (vchange_encode c')))) in *.
  destruct (all_crash_closed (same_view V' m (apply_fsop img1 M)) (spares V' m) (spares_step V' m _) (spares_torn V' m)
              G _ (same_view_refl _ _ _) HG) as [_ (G1 & G2 & _)].
  rewrite !apply_fsops_app in Himg. cbn [apply_fsops fold_left] in Himg. fold img1 in Himg.
  change (fold_left apply_fsop G (apply_fsop img1 M)) with (apply_fsops (apply_fsop img1 M) G) in Himg.
  rewrite <- Himg in G1, G2.
  apply (recorded_acc_append (pd_img d') (pd_img d) _ m f cs (pd_manifest_boff d) c' M1 M2); try assumption.
  - rewrite G1. cbn [M apply_fsop i_current]. rewrite A1. exact M1.
  - rewrite G2. cbn [M apply_fsop i_manifests]. rewrite lookupN_app_assoc, N.eqb_refl, A2, M3. reflexivity.
Qed.

Lemma recorded_seq_durable d dv bsF Q older bsM :
  Inv d dv bsF Q older bsM -> recorded_seq (pd_img d) = dv_seq dv.
Proof.
  intros I. unfold recorded_seq.
  rewrite (recover_manifest_durable _ _ (rec_dur _ _ _ _ (iv_rec _ _ _ _ _ _ I))). reflexivity.
Qed.

(** the history stays monotone along the protocol operation of a joint step *)
Lemma op_hist l d acked l' d' acked' o :
  Joint l d acked -> Joint l' d' acked' -> HistMonoV (recorded_acc (pd_img d)) (pd_ver d) ->
  step_okP (started d) o -> fst (p_step (started d) o) = started d' -> (forall oo, o <> QOpen oo) ->
  match o with
  | QInstall del add ptrs q =>
      forall i f, In (i, f) (news_of (install_change' d del add ptrs q)) ->
      forall lv g, In (lv, g) (ma_added (recorded_acc (pd_img d))) -> fm_num g = fm_num f -> (lv <= i)%nat
  | _ => True
  end ->
  HistMonoV (recorded_acc (pd_img d')) (pd_ver d').
Proof.
  intros J J' H Hok Es Hno Hadd.
  destruct (joint_manifest_cs l d acked J) as (f0 & cs & M1 & M2 & M3 & M4 & M5 & M6 & M7).
  assert (Hlen : length (pd_ver d) = 7%nat).
  { rewrite (cp_ver _ _ (j_cpl _ _ _ J)). apply (wf_len l (WF_of_b _ (j_wf _ _ _ J))). }
  assert (NL' : NumLevel (pd_ver d')).
  { rewrite (cp_ver _ _ (j_cpl _ _ _ J')). apply WF_NumLevel. apply WF_of_b. exact (j_wf _ _ _ J'). }
  set (V := version_numbers (l_ver l)).
  unfold p_step, step_okP, step_ok in *. cbn [started pr_failed pr_db] in *.
  destruct o as [oo|b| |lv sz q|del add ptrs q].
  - exfalso. exact (Hno oo eq_refl).
  - destruct (p_write d b) as [d1 ops] eqn:E. cbn [fst] in Es.
    assert (d1 = d') as <- by (unfold started in *; congruence).
    unfold p_write in E. injection E as <- _. exact H.
  - destruct (p_rotate d) as [d1 ops] eqn:E. cbn [fst] in Es.
    assert (d1 = d') as <- by (unfold started in *; congruence).
    unfold p_rotate in E. destruct (pd_imm d); injection E as <- _; exact H.
  - destruct (p_flush d lv sz q) as [[d1 ops]|] eqn:E; [|cbn [fst] in Es; discriminate]. cbn [fst] in Es.
    assert (d1 = d') as -> by (unfold started in *; congruence).
    destruct (pd_imm d) as [es|] eqn:Ei.
    2:{ unfold p_flush in E. rewrite Ei in E. injection E as <- _. exact H. }
    pose proof (p_flush_spec d lv sz q es Ei) as Sp.
    destruct (apply_edit (pd_ver d) (mkVE [] (flush_added (pd_next d + 1) lv sz es))) as [v'|] eqn:EA;
      [|rewrite Sp in E; discriminate].
    destruct Sp as (d2 & ops2 & E2 & S1 & _). rewrite E in E2. injection E2 as <- <-.
    assert (Ee : edit_of (flush_record d lv sz q es) = mkVE [] (flush_added (pd_next d + 1) lv sz es)).
    { unfold edit_of, flush_record, flush_added. cbn [vc_deleted vc_new map].
      destruct (table_meta (pd_next d + 1) sz es); reflexivity. }
    assert (Hfresh : ~ In (pd_next d + 1) V).
    { intros Hin. apply vn_in in Hin. destruct Hin as (i & g & Hg & En).
      pose proof (wf_nums l (WF_of_b _ (j_wf _ _ _ J)) i g Hg). rewrite (cp_next _ _ (j_cpl _ _ _ J)) in En. lia. }
    pose proof (flush_shape d lv sz q es d' ops V Ei M6 Hfresh E) as Sh.
    assert (Hv : vok (flush_record d lv sz q es)).
    { pose proof (j_inv _ _ _ J) as (dv & bsF & Q & older & bsM & I & _).
      unfold flush_okb in Hok. rewrite Ei in Hok.
      apply andb_true_iff in Hok. destruct Hok as [Hok K6]. apply andb_true_iff in Hok. destruct Hok as [Hok K5].
      apply andb_true_iff in Hok. destruct Hok as [Hok K4]. apply andb_true_iff in Hok. destruct Hok as [Hok K3].
      apply andb_true_iff in Hok. destruct Hok as [K1 K2].
      apply N.ltb_lt in K1. apply N.ltb_lt in K2. apply N.ltb_lt in K3. apply N.leb_le in K4. apply N.leb_le in K6.
      rewrite (recorded_seq_durable _ _ _ _ _ _ I) in K4.
      unfold flush_record. rewrite M7.
      apply (flush_vok d dv bsF Q older bsM I es Ei lv sz q K1 K2 K3 K4) with (v' := v'); [|exact K6|].
      - intros e He. rewrite forallb_forall in K5. apply N.leb_le. apply K5. exact He.
      - rewrite <- EA. f_equal. unfold edit_of, flush_added. cbn [vc_deleted vc_new map].
        destruct (table_meta (pd_next d + 1) sz es); reflexivity. }
    rewrite (shape_recorded_acc l d acked d' _ _ ops _ J Sh Hv).
    apply (hist_step _ _ (pd_ver d) _ H); [rewrite Ee, S1; exact EA|exact NL'| |].
    + intros i f Hin. unfold news_of, flush_record in Hin. cbn [vc_new] in Hin.
      destruct (table_meta (pd_next d + 1) sz es); cbn [map] in Hin; [|destruct Hin].
      destruct Hin as [Hin|[]]. injection Hin as <- _. rewrite Hlen.
      unfold flush_okb in Hok. rewrite Ei in Hok. do 5 (apply andb_true_iff in Hok; destruct Hok as [Hok _]).
      apply N.ltb_lt in Hok. unfold MAX_NUM_LEVELS in Hok. lia.
    + intros i f Hin lv0 g Hg En. exfalso. unfold news_of, flush_record in Hin. cbn [vc_new] in Hin.
      destruct (table_meta (pd_next d + 1) sz es) as [fm|] eqn:TM; cbn [map] in Hin; [|destruct Hin].
      destruct Hin as [Hin|[]]. injection Hin as _ <-. destruct (table_meta_num _ _ _ _ TM) as [En' _].
      destruct (history_bound d acked (j_inv _ _ _ J)) as [_ Hb]. specialize (Hb lv0 g Hg). lia.
  - destruct (p_install d del add ptrs q) as [[d1 ops]|] eqn:E; [|cbn [fst] in Es; discriminate]. cbn [fst] in Es.
    assert (d1 = d') as -> by (unfold started in *; congruence).
    destruct Hok as [Hok _].
    pose proof (p_install_spec d del add ptrs q) as Sp.
    destruct (apply_edit (pd_ver d) (edit_of (mkVC None None None None ptrs del (map fst add)))) as [v'|] eqn:EA;
      [|rewrite Sp in E; discriminate].
    destruct Sp as (d2 & ops2 & E2 & S1 & _). rewrite E in E2. injection E2 as <- <-.
    assert (HVt : forall n, In n V -> In n (map fst (i_tables (pd_img d)))).
    { intros n Hn. apply (version_tables_present l d n (j_cpl _ _ _ J) Hn). }
    pose proof (install_shape d del add ptrs q d' ops V M6 HVt E) as Sh.
    assert (Er : install_record d del add ptrs q = install_change' d del add ptrs q).
    { unfold install_record, install_change'. rewrite M7. reflexivity. }
    rewrite Er in Sh.
    assert (Hv : vok (install_change' d del add ptrs q)).
    { unfold install_okb in Hok. do 6 (apply andb_true_iff in Hok; destruct Hok as [Hok ?]). exact Hok. }
    rewrite (shape_recorded_acc l d acked d' _ _ ops _ J Sh Hv).
    apply (hist_step _ _ (pd_ver d) _ H); [rewrite S1; exact EA|exact NL'| |exact Hadd].
    intros i f Hin. rewrite Hlen. destruct (vok_parts _ Hv) as [_ Hn]. unfold news_of in Hin.
    apply in_map_iff in Hin. destruct Hin as (p & Ep & Hp). injection Ep as <- _.
    destruct (Hn p Hp) as [Hl _]. unfold MAX_NUM_LEVELS in Hl. lia.
Qed.

(** the joint invariant with the monotone history *)
Definition JointH (l : lsm) (d : pdb) (acked : list batch) : Prop :=
  Joint l d acked /\ HistMonoV (recorded_acc (pd_img d)) (pd_ver d).

Section HIST.
Variable mfs : N.
Notation lstep := (lsm_step true true mfs).

(** the side conditions without the history condition of the trivial moves *)
Definition step_num_ok0 (l : lsm) (d : pdb) (st : step) (ptrs : list (N * ikey)) : Prop :=
  match st with
  | STrivialMove level seed => Forall (install_num_ok d) (move_pops mfs l level seed ptrs)
  | _ => step_num_ok mfs l d st ptrs
  end.

Fixpoint jrun_ok0 (l : lsm) (s : prun) (js : list jstep) : Prop :=
  match js with
  | [] => True
  | (st, ptrs) :: r =>
      step_admissible l st /\
      (forall d, pr_db s = Some d -> step_num_ok0 l d st ptrs) /\
      jrun_ok0 (lstep l st) (fst (p_run s (pops_of_step mfs l st ptrs))) r
  end.

(** a trivial move never re-adds a (level, number) pair: the history is monotone *)
Lemma move_hist_ok l d acked level seed ptrs :
  JointH l d acked -> compact_adm l level seed ->
  Forall (install_hist_ok d) (move_pops mfs l level seed ptrs).
Proof.
  intros [J H] Adm. pose proof (WF_of_b _ (j_wf _ _ _ J)) as W.
  destruct (compact_cfacts mfs l level seed W Adm) as (c & Ec & CF).
  unfold move_pops. rewrite Ec. destruct (ci_in0 c) as [|f [|g r]] eqn:E0; try constructor.
  destruct (negb (is_trivial_move mfs c)); constructor; [|constructor].
  cbn [install_hist_ok]. unfold news_of, install_change'. cbn [vc_new map fst snd]. rewrite Nat2N.id.
  assert (Hf : In f (level_files (pd_ver d) level)).
  { rewrite (cp_ver _ _ (j_cpl _ _ _ J)). apply (cf_sub0 _ _ _ CF). rewrite E0. left. reflexivity. }
  destruct (history_bound d acked (j_inv _ _ _ J)) as [ND _].
  unfold lvl_nums. rewrite map_app. apply nodup_app_intro; [exact ND|repeat constructor; intros []|].
  intros [lv n] Hx [Hy|[]]. cbn [map fst snd] in Hy. injection Hy as <- <-.
  apply in_map_iff in Hx. destruct Hx as ([lv' g'] & Ex & Hg). cbn [fst snd] in Ex. injection Ex as -> En.
  pose proof (H _ _ Hg level f Hf (eq_sym En)). lia.
Qed.

Lemma num_ok0_ok l d acked st ptrs :
  JointH l d acked -> step_admissible l st -> step_num_ok0 l d st ptrs -> step_num_ok mfs l d st ptrs.
Proof.
  intros JH A Nk. destruct st; try exact Nk. cbn [step_num_ok0 step_num_ok step_admissible] in *.
  split; [exact Nk|]. apply (move_hist_ok l d acked level seed ptrs JH A).
Qed.

(** a joint step keeps the monotone history *)
Lemma joint_step_hist l d acked st ptrs d' acked' :
  JointH l d acked -> step_admissible l st -> step_num_ok mfs l d st ptrs ->
  Joint (lstep l st) d' acked' ->
  fst (p_run (started d) (pops_of_step mfs l st ptrs)) = started d' ->
  HistMonoV (recorded_acc (pd_img d')) (pd_ver d').
Proof.
  intros [J H] A Nk J' E'. pose proof (WF_of_b _ (j_wf _ _ _ J)) as W.
  destruct (step_all mfs l d acked st ptrs J A Nk) as [(E & C1 & _)|(o & d1 & E & Hok & Es & _)].
  - rewrite E in E'. cbn [p_run fst] in E'. assert (d = d') as <- by (unfold started in *; congruence).
    rewrite (cp_ver _ _ (j_cpl _ _ _ J')), <- (cp_ver _ _ C1). exact H.
  - rewrite E in E'. rewrite p_run_one in E'. cbn [fst] in E'.
    apply (op_hist l d acked _ d' acked' o J J' H Hok E').
    + intros oo. apply (pops_no_open mfs l st ptrs o oo). rewrite E. left. reflexivity.
    + destruct st; cbn [pops_of_step] in E.
      * injection E as <-. exact I.
      * injection E as <-. exact I.
      * unfold flush_pops in E. destruct (l_imm l) as [[|e0 r]|]; [injection E as <-; exact I| |discriminate].
        destruct (last_key _); [injection E as <-; exact I|discriminate].
      * (* compaction: the outputs are new numbers *)
        destruct A as [Adm Hss]. destruct (compact_cfacts mfs l level seed W Adm) as (c & Ec & CF).
        pose proof Adm as (Alen & _). unfold compact_pops in E. rewrite Ec in E. injection E as <-.
        intros i f Hin lv g Hg En. exfalso. unfold news_of, install_change', compact_added in Hin.
        cbn [vc_new] in Hin. rewrite !map_map in Hin. cbn [fst snd] in Hin. apply in_map_iff in Hin.
        destruct Hin as (o' & Eo & Ho). injection Eo as _ <-.
        destruct (outs_keys l level c cuts Alen Hss o' Ho) as (_ & _ & K). unfold onum in K.
        destruct (history_bound d acked (j_inv _ _ _ J)) as [_ Hb]. specialize (Hb lv g Hg).
        rewrite (cp_next _ _ (j_cpl _ _ _ J)) in Hb. lia.
      * (* trivial move: the file was at the level above *)
        cbn [step_admissible] in A. destruct (compact_cfacts mfs l level seed W A) as (c & Ec & CF).
        unfold move_pops in E. rewrite Ec in E. destruct (ci_in0 c) as [|f [|g0 r]] eqn:E0; try discriminate.
        destruct (negb (is_trivial_move mfs c)); [discriminate|]. injection E as <-.
        intros i f' Hin lv g Hg En. unfold news_of, install_change' in Hin. cbn [vc_new map fst snd] in Hin.
        destruct Hin as [Hin|[]]. injection Hin as <- <-. rewrite Nat2N.id.
        assert (Hf : In f (level_files (pd_ver d) level)).
        { rewrite (cp_ver _ _ (j_cpl _ _ _ J)). apply (cf_sub0 _ _ _ CF). rewrite E0. left. reflexivity. }
        pose proof (H _ _ Hg level f Hf (eq_sym En)). lia.
      * discriminate.
      * discriminate.
Qed.

Theorem joint_step_h l d acked st ptrs :
  JointH l d acked -> step_admissible l st -> step_num_ok0 l d st ptrs ->
  let ops := pops_of_step mfs l st ptrs in
  run_okP (started d) ops /\
  exists d', fst (p_run (started d) ops) = started d' /\
             JointH (lstep l st) d' (acked ++ acked_batches (nops acked) ops).
Proof.
  intros JH A Nk0. cbv zeta. pose proof (num_ok0_ok l d acked st ptrs JH A Nk0) as Nk.
  destruct (joint_step mfs l d acked st ptrs (proj1 JH) A Nk) as (O & d' & E' & J').
  split; [exact O|]. exists d'. split; [exact E'|]. split; [exact J'|].
  apply (joint_step_hist l d acked st ptrs d' _ JH A Nk J' E').
Qed.

(** along a joint run that starts with a monotone history the history condition of the trivial
    moves comes for free *)
Theorem jrun_ok0_ok : forall js l d acked,
  JointH l d acked -> jrun_ok0 l (started d) js ->
  jrun_ok mfs l (started d) js /\
  forall d', fst (p_run (started d) (joint_pops mfs l js)) = started d' ->
             HistMonoV (recorded_acc (pd_img d')) (pd_ver d').
Proof.
  induction js as [|[st ptrs] r IH]; intros l d acked JH Hok.
  - split; [exact I|]. cbn [joint_pops p_run fst]. intros d' E. assert (d = d') as <- by (unfold started in *; congruence).
    exact (proj2 JH).
  - cbn [jrun_ok0] in Hok. destruct Hok as (A & Nk0 & Hr). specialize (Nk0 d eq_refl).
    destruct (joint_step_h l d acked st ptrs JH A Nk0) as (O1 & d1 & E1 & JH1). cbv zeta in *.
    rewrite E1 in Hr. destruct (IH _ _ _ JH1 Hr) as (I1 & I2).
    split.
    + cbn [jrun_ok]. split; [exact A|]. split; [|rewrite E1; exact I1].
      intros d0 Hd. cbn [started pr_db] in Hd. injection Hd as <-. apply (num_ok0_ok l d acked st ptrs JH A Nk0).
    + cbn [joint_pops]. intros d' E.
      destruct (p_run_app (pops_of_step mfs l st ptrs) (started d) (joint_pops mfs (lstep l st) r)) as [F _].
      rewrite F, E1 in E. apply (I2 d' E).
Qed.

Lemma fresh_jointH o d0 ops0 :
  open_okb o empty_image = true -> p_open o empty_image = Some (d0, ops0) -> JointH fresh_lsm d0 [].
Proof.
  intros Hoo E. destruct (open_fresh o) as (d1 & ops1 & E1 & C0 & TL0). rewrite E in E1. injection E1 as <- <-.
  assert (I0 : InvE d0 []).
  { apply (open_step o empty_image [] d0 ops0); [left; split; reflexivity|exact Hoo|exact E]. }
  split; [constructor; [exact fresh_lsm_wf|exact C0|exact I0|exact TL0]|].
  intros lv g _ i f Hf. rewrite (cp_ver _ _ C0) in Hf. cbn [fresh_lsm l_ver] in Hf.
  unfold level_files, empty_version in Hf. exfalso.
  assert (X : forall n k, nth k (repeat (@nil fmeta) n) [] = []).
  { induction n as [|n IHn]; intros [|k]; cbn; auto. }
  rewrite X in Hf. destruct Hf.
Qed.

(** from the freshly created database the side conditions of a joint run are numeric only *)
Theorem fresh_jrun_ok0 o js :
  open_okb o empty_image = true -> jrun_ok0 fresh_lsm (opened o) js -> jrun_ok mfs fresh_lsm (opened o) js.
Proof.
  intros Hoo Hok. destruct (open_fresh o) as (d0 & ops0 & E & _). rewrite (opened_eq o d0 ops0 E) in *.
  apply (jrun_ok0_ok js fresh_lsm d0 [] (fresh_jointH o d0 ops0 Hoo E) Hok).
Qed.
End HIST.

(** the history after a recovery: what was there, or level-0 tables *)
Lemma open_hist o img0 ops0 dv bsF Q d' ops :
  CS (apply_fsops img0 ops0) dv bsF Q ->
  (forall p, In p (oo_sizes o) -> snd p < two64) ->
  open_rest o img0 ops0 (apply_fsops img0 ops0) (rc_of (apply_fsops img0 ops0) dv) = Some (d', ops) ->
  pd_next d' < two64 ->
  forall lv g, In (lv, g) (ma_added (recorded_acc (pd_img d'))) ->
               In (lv, g) (ma_added (man_acc (dv_changes dv))) \/ lv = 0%nat.
Proof.
  intros C Hs H Hb. set (img1 := apply_fsops img0 ops0) in *.
  set (li := fun nb : N * list batch => rx_intact (log_read_all_x (file_of (fst nb) (i_wals img1)))).
  destruct (replay_logs o img1 (map (fun nb => mkWR (fst nb) (snd nb) (li nb)) (dv_logs dv))
                        (mkRS (dv_next dv + 1) [] (oo_cuts o) [] [] O false)) as [r reused] eqn:Erl.
  destruct (replay_logs_spec_gen img1 dv (dv_next dv + 1) o img1 li (oc_fresh _ _ _ _ C) (dv_logs dv) _ [] r reused
              (RSInv_init img1 dv (dv_next dv + 1) (oo_sizes o) (oo_cuts o)) Erl)
    as (flushed & kept & Hlogs & HRS & Hnx & Hle & Hnm & Hreused).
  assert (Hb2 : match reused with Some _ => rs_next r | None => rs_next r + 1 end < two64).
  { rewrite <- (open_rest_next o img0 ops0 img1 (rc_of img1 dv) d' ops r reused); [exact Hb| |exact H].
    change (rc_wals (rc_of img1 dv)) with (map (wr_of img1) (dv_logs dv)).
    change (rc_manifest (rc_of img1 dv)) with (ms_of img1 dv).
    rewrite (oc_ms _ _ _ _ C). exact Erl. }
  unfold open_rest in H.
  change (rc_manifest (rc_of img1 dv)) with (ms_of img1 dv) in H.
  change (rc_wals (rc_of img1 dv)) with (map (wr_of img1) (dv_logs dv)) in H.
  rewrite (oc_ms _ _ _ _ C), (oc_wals img1 dv), (oc_seq _ _ _ _ C) in H.
  cbn [ms_next ms_intact ms_size ms_version ms_pointers ms_number ms_wal ms_prev_wal] in H.
  match type of H with context [replay_logs ?a ?b ?c ?e] =>
    assert (Erl' : replay_logs a b c e = (r, reused)) by exact Erl end.
  rewrite Erl' in H. cbv zeta iota beta in H.
  rewrite !apply_fsops_app in H. fold img1 in H.
  match type of H with context [if ?b then _ else _] => destruct b eqn:Esnap end.
  - destruct (apply_edit (dv_ver dv) (edit_of (mkVC (Some (match reused with Some (n, _) => n | None => match reused with Some _ => rs_next r | None => rs_next r + 1 end end)) None None None [] [] (rs_added r)))) as [v'|] eqn:Hedit.
    2:{ unfold log_and_apply in H. cbn [pd_ver vc_deleted vc_new] in H. rewrite Hedit in H. discriminate. }
    destruct (af_laa o img1 dv bsF Q C Hs r reused flushed kept Hlogs HRS Hle Hreused Hb2 v' Hedit) as (d2 & ops2 & dv2 & L).
    pose proof (af_inv_S o img1 dv bsF Q C Hs r reused flushed kept Hlogs HRS Hle Hreused Hb2 v' Hedit d2 ops2 dv2 L) as I2.
    pose proof (lr_eq _ _ _ _ _ _ _ _ _ _ _ _ L) as Leq.
    match type of H with context [log_and_apply ?a ?b ?c] =>
      assert (Leq' : log_and_apply a b c = Some (d2, ops2)) by exact Leq end.
    rewrite Leq' in H. unfold do_gc in H. cbv zeta iota beta in H. injection H as <- _.
    pose proof (gc_invisible d2 dv2 (iv_ver _ _ _ _ _ _ I2) (iv_vswal _ _ _ _ _ _ I2)
                  (proj1 (iv_prev _ _ _ _ _ _ I2)) (iv_man _ _ _ _ _ _ I2)) as Hgc.
    pose proof (Inv_invisible_ops _ d2 _ _ _ _ _ I2 Hgc) as I3.
    intros lv g Hg. rewrite (recorded_acc_durable _ _ (rec_dur _ _ _ _ (iv_rec _ _ _ _ _ _ I3))) in Hg.
    destruct (proj2 (lr_hist _ _ _ _ _ _ _ _ _ _ _ _ L) lv g Hg) as [Ho|Ha]; [left; exact Ho|right].
    apply in_map_iff in Ha. destruct Ha as ([l0 f0] & Ea & Hin). cbn [fst snd] in Ea. injection Ea as <- _.
    destruct (rsi_added _ _ _ _ _ _ _ HRS l0 f0 Hin) as (-> & _). reflexivity.
  - apply orb_false_iff in Esnap. destruct Esnap as [Erm Hnf]. apply negb_false_iff in Erm.
    pose proof (af_inv_N o img1 dv bsF Q C Hs r reused flushed kept Hlogs HRS Hle Hnm Hreused Hb2 Erm Hnf) as I2.
    unfold do_gc in H. cbv zeta iota beta in H. injection H as <- _.
    match type of I2 with Inv ?d1 ?dvW _ _ _ _ =>
      pose proof (gc_invisible d1 dvW (iv_ver _ _ _ _ _ _ I2) (iv_vswal _ _ _ _ _ _ I2)
                    (proj1 (iv_prev _ _ _ _ _ _ I2)) (iv_man _ _ _ _ _ _ I2)) as Hgc;
      pose proof (Inv_invisible_ops _ d1 _ _ _ _ _ I2 Hgc) as I3 end.
    intros lv g Hg.
    match type of I3 with Inv ?dd _ _ _ _ _ =>
      assert (Hg' : In (lv, g) (ma_added (recorded_acc (pd_img dd)))) by exact Hg end.
    rewrite (recorded_acc_durable _ _ (rec_dur _ _ _ _ (iv_rec _ _ _ _ _ _ I3))) in Hg'. left. exact Hg'.
Qed.

(** the history is monotone again after a recovery *)
Lemma ro_hist o img0 ops0 dv bsF Q d' ops :
  CS (apply_fsops img0 ops0) dv bsF Q -> Forall nontable ops0 ->
  (forall p, In p (oo_sizes o) -> snd p < two64) ->
  open_rest o img0 ops0 (apply_fsops img0 ops0) (rc_of (apply_fsops img0 ops0) dv) = Some (d', ops) ->
  pd_next d' < two64 ->
  HistMonoV (man_acc (dv_changes dv)) (dv_ver dv) ->
  HistMonoV (recorded_acc (pd_img d')) (pd_ver d').
Proof.
  intros C Hnt Hs Hop Hb H lv g Hg i f Hf En.
  destruct (open_hist o img0 ops0 dv bsF Q d' ops C Hs Hop Hb lv g Hg) as [Ho| ->]; [|lia].
  destruct (ro_spec o img0 ops0 _ dv bsF Q d' ops C eq_refl Hnt Hop)
    as (r & reused & lo & LRf & _ & Hver & _).
  assert (Hbase : In f (level_files (dv_ver dv) i) -> (lv <= i)%nat) by (intros Hb0; apply (H lv g Ho i f Hb0 En)).
  destruct Hver as [[_ Ev]|EA]; [rewrite Ev in Hf; exact (Hbase Hf)|].
  destruct (Nat.lt_ge_cases i (length (dv_ver dv))) as [Li|Li].
  2:{ rewrite (apply_edit_overflow _ _ _ EA i Li) in Hf. destruct Hf. }
  apply (apply_edit_In _ _ _ EA i f Li) in Hf. destruct Hf as [[Hf|Hf] _]; [exact (Hbase Hf)|].
  exfalso. cbn [ve_added] in Hf. apply in_map_iff in Hf. destruct Hf as ([l0 f0] & Ea & Hin).
  cbn [fst snd] in Ea. injection Ea as _ <-.
  rewrite (lr_added _ _ _ _ _ _ LRf) in Hin. unfold added_of in Hin. apply in_flat_map in Hin.
  destruct Hin as (p & Hp & Hin).
  destruct (table_meta (fst p) (size_of (oo_sizes o) (fst p)) (snd p)) as [fm|] eqn:TM; [|destruct Hin].
  destruct Hin as [Hin|[]]. injection Hin as _ <-. destruct (table_meta_inv _ _ _ _ TM) as (Enum & _).
  pose proof (lr_files _ _ _ _ _ _ LRf) as F. rewrite Forall_forall in F. destruct (F p Hp) as (_ & _ & Hlt & _).
  destruct (proj2 (cs_hist _ _ _ _ C) lv g Ho) as [Hle _]. lia.
Qed.

(** the images of a logical state with a monotone history *)
Definition HistImg (img : image) : Prop :=
  forall ms, recover_manifest img = inl ms -> HistMonoV (recorded_acc img) (ms_version ms).

Lemma jointH_histimg l d acked : JointH l d acked -> HistImg (pd_img d).
Proof.
  intros [J H] ms RM. destruct (joint_manifest l d acked J) as (_ & _ & _ & _ & _ & _ & _ & M6).
  rewrite (M6 ms RM), <- (cp_ver _ _ (j_cpl _ _ _ J)). exact H.
Qed.

(** S4 with the history: after a recovery the joint invariant holds with a monotone history *)
Theorem reopen_jointH o img bs d' ops :
  Crashed img bs -> LogicalImg img -> HistImg img -> open_okb o img = true ->
  p_open o img = Some (d', ops) ->
  JointH (lsm_of_pdb d') d' bs.
Proof.
  intros Hc HL HH Hok Hop. split; [apply (reopen_joint o img bs d' ops Hc HL Hok Hop)|].
  pose proof Hok as Hok'. unfold open_okb in Hok'. rewrite Hop in Hok'. apply andb_true_iff in Hok'.
  destruct Hok' as [Hsz Hnx]. apply N.ltb_lt in Hnx.
  assert (Hs : forall p, In p (oo_sizes o) -> snd p < two64).
  { intros p Hp. rewrite forallb_forall in Hsz. apply N.ltb_lt. apply Hsz. exact Hp. }
  rewrite p_open_unfold in Hop. cbv zeta in Hop.
  destruct Hc as [[Hn ->]|(dv & bsF & Q & C & ->)].
  - rewrite (proj1 Hn) in Hop.
    assert (C1 : CS (apply_fsops img init_ops) dv_init [] 0) by (rewrite (NoCur_init _ Hn); apply CS_init).
    rewrite (recover_durable _ _ (rec_dur _ _ _ _ (cs_rec _ _ _ _ C1))) in Hop.
    apply (ro_hist o img init_ops dv_init [] 0 d' ops C1 init_ops_nontable Hs Hop Hnx).
    intros lv g [].
  - destruct (rec_dur _ _ _ _ (cs_rec _ _ _ _ C)) as ((Hcur & _) & _).
    rewrite Hcur in Hop. cbn [apply_fsops fold_left] in Hop.
    pose proof (recover_manifest_durable _ _ (rec_dur _ _ _ _ (cs_rec _ _ _ _ C))) as RM.
    pose proof (HH _ RM) as H0. cbn [ms_of ms_version] in H0.
    rewrite (recorded_acc_durable _ _ (rec_dur _ _ _ _ (cs_rec _ _ _ _ C))) in H0.
    rewrite (recover_durable _ _ (rec_dur _ _ _ _ (cs_rec _ _ _ _ C))) in Hop.
    apply (ro_hist o img [] dv bsF Q d' ops C (Forall_nil _) Hs Hop Hnx H0).
Qed.

(** * The monotone history across crashes: the crash images have it too *)

(** [HistImg] only depends on CURRENT and the manifest it names *)
Lemma hist_view a i c m V :
  HistImg a -> i_current a = Some c -> parse_current c = Some m -> same_view V m a i -> HistImg i.
Proof.
  intros HH Hc Hp (S1 & S2 & _) ms RM.
  rewrite (recover_manifest_ext i a c m Hc Hp (eq_trans S1 Hc) S2) in RM.
  rewrite (recorded_acc_ext i a c m Hc Hp (eq_trans S1 Hc) S2). apply (HH ms RM).
Qed.

Lemma hist_view_torn a i c m f recs boff x t :
  HistImg a -> i_current a = Some c -> parse_current c = Some m -> i_current i = Some c ->
  lookupN m (i_manifests a) = Some f -> logfile f recs boff ->
  lookupN m (i_manifests i) = Some (f ++ firstn t (fst (log_append boff x))) ->
  (t < length (fst (log_append boff x)))%nat -> HistImg i.
Proof.
  intros HH Hc Hp Hci Hl Hf Hli Hlt ms RM.
  destruct (recover_manifest_torn_version i a c m f recs boff x t Hc Hp Hci Hl Hf Hli Hlt ms RM) as (ms' & RM' & Ev).
  rewrite (recorded_acc_torn i a c m f recs boff x t Hc Hp Hci Hl Hf Hli Hlt), <- Ev. apply (HH ms' RM').
Qed.

Lemma hist_nocur i : i_current i = None -> HistImg i.
Proof. intros H ms RM. unfold recover_manifest in RM. rewrite H in RM. discriminate. Qed.

Lemma hist_img_init : HistImg img_init.
Proof.
  intros ms RM. rewrite (recorded_acc_durable _ _ (rec_dur _ _ _ _ (cs_rec _ _ _ _ CS_init))). intros lv g [].
Qed.

Lemma hist_post_pivot l' d' acked' img2 G i :
  JointH l' d' acked' -> Forall (spares (version_numbers (l_ver l')) (pd_manifest d')) G ->
  pd_img d' = apply_fsops img2 G ->
  same_view (version_numbers (l_ver l')) (pd_manifest d') img2 i -> HistImg i.
Proof.
  intros JH HG Eimg Si.
  destruct (all_crash_closed (same_view (version_numbers (l_ver l')) (pd_manifest d') img2)
              (spares (version_numbers (l_ver l')) (pd_manifest d')) (spares_step _ _ img2) (spares_torn _ _)
              G img2 (same_view_refl _ _ _) HG) as [_ SG].
  rewrite <- Eimg in SG.
  destruct (joint_manifest l' d' acked' (proj1 JH)) as (f & recs & M1 & M2 & _).
  apply (hist_view (pd_img d') i _ _ _ (jointH_histimg l' d' acked' JH) M1 M2
                   (same_view_trans _ _ _ _ _ (same_view_sym _ _ _ _ SG) Si)).
Qed.

(** generic assembly: quiet operations, one operation that switches the view, removals *)
Lemma pivot_crash_gen (P : image -> Prop) a V m Pre pivot G V' m' :
  (forall i, same_view V m a i -> P i) -> Forall (qv V m) Pre ->
  (forall k, P (apply_fsops (apply_fsops a Pre) (torn_fsop pivot k))) ->
  Forall (spares V' m') G ->
  (forall i, same_view V' m' (apply_fsop (apply_fsops a Pre) pivot) i -> P i) ->
  all_crash P a (Pre ++ [pivot] ++ G).
Proof.
  intros L1 HPre Htorn HG L3.
  destruct (all_crash_closed (same_view V m a) (qv V m) (qv_step _ _ a) (qv_torn _ _) Pre a (same_view_refl _ _ _) HPre)
    as [CA SA].
  apply all_crash_app; [apply (all_crash_impl _ _ _ _ L1 CA)|].
  apply all_crash_app.
  - apply all_crash_cons; [apply L1; exact SA|exact Htorn|]. apply all_crash_nil. apply L3. apply same_view_refl.
  - cbn [apply_fsops fold_left].
    destruct (all_crash_closed (same_view V' m' (apply_fsop (apply_fsops a Pre) pivot)) (spares V' m')
                (spares_step _ _ _) (spares_torn _ _) G _ (same_view_refl _ _ _) HG) as [CG _].
    apply (all_crash_impl _ _ _ _ L3 CG).
Qed.

Lemma quiet_crash_gen (P : image -> Prop) a V m ops :
  (forall i, same_view V m a i -> P i) -> Forall (qv V m) ops -> all_crash P a ops.
Proof.
  intros L1 Hq.
  destruct (all_crash_closed (same_view V m a) (qv V m) (qv_step _ _ a) (qv_torn _ _) ops a (same_view_refl _ _ _) Hq)
    as [CA _].
  apply (all_crash_impl _ _ _ _ L1 CA).
Qed.

(** a flush or an install between two joint states with monotone histories *)
Lemma shape_crash_hist l d acked l' d' acked' ops :
  JointH l d acked -> JointH l' d' acked' ->
  step_shape d d' (version_numbers (l_ver l)) (version_numbers (l_ver l')) ops ->
  all_crash HistImg (pd_img d) ops.
Proof.
  intros JH JH' (x & A & G & -> & HA & HG & Himg & Hman).
  set (V := version_numbers (l_ver l)) in *. set (V' := version_numbers (l_ver l')) in *.
  set (m := pd_manifest d) in *.
  destruct (joint_manifest l d acked (proj1 JH)) as (f & recs & M1 & M2 & M3 & M4 & M5 & M6).
  pose proof (jointH_histimg l d acked JH) as H0.
  assert (HA' : Forall (qv V m) A) by (eapply Forall_impl; [|exact HA]; intros o0; apply quiet_qv).
  destruct (all_crash_closed (same_view V m (pd_img d)) (qv V m) (qv_step _ _ _) (qv_torn _ _) A _ (same_view_refl _ _ _) HA')
    as [_ SA].
  rewrite <- Hman in HG.
  apply (pivot_crash_gen HistImg (pd_img d) V m A _ G V' (pd_manifest d')).
  - intros i Si. apply (hist_view (pd_img d) i _ m V H0 M1 M2 Si).
  - exact HA'.
  - intros k. cbn [torn_fsop apply_fsops fold_left].
    destruct (Nat.lt_ge_cases k (length (fst (log_append (pd_manifest_boff d) x)))) as [Lk|Lk].
    + destruct SA as (S1 & S2 & S3).
      refine (hist_view_torn (pd_img d) _ _ m f recs (pd_manifest_boff d) x k H0 M1 M2 _ M3 M4 _ Lk).
      * cbn [apply_fsop i_current]. rewrite S1. exact M1.
      * cbn [apply_fsop i_manifests]. rewrite lookupN_app_assoc, N.eqb_refl. fold m. rewrite S2. unfold m. rewrite M3. reflexivity.
    + rewrite firstn_all2 by exact Lk. eapply (hist_post_pivot l' d' acked' _ G _ JH' HG); [|apply same_view_refl].
      rewrite Himg, !apply_fsops_app. reflexivity.
  - exact HG.
  - intros i Si. eapply (hist_post_pivot l' d' acked' _ G i JH' HG); [|exact Si].
    rewrite Himg, !apply_fsops_app. reflexivity.
Qed.

Lemma op_crash_hist l d acked l' d' acked' o :
  JointH l d acked -> JointH l' d' acked' -> fst (p_step (started d) o) = started d' ->
  (forall oo, o <> QOpen oo) ->
  all_crash HistImg (pd_img d) (snd (p_step (started d) o)).
Proof.
  intros JH JH' Es Hno. pose proof (proj1 JH) as J. pose proof (proj1 JH') as J'.
  destruct (joint_manifest l d acked J) as (f & recs & M1 & M2 & M3 & M4 & M5 & M6).
  set (V := version_numbers (l_ver l)).
  assert (Lq : forall ops, Forall (quiet V) ops -> all_crash HistImg (pd_img d) ops).
  { intros ops Hq. apply (quiet_crash_gen HistImg (pd_img d) V (pd_manifest d)).
    - intros i Si. apply (hist_view (pd_img d) i _ _ V (jointH_histimg l d acked JH) M1 M2 Si).
    - eapply Forall_impl; [|exact Hq]. intros o0. apply quiet_qv. }
  unfold p_step in *. cbn [started pr_failed pr_db] in *.
  destruct o as [oo|b| |lv sz q|del add ptrs q].
  - exfalso. exact (Hno oo eq_refl).
  - unfold p_write. cbn [snd]. apply Lq. repeat constructor.
  - unfold p_rotate. destruct (pd_imm d); cbn [snd]; apply Lq; repeat constructor.
  - destruct (p_flush d lv sz q) as [[d1 ops]|] eqn:E; [|cbn [fst] in Es; discriminate].
    cbn [fst snd] in *.
    assert (d1 = d') as -> by (unfold started in *; congruence).
    destruct (pd_imm d) as [es|] eqn:Ei.
    + apply (shape_crash_hist l d acked l' d' acked' ops JH JH').
      rewrite <- (cp_ver _ _ (j_cpl _ _ _ J')). eexists.
      apply (flush_shape d lv sz q es d' ops V Ei M5); [|exact E].
      intros Hin. apply vn_in in Hin. destruct Hin as (i & g & Hg & En).
      pose proof (wf_nums l (WF_of_b _ (j_wf _ _ _ J)) i g Hg). rewrite (cp_next _ _ (j_cpl _ _ _ J)) in En. lia.
    + unfold p_flush in E. rewrite Ei in E. injection E as _ <-. apply Lq. constructor.
  - destruct (p_install d del add ptrs q) as [[d1 ops]|] eqn:E; [|cbn [fst] in Es; discriminate].
    cbn [fst snd] in *.
    assert (d1 = d') as -> by (unfold started in *; congruence).
    apply (shape_crash_hist l d acked l' d' acked' ops JH JH').
    rewrite <- (cp_ver _ _ (j_cpl _ _ _ J')). eexists.
    apply (install_shape d del add ptrs q d' ops V M5); [|exact E].
    intros n Hn. apply (version_tables_present l d n (j_cpl _ _ _ J) Hn).
Qed.

(** the crash images of a recovery have a monotone history *)
Theorem rec_crash_hist o img0 ops0 img1 dv bsF Q d' ops l' acked' :
  CS img1 dv bsF Q -> img1 = apply_fsops img0 ops0 ->
  open_rest o img0 ops0 img1 (rc_of img1 dv) = Some (d', ops) ->
  HistImg img1 -> JointH l' d' acked' ->
  exists opsR, ops = ops0 ++ opsR /\ all_crash HistImg img1 opsR.
Proof.
  intros C E1 Hop HH1 JH'. pose proof (proj1 JH') as J'.
  destruct (open_rest_ops o img0 ops0 img1 _ d' ops E1 Hop) as (r & reused & ops2 & G & RL & Eops & HG & Hm' & Himg & Hcase).
  cbv zeta in *. cbn [rc_of rc_manifest rc_wals ms_of ms_version ms_next ms_number ms_intact ms_size] in *.
  set (W := match reused with Some _ => [] | None => [FsCreate (FWal (rs_next r + 1))] end) in *.
  set (file := file_of (dv_man dv) (i_manifests img1)) in *.
  set (m := dv_man dv) in *. set (V := version_numbers (dv_ver dv)).
  eexists. split; [exact Eops|].
  pose proof (rec_dur _ _ _ _ (cs_rec _ _ _ _ C)) as D. destruct D as ((Hc & Hlt) & _).
  pose proof (parse_current_contents _ Hlt) as Hp.
  destruct (replay_LR o img1 dv bsF Q r reused C RL) as (lo & LRf).
  assert (HA : Forall (qv V m) (rs_ops r ++ W)).
  { apply Forall_app. split.
    - apply (LR_ops_qv _ _ _ _ _ _ V m LRf). intros n Hn. pose proof (oc_ver_bound img1 dv bsF Q C n Hn). lia.
    - unfold W. destruct reused; repeat constructor. }
  assert (L1 : forall i, same_view V m img1 i -> HistImg i).
  { intros i Si. apply (hist_view img1 i _ m V HH1 Hc Hp Si). }
  rewrite (cp_ver _ _ (j_cpl _ _ _ J')) in HG.
  destruct Hcase as [(-> & Hrm & Hver)|[(Hrm & x & ->)|(Hrm & a & b & ->)]].
  - rewrite Hrm in Hm'. cbn [app].
    apply (quiet_crash_gen HistImg img1 V m _ L1). apply Forall_app. split; [exact HA|].
    eapply Forall_impl; [|exact HG]. intros o0 Ho. rewrite Hm', <- (cp_ver _ _ (j_cpl _ _ _ J')), Hver in Ho.
    apply spares_qv. exact Ho.
  - rewrite Hrm in *.
    destruct (cs_manfile _ _ _ _ C) as (f0 & Hl0 & i0 & Hr0 & Hi0).
    assert (Ef : file = f0).
    { unfold file, file_of. assert (Hl' : @lookupN (list N) m (i_manifests img1) = Some f0) by exact Hl0.
      rewrite Hl'. reflexivity. }
    assert (Hint : i0 = true).
    { apply andb_true_iff in Hrm. destruct Hrm as [Hrm _]. apply andb_true_iff in Hrm. destruct Hrm as [Hrm _].
      rewrite Ef, Hr0 in Hrm. exact Hrm. }
    destruct (Hi0 Hint) as (boff0 & Hlf0). pose proof (logfile_reopen _ _ _ Hlf0) as Hlf. rewrite <- Ef in Hlf.
    destruct (all_crash_closed (same_view V m img1) (qv V m) (qv_step _ _ img1) (qv_torn _ _)
                (rs_ops r ++ W) img1 (same_view_refl _ _ _) HA) as [_ SA].
    apply (pivot_crash_gen HistImg img1 V m (rs_ops r ++ W) _ G (version_numbers (l_ver l')) (pd_manifest d') L1 HA); [|exact HG|].
    + intros k. cbn [torn_fsop apply_fsops fold_left].
      destruct (Nat.lt_ge_cases k (length (fst (log_append (blen file mod BLOCK_SIZE_BYTES) x)))) as [Lk|Lk].
      * destruct SA as (S1 & S2 & S3).
        refine (hist_view_torn img1 _ (current_contents m) m file (map vchange_encode (dv_changes dv))
                  (blen file mod BLOCK_SIZE_BYTES) x k HH1 Hc Hp _ _ Hlf _ Lk).
        -- cbn [apply_fsop i_current]. rewrite S1. exact Hc.
        -- rewrite Ef. exact Hl0.
        -- cbn [apply_fsop i_manifests]. rewrite lookupN_app_assoc, N.eqb_refl. fold m. rewrite S2. unfold m. rewrite Hl0, Ef. reflexivity.
      * rewrite firstn_all2 by exact Lk.
        eapply (hist_post_pivot l' d' acked' _ G _ JH' HG); [|apply same_view_refl].
        rewrite Himg, !apply_fsops_app. reflexivity.
    + intros i Si. eapply (hist_post_pivot l' d' acked' _ G i JH' HG); [|exact Si].
      rewrite Himg, !apply_fsops_app. reflexivity.
  - rewrite Hrm in *. destruct (cs_next _ _ _ _ C) as [Hmn _].
    assert (Hne : dv_next dv + 1 <> m) by (unfold m; lia).
    set (m' := dv_next dv + 1) in *.
    set (Pre := (rs_ops r ++ W) ++ [FsCreate (FManifest m'); FsAppend (FManifest m') a; FsAppend (FManifest m') b;
                                    FsCreate (FTemp m'); FsAppend (FTemp m') (current_contents m')]).
    assert (Eo : (rs_ops r ++ W) ++ [FsCreate (FManifest m'); FsAppend (FManifest m') a; FsAppend (FManifest m') b;
                                     FsCreate (FTemp m'); FsAppend (FTemp m') (current_contents m'); FsRename m'] ++ G
                 = Pre ++ [FsRename m'] ++ G).
    { unfold Pre. rewrite <- !List.app_assoc. reflexivity. }
    rewrite Eo in *.
    assert (HPre : Forall (qv V m) Pre).
    { unfold Pre. apply Forall_app. split; [exact HA|]. repeat constructor; exact Hne. }
    apply (pivot_crash_gen HistImg img1 V m Pre _ G (version_numbers (l_ver l')) (pd_manifest d') L1 HPre); [|exact HG|].
    + intros k. cbn [torn_fsop].
      eapply (hist_post_pivot l' d' acked' _ G _ JH' HG); [|apply same_view_refl].
      rewrite Himg, !apply_fsops_app. reflexivity.
    + intros i Si. eapply (hist_post_pivot l' d' acked' _ G i JH' HG); [|exact Si].
      rewrite Himg, !apply_fsops_app. reflexivity.
Qed.

Lemma init_crash_hist img : NoCur img -> all_crash HistImg img init_ops.
Proof.
  intros Hn. pose proof (NoCur_init img Hn) as Einit.
  set (Ok := fun o : fsop => match o with
                             | FsCreate (FManifest _) | FsAppend (FManifest _) _
                             | FsCreate (FTemp _) | FsAppend (FTemp _) _ => True
                             | _ => False end).
  assert (Hc : forall i o, i_current i = None -> Ok o -> i_current (apply_fsop i o) = None).
  { intros i o Hi Ho. destruct o as [f|f x|n es|n|f]; try destruct f; cbn [Ok] in Ho; try contradiction; exact Hi. }
  assert (Ht : forall o k, Ok o -> Forall Ok (torn_fsop o k)).
  { intros o k Ho. destruct o as [f|f x|n es|n|f]; try destruct f; cbn [Ok] in Ho; try contradiction;
      cbn [torn_fsop]; repeat constructor. }
  unfold init_ops, set_current_ops in *. cbn [app] in *.
  change [FsCreate (FManifest 1); FsAppend (FManifest 1) (fst (log_append 0 (vchange_encode new_db_change)));
          FsCreate (FTemp 1); FsAppend (FTemp 1) (current_contents 1); FsRename 1]
    with ([FsCreate (FManifest 1); FsAppend (FManifest 1) (fst (log_append 0 (vchange_encode new_db_change)));
           FsCreate (FTemp 1); FsAppend (FTemp 1) (current_contents 1)] ++ [FsRename 1]) in *.
  destruct (all_crash_closed (fun i => i_current i = None) Ok Hc Ht
              [FsCreate (FManifest 1); FsAppend (FManifest 1) (fst (log_append 0 (vchange_encode new_db_change)));
               FsCreate (FTemp 1); FsAppend (FTemp 1) (current_contents 1)] img (proj1 Hn))
    as [CA SA]; [repeat constructor|].
  rewrite apply_fsops_app in Einit.
  apply all_crash_app; [apply (all_crash_impl _ _ _ _ hist_nocur CA)|].
  apply all_crash_cons.
  - apply hist_nocur. exact SA.
  - intros k. cbn [torn_fsop]. rewrite Einit. exact hist_img_init.
  - apply all_crash_nil. pose proof hist_img_init as X. rewrite <- Einit in X. exact X.
Qed.

Theorem open_crash_hist o img bs d' ops :
  Crashed img bs -> LogicalImg img -> HistImg img -> open_okb o img = true ->
  p_open o img = Some (d', ops) ->
  all_crash HistImg img ops.
Proof.
  intros Hc HL HH Hok Hop. pose proof (reopen_jointH o img bs d' ops Hc HL HH Hok Hop) as JH'.
  rewrite p_open_unfold in Hop. cbv zeta in Hop.
  destruct Hc as [[Hn ->]|(dv & bsF & Q & C & ->)].
  - rewrite (proj1 Hn) in Hop.
    assert (C1 : CS (apply_fsops img init_ops) dv_init [] 0) by (rewrite (NoCur_init _ Hn); apply CS_init).
    rewrite (recover_durable _ _ (rec_dur _ _ _ _ (cs_rec _ _ _ _ C1))) in Hop.
    assert (HH1 : HistImg (apply_fsops img init_ops)) by (rewrite (NoCur_init _ Hn); exact hist_img_init).
    destruct (rec_crash_hist o img init_ops _ dv_init [] 0 d' ops _ _ C1 eq_refl Hop HH1 JH') as (opsR & -> & Hcr).
    apply all_crash_app; [apply init_crash_hist; exact Hn|exact Hcr].
  - destruct (rec_dur _ _ _ _ (cs_rec _ _ _ _ C)) as ((Hcur & _) & _).
    rewrite Hcur in Hop. cbn [apply_fsops fold_left] in Hop.
    rewrite (recover_durable _ _ (rec_dur _ _ _ _ (cs_rec _ _ _ _ C))) in Hop.
    destruct (rec_crash_hist o img [] img dv bsF Q d' ops _ _ C eq_refl Hop HH JH') as (opsR & -> & Hcr).
    exact Hcr.
Qed.

Section HISTRUN.
Variable mfs : N.
Notation lstep := (lsm_step true true mfs).

Theorem joint_run_h : forall js l d acked,
  JointH l d acked -> jrun_ok0 mfs l (started d) js ->
  let ops := joint_pops mfs l js in
  run_okP (started d) ops /\
  exists d', fst (p_run (started d) ops) = started d' /\
             JointH (jlsm mfs l js) d' (acked ++ acked_batches (nops acked) ops).
Proof.
  intros js l d acked JH Hok0. cbv zeta. destruct (jrun_ok0_ok mfs js l d acked JH Hok0) as [Hok HH].
  destruct (joint_run mfs js l d acked (proj1 JH) Hok) as (O & d' & E' & J'). cbv zeta in *.
  split; [exact O|]. exists d'. split; [exact E'|]. split; [exact J'|apply (HH d' E')].
Qed.

Lemma jstep_crash_hist l d acked st ptrs :
  JointH l d acked -> step_admissible l st -> step_num_ok0 mfs l d st ptrs ->
  all_crash HistImg (pd_img d) (snd (p_run (started d) (pops_of_step mfs l st ptrs))).
Proof.
  intros JH A Nk0. pose proof (num_ok0_ok mfs l d acked st ptrs JH A Nk0) as Nk.
  destruct (joint_step_h mfs l d acked st ptrs JH A Nk0) as (_ & d' & E' & JH'). cbv zeta in *.
  destruct (step_all mfs l d acked st ptrs (proj1 JH) A Nk) as [(E & _)|(o & d1 & E & Hok & Es & _)].
  - rewrite E. cbn [p_run snd]. apply all_crash_nil. apply (jointH_histimg l d acked JH).
  - rewrite E in *. rewrite p_run_one in *. cbn [fst snd] in *.
    apply (op_crash_hist l d acked _ d' _ o JH JH' E').
    intros oo. apply (pops_no_open mfs l st ptrs o oo). rewrite E. left. reflexivity.
Qed.

Theorem jrun_crash_hist : forall js l d acked,
  JointH l d acked -> jrun_ok0 mfs l (started d) js ->
  all_crash HistImg (pd_img d) (snd (p_run (started d) (joint_pops mfs l js))).
Proof.
  induction js as [|[st ptrs] r IH]; intros l d acked JH Hok.
  - cbn [joint_pops p_run snd]. apply all_crash_nil. apply (jointH_histimg l d acked JH).
  - cbn [jrun_ok0] in Hok. destruct Hok as (A & Nk & Hr). specialize (Nk d eq_refl).
    destruct (joint_step_h mfs l d acked st ptrs JH A Nk) as (O1 & d1 & E1 & JH1). cbv zeta in *.
    cbn [joint_pops]. rewrite E1 in Hr.
    destruct (p_run_app (pops_of_step mfs l st ptrs) (started d) (joint_pops mfs (lstep l st) r)) as [_ F2].
    rewrite F2, E1. apply all_crash_app; [apply (jstep_crash_hist l d acked st ptrs JH A Nk)|].
    assert (R : RInv (started d) acked) by (split; [reflexivity|split; [reflexivity|exact (j_inv _ _ _ (proj1 JH))]]).
    assert (Hnf : pr_failed (fst (p_run (started d) (pops_of_step mfs l st ptrs))) = false) by (rewrite E1; reflexivity).
    destruct (run_safe _ _ _ R O1 Hnf) as [Himg _]. rewrite E1 in Himg. cbn [started pr_img] in Himg.
    rewrite <- Himg. apply (IH _ _ _ JH1 Hr).
Qed.

(** one session, with numeric side conditions only: what it leaves is again a crashed directory
    that is the image of a logical state with a monotone history *)
Theorem joint_session_safe_h img bs o js d0 ops0 :
  Crashed img bs -> LogicalImg img -> HistImg img -> open_okb o img = true -> p_open o img = Some (d0, ops0) ->
  jrun_ok0 mfs (lsm_of_pdb d0) (started d0) js ->
  let ops := QOpen o :: joint_pops mfs (lsm_of_pdb d0) js in
  let s := session_start img in
  let eff := snd (p_run s ops) in
  forall n torn, (n <= length eff)%nat ->
    let img' := crash_image img eff n torn in
    let bs' := bs ++ firstn (crash_k s ops n torn) (acked_batches (nops bs) ops) in
    Crashed img' bs' /\ LogicalImg img' /\ HistImg img'.
Proof.
  intros Hc HL HH Hoo Hop Hok0. cbv zeta.
  pose proof (reopen_jointH o img bs d0 ops0 Hc HL HH Hoo Hop) as JH0.
  destruct (jrun_ok0_ok mfs js _ d0 bs JH0 Hok0) as [Hok _].
  assert (AH : all_crash HistImg img (snd (p_run (session_start img) (QOpen o :: joint_pops mfs (lsm_of_pdb d0) js)))).
  { destruct (open_step_c o img bs d0 ops0 Hc Hoo Hop) as (Himg0 & _ & _).
    assert (Es : p_step (session_start img) (QOpen o) = (started d0, ops0)).
    { unfold p_step, session_start. cbn [pr_failed pr_img]. rewrite Hop. reflexivity. }
    destruct (p_run_cons (session_start img) (QOpen o) (joint_pops mfs (lsm_of_pdb d0) js)) as [_ F2].
    rewrite Es in F2. cbn [fst snd] in F2. rewrite F2.
    apply all_crash_app; [apply (open_crash_hist o img bs d0 ops0 Hc HL HH Hoo Hop)|].
    rewrite <- Himg0. apply (jrun_crash_hist js _ d0 bs JH0 Hok0). }
  intros n torn Hn.
  destruct (joint_session_safe mfs img bs o js d0 ops0 Hc HL Hoo Hop Hok n torn Hn) as [S1 S2].
  split; [exact S1|]. split; [exact S2|apply (AH n torn Hn)].
Qed.

(** the directories reachable by any number of sessions from the empty directory, numeric side
    conditions only *)
Inductive JReachH : image -> list batch -> Prop :=
| jrh_empty : JReachH empty_image []
| jrh_session : forall img bs o js d0 ops0 n torn,
    JReachH img bs -> open_okb o img = true -> p_open o img = Some (d0, ops0) ->
    jrun_ok0 mfs (lsm_of_pdb d0) (started d0) js ->
    (n <= length (snd (p_run (session_start img) (QOpen o :: joint_pops mfs (lsm_of_pdb d0) js))))%nat ->
    JReachH (crash_image img (snd (p_run (session_start img) (QOpen o :: joint_pops mfs (lsm_of_pdb d0) js))) n torn)
            (bs ++ firstn (crash_k (session_start img) (QOpen o :: joint_pops mfs (lsm_of_pdb d0) js) n torn)
                          (acked_batches (nops bs) (QOpen o :: joint_pops mfs (lsm_of_pdb d0) js))).

Theorem jreach_h_safe img bs : JReachH img bs -> Crashed img bs /\ LogicalImg img /\ HistImg img.
Proof.
  induction 1 as [|img bs o js d0 ops0 n torn _ (IH1 & IH2 & IH3) Hoo Hop Hok Hn].
  - split; [apply Crashed_empty|]. split; [apply logical_nocur; reflexivity|apply hist_nocur; reflexivity].
  - apply (joint_session_safe_h img bs o js d0 ops0 IH1 IH2 IH3 Hoo Hop Hok n torn Hn).
Qed.

(** end to end, numeric side conditions only: after any crash of any session a get on the reopened
    database, through the real lookup path of the rebuilt logical state, returns the latest
    acknowledged write; the joint invariant (with the monotone history) holds again *)
Theorem jreach_h_get img bs o d' ops :
  JReachH img bs -> open_okb o img = true -> p_open o img = Some (d', ops) ->
  JointH (lsm_of_pdb d') d' bs /\ forall k, db_get (lsm_of_pdb d') k = map_get k (replay [] bs).
Proof.
  intros HR Hoo Hop. destruct (jreach_h_safe img bs HR) as (Hc & HL & HH).
  pose proof (reopen_jointH o img bs d' ops Hc HL HH Hoo Hop) as JH. split; [exact JH|apply (joint_get _ _ _ (proj1 JH))].
Qed.
End HISTRUN.

(** * The side conditions of a joint run are decidable on concrete runs *)
Definition install_num_ok_b (d : pdb) (o : pop) : bool :=
  match o with
  | QInstall del add ptrs q => CodecProofs.vchange_ok (install_change' d del add ptrs q)
  | _ => true
  end.

Definition install_hist_ok_b (d : pdb) (o : pop) : bool :=
  match o with
  | QInstall del add ptrs q =>
      nodup_ln (lvl_nums (ma_added (recorded_acc (pd_img d)) ++ news_of (install_change' d del add ptrs q)))
  | _ => true
  end.

Definition step_num_ok_b (mfs : N) (l : lsm) (d : pdb) (st : step) (ptrs : list (N * ikey)) : bool :=
  match st with
  | SWrite b => bokb (l_seq l + 1, b) && (l_seq l + N.of_nat (length b) <? two64)
  | SRotate => l_next l + 1 <? two64
  | SFlush => (l_next l + 1 <? two64) && match l_imm l with Some es => ents_size es <? two64 | None => true end
  | SCompact level seed cuts => forallb (install_num_ok_b d) (compact_pops mfs l level seed cuts ptrs)
  | STrivialMove level seed => forallb (install_num_ok_b d) (move_pops mfs l level seed ptrs)
                               && forallb (install_hist_ok_b d) (move_pops mfs l level seed ptrs)
  | SSnapshot | SRelease _ => true
  end.

Fixpoint jrun_ok_b (mfs : N) (l : lsm) (s : prun) (js : list jstep) : bool :=
  match js with
  | [] => true
  | (st, ptrs) :: r =>
      step_admissible_b l st
      && match pr_db s with Some d => step_num_ok_b mfs l d st ptrs | None => true end
      && jrun_ok_b mfs (lsm_step true true mfs l st) (fst (p_run s (pops_of_step mfs l st ptrs))) r
  end.

Lemma step_num_ok_b_sound mfs l d st ptrs : step_num_ok_b mfs l d st ptrs = true -> step_num_ok mfs l d st ptrs.
Proof.
  destruct st; cbn [step_num_ok_b step_num_ok]; intros H; try exact I.
  - apply andb_true_iff in H. destruct H as [H1 H2]. split; [exact H1|apply N.ltb_lt; exact H2].
  - apply N.ltb_lt. exact H.
  - apply andb_true_iff in H. destruct H as [H1 H2]. split; [apply N.ltb_lt; exact H1|].
    destruct (l_imm l); [apply N.ltb_lt; exact H2|exact I].
  - apply Forall_forall. intros o Ho. rewrite forallb_forall in H. specialize (H o Ho). destruct o; try exact I. exact H.
  - apply andb_true_iff in H. destruct H as [H1 H2]. split; apply Forall_forall; intros o Ho.
    + rewrite forallb_forall in H1. specialize (H1 o Ho). destruct o; try exact I. exact H1.
    + rewrite forallb_forall in H2. specialize (H2 o Ho). destruct o; try exact I.
      cbn [install_hist_ok install_hist_ok_b] in *. apply nodup_ln_NoDup. exact H2.
Qed.

Theorem jrun_ok_b_sound mfs : forall js l s, jrun_ok_b mfs l s js = true -> jrun_ok mfs l s js.
Proof.
  induction js as [|[st ptrs] r IH]; intros l s H; [exact I|].
  cbn [jrun_ok_b] in H. apply andb_true_iff in H. destruct H as [H H3]. apply andb_true_iff in H. destruct H as [H1 H2].
  cbn [jrun_ok]. split; [apply step_admissible_b_sound; exact H1|]. split; [|apply IH; exact H3].
  intros d Hd. rewrite Hd in H2. apply step_num_ok_b_sound. exact H2.
Qed.

Definition step_num_ok0_b (mfs : N) (l : lsm) (d : pdb) (st : step) (ptrs : list (N * ikey)) : bool :=
  match st with
  | STrivialMove level seed => forallb (install_num_ok_b d) (move_pops mfs l level seed ptrs)
  | _ => step_num_ok_b mfs l d st ptrs
  end.

Fixpoint jrun_ok0_b (mfs : N) (l : lsm) (s : prun) (js : list jstep) : bool :=
  match js with
  | [] => true
  | (st, ptrs) :: r =>
      step_admissible_b l st
      && match pr_db s with Some d => step_num_ok0_b mfs l d st ptrs | None => true end
      && jrun_ok0_b mfs (lsm_step true true mfs l st) (fst (p_run s (pops_of_step mfs l st ptrs))) r
  end.

Theorem jrun_ok0_b_sound mfs : forall js l s, jrun_ok0_b mfs l s js = true -> jrun_ok0 mfs l s js.
Proof.
  induction js as [|[st ptrs] r IH]; intros l s H; [exact I|].
  cbn [jrun_ok0_b] in H. apply andb_true_iff in H. destruct H as [H H3]. apply andb_true_iff in H. destruct H as [H1 H2].
  cbn [jrun_ok0]. split; [apply step_admissible_b_sound; exact H1|]. split; [|apply IH; exact H3].
  intros d Hd. rewrite Hd in H2. destruct st; try (apply step_num_ok_b_sound; exact H2).
  cbn [step_num_ok0 step_num_ok0_b] in *. apply Forall_forall. intros o Ho. rewrite forallb_forall in H2.
  specialize (H2 o Ho). destruct o; try exact I. exact H2.
Qed.

(** * S5: an evaluated run. Create the database, write, rotate, flush (level 2), write, rotate,
    flush (level 1), write, rotate, flush (level 0), write, compact level 0 into level 1, write,
    move the level-2 table to level 3 (a trivial move), write.
    At every crash point (every number of file operations, the last one complete or torn at
    several lengths) the directory is reopened, with and without log reuse: the rebuilt logical
    state is well formed and [db_get] on it returns what the acknowledged prefix of the batches
    replays to. *)
Definition ex_mfs : N := 1000000.
Definition ex_o : open_oracle := mkOO true 1000000 [] [].
Definition ex_o2 : open_oracle := mkOO false 1000000 [6] [].
Definition ka : bytes := [97].
Definition kb : bytes := [98].
Definition kc : bytes := [99].
Definition kd : bytes := [100].
Definition ex_js : list jstep :=
  [ (SWrite [WPut ka [1]; WPut kb [2]], []); (SRotate, []); (SFlush, []);
    (SWrite [WDel ka; WPut kc [3]], []); (SRotate, []); (SFlush, []);
    (SWrite [WPut kb [4]; WPut kd [5]], []); (SRotate, []); (SFlush, []);
    (SWrite [WPut ka [6]], []);
    (SCompact 0 [9] [], [(0, mkIKey kd 7 OP_PUT)]);
    (SWrite [WDel kb], []);
    (STrivialMove 2 [5], []);
    (SWrite [WPut kc [9]], []) ].
Definition ex_ops : list pop := joint_ops ex_mfs ex_o ex_js.
Definition ex_eff : list fsop := snd (p_run prun_init ex_ops).
Definition ex_acked : list batch := acked_batches 0 ex_ops.
Definition ex_keys : list bytes := [ka; kb; kc; kd; [101]].
Definition obytes_eqb (a b : option bytes) : bool :=
  match a, b with Some x, Some y => bytes_eqb x y | None, None => true | _, _ => false end.
Definition ex_check (o2 : open_oracle) (n : nat) (torn : option nat) : bool :=
  let img := crash_image empty_image ex_eff n torn in
  let k := crash_k prun_init ex_ops n torn in
  match lsm_of_open o2 img with
  | None => false
  | Some l =>
      lsm_wf_b l
      && forallb (fun key => obytes_eqb (db_get l key) (map_get key (replay [] (firstn k ex_acked)))) ex_keys
  end.

Lemma ex_run_ok : open_okb ex_o empty_image = true /\ jrun_ok ex_mfs fresh_lsm (opened ex_o) ex_js.
Proof. split; [vm_compute; reflexivity|]. apply jrun_ok_b_sound. vm_compute. reflexivity. Qed.

Lemma ex_run_ok0 : jrun_ok0 ex_mfs fresh_lsm (opened ex_o) ex_js.
Proof. apply jrun_ok0_b_sound. vm_compute. reflexivity. Qed.

Lemma ex_run_shape :
  map (map fm_num) (l_ver (jlsm ex_mfs fresh_lsm (firstn 10 ex_js))) = [[9]; [7]; [5]; []; []; []; []]
  /\ map (map fm_num) (l_ver (jlsm ex_mfs fresh_lsm (firstn 12 ex_js))) = [[]; [10]; [5]; []; []; []; []]
  /\ map (map fm_num) (l_ver (jlsm ex_mfs fresh_lsm ex_js)) = [[]; [10]; []; [5]; []; []; []]
  /\ length ex_eff = 33%nat /\ length ex_acked = 6%nat
  /\ map (fun k => db_get (jlsm ex_mfs fresh_lsm ex_js) k) ex_keys = [Some [6]; None; Some [9]; Some [5]; None].
Proof. vm_compute. repeat split; reflexivity. Qed.

Lemma ex_every_crash_point :
  forallb (fun o2 =>
    forallb (fun n => forallb (ex_check o2 n) (None :: map Some (seq 0 40)))
            (seq 0 (S (length ex_eff))))
    [ex_o; ex_o2] = true.
Proof. vm_compute. reflexivity. Qed.

(** the size of a flushed table is part of the version: a flush that records another size than the
    one the logical step computes leaves versions that differ (in the sizes only) *)
Lemma ex_flush_size_refuted :
  let js := firstn 2 ex_js in
  let l := jlsm ex_mfs fresh_lsm js in
  match pr_db (fst (p_run prun_init (joint_ops ex_mfs ex_o js))), flush_pops ex_mfs l with
  | Some d, [QFlush lv sz q] =>
      match p_flush d lv (sz + 1) q with
      | Some (d', _) =>
          map (map fm_size) (pd_ver d') <> map (map fm_size) (l_ver (lsm_step true true ex_mfs l SFlush))
          /\ map (map fm_num) (pd_ver d') = map (map fm_num) (l_ver (lsm_step true true ex_mfs l SFlush))
      | None => False
      end
  | _, _ => False
  end.
Proof. vm_compute. split; [discriminate|reflexivity]. Qed.
