(** The durable state of the database directory: a relational description of what
    [recover_image] computes ([Durable], [rc_of], theorem [recover_durable]) and the effect of
    every file operation on it (frame lemmas). No axioms. *)
From Coq Require Import Lia ZArith ZifyN ZifyBool ZifyNat Arith List NArith Bool Permutation Sorted.
From RainVerif Require Import Params.
From RainVerif.model Require Import Bytes Key Block Crc Log Table TableSpec Version Lsm DbSpec Codec WalModel Gc Recover Proto.
From RainVerif.proofs Require Import LogXProofs ImgProofs ManifestSem ContentsProofs.
From RainVerif.proofs Require CodecProofs WalProofs GetProofs.
Import ListNotations.
Open Scope N_scope.
Arguments N.add : simpl never.
Arguments N.sub : simpl never.
Arguments N.mul : simpl never.
Arguments N.div : simpl never.
Arguments N.modulo : simpl never.
Arguments N.eqb : simpl never.
Arguments N.ltb : simpl never.
Arguments N.leb : simpl never.
Arguments N.min : simpl never.
Arguments N.max : simpl never.
Arguments N.pow : simpl never.
Arguments N.of_nat : simpl never.
Arguments N.to_nat : simpl never.

Definition two64 : N := 18446744073709551616.

Definition vok (c : vchange) : Prop := CodecProofs.vchange_ok c = true.
Definition bok (b : batch) : Prop :=
  batch_ok b = true /\ forall e, In e (batch_entries b) -> CodecProofs.key_ok (fst e) = true.

Definition man_acc (cs : list vchange) : macc := fold_left accumulate cs macc_empty.

Lemma man_acc_snoc cs c : man_acc (cs ++ [c]) = accumulate (man_acc cs) c.
Proof. unfold man_acc. rewrite fold_left_app. reflexivity. Qed.

Lemma decode_changes_map cs : Forall vok cs -> decode_changes (map vchange_encode cs) = Some cs.
Proof.
  induction 1 as [|c cs Hc Hcs IH]; [reflexivity|].
  cbn [map decode_changes]. rewrite (CodecProofs.vchange_decode_encode c Hc), IH. reflexivity.
Qed.

Lemma decode_all_map bs : Forall bok bs -> decode_all (map batch_bytes bs) = Some bs.
Proof.
  intros H. apply WalProofs.decode_all_map. eapply Forall_impl; [|exact H]. intros b Hb. apply Hb.
Qed.

(** * The durable view *)
Record dview := mkDV {
  dv_man : N;                      (* the manifest CURRENT names *)
  dv_changes : list vchange;       (* its complete records *)
  dv_ver : version;                (* what they accumulate to *)
  dv_wal : N;
  dv_next : N;
  dv_seq : N;
  dv_logs : list (N * list batch)  (* the logs numbered >= dv_wal, ascending, with their batches *)
}.

Definition DCur (cur : option bytes) (man : N) : Prop :=
  cur = Some (current_contents man) /\ man < two64.

Definition DMan (ms : list (N * bytes)) (man : N) (cs : list vchange) : Prop :=
  exists file i, lookupN man ms = Some file /\
                 log_read_all_x file = mkRX (map vchange_encode cs) false 0 i.

Definition DSem (cs : list vchange) (ver : version) (wal next seq : N) : Prop :=
  Forall vok cs /\
  ma_next (man_acc cs) = Some next /\ ma_wal (man_acc cs) = Some wal /\
  ma_seq (man_acc cs) = Some seq /\ build_levels 0 NLEVELS (man_acc cs) = Some ver.

Definition DTab (ts : list (N * option (list entry))) (ver : version) : Prop :=
  forall n, In n (version_numbers ver) -> exists es, lookupN n ts = Some (Some es).

Definition log_ok (ws : list (N * bytes)) (nb : N * list batch) : Prop :=
  exists f i, lookupN (fst nb) ws = Some f /\
              log_read_all_x f = mkRX (map batch_bytes (snd nb)) false 0 i /\
              Forall bok (snd nb).

Definition DWal (ws : list (N * bytes)) (wal : N) (logs : list (N * list batch)) : Prop :=
  NoDup (map fst ws) /\
  sort_nums (filter (fun n => wal <=? n) (map fst ws)) = map fst logs /\
  Forall (log_ok ws) logs.

Definition Durable (img : image) (dv : dview) : Prop :=
  DCur (i_current img) (dv_man dv) /\
  DMan (i_manifests img) (dv_man dv) (dv_changes dv) /\
  DSem (dv_changes dv) (dv_ver dv) (dv_wal dv) (dv_next dv) (dv_seq dv) /\
  DTab (i_tables img) (dv_ver dv) /\
  DWal (i_wals img) (dv_wal dv) (dv_logs dv).

(** * What recovery returns *)
Definition file_of {A} (n : N) (l : list (N * list A)) : list A :=
  match lookupN n l with Some f => f | None => [] end.

Definition ms_of (img : image) (dv : dview) : manifest_state :=
  let file := file_of (dv_man dv) (i_manifests img) in
  mkMS (dv_man dv) (dv_ver dv) (dv_wal dv) (ma_prev_wal (man_acc (dv_changes dv))) (dv_next dv)
       (dv_seq dv) (ma_pointers (man_acc (dv_changes dv)))
       (rx_intact (log_read_all_x file)) (blen file).

Definition wr_of (img : image) (nb : N * list batch) : wal_replay :=
  mkWR (fst nb) (snd nb) (rx_intact (log_read_all_x (file_of (fst nb) (i_wals img)))).

Definition log_batches (logs : list (N * list batch)) : list batch := flat_map snd logs.

Definition seen_of (bs : list batch) : N := fold_left (fun m b => N.max m (batch_last_seq b)) bs 0.

Definition rc_of (img : image) (dv : dview) : recovered :=
  mkRec (ms_of img dv) (map (wr_of img) (dv_logs dv))
        (N.max (dv_seq dv) (seen_of (log_batches (dv_logs dv)))).

Lemma recover_manifest_durable img dv :
  Durable img dv -> recover_manifest img = inl (ms_of img dv).
Proof.
  intros (Hc & Hm & Hs & _ & _). destruct Hc as [Hc Hlt].
  destruct Hm as (file & i & Hl & Hr). destruct Hs as (Hok & Hn & Hw & Hq & Hb).
  assert (Hl' : @lookupN (list N) (dv_man dv) (i_manifests img) = Some file) by exact Hl.
  unfold recover_manifest, ms_of, file_of. rewrite Hc, (parse_current_contents _ Hlt), Hl, Hl', Hr.
  cbn [rx_panic rx_records rx_skipped rx_intact].
  rewrite (decode_changes_map _ Hok).
  change (0 <? 0) with false. cbv iota.
  fold (man_acc (dv_changes dv)). rewrite Hn, Hw, Hq.
  change (N.to_nat MAX_NUM_LEVELS) with NLEVELS. rewrite Hb. reflexivity.
Qed.

Lemma flat_map_wr_batches img logs :
  flat_map wr_batches (map (wr_of img) logs) = log_batches logs.
Proof.
  induction logs as [|nb logs IH]; [reflexivity|].
  cbn [map flat_map wr_of wr_batches log_batches]. f_equal. exact IH.
Qed.

Lemma replay_wals_durable img logs :
  Forall (log_ok (i_wals img)) logs ->
  replay_wals (map fst logs) img = inl (map (wr_of img) logs).
Proof.
  induction 1 as [|nb logs (f & i & Hl & Hr & Hok) _ IH]; [reflexivity|].
  cbn [map replay_wals]. rewrite Hl. unfold replay_wal. rewrite Hr.
  cbn [rx_panic rx_records rx_intact]. rewrite (decode_all_map _ Hok), IH.
  assert (Hl' : @lookupN (list N) (fst nb) (i_wals img) = Some f) by exact Hl.
  unfold wr_of at 2, file_of. rewrite Hl', Hr. reflexivity.
Qed.

Lemma DTab_present ts ver ms ws tmps :
  DTab ts ver ->
  forallb (fun n => existsb (N.eqb n) (all_numbers (mkImg None ms ws ts tmps))) (version_numbers ver) = true.
Proof.
  intros H. apply forallb_forall. intros n Hn. destruct (H n Hn) as [es He].
  apply existsb_exists. exists n. split; [|apply N.eqb_refl].
  unfold all_numbers. cbn [i_manifests i_wals i_tables i_temps].
  rewrite !in_app_iff. right. right. left. apply lookupN_in. rewrite He. discriminate.
Qed.

Theorem recover_durable img dv : Durable img dv -> recover_image img = inl (rc_of img dv).
Proof.
  intros D. pose proof (recover_manifest_durable img dv D) as Hm.
  destruct D as (_ & _ & _ & Ht & Hw). destruct Hw as (_ & Hs & Hf).
  unfold recover_image. rewrite Hm.
  change (ms_version (ms_of img dv)) with (dv_ver dv).
  change (ms_wal (ms_of img dv)) with (dv_wal dv).
  change (ms_seq (ms_of img dv)) with (dv_seq dv).
  assert (E : forallb (fun n => existsb (N.eqb n) (all_numbers img)) (version_numbers (dv_ver dv)) = true).
  { apply forallb_forall. intros n Hn. destruct (Ht n Hn) as [es He].
    apply existsb_exists. exists n. split; [|apply N.eqb_refl].
    unfold all_numbers. rewrite !in_app_iff. right. right. left. apply lookupN_in. rewrite He. discriminate. }
  rewrite E. cbn [negb]. rewrite Hs, (replay_wals_durable img _ Hf).
  rewrite flat_map_wr_batches. reflexivity.
Qed.

(** the table entries of a version in an image *)
Definition tab_entries (img : image) (ver : version) : list entry :=
  flat_map (fun n => match table_entries_of img n with Some es => es | None => [] end)
           (version_numbers ver).

Lemma rec_entries_durable img dv :
  rec_entries img (rc_of img dv)
  = tab_entries img (dv_ver dv) ++ all_entries_of (log_batches (dv_logs dv)).
Proof.
  unfold rec_entries, rc_of, tab_entries. cbn [rc_manifest rc_wals ms_of ms_version].
  rewrite flat_map_wr_batches. reflexivity.
Qed.

(** * Frame lemmas, one namespace at a time *)

Lemma DMan_set_other ms man cs m x : DMan ms man cs -> m <> man -> DMan (set_assoc m x ms) man cs.
Proof.
  intros (file & i & Hl & Hr) Hne. exists file, i. split; [|exact Hr].
  rewrite lookupN_set_assoc. destruct (man =? m) eqn:E; [apply N.eqb_eq in E; congruence|exact Hl].
Qed.

Lemma DMan_app_other ms man cs m d : DMan ms man cs -> m <> man -> DMan (app_assoc m d ms) man cs.
Proof.
  intros (file & i & Hl & Hr) Hne. exists file, i. split; [|exact Hr].
  rewrite lookupN_app_assoc. destruct (man =? m) eqn:E; [apply N.eqb_eq in E; congruence|exact Hl].
Qed.

Lemma DMan_del_other ms man cs m : DMan ms man cs -> m <> man -> DMan (del_assoc m ms) man cs.
Proof.
  intros (file & i & Hl & Hr) Hne. exists file, i. split; [|exact Hr].
  rewrite lookupN_del_assoc. destruct (man =? m) eqn:E; [apply N.eqb_eq in E; congruence|exact Hl].
Qed.

(** appending to the current manifest *)
Lemma DMan_app_same ms man cs cs' d :
  (forall file, lookupN man ms = Some file ->
     exists i, log_read_all_x (file ++ d) = mkRX (map vchange_encode cs') false 0 i) ->
  DMan ms man cs -> DMan (app_assoc man d ms) man cs'.
Proof.
  intros Hn (file & i & Hl & Hr). destruct (Hn file Hl) as [i' Hr'].
  exists (file ++ d), i'. split; [|exact Hr'].
  rewrite lookupN_app_assoc, N.eqb_refl, Hl. reflexivity.
Qed.

Lemma DTab_set_other ts ver n x : DTab ts ver -> ~ In n (version_numbers ver) -> DTab (set_assoc n x ts) ver.
Proof.
  intros H Hn m Hm. destruct (H m Hm) as [es He]. exists es.
  rewrite lookupN_set_assoc. destruct (m =? n) eqn:E; [apply N.eqb_eq in E; subst; contradiction|exact He].
Qed.

Lemma DTab_del_other ts ver n : DTab ts ver -> ~ In n (version_numbers ver) -> DTab (del_assoc n ts) ver.
Proof.
  intros H Hn m Hm. destruct (H m Hm) as [es He]. exists es.
  rewrite lookupN_del_assoc. destruct (m =? n) eqn:E; [apply N.eqb_eq in E; subst; contradiction|exact He].
Qed.

Lemma NoDup_filter {A} (p : A -> bool) l : NoDup l -> NoDup (filter p l).
Proof.
  induction 1 as [|x l Hx Hl IH]; cbn [filter]; [constructor|].
  destruct (p x); [|exact IH]. constructor; [|exact IH].
  intros Hin. apply filter_In in Hin. tauto.
Qed.

Lemma DWal_names ws wal logs n :
  DWal ws wal logs -> (In n (map fst logs) <-> In n (map fst ws) /\ wal <= n).
Proof.
  intros (_ & Hs & _). rewrite <- Hs, sort_nums_in, filter_In, N.leb_le. tauto.
Qed.

Lemma DWal_nodup ws wal logs : DWal ws wal logs -> NoDup (map fst logs).
Proof.
  intros (Hnd & Hs & _). rewrite <- Hs. apply sort_nums_nodup. apply NoDup_filter. exact Hnd.
Qed.

Lemma log_read_nil : log_read_all_x [] = mkRX [] false 0 true.
Proof. apply (logfile_read [] [] 0). apply logfile_nil. Qed.

Lemma DWal_create ws wal logs n :
  DWal ws wal logs -> ~ In n (map fst ws) -> (forall m, In m (map fst ws) -> m <= n) -> wal <= n ->
  DWal (set_assoc n [] ws) wal (logs ++ [(n, [])]).
Proof.
  intros D Hn Hmax Hw. pose proof (DWal_names ws wal logs) as Hnames.
  destruct D as (Hnd & Hs & Hf). split; [apply nodup_set_assoc; exact Hnd|]. split.
  - rewrite (map_fst_set_assoc_new _ _ _ _ Hn), filter_app. cbn [filter].
    destruct (wal <=? n) eqn:E; [|lia].
    rewrite sort_nums_snoc_max.
    + rewrite Hs, map_app. reflexivity.
    + intros x Hx. apply filter_In in Hx. apply Hmax. tauto.
  - apply Forall_app. split.
    + eapply Forall_impl; [|exact Hf]. intros nb (f & i & Hl & Hr & Hok). exists f, i.
      split; [|split; assumption]. rewrite lookupN_set_assoc.
      destruct (fst nb =? n) eqn:E; [|exact Hl]. apply N.eqb_eq in E. exfalso. apply Hn.
      apply lookupN_in. rewrite <- E, Hl. discriminate.
    + constructor; [|constructor]. exists [], true. cbn [fst snd map].
      split; [rewrite lookupN_set_assoc, N.eqb_refl; reflexivity|]. split; [apply log_read_nil|constructor].
Qed.

Lemma DWal_append ws wal l1 n bs l2 bs' d :
  DWal ws wal (l1 ++ (n, bs) :: l2) ->
  (forall f, lookupN n ws = Some f ->
     exists i, log_read_all_x (f ++ d) = mkRX (map batch_bytes bs') false 0 i) ->
  Forall bok bs' ->
  DWal (app_assoc n d ws) wal (l1 ++ (n, bs') :: l2).
Proof.
  intros D Hnew Hok'. pose proof (DWal_nodup _ _ _ D) as Hnd'.
  destruct D as (Hnd & Hs & Hf). split; [rewrite map_fst_app_assoc; exact Hnd|]. split.
  - rewrite map_fst_app_assoc, Hs, !map_app. reflexivity.
  - rewrite map_app in Hnd'. cbn [map fst] in Hnd'.
    apply NoDup_remove_2 in Hnd'. rewrite in_app_iff in Hnd'.
    apply Forall_app in Hf. destruct Hf as [Hf1 Hf2].
    pose proof (Forall_inv Hf2) as Hfn. apply Forall_inv_tail in Hf2.
    assert (Keep : forall nb, fst nb <> n -> log_ok ws nb -> log_ok (app_assoc n d ws) nb).
    { intros nb Hne (f & i & Hl & Hr & Hok). exists f, i. split; [|split; assumption].
      rewrite lookupN_app_assoc. destruct (fst nb =? n) eqn:E; [apply N.eqb_eq in E; contradiction|exact Hl]. }
    apply Forall_app. split.
    + rewrite Forall_forall in *. intros nb Hnb. apply Keep; [|apply Hf1; exact Hnb].
      intros E. apply Hnd'. left. rewrite <- E. apply in_map. exact Hnb.
    + constructor.
      * destruct Hfn as (f & i & Hl & _). cbn [fst] in Hl. destruct (Hnew f Hl) as [i' Hr'].
        exists (f ++ d), i'. cbn [fst snd]. split; [|split; assumption].
        rewrite lookupN_app_assoc, N.eqb_refl, Hl. reflexivity.
      * rewrite Forall_forall in *. intros nb Hnb. apply Keep; [|apply Hf2; exact Hnb].
        intros E. apply Hnd'. right. rewrite <- E. apply in_map. exact Hnb.
Qed.

Lemma filter_filter_sub {A} (p q : A -> bool) l :
  (forall x, p x = true -> q x = true) -> filter p (filter q l) = filter p l.
Proof.
  intros H. induction l as [|x l IH]; [reflexivity|]. cbn [filter].
  destruct (q x) eqn:Eq; cbn [filter].
  - destruct (p x); rewrite IH; reflexivity.
  - destruct (p x) eqn:Ep; [rewrite (H x Ep) in Eq; discriminate|exact IH].
Qed.

Lemma DWal_remove ws wal logs m : DWal ws wal logs -> m < wal -> DWal (del_assoc m ws) wal logs.
Proof.
  intros D Hm. pose proof (DWal_names ws wal logs) as Hnames. specialize (fun n => Hnames n D).
  destruct D as (Hnd & Hs & Hf). split; [apply nodup_del_assoc; exact Hnd|]. split.
  - rewrite map_fst_del_assoc, filter_filter_sub; [exact Hs|].
    intros x Hx. apply N.leb_le in Hx. apply negb_true_iff. apply N.eqb_neq. lia.
  - rewrite Forall_forall in *. intros nb Hnb. destruct (Hf nb Hnb) as (f & i & Hl & Hr & Hok).
    exists f, i. split; [|split; assumption]. rewrite lookupN_del_assoc.
    destruct (fst nb =? m) eqn:E; [|exact Hl]. apply N.eqb_eq in E.
    assert (Hin : In (fst nb) (map fst logs)) by (apply in_map; exact Hnb).
    apply Hnames in Hin. lia.
Qed.

Lemma map_fst_filter (w : N) (logs : list (N * list batch)) :
  map fst (filter (fun nb => w <=? fst nb) logs) = filter (fun n => w <=? n) (map fst logs).
Proof.
  induction logs as [|nb logs IH]; [reflexivity|]. cbn [filter map].
  destruct (w <=? fst nb); cbn [map]; rewrite IH; reflexivity.
Qed.

Lemma StronglySorted_filter {A} (R : A -> A -> Prop) (p : A -> bool) l :
  StronglySorted R l -> StronglySorted R (filter p l).
Proof.
  induction 1 as [|x l Hl IH Hx]; cbn [filter]; [constructor|].
  destruct (p x); [|exact IH]. constructor; [exact IH|].
  rewrite Forall_forall in *. intros y Hy. apply filter_In in Hy. apply Hx. tauto.
Qed.

Lemma Forall_filter {A} (P : A -> Prop) (p : A -> bool) l : Forall P l -> Forall P (filter p l).
Proof.
  intros H. rewrite Forall_forall in *. intros x Hx. apply filter_In in Hx. apply H. tauto.
Qed.

Lemma DWal_raise ws wal logs wal' :
  DWal ws wal logs -> wal <= wal' -> DWal ws wal' (filter (fun nb => wal' <=? fst nb) logs).
Proof.
  intros (Hnd & Hs & Hf) Hle. split; [exact Hnd|]. split; [|apply Forall_filter; exact Hf].
  rewrite map_fst_filter, <- Hs.
  rewrite <- (sort_nums_id (filter (fun n => wal' <=? n) (sort_nums (filter (fun n => wal <=? n) (map fst ws))))).
  2:{ apply StronglySorted_filter. apply sort_nums_sorted. }
  apply sort_nums_ext.
  - apply NoDup_filter. exact Hnd.
  - apply NoDup_filter. apply sort_nums_nodup. apply NoDup_filter. exact Hnd.
  - intros x. rewrite !filter_In, sort_nums_in, filter_In, !N.leb_le. split; [intros [H1 H2]|tauto].
    split; [split; [exact H1|lia]|exact H2].
Qed.

Lemma StronglySorted_snoc_inv {A} (R : A -> A -> Prop) l w :
  StronglySorted R (l ++ [w]) -> forall x, In x l -> R x w.
Proof.
  induction l as [|y l IH]; intros H x Hx; [destruct Hx|].
  cbn [app] in H. apply StronglySorted_inv in H. destruct H as [Hs Hy].
  destruct Hx as [<-|Hx]; [|apply IH; assumption].
  rewrite Forall_forall in Hy. apply Hy. apply in_or_app. right. left. reflexivity.
Qed.

Lemma DWal_last_max ws wal older w bs :
  DWal ws wal (older ++ [(w, bs)]) -> forall nb, In nb older -> fst nb < w.
Proof.
  intros D nb Hnb. pose proof (DWal_nodup _ _ _ D) as Hnd. destruct D as (_ & Hs & _).
  pose proof (sort_nums_sorted (filter (fun n => wal <=? n) (map fst ws))) as Hsort.
  rewrite Hs in Hsort. rewrite map_app in Hsort, Hnd. cbn [map fst] in Hsort, Hnd.
  assert (Hin : In (fst nb) (map fst older)) by (apply in_map; exact Hnb).
  pose proof (StronglySorted_snoc_inv _ _ _ Hsort _ Hin) as Hle.
  apply NoDup_remove_2 in Hnd. rewrite app_nil_r in Hnd.
  assert (fst nb <> w) by (intros E; apply Hnd; rewrite <- E; exact Hin). lia.
Qed.

(** * File operations that recovery does not see *)
Definition invisible (dv : dview) (o : fsop) : Prop :=
  match o with
  | FsCreate (FManifest m) | FsAppend (FManifest m) _ | FsRemove (FManifest m) => m <> dv_man dv
  | FsCreate (FTable n) | FsTable n _ | FsRemove (FTable n) => ~ In n (version_numbers (dv_ver dv))
  | FsCreate (FTemp _) | FsAppend (FTemp _) _ | FsRemove (FTemp _) => True
  | FsRemove (FWal n) => n < dv_wal dv
  | FsCreate FCurrent | FsCreate FLock | FsAppend FCurrent _ | FsAppend FLock _
  | FsAppend (FTable _) _ | FsRemove FLock => True
  | FsCreate (FWal _) | FsAppend (FWal _) _ | FsRename _ | FsRemove FCurrent => False
  end.

Lemma Durable_invisible img dv o : Durable img dv -> invisible dv o -> Durable (apply_fsop img o) dv.
Proof.
  intros (Hc & Hm & Hs & Ht & Hw) Hi. unfold Durable.
  destruct o as [f|f d|n es|n|f]; try destruct f as [| |m|m|m|m]; cbn [invisible] in Hi;
    cbn [apply_fsop i_current i_manifests i_wals i_tables i_temps]; try contradiction;
    try (destruct (lookupN n (i_temps img)); contradiction);
    (refine (conj Hc (conj _ (conj Hs (conj _ _))));
     first [ assumption
           | apply DMan_set_other; assumption
           | apply DMan_app_other; assumption
           | apply DMan_del_other; assumption
           | apply DTab_set_other; assumption
           | apply DTab_del_other; assumption
           | apply DWal_remove; assumption ]).
Qed.

Lemma lookup_tables_invisible img dv o n :
  invisible dv o -> In n (version_numbers (dv_ver dv)) ->
  lookupN n (i_tables (apply_fsop img o)) = lookupN n (i_tables img).
Proof.
  intros Hi Hn.
  destruct o as [f|f d|m es|m|f]; try destruct f as [| |m|m|m|m]; cbn [invisible] in Hi;
    cbn [apply_fsop i_tables]; try reflexivity; try contradiction;
    first [ destruct (lookupN m (i_temps img)); reflexivity
          | rewrite lookupN_set_assoc; destruct (n =? m) eqn:E; [apply N.eqb_eq in E; subst; contradiction|reflexivity]
          | rewrite lookupN_del_assoc; destruct (n =? m) eqn:E; [apply N.eqb_eq in E; subst; contradiction|reflexivity] ].
Qed.

Lemma tab_entries_ext img img' ver :
  (forall n, In n (version_numbers ver) -> lookupN n (i_tables img') = lookupN n (i_tables img)) ->
  tab_entries img' ver = tab_entries img ver.
Proof.
  intros H. unfold tab_entries.
  induction (version_numbers ver) as [|n l IH]; [reflexivity|].
  cbn [flat_map]. rewrite IH by (intros m Hm; apply H; right; exact Hm).
  unfold table_entries_of. rewrite (H n) by (left; reflexivity). reflexivity.
Qed.

Lemma invisible_lookup_man img dv o :
  invisible dv o -> lookupN (dv_man dv) (i_manifests (apply_fsop img o)) = lookupN (dv_man dv) (i_manifests img).
Proof.
  intros Hi.
  destruct o as [f|f d|m es|m|f]; try destruct f as [| |m|m|m|m]; cbn [invisible] in Hi;
    cbn [apply_fsop i_manifests]; try reflexivity; try contradiction;
    first [ destruct (lookupN m (i_temps img)); reflexivity
          | rewrite lookupN_set_assoc; destruct (dv_man dv =? m) eqn:E; [apply N.eqb_eq in E; congruence|reflexivity]
          | rewrite lookupN_app_assoc; destruct (dv_man dv =? m) eqn:E; [apply N.eqb_eq in E; congruence|reflexivity]
          | rewrite lookupN_del_assoc; destruct (dv_man dv =? m) eqn:E; [apply N.eqb_eq in E; congruence|reflexivity] ].
Qed.

Lemma invisible_lookup_wal img dv o n :
  invisible dv o -> dv_wal dv <= n -> lookupN n (i_wals (apply_fsop img o)) = lookupN n (i_wals img).
Proof.
  intros Hi Hn.
  destruct o as [f|f d|m es|m|f]; try destruct f as [| |m|m|m|m]; cbn [invisible] in Hi;
    cbn [apply_fsop i_wals]; try reflexivity; try contradiction;
    first [ destruct (lookupN m (i_temps img)); reflexivity
          | rewrite lookupN_del_assoc; destruct (n =? m) eqn:E; [apply N.eqb_eq in E; lia|reflexivity] ].
Qed.

Lemma invisible_walnames img dv o n :
  invisible dv o -> In n (map fst (i_wals (apply_fsop img o))) -> In n (map fst (i_wals img)).
Proof.
  intros Hi.
  destruct o as [f|f d|m es|m|f]; try destruct f as [| |m|m|m|m]; cbn [invisible] in Hi;
    cbn [apply_fsop i_wals]; try contradiction;
    first [ rewrite map_fst_del_assoc; intros H; apply filter_In in H; tauto
          | destruct (lookupN m (i_temps img)); intros H; exact H
          | intros H; exact H ].
Qed.

Lemma tab_entries_invisible img dv o :
  invisible dv o -> tab_entries (apply_fsop img o) (dv_ver dv) = tab_entries img (dv_ver dv).
Proof. intros Hi. apply tab_entries_ext. intros n Hn. apply (lookup_tables_invisible img dv o n Hi Hn). Qed.

Lemma invisible_torn dv o k : invisible dv o -> Forall (invisible dv) (torn_fsop o k).
Proof.
  intros Hi. destruct o as [f|f d|n es|n|f]; cbn [torn_fsop];
    first [ constructor; [exact Hi|constructor]
          | constructor; [destruct f; exact Hi|constructor]
          | constructor ].
Qed.

(** * The recoverable state: durable view + what the tables and logs mean *)
Record Rec (img : image) (dv : dview) (bsF : list batch) (Q : N) : Prop := mkRecP {
  rec_dur : Durable img dv;
  rec_tab : tables_ok (tab_entries img (dv_ver dv)) bsF Q;
  rec_chain : batches_chained 0 (bsF ++ log_batches (dv_logs dv)) = true;
  rec_Q : Q <= nops (bsF ++ log_batches (dv_logs dv));
  rec_seq : nops bsF <= dv_seq dv /\ dv_seq dv <= nops (bsF ++ log_batches (dv_logs dv))
}.

Definition Good (img : image) (bs : list batch) : Prop :=
  exists rc, recover_image img = inl rc /\ rec_contents img rc = replay [] bs /\ rc_seq rc = nops bs.

Lemma rc_seq_rec img dv bsF Q :
  Rec img dv bsF Q -> rc_seq (rc_of img dv) = nops (bsF ++ log_batches (dv_logs dv)).
Proof.
  intros [_ _ Hch _ [Hs1 Hs2]]. unfold rc_of. cbn [rc_seq].
  rewrite chained_app in Hch. apply andb_true_iff in Hch. destruct Hch as [_ Hch].
  rewrite N.add_0_l in Hch. pose proof (seen_chained _ _ Hch) as Hseen.
  fold (seen_of (log_batches (dv_logs dv))) in Hseen. rewrite nops_app in *. lia.
Qed.

Theorem Rec_good img dv bsF Q : Rec img dv bsF Q -> Good img (bsF ++ log_batches (dv_logs dv)).
Proof.
  intros R. pose proof (rc_seq_rec _ _ _ _ R) as Hseq. destruct R as [D Ht Hch HQ Hs].
  exists (rc_of img dv). split; [apply recover_durable; exact D|]. split; [|exact Hseq].
  unfold rec_contents. rewrite Hseq.
  apply (contents_replay_gen (tab_entries img (dv_ver dv)) bsF (log_batches (dv_logs dv)) _ Q).
  - exact Hch.
  - exact Ht.
  - intros e. rewrite rec_entries_durable, in_app_iff. reflexivity.
  - exact HQ.
  - lia.
Qed.

Lemma Rec_invisible img dv bsF Q o : Rec img dv bsF Q -> invisible dv o -> Rec (apply_fsop img o) dv bsF Q.
Proof.
  intros [D Ht Hch HQ Hs] Hi. constructor; try assumption.
  - apply Durable_invisible; assumption.
  - rewrite (tab_entries_invisible img dv o Hi). exact Ht.
Qed.

Lemma Rec_invisible_list img dv bsF Q ops :
  Rec img dv bsF Q -> Forall (invisible dv) ops -> Rec (apply_fsops img ops) dv bsF Q.
Proof.
  intros R H. revert img R. induction H as [|o ops Ho _ IH]; intros img R; [exact R|].
  cbn [apply_fsops fold_left]. apply IH. apply Rec_invisible; assumption.
Qed.

(** * Crash images of a list of operations *)
Definition all_crash (P : image -> Prop) (img : image) (ops : list fsop) : Prop :=
  forall n torn, (n <= length ops)%nat -> P (crash_image img ops n torn).

Lemma apply_fsops_app img a b : apply_fsops img (a ++ b) = apply_fsops (apply_fsops img a) b.
Proof. unfold apply_fsops. apply fold_left_app. Qed.

Lemma crash_image_cons img o rest n torn :
  crash_image img (o :: rest) (S n) torn =
  match n, torn with
  | O, Some k => apply_fsops img (torn_fsop o k)
  | _, _ => crash_image (apply_fsop img o) rest n torn
  end.
Proof.
  unfold crash_image. destruct torn as [k|].
  - destruct n as [|n]; cbn [firstn nth_error apply_fsops fold_left]; reflexivity.
  - destruct n as [|n]; cbn [firstn apply_fsops fold_left]; reflexivity.
Qed.

Lemma crash_image_0 img ops torn : crash_image img ops 0 torn = img.
Proof. unfold crash_image. destruct torn; reflexivity. Qed.

Lemma all_crash_nil (P : image -> Prop) img : P img -> all_crash P img [].
Proof.
  intros H n torn Hn. cbn [length] in Hn. assert (n = 0)%nat as -> by lia.
  rewrite crash_image_0. exact H.
Qed.

Lemma all_crash_cons (P : image -> Prop) img o rest :
  P img -> (forall k, P (apply_fsops img (torn_fsop o k))) ->
  all_crash P (apply_fsop img o) rest -> all_crash P img (o :: rest).
Proof.
  intros H0 Ht Hr n torn Hn. destruct n as [|n]; [rewrite crash_image_0; exact H0|].
  rewrite crash_image_cons. cbn [length] in Hn.
  destruct n as [|n].
  - destruct torn as [k|]; [apply Ht|]. apply Hr. lia.
  - apply Hr. lia.
Qed.

Lemma crash_image_app img a b n torn :
  crash_image img (a ++ b) n torn =
  if (n <=? length a)%nat then crash_image img a n torn
  else crash_image (apply_fsops img a) b (n - length a) torn.
Proof.
  revert img n. induction a as [|o a IH]; intros img n.
  - cbn [app length]. destruct n as [|n].
    + rewrite !crash_image_0. reflexivity.
    + cbn [Nat.leb Nat.sub]. reflexivity.
  - destruct n as [|n]; [rewrite !crash_image_0; reflexivity|].
    cbn [app length Nat.leb Nat.sub]. rewrite !crash_image_cons.
    destruct n as [|n].
    + destruct torn as [k|]; [reflexivity|]. rewrite IH. cbn [Nat.leb]. reflexivity.
    + rewrite IH. cbn [apply_fsops fold_left].
      destruct (S n <=? length a)%nat; reflexivity.
Qed.

Lemma all_crash_app (P : image -> Prop) img a b :
  all_crash P img a -> all_crash P (apply_fsops img a) b -> all_crash P img (a ++ b).
Proof.
  intros Ha Hb n torn Hn. rewrite crash_image_app. rewrite app_length in Hn.
  destruct (n <=? length a)%nat eqn:E.
  - apply Ha. apply Nat.leb_le. exact E.
  - apply Hb. apply Nat.leb_gt in E. lia.
Qed.

Lemma all_crash_invisible img dv bsF Q ops (P : image -> Prop) :
  (forall img', Rec img' dv bsF Q -> P img') ->
  Rec img dv bsF Q -> Forall (invisible dv) ops -> all_crash P img ops.
Proof.
  intros HP R H. revert img R. induction H as [|o ops Ho _ IH]; intros img R.
  - apply all_crash_nil. apply HP. exact R.
  - apply all_crash_cons.
    + apply HP. exact R.
    + intros k. apply HP. apply Rec_invisible_list; [exact R|apply invisible_torn; exact Ho].
    + apply IH. apply Rec_invisible; assumption.
Qed.

(** * The recovered sequence number dominates every recovered batch *)
Lemma fold_max_in (bs : list batch) : forall z b, In b bs ->
  batch_last_seq b <= fold_left (fun m b => N.max m (batch_last_seq b)) bs z.
Proof.
  induction bs as [|x bs IH]; intros z b Hb; [destruct Hb|]. cbn [fold_left].
  destruct Hb as [->|Hb]; [|apply IH; exact Hb].
  clear IH. generalize (N.max z (batch_last_seq b)) (N.le_max_r z (batch_last_seq b)).
  induction bs as [|y bs IH]; intros m Hm; cbn [fold_left]; [exact Hm|].
  apply IH. lia.
Qed.

Theorem recovered_seq_ge img rc :
  recover_image img = inl rc ->
  forall w b, In w (rc_wals rc) -> In b (wr_batches w) -> batch_last_seq b <= rc_seq rc.
Proof.
  unfold recover_image. destruct (recover_manifest img) as [ms|e]; [|discriminate].
  destruct (negb _); [discriminate|].
  destruct (replay_wals _ img) as [ws|e]; [|discriminate].
  intros E. injection E as <-. cbn [rc_wals rc_seq]. intros w b Hw Hb.
  assert (Hin : In b (flat_map wr_batches ws)) by (apply in_flat_map; exists w; auto).
  pose proof (fold_max_in _ 0 b Hin). lia.
Qed.
