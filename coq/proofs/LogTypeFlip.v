(** A single changed type byte in a log file is detected by the reader.

    The checksum of a fragment covers its payload only, not the type byte ([fragment] in
    [model/Log.v]: masked crc (4 bytes) ++ length (2 bytes) ++ type (1 byte) ++ payload). A changed
    type byte is nevertheless noticed: in a file the writer produced the fragments come in the
    order (Full | First Middle* Last)*, and changing the type of one fragment (to another valid
    type) makes this fragment or the one after it violate the sequencing rules, so the reader
    drops a fragment and counts it ([rx_skipped > 0]; the manifest reader rejects such a file).
    The exception is the last fragment of the file: nothing follows it (see the examples at the
    end; there a Full -> First change only clears [rx_intact]). *)
From Coq Require Import Lia ZArith ZifyN ZifyBool ZifyNat Arith List NArith Bool.
From RainVerif Require Import Params.
From RainVerif.model Require Import Bytes Crc Log Recover.
From RainVerif.proofs Require Import CrcProofs LogProofs LogXProofs.
Import ListNotations.
Open Scope N_scope.
Ltac Zify.zify_post_hook ::= Z.div_mod_to_equations.
Arguments N.add : simpl never.
Arguments N.sub : simpl never.
Arguments N.mul : simpl never.
Arguments N.div : simpl never.
Arguments N.modulo : simpl never.
Arguments N.eqb : simpl never.
Arguments N.ltb : simpl never.
Arguments N.leb : simpl never.
Arguments N.min : simpl never.
Arguments N.of_nat : simpl never.
Arguments N.to_nat : simpl never.

(** * Well sequenced fragment lists: (Full | First Middle* Last)* *)

(** [i]: inside a fragmented record *)
Fixpoint wellseq (i : bool) (its : list item) : bool :=
  match its with
  | [] => negb i
  | It n t d :: r =>
      if i then (if t =? 2 then wellseq true r else if t =? 3 then wellseq false r else false)
      else (if t =? 0 then wellseq false r else if t =? 1 then wellseq true r else false)
  end.

Definition ityp (it : item) : N := match it with It _ t _ => t end.

(** closed under append *)
Lemma wellseq_app x : forall i y,
  wellseq i x = true -> wellseq i (x ++ y) = wellseq false y.
Proof.
  induction x as [|[n t d] x IH]; intros i y Hw.
  - destruct i; [discriminate Hw|reflexivity].
  - cbn [app wellseq] in *. revert Hw.
    destruct i; type_cases t; intros Hw; try discriminate Hw; apply IH; exact Hw.
Qed.

Lemma wellseq_types its : forall i, wellseq i its = true -> Forall (fun it => ityp it <= 3) its.
Proof.
  induction its as [|[n t d] its IH]; intros i Hw; [constructor|].
  cbn [wellseq] in Hw. revert Hw.
  destruct i; type_cases t; intros Hw; try discriminate Hw;
    (constructor; [cbn [ityp]; lia|apply (IH _ Hw)]).
Qed.

(** a well sequenced list has no drops and ends outside a fragmented record *)
Lemma wellseq_drops its : forall i, wellseq i its = true -> drops i its = 0.
Proof.
  induction its as [|[n t d] its IH]; intros i Hw; [reflexivity|].
  cbn [wellseq] in Hw. cbn [drops]. unfold drop1, fstate, fstep. revert Hw.
  destruct i; type_cases t; intros Hw; try discriminate Hw; cbn [orb fst snd];
    rewrite (IH _ Hw); reflexivity.
Qed.

Lemma wellseq_closed its : forall i b, wellseq i its = true -> fst (fin i b its) = false.
Proof.
  induction its as [|[n t d] its IH]; intros i b Hw.
  - destruct i; [discriminate Hw|reflexivity].
  - cbn [wellseq] in Hw. cbn [fin]. unfold fstep. revert Hw.
    destruct i; type_cases t; intros Hw; try discriminate Hw; apply IH; exact Hw.
Qed.

(** and conversely, for fragments of valid types *)
Lemma drops_wellseq its : forall i,
  Forall (fun it => ityp it <= 3) its -> drops i its = 0 -> fst (fin i [] its) = false ->
  wellseq i its = true.
Proof.
  induction its as [|[n t d] its IH]; intros i Ht Hd Hc.
  - cbn [fin fst] in Hc. subst i. reflexivity.
  - pose proof (Forall_inv Ht) as Ht1. cbn [ityp] in Ht1. apply Forall_inv_tail in Ht.
    cbn [drops fin wellseq] in *.
    pose proof (fstate_fstep i [] t d) as Es.
    destruct (fstep i [] t d) as [[o1 i1] b1]. cbn [fst snd] in Es. subst i1.
    rewrite (fin_state_indep its _ b1 []) in Hc.
    revert Hd Hc. unfold drop1, fstate, fstep.
    destruct i; type_cases t; cbn [orb fst snd]; intros Hd Hc;
      try (exfalso; lia); apply IH; try assumption; lia.
Qed.

Section FLIP.
Variable B H : N.
Variable crc : bytes -> N.
Hypothesis H_is_7 : H = 7.
Hypothesis B_big : H < B.
Hypothesis B_small : B - H < 65536.
Hypothesis crc_bound : forall d, crc d < two32.

Local Notation a4 L := (L B H crc H_is_7 B_big B_small crc_bound) (only parsing).
Local Notation a3 L := (L B H H_is_7 B_big B_small) (only parsing).

(** ** the writer's output is well sequenced *)

Lemma wellseq_append_items : forall fuel boff data first,
  completes B H fuel boff data = true ->
  wellseq (negb first) (append_items B H fuel boff data first) = true.
Proof using H_is_7 B_big B_small crc_bound.
  induction fuel as [|fuel IH]; intros boff data first Hc; cbn [completes] in Hc;
    [discriminate|].
  cbn [append_items].
  destruct (dropN (w_n B H boff data) data) as [|x l] eqn:E.
  - pose proof (a4 drop_nil _ _ E) as En. unfold w_item. rewrite En, N.eqb_refl.
    destruct first; reflexivity.
  - pose proof (a4 drop_cons _ _ _ _ E) as En. rewrite <- E in *. clear E.
    unfold w_item at 1.
    destruct (blen data =? w_n B H boff data) eqn:E2; [lia|].
    etransitivity; [|apply (IH (w_boff2 B H boff data) _ false Hc)].
    destruct first; reflexivity.
Qed.

Lemma wellseq_append boff r :
  wellseq false (append_items B H (append_fuel r) boff r true) = true.
Proof using H_is_7 B_big B_small crc_bound.
  apply (wellseq_append_items (append_fuel r) boff r true). apply (a4 completes_append).
Qed.

Lemma layout_ok_types its : forall pos, layout_ok B H pos its -> Forall (fun it => ityp it <= 3) its.
Proof.
  induction its as [|[n t d] its IH]; intros pos Hl; [constructor|].
  cbn [layout_ok item_ok] in Hl. destruct Hl as [[Ht _] Hl].
  constructor; [exact Ht|apply (IH _ Hl)].
Qed.

(** the invariant [lf] of the writer's files says exactly: well laid out and well sequenced *)
Lemma lf_wellseq f recs boff : lf B H crc f recs boff ->
  exists its, f = bytes_of crc its /\ layout_ok B H 0 its /\ wellseq false its = true /\
              map fst (asm H 0 false [] its) = recs.
Proof.
  intros [its [Hf [Hl [Hw [Ha [Hd Hc]]]]]]. exists its.
  split; [exact Hf|]. split; [exact Hl|]. split; [|exact Ha].
  apply drops_wellseq; [apply (layout_ok_types its 0 Hl)|exact Hd|exact Hc].
Qed.

(** * One changed fragment type *)

(** On the items. It is enough that the original list has no drops (it may end inside a
    fragmented record) and that the changed fragment and its successor have valid types. *)
Lemma flip_drops_gen n t d it2 its2 t' : forall its1 i,
  drops i (its1 ++ It n t d :: it2 :: its2) = 0 ->
  t <= 3 -> ityp it2 <= 3 -> t' <= 3 -> t' <> t ->
  0 < drops i (its1 ++ It n t' d :: it2 :: its2).
Proof.
  induction its1 as [|[n1 t1 d1] its1 IH]; intros i Hd Ht Ht2 Ht' Hne.
  - destruct it2 as [n2 t2 d2]. cbn [ityp] in Ht2. cbn [app drops] in *.
    revert Hd. unfold drop1, fstate, fstep.
    destruct i; type_cases t; type_cases t'; type_cases t2; cbn [orb fst snd]; intros Hd; lia.
  - cbn [app drops] in *.
    assert (Hd' : drops (fstate i t1 d1) (its1 ++ It n t d :: it2 :: its2) = 0) by lia.
    specialize (IH _ Hd' Ht Ht2 Ht' Hne). lia.
Qed.

Theorem flip_drops its1 n t d its2 t' :
  wellseq false (its1 ++ It n t d :: its2) = true -> its2 <> [] -> t' <= 3 -> t' <> t ->
  0 < drops false (its1 ++ It n t' d :: its2).
Proof.
  intros Hw Hne Ht' Hd. destruct its2 as [|it2 its2]; [congruence|].
  pose proof (wellseq_types _ _ Hw) as Hty. apply Forall_app in Hty. destruct Hty as [_ Hty].
  pose proof (Forall_inv Hty) as Ht. cbn [ityp] in Ht.
  pose proof (Forall_inv (Forall_inv_tail Hty)) as Ht2.
  apply (flip_drops_gen n t d it2 its2 t' its1 false); try assumption.
  apply wellseq_drops. exact Hw.
Qed.

(** the layout does not depend on the types (beyond their being valid) *)
Lemma layout_ok_flip n t d t' its2 : forall its1 pos,
  layout_ok B H pos (its1 ++ It n t d :: its2) -> t' <= 3 ->
  layout_ok B H pos (its1 ++ It n t' d :: its2).
Proof.
  induction its1 as [|it1 its1 IH]; intros pos Hl Ht'; cbn [app layout_ok] in *.
  - cbn [item_ok isize] in *. tauto.
  - destruct Hl as [Hok Hl]. split; [exact Hok|]. apply IH; assumption.
Qed.

(** lifted to the reader *)
Theorem flip_detected_gen its1 n t d its2 t' :
  layout_ok B H 0 (its1 ++ It n t d :: its2) -> drops false (its1 ++ It n t d :: its2) = 0 ->
  its2 <> [] -> t' <= 3 -> t' <> t ->
  0 < rx_skipped (read_all_x B H crc (bytes_of crc (its1 ++ It n t' d :: its2))) /\
  rx_panic (read_all_x B H crc (bytes_of crc (its1 ++ It n t' d :: its2))) = false.
Proof using H_is_7 B_big B_small crc_bound.
  intros Hl Hd Hne Ht' Hdiff.
  rewrite <- (app_nil_r (bytes_of crc (its1 ++ It n t' d :: its2))).
  rewrite (a4 read_all_x_layout).
  - cbn [rx_skipped rx_panic]. split; [|reflexivity].
    destruct its2 as [|it2 its2]; [congruence|].
    pose proof (layout_ok_types _ _ Hl) as Hty. apply Forall_app in Hty. destruct Hty as [_ Hty].
    pose proof (Forall_inv Hty) as Ht. cbn [ityp] in Ht.
    pose proof (Forall_inv (Forall_inv_tail Hty)) as Ht2.
    apply (flip_drops_gen n t d it2 its2 t' its1 false); assumption.
  - apply (layout_ok_flip n t d t' its2 its1 0); assumption.
  - apply (LogProofs.eof_nil B H crc H_is_7 B_big B_small).
Qed.

Theorem flip_detected its1 n t d its2 t' :
  layout_ok B H 0 (its1 ++ It n t d :: its2) -> wellseq false (its1 ++ It n t d :: its2) = true ->
  its2 <> [] -> t' <= 3 -> t' <> t ->
  0 < rx_skipped (read_all_x B H crc (bytes_of crc (its1 ++ It n t' d :: its2))) /\
  rx_panic (read_all_x B H crc (bytes_of crc (its1 ++ It n t' d :: its2))) = false.
Proof using H_is_7 B_big B_small crc_bound.
  intros Hl Hw. apply flip_detected_gen; [exact Hl|]. apply wellseq_drops. exact Hw.
Qed.

(** for a file written by the log writer: whichever way it is written as fragments, changing the
    type of a fragment that is not the last one gives a file the reader counts a skipped record
    in *)
Theorem lf_type_flip f recs boff : lf B H crc f recs boff ->
  exists its, f = bytes_of crc its /\ layout_ok B H 0 its /\ wellseq false its = true /\
    forall its1 n t d its2 t',
      its = its1 ++ It n t d :: its2 -> its2 <> [] -> t' <= 3 -> t' <> t ->
      0 < rx_skipped (read_all_x B H crc (bytes_of crc (its1 ++ It n t' d :: its2))) /\
      rx_panic (read_all_x B H crc (bytes_of crc (its1 ++ It n t' d :: its2))) = false.
Proof using H_is_7 B_big B_small crc_bound.
  intros Hlf. destruct (lf_wellseq f recs boff Hlf) as [its [Hf [Hl [Hw _]]]].
  exists its. split; [exact Hf|]. split; [exact Hl|]. split; [exact Hw|].
  intros its1 n t d its2 t' E. subst its. apply flip_detected; assumption.
Qed.

(** * On the bytes: the type byte of a fragment is the 7th byte after its padding *)

Definition set_byte (k : nat) (v : N) (f : bytes) : bytes := firstn k f ++ [v] ++ skipn (S k) f.

Lemma set_byte_at (p : bytes) x s v : set_byte (length p) v (p ++ x :: s) = p ++ v :: s.
Proof.
  unfold set_byte. rewrite firstn_app_exact. f_equal. cbn [app]. f_equal.
  rewrite skipn_app, skipn_all2 by lia.
  replace (S (length p) - length p)%nat with 1%nat by lia. reflexivity.
Qed.

Lemma nth_at (p : bytes) x s : nth (length p) (p ++ x :: s) 0 = x.
Proof. rewrite app_nth2 by lia. rewrite Nat.sub_diag. reflexivity. Qed.

(** the bytes before the type byte of fragment [It n t d] that follows the fragments [its1] *)
Definition before_type (its1 : list item) (n : N) (d : bytes) : bytes :=
  bytes_of crc its1 ++ zeros (N.to_nat n) ++ le_encode 4 (mask_checksum (crc d)) ++ le_encode 2 (blen d).

Lemma bytes_of_split its1 n t d its2 :
  bytes_of crc (its1 ++ It n t d :: its2) = before_type its1 n d ++ t :: (d ++ bytes_of crc its2).
Proof.
  unfold before_type. rewrite bytes_of_app. cbn [bytes_of item_bytes]. unfold fragment.
  rewrite <- !app_assoc. reflexivity.
Qed.

Lemma length_before_type its1 n d : length (before_type its1 n d) = N.to_nat (size H its1 + n + 6).
Proof using H_is_7 B_big B_small crc_bound.
  unfold before_type. rewrite !app_length, length_zeros. cbn [le_encode length].
  pose proof (a4 blen_bytes_of its1) as Hs. unfold blen in Hs. lia.
Qed.

Lemma type_byte_at its1 n t d its2 :
  nth (N.to_nat (size H its1 + n + 6)) (bytes_of crc (its1 ++ It n t d :: its2)) 0 = t.
Proof using H_is_7 B_big B_small crc_bound.
  rewrite bytes_of_split, <- (length_before_type its1 n d). apply nth_at.
Qed.

Lemma bytes_of_flip its1 n t d its2 t' :
  set_byte (N.to_nat (size H its1 + n + 6)) t' (bytes_of crc (its1 ++ It n t d :: its2))
  = bytes_of crc (its1 ++ It n t' d :: its2).
Proof using H_is_7 B_big B_small crc_bound.
  rewrite !bytes_of_split, <- (length_before_type its1 n d). apply set_byte_at.
Qed.

(** the byte level statement: overwriting the type byte of a fragment that is not the last
    fragment of the file with another valid type is detected *)
Theorem lf_type_byte_flip f recs boff : lf B H crc f recs boff ->
  exists its, f = bytes_of crc its /\ layout_ok B H 0 its /\ wellseq false its = true /\
    forall its1 n t d its2 t',
      its = its1 ++ It n t d :: its2 -> its2 <> [] -> t' <= 3 -> t' <> t ->
      let k := N.to_nat (size H its1 + n + 6) in
      nth k f 0 = t /\
      0 < rx_skipped (read_all_x B H crc (set_byte k t' f)) /\
      rx_panic (read_all_x B H crc (set_byte k t' f)) = false.
Proof using H_is_7 B_big B_small crc_bound.
  intros Hlf. destruct (lf_type_flip f recs boff Hlf) as [its [Hf [Hl [Hw Hflip]]]].
  exists its. split; [exact Hf|]. split; [exact Hl|]. split; [exact Hw|].
  intros its1 n t d its2 t' E Hne Ht' Hdiff k. subst k.
  rewrite Hf, E. split; [apply type_byte_at|].
  rewrite bytes_of_flip. apply (Hflip its1 n t d its2 t' E Hne Ht' Hdiff).
Qed.
End FLIP.

(** * Instance at the parameters of the implementation *)

Local Notation inst L :=
  (L BLOCK_SIZE_BYTES HEADER_LENGTH_BYTES crc32c eq_refl eq_refl eq_refl crc32c_bound) (only parsing).

Theorem logfile_wellseq : forall f recs boff, logfile f recs boff ->
  exists its, f = bytes_of crc32c its /\ layout_ok BLOCK_SIZE_BYTES HEADER_LENGTH_BYTES 0 its /\
              wellseq false its = true /\
              map fst (asm HEADER_LENGTH_BYTES 0 false [] its) = recs.
Proof. exact (lf_wellseq BLOCK_SIZE_BYTES HEADER_LENGTH_BYTES crc32c). Qed.

Theorem log_type_flip_detected : forall its1 n t d its2 t',
  layout_ok BLOCK_SIZE_BYTES HEADER_LENGTH_BYTES 0 (its1 ++ It n t d :: its2) ->
  wellseq false (its1 ++ It n t d :: its2) = true ->
  its2 <> [] -> t' <= 3 -> t' <> t ->
  0 < rx_skipped (log_read_all_x (bytes_of crc32c (its1 ++ It n t' d :: its2))) /\
  rx_panic (log_read_all_x (bytes_of crc32c (its1 ++ It n t' d :: its2))) = false.
Proof. exact (inst flip_detected). Qed.

Theorem logfile_type_flip : forall f recs boff, logfile f recs boff ->
  exists its, f = bytes_of crc32c its /\ layout_ok BLOCK_SIZE_BYTES HEADER_LENGTH_BYTES 0 its /\
    wellseq false its = true /\
    forall its1 n t d its2 t',
      its = its1 ++ It n t d :: its2 -> its2 <> [] -> t' <= 3 -> t' <> t ->
      0 < rx_skipped (log_read_all_x (bytes_of crc32c (its1 ++ It n t' d :: its2))) /\
      rx_panic (log_read_all_x (bytes_of crc32c (its1 ++ It n t' d :: its2))) = false.
Proof. exact (inst lf_type_flip). Qed.

Theorem logfile_type_byte_flip : forall f recs boff, logfile f recs boff ->
  exists its, f = bytes_of crc32c its /\ layout_ok BLOCK_SIZE_BYTES HEADER_LENGTH_BYTES 0 its /\
    wellseq false its = true /\
    forall its1 n t d its2 t',
      its = its1 ++ It n t d :: its2 -> its2 <> [] -> t' <= 3 -> t' <> t ->
      let k := N.to_nat (size HEADER_LENGTH_BYTES its1 + n + 6) in
      nth k f 0 = t /\
      0 < rx_skipped (log_read_all_x (set_byte k t' f)) /\
      rx_panic (log_read_all_x (set_byte k t' f)) = false.
Proof. exact (inst lf_type_byte_flip). Qed.

(** * Examples: three records of one fragment each (10 + 9 + 8 bytes; the type bytes are at the
    offsets 6, 16 and 25) *)

Definition ex_file : bytes := fst (log_append_all 0 [[1; 2; 3]; [4; 5]; [6]]).

Example ex_file_reads :
  log_read_all_x ex_file = mkRX [[1; 2; 3]; [4; 5]; [6]] false 0 true.
Proof. vm_compute. reflexivity. Qed.

Example ex_type_bytes : (nth 6 ex_file 9, nth 16 ex_file 9, nth 25 ex_file 9) = (0, 0, 0).
Proof. vm_compute. reflexivity. Qed.

(** Full -> Middle in the second record: the orphan Middle is dropped and counted *)
Example ex_flip_second_full_to_middle :
  log_read_all_x (set_byte 16 2 ex_file) = mkRX [[1; 2; 3]; [6]] false 1 true.
Proof. vm_compute. reflexivity. Qed.

(** Full -> First in the second record: the First is cut short by the Full after it *)
Example ex_flip_second_full_to_first :
  log_read_all_x (set_byte 16 1 ex_file) = mkRX [[1; 2; 3]; [6]] false 1 true.
Proof. vm_compute. reflexivity. Qed.

(** the exception is real: Full -> First in the LAST fragment of the file is not counted: the
    reader is left inside a fragmented record at the end of the file and the record is lost
    ([rx_skipped = 0]; all that shows is that the file is not reported as read entirely) *)
Example ex_flip_last_full_to_first :
  log_read_all_x (set_byte 25 1 ex_file) = mkRX [[1; 2; 3]; [4; 5]] false 0 false.
Proof. vm_compute. reflexivity. Qed.

(** the same with a small block ([B = 64]) *)
Example ex_flip_small_block :
  let f := fst (append_all 64 7 crc32c 0 [[1; 2; 3]; [4; 5]; [6]]) in
  rx_skipped (read_all_x 64 7 crc32c (set_byte 16 2 f)) = 1 /\
  rx_skipped (read_all_x 64 7 crc32c (set_byte 25 1 f)) = 0.
Proof. vm_compute. split; reflexivity. Qed.

Print Assumptions flip_drops.
Print Assumptions flip_detected.
Print Assumptions lf_type_flip.
Print Assumptions lf_type_byte_flip.
Print Assumptions logfile_wellseq.
Print Assumptions log_type_flip_detected.
Print Assumptions logfile_type_flip.
Print Assumptions logfile_type_byte_flip.
Print Assumptions ex_flip_second_full_to_middle.
Print Assumptions ex_flip_last_full_to_first.
