(** M7 by computation: histories of sessions ending in crashes ([ProtoCrash.session], [hist_end],
    [hist_ok]); recovery from crash images, nested crashes, at every crash point of every session.
    Every statement is closed and proved by [vm_compute; reflexivity]. No axioms. *)
From Coq Require Import List NArith Bool Arith.
Import ListNotations.
From RainVerif Require Import Params.
From RainVerif.model Require Import Bytes Key Block Crc Log Table TableSpec Version Lsm DbSpec Codec WalModel Gc Recover Proto.
From RainVerif.proofs Require Import ContentsProofs ProtoDurable ProtoSteps ProtoOpen ProtoInstall ProtoCrash.
Open Scope N_scope.

(** * helpers (as in [ProtoExamples.v]) *)
Fixpoint list_eqb {A} (eqb : A -> A -> bool) (a b : list A) : bool :=
  match a, b with
  | [], [] => true
  | x :: a', y :: b' => eqb x y && list_eqb eqb a' b'
  | _, _ => false
  end.
Definition kv_eqb (a b : kv) : bool := bytes_eqb (fst a) (fst b) && bytes_eqb (snd a) (snd b).
Definition kvs_eqb : list kv -> list kv -> bool := list_eqb kv_eqb.

Definition contents_of (img : image) : option (list kv) :=
  match recover_image img with inl rc => Some (rec_contents img rc) | inr _ => None end.

Inductive fshape := SCreate (f : fname) | SAppend (f : fname) (len : nat) | STable (n : N) (entries : nat)
                  | SRename (n : N) | SRemove (f : fname).
Definition shape (o : fsop) : fshape :=
  match o with
  | FsCreate f => SCreate f | FsAppend f d => SAppend f (length d) | FsTable n es => STable n (length es)
  | FsRename n => SRename n | FsRemove f => SRemove f
  end.

(** every byte cut of the last operation of a crash prefix *)
Definition cuts_at (eff : list fsop) (n : nat) : list (option nat) :=
  None :: match n with
          | O => [Some 0%nat]
          | S m => match nth_error eff m with
                   | Some (FsAppend _ d) => map Some (seq 0 (S (S (length d))))
                   | _ => [Some 0%nat]
                   end
          end.
Definition crash_points (eff : list fsop) : list (nat * option nat) :=
  flat_map (fun n => map (fun t => (n, t)) (cuts_at eff n)) (seq 0 (S (length eff))).

(** * the check of a history *)
Definition end_check (x : image * list batch) : bool :=
  let '(img, bs) := x in
  match recover_image img with
  | inl rc => kvs_eqb (rec_contents img rc) (replay [] bs) && (rc_seq rc =? nops bs)
  | inr ENoCurrent => match bs with [] => true | _ => false end
  | inr _ => false
  end.
Definition hist_check_from (img : image) (bs : list batch) (h : list session) : bool := end_check (hist_end img bs h).
Definition hist_check (h : list session) : bool := hist_check_from empty_image [] h.

Definition session_eff (img : image) (s : session) : list fsop := snd (p_run (session_start img) (fst s)).

(** the effects of session [j] of a history *)
Definition hist_eff (h : list session) (j : nat) : list fsop :=
  match nth_error h j with
  | Some s => session_eff (fst (hist_end empty_image [] (firstn j h))) s
  | None => []
  end.

(** session [j] of [h] crashed at every point instead, the history truncated after it: the check;
    then one more session [conts] (nested crash recovery), [hist_ok] and the check again *)
Definition every_crash_of_session (h : list session) (j : nat) (conts : list session) : bool :=
  match nth_error h j with
  | None => false
  | Some s =>
      let '(img, bs) := hist_end empty_image [] (firstn j h) in
      let eff := session_eff img s in
      forallb (fun p =>
                 let h1 := [(fst s, Some p)] in
                 hist_ok img h1 && hist_check_from img bs h1
                 && forallb (fun c => let h2 := [(fst s, Some p); c] in hist_ok img h2 && hist_check_from img bs h2) conts)
              (crash_points eff)
  end.
Definition failing_crashes (h : list session) (j : nat) (conts : list session) : list (nat * option nat * list bool) :=
  match nth_error h j with
  | None => []
  | Some s =>
      let '(img, bs) := hist_end empty_image [] (firstn j h) in
      let eff := session_eff img s in
      flat_map (fun p =>
                 let h1 := [(fst s, Some p)] in
                 let r := [hist_ok img h1; hist_check_from img bs h1]
                          ++ flat_map (fun c => let h2 := [(fst s, Some p); c] in [hist_ok img h2; hist_check_from img bs h2]) conts in
                 if forallb (fun b => b) r then [] else [(p, r)])
              (crash_points eff)
  end.

Definition cont (r : bool) : session := ([QOpen (mkOO r 1000000 [] []); QWrite [WPut [9] [99]]], None).
Definition conts : list session := [cont true; cont false].

(** * 1. three sessions, two crashes *)
Definition oo_fresh : open_oracle := mkOO false 1000000 [] [].
Definition oo_reuse : open_oracle := mkOO true 1000000 [] [].

Definition s1_ops : list pop :=
  [ QOpen oo_fresh;
    QWrite [WPut [1] [10]; WPut [2] [20]];       (* 1 2 *)
    QWrite [WDel [1]; WPut [3] [30]];            (* 3 4 *)
    QRotate;
    QWrite [WPut [4] [40]];                      (* 5 *)
    QFlush 0 100 4 ].
Definition s1 : session := (s1_ops, Some (20%nat, Some 17%nat)).
Definition s2_ops : list pop := [ QOpen oo_fresh; QWrite [WPut [5] [50]] ].
Definition s2 : session := (s2_ops, Some (10%nat, Some 11%nat)).
Definition s3 (r : bool) : session := ([QOpen (mkOO r 1000000 [] []); QWrite [WPut [6] [60]; WDel [2]]], None).
Definition hx (r : bool) : list session := [s1; s2; s3 r].

(** session 1 crashes inside the flush, exactly at its manifest append (file operation 19, 39
    bytes), the record torn after 17 bytes: table 5 is complete but not recorded *)
Example s1_effects : map shape (session_eff empty_image (s1_ops, None)) =
  [ SCreate (FManifest 1); SAppend (FManifest 1) 13; SCreate (FTemp 1); SAppend (FTemp 1) 20; SRename 1;
    SCreate (FWal 3); SCreate (FManifest 2); SAppend (FManifest 2) 7; SAppend (FManifest 2) 13;
    SCreate (FTemp 2); SAppend (FTemp 2) 20; SRename 2; SRemove (FManifest 1);
    SAppend (FWal 3) 26; SAppend (FWal 3) 24; SCreate (FWal 4); SAppend (FWal 4) 21;
    SCreate (FTable 5); STable 5 4; SAppend (FManifest 2) 39; SRemove (FWal 3) ].
Proof. vm_compute; reflexivity. Qed.
Definition img1 : image := session_end empty_image s1.
Example img1_files :
  (map (fun p => (fst p, length (snd p))) (i_manifests img1), map (fun p => (fst p, length (snd p))) (i_wals img1),
   map fst (i_tables img1), option_map parse_current (i_current img1))
  = ([(2, 37%nat)], [(3, 50%nat); (4, 21%nat)], [5], Some (Some 2)).
Proof. vm_compute; reflexivity. Qed.

(** session 2 recovers without reuse: both logs are flushed again (the orphan table 5 is
    overwritten under the same number), a new manifest 4 is written completely; the crash is in the
    write of the temporary CURRENT (file operation 9, 20 bytes, torn after 11), before the rename *)
Example s2_effects : map shape (session_eff img1 (s2_ops, None)) =
  [ SCreate (FTable 5); STable 5 4; SCreate (FTable 6); STable 6 1; SCreate (FWal 7);
    SCreate (FManifest 4); SAppend (FManifest 4) 7; SAppend (FManifest 4) 65;
    SCreate (FTemp 4); SAppend (FTemp 4) 20; SRename 4;
    SRemove (FWal 3); SRemove (FWal 4); SRemove (FManifest 2); SAppend (FWal 7) 21 ].
Proof. vm_compute; reflexivity. Qed.
Definition img2 : image := session_end img1 s2.
Example img2_files :
  (map (fun p => (fst p, length (snd p))) (i_manifests img2), map (fun p => (fst p, length (snd p))) (i_wals img2),
   map fst (i_tables img2), map (fun p => (fst p, length (snd p))) (i_temps img2), option_map parse_current (i_current img2))
  = ([(2, 37%nat); (4, 72%nat)], [(3, 50%nat); (4, 21%nat); (7, 0%nat)], [5; 6], [(4, 11%nat)], Some (Some 2)).
Proof. vm_compute; reflexivity. Qed.

(** session 3, with reuse: manifest 2 has a torn tail and is not reused, the orphan manifest 4 is
    truncated and rewritten; logs 3 and 4 are flushed, the orphan empty log 7 is the last one and
    is reused. Without reuse: a new log 8, log 7 collected. *)
Example s3_effects_reuse : map shape (hist_eff (hx true) 2) =
  [ SCreate (FTable 5); STable 5 4; SCreate (FTable 6); STable 6 1;
    SCreate (FManifest 4); SAppend (FManifest 4) 7; SAppend (FManifest 4) 65;
    SCreate (FTemp 4); SAppend (FTemp 4) 20; SRename 4;
    SRemove (FWal 3); SRemove (FWal 4); SRemove (FManifest 2); SAppend (FWal 7) 24 ].
Proof. vm_compute; reflexivity. Qed.
Example s3_effects_fresh : map shape (hist_eff (hx false) 2) =
  [ SCreate (FTable 5); STable 5 4; SCreate (FTable 6); STable 6 1; SCreate (FWal 8);
    SCreate (FManifest 4); SAppend (FManifest 4) 7; SAppend (FManifest 4) 65;
    SCreate (FTemp 4); SAppend (FTemp 4) 20; SRename 4;
    SRemove (FWal 3); SRemove (FWal 4); SRemove (FWal 7); SRemove (FManifest 2); SAppend (FWal 8) 24 ].
Proof. vm_compute; reflexivity. Qed.

Example hx_ok : (hist_ok empty_image (hx true), hist_ok empty_image (hx false)) = (true, true).
Proof. vm_compute; reflexivity. Qed.
Example hx_check : (hist_check (hx true), hist_check (hx false)) = (true, true).
Proof. vm_compute; reflexivity. Qed.
Example hx_kept : snd (hist_end empty_image [] (hx true)) =
  [ (1, [WPut [1] [10]; WPut [2] [20]]); (3, [WDel [1]; WPut [3] [30]]); (5, [WPut [4] [40]]);
    (6, [WPut [6] [60]; WDel [2]]) ].
Proof. vm_compute; reflexivity. Qed.
Example hx_contents :
  map (fun r => contents_of (fst (hist_end empty_image [] (hx r)))) [true; false]
  = repeat (Some [([3], [30]); ([4], [40]); ([6], [60])]) 2.
Proof. vm_compute; reflexivity. Qed.
(** the contents after each session *)
Example hx_contents_by_session :
  map (fun j => contents_of (fst (hist_end empty_image [] (firstn j (hx true))))) [1; 2; 3]%nat
  = [ Some [([2], [20]); ([3], [30]); ([4], [40])]; Some [([2], [20]); ([3], [30]); ([4], [40])];
      Some [([3], [30]); ([4], [40]); ([6], [60])] ].
Proof. vm_compute; reflexivity. Qed.

(** * 2. every crash point of every session, then a nested recovery with a write
    (C16: a write acknowledged after recovering from a torn tail is there after the next reopen) *)
Example hx_crash_point_counts :
  (map (fun j => length (crash_points (hist_eff (hx true) j))) [0; 1; 2]%nat, length (crash_points (hist_eff (hx false) 2)))
  = ([236; 149; 150]%nat, 154%nat).
Proof. vm_compute; reflexivity. Qed.
Example hx_every_crash_session1 : every_crash_of_session (hx true) 0 conts = true.
Proof. vm_compute; reflexivity. Qed.
Example hx_every_crash_session2 : every_crash_of_session (hx true) 1 conts = true.
Proof. vm_compute; reflexivity. Qed.
Example hx_every_crash_session3_reuse : every_crash_of_session (hx true) 2 conts = true.
Proof. vm_compute; reflexivity. Qed.
Example hx_every_crash_session3_fresh : every_crash_of_session (hx false) 2 conts = true.
Proof. vm_compute; reflexivity. Qed.

(** three levels: session 2 (a recovery) crashed at every file operation, the next recovery
    crashed at every byte cut, then a clean session *)
Definition nested3 (h : list session) (j : nat) (mid last : session) : bool :=
  match nth_error h j with
  | None => false
  | Some s =>
      let '(img, bs) := hist_end empty_image [] (firstn j h) in
      let eff := session_eff img s in
      forallb (fun n =>
                 let s' : session := (fst s, Some (n, None)) in
                 let img' := session_end img s' in
                 let bs' := bs ++ session_keeps img (nops bs) s' in
                 forallb (fun p => let h2 := [(fst mid, Some p); last] in hist_ok img' h2 && hist_check_from img' bs' h2)
                         (crash_points (session_eff img' mid)))
              (seq 0 (S (length eff)))
  end.
Definition nested3_count (h : list session) (j : nat) (mid : session) : nat :=
  match nth_error h j with
  | None => O
  | Some s =>
      let '(img, bs) := hist_end empty_image [] (firstn j h) in
      fold_left (fun a n => (a + length (crash_points (session_eff (session_end img (fst s, Some (n, None))) mid)))%nat)
                (seq 0 (S (length (session_eff img s)))) O
  end.
Example hx_nested3_count : nested3_count (hx true) 1 (cont false) = 2388%nat.
Proof. vm_compute; reflexivity. Qed.
Example hx_nested3 : nested3 (hx true) 1 (cont false) (cont true) = true.
Proof. vm_compute; reflexivity. Qed.

(** * 3. a torn log tail, then reuse *)
Definition t_ops : list pop :=
  [ QOpen oo_fresh; QWrite [WPut [1] [10]; WPut [2] [20]]; QWrite [WPut [3] [30]; WDel [1]] ].
(** the second write (24 bytes) cut after 12 *)
Definition tA : session := (t_ops, Some (15%nat, Some 12%nat)).
Definition imgA : image := session_end empty_image tA.
Definition tB_ops : list pop := [ QOpen oo_reuse; QWrite [WPut [4] [40]; WPut [5] [50]] ].
Example tA_effects : map shape (session_eff empty_image tA) =
  [ SCreate (FManifest 1); SAppend (FManifest 1) 13; SCreate (FTemp 1); SAppend (FTemp 1) 20; SRename 1;
    SCreate (FWal 3); SCreate (FManifest 2); SAppend (FManifest 2) 7; SAppend (FManifest 2) 13;
    SCreate (FTemp 2); SAppend (FTemp 2) 20; SRename 2; SRemove (FManifest 1);
    SAppend (FWal 3) 26; SAppend (FWal 3) 24 ].
Proof. vm_compute; reflexivity. Qed.
(** recovery reads one batch from log 3 and reports it not intact: with the reuse option the
    manifest (intact) is appended to, but log 3 is NOT reused: it is flushed to table 5, replaced
    by log 6 and collected *)
Example tA_log_not_intact :
  match recover_image imgA with
  | inl rc => map (fun w => (wr_number w, length (wr_batches w), wr_intact w)) (rc_wals rc)
  | inr _ => []
  end = [(3, 1%nat, false)].
Proof. vm_compute; reflexivity. Qed.
Example tB_effects : map shape (session_eff imgA (tB_ops, None)) =
  [ SCreate (FTable 5); STable 5 2; SCreate (FWal 6); SAppend (FManifest 2) 39; SRemove (FWal 3);
    SAppend (FWal 6) 26 ].
Proof. vm_compute; reflexivity. Qed.
(** session 2's write cut at every byte (0 .. 27), session 3 with and without reuse, clean *)
Definition tC (r : bool) : session := ([QOpen (mkOO r 1000000 [] []); QWrite [WDel [2]; WPut [6] [60]]], None).
Definition ht (t : nat) (r : bool) : list session := [tA; (tB_ops, Some (6%nat, Some t)); tC r].
Example ht_all :
  forallb (fun t => forallb (fun r => hist_ok empty_image (ht t r) && hist_check (ht t r)) [true; false]) (seq 0 28) = true.
Proof. vm_compute; reflexivity. Qed.
Example ht_contents :
  map (fun t => contents_of (fst (hist_end empty_image [] (ht t true)))) [0; 1; 25; 26; 27]%nat
  = [ Some [([1], [10]); ([6], [60])]; Some [([1], [10]); ([6], [60])]; Some [([1], [10]); ([6], [60])];
      Some [([1], [10]); ([4], [40]); ([5], [50]); ([6], [60])]; Some [([1], [10]); ([4], [40]); ([5], [50]); ([6], [60])] ].
Proof. vm_compute; reflexivity. Qed.
(** and every crash point of sessions 2 and 3 of this history, with nested recoveries *)
Example ht_every_crash_session2 : every_crash_of_session (ht 13 true) 1 conts = true.
Proof. vm_compute; reflexivity. Qed.
Example ht_every_crash_session3 : every_crash_of_session (ht 13 true) 2 conts = true.
Proof. vm_compute; reflexivity. Qed.

(** * 4. a crash during the very first open, before CURRENT exists *)
Definition f_ops : list pop := [ QOpen oo_fresh; QWrite [WPut [1] [10]] ].
Definition hf (p : nat * option nat) (r : bool) : list session :=
  [ (f_ops, Some p); ([QOpen (mkOO r 1000000 [] []); QWrite [WPut [2] [20]; WPut [3] [30]]], None) ].
Definition init_points : list (nat * option nat) :=
  filter (fun p => (fst p <=? 5)%nat) (crash_points (session_eff empty_image (f_ops, None))).
Example hf_count : length init_points = 47%nat.
Proof. vm_compute; reflexivity. Qed.
(** CURRENT does not exist at any of them except after the rename (n = 5) *)
Example hf_no_current :
  forallb (fun p => match i_current (session_end empty_image (f_ops, Some p)) with
                    | None => (fst p <=? 4)%nat | Some _ => Nat.eqb (fst p) 5 end) init_points = true.
Proof. vm_compute; reflexivity. Qed.
Example hf_all :
  forallb (fun p => forallb (fun r => hist_ok empty_image (hf p r) && hist_check (hf p r)
                                      && hist_check (firstn 1 (hf p r))) [true; false]) init_points = true.
Proof. vm_compute; reflexivity. Qed.
Example hf_contents :
  map (fun p => contents_of (fst (hist_end empty_image [] (hf p false)))) [(0, None); (2, Some 5); (4, Some 19); (5, None)]%nat
  = repeat (Some [([2], [20]); ([3], [30])]) 4.
Proof. vm_compute; reflexivity. Qed.

Print Assumptions hx_every_crash_session2.
Print Assumptions hx_nested3.
Print Assumptions ht_all.
Print Assumptions hf_all.
