(** Proofs about the filter block builder / reader model ([model/FilterBlock.v]):
    serialize/parse round trip and no false negatives at block start offsets. *)
From Coq Require Import Lia ZArith ZifyN ZifyBool ZifyNat Arith.
From RainVerif Require Import Params.
From RainVerif.model Require Import Bytes Bloom FilterBlock.
From RainVerif.proofs Require Import BloomProofs.
Open Scope N_scope.
Ltac Zify.zify_post_hook ::= Z.div_mod_to_equations.
Arguments N.add : simpl never.
Arguments N.sub : simpl never.
Arguments N.mul : simpl never.
Arguments N.div : simpl never.
Arguments N.modulo : simpl never.
Arguments N.eqb : simpl never.
Arguments N.ltb : simpl never.
Arguments N.leb : simpl never.
Arguments N.pow : simpl never.
Arguments N.of_nat : simpl never.
Arguments N.to_nat : simpl never.

(** * list / bytes helpers *)

Lemma firstn_app_exact {A} (a b : list A) : firstn (length a) (a ++ b) = a.
Proof.
  rewrite firstn_app, Nat.sub_diag, firstn_all. cbn [firstn]. apply app_nil_r.
Qed.

Lemma skipn_app_exact {A} (a b : list A) : skipn (length a) (a ++ b) = b.
Proof.
  rewrite skipn_app, Nat.sub_diag, skipn_all. reflexivity.
Qed.

Lemma blen_app a b : blen (a ++ b) = blen a + blen b.
Proof. unfold blen. rewrite app_length. lia. Qed.

Lemma blen_nil : blen [] = 0.
Proof. reflexivity. Qed.

Lemma takeN_app_exact a b : takeN (blen a) (a ++ b) = a.
Proof. unfold takeN, blen. rewrite Nat2N.id. apply firstn_app_exact. Qed.

Lemma dropN_app_exact a b : dropN (blen a) (a ++ b) = b.
Proof. unfold dropN, blen. rewrite Nat2N.id. apply skipn_app_exact. Qed.

Lemma le_encode_length n v : length (le_encode n v) = n.
Proof.
  revert v. induction n as [|n IH]; intros v; cbn [le_encode length]; [reflexivity|].
  rewrite IH. reflexivity.
Qed.

Lemma le_decode_encode4 v : v < 4294967296 -> le_decode (le_encode 4 v) = v.
Proof. intros Hv. cbn [le_encode le_decode]. lia. Qed.

Lemma w32_small x : x < 4294967296 -> w32 x = x.
Proof. unfold w32. intros H. lia. Qed.

Lemma w32_bound x : w32 x < 4294967296.
Proof. unfold w32. lia. Qed.

Lemma nth_last_app (X : bytes) e : nth (length (X ++ [e]) - 1) (X ++ [e]) 0 = e.
Proof.
  rewrite app_length. cbn [length].
  replace (length X + 1 - 1)%nat with (length X) by lia.
  rewrite app_nth2 by lia. rewrite Nat.sub_diag. reflexivity.
Qed.

Lemma firstn_last_app (X : bytes) e : firstn (length (X ++ [e]) - 1) (X ++ [e]) = X.
Proof.
  rewrite app_length. cbn [length].
  replace (length X + 1 - 1)%nat with (length X) by lia.
  apply firstn_app_exact.
Qed.

Lemma skipn_tail4 (A L : bytes) e :
  length L = 4%nat -> skipn (length ((A ++ L) ++ [e]) - 5) (A ++ L) = L.
Proof.
  intros HL. rewrite !app_length, HL. cbn [length].
  replace (length A + 4 + 1 - 5)%nat with (length A) by lia.
  apply skipn_app_exact.
Qed.

Lemma concat_encode4_length vs :
  length (concat (map (le_encode 4) vs)) = (4 * length vs)%nat.
Proof.
  induction vs as [|v r IH]; [reflexivity|].
  cbn [map concat]. rewrite app_length, le_encode_length, IH. cbn [length]. lia.
Qed.

(** * serialize / parse round trip *)

Lemma offsets_of_length cur fs : length (offsets_of cur fs) = length fs.
Proof.
  revert cur. induction fs as [|f r IH]; intros cur; cbn [offsets_of length]; [reflexivity|].
  rewrite IH. reflexivity.
Qed.

Lemma offsets_of_bound cur fs : Forall (fun v => v < 4294967296) (offsets_of cur fs).
Proof.
  revert cur. induction fs as [|f r IH]; intros cur; cbn [offsets_of]; constructor.
  - apply w32_bound.
  - apply IH.
Qed.

Lemma chunks4_encode vs fuel :
  Forall (fun v => v < 4294967296) vs -> (length vs <= fuel)%nat ->
  chunks4 fuel (concat (map (le_encode 4) vs)) = vs.
Proof.
  revert fuel. induction vs as [|v r IH]; intros fuel HF Hlen.
  - destruct fuel; reflexivity.
  - destruct fuel as [|fuel]; [cbn [length] in Hlen; lia|].
    inversion HF as [|? ? Hv HF']; subst.
    cbn [map concat].
    assert (Hsplit : le_encode 4 v ++ concat (map (le_encode 4) r) =
                     v mod 256 :: (v / 256) mod 256 :: (v / 256 / 256) mod 256
                       :: (v / 256 / 256 / 256) mod 256 :: concat (map (le_encode 4) r))
      by reflexivity.
    rewrite Hsplit. cbn [chunks4 firstn skipn].
    f_equal.
    + pose proof (le_decode_encode4 v Hv) as Hd. cbn [le_encode] in Hd. exact Hd.
    + apply IH; [assumption|]. cbn [length] in Hlen. lia.
Qed.

Lemma split_filters_one o raw :
  split_filters [o] raw = if blen raw <? o then None else Some [dropN o raw].
Proof. reflexivity. Qed.

Lemma split_filters_cons2 o o' r raw :
  split_filters (o :: o' :: r) raw =
  if (o' <? o) || (blen raw <? o') then None
  else match split_filters (o' :: r) raw with
       | None => None
       | Some fs => Some (takeN (o' - o) (dropN o raw) :: fs)
       end.
Proof. reflexivity. Qed.

Lemma split_offsets (fs : list bytes) (pre : bytes) :
  blen pre + blen (concat fs) < 4294967296 ->
  split_filters (offsets_of (blen pre) fs) (pre ++ concat fs) = Some fs.
Proof.
  revert pre. induction fs as [|f r IH]; intros pre Hb.
  - reflexivity.
  - cbn [concat] in Hb |- *. rewrite blen_app in Hb.
    cbn [offsets_of].
    rewrite (w32_small (blen pre)) by lia.
    destruct r as [|g r'].
    + cbn [offsets_of concat]. rewrite split_filters_one.
      rewrite !blen_app.
      destruct (blen pre + (blen f + blen []) <? blen pre) eqn:Hc; [lia|].
      rewrite dropN_app_exact. rewrite app_nil_r. reflexivity.
    + assert (Hb' : blen pre + blen f + blen (concat (g :: r')) < 4294967296) by lia.
      specialize (IH (pre ++ f)). rewrite blen_app in IH. specialize (IH Hb').
      remember (concat (g :: r')) as rest eqn:Hrest.
      assert (Hoffs : offsets_of (blen pre + blen f) (g :: r') =
                      (blen pre + blen f) :: offsets_of (blen pre + blen f + blen g) r').
      { cbn [offsets_of]. rewrite w32_small by lia. reflexivity. }
      rewrite Hoffs in *. rewrite split_filters_cons2.
      rewrite app_assoc. rewrite IH.
      rewrite !blen_app.
      destruct ((blen pre + blen f <? blen pre)
                || (blen pre + blen f + blen rest <? blen pre + blen f)) eqn:Hc;
        [apply orb_true_iff in Hc; destruct Hc; lia|].
      rewrite <- app_assoc. rewrite dropN_app_exact.
      replace (blen pre + blen f - blen pre) with (blen f) by lia.
      rewrite takeN_app_exact. reflexivity.
Qed.

Lemma fr_new_layout (A L : bytes) e :
  length L = 4%nat ->
  fr_new ((A ++ L) ++ [e]) =
  let start := le_decode L in
  if blen A <? start then FPanic
  else
    let raw_offs := firstn (N.to_nat (blen A - start)) (dropN start (A ++ L)) in
    if negb (blen raw_offs mod 4 =? 0) then FErr
    else
      match split_filters (chunks4 (length raw_offs) raw_offs) (takeN start (A ++ L)) with
      | None => FPanic
      | Some fs => FOk (mkFR fs e)
      end.
Proof.
  intros HL. unfold fr_new.
  assert (H5 : blen ((A ++ L) ++ [e]) <? 5 = false).
  { rewrite !blen_app. unfold blen at 2 3. rewrite HL. cbn [length]. lia. }
  rewrite H5.
  rewrite nth_last_app, firstn_last_app, skipn_tail4 by assumption.
  assert (HA : blen (A ++ L) - 4 = blen A).
  { rewrite blen_app. unfold blen at 2. rewrite HL. lia. }
  rewrite HA. reflexivity.
Qed.

Theorem fr_new_serialize (E : N) (fs : list bytes) :
  blen (concat fs) < 4294967296 ->
  fr_new (serialize_filters E fs) = FOk (mkFR fs E).
Proof.
  intros Hb. unfold serialize_filters.
  set (body := concat fs) in *.
  set (offs := offsets_of 0 fs).
  set (offb := concat (map (le_encode 4) offs)).
  set (len4 := le_encode 4 (w32 (blen body))).
  assert (Hshape : body ++ offb ++ len4 ++ [E] = ((body ++ offb) ++ len4) ++ [E]).
  { rewrite <- !app_assoc. reflexivity. }
  rewrite Hshape.
  rewrite fr_new_layout by apply le_encode_length.
  assert (Hstart : le_decode len4 = blen body).
  { unfold len4. rewrite w32_small by assumption. apply le_decode_encode4. assumption. }
  rewrite Hstart. cbv zeta.
  rewrite blen_app.
  destruct (blen body + blen offb <? blen body) eqn:Hc; [lia|].
  replace (blen body + blen offb - blen body) with (blen offb) by lia.
  rewrite <- !app_assoc. rewrite dropN_app_exact, takeN_app_exact.
  fold (takeN (blen offb) (offb ++ len4)). rewrite takeN_app_exact.
  assert (Hlen : length offb = (4 * length fs)%nat).
  { unfold offb. rewrite concat_encode4_length. unfold offs. rewrite offsets_of_length.
    reflexivity. }
  assert (Hmod : blen offb mod 4 =? 0 = true).
  { unfold blen. rewrite Hlen. lia. }
  rewrite Hmod. cbn [negb].
  assert (Hch : chunks4 (length offb) offb = offs).
  { apply (chunks4_encode offs (length offb)).
    - apply offsets_of_bound.
    - rewrite Hlen. unfold offs. rewrite offsets_of_length. lia. }
  rewrite Hch.
  pose proof (split_offsets fs []) as Hsp.
  rewrite blen_nil in Hsp. cbn [app] in Hsp. fold body in Hsp. fold offs in Hsp.
  rewrite Hsp by lia. reflexivity.
Qed.

Lemma serialize_filters_blen (E : N) (fs : list bytes) : blen (concat fs) <= blen (serialize_filters E fs).
Proof. unfold serialize_filters. rewrite blen_app. lia. Qed.

Section FBPROOFS.
Variable pcreate : list bytes -> option bytes.
Variable E : N.

(** * the builder *)

(** the filter list the builder ends up serializing *)
Definition builder_filters (evs : list fb_event) : option (list bytes) :=
  match run_events pcreate E fb_new evs with
  | None => None
  | Some b =>
      match fb_keys b with
      | [] => Some (fb_filters b)
      | _ :: _ =>
          match generate_filter pcreate b with
          | None => None
          | Some b' => Some (fb_filters b')
          end
      end
  end.

Lemma build_filter_block_eq evs :
  build_filter_block pcreate E evs =
  match builder_filters evs with
  | None => None
  | Some fs => Some (serialize_filters E fs)
  end.
Proof.
  unfold build_filter_block, builder_filters, finalize.
  destruct (run_events pcreate E fb_new evs) as [b|]; [|reflexivity].
  destruct (fb_keys b) as [|k ks]; [reflexivity|].
  destruct (generate_filter pcreate b) as [b'|]; reflexivity.
Qed.

(** bookkeeping over event lists *)
Fixpoint offs_mono (cur : N) (evs : list fb_event) : Prop :=
  match evs with
  | [] => True
  | EvKey _ :: r => offs_mono cur r
  | EvNotify o :: r => cur <= o /\ offs_mono o r
  end.

Fixpoint last_off (cur : N) (evs : list fb_event) : N :=
  match evs with
  | [] => cur
  | EvKey _ :: r => last_off cur r
  | EvNotify o :: r => last_off o r
  end.

(** every key occurrence, paired with the offset of the last preceding notification, i.e. the
    start offset of the data block the key belongs to *)
Fixpoint seen_of (cur : N) (evs : list fb_event) : list (N * bytes) :=
  match evs with
  | [] => []
  | EvKey k :: r => (cur, k) :: seen_of cur r
  | EvNotify o :: r => seen_of o r
  end.

Fixpoint count_keys (evs : list fb_event) : nat :=
  match evs with
  | [] => 0
  | EvKey _ :: r => S (count_keys r)
  | EvNotify _ :: r => count_keys r
  end.

Lemma offs_mono_app cur a b :
  offs_mono cur (a ++ b) <-> offs_mono cur a /\ offs_mono (last_off cur a) b.
Proof.
  revert cur. induction a as [|ev a IH]; intros cur; cbn [app offs_mono last_off].
  - tauto.
  - destruct ev as [k|o].
    + apply IH.
    + rewrite IH. tauto.
Qed.

Lemma last_off_app cur a b : last_off cur (a ++ b) = last_off (last_off cur a) b.
Proof.
  revert cur. induction a as [|ev a IH]; intros cur; cbn [app last_off]; [reflexivity|].
  destruct ev; apply IH.
Qed.

Lemma seen_of_app cur a b :
  seen_of cur (a ++ b) = seen_of cur a ++ seen_of (last_off cur a) b.
Proof.
  revert cur. induction a as [|ev a IH]; intros cur; cbn [app seen_of last_off]; [reflexivity|].
  destruct ev as [k|o].
  - rewrite IH. reflexivity.
  - apply IH.
Qed.

Lemma offs_mono_keys cur ks : offs_mono cur (map EvKey ks).
Proof. induction ks as [|k ks IH]; cbn [map offs_mono]; auto. Qed.

Lemma last_off_keys cur ks : last_off cur (map EvKey ks) = cur.
Proof. induction ks as [|k ks IH]; cbn [map last_off]; auto. Qed.

Lemma seen_of_keys cur ks : seen_of cur (map EvKey ks) = map (pair cur) ks.
Proof. induction ks as [|k ks IH]; cbn [map seen_of]; [reflexivity|]. rewrite IH. reflexivity. Qed.

Lemma seen_of_split cur pre key post :
  In (last_off cur pre, key) (seen_of cur (pre ++ EvKey key :: post)).
Proof.
  rewrite seen_of_app. apply in_or_app. right. cbn [seen_of]. left. reflexivity.
Qed.

(** [covered fs s key]: the filter responsible for offset [s] exists and was created from a key
    set containing [key] *)
Definition covered (fs : list bytes) (s : N) (key : bytes) : Prop :=
  exists ks f, nth_error fs (N.to_nat (s / 2 ^ E)) = Some f /\ pcreate ks = Some f /\ In key ks.

Lemma covered_app fs ext s key : covered fs s key -> covered (fs ++ ext) s key.
Proof.
  intros (ks & f & Hn & Hc & Hin). exists ks, f. split; [|split; assumption].
  rewrite nth_error_app1; [assumption|].
  apply nth_error_Some. congruence.
Qed.

Definition inv (b : fbuilder) (cur : N) (seen : list (N * bytes)) : Prop :=
  N.of_nat (length (fb_filters b)) = cur / 2 ^ E /\
  forall s key, In (s, key) seen ->
    (In key (fb_keys b) /\ s / 2 ^ E = cur / 2 ^ E) \/ covered (fb_filters b) s key.

Lemma generate_filter_spec b b' :
  generate_filter pcreate b = Some b' ->
  fb_keys b' = [] /\
  exists f, fb_filters b' = fb_filters b ++ [f] /\
            (fb_keys b <> [] -> pcreate (fb_keys b) = Some f).
Proof.
  unfold generate_filter. destruct (fb_keys b) as [|k ks] eqn:Hk.
  - intros H. injection H as <-. cbn [fb_keys fb_filters]. split; [reflexivity|].
    exists []. split; [reflexivity|]. congruence.
  - destruct (pcreate (k :: ks)) as [f|] eqn:Hc; [|discriminate].
    intros H. injection H as <-. cbn [fb_keys fb_filters]. split; [reflexivity|].
    exists f. split; [reflexivity|]. intros _. reflexivity.
Qed.

Lemma generate_n_nokeys n b b' :
  fb_keys b = [] -> generate_n pcreate n b = Some b' ->
  fb_keys b' = [] /\ exists ext, fb_filters b' = fb_filters b ++ ext /\ length ext = n.
Proof.
  revert b. induction n as [|n IH]; intros b Hk H; cbn [generate_n] in H.
  - injection H as <-. split; [assumption|]. exists []. rewrite app_nil_r. auto.
  - destruct (generate_filter pcreate b) as [b1|] eqn:Hg; [|discriminate].
    apply generate_filter_spec in Hg. destruct Hg as (Hk1 & f & Hf & _).
    destruct (IH b1 Hk1 H) as (Hk' & ext & Hext & Hlen).
    split; [assumption|]. exists (f :: ext). split.
    + rewrite Hext, Hf, <- app_assoc. reflexivity.
    + cbn [length]. lia.
Qed.

Lemma generate_n_S n b b' :
  generate_n pcreate (S n) b = Some b' ->
  fb_keys b' = [] /\
  exists f ext, fb_filters b' = fb_filters b ++ f :: ext /\ length ext = n /\
                (fb_keys b <> [] -> pcreate (fb_keys b) = Some f).
Proof.
  cbn [generate_n]. intros H.
  destruct (generate_filter pcreate b) as [b1|] eqn:Hg; [|discriminate].
  apply generate_filter_spec in Hg. destruct Hg as (Hk1 & f & Hf & Hc).
  destruct (generate_n_nokeys n b1 b' Hk1 H) as (Hk' & ext & Hext & Hlen).
  split; [assumption|]. exists f, ext. split; [|split; assumption].
  rewrite Hext, Hf, <- app_assoc. reflexivity.
Qed.

Lemma pow2E_nz : 2 ^ E <> 0.
Proof. apply N.pow_nonzero. discriminate. Qed.

Lemma inv_notify b cur seen off b' :
  inv b cur seen -> cur <= off -> notify pcreate E b off = Some b' -> inv b' off seen.
Proof.
  intros [Hlen Hseen] Hle Hn. unfold notify in Hn.
  pose proof (N.div_le_mono cur off (2 ^ E) pow2E_nz Hle) as Hdiv.
  set (ci := cur / 2 ^ E) in *. set (oi := off / 2 ^ E) in *.
  destruct (N.to_nat (oi - N.of_nat (length (fb_filters b)))) as [|n] eqn:Hcnt.
  - cbn [generate_n] in Hn. injection Hn as <-.
    assert (Heq : oi = ci) by lia.
    unfold inv. fold oi. rewrite Heq. fold ci. split; [assumption|].
    intros s key Hin. apply Hseen. assumption.
  - apply generate_n_S in Hn. destruct Hn as (Hk' & f & ext & Hf & Hext & Hc).
    unfold inv. fold oi. split.
    + rewrite Hf, app_length. cbn [length]. lia.
    + intros s key Hin. right.
      destruct (Hseen s key Hin) as [[Hpend Hs]|Hcov].
      * exists (fb_keys b), f. split; [|split].
        -- rewrite Hf. rewrite Hs. fold ci. rewrite <- Hlen. rewrite Nat2N.id.
           rewrite nth_error_app2 by lia. rewrite Nat.sub_diag. reflexivity.
        -- apply Hc. intros Hnil. rewrite Hnil in Hpend. destruct Hpend.
        -- assumption.
      * rewrite Hf. apply covered_app. assumption.
Qed.

Lemma inv_add_key b cur seen k :
  inv b cur seen -> inv (FilterBlock.add_key b k) cur (seen ++ [(cur, k)]).
Proof.
  intros [Hlen Hseen]. unfold inv, FilterBlock.add_key. cbn [fb_keys fb_filters].
  split; [assumption|].
  intros s key Hin. apply in_app_or in Hin. destruct Hin as [Hin|Hin].
  - destruct (Hseen s key Hin) as [[Hpend Hs]|Hcov].
    + left. split; [apply in_or_app; left; assumption|assumption].
    + right. assumption.
  - destruct Hin as [Heq|[]]. injection Heq as <- <-.
    left. split; [apply in_or_app; right; left; reflexivity|reflexivity].
Qed.

Lemma run_events_inv evs : forall b cur seen b',
  inv b cur seen -> offs_mono cur evs -> run_events pcreate E b evs = Some b' ->
  inv b' (last_off cur evs) (seen ++ seen_of cur evs).
Proof.
  induction evs as [|ev evs IH]; intros b cur seen b' Hinv Hmono Hrun.
  - cbn [run_events] in Hrun. injection Hrun as <-. cbn [last_off seen_of].
    rewrite app_nil_r. assumption.
  - destruct ev as [k|off]; cbn [run_events offs_mono last_off seen_of] in *.
    + replace (seen ++ (cur, k) :: seen_of cur evs) with ((seen ++ [(cur, k)]) ++ seen_of cur evs)
        by (rewrite <- app_assoc; reflexivity).
      apply IH with (b := FilterBlock.add_key b k); [|assumption|assumption].
      apply inv_add_key. assumption.
    + destruct Hmono as [Hle Hmono].
      destruct (notify pcreate E b off) as [b1|] eqn:Hn; [|discriminate].
      apply IH with (b := b1); [|assumption|assumption].
      apply inv_notify with (b := b) (cur := cur); assumption.
Qed.

Lemma inv_fb_new : inv fb_new 0 [].
Proof.
  unfold inv, fb_new. cbn [fb_keys fb_filters length]. split.
  - rewrite N.div_0_l by apply pow2E_nz. reflexivity.
  - intros s key [].
Qed.

(** with non-decreasing offsets the number of generated filters always equals the filter index
    of the last notified offset *)
Theorem builder_filter_count evs b :
  offs_mono 0 evs -> run_events pcreate E fb_new evs = Some b ->
  N.of_nat (length (fb_filters b)) = last_off 0 evs / 2 ^ E.
Proof.
  intros Hmono Hrun.
  pose proof (run_events_inv evs fb_new 0 [] b inv_fb_new Hmono Hrun) as [Hlen _].
  exact Hlen.
Qed.

Theorem builder_filters_covered evs fs :
  offs_mono 0 evs -> builder_filters evs = Some fs ->
  forall s key, In (s, key) (seen_of 0 evs) -> covered fs s key.
Proof.
  intros Hmono Hbf s key Hin. unfold builder_filters in Hbf.
  destruct (run_events pcreate E fb_new evs) as [b|] eqn:Hrun; [|discriminate].
  pose proof (run_events_inv evs fb_new 0 [] b inv_fb_new Hmono Hrun) as [Hlen Hseen].
  cbn [app] in Hseen. specialize (Hseen s key Hin).
  destruct (fb_keys b) as [|k0 ks0] eqn:Hk.
  - injection Hbf as <-. destruct Hseen as [[[] _]|Hcov]. assumption.
  - destruct (generate_filter pcreate b) as [b'|] eqn:Hg; [|discriminate].
    injection Hbf as <-.
    apply generate_filter_spec in Hg. destruct Hg as (_ & f & Hf & Hc).
    rewrite Hf. destruct Hseen as [[Hpend Hs]|Hcov].
    + exists (fb_keys b), f. split; [|split].
      * rewrite Hs, <- Hlen, Nat2N.id.
        rewrite nth_error_app2 by lia. rewrite Nat.sub_diag. reflexivity.
      * apply Hc. rewrite Hk. discriminate.
      * rewrite Hk. assumption.
    + apply covered_app. assumption.
Qed.

(** * main theorems over event lists *)

(** parsing a builder-produced block cannot fail and returns exactly the builder's filters *)
Theorem filter_block_roundtrip evs data :
  blen data < 4294967296 ->
  build_filter_block pcreate E evs = Some data ->
  exists fs, builder_filters evs = Some fs /\
             data = serialize_filters E fs /\
             fr_new data = FOk (mkFR fs E).
Proof.
  intros Hsz Hb. rewrite build_filter_block_eq in Hb.
  destruct (builder_filters evs) as [fs|]; [|discriminate].
  injection Hb as <-. exists fs. split; [reflexivity|]. split; [reflexivity|].
  apply fr_new_serialize.
  pose proof (serialize_filters_blen E fs). lia.
Qed.

(** * the builder does not panic when the policy does not *)

Section TOTAL.
Variable maxkeys : nat.
Hypothesis pcreate_total :
  forall ks, (length ks <= maxkeys)%nat -> exists f, pcreate ks = Some f.

Lemma generate_filter_total b :
  (length (fb_keys b) <= maxkeys)%nat ->
  exists b', generate_filter pcreate b = Some b' /\ fb_keys b' = [].
Proof.
  intros Hl. unfold generate_filter. destruct (fb_keys b) as [|k ks] eqn:Hk.
  - eexists. split; reflexivity.
  - destruct (pcreate_total (k :: ks) Hl) as [f Hf]. rewrite Hf.
    eexists. split; reflexivity.
Qed.

Lemma generate_n_total n : forall b,
  (length (fb_keys b) <= maxkeys)%nat ->
  exists b', generate_n pcreate n b = Some b' /\
             (length (fb_keys b') <= length (fb_keys b))%nat.
Proof.
  induction n as [|n IH]; intros b Hl; cbn [generate_n].
  - exists b. split; [reflexivity|lia].
  - destruct (generate_filter_total b Hl) as (b1 & Hg & Hk1). rewrite Hg.
    destruct (IH b1) as (b' & Hn & Hl').
    + rewrite Hk1. cbn [length]. lia.
    + exists b'. split; [assumption|]. rewrite Hk1 in Hl'. cbn [length] in Hl'. lia.
Qed.

Lemma run_events_total evs : forall b,
  (length (fb_keys b) + count_keys evs <= maxkeys)%nat ->
  exists b', run_events pcreate E b evs = Some b' /\
             (length (fb_keys b') <= length (fb_keys b) + count_keys evs)%nat.
Proof.
  induction evs as [|ev evs IH]; intros b Hl.
  - exists b. split; [reflexivity|lia].
  - destruct ev as [k|off]; cbn [run_events count_keys] in *.
    + destruct (IH (FilterBlock.add_key b k)) as (b' & Hr & Hl').
      * unfold FilterBlock.add_key. cbn [fb_keys]. rewrite app_length. cbn [length]. lia.
      * exists b'. split; [assumption|].
        unfold FilterBlock.add_key in Hl'. cbn [fb_keys] in Hl'.
        rewrite app_length in Hl'. cbn [length] in Hl'. lia.
    + unfold notify.
      destruct (generate_n_total
                  (N.to_nat (off / 2 ^ E - N.of_nat (length (fb_filters b)))) b)
        as (b1 & Hg & Hl1); [lia|].
      rewrite Hg. destruct (IH b1) as (b' & Hr & Hl'); [lia|].
      exists b'. split; [assumption|lia].
Qed.

Theorem build_filter_block_total evs :
  (count_keys evs <= maxkeys)%nat ->
  exists data, build_filter_block pcreate E evs = Some data.
Proof.
  intros Hl. unfold build_filter_block.
  destruct (run_events_total evs fb_new) as (b & Hr & Hlb).
  { unfold fb_new. cbn [fb_keys length]. lia. }
  rewrite Hr. unfold finalize.
  destruct (fb_keys b) as [|k ks] eqn:Hk; [eexists; reflexivity|].
  destruct (generate_filter_total b) as (b' & Hg & _).
  { rewrite Hk. unfold fb_new in Hlb. cbn [fb_keys length] in Hlb |- *. lia. }
  rewrite Hg. eexists. reflexivity.
Qed.

End TOTAL.

(** * tables as lists of data blocks *)

(** a data block: its user keys and the file offset just after it *)
Definition block := (list bytes * N)%type.

Fixpoint events_of (blocks : list block) : list fb_event :=
  match blocks with
  | [] => []
  | (ks, e) :: r => map EvKey ks ++ EvNotify e :: events_of r
  end.

(** the same without the notification after the last block *)
Fixpoint events_of_open (blocks : list block) : list fb_event :=
  match blocks with
  | [] => []
  | (ks, e) :: r =>
      match r with
      | [] => map EvKey ks
      | _ :: _ => map EvKey ks ++ EvNotify e :: events_of_open r
      end
  end.

Definition start_from (cur : N) (blocks : list block) (i : nat) : N :=
  match i with
  | O => cur
  | S i' => snd (nth i' blocks ([], 0))
  end.

(** start offset of block [i]: 0 for the first block, else the end offset of block [i-1] *)
Definition block_start (blocks : list block) (i : nat) : N := start_from 0 blocks i.

Definition blocks_ordered (blocks : list block) : Prop :=
  forall i ks e, nth_error blocks i = Some (ks, e) -> block_start blocks i <= e.

Lemma start_from_shift cur ks e r i :
  start_from cur ((ks, e) :: r) (S i) = start_from e r i.
Proof. destruct i; reflexivity. Qed.

Lemma offs_mono_events_of blocks : forall cur,
  (forall i ks e, nth_error blocks i = Some (ks, e) -> start_from cur blocks i <= e) ->
  offs_mono cur (events_of blocks).
Proof.
  induction blocks as [|[ks e] r IH]; intros cur H.
  - exact I.
  - cbn [events_of]. apply offs_mono_app. split; [apply offs_mono_keys|].
    rewrite last_off_keys. cbn [offs_mono]. split.
    + apply (H 0%nat ks e). reflexivity.
    + apply IH. intros i ks' e' Hn.
      rewrite <- (start_from_shift cur ks e r i).
      apply (H (S i) ks' e'). exact Hn.
Qed.

Lemma seen_of_events_of blocks : forall cur i ks e key,
  nth_error blocks i = Some (ks, e) -> In key ks ->
  In (start_from cur blocks i, key) (seen_of cur (events_of blocks)).
Proof.
  induction blocks as [|[ks0 e0] r IH]; intros cur i ks e key Hn Hin.
  - destruct i; discriminate.
  - cbn [events_of]. rewrite seen_of_app, seen_of_keys, last_off_keys. cbn [seen_of].
    apply in_or_app. destruct i as [|i'].
    + left. cbn [nth_error] in Hn. injection Hn as -> ->.
      cbn [start_from]. apply in_map. assumption.
    + right. rewrite start_from_shift. apply IH with (ks := ks) (e := e); assumption.
Qed.

Lemma seen_of_events_of_open blocks : forall cur,
  seen_of cur (events_of_open blocks) = seen_of cur (events_of blocks).
Proof.
  induction blocks as [|[ks e] r IH]; intros cur; [reflexivity|].
  cbn [events_of events_of_open]. destruct r as [|b r'].
  - cbn [events_of]. rewrite seen_of_app. cbn [seen_of]. rewrite app_nil_r. reflexivity.
  - rewrite !seen_of_app. cbn [seen_of]. rewrite IH. reflexivity.
Qed.

Lemma offs_mono_events_of_open blocks : forall cur,
  offs_mono cur (events_of blocks) -> offs_mono cur (events_of_open blocks).
Proof.
  induction blocks as [|[ks e] r IH]; intros cur H; [exact I|].
  cbn [events_of events_of_open] in *. destruct r as [|b r'].
  - apply offs_mono_keys.
  - apply offs_mono_app in H. destruct H as [H1 H2]. apply offs_mono_app.
    split; [assumption|]. cbn [offs_mono] in *. destruct H2 as [H2 H3].
    split; [assumption|]. apply IH. assumption.
Qed.

Lemma blocks_ordered_mono blocks : blocks_ordered blocks -> offs_mono 0 (events_of blocks).
Proof. intros H. apply offs_mono_events_of. exact H. Qed.

Section SOUND.
Variable pmatch : bytes -> bytes -> match_result.
(** * the reader on a covered key *)

Hypothesis policy_sound :
  forall keys f k, pcreate keys = Some f -> In k keys -> pmatch k f = MOk true.
Hypothesis policy_nonempty :
  forall keys f, pcreate keys = Some f -> keys <> [] -> f <> [].

Lemma fr_key_may_match_nonempty fs e off key :
  fs <> [] ->
  fr_key_may_match pmatch (mkFR fs e) off key =
  if 64 <=? e then None
  else
    let idx := N.to_nat (off / 2 ^ e) in
    if Nat.leb (length fs) idx then Some true
    else
      match nth idx fs [] with
      | [] => Some false
      | _ :: _ =>
          match pmatch key (nth idx fs []) with
          | MOk b => Some b
          | MErr => Some true
          | MPanic => None
          end
      end.
Proof.
  intros Hne. unfold fr_key_may_match. cbn [fr_filters fr_exp].
  destruct fs as [|f0 fr]; [congruence|].
  destruct (64 <=? e); [reflexivity|]. cbv zeta.
  destruct (Nat.leb (length (f0 :: fr)) (N.to_nat (off / 2 ^ e))); [reflexivity|].
  destruct (nth (N.to_nat (off / 2 ^ e)) (f0 :: fr) []); reflexivity.
Qed.

Lemma covered_match fs s key :
  E < 64 -> covered fs s key -> fr_key_may_match pmatch (mkFR fs E) s key = Some true.
Proof.
  intros HE (ks & f & Hn & Hc & Hin).
  assert (Hne : fs <> []).
  { intros ->. destruct (N.to_nat (s / 2 ^ E)); discriminate. }
  rewrite fr_key_may_match_nonempty by assumption.
  destruct (64 <=? E) eqn:H64; [lia|]. cbv zeta.
  assert (Hlt : (N.to_nat (s / 2 ^ E) < length fs)%nat).
  { apply nth_error_Some. congruence. }
  destruct (Nat.leb (length fs) (N.to_nat (s / 2 ^ E))) eqn:Hleb.
  { apply Nat.leb_le in Hleb. lia. }
  match goal with |- context [nth ?i fs ?d] => rewrite (nth_error_nth fs i d Hn) end.
  pose proof (policy_sound ks f key Hc Hin) as Hm.
  assert (Hfne : f <> []).
  { apply (policy_nonempty ks f Hc). intros ->. destruct Hin. }
  destruct f as [|x f']; [congruence|].
  rewrite Hm. reflexivity.
Qed.

Theorem filter_block_events_sound evs data r :
  E < 64 ->
  offs_mono 0 evs ->
  blen data < 4294967296 ->
  build_filter_block pcreate E evs = Some data ->
  fr_new data = FOk r ->
  forall s key, In (s, key) (seen_of 0 evs) ->
    fr_key_may_match pmatch r s key = Some true.
Proof.
  intros HE Hmono Hsz Hb Hr s key Hin.
  destruct (filter_block_roundtrip evs data Hsz Hb) as (fs & Hfs & _ & Hparse).
  rewrite Hparse in Hr. injection Hr as <-.
  apply covered_match; [assumption|].
  apply builder_filters_covered with (evs := evs); assumption.
Qed.

(** sharper size condition: only the concatenated filters (the part addressed by the 4-byte
    offsets) must stay below 4 GiB; then building, parsing and lookup all succeed *)
Theorem filter_block_events_sound_sharp evs fs :
  E < 64 ->
  offs_mono 0 evs ->
  builder_filters evs = Some fs ->
  blen (concat fs) < 4294967296 ->
  build_filter_block pcreate E evs = Some (serialize_filters E fs) /\
  fr_new (serialize_filters E fs) = FOk (mkFR fs E) /\
  forall s key, In (s, key) (seen_of 0 evs) ->
    fr_key_may_match pmatch (mkFR fs E) s key = Some true.
Proof.
  intros HE Hmono Hfs Hsz. split; [|split].
  - rewrite build_filter_block_eq, Hfs. reflexivity.
  - apply fr_new_serialize. assumption.
  - intros s key Hin. apply covered_match; [assumption|].
    apply builder_filters_covered with (evs := evs); assumption.
Qed.

(** the same, phrased with an explicit position in the event list: a key is always found when
    queried at the offset of the last notification preceding it *)
Theorem filter_block_events_sound_split evs data r :
  E < 64 ->
  offs_mono 0 evs ->
  blen data < 4294967296 ->
  build_filter_block pcreate E evs = Some data ->
  fr_new data = FOk r ->
  forall pre key post, evs = pre ++ EvKey key :: post ->
    fr_key_may_match pmatch r (last_off 0 pre) key = Some true.
Proof.
  intros HE Hmono Hsz Hb Hr pre key post Hev.
  apply (filter_block_events_sound evs data r); try assumption.
  rewrite Hev. apply seen_of_split.
Qed.

(** [TableBuilder] notifies the filter block builder after every flushed block, including the
    last one (flushed by [finalize]) *)
Theorem filter_block_no_false_negative blocks data r :
  E < 64 ->
  blocks_ordered blocks ->
  blen data < 4294967296 ->
  build_filter_block pcreate E (events_of blocks) = Some data ->
  fr_new data = FOk r ->
  forall i keys endoff key,
    nth_error blocks i = Some (keys, endoff) -> In key keys ->
    fr_key_may_match pmatch r (block_start blocks i) key = Some true.
Proof.
  intros HE Hord Hsz Hb Hr i keys endoff key Hn Hin.
  apply (filter_block_events_sound (events_of blocks) data r); try assumption.
  - apply blocks_ordered_mono. assumption.
  - apply seen_of_events_of with (ks := keys) (e := endoff); assumption.
Qed.

(** the same when the last block is not followed by a notification *)
Theorem filter_block_no_false_negative_open blocks data r :
  E < 64 ->
  blocks_ordered blocks ->
  blen data < 4294967296 ->
  build_filter_block pcreate E (events_of_open blocks) = Some data ->
  fr_new data = FOk r ->
  forall i keys endoff key,
    nth_error blocks i = Some (keys, endoff) -> In key keys ->
    fr_key_may_match pmatch r (block_start blocks i) key = Some true.
Proof.
  intros HE Hord Hsz Hb Hr i keys endoff key Hn Hin.
  apply (filter_block_events_sound (events_of_open blocks) data r); try assumption.
  - apply offs_mono_events_of_open. apply blocks_ordered_mono. assumption.
  - rewrite seen_of_events_of_open.
    apply seen_of_events_of with (ks := keys) (e := endoff); assumption.
Qed.

End SOUND.

End FBPROOFS.

(** * the bloom instance used by raindb *)

Lemma bloom_policy_nonempty bpk keys f :
  bloom_create bpk keys = Some f -> keys <> [] -> f <> [].
Proof.
  intros H _ ->. apply bloom_create_nonempty in H. cbn [length] in H. lia.
Qed.

Lemma bloom_policy_sound_fb bpk keys f k :
  bloom_create bpk keys = Some f -> In k keys -> bloom_match k f = MOk true.
Proof. apply bloom_policy_sound. Qed.

Lemma filter_exponent_lt_64 : FILTER_RANGE_SIZE_EXPONENT < 64.
Proof. reflexivity. Qed.

Theorem filter_block_bloom bpk blocks data r :
  blocks_ordered blocks ->
  blen data < 4294967296 ->
  fb_build bpk (events_of blocks) = Some data ->
  fb_parse data = FOk r ->
  forall i keys endoff key,
    nth_error blocks i = Some (keys, endoff) -> In key keys ->
    fb_match r (block_start blocks i) key = Some true.
Proof.
  unfold fb_build, fb_parse, fb_match. intros Hord Hsz Hb Hr.
  apply (filter_block_no_false_negative (bloom_create bpk) FILTER_RANGE_SIZE_EXPONENT
           bloom_match (bloom_policy_sound_fb bpk) (bloom_policy_nonempty bpk)
           blocks data r filter_exponent_lt_64 Hord Hsz Hb Hr).
Qed.

Theorem filter_block_bloom_open bpk blocks data r :
  blocks_ordered blocks ->
  blen data < 4294967296 ->
  fb_build bpk (events_of_open blocks) = Some data ->
  fb_parse data = FOk r ->
  forall i keys endoff key,
    nth_error blocks i = Some (keys, endoff) -> In key keys ->
    fb_match r (block_start blocks i) key = Some true.
Proof.
  unfold fb_build, fb_parse, fb_match. intros Hord Hsz Hb Hr.
  apply (filter_block_no_false_negative_open (bloom_create bpk) FILTER_RANGE_SIZE_EXPONENT
           bloom_match (bloom_policy_sound_fb bpk) (bloom_policy_nonempty bpk)
           blocks data r filter_exponent_lt_64 Hord Hsz Hb Hr).
Qed.

Theorem filter_block_bloom_roundtrip bpk evs data :
  blen data < 4294967296 ->
  fb_build bpk evs = Some data ->
  exists fs, builder_filters (bloom_create bpk) FILTER_RANGE_SIZE_EXPONENT evs = Some fs /\
             data = serialize_filters FILTER_RANGE_SIZE_EXPONENT fs /\
             fb_parse data = FOk (mkFR fs FILTER_RANGE_SIZE_EXPONENT).
Proof. unfold fb_build, fb_parse. apply filter_block_roundtrip. Qed.

(** a simple global sufficient condition for the bloom builder not to panic: the total number of
    keys times bits-per-key (plus rounding slack) fits in a u32 *)
Theorem filter_block_bloom_builds bpk evs :
  N.of_nat (count_keys evs) * bpk + 71 < 4294967296 ->
  exists data, fb_build bpk evs = Some data.
Proof.
  intros Hb. unfold fb_build.
  apply build_filter_block_total with (maxkeys := count_keys evs); [|lia].
  intros ks Hl. apply bloom_create_some.
  pose proof (filter_bits_upper bpk (N.of_nat (length ks))) as Hu.
  assert (N.of_nat (length ks) * bpk <= N.of_nat (count_keys evs) * bpk).
  { apply N.mul_le_mono_r. lia. }
  lia.
Qed.

Lemma count_keys_app a b : count_keys (a ++ b) = (count_keys a + count_keys b)%nat.
Proof.
  induction a as [|ev a IH]; [reflexivity|].
  destruct ev; cbn [app count_keys]; rewrite IH; reflexivity.
Qed.

Lemma count_keys_keys ks : count_keys (map EvKey ks) = length ks.
Proof. induction ks as [|k ks IH]; cbn [map count_keys length]; congruence. Qed.

(** everything together: under the key-count bound the builder succeeds, and if the produced
    block is below 4 GiB it parses and every key of every block matches at its block's start *)
Theorem filter_block_bloom_total bpk blocks :
  blocks_ordered blocks ->
  N.of_nat (count_keys (events_of blocks)) * bpk + 71 < 4294967296 ->
  exists data,
    fb_build bpk (events_of blocks) = Some data /\
    (blen data < 4294967296 ->
     exists r, fb_parse data = FOk r /\
       forall i keys endoff key,
         nth_error blocks i = Some (keys, endoff) -> In key keys ->
         fb_match r (block_start blocks i) key = Some true).
Proof.
  intros Hord Hcnt.
  destruct (filter_block_bloom_builds bpk (events_of blocks) Hcnt) as [data Hb].
  exists data. split; [assumption|]. intros Hsz.
  destruct (filter_block_bloom_roundtrip bpk (events_of blocks) data Hsz Hb)
    as (fs & _ & _ & Hparse).
  eexists. split; [exact Hparse|].
  apply (filter_block_bloom bpk blocks data _ Hord Hsz Hb Hparse).
Qed.

(** * sensitivity witnesses (the hypotheses of the theorems matter) *)

(** querying a key at the start offset of a different block (in another 2 KiB range) misses *)
Lemma wrong_offset_refuted :
  exists (blocks : list block) data r i j keys e key,
    blocks_ordered blocks /\
    fb_build 10 (events_of blocks) = Some data /\
    blen data < 4294967296 /\
    fb_parse data = FOk r /\
    nth_error blocks i = Some (keys, e) /\ In key keys /\
    (j < length blocks)%nat /\ j <> i /\
    fb_match r (block_start blocks i) key = Some true /\
    fb_match r (block_start blocks j) key = Some false.
Proof.
  exists [([[97]; [98]], 100); ([[99]; [100]], 5000); ([[101]], 5100)].
  eexists. eexists. exists 0%nat, 2%nat, [[97]; [98]], 100, [97].
  split.
  { intros i ks e H. destruct i as [|[|[|i]]]; cbn [nth_error] in H.
    - injection H as <- <-. vm_compute. discriminate.
    - injection H as <- <-. vm_compute. discriminate.
    - injection H as <- <-. vm_compute. discriminate.
    - destruct i; discriminate. }
  split; [vm_compute; reflexivity|].
  split; [vm_compute; reflexivity|].
  split; [vm_compute; reflexivity|].
  split; [reflexivity|].
  split; [left; reflexivity|].
  split; [cbn [length]; lia|].
  split; [discriminate|].
  split; vm_compute; reflexivity.
Qed.

(** without the ordering hypothesis a key can be filed under a later filter: false negative at
    the key's own block start *)
Lemma unordered_offsets_refuted :
  exists evs data r pre key post,
    evs = pre ++ EvKey key :: post /\
    ~ offs_mono 0 evs /\
    fb_build 10 evs = Some data /\
    blen data < 4294967296 /\
    fb_parse data = FOk r /\
    fb_match r (last_off 0 pre) key = Some false.
Proof.
  exists [EvNotify 5000; EvNotify 100; EvKey [97]; EvNotify 9000].
  eexists. eexists. exists [EvNotify 5000; EvNotify 100], [97], [EvNotify 9000].
  split; [reflexivity|].
  split.
  { cbn [offs_mono]. intros (_ & H & _). vm_compute in H. apply H. reflexivity. }
  split; [vm_compute; reflexivity|].
  split; [vm_compute; reflexivity|].
  split; vm_compute; reflexivity.
Qed.
