(** Proofs about obsolete-file removal and the version list (C11). *)
From Coq Require Import Lia.
From RainVerif.model Require Import Gc.
Open Scope N_scope.

Lemma memN_In n l : memN n l = true <-> In n l.
Proof.
  unfold memN. rewrite existsb_exists. split.
  - intros (x & Hin & He). apply N.eqb_eq in He. subst. exact Hin.
  - intros Hin. exists n. split; [exact Hin | apply N.eqb_refl].
Qed.

(** nothing the database still needs is ever selected for deletion, provided the live-version
    list covers the current version (it always contains the current version's node) *)
Theorem never_deletes_needed g current_tables f :
  (forall n, In n current_tables -> In n (g_live g)) ->
  needed g current_tables f -> keep g f = true.
Proof.
  intros Hcur Hn. destruct f as [ | | n | n | n | n]; cbn [keep needed] in *.
  - reflexivity.
  - reflexivity.
  - subst n. apply N.leb_refl.
  - destruct Hn as [Hle | Hp].
    + apply N.leb_le in Hle. rewrite Hle. reflexivity.
    + rewrite Hp, N.eqb_refl. apply Bool.orb_true_r.
  - apply memN_In. apply in_or_app.
    destruct Hn as [Hc | [Hl | Hi]]; [right; apply Hcur, Hc | right; exact Hl | left; exact Hi].
  - destruct Hn.
Qed.

(** conversely, at a quiescent moment (only the current version is live, nothing is being
    written, no memtable flush pending) everything that survives is needed, except manifests
    with a number above the current one (known finding: orphan-newer-manifest); stated with the side condition that no temp file shares its number with a live
    table (file numbers are allocated once; CURRENT temp files use the manifest number) *)
Theorem quiescent_exact g current_tables listing f :
  g_live g = current_tables -> g_inuse g = [] -> g_prev_wal g = None ->
  (forall n, In (FTemp n) listing -> ~ In n current_tables) ->
  In f (gc g listing) ->
  needed g current_tables f \/ (exists n, f = FManifest n /\ g_manifest g < n).
Proof.
  intros Hl Hi Hp Ht Hin. unfold gc in Hin. apply filter_In in Hin. destruct Hin as [Hlist Hk].
  destruct f as [ | | n | n | n | n]; cbn [keep needed] in *.
  - left. exact I.
  - left. exact I.
  - apply N.leb_le in Hk. destruct (N.eq_dec n (g_manifest g)) as [He | Hne].
    + left. exact He.
    + right. exists n. split; [reflexivity | lia].
  - rewrite Hp in Hk. rewrite Bool.orb_false_r in Hk. apply N.leb_le in Hk. left. left. exact Hk.
  - rewrite Hi, Hl in Hk. cbn [app] in Hk. apply memN_In in Hk. left. left. exact Hk.
  - rewrite Hi, Hl in Hk. cbn [app] in Hk. apply memN_In in Hk. exfalso. exact (Ht n Hlist Hk).
Qed.

(** ** version list *)

Definition balanced_b (s : vset) : bool :=
  forallb (fun v => if vn_id v =? vs_current s then Nat.eqb (vn_refs v) 1 else false) (vs_nodes s).

(** a state in which only the current pointer holds a reference has exactly one linked version *)
Lemma balanced_one s : balanced_b s = true -> (forall v, In v (vs_nodes s) -> vn_id v = vs_current s).
Proof.
  unfold balanced_b. rewrite forallb_forall. intros H v Hin. specialize (H v Hin).
  destruct (vn_id v =? vs_current s) eqn:E; [apply N.eqb_eq in E; exact E | discriminate].
Qed.
