(** Proofs about obsolete-file removal and the version list (C11). *)
From Coq Require Import Lia.
From RainVerif.model Require Import Gc.
Open Scope N_scope.

Lemma memN_In n l : memN n l = true <-> In n l.
Proof.
  unfold memN. rewrite existsb_exists. split.
  - intros (x & Hin & He). apply N.eqb_eq in He. subst. exact Hin.
  - intros Hin. exists n. split; [exact Hin | apply N.eqb_refl].
Qed.

(** nothing the database still needs is ever selected for deletion, provided the live-version
    list covers the current version (it always contains the current version's node) *)
Theorem never_deletes_needed g current_tables f :
  (forall n, In n current_tables -> In n (g_live g)) ->
  needed g current_tables f -> keep g f = true.
Proof.
  intros Hcur Hn. destruct f as [ | | n | n | n | n]; cbn [keep needed] in *.
  - reflexivity.
  - reflexivity.
  - subst n. apply N.leb_refl.
  - destruct Hn as [Hle | Hp].
    + apply N.leb_le in Hle. rewrite Hle. reflexivity.
    + rewrite Hp, N.eqb_refl. apply Bool.orb_true_r.
  - apply memN_In. apply in_or_app.
    destruct Hn as [Hc | [Hl | Hi]]; [right; apply Hcur, Hc | right; exact Hl | left; exact Hi].
  - destruct Hn.
Qed.

(** conversely, at a quiescent moment (only the current version is live, nothing is being
    written, no memtable flush pending) everything that survives is needed, except manifests
    with a number above the current one (known finding: orphan-newer-manifest); stated with the side condition that no temp file shares its number with a live
    table (file numbers are allocated once; CURRENT temp files use the manifest number) *)
Theorem quiescent_exact g current_tables listing f :
  g_live g = current_tables -> g_inuse g = [] -> g_prev_wal g = None ->
  (forall n, In (FTemp n) listing -> ~ In n current_tables) ->
  In f (gc g listing) ->
  needed g current_tables f \/ (exists n, f = FManifest n /\ g_manifest g < n).
Proof.
  intros Hl Hi Hp Ht Hin. unfold gc in Hin. apply filter_In in Hin. destruct Hin as [Hlist Hk].
  destruct f as [ | | n | n | n | n]; cbn [keep needed] in *.
  - left. exact I.
  - left. exact I.
  - apply N.leb_le in Hk. destruct (N.eq_dec n (g_manifest g)) as [He | Hne].
    + left. exact He.
    + right. exists n. split; [reflexivity | lia].
  - rewrite Hp in Hk. rewrite Bool.orb_false_r in Hk. apply N.leb_le in Hk. left. left. exact Hk.
  - rewrite Hi, Hl in Hk. cbn [app] in Hk. apply memN_In in Hk. left. left. exact Hk.
  - rewrite Hi, Hl in Hk. cbn [app] in Hk. apply memN_In in Hk. exfalso. exact (Ht n Hlist Hk).
Qed.

(** ** version list *)

Definition balanced_b (s : vset) : bool :=
  forallb (fun v => if vn_id v =? vs_current s then Nat.eqb (vn_refs v) 1 else false) (vs_nodes s).

(** a state in which only the current pointer holds a reference has exactly one linked version *)
Lemma balanced_one s : balanced_b s = true -> (forall v, In v (vs_nodes s) -> vn_id v = vs_current s).
Proof.
  unfold balanced_b. rewrite forallb_forall. intros H v Hin. specialize (H v Hin).
  destruct (vn_id v =? vs_current s) eqn:E; [apply N.eqb_eq in E; exact E | discriminate].
Qed.

(** ** reference-count balance of the version list (T1-T4)

    Ghost state carried along a run: the multiset of outstanding holds (one entry per [VHold]
    not yet matched by a [VDrop]), the greatest version id used so far, and the table of files
    every version was installed with. *)

Fixpoint remove1 (i : N) (l : list N) : list N :=
  match l with
  | [] => []
  | x :: t => if i =? x then t else x :: remove1 i t
  end.

Fixpoint countN (i : N) (l : list N) : nat :=
  match l with
  | [] => O
  | x :: t => ((if i =? x then 1 else 0) + countN i t)%nat
  end.

Fixpoint files_of (inst : list (N * list N)) (i : N) : list N :=
  match inst with
  | [] => []
  | (j, f) :: t => if i =? j then f else files_of t i
  end.

Record ghost := mkGh {
  gh_holds : list N;               (* outstanding holds, with multiplicity *)
  gh_max : N;                      (* greatest version id used so far *)
  gh_inst : list (N * list N)      (* id -> files it was installed with, newest first *)
}.

Definition gh_init : ghost := mkGh [] 0 [(0, [])].

Definition gh_step (g : ghost) (e : vev) : ghost :=
  match e with
  | VHold id => mkGh (id :: gh_holds g) (gh_max g) (gh_inst g)
  | VDrop id => mkGh (remove1 id (gh_holds g)) (gh_max g) (gh_inst g)
  | VInstall id files => mkGh (gh_holds g) (N.max (gh_max g) id) ((id, files) :: gh_inst g)
  end.

Definition gh_run (evs : list vev) : ghost := fold_left gh_step evs gh_init.
Definition holds_of (evs : list vev) : list N := gh_holds (gh_run evs).
Definition installed_files (evs : list vev) (i : N) : list N := files_of (gh_inst (gh_run evs)) i.
Definition last_files (evs : list vev) : list N :=
  fold_left (fun lf e => match e with VInstall _ f => f | _ => lf end) evs [].

Definition linked (s : vset) (i : N) : Prop := In i (map vn_id (vs_nodes s)).
Definition linkedb (s : vset) (i : N) : bool := memN i (map vn_id (vs_nodes s)).

(** one event is admissible in state [s] with ghost [g] *)
Definition ev_ok (s : vset) (g : ghost) (e : vev) : bool :=
  match e with
  | VHold id => linkedb s id                 (* holds are taken on linked versions only *)
  | VDrop id => memN id (gh_holds g)         (* a drop matches an outstanding hold *)
  | VInstall id _ => gh_max g <? id          (* fresh id: greater than every id used so far *)
  end.

Fixpoint wf_from (s : vset) (g : ghost) (evs : list vev) : bool :=
  match evs with
  | [] => true
  | e :: t => ev_ok s g e && wf_from (vs_step s e) (gh_step g e) t
  end.

Definition wf_events (evs : list vev) : bool := wf_from vs_init gh_init evs.

(** Prop version: every event is admissible in the state reached by the events before it *)
Definition wf_events_P (evs : list vev) : Prop :=
  forall pre e post, evs = pre ++ e :: post -> ev_ok (vs_run pre) (gh_run pre) e = true.

Lemma wf_from_app s g evs1 evs2 :
  wf_from s g (evs1 ++ evs2) =
  wf_from s g evs1 && wf_from (fold_left vs_step evs1 s) (fold_left gh_step evs1 g) evs2.
Proof.
  revert s g. induction evs1 as [|e t IH]; intros s g; cbn; [reflexivity|].
  rewrite IH, Bool.andb_assoc. reflexivity.
Qed.

Lemma wf_events_app evs1 evs2 :
  wf_events (evs1 ++ evs2) = wf_events evs1 && wf_from (vs_run evs1) (gh_run evs1) evs2.
Proof. apply wf_from_app. Qed.

Lemma wf_events_snoc evs e :
  wf_events (evs ++ [e]) = wf_events evs && ev_ok (vs_run evs) (gh_run evs) e.
Proof. rewrite wf_events_app. cbn. rewrite Bool.andb_true_r. reflexivity. Qed.

Lemma wf_events_iff evs : wf_events evs = true <-> wf_events_P evs.
Proof.
  split.
  - intros H pre e post ->. rewrite wf_events_app in H. apply Bool.andb_true_iff in H.
    destruct H as [_ H]. cbn in H. apply Bool.andb_true_iff in H. apply H.
  - induction evs as [|e t IH] using rev_ind; intros H; [reflexivity|].
    rewrite wf_events_snoc. apply Bool.andb_true_iff. split.
    + apply IH. intros pre e' post E. apply (H pre e' (post ++ [e])).
      rewrite E, <- app_assoc. reflexivity.
    + apply (H t e []). reflexivity.
Qed.

(** *** multiset facts *)

Lemma countN_In i l : (countN i l >= 1)%nat <-> In i l.
Proof.
  induction l as [|x t IH]; cbn; [split; [lia | tauto]|].
  destruct (i =? x) eqn:E.
  - apply N.eqb_eq in E. split; [intros _; left; congruence | lia].
  - apply N.eqb_neq in E. rewrite IH. split; [tauto | intros [A | A]; [congruence | exact A]].
Qed.

Lemma countN_remove1_same i l : countN i (remove1 i l) = pred (countN i l).
Proof.
  induction l as [|x t IH]; cbn; [reflexivity|].
  destruct (i =? x) eqn:E; cbn; [reflexivity | rewrite E; exact IH].
Qed.

Lemma countN_remove1_other i j l : j <> i -> countN j (remove1 i l) = countN j l.
Proof.
  intros Hne. induction l as [|x t IH]; cbn; [reflexivity|].
  destruct (i =? x) eqn:E; cbn.
  - apply N.eqb_eq in E. subst x. apply N.eqb_neq in Hne. rewrite Hne. reflexivity.
  - rewrite IH. reflexivity.
Qed.

Lemma In_remove1_other i j l : j <> i -> In j l -> In j (remove1 i l).
Proof. intros Hne H. apply countN_In. rewrite countN_remove1_other by exact Hne. apply countN_In, H. Qed.

(** *** the node list against an abstract owner count *)

Definition upd (f : nat -> nat) (id : N) (nodes : list vnode) : list vnode :=
  map (fun v => if vn_id v =? id then mkVN id (f (vn_refs v)) (vn_files v) else v) nodes.
Definition alive (v : vnode) : bool := negb (Nat.eqb (vn_refs v) 0).

Lemma vs_ref_eq s id : vs_ref s id = mkVS (upd S id (vs_nodes s)) (vs_current s).
Proof. reflexivity. Qed.
Lemma vs_release_eq s id :
  vs_release s id = mkVS (filter alive (upd pred id (vs_nodes s))) (vs_current s).
Proof. reflexivity. Qed.

Lemma upd_ids f id nodes : map vn_id (upd f id nodes) = map vn_id nodes.
Proof.
  unfold upd. rewrite map_map. apply map_ext. intros v.
  destruct (vn_id v =? id) eqn:E; [apply N.eqb_eq in E; cbn; symmetry; exact E | reflexivity].
Qed.

Lemma In_upd f id nodes w : In w (upd f id nodes) <->
  exists v, In v nodes /\ w = (if vn_id v =? id then mkVN id (f (vn_refs v)) (vn_files v) else v).
Proof.
  unfold upd. rewrite in_map_iff.
  split; intros (v & A & B); exists v; split; [exact B | symmetry; exact A | symmetry; exact B | exact A].
Qed.

(** every node that survives an update/filter is an old node with the same id and files *)
Lemma upd_origin f id nodes w : In w (upd f id nodes) ->
  exists v, In v nodes /\ vn_id w = vn_id v /\ vn_files w = vn_files v.
Proof.
  intros H. apply In_upd in H. destruct H as (v & Hv & ->). exists v. split; [exact Hv|].
  destruct (vn_id v =? id) eqn:E; [apply N.eqb_eq in E; cbn; auto | auto].
Qed.

Lemma NoDup_map_filter {A B} (g : A -> B) (p : A -> bool) l :
  NoDup (map g l) -> NoDup (map g (filter p l)).
Proof.
  induction l as [|a l IH]; cbn; intros H; [exact H|].
  inversion H as [|x xs Hn Hd]; subst.
  assert (Hn' : ~ In (g a) (map g (filter p l))).
  { intros Hin. apply Hn. apply in_map_iff in Hin. destruct Hin as (x & E & Hx).
    apply filter_In in Hx. apply in_map_iff. exists x. split; [exact E | apply Hx]. }
  destruct (p a); cbn; [constructor; auto | auto].
Qed.

Record NInv (nodes : list vnode) (c : N -> nat) : Prop := mkNInv {
  ni_nodup : NoDup (map vn_id nodes);
  ni_refs : forall v, In v nodes -> vn_refs v = c (vn_id v);
  ni_linked : forall i, In i (map vn_id nodes) <-> (c i >= 1)%nat
}.

Lemma NInv_hold nodes c c' id :
  NInv nodes c -> In id (map vn_id nodes) ->
  (forall i, c' i = if i =? id then S (c i) else c i) ->
  NInv (upd S id nodes) c'.
Proof.
  intros [Hnd Hr Hl] Hin Hc. constructor.
  - rewrite upd_ids. exact Hnd.
  - intros w Hw. apply In_upd in Hw. destruct Hw as (v & Hv & ->). rewrite Hc.
    destruct (vn_id v =? id) eqn:E.
    + cbn. rewrite N.eqb_refl. apply N.eqb_eq in E. rewrite (Hr v Hv), E. reflexivity.
    + rewrite E. apply Hr, Hv.
  - intros i. rewrite upd_ids, Hc. destruct (i =? id) eqn:E.
    + apply N.eqb_eq in E. subst. split; [lia | intros _; exact Hin].
    + apply Hl.
Qed.

Lemma NInv_release nodes c c' id :
  NInv nodes c ->
  (forall i, c' i = if i =? id then pred (c i) else c i) ->
  NInv (filter alive (upd pred id nodes)) c'.
Proof.
  intros [Hnd Hr Hl] Hc. constructor.
  - apply NoDup_map_filter. rewrite upd_ids. exact Hnd.
  - intros w Hw. apply filter_In in Hw. destruct Hw as [Hw _]. apply In_upd in Hw.
    destruct Hw as (v & Hv & ->). rewrite Hc. destruct (vn_id v =? id) eqn:E.
    + cbn. rewrite N.eqb_refl. apply N.eqb_eq in E. rewrite (Hr v Hv), E. reflexivity.
    + rewrite E. apply Hr, Hv.
  - intros i. rewrite Hc. split.
    + intros Hi. apply in_map_iff in Hi. destruct Hi as (w & <- & Hw). apply filter_In in Hw.
      destruct Hw as [Hw Ha]. apply In_upd in Hw. destruct Hw as (v & Hv & ->).
      unfold alive in Ha. destruct (vn_id v =? id) eqn:E.
      * cbn in *. rewrite N.eqb_refl. apply N.eqb_eq in E. rewrite <- E, <- (Hr v Hv).
        destruct (pred (vn_refs v)); [discriminate | lia].
      * rewrite E. rewrite <- (Hr v Hv). destruct (vn_refs v); [discriminate | lia].
    + intros Hi. destruct (i =? id) eqn:E.
      * apply N.eqb_eq in E. subst i.
        assert (Hin : In id (map vn_id nodes)) by (apply Hl; lia).
        apply in_map_iff in Hin. destruct Hin as (v & Ev & Hv). apply in_map_iff.
        exists (mkVN id (pred (vn_refs v)) (vn_files v)). split; [reflexivity|].
        apply filter_In. split.
        -- apply In_upd. exists v. split; [exact Hv|]. rewrite Ev, N.eqb_refl. reflexivity.
        -- unfold alive. cbn. rewrite (Hr v Hv), Ev. destruct (pred (c id)); [lia | reflexivity].
      * pose proof (proj2 (Hl i) Hi) as Hin. apply in_map_iff in Hin.
        destruct Hin as (v & Ev & Hv). apply in_map_iff.
        exists v. split; [exact Ev|]. apply filter_In. split.
        -- apply In_upd. exists v. split; [exact Hv|]. rewrite Ev, E. reflexivity.
        -- unfold alive. rewrite (Hr v Hv), Ev. destruct (c i); [lia | reflexivity].
Qed.

(** *** the invariant of well-formed runs *)

(** number of owners of version [i]: the current pointer (if it points at [i]) plus the
    outstanding holds on [i] *)
Definition own (s : vset) (h : list N) (i : N) : nat :=
  ((if i =? vs_current s then 1 else 0) + countN i h)%nat.

Record Inv (s : vset) (g : ghost) : Prop := mkInv {
  inv_n : NInv (vs_nodes s) (own s (gh_holds g));
  inv_max : forall v, In v (vs_nodes s) -> vn_id v <= gh_max g;
  inv_files : forall v, In v (vs_nodes s) -> vn_files v = files_of (gh_inst g) (vn_id v)
}.

Lemma Inv_init : Inv vs_init gh_init.
Proof.
  constructor.
  - constructor.
    + cbn. constructor; [intros [] | constructor].
    + intros v [<- | []]. reflexivity.
    + intros i. unfold own. cbn. destruct (i =? 0) eqn:E.
      * apply N.eqb_eq in E. subst. split; [lia | auto].
      * apply N.eqb_neq in E. split; [intros [A | []]; congruence | lia].
  - intros v [<- | []]. cbn. lia.
  - intros v [<- | []]. reflexivity.
Qed.

Lemma NoDup_snoc {A} (l : list A) x : NoDup l -> ~ In x l -> NoDup (l ++ [x]).
Proof.
  induction l as [|a l IH]; cbn; intros Hnd Hx; [constructor; [intros [] | constructor]|].
  inversion Hnd as [|y ys Hn Hd]; subst. constructor.
  - rewrite in_app_iff. cbn. intros [H | [H | []]]; [exact (Hn H) | apply Hx; left; congruence].
  - apply IH; [exact Hd | intros H; apply Hx; right; exact H].
Qed.

Lemma Inv_step s g e : Inv s g -> ev_ok s g e = true -> Inv (vs_step s e) (gh_step g e).
Proof.
  intros [Hn Hm Hf] Hok. destruct e as [id | id | id files]; cbn [ev_ok vs_step gh_step] in *.
  - (* hold *)
    unfold linkedb in Hok. apply memN_In in Hok. rewrite vs_ref_eq.
    constructor; cbn [vs_nodes vs_current gh_holds gh_max gh_inst].
    + apply (NInv_hold _ _ _ id Hn Hok). intros i. unfold own. cbn [vs_current countN].
      destruct (i =? id), (i =? vs_current s); lia.
    + intros w Hw. apply upd_origin in Hw. destruct Hw as (v & Hv & E1 & _). rewrite E1.
      apply Hm, Hv.
    + intros w Hw. apply upd_origin in Hw. destruct Hw as (v & Hv & E1 & E2). rewrite E1, E2.
      apply Hf, Hv.
  - (* drop *)
    apply memN_In in Hok. rewrite vs_release_eq.
    constructor; cbn [vs_nodes vs_current gh_holds gh_max gh_inst].
    + apply (NInv_release _ _ _ id Hn). intros i. unfold own. cbn [vs_current].
      destruct (i =? id) eqn:E.
      * apply N.eqb_eq in E. subst i. rewrite countN_remove1_same. apply countN_In in Hok.
        destruct (id =? vs_current s); lia.
      * apply N.eqb_neq in E. rewrite countN_remove1_other by exact E. reflexivity.
    + intros w Hw. apply filter_In in Hw. destruct Hw as [Hw _]. apply upd_origin in Hw.
      destruct Hw as (v & Hv & E1 & _). rewrite E1. apply Hm, Hv.
    + intros w Hw. apply filter_In in Hw. destruct Hw as [Hw _]. apply upd_origin in Hw.
      destruct Hw as (v & Hv & E1 & E2). rewrite E1, E2. apply Hf, Hv.
  - (* install *)
    apply N.ltb_lt in Hok. unfold vs_install. rewrite vs_release_eq. cbn [vs_nodes vs_current].
    set (c1 := fun i => ((if i =? id then 1 else 0) + own s (gh_holds g) i)%nat).
    assert (Hfresh : ~ In id (map vn_id (vs_nodes s))).
    { intros Hin. apply in_map_iff in Hin. destruct Hin as (v & E & Hv). specialize (Hm v Hv). lia. }
    assert (H0 : own s (gh_holds g) id = 0%nat).
    { destruct (own s (gh_holds g) id) eqn:E; [reflexivity|]. exfalso. apply Hfresh.
      apply (ni_linked _ _ Hn). lia. }
    assert (H1 : NInv (vs_nodes s ++ [mkVN id 1 files]) c1).
    { destruct Hn as [Hnd Hr Hl]. constructor.
      - rewrite map_app. cbn [map vn_id]. apply NoDup_snoc; assumption.
      - intros v Hv. apply in_app_iff in Hv. destruct Hv as [Hv | [<- | []]].
        + unfold c1. assert (Hne : vn_id v <> id).
          { intros E. apply Hfresh. rewrite <- E. apply in_map, Hv. }
          apply N.eqb_neq in Hne. rewrite Hne. apply Hr, Hv.
        + cbn [vn_id vn_refs]. unfold c1. rewrite N.eqb_refl, H0. reflexivity.
      - intros i. rewrite map_app, in_app_iff. cbn [map vn_id In]. unfold c1.
        destruct (i =? id) eqn:E.
        + apply N.eqb_eq in E. split; [lia | intros _; right; left; congruence].
        + apply N.eqb_neq in E. rewrite Hl.
          split; [intros [A | [A | []]]; [lia | congruence] | intros A; left; lia]. }
    constructor; cbn [vs_nodes vs_current gh_holds gh_max gh_inst].
    + apply (NInv_release _ _ _ (vs_current s) H1). intros i. unfold c1, own. cbn [vs_current].
      destruct (i =? vs_current s), (i =? id); lia.
    + intros w Hw. apply filter_In in Hw. destruct Hw as [Hw _]. apply upd_origin in Hw.
      destruct Hw as (v & Hv & E1 & _). rewrite E1. apply in_app_iff in Hv.
      destruct Hv as [Hv | [<- | []]]; [specialize (Hm v Hv); lia | cbn [vn_id]; lia].
    + intros w Hw. apply filter_In in Hw. destruct Hw as [Hw _]. apply upd_origin in Hw.
      destruct Hw as (v & Hv & E1 & E2). rewrite E1, E2. apply in_app_iff in Hv.
      destruct Hv as [Hv | [<- | []]]; cbn [files_of vn_id vn_files].
      * assert (Hne : vn_id v <> id).
        { intros E. apply Hfresh. rewrite <- E. apply in_map, Hv. }
        apply N.eqb_neq in Hne. rewrite Hne. apply Hf, Hv.
      * rewrite N.eqb_refl. reflexivity.
Qed.

Lemma Inv_run evs : forall s g, Inv s g -> wf_from s g evs = true ->
  Inv (fold_left vs_step evs s) (fold_left gh_step evs g).
Proof.
  induction evs as [|e t IH]; intros s g HI Hwf; [exact HI|].
  cbn in Hwf. apply Bool.andb_true_iff in Hwf. destruct Hwf as [Hok Hwf].
  cbn [fold_left]. apply IH; [apply Inv_step; assumption | exact Hwf].
Qed.

Lemma Inv_reach evs : wf_events evs = true -> Inv (vs_run evs) (gh_run evs).
Proof. intros H. apply Inv_run; [apply Inv_init | exact H]. Qed.

(** *** T1: reference counts are exact *)
Theorem refs_exact evs : wf_events evs = true ->
  let s := vs_run evs in
  (forall v, In v (vs_nodes s) ->
     vn_refs v = ((if vn_id v =? vs_current s then 1 else 0) + countN (vn_id v) (holds_of evs))%nat
     /\ (vn_refs v >= 1)%nat)
  /\ NoDup (map vn_id (vs_nodes s))
  /\ linked s (vs_current s).
Proof.
  intros H s. destruct (Inv_reach evs H) as [[Hnd Hr Hl] _ _]. fold s in Hnd, Hr, Hl.
  split; [|split].
  - intros v Hv. split; [apply (Hr v Hv)|]. rewrite (Hr v Hv). apply Hl. apply in_map, Hv.
  - exact Hnd.
  - apply Hl. unfold own. rewrite N.eqb_refl. lia.
Qed.

(** *** T2: a version is linked exactly while it has a holder *)
Theorem linked_iff_held evs i : wf_events evs = true ->
  (linked (vs_run evs) i <-> i = vs_current (vs_run evs) \/ In i (holds_of evs)).
Proof.
  intros H. destruct (Inv_reach evs H) as [[_ _ Hl] _ _]. unfold linked. rewrite Hl.
  unfold own, holds_of. rewrite <- countN_In. destruct (i =? vs_current (vs_run evs)) eqn:E.
  - apply N.eqb_eq in E. split; [intros _; left; exact E | lia].
  - apply N.eqb_neq in E. split; [intros A; right; lia | intros [A | A]; [contradiction | lia]].
Qed.

(** a linked node carries the files its version was installed with, and they are live *)
Lemma linked_node_files evs v : wf_events evs = true ->
  In v (vs_nodes (vs_run evs)) -> vn_files v = installed_files evs (vn_id v).
Proof. intros H. apply (inv_files _ _ (Inv_reach evs H)). Qed.

Lemma linked_files_live evs i f : wf_events evs = true ->
  linked (vs_run evs) i -> In f (installed_files evs i) -> In f (vs_live_files (vs_run evs)).
Proof.
  intros H Hl Hf. apply in_map_iff in Hl. destruct Hl as (v & <- & Hv).
  unfold vs_live_files. apply in_flat_map. exists v. split; [exact Hv|].
  rewrite (linked_node_files evs v H Hv). exact Hf.
Qed.

(** the files of every version that the current pointer or a reader / iterator / compaction
    still holds are live *)
Theorem held_files_live evs i f : wf_events evs = true ->
  i = vs_current (vs_run evs) \/ In i (holds_of evs) ->
  In f (installed_files evs i) -> In f (vs_live_files (vs_run evs)).
Proof. intros H Hh. apply linked_files_live; [exact H | apply linked_iff_held; assumption]. Qed.

(** combined with [never_deletes_needed]: when garbage collection is given the live files of
    the version list, its side condition holds by construction ... *)
Theorem run_never_deletes_needed evs g f : wf_events evs = true ->
  g_live g = vs_live_files (vs_run evs) ->
  needed g (installed_files evs (vs_current (vs_run evs))) f -> keep g f = true.
Proof.
  intros H Hg. apply never_deletes_needed. intros n Hn. rewrite Hg.
  apply (held_files_live evs _ n H (or_introl eq_refl) Hn).
Qed.

(** ... and no table of a held version is ever selected for deletion *)
Theorem held_files_kept evs g i n listing : wf_events evs = true ->
  g_live g = vs_live_files (vs_run evs) ->
  i = vs_current (vs_run evs) \/ In i (holds_of evs) ->
  In n (installed_files evs i) ->
  keep g (FTable n) = true /\ (In (FTable n) listing -> In (FTable n) (gc g listing)).
Proof.
  intros H Hg Hh Hn.
  assert (Hk : keep g (FTable n) = true).
  { apply (run_never_deletes_needed evs g (FTable n) H Hg). cbn [needed]. right. left.
    rewrite Hg. apply (held_files_live evs i n H Hh Hn). }
  split; [exact Hk|]. intros Hin. unfold gc. apply filter_In. split; assumption.
Qed.

(** *** T3: nothing dead is kept *)
Lemma vs_current_step s e :
  vs_current (vs_step s e) = match e with VInstall id _ => id | _ => vs_current s end.
Proof. destruct e; reflexivity. Qed.

Lemma last_files_gen evs : forall s g lf,
  files_of (gh_inst g) (vs_current s) = lf ->
  files_of (gh_inst (fold_left gh_step evs g)) (vs_current (fold_left vs_step evs s)) =
  fold_left (fun lf e => match e with VInstall _ f => f | _ => lf end) evs lf.
Proof.
  induction evs as [|e t IH]; intros s g lf E; [exact E|].
  cbn [fold_left]. apply IH. rewrite vs_current_step.
  destruct e as [id | id | id files]; cbn [gh_step gh_inst files_of]; try exact E.
  rewrite N.eqb_refl. reflexivity.
Qed.

Lemma current_files_last evs :
  installed_files evs (vs_current (vs_run evs)) = last_files evs.
Proof. apply last_files_gen. reflexivity. Qed.

Theorem no_holds_exact evs : wf_events evs = true -> holds_of evs = [] ->
  let s := vs_run evs in
  vs_nodes s = [mkVN (vs_current s) 1 (last_files evs)] /\ vs_live_files s = last_files evs.
Proof.
  intros H Hh s.
  assert (Hall : forall v, In v (vs_nodes s) -> v = mkVN (vs_current s) 1 (last_files evs)).
  { intros v Hv. destruct (refs_exact evs H) as (Hr & _ & _). destruct (Hr v Hv) as [Hrv _].
    assert (Hid : vn_id v = vs_current s).
    { assert (Hl : linked s (vn_id v)) by (apply in_map, Hv).
      apply (linked_iff_held evs _ H) in Hl. rewrite Hh in Hl. destruct Hl as [A | []]. exact A. }
    pose proof (linked_node_files evs v H Hv) as Hfv. fold s in Hrv.
    rewrite Hid in Hfv. unfold s in Hfv. rewrite current_files_last in Hfv.
    rewrite Hh, Hid, N.eqb_refl in Hrv. cbn in Hrv.
    destruct v as [vi vr vf]. cbn in *. subst. reflexivity. }
  assert (Hn : vs_nodes s = [mkVN (vs_current s) 1 (last_files evs)]).
  { destruct (refs_exact evs H) as (_ & Hnd & Hcur). fold s in Hnd, Hcur. unfold linked in Hcur.
    destruct (vs_nodes s) as [|v [|w rest]] eqn:En.
    - destruct Hcur.
    - rewrite (Hall v (or_introl eq_refl)). reflexivity.
    - exfalso. rewrite (Hall v (or_introl eq_refl)), (Hall w (or_intror (or_introl eq_refl))) in Hnd.
      cbn in Hnd. inversion Hnd as [|x xs Hni _]; subst. apply Hni. left. reflexivity. }
  split; [exact Hn|]. unfold vs_live_files. rewrite Hn. cbn. apply app_nil_r.
Qed.

(** *** T4: an unmatched hold (defect D8) keeps its version, and its files, forever *)
Lemma holds_persist evs : forall g i,
  In i (gh_holds g) -> ~ In (VDrop i) evs -> In i (gh_holds (fold_left gh_step evs g)).
Proof.
  induction evs as [|e t IH]; intros g i Hi Hnd; [exact Hi|].
  cbn [fold_left]. apply IH; [|intros A; apply Hnd; right; exact A].
  destruct e as [id | id | id files]; cbn [gh_step gh_holds].
  - right. exact Hi.
  - apply In_remove1_other; [|exact Hi]. intros E. apply Hnd. left. rewrite E. reflexivity.
  - exact Hi.
Qed.

Lemma gh_max_mono evs : forall g, gh_max g <= gh_max (fold_left gh_step evs g).
Proof.
  induction evs as [|e t IH]; intros g; [cbn; lia|]. cbn [fold_left].
  specialize (IH (gh_step g e)). destruct e; cbn [gh_step gh_max] in *; lia.
Qed.

Lemma files_of_stable evs : forall s g i, wf_from s g evs = true -> i <= gh_max g ->
  files_of (gh_inst (fold_left gh_step evs g)) i = files_of (gh_inst g) i.
Proof.
  induction evs as [|e t IH]; intros s g i Hwf Hi; [reflexivity|].
  cbn in Hwf. apply Bool.andb_true_iff in Hwf. destruct Hwf as [Hok Hwf]. cbn [fold_left].
  rewrite (IH _ _ i Hwf).
  - destruct e as [id | id | id files]; cbn [gh_step gh_inst files_of]; try reflexivity.
    cbn [ev_ok] in Hok. apply N.ltb_lt in Hok. assert (Hne : i <> id) by lia.
    apply N.eqb_neq in Hne. rewrite Hne. reflexivity.
  - pose proof (gh_max_mono [e] g) as Hm. cbn [fold_left] in Hm. lia.
Qed.

Theorem unmatched_hold_stays_linked evs1 evs2 i :
  wf_events (evs1 ++ evs2) = true ->
  In i (holds_of evs1) ->            (* an outstanding hold on [i] after [evs1] ... *)
  ~ In (VDrop i) evs2 ->             (* ... that is never dropped afterwards *)
  linked (vs_run (evs1 ++ evs2)) i /\
  (forall f, In f (installed_files evs1 i) -> In f (vs_live_files (vs_run (evs1 ++ evs2)))).
Proof.
  intros H Hi Hnd.
  assert (Hh : In i (holds_of (evs1 ++ evs2))).
  { unfold holds_of, gh_run. rewrite fold_left_app. apply holds_persist; assumption. }
  assert (Hl : linked (vs_run (evs1 ++ evs2)) i) by (apply linked_iff_held; auto).
  split; [exact Hl|]. intros f Hf. apply (linked_files_live _ i f H Hl).
  pose proof H as H'. rewrite wf_events_app in H'. apply Bool.andb_true_iff in H'.
  destruct H' as [H1 H2].
  unfold installed_files, gh_run. rewrite fold_left_app. fold (gh_run evs1).
  rewrite (files_of_stable evs2 _ _ i H2); [exact Hf|].
  assert (Hl1 : linked (vs_run evs1) i) by (apply linked_iff_held; auto).
  apply in_map_iff in Hl1. destruct Hl1 as (v & <- & Hv).
  apply (inv_max _ _ (Inv_reach evs1 H1) v Hv).
Qed.

(** the D8 scenario. The initial version has id 0 and no files, so the scenario is run one id
    up: install 1 with [5], hold 1 (the trivial move's input version, never released), install
    2 with [6] and 3 with [7]. File 5 is still live although version 1 has long been replaced. *)
Example leak_D8_wf :
  wf_events [VInstall 1 [5]; VHold 1; VInstall 2 [6]; VInstall 3 [7]] = true.
Proof. vm_compute. reflexivity. Qed.

Example leak_D8 :
  vs_live_files (vs_run [VInstall 1 [5]; VHold 1; VInstall 2 [6]; VInstall 3 [7]]) = [5; 7]
  /\ vs_nodes (vs_run [VInstall 1 [5]; VHold 1; VInstall 2 [6]; VInstall 3 [7]])
     = [mkVN 1 1 [5]; mkVN 3 1 [7]]
  /\ holds_of [VInstall 1 [5]; VHold 1; VInstall 2 [6]; VInstall 3 [7]] = [1].
Proof. vm_compute. auto. Qed.

(** with the hold released (the repaired code) the file is dropped from the live set *)
Example leak_D8_repaired :
  wf_events [VInstall 1 [5]; VHold 1; VInstall 2 [6]; VDrop 1; VInstall 3 [7]] = true
  /\ vs_live_files (vs_run [VInstall 1 [5]; VHold 1; VInstall 2 [6]; VDrop 1; VInstall 3 [7]]) = [7].
Proof. vm_compute. auto. Qed.

(** the hypotheses are satisfiable on a run with interleaved holds, drops and installs *)
Definition sample_run : list vev :=
  [VHold 0; VInstall 1 [5]; VHold 1; VHold 1; VInstall 2 [6]; VDrop 0; VHold 2; VDrop 1;
   VInstall 4 [7; 8]; VHold 4; VDrop 2; VDrop 1; VInstall 9 [7; 10]; VDrop 4].

Example sample_run_wf : wf_events sample_run = true.
Proof. vm_compute. reflexivity. Qed.

Example sample_run_result :
  holds_of sample_run = [] /\ vs_run sample_run = mkVS [mkVN 9 1 [7; 10]] 9
  /\ last_files sample_run = [7; 10].
Proof. vm_compute. auto. Qed.

Example sample_run_midway :
  let evs := firstn 10 sample_run in
  wf_events evs = true /\ holds_of evs = [4; 2; 1]
  /\ vs_nodes (vs_run evs) = [mkVN 1 1 [5]; mkVN 2 1 [6]; mkVN 4 2 [7; 8]].
Proof. vm_compute. auto. Qed.

(** the well-formedness conditions are needed: each one dropped breaks T1/T2 *)
Example reused_id_breaks :          (* [VInstall] with an id that is still linked *)
  wf_events [VInstall 0 [5]] = false /\ vs_nodes (vs_run [VInstall 0 [5]]) = [].
Proof. vm_compute. auto. Qed.

Example reused_old_id_breaks :      (* an id used before but unlinked now: counts go wrong *)
  let evs := [VInstall 1 [5]; VHold 1; VInstall 2 [6]; VDrop 1; VHold 2; VInstall 1 [7];
              VInstall 3 [8]] in
  wf_events evs = false /\ wf_events (firstn 5 evs) = true.
Proof. vm_compute. auto. Qed.

Example hold_unlinked_breaks :      (* a hold on an unlinked version is not a holder *)
  let evs := [VInstall 1 [5]; VHold 0] in
  wf_events evs = false /\ holds_of evs = [0] /\ ~ linked (vs_run evs) 0.
Proof. vm_compute. split; [|split]; auto. intros [A | []]. discriminate. Qed.

Example unmatched_drop_breaks :     (* a drop without a hold unlinks the current version *)
  wf_events [VDrop 0] = false /\ vs_nodes (vs_run [VDrop 0]) = [].
Proof. vm_compute. auto. Qed.

(** with no outstanding holds the run is balanced in the sense of [balanced_b] *)
Corollary no_holds_balanced evs : wf_events evs = true -> holds_of evs = [] ->
  balanced_b (vs_run evs) = true.
Proof.
  intros H Hh. destruct (no_holds_exact evs H Hh) as [Hn _]. unfold balanced_b. rewrite Hn.
  cbn. rewrite N.eqb_refl. reflexivity.
Qed.
