(** Opening the database (creation or recovery with log replay): the step lemma [open_step].
    No axioms. *)
From Coq Require Import Lia ZArith ZifyN ZifyBool ZifyNat Arith List NArith Bool Permutation Sorted.
From RainVerif Require Import Params.
From RainVerif.model Require Import Bytes Key Block Crc Log Table TableSpec Version Lsm DbSpec Codec WalModel Gc Recover Proto.
From RainVerif.proofs Require Import LogXProofs ImgProofs ManifestSem ContentsProofs ProtoDurable ProtoSteps ProtoReplay.
From RainVerif.proofs Require CodecProofs WalProofs GetProofs KeyProofs LogProofs.
Import ListNotations.
Open Scope N_scope.
Arguments N.add : simpl never.
Arguments N.sub : simpl never.
Arguments N.mul : simpl never.
Arguments N.div : simpl never.
Arguments N.modulo : simpl never.
Arguments N.eqb : simpl never.
Arguments N.ltb : simpl never.
Arguments N.leb : simpl never.
Arguments N.min : simpl never.
Arguments N.max : simpl never.
Arguments N.pow : simpl never.
Arguments N.of_nat : simpl never.
Arguments N.to_nat : simpl never.

Lemma NoDup_app_iff {A} (a b : list A) :
  NoDup (a ++ b) <-> NoDup a /\ NoDup b /\ forall x, In x a -> ~ In x b.
Proof.
  induction a as [|y a IH]; cbn [app].
  - split; [intros H; split; [constructor|split; [exact H|intros x []]]|tauto].
  - rewrite !NoDup_cons_iff, IH, in_app_iff. split.
    + intros (Hy & Ha & Hb & Hd). repeat split; try tauto.
      intros x [<-|Hx]; [tauto|apply Hd; exact Hx].
    + intros ((Hy & Ha) & Hb & Hd). repeat split; try tauto.
      * intros [H|H]; [tauto|]. apply (Hd y); [left; reflexivity|exact H].
      * intros x Hx. apply Hd. right. exact Hx.
Qed.

Lemma lvl_nums_app a b : lvl_nums (a ++ b) = lvl_nums a ++ lvl_nums b.
Proof. unfold lvl_nums. apply map_app. Qed.

Lemma set_pointer_ok ps p : Forall ptr_ok ps -> ptr_ok p -> Forall ptr_ok (set_pointer ps p).
Proof.
  intros H Hp. induction H as [|q r Hq Hr IH]; cbn [set_pointer]; [constructor; [exact Hp|constructor]|].
  destruct (fst p <? fst q); [constructor; [exact Hp|constructor; assumption]|].
  destruct (fst p =? fst q); [constructor; assumption|]. constructor; assumption.
Qed.

Lemma fold_set_pointer_ok qs : forall ps, Forall ptr_ok ps -> Forall ptr_ok qs ->
  Forall ptr_ok (fold_left set_pointer qs ps).
Proof.
  induction qs as [|q qs IH]; intros ps Hps Hqs; [exact Hps|]. cbn [fold_left].
  apply IH; [apply set_pointer_ok; [exact Hps|exact (Forall_inv Hqs)]|exact (Forall_inv_tail Hqs)].
Qed.

(** what [log_and_apply] delivers, whichever way the record reaches the manifest CURRENT names *)
Record LAARes (d1 : pdb) (dv : dview) (wal' : N) (added : list (N * fmeta)) (seq : N) (v' : version)
              (bsF' : list batch) (Q' : N) (logs' : list (N * list batch))
              (d2 : pdb) (ops2 : list fsop) (dv2 : dview) : Prop := mkLAARes {
  lr_eq : log_and_apply d1 (mkVC (Some wal') None None None [] [] added) seq = Some (d2, ops2);
  lr_rec : Rec (pd_img d2) dv2 bsF' Q';
  lr_crash : all_crash (fun i => Good i (bsF' ++ log_batches logs')) (pd_img d1) ops2;
  lr_img : pd_img d2 = apply_fsops (pd_img d1) ops2;
  lr_dv : dv_ver dv2 = v' /\ dv_wal dv2 = wal' /\ dv_next dv2 = pd_next d1 /\ dv_seq dv2 = seq /\
          dv_logs dv2 = logs' /\ dv_man dv2 = pd_manifest d2;
  lr_pd : pd_ver d2 = v' /\ pd_next d2 = pd_next d1 /\ pd_manifest_open d2 = true /\ pd_vs_wal d2 = wal' /\
          pd_prev_wal d2 = None /\ pd_wal d2 = pd_wal d1 /\ pd_wal_boff d2 = pd_wal_boff d1 /\
          pd_seq d2 = pd_seq d1 /\ pd_mem d2 = pd_mem d1 /\ pd_imm d2 = pd_imm d1 /\
          pd_pointers d2 = pd_pointers d1;
  lr_manfile : exists file, lookupN (dv_man dv2) (i_manifests (pd_img d2)) = Some file /\
                            logfile file (map vchange_encode (dv_changes dv2)) (pd_manifest_boff d2);
  lr_other : i_wals (pd_img d2) = i_wals (pd_img d1) /\ i_tables (pd_img d2) = i_tables (pd_img d1);
  lr_prev : ma_prev_wal (man_acc (dv_changes dv2)) = None;
  lr_hist : NoDup (lvl_nums (ma_added (man_acc (dv_changes dv2)))) /\
            forall l f, In (l, f) (ma_added (man_acc (dv_changes dv2))) ->
              In (l, f) (ma_added (man_acc (dv_changes dv))) \/
              In (l, f) (map (fun p => (N.to_nat (fst p), snd p)) added);
  lr_ptr : Forall ptr_ok (ma_pointers (man_acc (dv_changes dv2)));
  lr_man : dv_man dv2 = dv_man dv \/ dv_man dv2 = pd_manifest d1;
  lr_crash_cs : forall bsF0 Q0, CS (pd_img d1) dv bsF0 Q0 ->
                CSE (pd_img d2) (bsF0 ++ log_batches (dv_logs dv)) ->
                all_crash (fun i => CSE i (bsF0 ++ log_batches (dv_logs dv))) (pd_img d1) ops2
}.

(** * [log_and_apply] for a change that sets the log number and adds files *)
Section LAA.
Variables (d1 : pdb) (dv : dview) (bsF : list batch) (Q : N).
Hypothesis R : Rec (pd_img d1) dv bsF Q.
Hypothesis Hv : pd_ver d1 = dv_ver dv.
Hypothesis Hp : pd_prev_wal d1 = None.
Hypothesis Hpa : ma_prev_wal (man_acc (dv_changes dv)) = None.
Hypothesis Hptra : Forall ptr_ok (ma_pointers (man_acc (dv_changes dv))).
Hypothesis Hptrd : Forall ptr_ok (pd_pointers d1).
Hypothesis Hhnd : NoDup (lvl_nums (ma_added (man_acc (dv_changes dv)))).
Variables (wal' : N) (added : list (N * fmeta)) (seq : N).
Let c := mkVC (Some wal') None None None [] [] added.
Let c' := mkVC (Some wal') None (Some (pd_next d1)) (Some seq) [] [] added.
Variable v' : version.
Hypothesis Hedit : apply_edit (pd_ver d1) (edit_of c) = Some v'.
Hypothesis Hvok : vok c'.
Hypothesis Hnodup : NoDup (lvl_nums (ma_added (man_acc (dv_changes dv)) ++ news_of c')).
Hypothesis HDTab : DTab (i_tables (pd_img d1)) v'.
Hypothesis Hwal : dv_wal dv <= wal'.
Variables (moved : list batch) (Q' : N).
Let logs' := filter (fun nb => wal' <=? fst nb) (dv_logs dv).
Hypothesis Hsplit : log_batches (dv_logs dv) = moved ++ log_batches logs'.
Hypothesis Htok : tables_ok (tab_entries (pd_img d1) v') (bsF ++ moved) Q'.
Hypothesis HQ' : Q' <= nops (bsF ++ log_batches (dv_logs dv)).
Hypothesis Hs1 : nops (bsF ++ moved) <= seq.
Hypothesis Hs2 : seq <= nops (bsF ++ log_batches (dv_logs dv)).

Let acked := bsF ++ log_batches (dv_logs dv).

Lemma laa_acked : (bsF ++ moved) ++ log_batches logs' = acked.
Proof. unfold acked. rewrite Hsplit, <- List.app_assoc. reflexivity. Qed.

Lemma laa_build : build_levels 0 NLEVELS (man_acc (dv_changes dv)) = Some (dv_ver dv).
Proof. destruct R as [D _ _ _ _]. apply D. Qed.

(** ** the manifest is open: one record is appended *)
Section LAA_OPEN.
Hypothesis Ho : pd_manifest_open d1 = true.
Hypothesis Hm : pd_manifest d1 = dv_man dv.
Variable file : bytes.
Hypothesis Hfile : lookupN (dv_man dv) (i_manifests (pd_img d1)) = Some file.
Hypothesis Hlf : logfile file (map vchange_encode (dv_changes dv)) (pd_manifest_boff d1).
Let recd := log_append (pd_manifest_boff d1) (vchange_encode c').
Let op := FsAppend (FManifest (pd_manifest d1)) (fst recd).
Let dv2 := mkDV (dv_man dv) (dv_changes dv ++ [c']) v' wal' (pd_next d1) seq logs'.
Let d2 := mkPD (apply_fsop (pd_img d1) op) v' (pd_pointers d1) (pd_next d1) (pd_manifest d1) true
               (snd recd) wal' None (pd_wal d1) (pd_wal_boff d1) (pd_seq d1) (pd_mem d1) (pd_imm d1).

Lemma laa_open_eq : log_and_apply d1 c seq = Some (d2, [op]).
Proof.
  unfold log_and_apply. cbn [vc_wal vc_prev_wal vc_pointers vc_deleted vc_new c].
  rewrite Hedit, Ho, Hp. reflexivity.
Qed.

Lemma laa_open_sem : DSem (dv_changes dv ++ [c']) v' wal' (pd_next d1) seq.
Proof.
  destruct R as [D _ _ _ _]. destruct D as (_ & _ & (Hok & Hn & Hw & Hq & Hb) & _ & _).
  split; [apply Forall_app; split; [exact Hok|constructor; [exact Hvok|constructor]]|].
  rewrite man_acc_snoc. split; [reflexivity|]. split; [reflexivity|]. split; [reflexivity|].
  apply (build_levels_step _ _ (dv_ver dv)); [exact Hnodup|exact Hb|].
  rewrite <- Hv. exact Hedit.
Qed.

Lemma laa_open_rec : Rec (pd_img d2) dv2 (bsF ++ moved) Q'.
Proof.
  unfold dv2, logs'.
  apply (Rec_commit (pd_img d1) (pd_img d2) dv bsF Q); try reflexivity; try assumption.
  - destruct R as [D _ _ _ _]. apply D.
  - unfold d2, op. cbn [pd_img]. rewrite Hm. cbn [apply_fsop i_manifests].
    apply (DMan_app_same _ _ (dv_changes dv)).
    + intros file' Hl'. pose proof (eq_trans (eq_sym Hl') Hfile) as E. injection E as ->. exists true.
      rewrite map_app. cbn [map]. apply (logfile_read _ _ (snd recd)). apply logfile_append. exact Hlf.
    + destruct R as [D _ _ _ _]. apply D.
  - apply laa_open_sem.
Qed.

Lemma laa_open_torn t : (t < length (fst recd))%nat ->
  Rec (apply_fsop (pd_img d1) (FsAppend (FManifest (pd_manifest d1)) (firstn t (fst recd)))) dv bsF Q.
Proof.
  intros Ht. rewrite Hm. apply (Rec_manifests (pd_img d1)); try reflexivity; [exact R|].
  cbn [apply_fsop i_manifests]. apply (DMan_app_same _ _ (dv_changes dv)).
  - intros file' Hl'. pose proof (eq_trans (eq_sym Hl') Hfile) as E. injection E as ->.
    apply (logfile_read_torn _ _ _ _ _ Hlf Ht).
  - destruct R as [D _ _ _ _]. apply D.
Qed.

Lemma laa_open_crash : all_crash (fun i => Good i acked) (pd_img d1) [op].
Proof.
  apply all_crash_cons.
  - apply (Rec_good _ _ _ _ R).
  - intros k. unfold op. cbn [torn_fsop apply_fsops fold_left].
    destruct (Nat.lt_ge_cases k (length (fst recd))) as [L|L].
    + apply (Rec_good _ _ _ _ (laa_open_torn k L)).
    + rewrite firstn_all2 by exact L. rewrite <- laa_acked. apply (Rec_good _ _ _ _ laa_open_rec).
  - apply all_crash_nil. rewrite <- laa_acked. apply (Rec_good _ _ _ _ laa_open_rec).
Qed.

Lemma laa_open_manfile :
  lookupN (dv_man dv2) (i_manifests (pd_img d2)) = Some (file ++ fst recd) /\
  logfile (file ++ fst recd) (map vchange_encode (dv_changes dv2)) (pd_manifest_boff d2).
Proof.
  split.
  - unfold d2, op. cbn [pd_img dv2 dv_man]. rewrite Hm. cbn [apply_fsop i_manifests].
    rewrite lookupN_app_assoc, N.eqb_refl.
    etransitivity; [apply (f_equal (option_map _)); exact Hfile|reflexivity].
  - unfold dv2, d2. cbn [dv_changes pd_manifest_boff]. rewrite map_app. cbn [map].
    apply logfile_append. exact Hlf.
Qed.
Lemma laa_open_res : LAARes d1 dv wal' added seq v' (bsF ++ moved) Q' logs' d2 [op] dv2.
Proof.
  constructor.
  - apply laa_open_eq.
  - apply laa_open_rec.
  - rewrite laa_acked. apply laa_open_crash.
  - reflexivity.
  - repeat split; try reflexivity. unfold dv2, d2. cbn [dv_man pd_manifest]. symmetry. exact Hm.
  - repeat split; reflexivity.
  - exists (file ++ fst recd). apply laa_open_manfile.
  - split; reflexivity.
  - unfold dv2. cbn [dv_changes]. rewrite man_acc_snoc. exact Hpa.
  - unfold dv2. cbn [dv_changes]. rewrite man_acc_snoc.
    change (ma_added (accumulate (man_acc (dv_changes dv)) c'))
      with (ma_added (man_acc (dv_changes dv)) ++ news_of c').
    split; [exact Hnodup|]. intros l f Hin. apply in_app_or in Hin. exact Hin.
  - unfold dv2. cbn [dv_changes]. rewrite man_acc_snoc. exact Hptra.
  - left. reflexivity.
  - intros bsF0 Q0 C0 Hafter. unfold op in *. cbn [d2 pd_img] in Hafter. unfold op in Hafter. rewrite Hm in *.
    apply (crash_cs_manifest_append (pd_img d1) dv bsF0 Q0 file (pd_manifest_boff d1) _ _ C0 eq_refl Hfile Hlf Hafter).
Qed.
End LAA_OPEN.

(** ** no manifest is open: a new manifest with a snapshot record, then CURRENT is switched *)
Section LAA_CLOSED.
Hypothesis Ho : pd_manifest_open d1 = false.
Let m := pd_manifest d1.
Hypothesis Hm : m <> dv_man dv.
Hypothesis Hmlt : m < two64.
Hypothesis Hvoks : vok (snapshot_change d1).
Let snap := log_append 0 (vchange_encode (snapshot_change d1)).
Let recd := log_append (snd snap) (vchange_encode c').
Let ops5 := [FsCreate (FManifest m); FsAppend (FManifest m) (fst snap); FsAppend (FManifest m) (fst recd);
             FsCreate (FTemp m); FsAppend (FTemp m) (current_contents m)].
Let ops := ops5 ++ [FsRename m].
Let dv2 := mkDV m [snapshot_change d1; c'] v' wal' (pd_next d1) seq logs'.
Let d2 := mkPD (apply_fsops (pd_img d1) ops) v' (pd_pointers d1) (pd_next d1) m true
               (snd recd) wal' None (pd_wal d1) (pd_wal_boff d1) (pd_seq d1) (pd_mem d1) (pd_imm d1).
Let img5 := apply_fsops (pd_img d1) ops5.

Lemma laa_closed_eq : log_and_apply d1 c seq = Some (d2, ops).
Proof.
  unfold log_and_apply. cbn [vc_wal vc_prev_wal vc_pointers vc_deleted vc_new c].
  rewrite Hedit, Ho, Hp. reflexivity.
Qed.

Lemma laa_ops5_invisible : Forall (invisible dv) ops5.
Proof. unfold ops5. repeat constructor; exact Hm. Qed.

Lemma laa_rec5 : Rec img5 dv bsF Q.
Proof. apply Rec_invisible_list; [exact R|apply laa_ops5_invisible]. Qed.

Lemma laa_img5 :
  i_current img5 = i_current (pd_img d1) /\
  i_manifests img5 = app_assoc m (fst recd) (app_assoc m (fst snap) (set_assoc m [] (i_manifests (pd_img d1)))) /\
  i_wals img5 = i_wals (pd_img d1) /\ i_tables img5 = i_tables (pd_img d1) /\
  i_temps img5 = app_assoc m (current_contents m) (set_assoc m [] (i_temps (pd_img d1))).
Proof. repeat split; reflexivity. Qed.

Lemma laa_temp5 : lookupN m (i_temps img5) = Some (current_contents m).
Proof.
  destruct laa_img5 as (_ & _ & _ & _ & ->).
  rewrite lookupN_app_assoc, N.eqb_refl, lookupN_set_assoc, N.eqb_refl. reflexivity.
Qed.

Lemma laa_img6 :
  apply_fsop img5 (FsRename m)
  = mkImg (Some (current_contents m)) (i_manifests img5) (i_wals img5) (i_tables img5) (del_assoc m (i_temps img5)).
Proof. cbn [apply_fsop]. rewrite laa_temp5. reflexivity. Qed.

Lemma laa_manfile5 :
  lookupN m (i_manifests img5) = Some (([] ++ fst snap) ++ fst recd) /\
  logfile (([] ++ fst snap) ++ fst recd) (map vchange_encode [snapshot_change d1; c']) (snd recd).
Proof.
  split.
  - destruct laa_img5 as (_ & -> & _).
    rewrite !lookupN_app_assoc, N.eqb_refl, lookupN_set_assoc, N.eqb_refl. reflexivity.
  - cbn [map]. apply (logfile_append _ [vchange_encode (snapshot_change d1)]).
    apply (logfile_append [] [] 0). apply logfile_nil.
Qed.

Lemma laa_closed_sem : DSem [snapshot_change d1; c'] v' wal' (pd_next d1) seq.
Proof.
  split; [constructor; [exact Hvoks|constructor; [exact Hvok|constructor]]|].
  split; [reflexivity|]. split; [reflexivity|]. split; [reflexivity|].
  change (man_acc [snapshot_change d1; c'])
    with (accumulate (accumulate macc_empty (snapshot_change d1)) c').
  pose proof (build_levels_snapshot _ _ (pd_pointers d1) Hhnd laa_build) as Hs. cbv zeta in Hs.
  unfold snapshot_change. rewrite Hv.
  destruct Hs as (Hb & _ & Hnd & Hin).
  apply (build_levels_step _ _ (dv_ver dv)); [|exact Hb|rewrite <- Hv; exact Hedit].
  (* no (level, number) twice *)
  rewrite lvl_nums_app in *. apply NoDup_app_iff in Hnodup. destruct Hnodup as (_ & Hn2 & Hd).
  apply NoDup_app_iff. split; [exact Hnd|]. split; [exact Hn2|].
  intros x Hx. apply Hd. unfold lvl_nums in *. apply in_map_iff in Hx. destruct Hx as ([l f] & <- & Hlf).
  apply Hin in Hlf. destruct Hlf as [_ Hlf]. apply (build_levels_in _ _ _ _ laa_build) in Hlf.
  apply in_map_iff. exists (l, f). split; [reflexivity|exact Hlf].
Qed.

Lemma laa_closed_rec : Rec (pd_img d2) dv2 (bsF ++ moved) Q'.
Proof.
  pose proof laa_rec5 as R5. destruct laa_img5 as (E1 & E2 & E3 & E4 & E5).
  assert (Ed2 : pd_img d2 = apply_fsop img5 (FsRename m)).
  { unfold d2, ops, img5. cbn [pd_img]. rewrite apply_fsops_app. reflexivity. }
  rewrite Ed2, laa_img6. unfold dv2, logs'.
  apply (Rec_commit img5 _ dv bsF Q); try reflexivity; try assumption.
  - split; [reflexivity|exact Hmlt].
  - cbn [i_manifests]. destruct laa_manfile5 as [Hl Hlf]. eexists _, true. split; [exact Hl|].
    apply (logfile_read _ _ _ Hlf).
  - apply laa_closed_sem.
Qed.

Lemma laa_closed_crash : all_crash (fun i => Good i acked) (pd_img d1) ops.
Proof.
  unfold ops. apply all_crash_app.
  - apply (all_crash_invisible _ dv bsF Q); [|exact R|apply laa_ops5_invisible].
    intros img' R'. apply (Rec_good _ _ _ _ R').
  - fold img5. assert (G6 : Good (apply_fsop img5 (FsRename m)) acked).
    { rewrite <- laa_acked.
      assert (Ed2 : pd_img d2 = apply_fsop img5 (FsRename m)).
      { unfold d2, ops, img5. cbn [pd_img]. rewrite apply_fsops_app. reflexivity. }
      rewrite <- Ed2. apply (Rec_good _ _ _ _ laa_closed_rec). }
    apply all_crash_cons.
    + apply (Rec_good _ _ _ _ laa_rec5).
    + intros k. cbn [torn_fsop apply_fsops fold_left]. exact G6.
    + apply all_crash_nil. exact G6.
Qed.

Lemma laa_closed_manfile :
  lookupN (dv_man dv2) (i_manifests (pd_img d2)) = Some (([] ++ fst snap) ++ fst recd) /\
  logfile (([] ++ fst snap) ++ fst recd) (map vchange_encode (dv_changes dv2)) (pd_manifest_boff d2).
Proof.
  assert (Ed2 : pd_img d2 = apply_fsop img5 (FsRename m)).
  { unfold d2, ops, img5. cbn [pd_img]. rewrite apply_fsops_app. reflexivity. }
  rewrite Ed2, laa_img6. cbn [i_manifests dv2 dv_man dv_changes d2 pd_manifest_boff]. apply laa_manfile5.
Qed.

Lemma laa_closed_other :
  i_wals (pd_img d2) = i_wals (pd_img d1) /\ i_tables (pd_img d2) = i_tables (pd_img d1).
Proof.
  assert (Ed2 : pd_img d2 = apply_fsop img5 (FsRename m)).
  { unfold d2, ops, img5. cbn [pd_img]. rewrite apply_fsops_app. reflexivity. }
  rewrite Ed2, laa_img6. cbn [i_wals i_tables]. split; reflexivity.
Qed.
Lemma laa_closed_res : LAARes d1 dv wal' added seq v' (bsF ++ moved) Q' logs' d2 ops dv2.
Proof.
  pose proof (build_levels_snapshot _ _ (pd_pointers d1) Hhnd laa_build) as Hs. cbv zeta in Hs.
  destruct Hs as (_ & _ & Hnd & Hin).
  assert (Eacc : man_acc (dv_changes dv2)
                 = accumulate (accumulate macc_empty (mkVC None None None None (pd_pointers d1) [] (version_files (dv_ver dv)))) c').
  { unfold dv2. cbn [dv_changes]. unfold snapshot_change. rewrite Hv. reflexivity. }
  constructor.
  - apply laa_closed_eq.
  - apply laa_closed_rec.
  - rewrite laa_acked. apply laa_closed_crash.
  - reflexivity.
  - repeat split; reflexivity.
  - repeat split; reflexivity.
  - eexists. apply laa_closed_manfile.
  - apply laa_closed_other.
  - rewrite Eacc. reflexivity.
  - rewrite Eacc.
    change (ma_added (accumulate ?a c')) with (ma_added a ++ news_of c').
    split.
    + pose proof laa_build as Hbl. pose proof Hnodup as Hnodup'.
      rewrite lvl_nums_app in *. apply NoDup_app_iff in Hnodup'. destruct Hnodup' as (_ & Hn2 & Hd).
      apply NoDup_app_iff. split; [exact Hnd|]. split; [exact Hn2|].
      intros x Hx. apply Hd. unfold lvl_nums in *. apply in_map_iff in Hx. destruct Hx as ([l f] & <- & Hlf).
      apply Hin in Hlf. destruct Hlf as [_ Hlf]. apply (build_levels_in _ _ _ _ Hbl) in Hlf.
      apply in_map_iff. exists (l, f). split; [reflexivity|exact Hlf].
    + intros l f Hlf. apply in_app_or in Hlf. destruct Hlf as [Hlf|Hlf]; [left|right; exact Hlf].
      apply Hin in Hlf. destruct Hlf as [_ Hlf]. apply (build_levels_in _ _ _ _ laa_build). exact Hlf.
  - rewrite Eacc. cbn [accumulate ma_pointers vc_pointers c' fold_left macc_empty].
    apply fold_set_pointer_ok; [constructor|exact Hptrd].
  - right. reflexivity.
  - intros bsF0 Q0 C0 Hafter.
    assert (Ed2 : pd_img d2 = apply_fsop img5 (FsRename m)).
    { unfold d2, ops, img5. cbn [pd_img]. rewrite apply_fsops_app. reflexivity. }
    rewrite Ed2 in Hafter. unfold ops. apply all_crash_app.
    + apply (all_crash_invisible_cs _ _ _ _ _ C0 laa_ops5_invisible).
    + fold img5. apply all_crash_cons.
      * exists dv, bsF0, Q0. split; [|reflexivity]. apply (CS_invisible_ops _ _ _ _ _ C0 laa_ops5_invisible).
      * intros k. cbn [torn_fsop apply_fsops fold_left]. exact Hafter.
      * apply all_crash_nil. exact Hafter.
Qed.
End LAA_CLOSED.
End LAA.

(** * The directory between two sessions: [CS] (ProtoSteps) *)
Definition dv_init : dview := mkDV 1 [new_db_change] (repeat [] NLEVELS) 0 1 0 [].
Definition img_init : image := apply_fsops empty_image init_ops.

Lemma CS_init : CS img_init dv_init [] 0.
Proof.
  assert (Hfile : lookupN 1 (i_manifests img_init)
                  = Some ([] ++ fst (log_append 0 (vchange_encode new_db_change)))) by reflexivity.
  assert (Hlf : logfile ([] ++ fst (log_append 0 (vchange_encode new_db_change)))
                        (map vchange_encode [new_db_change])
                        (snd (log_append 0 (vchange_encode new_db_change)))).
  { apply (logfile_append [] [] 0). apply logfile_nil. }
  constructor.
  - constructor.
    + unfold Durable. split; [|split; [|split; [|split]]].
      * split; [reflexivity|reflexivity].
      * eexists _, true. split; [exact Hfile|]. apply (logfile_read _ _ _ Hlf).
      * split; [constructor; [reflexivity|constructor]|].
        split; [reflexivity|]. split; [reflexivity|]. split; [reflexivity|].
        apply build_levels_empty. reflexivity.
      * intros n Hn. exfalso. revert Hn. cbn. tauto.
      * split; [constructor|]. split; [reflexivity|constructor].
    + apply tables_ok_nil.
    + reflexivity.
    + cbn. lia.
    + cbn. lia.
  - eexists. split; [exact Hfile|apply (tlog_logfile _ _ _ Hlf)].
  - constructor.
  - reflexivity.
  - cbn. lia.
  - split; [constructor|]. intros l f [].
  - constructor.
  - reflexivity.
Qed.

Lemma vf_go_in v : forall lv p, In p (vf_go lv v) ->
  exists i, (i < length v)%nat /\ fst p = lv + N.of_nat i /\ In (snd p) (nth i v []).
Proof.
  induction v as [|fs r IH]; intros lv p Hp; cbn [vf_go] in Hp; [destruct Hp|].
  apply in_app_or in Hp. destruct Hp as [Hp|Hp].
  - apply in_map_iff in Hp. destruct Hp as (f & <- & Hf). exists O. cbn [length nth fst snd].
    split; [lia|]. split; [lia|exact Hf].
  - destruct (IH _ _ Hp) as (i & Hi & E & Hin). exists (S i). cbn [length nth].
    split; [lia|]. split; [lia|exact Hin].
Qed.

Lemma af_dv_self dv : set_logs dv (dv_logs dv) = dv.
Proof. destruct dv; reflexivity. Qed.

(** the part of [p_open] after recovery *)
Definition open_rest (o : open_oracle) (img0 : image) (ops0 : list fsop) (img1 : image) (rc : recovered)
  : option (pdb * list fsop) :=
      let ms := rc_manifest rc in
      let next1 := ms_next ms + 1 in
      let reuse_manifest := ms_intact ms && oo_reuse o && (ms_size ms <? oo_max_file_size o) in
      let r0 := mkRS next1 [] (oo_cuts o) [] [] O false in
      let '(r, reused) := replay_logs o img1 (rc_wals rc) r0 in
      let next2 := match reused with Some _ => rs_next r | None => rs_next r + 1 end in
      let wal_ops := match reused with Some _ => [] | None => [FsCreate (FWal next2)] end in
      let wal := match reused with Some (n, _) => n | None => next2 end in
      let wal_boff := match reused with Some (_, b) => b | None => 0 end in
      let mem := match reused with Some _ => rs_mem r | None => [] end in
      let ops1 := ops0 ++ rs_ops r ++ wal_ops in
      let d1 := mkPD (apply_fsops img0 ops1) (ms_version ms) (ms_pointers ms) next2
                     (if reuse_manifest then ms_number ms else next1) reuse_manifest
                     (ms_size ms mod BLOCK_SIZE_BYTES)
                     (ms_wal ms) (ms_prev_wal ms) wal wal_boff (rc_seq rc) mem None in
      let new_snapshot := negb reuse_manifest || rs_new_manifest r in
      let step2 :=
        if new_snapshot then
          log_and_apply d1 (mkVC (Some wal) None None None [] [] (rs_added r)) (rc_seq rc)
        else Some (d1, []) in
      match step2 with
      | None => None
      | Some (d2, ops2) =>
          let '(d3, ops3) := do_gc d2 in
          Some (d3, ops1 ++ ops2 ++ ops3)
      end.

Lemma p_open_unfold o img0 :
  p_open o img0 =
  let ops0 := match i_current img0 with None => init_ops | Some _ => [] end in
  let img1 := apply_fsops img0 ops0 in
  match recover_image img1 with
  | inr _ => None
  | inl rc => open_rest o img0 ops0 img1 rc
  end.
Proof. reflexivity. Qed.

(** * Recovery and log replay on a closed directory *)
Section OPENCORE.
Variables (o : open_oracle) (img1 : image) (dv : dview) (bsF : list batch) (Q : N).
Hypothesis C : CS img1 dv bsF Q.
Hypothesis Hsizes : forall p, In p (oo_sizes o) -> snd p < two64.

Let acked := bsF ++ log_batches (dv_logs dv).
Let a := man_acc (dv_changes dv).
Let next1 := dv_next dv + 1.
Let file := file_of (dv_man dv) (i_manifests img1).
Let R1 : Rec img1 dv bsF Q := cs_rec _ _ _ _ C.
Let D1 : Durable img1 dv := rec_dur _ _ _ _ R1.

Let mi := rx_intact (log_read_all_x file).
Let li (nb : N * list batch) : bool := rx_intact (log_read_all_x (file_of (fst nb) (i_wals img1))).

Lemma oc_file : lookupN (dv_man dv) (i_manifests img1) = Some file /\
                tlog file (map vchange_encode (dv_changes dv)).
Proof.
  destruct (cs_manfile _ _ _ _ C) as (f & Hl & Hlf).
  unfold file, file_of.
  assert (Hl' : @lookupN (list N) (dv_man dv) (i_manifests img1) = Some f) by exact Hl.
  rewrite Hl'. split; [exact Hl|exact Hlf].
Qed.

Lemma oc_mi : mi = true -> exists boff, logfile file (map vchange_encode (dv_changes dv)) boff.
Proof.
  destruct oc_file as (_ & i & Hr & Hi). unfold mi. rewrite Hr. cbn [rx_intact]. exact Hi.
Qed.

Lemma oc_ms : ms_of img1 dv
  = mkMS (dv_man dv) (dv_ver dv) (dv_wal dv) None (dv_next dv) (dv_seq dv) (ma_pointers a) mi (blen file).
Proof. unfold ms_of. fold file. rewrite (cs_prev _ _ _ _ C). reflexivity. Qed.

Lemma oc_wals : map (wr_of img1) (dv_logs dv) = map (fun nb => mkWR (fst nb) (snd nb) (li nb)) (dv_logs dv).
Proof. reflexivity. Qed.

Lemma oc_li nb : In nb (dv_logs dv) -> li nb = true ->
  exists f boff, lookupN (fst nb) (i_wals img1) = Some f /\ logfile f (map batch_bytes (snd nb)) boff.
Proof.
  intros Hnb Hli. pose proof (cs_logfiles _ _ _ _ C) as H. rewrite Forall_forall in H.
  destruct (H nb Hnb) as (f & Hl & i & Hr & Hi). unfold li, file_of in Hli.
  assert (Hl' : @lookupN (list N) (fst nb) (i_wals img1) = Some f) by exact Hl.
  rewrite Hl', Hr in Hli. cbn [rx_intact] in Hli. destruct (Hi Hli) as [boff Hf]. exists f, boff. auto.
Qed.

Lemma oc_seq : rc_seq (rc_of img1 dv) = nops acked.
Proof. apply (rc_seq_rec _ _ _ _ R1). Qed.

Lemma oc_ver_bound n : In n (version_numbers (dv_ver dv)) -> n <= dv_next dv.
Proof.
  intros Hn. apply vn_in in Hn. destruct Hn as (i & f & Hf & <-).
  destruct D1 as (_ & _ & (_ & _ & _ & _ & Hb) & _ & _).
  apply (build_levels_in _ _ _ _ Hb) in Hf. apply (proj2 (cs_hist _ _ _ _ C)) in Hf. tauto.
Qed.

Lemma oc_fresh n : next1 < n -> ~ In n (version_numbers (dv_ver dv)).
Proof. intros Hn H. apply oc_ver_bound in H. unfold next1 in Hn. lia. Qed.

(** ** after the replay *)
Section AFTER.
Variables (r : replay_state) (reused : option (N * N)) (flushed kept : list (N * list batch)).
Hypothesis Hlogs : dv_logs dv = flushed ++ kept.
Hypothesis HRS : RSInv img1 dv next1 (oo_sizes o) r ([] ++ log_batches flushed) (log_batches kept).
Hypothesis Hle : forall nb, In nb (dv_logs dv) -> fst nb <= rs_next r.
Hypothesis Hnm : flushed <> [] -> rs_new_manifest r = true.
Hypothesis Hreused :
  match reused with
  | None => kept = []
  | Some (n, boff) =>
      exists bs, kept = [(n, bs)] /\ oo_reuse o = true /\ li (n, bs) = true /\
        boff = (match lookupN n (i_wals img1) with Some f => blen f | None => 0 end) mod BLOCK_SIZE_BYTES
  end.

Let next2 := match reused with Some _ => rs_next r | None => rs_next r + 1 end.
Let wal_ops := match reused with Some _ => [] | None => [FsCreate (FWal next2)] end.
Let wal := match reused with Some (n, _) => n | None => next2 end.
Let wal_boff := match reused with Some (_, b) => b | None => 0 end.
Let mem := match reused with Some _ => rs_mem r | None => [] end.
Hypothesis Hb2 : next2 < two64.

Let wlog : list (N * list batch) := match reused with Some _ => [] | None => [(next2, [])] end.
Let logsW := dv_logs dv ++ wlog.
Let dvW := set_logs dv logsW.
Let imgR := apply_fsops img1 (rs_ops r).
Let imgW := apply_fsops imgR wal_ops.
Let bsK := log_batches kept.

Lemma af_nx : next1 <= rs_next r.
Proof. apply (rsi_next _ _ _ _ _ _ _ HRS). Qed.

Lemma af_recR : Rec imgR dv bsF Q.
Proof. apply Rec_invisible_list; [exact R1|apply (rsi_inv _ _ _ _ _ _ _ HRS)]. Qed.

Lemma af_walsR : i_wals imgR = i_wals img1.
Proof. apply (rsi_wals _ _ _ _ _ _ _ HRS). Qed.

Lemma af_names n : In n (map fst (i_wals img1)) -> n <= rs_next r.
Proof.
  intros Hn. destruct D1 as (_ & _ & _ & _ & Dw).
  destruct (N.le_gt_cases (dv_wal dv) n) as [L|L].
  - assert (Hin : In n (map fst (dv_logs dv))) by (apply (DWal_names _ _ _ _ Dw); auto).
    apply in_map_iff in Hin. destruct Hin as (nb & <- & Hnb). apply Hle. exact Hnb.
  - pose proof af_nx. pose proof (cs_next _ _ _ _ C). unfold next1 in *. lia.
Qed.

Lemma af_logsW_batches : log_batches logsW = log_batches (dv_logs dv).
Proof.
  unfold logsW, wlog. rewrite log_batches_app. destruct reused; cbn [log_batches flat_map snd app]; apply app_nil_r.
Qed.

Lemma af_recW : Rec imgW dvW bsF Q.
Proof.
  pose proof af_recR as RR. pose proof af_names as Hnames. pose proof af_nx as Hnx'. pose proof af_walsR as HwR.
  unfold imgW, dvW, logsW, wal_ops, wlog.
  destruct reused as [[n bo]|].
  - cbn [apply_fsops fold_left]. rewrite app_nil_r, af_dv_self. exact RR.
  - cbn [apply_fsops fold_left]. rewrite apply_wal_create.
    assert (Hw : DWal (set_assoc next2 [] (i_wals imgR)) (dv_wal dv) (dv_logs dv ++ [(next2, [])])).
    { destruct RR as [D _ _ _ _]. destruct D as (_ & _ & _ & _ & Dw).
      apply DWal_create; [exact Dw| | |].
      - rewrite HwR. intros H. apply Hnames in H. unfold next2 in H. lia.
      - rewrite HwR. intros m Hm. apply Hnames in Hm. unfold next2. lia.
      - pose proof (cs_next _ _ _ _ C). unfold next2, next1 in *. lia. }
    apply (Rec_wals imgR (mkImg (i_current imgR) (i_manifests imgR) (set_assoc next2 [] (i_wals imgR))
                                (i_tables imgR) (i_temps imgR)) dv _ bsF Q RR eq_refl eq_refl eq_refl Hw).
    + rewrite log_batches_app, log_batches_single, app_nil_r. apply (rec_chain _ _ _ _ RR).
    + rewrite log_batches_app, log_batches_single, app_nil_r. lia.
Qed.

Lemma af_crashW : all_crash (fun i => Good i acked) img1 (rs_ops r ++ wal_ops).
Proof.
  apply all_crash_app.
  - apply (all_crash_invisible _ dv bsF Q); [|exact R1|apply (rsi_inv _ _ _ _ _ _ _ HRS)].
    intros img' R'. apply (Rec_good _ _ _ _ R').
  - fold imgR. pose proof af_recW as RW. unfold imgW, wal_ops in *.
    assert (GW : Good (apply_fsops imgR wal_ops) acked).
    { unfold acked. rewrite <- af_logsW_batches. apply (Rec_good _ _ _ _ RW). }
    pose proof (Rec_good _ _ _ _ af_recR) as GR.
    unfold wal_ops in GW. destruct reused as [[n bo]|].
    + apply all_crash_nil. exact GR.
    + apply all_crash_cons; [exact GR| |apply all_crash_nil; exact GW].
      intros k. cbn [torn_fsop]. exact GW.
Qed.

Lemma af_kept : kept ++ wlog = [(wal, bsK)].
Proof.
  unfold wlog, wal, bsK. destruct reused as [[n bo]|].
  - destruct Hreused as (bs & -> & _). rewrite log_batches_single. reflexivity.
  - rewrite Hreused. reflexivity.
Qed.

Lemma af_logsW : logsW = flushed ++ [(wal, bsK)].
Proof. unfold logsW. rewrite Hlogs, <- List.app_assoc, af_kept. reflexivity. Qed.

Lemma af_flushed_lt nb : In nb flushed -> fst nb < wal.
Proof.
  intros Hnb. pose proof af_recW as RW. destruct RW as [D _ _ _ _]. destruct D as (_ & _ & _ & _ & Dw).
  unfold dvW in Dw. cbn [set_logs dv_wal dv_logs] in Dw. rewrite af_logsW in Dw.
  apply (DWal_last_max _ _ _ _ _ Dw nb Hnb).
Qed.

Lemma af_filter : filter (fun nb => wal <=? fst nb) logsW = [(wal, bsK)].
Proof.
  rewrite af_logsW, filter_app. cbn [filter fst].
  assert (E : wal <=? wal = true) by (apply N.leb_le; lia). rewrite E.
  rewrite (LogProofs.filter_all_false _ flushed); [reflexivity|].
  intros nb Hnb. apply N.leb_gt. apply af_flushed_lt. exact Hnb.
Qed.

Lemma af_wal_ge : dv_wal dv <= wal.
Proof.
  pose proof af_recW as RW. destruct RW as [D _ _ _ _]. destruct D as (_ & _ & _ & _ & Dw).
  unfold dvW in Dw. cbn [set_logs dv_wal dv_logs] in Dw.
  apply (DWal_names _ _ _ wal Dw). rewrite af_logsW, map_app. apply in_or_app. right. left. reflexivity.
Qed.

Lemma af_wal_le : wal <= next2.
Proof.
  unfold wal, next2. destruct reused as [[n bo]|]; [|lia].
  destruct Hreused as (bs & Hk & _). apply (Hle (n, bs)). rewrite Hlogs, Hk. apply in_or_app. right. left. reflexivity.
Qed.

Lemma af_next2 : next1 <= next2.
Proof. pose proof af_nx. unfold next2. destruct reused; lia. Qed.

Let rm := mi && oo_reuse o && (blen file <? oo_max_file_size o).

Lemma af_rm_mi : rm = true -> mi = true.
Proof. unfold rm. destruct mi; [reflexivity|discriminate]. Qed.
Let ptrs := ma_pointers a.
Let d1 := mkPD imgW (dv_ver dv) ptrs next2 (if rm then dv_man dv else next1) rm
               (blen file mod BLOCK_SIZE_BYTES) (dv_wal dv) None wal wal_boff (nops acked) mem None.
Let added := rs_added r.

Lemma af_tablesW : i_tables imgW = i_tables imgR.
Proof. unfold imgW, wal_ops. destruct reused as [[? ?]|]; reflexivity. Qed.

Lemma af_manifestsW : i_manifests imgW = i_manifests img1.
Proof.
  pose proof (rsi_man _ _ _ _ _ _ _ HRS) as H. unfold rs_img in H. fold imgR in H.
  unfold imgW, wal_ops. destruct reused as [[? ?]|]; exact H.
Qed.

Lemma af_walnamesW n : In n (map fst (i_wals imgW)) -> n <= next2.
Proof.
  pose proof af_names as Hnames. pose proof af_walsR as HwR.
  unfold imgW, wal_ops, next2. destruct reused as [[? ?]|]; cbn [apply_fsops fold_left].
  - rewrite HwR. apply Hnames.
  - rewrite apply_wal_create. cbn [i_wals]. intros H. apply map_fst_set_assoc_in in H.
    destruct H as [->|H]; [lia|]. rewrite HwR in H. apply Hnames in H. lia.
Qed.

Lemma af_walfile : exists f, lookupN wal (i_wals imgW) = Some f /\ logfile f (map batch_bytes bsK) wal_boff.
Proof.
  pose proof af_walsR as HwR. pose proof oc_li as Hlf.
  unfold imgW, wal_ops, wal, wal_boff, bsK. destruct reused as [[n bo]|]; cbn [apply_fsops fold_left].
  - destruct Hreused as (bs & Hk & _ & Hli & Hbo). rewrite Hk, log_batches_single, HwR.
    destruct (Hlf (n, bs)) as (f & boff & Hl & Hf); [|exact Hli|].
    { rewrite Hlogs, Hk. apply in_or_app. right. left. reflexivity. }
    cbn [fst snd] in Hl, Hf. exists f. split; [exact Hl|].
    match type of Hbo with context [match ?x with _ => _ end] =>
      assert (Ex : x = Some f) by exact Hl; rewrite Ex in Hbo end.
    rewrite Hbo. apply (logfile_reopen _ _ _ Hf).
  - rewrite Hreused. exists []. rewrite apply_wal_create. cbn [i_wals].
    rewrite lookupN_set_assoc, N.eqb_refl. split; [reflexivity|apply logfile_nil].
Qed.

Lemma af_mem e : In e mem <-> In e (all_entries_of bsK).
Proof.
  pose proof (rsi_mem _ _ _ _ _ _ _ HRS e) as Hm. unfold mem, bsK.
  destruct reused as [[? ?]|]; [exact Hm|]. rewrite Hreused. cbn. tauto.
Qed.

Lemma af_acked : (bsF ++ log_batches flushed) ++ bsK = acked.
Proof. unfold acked, bsK. rewrite Hlogs, log_batches_app, <- List.app_assoc. reflexivity. Qed.

Lemma af_flushed_bok : Forall bok (log_batches flushed).
Proof.
  destruct D1 as (_ & _ & _ & _ & (_ & _ & Hf)). rewrite Hlogs in Hf. apply Forall_app in Hf.
  destruct Hf as [Hf _]. unfold log_batches. apply Forall_forall. intros b Hb. apply in_flat_map in Hb.
  destruct Hb as (nb & Hnb & Hb). rewrite Forall_forall in Hf. destruct (Hf nb Hnb) as (_ & _ & _ & _ & Hok).
  rewrite Forall_forall in Hok. apply Hok. exact Hb.
Qed.

Lemma size_of_bound n : size_of (oo_sizes o) n < two64.
Proof.
  unfold size_of, lookupN. destruct (find _ (oo_sizes o)) as [p|] eqn:E; [|reflexivity].
  apply find_some in E. apply Hsizes. tauto.
Qed.

Lemma af_added_ok :
  Forall (fun n => fst n < MAX_NUM_LEVELS /\ CodecProofs.fmeta_ok (snd n) = true) added.
Proof.
  apply Forall_forall. intros [l f] Hin. cbn [fst snd].
  pose proof (rsi_added _ _ _ _ _ _ _ HRS l f Hin) as (-> & H1 & H2 & es & Hl & Hne & Hmeta).
  split; [reflexivity|].
  destruct (table_meta_some (fm_num f) (size_of (oo_sizes o) (fm_num f)) es Hne) as (e1 & e2 & I1 & I2 & Hm).
  rewrite Hm in Hmeta. injection Hmeta as E.
  assert (Ef : fm_size f = size_of (oo_sizes o) (fm_num f) /\ fm_small f = fst e1 /\ fm_large f = fst e2).
  { rewrite <- E. cbn [fm_size fm_small fm_large]. auto. }
  destruct Ef as (Es & Ea & Eb).
  unfold CodecProofs.fmeta_ok. rewrite Es, Ea, Eb.
  assert (K : forall e, In e es -> CodecProofs.key_ok (fst e) = true).
  { intros e He. apply (entries_key_ok _ _ af_flushed_bok).
    apply (rsi_tab _ _ _ _ _ _ _ HRS). exists 0, f, es. auto. }
  rewrite (K e1 I1), (K e2 I2).
  assert (Hn : fm_num f <? 18446744073709551616 = true).
  { apply N.ltb_lt. fold two64. unfold next2 in Hb2. destruct reused; lia. }
  assert (Hs : size_of (oo_sizes o) (fm_num f) <? 18446744073709551616 = true).
  { apply N.ltb_lt. apply size_of_bound. }
  rewrite Hn, Hs. reflexivity.
Qed.

Let c' := mkVC (Some wal) None (Some next2) (Some (nops acked)) [] [] added.

Lemma af_vok : vok c'.
Proof.
  apply vok_flush.
  - pose proof af_wal_le. lia.
  - exact Hb2.
  - apply (cs_seq _ _ _ _ C).
  - apply af_added_ok.
Qed.

Lemma af_nodup : NoDup (lvl_nums (ma_added a ++ news_of c')).
Proof.
  destruct (cs_hist _ _ _ _ C) as [Hnd Hb]. rewrite lvl_nums_app. apply NoDup_app_iff.
  split; [exact Hnd|]. split.
  - unfold lvl_nums, news_of. cbn [vc_new c']. rewrite map_map. cbn [fst snd].
    apply (NoDup_map_inv snd). rewrite map_map. cbn [snd]. apply (rsi_nodup _ _ _ _ _ _ _ HRS).
  - intros x Hx Hy. unfold lvl_nums in Hx, Hy. apply in_map_iff in Hx, Hy.
    destruct Hx as ([l f] & <- & Hx). destruct Hy as ([l2 f2] & E & Hy). cbn [fst snd] in E.
    unfold news_of in Hy. cbn [vc_new c'] in Hy. apply in_map_iff in Hy. destruct Hy as ([l3 f3] & E3 & Hy).
    cbn [fst snd] in E3. injection E3 as <- <-. injection E as _ E.
    apply Hb in Hx. pose proof (rsi_added _ _ _ _ _ _ _ HRS l3 f3 Hy) as (_ & H1 & _).
    cbn [fst snd] in *. unfold next1 in H1. lia.
Qed.

Section COMMIT.
Variable v' : version.
Hypothesis Hedit : apply_edit (dv_ver dv) (edit_of (mkVC (Some wal) None None None [] [] added)) = Some v'.

Lemma af_numbers n :
  In n (version_numbers v') <-> In n (version_numbers (dv_ver dv)) \/ In n (map (fun p => fm_num (snd p)) added).
Proof.
  destruct D1 as (_ & _ & (_ & _ & _ & _ & Hb) & _ & _).
  apply (apply_edit_numbers_add (dv_ver dv) (mkVC (Some wal) None None None [] [] added) v' n).
  - apply (build_levels_length _ _ Hb).
  - reflexivity.
  - intros p Hp. pose proof af_added_ok as H. rewrite Forall_forall in H. apply (H p Hp).
  - exact Hedit.
Qed.

Lemma af_lookup_old n : In n (version_numbers (dv_ver dv)) ->
  lookupN n (i_tables imgW) = lookupN n (i_tables img1).
Proof.
  intros Hn. rewrite af_tablesW. apply (rsi_old _ _ _ _ _ _ _ HRS). apply oc_ver_bound in Hn. unfold next1. lia.
Qed.

Lemma af_DTab : DTab (i_tables imgW) v'.
Proof.
  intros n Hn. apply af_numbers in Hn. destruct Hn as [Hn|Hn].
  - rewrite (af_lookup_old n Hn). destruct D1 as (_ & _ & _ & Dt & _). apply Dt. exact Hn.
  - apply in_map_iff in Hn. destruct Hn as ([l f] & <- & Hin). cbn [snd].
    pose proof (rsi_added _ _ _ _ _ _ _ HRS l f Hin) as (_ & _ & _ & es & Hl & _).
    exists es. rewrite af_tablesW. exact Hl.
Qed.

Lemma af_tab e :
  In e (tab_entries imgW v') <->
  In e (tab_entries imgW (dv_ver dv)) \/ In e (all_entries_of (log_batches flushed)).
Proof.
  rewrite !in_tab_entries. split.
  - intros (n & es0 & Hn & Hl & He). apply af_numbers in Hn. destruct Hn as [Hn|Hn].
    + left. exists n, es0. auto.
    + right. apply in_map_iff in Hn. destruct Hn as ([l f] & <- & Hin). cbn [snd] in Hl.
      apply (rsi_tab _ _ _ _ _ _ _ HRS). exists l, f, es0. rewrite af_tablesW in Hl. auto.
  - intros [(n & es0 & Hn & Hl & He)|He].
    + exists n, es0. split; [apply af_numbers; left; exact Hn|]. auto.
    + apply (rsi_tab _ _ _ _ _ _ _ HRS) in He. destruct He as (l & f & es0 & Hin & Hl & He).
      exists (fm_num f), es0. split; [apply af_numbers; right; apply in_map_iff; exists (l, f); auto|].
      rewrite af_tablesW. auto.
Qed.

Lemma af_chainF : batches_chained 0 (bsF ++ log_batches flushed) = true.
Proof.
  pose proof (rec_chain _ _ _ _ R1) as H. rewrite Hlogs, log_batches_app in H.
  rewrite List.app_assoc, chained_app in H. apply andb_true_iff in H. apply H.
Qed.

Lemma af_tok : tables_ok (tab_entries imgW v') (bsF ++ log_batches flushed) Q.
Proof.
  apply (tables_ok_flush (tab_entries imgW (dv_ver dv)) bsF (log_batches flushed) _ Q).
  - apply af_chainF.
  - apply (rec_tab _ _ _ _ af_recW).
  - apply af_tab.
Qed.

Lemma af_split :
  log_batches (dv_logs dvW)
  = log_batches flushed ++ log_batches (filter (fun nb => wal <=? fst nb) (dv_logs dvW)).
Proof.
  unfold dvW. cbn [set_logs dv_logs]. rewrite af_filter, af_logsW, log_batches_app. reflexivity.
Qed.

Lemma af_totalW : nops (bsF ++ log_batches (dv_logs dvW)) = nops acked.
Proof. unfold dvW. cbn [set_logs dv_logs]. rewrite af_logsW_batches. reflexivity. Qed.

(** the result of [log_and_apply], whichever way *)
Lemma af_laa :
  exists d2 ops2 dv2,
    LAARes d1 dvW wal added (nops acked) v' (bsF ++ log_batches flushed) Q [(wal, bsK)] d2 ops2 dv2.
Proof.
  pose proof af_recW as RW. pose proof af_vok as Hvok. pose proof af_nodup as Hnd.
  pose proof af_DTab as HDT. pose proof af_wal_ge as Hwg. pose proof af_split as Hsp.
  pose proof af_tok as Htok. pose proof af_totalW as Htot. pose proof af_filter as Hfil.
  assert (HQ : Q <= nops (bsF ++ log_batches (dv_logs dvW))).
  { rewrite Htot. apply (rec_Q _ _ _ _ R1). }
  assert (Hs1 : nops (bsF ++ log_batches flushed) <= nops acked).
  { unfold acked. rewrite Hlogs, log_batches_app, !nops_app. lia. }
  assert (Hs2 : nops acked <= nops (bsF ++ log_batches (dv_logs dvW))) by (rewrite Htot; lia).
  assert (Hfil' : filter (fun nb => wal <=? fst nb) (dv_logs dvW) = [(wal, bsK)]) by exact Hfil.
  rewrite <- Hfil'.
  destruct rm eqn:Erm.
  - destruct oc_file as (Hl & _). destruct (oc_mi (af_rm_mi Erm)) as (boff & Hlf).
    eexists _, _, _.
    apply (laa_open_res d1 dvW bsF Q RW eq_refl eq_refl (cs_prev _ _ _ _ C) (cs_ptr _ _ _ _ C)
             wal added (nops acked) v' Hedit Hvok Hnd HDT Hwg (log_batches flushed) Q Hsp Htok HQ Hs1 Hs2
             eq_refl eq_refl file).
    + cbn [d1 pd_img dvW set_logs dv_man]. rewrite af_manifestsW. exact Hl.
    + cbn [d1 pd_manifest_boff dvW set_logs dv_changes]. apply (logfile_reopen _ _ _ Hlf).
  - eexists _, _, _.
    apply (laa_closed_res d1 dvW bsF Q RW eq_refl eq_refl (cs_ptr _ _ _ _ C)
             (proj1 (cs_hist _ _ _ _ C))
             wal added (nops acked) v' Hedit Hvok Hnd HDT Hwg (log_batches flushed) Q Hsp Htok HQ Hs1 Hs2
             eq_refl).
    + cbn [d1 pd_manifest dvW set_logs dv_man]. pose proof (cs_next _ _ _ _ C). unfold next1. lia.
    + cbn [d1 pd_manifest]. pose proof af_next2. lia.
    + (* the snapshot record is well formed *)
      unfold vok, CodecProofs.vchange_ok, snapshot_change.
      cbn [vc_wal vc_prev_wal vc_curr_file vc_prev_seq vc_pointers vc_deleted vc_new CodecProofs.opt_ok
           forallb CodecProofs.nodupb andb d1 pd_pointers pd_ver].
      rewrite !andb_true_r. apply andb_true_iff. split.
      * apply forallb_forall. intros x Hx. pose proof (cs_ptr _ _ _ _ C) as Hp. rewrite Forall_forall in Hp.
        destruct (Hp x Hx) as [H1 H2]. apply N.ltb_lt in H1. rewrite H1, H2. reflexivity.
      * apply forallb_forall. intros x Hx. rewrite version_files_go in Hx.
        destruct (vf_go_in _ _ _ Hx) as (i & Hi & E & Hin).
        destruct D1 as (_ & _ & (_ & _ & _ & _ & Hb) & _ & _).
        rewrite (build_levels_length _ _ Hb) in Hi.
        apply (build_levels_in _ _ _ _ Hb) in Hin. apply (proj2 (cs_hist _ _ _ _ C)) in Hin.
        destruct Hin as (_ & Hok & _). rewrite Hok, andb_true_r. apply N.ltb_lt.
        rewrite E. unfold NLEVELS in Hi. change MAX_NUM_LEVELS with 7. change (N.to_nat MAX_NUM_LEVELS) with 7%nat in Hi. lia.
Qed.

Lemma af_inv_S d2 ops2 dv2 :
  LAARes d1 dvW wal added (nops acked) v' (bsF ++ log_batches flushed) Q [(wal, bsK)] d2 ops2 dv2 ->
  Inv d2 dv2 (bsF ++ log_batches flushed) Q [] bsK.
Proof.
  intros L. destruct L as [Leq Lrec Lcrash Limg Ldv Lpd Lmf Loth Lprev Lhist Lptr Lman].
  destruct Ldv as (Ev & Ew & En & Es & El & Em).
  destruct Lpd as (Pv & Pn & Po & Pw & Pp & Pwal & Pboff & Pseq & Pmem & Pimm & Pptr).
  destruct Loth as (Owals & Otabs).
  pose proof af_wal_le as Hwl. pose proof af_next2 as Hn2. pose proof (cs_next _ _ _ _ C) as Hcn.
  refine (mkInv d2 dv2 (bsF ++ log_batches flushed) Q [] bsK Lrec _ (eq_sym Em) Po _ (conj Pp Lprev) _ _ Lmf _ _ _ _ _ _ _ _ _).
  - rewrite Pv, Ev. reflexivity.
  - rewrite Pw, Ew. reflexivity.
  - rewrite En, Ew, Pn. cbn [d1 pd_next]. split; [lia|]. split; [|exact Hwl].
    destruct Lman as [-> | ->].
    + cbn [dvW set_logs dv_man]. unfold next1 in Hn2. lia.
    + cbn [d1 pd_manifest]. destruct rm; unfold next1 in *; lia.
  - intros n Hn. rewrite Owals in Hn. cbn [d1 pd_img] in Hn. apply af_walnamesW in Hn.
    rewrite Pn. cbn [d1 pd_next]. exact Hn.
  - rewrite El, Pwal. reflexivity.
  - constructor.
  - rewrite Owals, Pwal, Pboff. cbn [d1 pd_img pd_wal pd_wal_boff]. apply af_walfile.
  - rewrite Pmem. cbn [d1 pd_mem]. apply af_mem.
  - rewrite Pimm. reflexivity.
  - rewrite Pseq, El, log_batches_single, af_acked. reflexivity.
  - split; [apply Lhist|]. intros l f Hin. apply (proj2 Lhist) in Hin. rewrite En. cbn [d1 pd_next].
    destruct Hin as [Hin|Hin].
    + cbn [dvW set_logs dv_changes] in Hin. apply (proj2 (cs_hist _ _ _ _ C)) in Hin.
      destruct Hin as (H1 & H2 & H3). unfold next1 in Hn2. split; [lia|]. split; assumption.
    + apply in_map_iff in Hin. destruct Hin as ([l0 f0] & E & Hin). cbn [fst snd] in E. injection E as <- <-.
      pose proof af_added_ok as Hok. rewrite Forall_forall in Hok. destruct (Hok _ Hin) as [H1 H2]. cbn [fst snd] in H1, H2.
      pose proof (rsi_added _ _ _ _ _ _ _ HRS l0 f0 Hin) as (-> & _ & H3 & _).
      split; [|split; [exact H2|unfold NLEVELS; change (N.to_nat MAX_NUM_LEVELS) with 7%nat; change (N.to_nat 0) with 0%nat; lia]].
      unfold next2. destruct reused; lia.
  - split; [rewrite Pptr; cbn [d1 pd_pointers]; apply (cs_ptr _ _ _ _ C)|exact Lptr].
  - rewrite Pn, Pseq. cbn [d1 pd_next pd_seq]. split; [exact Hb2|apply (cs_seq _ _ _ _ C)].
Qed.
End COMMIT.

(** no new snapshot: the manifest is reused and nothing was flushed *)
Lemma af_inv_N : rm = true -> rs_new_manifest r = false -> Inv d1 dvW bsF Q [] bsK.
Proof.
  intros Erm Hnf.
  assert (Hfl : flushed = []).
  { destruct flushed as [|x l] eqn:E; [reflexivity|]. rewrite Hnm in Hnf by discriminate. discriminate. }
  pose proof af_wal_le as Hwl. pose proof af_next2 as Hn2. pose proof (cs_next _ _ _ _ C) as Hcn.
  pose proof af_logsW as HlW. rewrite Hfl in HlW. cbn [app] in HlW.
  refine (mkInv d1 dvW bsF Q [] bsK af_recW eq_refl _ _ eq_refl (conj eq_refl (cs_prev _ _ _ _ C)) _ _ _ HlW _ af_walfile af_mem eq_refl _ (cs_hist _ _ _ _ C) _ _).
  - cbn [d1 pd_manifest dvW set_logs dv_man]. rewrite Erm. reflexivity.
  - cbn [d1 pd_manifest_open]. exact Erm.
  - cbn [dvW set_logs dv_next dv_man dv_wal d1 pd_next]. unfold next1 in Hn2. lia.
  - intros n Hn. cbn [d1 pd_img pd_next] in *. apply af_walnamesW. exact Hn.
  - destruct oc_file as (Hl & _). destruct (oc_mi (af_rm_mi Erm)) as (boff & Hlf).
    exists file. cbn [d1 pd_img pd_manifest_boff dvW set_logs dv_man dv_changes].
    rewrite af_manifestsW. split; [exact Hl|apply (logfile_reopen _ _ _ Hlf)].
  - constructor.
  - cbn [d1 pd_seq dvW set_logs dv_logs]. rewrite af_logsW_batches. reflexivity.
  - split; [apply (cs_ptr _ _ _ _ C)|apply (cs_ptr _ _ _ _ C)].
  - cbn [d1 pd_next pd_seq]. split; [exact Hb2|apply (cs_seq _ _ _ _ C)].
Qed.

Lemma af_ackedW : bsF ++ log_batches (dv_logs dvW) = acked.
Proof. unfold dvW. cbn [set_logs dv_logs]. rewrite af_logsW_batches. reflexivity. Qed.

Lemma af_csW : CS imgW dvW bsF Q.
Proof.
  pose proof af_recW as RW. pose proof af_manifestsW as HmW. pose proof oc_file as [Hl Htl].
  pose proof (cs_logfiles _ _ _ _ C) as Hlf. pose proof af_walsR as HwR. pose proof af_names as Hnames.
  constructor; cbn [dvW set_logs dv_man dv_changes dv_next dv_wal dv_logs].
  - exact RW.
  - exists file. rewrite HmW. split; [exact Hl|exact Htl].
  - unfold logsW, wlog, imgW, wal_ops, next2. destruct reused as [[n bo]|]; cbn [apply_fsops fold_left].
    + rewrite app_nil_r, HwR. exact Hlf.
    + rewrite apply_wal_create. cbn [i_wals]. apply Forall_app. split.
      * rewrite Forall_forall in *. intros nb Hnb. destruct (Hlf nb Hnb) as (f & Hlk & Ht). exists f. split; [|exact Ht].
        rewrite lookupN_set_assoc. destruct (fst nb =? rs_next r + 1) eqn:E; [|rewrite HwR; exact Hlk].
        apply N.eqb_eq in E. exfalso. assert (Hin : In (fst nb) (map fst (i_wals img1))).
        { apply lookupN_in. rewrite Hlk. discriminate. }
        apply Hnames in Hin. lia.
      * constructor; [|constructor]. exists []. cbn [fst snd map]. rewrite lookupN_set_assoc, N.eqb_refl.
        split; [reflexivity|apply (tlog_logfile _ _ 0); apply logfile_nil].
  - apply (cs_prev _ _ _ _ C).
  - apply (cs_next _ _ _ _ C).
  - apply (cs_hist _ _ _ _ C).
  - apply (cs_ptr _ _ _ _ C).
  - rewrite af_logsW_batches. apply (cs_seq _ _ _ _ C).
Qed.

Lemma af_crashW_cs : all_crash (fun i => CSE i acked) img1 (rs_ops r ++ wal_ops).
Proof.
  apply all_crash_app.
  - apply (all_crash_invisible_cs _ _ _ _ _ C (rsi_inv _ _ _ _ _ _ _ HRS)).
  - fold imgR. pose proof af_csW as CW.
    assert (GW : CSE (apply_fsops imgR wal_ops) acked).
    { exists dvW, bsF, Q. split; [exact CW|]. unfold acked, dvW. cbn [set_logs dv_logs]. rewrite af_logsW_batches. reflexivity. }
    assert (GR : CSE imgR acked).
    { exists dv, bsF, Q. split; [|reflexivity]. apply (CS_invisible_ops _ _ _ _ _ C (rsi_inv _ _ _ _ _ _ _ HRS)). }
    unfold wal_ops in *. destruct reused as [[n bo]|].
    + apply all_crash_nil. exact GR.
    + apply all_crash_cons; [exact GR| |apply all_crash_nil; exact GW].
      intros k. cbn [torn_fsop]. exact GW.
Qed.

Lemma af_gc_S d2 dv2 : pd_ver d2 = dv_ver dv2 -> pd_vs_wal d2 = dv_wal dv2 -> pd_prev_wal d2 = None ->
  pd_manifest d2 = dv_man dv2 -> Forall (invisible dv2) (gc_ops d2).
Proof. apply gc_invisible. Qed.

Lemma af_main img0 ops0 d' ops :
  img1 = apply_fsops img0 ops0 ->
  replay_logs o img1 (map (fun nb => mkWR (fst nb) (snd nb) (li nb)) (dv_logs dv))
              (mkRS next1 [] (oo_cuts o) [] [] O false) = (r, reused) ->
  open_rest o img0 ops0 img1 (rc_of img1 dv) = Some (d', ops) ->
  exists opsR, ops = ops0 ++ opsR /\ pd_img d' = apply_fsops img1 opsR /\
               InvE d' acked /\ all_crash (fun i => CSE i acked) img1 opsR.
Proof.
  intros Eimg Erl H. unfold open_rest in H.
  change (rc_manifest (rc_of img1 dv)) with (ms_of img1 dv) in H.
  change (rc_wals (rc_of img1 dv)) with (map (wr_of img1) (dv_logs dv)) in H.
  rewrite oc_ms, oc_wals, oc_seq in H.
  cbn [ms_next ms_intact ms_size ms_version ms_pointers ms_number ms_wal ms_prev_wal] in H.
  fold next1 in H. rewrite Erl in H. cbv zeta iota beta in H.
  fold next2 wal_ops wal wal_boff mem rm ptrs in H.
  rewrite !apply_fsops_app in H. rewrite <- Eimg in H. fold imgR imgW d1 in H.
  destruct (negb rm || rs_new_manifest r) eqn:Esnap.
  - (* a new snapshot or manifest record *)
    destruct (apply_edit (dv_ver dv) (edit_of (mkVC (Some wal) None None None [] [] (rs_added r)))) as [v'|] eqn:Hedit.
    2:{ unfold log_and_apply in H. cbn [d1 pd_ver vc_deleted vc_new] in H. rewrite Hedit in H. discriminate. }
    destruct (af_laa v' Hedit) as (d2 & ops2 & dv2 & L).
    pose proof (af_inv_S v' Hedit d2 ops2 dv2 L) as I2.
    pose proof (lr_eq _ _ _ _ _ _ _ _ _ _ _ _ L) as Leq. unfold added in Leq. rewrite Leq in H. unfold do_gc in H. cbv zeta iota beta in H.
    injection H as <- <-.
    pose proof (gc_invisible d2 dv2 (iv_ver _ _ _ _ _ _ I2) (iv_vswal _ _ _ _ _ _ I2)
                  (proj1 (iv_prev _ _ _ _ _ _ I2)) (iv_man _ _ _ _ _ _ I2)) as Hgc.
    exists ((rs_ops r ++ wal_ops) ++ ops2 ++ gc_ops d2).
    split; [rewrite <- !List.app_assoc; reflexivity|]. split; [|split].
    + cbn [with_img pd_img]. rewrite (lr_img _ _ _ _ _ _ _ _ _ _ _ _ L). cbn [d1 pd_img].
      unfold imgW, imgR. rewrite !apply_fsops_app. reflexivity.
    + exists dv2, (bsF ++ log_batches flushed), Q, [], bsK. split.
      * apply (Inv_invisible_ops _ d2); assumption.
      * destruct (lr_dv _ _ _ _ _ _ _ _ _ _ _ _ L) as (_ & _ & _ & _ & -> & _).
        rewrite log_batches_single. symmetry. apply af_acked.
    + apply all_crash_app; [apply af_crashW_cs|]. rewrite apply_fsops_app. fold imgR imgW.
      destruct (lr_dv _ _ _ _ _ _ _ _ _ _ _ _ L) as (_ & _ & _ & _ & El & _).
      assert (Eack2 : (bsF ++ log_batches flushed) ++ log_batches (dv_logs dv2) = acked).
      { rewrite El, log_batches_single. apply af_acked. }
      assert (A2 : CSE (pd_img d2) acked).
      { exists dv2, (bsF ++ log_batches flushed), Q. split; [apply (Inv_CS _ _ _ _ _ _ I2)|symmetry; exact Eack2]. }
      apply all_crash_app.
      * pose proof (lr_crash_cs _ _ _ _ _ _ _ _ _ _ _ _ L bsF Q af_csW) as Hc.
        rewrite af_ackedW in Hc. apply Hc. exact A2.
      * pose proof (lr_img _ _ _ _ _ _ _ _ _ _ _ _ L) as Li. cbn [d1 pd_img] in Li. rewrite <- Li.
        rewrite <- Eack2. apply (all_crash_invisible_cs _ dv2 _ Q _ (Inv_CS _ _ _ _ _ _ I2) Hgc).
  - (* the manifest is reused as it is *)
    apply orb_false_iff in Esnap. destruct Esnap as [Erm Hnf]. apply negb_false_iff in Erm.
    pose proof (af_inv_N Erm Hnf) as I2.
    unfold do_gc in H. cbv zeta iota beta in H. injection H as <- <-.
    pose proof (gc_invisible d1 dvW (iv_ver _ _ _ _ _ _ I2) (iv_vswal _ _ _ _ _ _ I2)
                  (proj1 (iv_prev _ _ _ _ _ _ I2)) (iv_man _ _ _ _ _ _ I2)) as Hgc.
    exists ((rs_ops r ++ wal_ops) ++ [] ++ gc_ops d1).
    split; [rewrite <- !List.app_assoc; reflexivity|]. split; [|split].
    + cbn [with_img pd_img d1 app]. unfold imgW, imgR. rewrite !apply_fsops_app. reflexivity.
    + exists dvW, bsF, Q, [], bsK. split.
      * apply (Inv_invisible_ops _ d1); assumption.
      * symmetry. apply af_ackedW.
    + apply all_crash_app; [apply af_crashW_cs|]. rewrite apply_fsops_app. fold imgR imgW. cbn [app].
      rewrite <- af_ackedW. apply (all_crash_invisible_cs _ dvW bsF Q _ (Inv_CS _ _ _ _ _ _ I2) Hgc).
Qed.
End AFTER.
End OPENCORE.

Lemma open_rest_next o img0 ops0 img1 rc d' ops r reused :
  replay_logs o img1 (rc_wals rc) (mkRS (ms_next (rc_manifest rc) + 1) [] (oo_cuts o) [] [] O false) = (r, reused) ->
  open_rest o img0 ops0 img1 rc = Some (d', ops) ->
  pd_next d' = match reused with Some _ => rs_next r | None => rs_next r + 1 end.
Proof.
  intros E H. unfold open_rest in H. rewrite E in H. cbv zeta iota beta in H.
  match type of H with context [if ?b then _ else _] => destruct b end.
  - unfold log_and_apply in H. cbn [pd_ver pd_manifest_open pd_next vc_deleted vc_new vc_wal vc_prev_wal vc_pointers] in H.
    match type of H with context [apply_edit ?v ?e] => destruct (apply_edit v e) end; [|discriminate].
    unfold do_gc in H. cbv zeta iota beta in H. injection H as <- _. reflexivity.
  - unfold do_gc in H. cbv zeta iota beta in H. injection H as <- _. reflexivity.
Qed.

Theorem open_core o img0 ops0 dv bsF Q d' ops :
  CS (apply_fsops img0 ops0) dv bsF Q ->
  (forall p, In p (oo_sizes o) -> snd p < two64) ->
  open_rest o img0 ops0 (apply_fsops img0 ops0) (rc_of (apply_fsops img0 ops0) dv) = Some (d', ops) ->
  pd_next d' < two64 ->
  exists opsR, ops = ops0 ++ opsR /\ pd_img d' = apply_fsops (apply_fsops img0 ops0) opsR /\
               InvE d' (bsF ++ log_batches (dv_logs dv)) /\
               all_crash (fun i => CSE i (bsF ++ log_batches (dv_logs dv))) (apply_fsops img0 ops0) opsR.
Proof.
  intros C Hs H Hb. set (img1 := apply_fsops img0 ops0) in *.
  set (li := fun nb : N * list batch => rx_intact (log_read_all_x (file_of (fst nb) (i_wals img1)))).
  destruct (replay_logs o img1 (map (fun nb => mkWR (fst nb) (snd nb) (li nb)) (dv_logs dv))
                        (mkRS (dv_next dv + 1) [] (oo_cuts o) [] [] O false)) as [r reused] eqn:Erl.
  destruct (replay_logs_spec_gen img1 dv (dv_next dv + 1) o img1 li (oc_fresh _ _ _ _ C) (dv_logs dv) _ [] r reused
              (RSInv_init img1 dv (dv_next dv + 1) (oo_sizes o) (oo_cuts o)) Erl)
    as (flushed & kept & Hlogs & HRS & Hnx & Hle & Hnm & Hreused).
  assert (Hb2 : match reused with Some _ => rs_next r | None => rs_next r + 1 end < two64).
  { rewrite <- (open_rest_next o img0 ops0 img1 (rc_of img1 dv) d' ops r reused); [exact Hb| |exact H].
    change (rc_wals (rc_of img1 dv)) with (map (wr_of img1) (dv_logs dv)).
    change (rc_manifest (rc_of img1 dv)) with (ms_of img1 dv).
    rewrite (oc_ms _ _ _ _ C). exact Erl. }
  apply (af_main o img1 dv bsF Q C Hs r reused flushed kept Hlogs HRS Hle Hnm Hreused Hb2 img0 ops0 d' ops eq_refl Erl H).
Qed.

(** * The step lemma *)
Lemma init_crash : all_crash (fun i => crash_ok i []) empty_image init_ops.
Proof.
  assert (G : Good img_init []).
  { pose proof (Rec_good _ _ _ _ (cs_rec _ _ _ _ CS_init)) as G. exact G. }
  unfold init_ops, set_current_ops. cbn [app].
  repeat (apply all_crash_cons; [left; split; reflexivity|intros k; left; split; reflexivity|]).
  apply all_crash_cons; [left; split; reflexivity| |apply all_crash_nil; right; exact G].
  intros k. right. exact G.
Qed.

Theorem open_step : forall o img acked d' ops,
  Closed img acked -> open_okb o img = true ->
  p_open o img = Some (d', ops) ->
  pd_img d' = apply_fsops img ops /\
  InvE d' acked /\
  all_crash (fun i => crash_ok i acked) img ops.
Proof.
  intros o img acked d' ops Hc Hok Hop.
  unfold open_okb in Hok. rewrite Hop in Hok. apply andb_true_iff in Hok. destruct Hok as [Hsz Hnx].
  apply N.ltb_lt in Hnx.
  assert (Hs : forall p, In p (oo_sizes o) -> snd p < two64).
  { intros p Hp. rewrite forallb_forall in Hsz. apply N.ltb_lt. apply Hsz. exact Hp. }
  rewrite p_open_unfold in Hop. cbv zeta in Hop.
  destruct Hc as [[-> ->]|(d & <- & (dv & bsF & Q & older & bsM & I & ->))].
  - (* creation *)
    cbn [i_current empty_image] in Hop. fold img_init in Hop.
    rewrite (recover_durable _ _ (rec_dur _ _ _ _ (cs_rec _ _ _ _ CS_init))) in Hop.
    destruct (open_core o empty_image init_ops dv_init [] 0 d' ops CS_init Hs Hop Hnx)
      as (opsR & -> & Himg & IE & Hcr).
    split; [rewrite apply_fsops_app; exact Himg|]. split; [exact IE|].
    apply all_crash_app; [apply init_crash|].
    intros n torn Hn. right. apply CSE_good. apply (Hcr n torn Hn).
  - (* recovery *)
    pose proof (Inv_CS _ _ _ _ _ _ I) as C.
    destruct (rec_dur _ _ _ _ (cs_rec _ _ _ _ C)) as ((Hcur & _) & _).
    rewrite Hcur in Hop. cbn [apply_fsops fold_left] in Hop.
    rewrite (recover_durable _ _ (rec_dur _ _ _ _ (cs_rec _ _ _ _ C))) in Hop.
    destruct (open_core o (pd_img d) [] dv bsF Q d' ops C Hs Hop Hnx) as (opsR & -> & Himg & IE & Hcr).
    cbn [app apply_fsops fold_left] in *. split; [exact Himg|]. split; [exact IE|].
    intros n torn Hn. right. apply CSE_good. apply (Hcr n torn Hn).
Qed.
