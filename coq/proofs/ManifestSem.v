(** The manifest's accumulated state follows [apply_edit]: folding one more record into the
    recovery accumulator ([accumulate]) and rebuilding the levels ([build_levels]) gives the version
    that the running database obtains by applying the edit to its current version ([apply_edit]);
    the snapshot record written into a new manifest reproduces the version. No axioms. *)
From Coq Require Import Lia ZArith ZifyN ZifyBool ZifyNat Arith List NArith Bool Permutation Sorted.
From RainVerif Require Import Params.
From RainVerif.model Require Import Bytes Key Block Crc Log Table TableSpec Version Lsm DbSpec Codec WalModel Gc Recover Proto.
From RainVerif.proofs Require Import KeyProofs SelectProofs LsmProofs.
Import ListNotations.
Open Scope N_scope.
Arguments N.add : simpl never.
Arguments N.sub : simpl never.
Arguments N.mul : simpl never.
Arguments N.eqb : simpl never.
Arguments N.ltb : simpl never.
Arguments N.leb : simpl never.
Arguments N.to_nat : simpl never.
Arguments N.of_nat : simpl never.
Arguments N.compare : simpl never.

Definition NLEVELS : nat := N.to_nat MAX_NUM_LEVELS.

(** (level, file number) of every file ever added *)
Definition lvl_nums (l : list (nat * fmeta)) : list (nat * N) := map (fun x => (fst x, fm_num (snd x))) l.
Definition news_of (c : vchange) : list (nat * fmeta) := map (fun p => (N.to_nat (fst p), snd p)) (vc_new c).

(* ========================================================================================== *)
(** * [fmeta_cmp] as a strict order *)

Definition flt (x y : fmeta) : Prop := fmeta_cmp x y = Lt.

Lemma fmeta_cmp_opp a b : fmeta_cmp a b = CompOpp (fmeta_cmp b a).
Proof.
  unfold fmeta_cmp. rewrite (ikey_cmp_opp (fm_small a) (fm_small b)).
  destruct (ikey_cmp (fm_small b) (fm_small a)); cbn [CompOpp]; try reflexivity.
  apply N.compare_antisym.
Qed.

Lemma fmeta_cmp_refl a : fmeta_cmp a a = Eq.
Proof. unfold fmeta_cmp. rewrite ikey_cmp_refl. apply N.compare_refl. Qed.

Lemma fmeta_cmp_eq_num a b : fmeta_cmp a b = Eq -> fm_num a = fm_num b.
Proof.
  unfold fmeta_cmp. destruct (ikey_cmp (fm_small a) (fm_small b)); try discriminate.
  apply N.compare_eq_iff.
Qed.

Lemma flt_trans a b c : flt a b -> flt b c -> flt a c.
Proof.
  unfold flt, fmeta_cmp.
  destruct (ikey_cmp (fm_small a) (fm_small b)) eqn:E1; try discriminate;
  destruct (ikey_cmp (fm_small b) (fm_small c)) eqn:E2; try discriminate; intros H1 H2.
  - rewrite (ikey_cmp_eq_trans _ _ _ E1 E2). rewrite N.compare_lt_iff in *. lia.
  - rewrite (ikey_cmp_eq_compat_l _ _ (fm_small c) E1), E2. reflexivity.
  - rewrite <- (ikey_cmp_eq_compat_r (fm_small a) _ _ E2), E1. reflexivity.
  - rewrite (ikey_cmp_lt_trans _ _ _ E1 E2). reflexivity.
Qed.

Lemma flt_irrefl a : ~ flt a a.
Proof. unfold flt. rewrite fmeta_cmp_refl. discriminate. Qed.

Lemma flt_gt a b : fmeta_cmp a b = Gt -> flt b a.
Proof. unfold flt. rewrite (fmeta_cmp_opp b a). intros ->. reflexivity. Qed.

Lemma flt_asym a b : flt a b -> fmeta_cmp b a = Gt.
Proof. unfold flt. rewrite (fmeta_cmp_opp b a). intros ->. reflexivity. Qed.

Lemma flt_of_not a b : fm_num a <> fm_num b -> fmeta_cmp a b <> Lt -> flt b a.
Proof.
  intros Hn H. destruct (fmeta_cmp a b) eqn:E.
  - apply fmeta_cmp_eq_num in E. contradiction.
  - congruence.
  - apply flt_gt. exact E.
Qed.

(** two strictly sorted lists with the same elements are equal *)
Lemma ss_ext l1 : forall l2,
  StronglySorted flt l1 -> StronglySorted flt l2 -> (forall x, In x l1 <-> In x l2) -> l1 = l2.
Proof.
  induction l1 as [|a r1 IH]; intros l2 S1 S2 E.
  - destruct l2 as [|b r2]; [reflexivity|]. exfalso. apply (E b). left. reflexivity.
  - destruct l2 as [|b r2]; [exfalso; apply (E a); left; reflexivity|].
    apply StronglySorted_inv in S1. destruct S1 as [S1 F1].
    apply StronglySorted_inv in S2. destruct S2 as [S2 F2].
    rewrite Forall_forall in F1, F2.
    assert (a = b) as <-.
    { destruct (proj1 (E a) (or_introl eq_refl)) as [Hb|Hb]; [symmetry; exact Hb|].
      destruct (proj2 (E b) (or_introl eq_refl)) as [Ha|Ha]; [exact Ha|].
      exfalso. apply (flt_irrefl a). apply (flt_trans a b a); [apply F1; exact Ha|apply F2; exact Hb]. }
    f_equal. apply IH; [exact S1|exact S2|]. intros x. split; intros H.
    + destruct (proj1 (E x) (or_intror H)) as [Hx|Hx]; [|exact Hx].
      subst x. exfalso. apply (flt_irrefl a). apply F1. exact H.
    + destruct (proj2 (E x) (or_intror H)) as [Hx|Hx]; [|exact Hx].
      subst x. exfalso. apply (flt_irrefl a). apply F2. exact H.
Qed.

Lemma insert_in f l x : In x (insert_fmeta f l) <-> x = f \/ In x l.
Proof.
  split; intros H.
  - eapply Permutation_in in H; [|apply insert_perm]. destruct H as [H|H]; auto.
  - eapply Permutation_in; [symmetry; apply insert_perm|]. destruct H as [H|H]; [left; auto|right; auto].
Qed.

Lemma sort_in l x : In x (sort_fmeta l) <-> In x l.
Proof. split; apply Permutation_in; [|symmetry]; apply sort_perm. Qed.

Lemma insert_ssorted f l :
  StronglySorted flt l -> ~ In (fm_num f) (map fm_num l) -> StronglySorted flt (insert_fmeta f l).
Proof.
  induction 1 as [|g r S IH F]; intros Hn; cbn [insert_fmeta].
  - repeat constructor.
  - cbn [map] in Hn. destruct (fmeta_cmp g f) eqn:E.
    + apply fmeta_cmp_eq_num in E. exfalso. apply Hn. left. exact E.
    + constructor; [apply IH; intros Hi; apply Hn; right; exact Hi|].
      rewrite Forall_forall in *. intros x Hx. apply insert_in in Hx.
      destruct Hx as [->|Hx]; [exact E|auto].
    + apply flt_gt in E. constructor; [constructor; assumption|]. constructor; [exact E|].
      rewrite Forall_forall in *. intros x Hx. eapply flt_trans; [exact E|auto].
Qed.

Lemma sort_ssorted l : NoDup (map fm_num l) -> StronglySorted flt (sort_fmeta l).
Proof.
  induction l as [|a l IH]; cbn [map]; intros H; [constructor|].
  change (sort_fmeta (a :: l)) with (insert_fmeta a (sort_fmeta l)).
  apply NoDup_cons_iff in H. destruct H as [Ha H]. apply insert_ssorted; [apply IH; exact H|].
  intros Hi. apply Ha. eapply Permutation_in; [apply Permutation_map; apply sort_perm|exact Hi].
Qed.

Lemma insert_head f l : Forall (flt f) l -> insert_fmeta f l = f :: l.
Proof.
  destruct l as [|g r]; [reflexivity|]. intros F. apply Forall_inv in F.
  cbn [insert_fmeta]. rewrite (flt_asym _ _ F). reflexivity.
Qed.

Lemma sort_id l : StronglySorted flt l -> sort_fmeta l = l.
Proof.
  induction 1 as [|a l S IH F]; [reflexivity|].
  change (sort_fmeta (a :: l)) with (insert_fmeta a (sort_fmeta l)).
  rewrite IH. apply insert_head. exact F.
Qed.

Lemma merge_ssorted fuel : forall B A,
  StronglySorted flt B -> StronglySorted flt A ->
  (forall x y, In x B -> In y A -> fm_num x <> fm_num y) ->
  StronglySorted flt (merge_files fuel B A).
Proof.
  induction fuel as [|fuel IH]; intros B A SB SA D; cbn [merge_files]; [constructor|].
  destruct B as [|b br]; [exact SA|]. destruct A as [|a ar]; [exact SB|].
  pose proof (StronglySorted_inv SB) as [SB' FB]. pose proof (StronglySorted_inv SA) as [SA' FA].
  rewrite Forall_forall in FB, FA.
  assert (Hb : fmeta_cmp b a = Lt -> StronglySorted flt (b :: merge_files fuel br (a :: ar))).
  { intros C. constructor.
    - apply IH; [assumption|assumption|]. intros x y Hx Hy. apply D; [right; exact Hx|exact Hy].
    - apply Forall_forall. intros x Hx. apply merge_in in Hx. destruct Hx as [Hx|[<-|Hx]]; auto.
      eapply flt_trans; [exact C|auto]. }
  assert (Ha : fmeta_cmp b a <> Lt -> StronglySorted flt (a :: merge_files fuel (b :: br) ar)).
  { intros C. apply flt_of_not in C; [|apply D; left; reflexivity]. constructor.
    - apply IH; [assumption|assumption|]. intros x y Hx Hy. apply D; [exact Hx|right; exact Hy].
    - apply Forall_forall. intros x Hx. apply merge_in in Hx. destruct Hx as [[<-|Hx]|Hx]; auto.
      eapply flt_trans; [exact C|auto]. }
  destruct (fmeta_cmp b a); [apply Ha|apply Hb|apply Ha]; congruence.
Qed.

Lemma merge_in_iff fuel B A x :
  (length B + length A < fuel)%nat -> (In x (merge_files fuel B A) <-> In x B \/ In x A).
Proof.
  intros L. rewrite <- in_app_iff. split; apply Permutation_in; [|symmetry]; apply merge_perm; exact L.
Qed.

(* ========================================================================================== *)
(** * [apply_level] *)

Lemma apply_level_eq i B del A :
  apply_level i B del A =
  let res := filter (keepb del)
               (merge_files (S (length B + length A)) (sort_fmeta B) (sort_fmeta A)) in
  if Nat.eqb i 0 then Some res else if check_disjoint res then Some res else None.
Proof. reflexivity. Qed.

Lemma apply_level_nil i del A :
  apply_level i [] del A =
  let res := filter (keepb del) (sort_fmeta A) in
  if Nat.eqb i 0 then Some res else if check_disjoint res then Some res else None.
Proof. reflexivity. Qed.

Lemma apply_level_res i B del A res :
  apply_level i B del A = Some res ->
  res = filter (keepb del) (merge_files (S (length B + length A)) (sort_fmeta B) (sort_fmeta A)).
Proof.
  rewrite apply_level_eq. cbv zeta. destruct (Nat.eqb i 0); [congruence|].
  destruct (check_disjoint _); congruence.
Qed.

Lemma apply_level_res_nil i del A res :
  apply_level i [] del A = Some res -> res = filter (keepb del) (sort_fmeta A).
Proof. intros H. apply apply_level_res in H. exact H. Qed.

Lemma keepb_iff del f : keepb del f = true <-> ~ In (fm_num f) del.
Proof. unfold keepb. rewrite negb_true_iff, <- not_true_iff_false, existsb_eqb_In. tauto. Qed.

Lemma filter_keepb_nil l : filter (keepb []) l = l.
Proof. induction l as [|a l IH]; cbn [filter]; [reflexivity|]. change (keepb [] a) with true. rewrite IH. reflexivity. Qed.

Lemma apply_level_id i X :
  StronglySorted flt X -> (i <> O -> check_disjoint X = true) -> apply_level i [] [] X = Some X.
Proof.
  intros S C. rewrite apply_level_nil. cbv zeta. rewrite (sort_id X S), filter_keepb_nil.
  destruct (Nat.eqb_spec i 0) as [E|E]; [reflexivity|]. rewrite (C E). reflexivity.
Qed.

(** one level: rebuilding from the accumulated lists = applying the edit to the level built before *)
Lemma level_step i A Nw Dold Dc D2 base res :
  NoDup (map fm_num (A ++ Nw)) ->
  (forall n, In n D2 <-> (In n Dold \/ In n Dc) /\ ~ In n (map fm_num Nw)) ->
  (forall n, In n Dc -> ~ In n (map fm_num Nw)) ->
  apply_level i [] Dold A = Some base ->
  apply_level i base Dc Nw = Some res ->
  apply_level i [] D2 (A ++ Nw) = Some res.
Proof.
  intros ND H2 H3 E1 E2.
  pose proof (apply_level_res_nil _ _ _ _ E1) as Eb.
  rewrite map_app in ND.
  pose proof (NoDup_app_l _ _ ND) as NA. pose proof (NoDup_app_r _ _ ND) as NN.
  assert (SA : StronglySorted flt base).
  { rewrite Eb. apply filter_ssorted. apply sort_ssorted. exact NA. }
  assert (InB : forall x, In x base <-> In x A /\ ~ In (fm_num x) Dold).
  { intros x. rewrite Eb, filter_In, sort_in, keepb_iff. tauto. }
  assert (Dj : forall x y, In x A -> In y Nw -> fm_num x <> fm_num y).
  { intros x y Hx Hy E. apply (NoDup_app_disj _ _ (fm_num x) ND); [apply in_map; exact Hx|].
    rewrite E. apply in_map. exact Hy. }
  set (R1 := filter (keepb D2) (sort_fmeta (A ++ Nw))).
  set (R2 := filter (keepb Dc)
               (merge_files (S (length base + length Nw)) (sort_fmeta base) (sort_fmeta Nw))).
  assert (HR : R1 = R2).
  { apply ss_ext.
    - apply filter_ssorted. apply sort_ssorted. rewrite map_app. exact ND.
    - apply filter_ssorted. apply merge_ssorted.
      + rewrite (sort_id base SA). exact SA.
      + apply sort_ssorted. exact NN.
      + intros x y Hx Hy. apply -> sort_in in Hx. apply -> sort_in in Hy. apply -> InB in Hx.
        apply Dj; tauto.
    - intros x. unfold R1, R2. rewrite !filter_In, !keepb_iff, sort_in, in_app_iff.
      rewrite merge_in_iff.
      2:{ rewrite (Permutation_length (sort_perm base)), (Permutation_length (sort_perm Nw)). lia. }
      rewrite !sort_in, InB.
      pose proof (H2 (fm_num x)) as G2. pose proof (H3 (fm_num x)) as G3.
      assert (P : In x A -> ~ In (fm_num x) (map fm_num Nw)).
      { intros Hx Hi. apply in_map_iff in Hi. destruct Hi as (y & E & Hy).
        apply (Dj x y Hx Hy). symmetry. exact E. }
      assert (Q : In x Nw -> In (fm_num x) (map fm_num Nw)) by apply in_map.
      tauto. }
  rewrite apply_level_nil. cbv zeta. fold R1. rewrite HR.
  rewrite apply_level_eq in E2. exact E2.
Qed.

(* ========================================================================================== *)
(** * [build_levels] level by level *)

Definition bl_del (a : macc) (i : nat) : list N :=
  map snd (filter (fun d => Nat.eqb (fst d) i) (ma_deleted a)).
Definition bl_add (a : macc) (i : nat) : list fmeta :=
  map snd (filter (fun x => Nat.eqb (fst x) i) (ma_added a)).

Lemma bl_cons k n a :
  build_levels k (S n) a =
  match apply_level k [] (bl_del a k) (bl_add a k), build_levels (S k) n a with
  | Some l, Some r => Some (l :: r)
  | _, _ => None
  end.
Proof. reflexivity. Qed.

Lemma bl_char a : forall n k v, build_levels k n a = Some v ->
  length v = n /\
  forall i, (i < n)%nat ->
    apply_level (k + i) [] (bl_del a (k + i)) (bl_add a (k + i)) = Some (nth i v []).
Proof.
  induction n as [|n IH]; intros k v H.
  - cbn [build_levels] in H. injection H as <-. split; [reflexivity|]. intros i L. lia.
  - rewrite bl_cons in H. destruct (apply_level k [] _ _) as [l|] eqn:E1; [|discriminate].
    destruct (build_levels (S k) n a) as [r|] eqn:E2; [|discriminate]. injection H as <-.
    destruct (IH _ _ E2) as [L1 L2]. split; [cbn [length]; lia|].
    intros [|i] L.
    + rewrite Nat.add_0_r. exact E1.
    + cbn [nth]. replace (k + S i)%nat with (S k + i)%nat by lia. apply L2. lia.
Qed.

Lemma bl_intro a : forall n k v, length v = n ->
  (forall i, (i < n)%nat ->
     apply_level (k + i) [] (bl_del a (k + i)) (bl_add a (k + i)) = Some (nth i v [])) ->
  build_levels k n a = Some v.
Proof.
  induction n as [|n IH]; intros k v L H.
  - destruct v; [reflexivity|discriminate].
  - destruct v as [|l r]; [discriminate|]. rewrite bl_cons.
    pose proof (H O ltac:(lia)) as H0. rewrite Nat.add_0_r in H0. cbn [nth] in H0. rewrite H0.
    rewrite (IH (S k) r); [reflexivity|cbn [length] in L; lia|].
    intros i Li. specialize (H (S i) ltac:(lia)). rewrite Nat.add_succ_r in H. exact H.
Qed.

Lemma lvl_filter_In {A} (l : list (nat * A)) i x :
  In x (map snd (filter (fun d => Nat.eqb (fst d) i) l)) <-> In (i, x) l.
Proof.
  rewrite in_map_iff. split.
  - intros ([j y] & E & H). cbn [snd] in E. subst y. apply filter_In in H. destruct H as [H E].
    cbn [fst] in E. apply Nat.eqb_eq in E. subst j. exact H.
  - intros H. exists (i, x). split; [reflexivity|]. apply filter_In. split; [exact H|].
    cbn [fst]. apply Nat.eqb_refl.
Qed.

Lemma nodup_level (l : list (nat * fmeta)) i :
  NoDup (lvl_nums l) -> NoDup (map fm_num (map snd (filter (fun x => Nat.eqb (fst x) i) l))).
Proof.
  unfold lvl_nums. induction l as [|x l IH]; cbn [map filter]; intros H; [constructor|].
  apply NoDup_cons_iff in H. destruct H as [Hx H].
  destruct (Nat.eqb_spec (fst x) i) as [E|E]; [|apply IH; exact H].
  cbn [map]. constructor; [|apply IH; exact H].
  intros Hi. apply Hx. apply in_map_iff in Hi. destruct Hi as (f & Ef & Hf).
  apply lvl_filter_In in Hf. apply in_map_iff. exists (i, f). cbn [fst snd].
  split; [rewrite E, Ef; reflexivity|exact Hf].
Qed.

Lemma bl_add_acc a c i : bl_add (accumulate a c) i = bl_add a i ++ ae_add (edit_of c) i.
Proof.
  unfold bl_add, ae_add.
  change (ma_added (accumulate a c)) with (ma_added a ++ ve_added (edit_of c)).
  rewrite filter_app, map_app. reflexivity.
Qed.

Lemma bl_del_acc_In a c i n :
  In n (bl_del (accumulate a c) i) <->
  (In n (bl_del a i) \/ In (i, n) (ve_deleted (edit_of c))) /\
  ~ In n (map fm_num (ae_add (edit_of c) i)).
Proof.
  unfold bl_del. rewrite !lvl_filter_In.
  change (ma_deleted (accumulate a c)) with
    (filter (fun d => negb (existsb (fun x => Nat.eqb (fst x) (fst d) && (fm_num (snd x) =? snd d))
                                    (ve_added (edit_of c))))
            (ma_deleted a ++ ve_deleted (edit_of c))).
  rewrite filter_In, in_app_iff. cbn [fst snd].
  rewrite negb_true_iff, <- not_true_iff_false, existsb_exists.
  split; intros [H1 H2]; (split; [exact H1|]); intros H; apply H2.
  - apply in_map_iff in H. destruct H as (f & E & Hf). apply ae_add_In in Hf.
    exists (i, f). cbn [fst snd]. rewrite Nat.eqb_refl, E, N.eqb_refl. auto.
  - destruct H as ([j f] & Hx & E). cbn [fst snd] in E. apply andb_true_iff in E.
    destruct E as [E1 E2]. apply Nat.eqb_eq in E1. apply N.eqb_eq in E2. subst j n.
    apply in_map. apply ae_add_In. exact Hx.
Qed.

(** one more record: the accumulated manifest state follows [apply_edit], provided no (level, number) is added twice *)
Theorem build_levels_step : forall a c v v',
  NoDup (lvl_nums (ma_added a ++ news_of c)) ->
  build_levels 0 NLEVELS a = Some v ->
  apply_edit v (edit_of c) = Some v' ->
  build_levels 0 NLEVELS (accumulate a c) = Some v'.
Proof.
  intros a c v v' ND Hb He.
  destruct (bl_char _ _ _ _ Hb) as [Lv Hv].
  destruct (ael_char _ _ _ _ He) as [Lv' Hv'].
  apply bl_intro; [lia|]. intros i Li.
  specialize (Hv i Li). specialize (Hv' i ltac:(lia)). cbn [Nat.add] in *.
  rewrite bl_add_acc.
  eapply level_step; [| | |exact Hv|exact Hv'].
  - pose proof (nodup_level _ i ND) as H. rewrite filter_app, map_app in H. exact H.
  - intros n. rewrite bl_del_acc_In, ae_del_In. tauto.
  - intros n Hn. apply ae_del_In in Hn. tauto.
Qed.

(** every file of the built version was added at its level *)
Lemma build_levels_length : forall a v, build_levels 0 NLEVELS a = Some v -> length v = NLEVELS.
Proof. intros a v H. apply (bl_char _ _ _ _ H). Qed.

Lemma build_levels_in : forall a v l f,
  build_levels 0 NLEVELS a = Some v -> In f (nth l v []) -> In (l, f) (ma_added a).
Proof.
  intros a v l f H Hf. destruct (bl_char _ _ _ _ H) as [Lv Hv].
  destruct (Nat.lt_ge_cases l NLEVELS) as [L|L].
  - specialize (Hv l L). cbn [Nat.add] in Hv. apply apply_level_facts in Hv.
    destruct Hv as (_ & F & _). destruct (F f Hf) as [[]|Ha]. apply lvl_filter_In in Ha. exact Ha.
  - rewrite nth_overflow in Hf by lia. destruct Hf.
Qed.

(** the version of an empty manifest state *)
Lemma build_levels_empty_gen a : ma_added a = [] ->
  forall n k, build_levels k n a = Some (repeat [] n).
Proof.
  intros E. induction n as [|n IH]; intros k; [reflexivity|].
  rewrite bl_cons, IH. unfold bl_add. rewrite E. cbn [filter map].
  rewrite apply_level_nil. cbn [sort_fmeta fold_right filter check_disjoint].
  destruct (Nat.eqb k 0); reflexivity.
Qed.

Lemma build_levels_empty : forall a, ma_added a = [] ->
  build_levels 0 NLEVELS a = Some (repeat [] NLEVELS).
Proof. intros a E. apply build_levels_empty_gen. exact E. Qed.

(* ========================================================================================== *)
(** * The snapshot record *)

Fixpoint vf_go (level : N) (v : version) : list (N * fmeta) :=
  match v with
  | [] => []
  | fs :: r => map (fun f => (level, f)) fs ++ vf_go (level + 1) r
  end.

Lemma version_files_go v : version_files v = vf_go 0 v.
Proof. reflexivity. Qed.

Fixpoint vfn (k : nat) (v : version) : list (nat * fmeta) :=
  match v with
  | [] => []
  | fs :: r => map (fun f => (k, f)) fs ++ vfn (S k) r
  end.

Lemma vf_go_nat v : forall lv k, N.to_nat lv = k ->
  map (fun p => (N.to_nat (fst p), snd p)) (vf_go lv v) = vfn k v.
Proof.
  induction v as [|fs r IH]; intros lv k E; cbn [vf_go vfn]; [reflexivity|].
  rewrite map_app, map_map. cbn [fst snd]. rewrite (IH (lv + 1) (S k)) by lia.
  subst k. reflexivity.
Qed.

Lemma filter_level_const (fs : list fmeta) k l :
  map snd (filter (fun x => Nat.eqb (fst x) l) (map (fun f => (k, f)) fs)) =
  if Nat.eqb k l then fs else [].
Proof.
  induction fs as [|f fs IH]; cbn [map filter fst].
  - destruct (Nat.eqb k l); reflexivity.
  - destruct (Nat.eqb k l) eqn:E; cbn [map snd]; rewrite IH; reflexivity.
Qed.

Lemma vfn_level v : forall k l,
  map snd (filter (fun x => Nat.eqb (fst x) l) (vfn k v)) =
  if (k <=? l)%nat then nth (l - k) v [] else [].
Proof.
  induction v as [|fs r IH]; intros k l; cbn [vfn].
  - cbn [filter map]. destruct (k <=? l)%nat; [destruct (l - k)%nat; reflexivity|reflexivity].
  - rewrite filter_app, map_app, IH, filter_level_const.
    destruct (Nat.eqb_spec k l) as [E|E].
    + subst l. rewrite Nat.sub_diag. cbn [nth].
      destruct (Nat.leb_spec (S k) k); [lia|]. rewrite Nat.leb_refl, app_nil_r. reflexivity.
    + cbn [app]. destruct (Nat.leb_spec (S k) l), (Nat.leb_spec k l); try lia; [|reflexivity].
      replace (l - k)%nat with (S (l - S k)) by lia. reflexivity.
Qed.

Lemma vfn_In v l f : In (l, f) (vfn O v) <-> In f (nth l v []).
Proof.
  rewrite <- lvl_filter_In, vfn_level. cbn [Nat.leb]. rewrite Nat.sub_0_r. tauto.
Qed.

Lemma vfn_ge v : forall k i n, In (i, n) (lvl_nums (vfn k v)) -> (k <= i)%nat.
Proof.
  unfold lvl_nums. induction v as [|fs r IH]; intros k i n H; cbn [vfn map] in H; [destruct H|].
  rewrite map_app, map_map in H. cbn [fst snd] in H. apply in_app_or in H. destruct H as [H|H].
  - apply in_map_iff in H. destruct H as (f & E & _). injection E as <- _. lia.
  - apply IH in H. lia.
Qed.

Lemma vfn_nodup v : (forall i, NoDup (map fm_num (nth i v []))) ->
  forall k, NoDup (lvl_nums (vfn k v)).
Proof.
  induction v as [|fs r IH]; intros H k; cbn [vfn]; [constructor|].
  unfold lvl_nums. rewrite map_app, map_map. cbn [fst snd]. apply NoDup_app_intro.
  - specialize (H O). cbn [nth] in H. rewrite <- (map_map fm_num (fun n => (k, n))).
    apply FinFun.Injective_map_NoDup; [|exact H]. intros x y E. injection E as E. exact E.
  - apply IH. intros i. apply (H (S i)).
  - intros [i n] H1 H2. apply in_map_iff in H1. destruct H1 as (f & E & _). injection E as <- _.
    apply vfn_ge in H2. lia.
Qed.

(** the snapshot record written into a new manifest reproduces the version *)
Theorem build_levels_snapshot : forall a v ptrs,
  NoDup (lvl_nums (ma_added a)) ->
  build_levels 0 NLEVELS a = Some v ->
  let s := accumulate macc_empty (mkVC None None None None ptrs [] (version_files v)) in
  build_levels 0 NLEVELS s = Some v /\ ma_deleted s = [] /\ NoDup (lvl_nums (ma_added s)) /\
  (forall l f, In (l, f) (ma_added s) <-> ((l < NLEVELS)%nat /\ In f (nth l v []))).
Proof.
  intros a v ptrs ND Hb s.
  assert (Hadd : ma_added s = vfn O v).
  { unfold s, accumulate. cbn [ma_added macc_empty vc_new app]. rewrite version_files_go.
    apply vf_go_nat. reflexivity. }
  assert (Hdel : ma_deleted s = []) by reflexivity.
  destruct (bl_char _ _ _ _ Hb) as [Lv Hv].
  assert (Lev : forall i, StronglySorted flt (nth i v []) /\ NoDup (map fm_num (nth i v [])) /\
                          (i <> O -> check_disjoint (nth i v []) = true)).
  { intros i. destruct (Nat.lt_ge_cases i NLEVELS) as [L|L].
    - specialize (Hv i L). cbn [Nat.add] in Hv.
      pose proof (nodup_level _ i ND) as NA. fold (bl_add a i) in NA.
      pose proof (apply_level_res_nil _ _ _ _ Hv) as E.
      split; [|split].
      + rewrite E. apply filter_ssorted. apply sort_ssorted. exact NA.
      + rewrite E. apply NoDup_map_filter.
        eapply Permutation_NoDup; [symmetry; apply Permutation_map; apply sort_perm|exact NA].
      + apply (apply_level_char _ _ _ _ _ Hv).
    - rewrite nth_overflow by lia. split; [constructor|]. split; [constructor|reflexivity]. }
  split; [|split; [exact Hdel|split]].
  - apply bl_intro; [exact Lv|]. intros i Li. cbn [Nat.add].
    unfold bl_del, bl_add. rewrite Hdel, Hadd, vfn_level. cbn [filter map Nat.leb].
    rewrite Nat.sub_0_r. apply apply_level_id; apply Lev.
  - rewrite Hadd. apply vfn_nodup. intros i. apply Lev.
  - intros l f. rewrite Hadd, vfn_In. split; [|tauto]. intros H. split; [|exact H].
    destruct (Nat.lt_ge_cases l NLEVELS) as [L|L]; [exact L|].
    rewrite nth_overflow in H by lia. destruct H.
Qed.

(* ========================================================================================== *)
(** * numbers of the files after an edit *)

Lemma vn_in v n : In n (version_numbers v) <-> exists i f, In f (nth i v []) /\ fm_num f = n.
Proof.
  unfold version_numbers. rewrite in_flat_map. split.
  - intros (fs & Hfs & Hn). apply in_map_iff in Hn. destruct Hn as (f & E & Hf).
    apply (In_nth _ _ []) in Hfs. destruct Hfs as (i & L & Ei). exists i, f. rewrite Ei. auto.
  - intros (i & f & Hf & E). exists (nth i v []). split.
    + destruct (Nat.lt_ge_cases i (length v)) as [L|L]; [apply nth_In; exact L|].
      rewrite nth_overflow in Hf by exact L. destruct Hf.
    + apply in_map_iff. exists f. auto.
Qed.

Lemma nth_in_lt {A} (v : list (list A)) i f : In f (nth i v []) -> (i < length v)%nat.
Proof.
  intros H. destruct (Nat.lt_ge_cases i (length v)) as [L|L]; [exact L|].
  rewrite nth_overflow in H by exact L. destruct H.
Qed.

Lemma edit_added_In c i f :
  In (i, f) (ve_added (edit_of c)) <-> exists p, In p (vc_new c) /\ N.to_nat (fst p) = i /\ snd p = f.
Proof.
  unfold edit_of. cbn [ve_added]. rewrite in_map_iff. split.
  - intros (p & E & Hp). injection E as E1 E2. eauto.
  - intros (p & Hp & E1 & E2). exists p. rewrite E1, E2. auto.
Qed.

Lemma apply_edit_numbers : forall v c v' n,
  apply_edit v (edit_of c) = Some v' ->
  In n (version_numbers v') -> In n (version_numbers v) \/ In n (map (fun p => fm_num (snd p)) (vc_new c)).
Proof.
  intros v c v' n He Hn. apply vn_in in Hn. destruct Hn as (i & f & Hf & E).
  pose proof (nth_in_lt _ _ _ Hf) as L. rewrite (apply_edit_len _ _ _ He) in L.
  pose proof (apply_edit_In _ _ _ He i f L) as K. unfold level_files in K.
  apply K in Hf. destruct Hf as [[Hf|Hf] _].
  - left. apply vn_in. eauto.
  - right. apply edit_added_In in Hf. destruct Hf as (p & Hp & _ & E2).
    apply in_map_iff. exists p. rewrite E2. auto.
Qed.

Lemma apply_edit_numbers_add : forall v c v' n,
  length v = NLEVELS -> vc_deleted c = [] -> (forall p, In p (vc_new c) -> fst p < MAX_NUM_LEVELS) ->
  apply_edit v (edit_of c) = Some v' ->
  (In n (version_numbers v') <-> In n (version_numbers v) \/ In n (map (fun p => fm_num (snd p)) (vc_new c))).
Proof.
  intros v c v' n Lv Hd Hl He. split; [apply (apply_edit_numbers _ _ _ _ He)|].
  assert (ND : forall i m, ~ In (i, m) (ve_deleted (edit_of c))).
  { intros i m. unfold edit_of. cbn [ve_deleted]. rewrite Hd. intros []. }
  intros [Hn|Hn].
  - apply vn_in in Hn. destruct Hn as (i & f & Hf & E).
    pose proof (nth_in_lt _ _ _ Hf) as L.
    pose proof (apply_edit_In _ _ _ He i f L) as K. unfold level_files in K.
    apply vn_in. exists i, f. split; [|exact E]. apply K. split; [left; exact Hf|].
    intros [H _]. exact (ND _ _ H).
  - apply in_map_iff in Hn. destruct Hn as (p & E & Hp).
    assert (L : (N.to_nat (fst p) < length v)%nat).
    { rewrite Lv. unfold NLEVELS. specialize (Hl p Hp). lia. }
    pose proof (apply_edit_In _ _ _ He _ (snd p) L) as K. unfold level_files in K.
    apply vn_in. exists (N.to_nat (fst p)), (snd p). split; [|exact E]. apply K. split.
    + right. apply edit_added_In. exists p. auto.
    + intros [H _]. exact (ND _ _ H).
Qed.

Print Assumptions build_levels_step.
Print Assumptions build_levels_snapshot.
Print Assumptions build_levels_in.
Print Assumptions build_levels_length.
Print Assumptions build_levels_empty.
Print Assumptions apply_edit_numbers.
Print Assumptions apply_edit_numbers_add.
