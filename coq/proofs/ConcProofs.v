(** Proofs for C05 / C06 on the concurrent model [Conc.v] (the read path [get], the write path
    [apply_changes] with group commit, memtable rotation, [compact_memtable], at the granularity
    of the blocks of code between two releases of the database mutex): a reachability invariant
    of the transition system for every well-formed schedule; linearizability of [get] (C05),
    batch atomicity (C06), writers exactly once; the unrepaired code (D6) refuted. No axioms.

    Part 1: generic lemmas (thread table, memtable table, numbered entries, visibility below a bound)
    Part 2: the transitions of [cstep], one equation per program counter
    Part 3: the thread / queue / commit-log invariant [TInv]
    Part 4: the memory invariant [MInv]
    Part 5: [GInv] = [TInv] + [MInv], reachability, and the theorems *)
From Coq Require Import Lia ZArith ZifyN ZifyBool ZifyNat Permutation List.
From RainVerif Require Import Params.
From RainVerif.model Require Import Bytes Key Block Table TableSpec Lsm LsmSpec DbSpec Conc.
From RainVerif.proofs Require Import KeyProofs GetProofs.
From RainVerif.proofs Require CompactProofs.
Import ListNotations.
Open Scope N_scope.
Arguments N.add : simpl never.
Arguments N.sub : simpl never.
Arguments N.mul : simpl never.
Arguments N.eqb : simpl never.
Arguments N.ltb : simpl never.
Arguments N.leb : simpl never.
Arguments N.of_nat : simpl never.
Arguments N.to_nat : simpl never.
Arguments N.compare : simpl never.

(** * Part 1: generic lemmas *)

Notation sq e := (ik_seq (fst e)) (only parsing).

Definition len {A} (l : list A) : N := N.of_nat (length l).

Lemma len_app {A} (a b : list A) : len (a ++ b) = len a + len b.
Proof. unfold len. rewrite app_length. lia. Qed.

Lemma len_nil {A} : len (@nil A) = 0.
Proof. reflexivity. Qed.

Lemma len_cons {A} (x : A) l : len (x :: l) = 1 + len l.
Proof. unfold len. cbn [length]. lia. Qed.

(** * thread table *)

Definition pcl (ths : list (tid * pc)) (t : tid) : option pc :=
  match find (fun p => fst p =? t) ths with Some p => Some (snd p) | None => None end.

Lemma pc_of_pcl s t : pc_of s t = pcl (c_threads s) t.
Proof. reflexivity. Qed.

Lemma pcl_cons t0 p0 ths t :
  pcl ((t0, p0) :: ths) t = if t0 =? t then Some p0 else pcl ths t.
Proof. unfold pcl. cbn [find fst snd]. destruct (t0 =? t); reflexivity. Qed.

Lemma pcl_set_pc ths t p x :
  pcl (set_pc ths t p) x =
  if x =? t then match pcl ths t with Some _ => Some p | None => None end else pcl ths x.
Proof.
  induction ths as [|[a pa] r IH].
  - cbn. destruct (x =? t); reflexivity.
  - unfold set_pc in *. cbn [map fst]. destruct (a =? t) eqn:Eat.
    + apply N.eqb_eq in Eat. subst a. rewrite !pcl_cons. rewrite N.eqb_refl.
      destruct (x =? t) eqn:Ext.
      * apply N.eqb_eq in Ext. subst x. rewrite N.eqb_refl. reflexivity.
      * rewrite (N.eqb_sym t x), Ext. exact IH.
    + rewrite !pcl_cons, Eat. rewrite IH. destruct (x =? t) eqn:Ext.
      * apply N.eqb_eq in Ext. subst x. rewrite Eat. reflexivity.
      * reflexivity.
Qed.

Lemma pcl_set_pc_same ths t p p0 : pcl ths t = Some p0 -> pcl (set_pc ths t p) t = Some p.
Proof. intros H. rewrite pcl_set_pc, N.eqb_refl, H. reflexivity. Qed.

Lemma pcl_set_pc_other ths t p x : x <> t -> pcl (set_pc ths t p) x = pcl ths x.
Proof. intros H. rewrite pcl_set_pc. apply N.eqb_neq in H. rewrite H. reflexivity. Qed.

Lemma pcl_set_pc_some ths t p x q :
  pcl (set_pc ths t p) x = Some q ->
  (x = t /\ q = p /\ exists p0, pcl ths t = Some p0) \/ (x <> t /\ pcl ths x = Some q).
Proof.
  rewrite pcl_set_pc. destruct (x =? t) eqn:E.
  - apply N.eqb_eq in E. subst x. destruct (pcl ths t) as [p0|]; [|discriminate].
    intros H. inversion H. left. split; [reflexivity|]. split; [reflexivity|]. exists p0. reflexivity.
  - apply N.eqb_neq in E. intros H. right. split; assumption.
Qed.

Lemma pcl_in ths t p : pcl ths t = Some p -> In (t, p) ths.
Proof.
  unfold pcl. destruct (find (fun p0 => fst p0 =? t) ths) as [[a pa]|] eqn:F; [|discriminate].
  intros H. inversion H. subst. apply find_some in F. destruct F as [F1 F2]. cbn [fst snd] in *.
  apply N.eqb_eq in F2. subst. exact F1.
Qed.

Lemma pcl_none_notin ths t : pcl ths t = None -> ~ In t (map fst ths).
Proof.
  unfold pcl. destruct (find (fun p0 => fst p0 =? t) ths) eqn:F; [discriminate|].
  intros _ H. apply in_map_iff in H. destruct H as (x & Hx & Hin).
  pose proof (find_none _ _ F x Hin) as N0. cbv beta in N0. apply N.eqb_neq in N0. apply N0. exact Hx.
Qed.

(** the followers of a new group *)
Definition follow (ths : list (tid * pc)) (t : tid) (group : list (tid * list wop)) :=
  fold_left (fun a m => if fst m =? t then a else set_pc a (fst m) WFollower) group ths.

Lemma follow_cons ths t mt mb g :
  follow ths t ((mt, mb) :: g) = follow (if mt =? t then ths else set_pc ths mt WFollower) t g.
Proof. reflexivity. Qed.

Lemma pcl_follow_self ths t g : pcl (follow ths t g) t = pcl ths t.
Proof.
  revert ths. induction g as [|[mt mb] g IH]; intros ths; [reflexivity|].
  rewrite follow_cons, IH. destruct (mt =? t) eqn:E; [reflexivity|].
  apply pcl_set_pc_other. apply N.eqb_neq in E. congruence.
Qed.

Lemma pcl_follow_out ths t g x : ~ In x (map fst g) -> pcl (follow ths t g) x = pcl ths x.
Proof.
  revert ths. induction g as [|[mt mb] g IH]; intros ths Hn; [reflexivity|].
  rewrite follow_cons. cbn [map In fst] in Hn. rewrite IH by tauto.
  destruct (mt =? t); [reflexivity|]. apply pcl_set_pc_other. intros ->. tauto.
Qed.

Lemma pcl_follow_some ths t g x p :
  pcl ths x = Some p -> exists p', pcl (follow ths t g) x = Some p'.
Proof.
  revert ths p. induction g as [|[mt mb] g IH]; intros ths p H; [exists p; exact H|].
  rewrite follow_cons. destruct (mt =? t).
  - eapply IH. exact H.
  - destruct (N.eq_dec x mt) as [->|Ne].
    + eapply IH. eapply pcl_set_pc_same. exact H.
    + eapply IH. rewrite pcl_set_pc_other by exact Ne. exact H.
Qed.

Lemma pcl_follow_in ths t g x p :
  In x (map fst g) -> x <> t -> pcl ths x = Some p -> pcl (follow ths t g) x = Some WFollower.
Proof.
  revert ths p. induction g as [|[mt mb] g IH]; intros ths p Hin Ne H; [destruct Hin|].
  rewrite follow_cons. cbn [map In fst] in Hin.
  destruct (mt =? t) eqn:E.
  - apply N.eqb_eq in E. destruct Hin as [Hin|Hin]; [congruence|]. eapply IH; eassumption.
  - destruct (N.eq_dec x mt) as [->|Nm].
    + destruct (in_dec N.eq_dec mt (map fst g)) as [Hi|Hn].
      * eapply IH; [exact Hi|exact Ne|]. eapply pcl_set_pc_same. exact H.
      * rewrite pcl_follow_out by exact Hn. eapply pcl_set_pc_same. exact H.
    + destruct Hin as [Hin|Hin]; [congruence|]. eapply IH; [exact Hin|exact Ne|].
      rewrite pcl_set_pc_other by exact Nm. exact H.
Qed.

Lemma pcl_follow_inv ths t g x px :
  pcl (follow ths t g) x = Some px -> px = WFollower \/ pcl ths x = Some px.
Proof.
  revert ths. induction g as [|[mt mb] g IH]; intros ths H; [right; exact H|].
  rewrite follow_cons in H. apply IH in H. destruct H as [H|H]; [left; exact H|].
  destruct (mt =? t); [right; exact H|]. apply pcl_set_pc_some in H.
  destruct H as [(_ & E & _)|[_ H]]; [left; exact E|right; exact H].
Qed.

(** completion of the members of a published group *)
Definition finish (ths : list (tid * pc)) (members : list tid) :=
  fold_left (fun a m => set_pc a m (Done None)) members ths.

Lemma pcl_finish_out ths ms x : ~ In x ms -> pcl (finish ths ms) x = pcl ths x.
Proof.
  revert ths. induction ms as [|m ms IH]; intros ths Hn; [reflexivity|].
  unfold finish in *. cbn [fold_left]. cbn [In] in Hn. rewrite IH by tauto.
  apply pcl_set_pc_other. intros ->. tauto.
Qed.

Lemma pcl_finish_in ths ms x p :
  In x ms -> pcl ths x = Some p -> pcl (finish ths ms) x = Some (Done None).
Proof.
  revert ths p. induction ms as [|m ms IH]; intros ths p Hin H; [destruct Hin|].
  unfold finish in *. cbn [fold_left].
  destruct (N.eq_dec x m) as [->|Nm].
  - destruct (in_dec N.eq_dec m ms) as [Hi|Hn].
    + eapply IH; [exact Hi|]. eapply pcl_set_pc_same. exact H.
    + fold (finish (set_pc ths m (Done None)) ms). rewrite pcl_finish_out by exact Hn.
      eapply pcl_set_pc_same. exact H.
  - destruct Hin as [Hin|Hin]; [congruence|]. eapply IH; [exact Hin|].
    rewrite pcl_set_pc_other by exact Nm. exact H.
Qed.

Lemma pcl_finish_inv ths ms x px :
  pcl (finish ths ms) x = Some px -> px = Done None \/ pcl ths x = Some px.
Proof.
  revert ths. induction ms as [|m ms IH]; intros ths H; [right; exact H|].
  unfold finish in *. cbn [fold_left] in H. apply IH in H. destruct H as [H|H]; [left; exact H|].
  apply pcl_set_pc_some in H. destruct H as [(_ & E & _)|[_ H]]; [left; exact E|right; exact H].
Qed.

Lemma pcl_finish_none ths ms x : pcl ths x = None -> pcl (finish ths ms) x = None.
Proof.
  revert ths. induction ms as [|m ms IH]; intros ths H; [exact H|].
  unfold finish in *. cbn [fold_left]. apply IH. rewrite pcl_set_pc.
  destruct (x =? m) eqn:E; [|exact H]. apply N.eqb_eq in E. subst. rewrite H. reflexivity.
Qed.

(** the batches of the queued writers among [ts] *)
Lemma batches_of_in s ts t b :
  In (t, b) (batches_of s ts) <-> In t ts /\ pc_of s t = Some (WQueued b).
Proof.
  unfold batches_of. rewrite in_flat_map. split.
  - intros (x & Hx & Hin). destruct (pc_of s x) as [[]|] eqn:P; try (exfalso; exact Hin).
    destruct Hin as [Hin|[]]. inversion Hin. subst. split; assumption.
  - intros [H1 H2]. exists t. split; [exact H1|]. rewrite H2. left. reflexivity.
Qed.

Lemma batches_of_fst s ts t : In t (map fst (batches_of s ts)) -> In t ts.
Proof.
  intros H. apply in_map_iff in H. destruct H as ([x b] & Hx & Hin). cbn in Hx. subst x.
  apply batches_of_in in Hin. tauto.
Qed.

Lemma batches_of_nodup s ts : NoDup ts -> NoDup (map fst (batches_of s ts)).
Proof.
  induction ts as [|x ts IH]; intros ND; [constructor|].
  inversion ND as [|? ? Hx ND']. subst. unfold batches_of in *. cbn [flat_map].
  destruct (pc_of s x) as [[]|]; cbn [app map fst]; try (apply IH; exact ND').
  constructor; [|apply IH; exact ND']. intros H. apply Hx. eapply batches_of_fst. exact H.
Qed.

(** * memtable table *)

Definition meml (ms : list (N * list entry)) (id : N) : list entry :=
  match find (fun p => fst p =? id) ms with Some p => snd p | None => [] end.

Definition mall (ms : list (N * list entry)) : list entry := concat (map snd ms).

Lemma mem_of_meml s id : mem_of s id = meml (c_mems s) id.
Proof. reflexivity. Qed.

Lemma meml_cons a l ms id : meml ((a, l) :: ms) id = if a =? id then l else meml ms id.
Proof. unfold meml. cbn [find fst snd]. destruct (a =? id); reflexivity. Qed.

Lemma meml_incl ms id e : In e (meml ms id) -> In e (mall ms).
Proof.
  unfold meml, mall. destruct (find (fun p => fst p =? id) ms) as [p|] eqn:F; [|intros []].
  intros H. apply find_some in F. destruct F as [F _]. apply in_concat.
  exists (snd p). split; [apply in_map; exact F|exact H].
Qed.

Lemma meml_notin ms id : ~ In id (map fst ms) -> meml ms id = [].
Proof.
  intros H. unfold meml. destruct (find (fun p => fst p =? id) ms) as [p|] eqn:F; [|reflexivity].
  exfalso. apply find_some in F. destruct F as [F1 F2]. apply N.eqb_eq in F2. apply H.
  subst id. apply in_map. exact F1.
Qed.

Lemma set_mem_fst ms id es : map fst (set_mem ms id es) = map fst ms.
Proof.
  unfold set_mem. rewrite map_map. apply map_ext. intros p. destruct (fst p =? id) eqn:E; [|reflexivity].
  apply N.eqb_eq in E. cbn. congruence.
Qed.

Lemma set_mem_notin ms id es : ~ In id (map fst ms) -> set_mem ms id es = ms.
Proof.
  induction ms as [|[a l] ms IH]; intros H; [reflexivity|].
  unfold set_mem in *. cbn [map fst In] in *. rewrite IH by tauto.
  destruct (a =? id) eqn:E; [|reflexivity]. apply N.eqb_eq in E. tauto.
Qed.

Lemma meml_set_mem_same ms id es : In id (map fst ms) -> meml (set_mem ms id es) id = es.
Proof.
  induction ms as [|[a l] ms IH]; intros H; [destruct H|].
  unfold set_mem in *. cbn [map fst]. destruct (a =? id) eqn:E.
  - rewrite meml_cons, N.eqb_refl. reflexivity.
  - rewrite meml_cons, E. apply IH. cbn [map fst In] in H. apply N.eqb_neq in E. tauto.
Qed.

Lemma meml_set_mem_other ms id es x : x <> id -> meml (set_mem ms id es) x = meml ms x.
Proof.
  intros Ne. induction ms as [|[a l] ms IH]; [reflexivity|].
  unfold set_mem in *. cbn [map fst]. destruct (a =? id) eqn:E.
  - apply N.eqb_eq in E. subst a. rewrite !meml_cons.
    assert (E2 : id =? x = false) by (apply N.eqb_neq; congruence). rewrite E2. exact IH.
  - rewrite !meml_cons. rewrite IH. reflexivity.
Qed.

Lemma mall_insert ms id e :
  NoDup (map fst ms) -> In id (map fst ms) ->
  Permutation (mall (set_mem ms id (insert_entry e (meml ms id)))) (e :: mall ms).
Proof.
  induction ms as [|[a l] ms IH]; intros ND Hin; [destruct Hin|].
  cbn [map fst] in ND. inversion ND as [|? ? Ha ND']. subst. cbn [map fst In] in Hin.
  unfold set_mem, mall in *. cbn [map fst snd concat]. rewrite meml_cons.
  destruct (a =? id) eqn:E.
  - apply N.eqb_eq in E. subst a. cbn [snd].
    fold (set_mem ms id (insert_entry e l)). rewrite set_mem_notin by exact Ha.
    change (e :: l ++ concat (map snd ms)) with ((e :: l) ++ concat (map snd ms)).
    apply Permutation_app_tail. apply CompactProofs.insert_entry_perm.
  - cbn [snd]. apply N.eqb_neq in E.
    eapply Permutation_trans; [apply Permutation_app_head; apply IH; [exact ND'|tauto]|].
    apply Permutation_sym. apply Permutation_middle.
Qed.

(** * numbered entries of an operation list *)

Definition ops (l : list (tid * list wop)) : list wop := concat (map snd l).

Lemma ops_app a b : ops (a ++ b) = ops a ++ ops b.
Proof. unfold ops. rewrite map_app, concat_app. reflexivity. Qed.

Lemma ops_cons t b l : ops ((t, b) :: l) = b ++ ops l.
Proof. reflexivity. Qed.

Fixpoint ents (base : N) (l : list wop) : list entry :=
  match l with
  | [] => []
  | o :: r => wop_entry o (base + 1) :: ents (base + 1) r
  end.

Lemma ents_app l1 : forall base l2, ents base (l1 ++ l2) = ents base l1 ++ ents (base + len l1) l2.
Proof.
  induction l1 as [|o l1 IH]; intros base l2.
  - cbn [app ents]. rewrite len_nil, N.add_0_r. reflexivity.
  - cbn [app ents]. rewrite IH. rewrite len_cons. f_equal. f_equal. f_equal. lia.
Qed.

Lemma ents_seq l : forall base e, In e (ents base l) -> base < sq e /\ sq e <= base + len l.
Proof.
  induction l as [|o l IH]; intros base e H; [destruct H|].
  cbn [ents] in H. rewrite len_cons. destruct H as [<-|H].
  - rewrite wop_entry_seq. lia.
  - apply IH in H. lia.
Qed.

Lemma ents_inj l : forall base e1 e2,
  In e1 (ents base l) -> In e2 (ents base l) -> sq e1 = sq e2 -> e1 = e2.
Proof.
  induction l as [|o l IH]; intros base e1 e2 H1 H2 E; [destruct H1|].
  cbn [ents] in H1, H2. destruct H1 as [<-|H1], H2 as [<-|H2].
  - reflexivity.
  - apply ents_seq in H2. rewrite wop_entry_seq in E. lia.
  - apply ents_seq in H1. rewrite wop_entry_seq in E. lia.
  - eapply IH; eassumption.
Qed.

Lemma ents_length l : forall base, length (ents base l) = length l.
Proof. induction l as [|o l IH]; intros base; [reflexivity|]. cbn. rewrite IH. reflexivity. Qed.

Lemma ents_nth l : forall base (i : nat) d,
  (i < length l)%nat ->
  nth i (ents base l) d = wop_entry (nth i l (WDel [])) (base + 1 + N.of_nat i).
Proof.
  induction l as [|o l IH]; intros base i d H; [cbn in H; lia|].
  destruct i as [|i]; cbn [ents nth].
  - f_equal. lia.
  - rewrite IH by (cbn in H; lia). f_equal. lia.
Qed.

Lemma ents_nodup_seq l : forall base, NoDup (map (fun e : entry => sq e) (ents base l)).
Proof.
  induction l as [|o l IH]; intros base; [constructor|]. cbn [ents map]. constructor; [|apply IH].
  intros H. apply in_map_iff in H. destruct H as (e & He & Hin). apply ents_seq in Hin.
  rewrite wop_entry_seq in He. lia.
Qed.

(** * visibility below a bound depends only on the entries below the bound *)

Lemma newest_rel_ext_le es es' k q o :
  (forall e, sq e <= q -> (In e es <-> In e es')) -> newest_rel es k q o -> newest_rel es' k q o.
Proof.
  intros HE. destruct o as [e|]; cbn [newest_rel].
  - intros (Hin & Hc & Hmax). split; [apply HE; [apply Hc|exact Hin]|]. split; [exact Hc|].
    intros e' He' Ce'. apply Hmax; [|exact Ce']. apply HE; [apply Ce'|exact He'].
  - intros H e' He' Ce'. apply (H e'); [|exact Ce']. apply HE; [apply Ce'|exact He'].
Qed.

Lemma visible_ext_le es es' q k :
  uniq_entries es' ->
  (forall e, sq e <= q -> (In e es <-> In e es')) -> visible es q k = visible es' q k.
Proof.
  intros U HE. rewrite !visible_answer. f_equal. f_equal.
  eapply newest_rel_unique; [exact U| |apply newest_le_rel].
  eapply newest_rel_ext_le; [exact HE|apply newest_le_rel].
Qed.

Lemma visible_bound_le es q q' k :
  uniq_entries es ->
  (forall e, In e es -> sq e <= q' -> sq e <= q) -> q <= q' -> visible es q' k = visible es q k.
Proof.
  intros U HB Hq. rewrite !visible_answer. f_equal. f_equal.
  eapply newest_rel_unique; [exact U|apply newest_le_rel|].
  pose proof (newest_le_rel es k q) as R. destruct (newest_le es k q) as [e|]; cbn [newest_rel] in *.
  - destruct R as (Hin & [Cu Cs] & Hmax). split; [exact Hin|]. split; [split; [exact Cu|lia]|].
    intros e' He' [Cu' Cs']. apply Hmax; [exact He'|]. split; [exact Cu'|]. apply HB; assumption.
  - intros e' He' [Cu' Cs']. apply (R e' He'). split; [exact Cu'|]. apply HB; assumption.
Qed.

(** the map after a list of operations is what is visible in its numbered entries *)
Lemma ents_uniq base l : uniq_entries (ents base l).
Proof. intros e1 e2 H1 H2 _ E. eapply ents_inj; eassumption. Qed.

Lemma visible_ents l : forall k,
  visible (ents 0 l) (len l) k = map_get k (map_apply [] l) /\ map_sorted (map_apply [] l).
Proof.
  induction l as [|o l IH] using rev_ind; intros k.
  - split; [reflexivity|exact I].
  - destruct (IH k) as [_ Sm].
    assert (Hm : forall k0, visible (ents 0 l) (len l) k0 = map_get k0 (map_apply [] l))
      by (intros k0; apply IH).
    unfold map_apply in *. rewrite fold_left_app. cbn [fold_left].
    rewrite len_app. change (len [o]) with 1.
    rewrite (visible_add (ents 0 l) (ents 0 (l ++ [o])) (wop_entry o (len l + 1)) (len l) k).
    + split.
      * destruct o as [k1 v1|k1]; cbn [wop_entry fst ik_user].
        -- rewrite map_get_put, Hm. reflexivity.
        -- rewrite map_get_del by exact Sm. rewrite Hm. reflexivity.
      * destruct o; [apply map_put_sorted|apply map_del_sorted]; exact Sm.
    + intros x Hx. apply ents_seq in Hx. lia.
    + apply ents_uniq.
    + apply wop_entry_seq.
    + intros x. rewrite ents_app. cbn [ents]. rewrite in_app_iff. cbn [In].
      rewrite N.add_0_l. intuition.
Qed.

(** * recency with a growing head source *)

Lemma newer_than_nil y : newer_than [] y = true.
Proof. reflexivity. Qed.

Lemma newer_than_insert e x y :
  newer_than x y = true -> (forall b, In b y -> sq b < sq e) ->
  newer_than (insert_entry e x) y = true.
Proof.
  intros H Hb. apply newer_than_intro. intros a b Ha Hb' EU.
  apply insert_entry_in in Ha. destruct Ha as [->|Ha]; [apply Hb; exact Hb'|].
  eapply newer_than_spec; eassumption.
Qed.

Lemma newer_than_insert_r e x y :
  newer_than x y = true -> (forall a, In a x -> ik_user (fst a) = ik_user (fst e) -> sq e < sq a) ->
  newer_than x (insert_entry e y) = true.
Proof.
  intros H Ha. apply newer_than_intro. intros a b Ha' Hb EU.
  apply insert_entry_in in Hb. destruct Hb as [->|Hb]; [apply Ha; assumption|].
  eapply newer_than_spec; eassumption.
Qed.

Lemma firstn_done {A} (dn todo : list A) :
  firstn (length (dn ++ todo) - length todo) (dn ++ todo) = dn.
Proof.
  rewrite app_length. replace (length dn + length todo - length todo)%nat with (length dn) by lia.
  rewrite firstn_app, Nat.sub_diag, firstn_all. cbn [firstn]. apply app_nil_r.
Qed.

(** * Part 2: the transitions *)

(** change the program counter of one thread *)
Definition upd_pc (s : cstate) (t : tid) (p : pc) : cstate :=
  mkC (c_seq s) (c_mems s) (c_mem s) (c_imm s) (c_tables s) (c_queue s)
      (set_pc (c_threads s) t p) (c_nextmem s).

(** memtable rotation under the mutex *)
Definition rotate (s : cstate) : cstate :=
  mkC (c_seq s) ((c_nextmem s, []) :: c_mems s) (c_nextmem s) (Some (c_mem s))
      (c_tables s) (c_queue s) (c_threads s) (c_nextmem s + 1).

Definition members_of (s : cstate) (take : nat) : list tid := firstn (Nat.max 1 take) (c_queue s).

(** the leader takes the batches of the first writers of the queue *)
Definition form_group (s : cstate) (t : tid) (take : nat) : cstate :=
  let group := batches_of s (members_of s take) in
  mkC (c_seq s) (c_mems s) (c_mem s) (c_imm s) (c_tables s) (c_queue s)
      (set_pc (follow (c_threads s) t group) t (WBeforeWal group (c_seq s) (c_mem s)))
      (c_nextmem s).

(** one insertion of the leader into the memtable it captured *)
Definition ins_step (s : cstate) (t : tid) (g : list (tid * list wop)) (b m : N) (o : wop)
           (r : list wop) (nx : N) : cstate :=
  mkC (c_seq s) (set_mem (c_mems s) m (insert_entry (wop_entry o nx) (mem_of s m))) (c_mem s)
      (c_imm s) (c_tables s) (c_queue s)
      (set_pc (c_threads s) t (WLeading g b m r (nx + 1))) (c_nextmem s).

Definition publish (s : cstate) (g : list (tid * list wop)) (b n : N) : cstate :=
  mkC (b + n) (c_mems s) (c_mem s) (c_imm s) (c_tables s)
      (filter (fun x => negb (existsb (N.eqb x) (map fst g))) (c_queue s))
      (finish (c_threads s) (map fst g)) (c_nextmem s).

Definition install (s : cstate) (i : N) : cstate :=
  mkC (c_seq s) (c_mems s) (c_mem s) None (mem_of s i :: c_tables s) (c_queue s)
      (c_threads s) (c_nextmem s).

Definition imm_some (s : cstate) : bool := match c_imm s with Some _ => true | None => false end.

Lemma cstep_none d s t c : pc_of s t = None -> cstep d s t c = None.
Proof. intros H. unfold cstep. rewrite H. reflexivity. Qed.

Lemma cstep_WQueued d s t c b :
  pc_of s t = Some (WQueued b) ->
  cstep d s t c =
  match c_queue s with
  | h :: _ =>
      if negb (h =? t) then None
      else if ch_rotate c && imm_some s then None
      else Some (form_group (if ch_rotate c then rotate s else s) t (ch_take c))
  | [] => None
  end.
Proof.
  intros H. unfold cstep. rewrite H. unfold form_group, members_of, rotate, imm_some.
  destruct (c_queue s) as [|h q] eqn:Q; [reflexivity|].
  destruct (negb (h =? t)); [reflexivity|].
  destruct (ch_rotate c); destruct (c_imm s); cbn [andb]; try reflexivity.
Qed.

Lemma cstep_WBeforeWal d s t c g b m :
  pc_of s t = Some (WBeforeWal g b m) ->
  cstep d s t c = Some (upd_pc s t (WLeading g b m (ops g) (b + 1))).
Proof. intros H. unfold cstep. rewrite H. reflexivity. Qed.

Lemma cstep_WLeading_nil d s t c g b m nx :
  pc_of s t = Some (WLeading g b m [] nx) ->
  cstep d s t c = Some (upd_pc s t (WPublish g b (nx - 1 - b))).
Proof. intros H. unfold cstep. rewrite H. reflexivity. Qed.

Lemma cstep_WLeading_cons d s t c g b m o r nx :
  pc_of s t = Some (WLeading g b m (o :: r) nx) ->
  cstep d s t c = Some (ins_step s t g b m o r nx).
Proof. intros H. unfold cstep. rewrite H. destruct o; reflexivity. Qed.

Lemma cstep_WPublish d s t c g b n :
  pc_of s t = Some (WPublish g b n) -> cstep d s t c = Some (publish s g b n).
Proof. intros H. unfold cstep. rewrite H. reflexivity. Qed.

Lemma cstep_WFollower d s t c : pc_of s t = Some WFollower -> cstep d s t c = None.
Proof. intros H. unfold cstep. rewrite H. reflexivity. Qed.

Lemma cstep_Done d s t c r : pc_of s t = Some (Done r) -> cstep d s t c = None.
Proof. intros H. unfold cstep. rewrite H. reflexivity. Qed.

Lemma cstep_RStart d s t c k :
  pc_of s t = Some (RStart k) ->
  cstep d s t c =
  Some (upd_pc s t (RCaptured k (c_seq s) (if d then Some (c_mem s) else None) (c_imm s) (c_tables s))).
Proof. intros H. unfold cstep. rewrite H. reflexivity. Qed.

Definition rsrcs (s : cstate) (m : N) (imm : option N) (tabs : list (list entry)) : list (list entry) :=
  mem_of s m :: match imm with Some i => [mem_of s i] | None => [] end ++ tabs.

Lemma cstep_RCaptured d s t c k q m imm tabs :
  pc_of s t = Some (RCaptured k q (Some m) imm tabs) ->
  cstep d s t c = Some (upd_pc s t (Done (Some (lookup_sources (rsrcs s m imm tabs) k q)))).
Proof. intros H. unfold cstep. rewrite H. reflexivity. Qed.

Lemma cstep_FStart d s t c :
  pc_of s t = Some FStart ->
  cstep d s t c =
  Some (upd_pc s t (match c_imm s with None => Done None | Some i => FBuilding i end)).
Proof.
  intros H. unfold cstep. rewrite H. unfold upd_pc. destruct (c_imm s) eqn:I; rewrite <- ?I; reflexivity.
Qed.

Lemma cstep_FBuilding d s t c i :
  pc_of s t = Some (FBuilding i) ->
  cstep d s t c = Some (install (upd_pc s t (Done None)) i).
Proof. intros H. unfold cstep. rewrite H. reflexivity. Qed.

(** * Part 3: the thread / queue / commit-log invariant *)

Definition leading (p : pc) : bool :=
  match p with WBeforeWal _ _ _ | WLeading _ _ _ _ _ | WPublish _ _ _ => true | _ => false end.

Definition flushing (p : pc) : bool :=
  match p with FStart | FBuilding _ => true | _ => false end.

(** the program counters of a thread that is in the writer queue *)
Definition qpc (p : pc) : bool :=
  match p with
  | WQueued _ | WBeforeWal _ _ _ | WLeading _ _ _ _ _ | WPublish _ _ _ | WFollower => true
  | _ => false
  end.

Definition pc_group (p : pc) : list (tid * list wop) :=
  match p with WBeforeWal g _ _ | WLeading g _ _ _ _ | WPublish g _ _ => g | _ => [] end.

Definition group_ok (ths : list (tid * pc)) (t : tid) (g : list (tid * list wop)) : Prop :=
  In t (map fst g) /\ NoDup (map fst g) /\
  forall t', In t' (map fst g) -> t' = t \/ pcl ths t' = Some WFollower.

Definition leader_ok (cs cm : N) (ths : list (tid * pc)) (t : tid) (p : pc) : Prop :=
  match p with
  | WBeforeWal g b m => b = cs /\ m = cm /\ group_ok ths t g
  | WLeading g b m todo nx =>
      b = cs /\ m = cm /\ group_ok ths t g /\
      exists dn, ops g = dn ++ todo /\ nx = b + 1 + len dn
  | WPublish g b n => b = cs /\ group_ok ths t g /\ n = len (ops g)
  | _ => True
  end.

(** the status of a submitted batch: queued, in the group of the leader, or in the commit log *)
Definition wstat (log : list (tid * list wop)) (ths : list (tid * pc)) (t : tid) (b : list wop) : Prop :=
  pcl ths t = Some (WQueued b)
  \/ (exists tl p, pcl ths tl = Some p /\ leading p = true /\ In (t, b) (pc_group p))
  \/ (In (t, b) log /\ pcl ths t = Some (Done None)).

Record TInv (W log : list (tid * list wop)) (cs cm : N) (qu : list tid)
       (ths : list (tid * pc)) : Prop := mkTInv {
  t_seq : cs = len (ops log);
  t_queue : NoDup qu;
  t_qpc : forall t, In t qu -> exists p, pcl ths t = Some p /\ qpc p = true;
  t_head : forall t p, pcl ths t = Some p -> leading p = true -> exists rest, qu = t :: rest;
  t_leader : forall t p, pcl ths t = Some p -> leader_ok cs cm ths t p;
  t_follow : forall t, pcl ths t = Some WFollower ->
             exists tl p, pcl ths tl = Some p /\ leading p = true /\ In t (map fst (pc_group p));
  t_flush2 : forall t1 t2 p1 p2, pcl ths t1 = Some p1 -> pcl ths t2 = Some p2 ->
             flushing p1 = true -> flushing p2 = true -> t1 = t2;
  t_w : forall t b, In (t, b) W -> wstat log ths t b;
  t_lognodup : NoDup (map fst log);
  t_logW : forall t b, In (t, b) log -> In (t, b) W;
  t_groupW : forall tl p t b, pcl ths tl = Some p -> In (t, b) (pc_group p) -> In (t, b) W;
  t_logdone : forall t, In t (map fst log) -> pcl ths t = Some (Done None);
  t_Wnodup : NoDup (map fst W);
  t_queuedW : forall t b, pcl ths t = Some (WQueued b) -> In (t, b) W
}.

Lemma in_map_fst {A B} (x : A) (y : B) l : In (x, y) l -> In x (map fst l).
Proof. intros H. apply in_map_iff. exists (x, y). split; [reflexivity|exact H]. Qed.

Lemma leading_group_nil p : leading p = false -> pc_group p = [].
Proof. destruct p; cbn; intros H; try reflexivity; discriminate. Qed.

(** at most one leader *)
Lemma leader_unique W log cs cm qu ths t1 t2 p1 p2 :
  TInv W log cs cm qu ths -> pcl ths t1 = Some p1 -> pcl ths t2 = Some p2 ->
  leading p1 = true -> leading p2 = true -> t1 = t2.
Proof.
  intros T H1 H2 L1 L2. destruct (t_head _ _ _ _ _ _ T _ _ H1 L1) as [r1 E1].
  destruct (t_head _ _ _ _ _ _ T _ _ H2 L2) as [r2 E2]. congruence.
Qed.

(** a thread of [W] has a program counter *)
Lemma W_has_pc W log cs cm qu ths t b :
  TInv W log cs cm qu ths -> In (t, b) W -> exists p, pcl ths t = Some p.
Proof.
  intros T H. destruct (t_w _ _ _ _ _ _ T _ _ H) as [A|[(tl & p & Hp & L & G)|[_ C]]].
  - eexists. exact A.
  - pose proof (t_leader _ _ _ _ _ _ T _ _ Hp) as LO.
    assert (GO : group_ok ths tl (pc_group p)).
    { destruct p; cbn in L; try discriminate; cbn [leader_ok pc_group] in *; tauto. }
    destruct GO as (_ & _ & F). destruct (F t (in_map_fst _ _ _ G)) as [->|Hf].
    + eexists. exact Hp.
    + eexists. exact Hf.
  - eexists. exact C.
Qed.

(** * a step that only changes the program counter of [t] within its class *)
Lemma tinv_upd W log cs cm qu ths t p p' :
  TInv W log cs cm qu ths ->
  pcl ths t = Some p ->
  leading p' = leading p ->
  pc_group p' = pc_group p ->
  qpc p' = qpc p ->
  (flushing p' = true -> flushing p = true) ->
  p' <> WFollower -> p <> WFollower ->
  (forall b, p' <> WQueued b) -> (forall b, p <> WQueued b) ->
  (forall r, p <> Done r) ->
  leader_ok cs cm (set_pc ths t p') t p' ->
  TInv W log cs cm qu (set_pc ths t p').
Proof.
  intros T Hp HL HG HQ HF NF' NF NQ' NQ ND LO.
  assert (SAME : pcl (set_pc ths t p') t = Some p') by (eapply pcl_set_pc_same; exact Hp).
  assert (OTHER : forall x, x <> t -> pcl (set_pc ths t p') x = pcl ths x)
    by (intros x Hx; apply pcl_set_pc_other; exact Hx).
  assert (INV : forall x px, pcl (set_pc ths t p') x = Some px ->
                             (x = t /\ px = p') \/ (x <> t /\ pcl ths x = Some px)).
  { intros x px H. apply pcl_set_pc_some in H. tauto. }
  assert (FOL : forall x, pcl ths x = Some WFollower -> pcl (set_pc ths t p') x = Some WFollower).
  { intros x H. rewrite OTHER; [exact H|]. intros ->. congruence. }
  assert (GOK : forall x g, group_ok ths x g -> group_ok (set_pc ths t p') x g).
  { intros x g (G1 & G2 & G3). split; [exact G1|]. split; [exact G2|].
    intros t' Ht'. destruct (G3 t' Ht') as [E|E]; [left; exact E|right; apply FOL; exact E]. }
  constructor.
  - apply (t_seq _ _ _ _ _ _ T).
  - apply (t_queue _ _ _ _ _ _ T).
  - intros x Hx. destruct (t_qpc _ _ _ _ _ _ T x Hx) as (px & Hpx & Qx).
    destruct (N.eq_dec x t) as [->|Ne].
    + exists p'. split; [exact SAME|]. rewrite HQ. congruence.
    + exists px. rewrite OTHER by exact Ne. split; assumption.
  - intros x px H L. destruct (INV _ _ H) as [[-> ->]|[Ne H']].
    + eapply (t_head _ _ _ _ _ _ T); [exact Hp|]. rewrite <- HL. exact L.
    + eapply (t_head _ _ _ _ _ _ T); eassumption.
  - intros x px H. destruct (INV _ _ H) as [[-> ->]|[Ne H']]; [exact LO|].
    pose proof (t_leader _ _ _ _ _ _ T _ _ H') as L0.
    destruct px; cbn [leader_ok] in *; try exact I.
    + destruct L0 as (A & B & C & D). split; [exact A|]. split; [exact B|].
      split; [apply GOK; exact C|exact D].
    + destruct L0 as (A & B & C). split; [exact A|]. split; [exact B|]. apply GOK. exact C.
    + destruct L0 as (A & B & C). split; [exact A|]. split; [apply GOK; exact B|exact C].
  - intros x H. destruct (INV _ _ H) as [[-> E]|[Ne H']]; [congruence|].
    destruct (t_follow _ _ _ _ _ _ T x H') as (tl & pl & Hl & Ll & Gl).
    destruct (N.eq_dec tl t) as [->|Nl].
    + exists t, p'. split; [exact SAME|]. rewrite HL, HG.
      assert (pl = p) by congruence. subst pl. split; assumption.
    + exists tl, pl. rewrite OTHER by exact Nl. split; [exact Hl|]. split; assumption.
  - intros t1 t2 p1 p2 H1 H2 F1 F2.
    destruct (INV _ _ H1) as [[-> ->]|[N1 H1']], (INV _ _ H2) as [[-> ->]|[N2 H2']].
    + reflexivity.
    + eapply (t_flush2 _ _ _ _ _ _ T); [exact Hp|exact H2'|auto|exact F2].
    + eapply (t_flush2 _ _ _ _ _ _ T); [exact H1'|exact Hp|exact F1|auto].
    + eapply (t_flush2 _ _ _ _ _ _ T); eassumption.
  - intros x b Hx. destruct (t_w _ _ _ _ _ _ T x b Hx) as [A|[(tl & pl & Hl & Ll & Gl)|[C1 C2]]].
    + left. rewrite OTHER; [exact A|]. intros ->. rewrite Hp in A. inversion A. eapply NQ. eassumption.
    + right. left. destruct (N.eq_dec tl t) as [->|Nl].
      * exists t, p'. split; [exact SAME|]. rewrite HL, HG.
        assert (pl = p) by congruence. subst pl. split; assumption.
      * exists tl, pl. rewrite OTHER by exact Nl. split; [exact Hl|]. split; assumption.
    + right. right. split; [exact C1|]. rewrite OTHER; [exact C2|].
      intros ->. rewrite Hp in C2. inversion C2. eapply ND. eassumption.
  - apply (t_lognodup _ _ _ _ _ _ T).
  - apply (t_logW _ _ _ _ _ _ T).
  - intros tl pl x b H G. destruct (INV _ _ H) as [[-> ->]|[Ne H']].
    + rewrite HG in G. eapply (t_groupW _ _ _ _ _ _ T); eassumption.
    + eapply (t_groupW _ _ _ _ _ _ T); eassumption.
  - intros x Hx. pose proof (t_logdone _ _ _ _ _ _ T x Hx) as D.
    rewrite OTHER; [exact D|]. intros ->. rewrite Hp in D. inversion D. eapply ND. eassumption.
  - apply (t_Wnodup _ _ _ _ _ _ T).
  - intros x b H. destruct (INV _ _ H) as [[-> E]|[Ne H']].
    + exfalso. eapply NQ'. symmetry. exact E.
    + eapply (t_queuedW _ _ _ _ _ _ T). exact H'.
Qed.

(** * group formation by the head of the queue *)
Lemma tinv_group W log cs cm cm' qu ths t b0 rest take g :
  TInv W log cs cm qu ths ->
  qu = t :: rest ->
  pcl ths t = Some (WQueued b0) ->
  (forall x bx, In (x, bx) g <-> In x (firstn (Nat.max 1 take) qu) /\ pcl ths x = Some (WQueued bx)) ->
  NoDup (map fst g) ->
  TInv W log cs cm' qu (set_pc (follow ths t g) t (WBeforeWal g cs cm')).
Proof.
  intros T Hq Hp HG NDg.
  set (ths1 := follow ths t g). set (p' := WBeforeWal g cs cm').
  assert (NOLEAD : forall x px, pcl ths x = Some px -> leading px = false).
  { intros x px H. destruct (leading px) eqn:L; [|reflexivity]. exfalso.
    destruct (t_head _ _ _ _ _ _ T _ _ H L) as [r E]. rewrite Hq in E. inversion E. subst x.
    rewrite Hp in H. inversion H. subst px. discriminate. }
  assert (NOFOL : forall x, pcl ths x <> Some WFollower).
  { intros x H. destruct (t_follow _ _ _ _ _ _ T x H) as (tl & pl & Hl & Ll & _).
    rewrite (NOLEAD _ _ Hl) in Ll. discriminate. }
  assert (Tg : In (t, b0) g).
  { apply HG. split; [|exact Hp]. rewrite Hq. destruct (Nat.max 1 take) eqn:M; [lia|]. left. reflexivity. }
  assert (P1 : pcl ths1 t = Some (WQueued b0)) by (unfold ths1; rewrite pcl_follow_self; exact Hp).
  assert (SAME : pcl (set_pc ths1 t p') t = Some p') by (eapply pcl_set_pc_same; exact P1).
  assert (MEMB : forall x, x <> t -> In x (map fst g) ->
                           pcl (set_pc ths1 t p') x = Some WFollower /\ exists bx, pcl ths x = Some (WQueued bx)).
  { intros x Ne Hx. rewrite pcl_set_pc_other by exact Ne.
    apply in_map_iff in Hx. destruct Hx as ([x' bx] & E & Hin). cbn in E. subst x'.
    pose proof (proj1 (HG _ _) Hin) as [_ Px]. split; [|exists bx; exact Px].
    unfold ths1. eapply pcl_follow_in; [eapply in_map_fst; exact Hin|exact Ne|exact Px]. }
  assert (OUT : forall x, x <> t -> ~ In x (map fst g) -> pcl (set_pc ths1 t p') x = pcl ths x).
  { intros x Ne Hx. rewrite pcl_set_pc_other by exact Ne. unfold ths1. apply pcl_follow_out. exact Hx. }
  assert (INV : forall x px, pcl (set_pc ths1 t p') x = Some px ->
            (x = t /\ px = p') \/ (x <> t /\ In x (map fst g) /\ px = WFollower)
            \/ (x <> t /\ ~ In x (map fst g) /\ pcl ths x = Some px)).
  { intros x px H. destruct (N.eq_dec x t) as [->|Ne].
    - left. split; [reflexivity|]. congruence.
    - right. destruct (in_dec N.eq_dec x (map fst g)) as [Hi|Hn].
      + left. destruct (MEMB x Ne Hi) as [E _]. split; [exact Ne|]. split; [exact Hi|]. congruence.
      + right. rewrite OUT in H by assumption. tauto. }
  assert (GOK : group_ok (set_pc ths1 t p') t g).
  { split; [eapply in_map_fst; exact Tg|]. split; [exact NDg|]. intros x Hx.
    destruct (N.eq_dec x t) as [->|Ne]; [left; reflexivity|right]. apply MEMB; assumption. }
  constructor.
  - apply (t_seq _ _ _ _ _ _ T).
  - apply (t_queue _ _ _ _ _ _ T).
  - intros x Hx. destruct (t_qpc _ _ _ _ _ _ T x Hx) as (px & Hpx & Qx).
    destruct (N.eq_dec x t) as [->|Ne]; [exists p'; split; [exact SAME|reflexivity]|].
    destruct (in_dec N.eq_dec x (map fst g)) as [Hi|Hn].
    + exists WFollower. split; [apply MEMB; assumption|reflexivity].
    + exists px. rewrite OUT by assumption. split; assumption.
  - intros x px H L. destruct (INV _ _ H) as [[-> ->]|[(Ne & Hi & ->)|(Ne & Hn & H')]].
    + exists rest. exact Hq.
    + discriminate.
    + rewrite (NOLEAD _ _ H') in L. discriminate.
  - intros x px H. destruct (INV _ _ H) as [[-> ->]|[(Ne & Hi & ->)|(Ne & Hn & H')]].
    + cbn [leader_ok p']. split; [reflexivity|]. split; [reflexivity|exact GOK].
    + exact I.
    + pose proof (NOLEAD _ _ H') as L. destruct px; cbn in L; try discriminate; exact I.
  - intros x H. destruct (INV _ _ H) as [[-> E]|[(Ne & Hi & _)|(Ne & Hn & H')]].
    + discriminate.
    + exists t, p'. split; [exact SAME|]. split; [reflexivity|exact Hi].
    + exfalso. eapply NOFOL. exact H'.
  - intros t1 t2 p1 p2 H1 H2 F1 F2.
    destruct (INV _ _ H1) as [[-> ->]|[(N1 & I1 & ->)|(N1 & O1 & H1')]]; try discriminate.
    destruct (INV _ _ H2) as [[-> ->]|[(N2 & I2 & ->)|(N2 & O2 & H2')]]; try discriminate.
    eapply (t_flush2 _ _ _ _ _ _ T); eassumption.
  - intros x b Hx. destruct (t_w _ _ _ _ _ _ T x b Hx) as [A|[(tl & pl & Hl & Ll & Gl)|[C1 C2]]].
    + destruct (in_dec N.eq_dec x (firstn (Nat.max 1 take) qu)) as [Hi|Hn].
      * right. left. exists t, p'. split; [exact SAME|]. split; [reflexivity|].
        cbn [pc_group p']. apply HG. split; assumption.
      * left. rewrite OUT; [exact A| |].
        -- intros ->. apply Hn. rewrite Hq. destruct (Nat.max 1 take) eqn:M; [lia|]. left. reflexivity.
        -- intros Hm. apply in_map_iff in Hm. destruct Hm as ([x' bx] & E & Hin). cbn in E. subst x'.
           apply HG in Hin. tauto.
    + rewrite (NOLEAD _ _ Hl) in Ll. discriminate.
    + right. right. split; [exact C1|]. rewrite OUT; [exact C2| |].
      * intros ->. congruence.
      * intros Hm. apply in_map_iff in Hm. destruct Hm as ([x' bx] & E & Hin). cbn in E. subst x'.
        apply HG in Hin. destruct Hin as [_ Hin]. congruence.
  - apply (t_lognodup _ _ _ _ _ _ T).
  - apply (t_logW _ _ _ _ _ _ T).
  - intros tl pl x b H G. destruct (INV _ _ H) as [[-> ->]|[(Ne & Hi & ->)|(Ne & Hn & H')]].
    + cbn [pc_group p'] in G. apply HG in G. destruct G as [_ G].
      eapply (t_queuedW _ _ _ _ _ _ T). exact G.
    + destruct G.
    + eapply (t_groupW _ _ _ _ _ _ T); eassumption.
  - intros x Hx. pose proof (t_logdone _ _ _ _ _ _ T x Hx) as D. rewrite OUT; [exact D| |].
    + intros ->. congruence.
    + intros Hm. apply in_map_iff in Hm. destruct Hm as ([x' bx] & E & Hin). cbn in E. subst x'.
      apply HG in Hin. destruct Hin as [_ Hin]. congruence.
  - apply (t_Wnodup _ _ _ _ _ _ T).
  - intros x b H. destruct (INV _ _ H) as [[-> E]|[(Ne & Hi & E)|(Ne & Hn & H')]].
    + discriminate.
    + discriminate.
    + eapply (t_queuedW _ _ _ _ _ _ T). exact H'.
Qed.

Lemma NoDup_app_intro {A} (a b : list A) :
  NoDup a -> NoDup b -> (forall x, In x a -> In x b -> False) -> NoDup (a ++ b).
Proof.
  induction a as [|x a IH]; intros Na Nb D; [exact Nb|].
  inversion Na as [|? ? Hx Na']. subst. cbn [app]. constructor.
  - intros H. apply in_app_or in H. destruct H as [H|H]; [contradiction|].
    apply (D x); [left; reflexivity|exact H].
  - apply IH; [exact Na'|exact Nb|]. intros y Hy. apply D. right. exact Hy.
Qed.

Lemma leader_ok_nonleading cs cm ths t p : leading p = false -> leader_ok cs cm ths t p.
Proof. destruct p; cbn; intros H; try exact I; discriminate. Qed.

Lemma leader_ok_mono cs cm ths ths' t p :
  (forall x, pcl ths x = Some WFollower -> pcl ths' x = Some WFollower) ->
  leader_ok cs cm ths t p -> leader_ok cs cm ths' t p.
Proof.
  intros F.
  assert (GOK : forall g, group_ok ths t g -> group_ok ths' t g).
  { intros g (G1 & G2 & G3). split; [exact G1|]. split; [exact G2|].
    intros t' Ht'. destruct (G3 t' Ht') as [E|E]; [left; exact E|right; apply F; exact E]. }
  destruct p; cbn [leader_ok]; try (intros; exact I).
  - intros (A & B & C & D). split; [exact A|]. split; [exact B|]. split; [apply GOK; exact C|exact D].
  - intros (A & B & C). split; [exact A|]. split; [exact B|]. apply GOK. exact C.
  - intros (A & B & C). split; [exact A|]. split; [apply GOK; exact B|exact C].
Qed.

(** * publication *)
Lemma tinv_publish W log cs cm qu ths t g b n :
  TInv W log cs cm qu ths ->
  pcl ths t = Some (WPublish g b n) ->
  TInv W (log ++ g) (b + n) cm
       (filter (fun x => negb (existsb (N.eqb x) (map fst g))) qu)
       (finish ths (map fst g)).
Proof.
  intros T Hp. set (ms := map fst g). set (ths' := finish ths ms).
  pose proof (t_leader _ _ _ _ _ _ T _ _ Hp) as LO. cbn [leader_ok] in LO.
  destruct LO as (Eb & (Gt & Gnd & Gf) & En).
  assert (MPC : forall x, In x ms -> exists px, pcl ths x = Some px /\ (x = t \/ px = WFollower)).
  { intros x Hx. destruct (Gf x Hx) as [->|E]; [exists (WPublish g b n); split; [exact Hp|left; reflexivity]|].
    exists WFollower. split; [exact E|right; reflexivity]. }
  assert (IN : forall x, In x ms -> pcl ths' x = Some (Done None)).
  { intros x Hx. destruct (MPC x Hx) as (px & Hpx & _). unfold ths'. eapply pcl_finish_in; eassumption. }
  assert (OUT : forall x, ~ In x ms -> pcl ths' x = pcl ths x).
  { intros x Hx. unfold ths'. apply pcl_finish_out. exact Hx. }
  assert (INV : forall x px, pcl ths' x = Some px ->
                 (In x ms /\ px = Done None) \/ (~ In x ms /\ pcl ths x = Some px)).
  { intros x px H. destruct (in_dec N.eq_dec x ms) as [Hi|Hn].
    - left. split; [exact Hi|]. rewrite (IN x Hi) in H. congruence.
    - right. split; [exact Hn|]. rewrite OUT in H by exact Hn. exact H. }
  assert (NOLEAD : forall x px, ~ In x ms -> pcl ths x = Some px -> leading px = false).
  { intros x px Hn H. destruct (leading px) eqn:L; [|reflexivity]. exfalso. apply Hn.
    assert (x = t) by (eapply leader_unique; [exact T|exact H|exact Hp|exact L|reflexivity]).
    subst x. exact Gt. }
  assert (NOFOL : forall x, ~ In x ms -> pcl ths x <> Some WFollower).
  { intros x Hn H. destruct (t_follow _ _ _ _ _ _ T x H) as (tl & pl & Hl & Ll & Gl).
    assert (tl = t) by (eapply leader_unique; [exact T|exact Hl|exact Hp|exact Ll|reflexivity]).
    subst tl. assert (pl = WPublish g b n) by congruence. subst pl. apply Hn. exact Gl. }
  assert (NOQ : forall x bx, In x ms -> pcl ths x <> Some (WQueued bx)).
  { intros x bx Hx H. destruct (MPC x Hx) as (px & Hpx & [-> | ->]); congruence. }
  assert (FILT : forall x, In x (filter (fun x => negb (existsb (N.eqb x) ms)) qu) <-> In x qu /\ ~ In x ms).
  { intros x. rewrite filter_In. rewrite negb_true_iff. split; intros [A B]; (split; [exact A|]).
    - intros Hi. assert (existsb (N.eqb x) ms = true); [|congruence].
      apply existsb_exists. exists x. split; [exact Hi|apply N.eqb_refl].
    - destruct (existsb (N.eqb x) ms) eqn:E; [|reflexivity]. exfalso. apply B.
      apply existsb_exists in E. destruct E as (y & Hy & E). apply N.eqb_eq in E. subst. exact Hy. }
  constructor.
  - rewrite ops_app, len_app. rewrite <- (t_seq _ _ _ _ _ _ T). lia.
  - apply NoDup_filter. apply (t_queue _ _ _ _ _ _ T).
  - intros x Hx. apply FILT in Hx. destruct Hx as [Hq Hn].
    rewrite OUT by exact Hn. apply (t_qpc _ _ _ _ _ _ T). exact Hq.
  - intros x px H L. destruct (INV _ _ H) as [[_ ->]|[Hn H']]; [discriminate|].
    rewrite (NOLEAD _ _ Hn H') in L. discriminate.
  - intros x px H. destruct (INV _ _ H) as [[_ ->]|[Hn H']]; [exact I|].
    apply leader_ok_nonleading. eapply NOLEAD; eassumption.
  - intros x H. destruct (INV _ _ H) as [[_ E]|[Hn H']]; [discriminate|].
    exfalso. eapply NOFOL; eassumption.
  - intros t1 t2 p1 p2 H1 H2 F1 F2.
    destruct (INV _ _ H1) as [[_ ->]|[N1 H1']]; [discriminate|].
    destruct (INV _ _ H2) as [[_ ->]|[N2 H2']]; [discriminate|].
    eapply (t_flush2 _ _ _ _ _ _ T); eassumption.
  - intros x bx Hx. destruct (t_w _ _ _ _ _ _ T x bx Hx) as [A|[(tl & pl & Hl & Ll & Gl)|[C1 C2]]].
    + left. rewrite OUT; [exact A|]. intros Hi. eapply NOQ; eassumption.
    + right. right.
      assert (tl = t) by (eapply leader_unique; [exact T|exact Hl|exact Hp|exact Ll|reflexivity]).
      subst tl. assert (pl = WPublish g b n) by congruence. subst pl. cbn [pc_group] in Gl.
      split; [apply in_or_app; right; exact Gl|]. apply IN. eapply in_map_fst. exact Gl.
    + right. right. split; [apply in_or_app; left; exact C1|].
      destruct (in_dec N.eq_dec x ms) as [Hi|Hn]; [apply IN; exact Hi|rewrite OUT by exact Hn; exact C2].
  - rewrite map_app. apply NoDup_app_intro; [apply (t_lognodup _ _ _ _ _ _ T)|exact Gnd|].
    intros x H1 H2. pose proof (t_logdone _ _ _ _ _ _ T x H1) as D.
    destruct (MPC x H2) as (px & Hpx & [-> | ->]); congruence.
  - intros x bx H. apply in_app_or in H. destruct H as [H|H].
    + eapply (t_logW _ _ _ _ _ _ T). exact H.
    + eapply (t_groupW _ _ _ _ _ _ T); [exact Hp|exact H].
  - intros tl pl x bx H G. destruct (INV _ _ H) as [[_ ->]|[Hn H']]; [destruct G|].
    eapply (t_groupW _ _ _ _ _ _ T); eassumption.
  - intros x Hx. rewrite map_app in Hx. apply in_app_or in Hx. destruct Hx as [Hx|Hx].
    + pose proof (t_logdone _ _ _ _ _ _ T x Hx) as D.
      destruct (in_dec N.eq_dec x ms) as [Hi|Hn]; [apply IN; exact Hi|rewrite OUT by exact Hn; exact D].
    + apply IN. exact Hx.
  - apply (t_Wnodup _ _ _ _ _ _ T).
  - intros x bx H. destruct (INV _ _ H) as [[_ E]|[Hn H']]; [discriminate|].
    eapply (t_queuedW _ _ _ _ _ _ T). exact H'.
Qed.

(** * spawning *)
Lemma tinv_spawn_w W log cs cm qu ths t b :
  TInv W log cs cm qu ths -> pcl ths t = None ->
  TInv ((t, b) :: W) log cs cm (qu ++ [t]) ((t, WQueued b) :: ths).
Proof.
  intros T Hn. set (ths' := (t, WQueued b) :: ths).
  assert (SAME : pcl ths' t = Some (WQueued b)) by (unfold ths'; rewrite pcl_cons, N.eqb_refl; reflexivity).
  assert (OTHER : forall x, x <> t -> pcl ths' x = pcl ths x).
  { intros x Hx. unfold ths'. rewrite pcl_cons. destruct (t =? x) eqn:E; [|reflexivity].
    apply N.eqb_eq in E. congruence. }
  assert (OLD : forall x px, pcl ths x = Some px -> x <> t /\ pcl ths' x = Some px).
  { intros x px H. assert (x <> t) by (intros ->; congruence). split; [assumption|].
    rewrite OTHER by assumption. exact H. }
  assert (INV : forall x px, pcl ths' x = Some px ->
                             (x = t /\ px = WQueued b) \/ (x <> t /\ pcl ths x = Some px)).
  { intros x px H. destruct (N.eq_dec x t) as [->|Ne]; [left; split; [reflexivity|congruence]|].
    right. rewrite OTHER in H by exact Ne. tauto. }
  constructor.
  - apply (t_seq _ _ _ _ _ _ T).
  - apply NoDup_app_intro; [apply (t_queue _ _ _ _ _ _ T)|constructor; [intros []|constructor]|].
    intros x H1 [<-|[]]. destruct (t_qpc _ _ _ _ _ _ T t H1) as (px & Hpx & _). congruence.
  - intros x Hx. apply in_app_or in Hx. destruct Hx as [Hx|[<-|[]]].
    + destruct (t_qpc _ _ _ _ _ _ T x Hx) as (px & Hpx & Qx). exists px.
      split; [apply (OLD _ _ Hpx)|exact Qx].
    + exists (WQueued b). split; [exact SAME|reflexivity].
  - intros x px H L. destruct (INV _ _ H) as [[-> ->]|[Ne H']]; [discriminate|].
    destruct (t_head _ _ _ _ _ _ T _ _ H' L) as [rest E]. exists (rest ++ [t]). rewrite E. reflexivity.
  - intros x px H. destruct (INV _ _ H) as [[-> ->]|[Ne H']]; [exact I|].
    eapply leader_ok_mono; [|apply (t_leader _ _ _ _ _ _ T); exact H'].
    intros y Hy. apply (OLD _ _ Hy).
  - intros x H. destruct (INV _ _ H) as [[-> E]|[Ne H']]; [discriminate|].
    destruct (t_follow _ _ _ _ _ _ T x H') as (tl & pl & Hl & Ll & Gl).
    exists tl, pl. split; [apply (OLD _ _ Hl)|]. split; assumption.
  - intros t1 t2 p1 p2 H1 H2 F1 F2.
    destruct (INV _ _ H1) as [[-> ->]|[N1 H1']]; [discriminate|].
    destruct (INV _ _ H2) as [[-> ->]|[N2 H2']]; [discriminate|].
    eapply (t_flush2 _ _ _ _ _ _ T); eassumption.
  - intros x bx [Hx|Hx].
    + inversion Hx. subst. left. exact SAME.
    + destruct (t_w _ _ _ _ _ _ T x bx Hx) as [A|[(tl & pl & Hl & Ll & Gl)|[C1 C2]]].
      * left. apply (OLD _ _ A).
      * right. left. exists tl, pl. split; [apply (OLD _ _ Hl)|]. split; assumption.
      * right. right. split; [exact C1|apply (OLD _ _ C2)].
  - apply (t_lognodup _ _ _ _ _ _ T).
  - intros x bx H. right. eapply (t_logW _ _ _ _ _ _ T). exact H.
  - intros tl pl x bx H G. destruct (INV _ _ H) as [[-> ->]|[Ne H']]; [destruct G|].
    right. eapply (t_groupW _ _ _ _ _ _ T); eassumption.
  - intros x Hx. apply (OLD _ _ (t_logdone _ _ _ _ _ _ T x Hx)).
  - cbn [map fst]. constructor; [|apply (t_Wnodup _ _ _ _ _ _ T)].
    intros H. apply in_map_iff in H. destruct H as ([x bx] & E & Hin). cbn in E. subst x.
    destruct (W_has_pc _ _ _ _ _ _ _ _ T Hin) as [px Hpx]. congruence.
  - intros x bx H. destruct (INV _ _ H) as [[-> E]|[Ne H']].
    + inversion E. left. reflexivity.
    + right. eapply (t_queuedW _ _ _ _ _ _ T). exact H'.
Qed.

Lemma tinv_spawn_o W log cs cm qu ths t p0 :
  TInv W log cs cm qu ths -> pcl ths t = None ->
  leading p0 = false -> p0 <> WFollower -> (forall b, p0 <> WQueued b) ->
  (flushing p0 = true -> forall x px, pcl ths x = Some px -> flushing px = false) ->
  TInv W log cs cm qu ((t, p0) :: ths).
Proof.
  intros T Hn L0 NF NQ FL. set (ths' := (t, p0) :: ths).
  assert (SAME : pcl ths' t = Some p0) by (unfold ths'; rewrite pcl_cons, N.eqb_refl; reflexivity).
  assert (OTHER : forall x, x <> t -> pcl ths' x = pcl ths x).
  { intros x Hx. unfold ths'. rewrite pcl_cons. destruct (t =? x) eqn:E; [|reflexivity].
    apply N.eqb_eq in E. congruence. }
  assert (OLD : forall x px, pcl ths x = Some px -> x <> t /\ pcl ths' x = Some px).
  { intros x px H. assert (x <> t) by (intros ->; congruence). split; [assumption|].
    rewrite OTHER by assumption. exact H. }
  assert (INV : forall x px, pcl ths' x = Some px ->
                             (x = t /\ px = p0) \/ (x <> t /\ pcl ths x = Some px)).
  { intros x px H. destruct (N.eq_dec x t) as [->|Ne]; [left; split; [reflexivity|congruence]|].
    right. rewrite OTHER in H by exact Ne. tauto. }
  constructor.
  - apply (t_seq _ _ _ _ _ _ T).
  - apply (t_queue _ _ _ _ _ _ T).
  - intros x Hx. destruct (t_qpc _ _ _ _ _ _ T x Hx) as (px & Hpx & Qx). exists px.
    split; [apply (OLD _ _ Hpx)|exact Qx].
  - intros x px H L. destruct (INV _ _ H) as [[-> ->]|[Ne H']]; [congruence|].
    eapply (t_head _ _ _ _ _ _ T); eassumption.
  - intros x px H. destruct (INV _ _ H) as [[-> ->]|[Ne H']]; [apply leader_ok_nonleading; exact L0|].
    eapply leader_ok_mono; [|apply (t_leader _ _ _ _ _ _ T); exact H'].
    intros y Hy. apply (OLD _ _ Hy).
  - intros x H. destruct (INV _ _ H) as [[-> E]|[Ne H']]; [congruence|].
    destruct (t_follow _ _ _ _ _ _ T x H') as (tl & pl & Hl & Ll & Gl).
    exists tl, pl. split; [apply (OLD _ _ Hl)|]. split; assumption.
  - intros t1 t2 p1 p2 H1 H2 F1 F2.
    destruct (INV _ _ H1) as [[-> ->]|[N1 H1']], (INV _ _ H2) as [[-> ->]|[N2 H2']].
    + reflexivity.
    + rewrite (FL F1 _ _ H2') in F2. discriminate.
    + rewrite (FL F2 _ _ H1') in F1. discriminate.
    + eapply (t_flush2 _ _ _ _ _ _ T); eassumption.
  - intros x bx Hx.
    destruct (t_w _ _ _ _ _ _ T x bx Hx) as [A|[(tl & pl & Hl & Ll & Gl)|[C1 C2]]].
    + left. apply (OLD _ _ A).
    + right. left. exists tl, pl. split; [apply (OLD _ _ Hl)|]. split; assumption.
    + right. right. split; [exact C1|apply (OLD _ _ C2)].
  - apply (t_lognodup _ _ _ _ _ _ T).
  - apply (t_logW _ _ _ _ _ _ T).
  - intros tl pl x bx H G. destruct (INV _ _ H) as [[-> ->]|[Ne H']].
    + rewrite (leading_group_nil _ L0) in G. destruct G.
    + eapply (t_groupW _ _ _ _ _ _ T); eassumption.
  - intros x Hx. apply (OLD _ _ (t_logdone _ _ _ _ _ _ T x Hx)).
  - apply (t_Wnodup _ _ _ _ _ _ T).
  - intros x bx H. destruct (INV _ _ H) as [[-> E]|[Ne H']].
    + exfalso. eapply NQ. symmetry. exact E.
    + eapply (t_queuedW _ _ _ _ _ _ T). exact H'.
Qed.

(** * Part 4: the memory invariant *)

(** the operations the leader has already inserted *)
Definition pc_done (p : pc) : list wop :=
  match p with
  | WLeading g b m todo nx => firstn (length (ops g) - length todo) (ops g)
  | WPublish g b n => ops g
  | _ => []
  end.

Definition inflightl (qu : list tid) (ths : list (tid * pc)) : list wop :=
  match qu with
  | h :: _ => match pcl ths h with Some p => pc_done p | None => [] end
  | [] => []
  end.

Definition inflight (s : cstate) : list wop := inflightl (c_queue s) (c_threads s).

Definition rtail (s : cstate) (imm : option N) (tabs : list (list entry)) : list (list entry) :=
  match imm with Some i => [mem_of s i] | None => [] end ++ tabs.

Lemma rsrcs_eq s m imm tabs : rsrcs s m imm tabs = mem_of s m :: rtail s imm tabs.
Proof. reflexivity. Qed.

Definition gchain (s : cstate) : list (list entry) := rsrcs s (c_mem s) (c_imm s) (c_tables s).

Definition reader_ok (s : cstate) (q m : N) (imm : option N) (tabs : list (list entry)) : Prop :=
  q <= c_seq s /\ m < c_nextmem s /\
  (forall i, imm = Some i -> i < c_nextmem s /\ i <> c_mem s) /\
  forallb sorted_entries tabs = true /\
  recency_ok (rsrcs s m imm tabs) = true /\
  (forall e, In e (concat tabs) -> In e (all_centries s)) /\
  (forall e, In e (all_centries s) -> sq e <= q -> In e (concat (rsrcs s m imm tabs))).

Record MInv (log : list (tid * list wop)) (s : cstate) : Prop := mkMInv {
  m_ids : forall id, In id (map fst (c_mems s)) -> id < c_nextmem s;
  m_nodup : NoDup (map fst (c_mems s));
  m_mem : In (c_mem s) (map fst (c_mems s));
  m_imm : forall i, c_imm s = Some i -> i <> c_mem s /\ In i (map fst (c_mems s));
  m_sorted : forall id, sorted_entries (mem_of s id) = true;
  m_tsorted : forallb sorted_entries (c_tables s) = true;
  m_rec : recency_ok (gchain s) = true;
  m_cover : forall e, In e (all_centries s) -> In e (concat (gchain s));
  m_exact1 : forall e, In e (all_centries s) -> In e (ents 0 (ops log ++ inflight s));
  m_exact2 : forall e, In e (ents 0 (ops log ++ inflight s)) -> In e (mall (c_mems s));
  m_nodupseq : NoDup (map (fun e : entry => sq e) (mall (c_mems s)));
  m_reader : forall t k q mo imm tabs, pc_of s t = Some (RCaptured k q mo imm tabs) ->
             exists m, mo = Some m /\ reader_ok s q m imm tabs;
  m_flush1 : forall t i, pc_of s t = Some (FBuilding i) -> c_imm s = Some i
}.

(** * dependence on the fields *)

Lemma mem_of_ext s s' id : c_mems s' = c_mems s -> mem_of s' id = mem_of s id.
Proof. intros H. unfold mem_of. rewrite H. reflexivity. Qed.

Lemma all_ext s s' : c_mems s' = c_mems s -> c_tables s' = c_tables s -> all_centries s' = all_centries s.
Proof. intros H1 H2. unfold all_centries. rewrite H1, H2. reflexivity. Qed.

Lemma rsrcs_ext s s' m imm tabs : c_mems s' = c_mems s -> rsrcs s' m imm tabs = rsrcs s m imm tabs.
Proof.
  intros H. unfold rsrcs. rewrite (mem_of_ext s s' m H). destruct imm as [i|]; [|reflexivity].
  rewrite (mem_of_ext s s' i H). reflexivity.
Qed.

Lemma all_split s e : In e (all_centries s) <-> In e (mall (c_mems s)) \/ In e (concat (c_tables s)).
Proof. unfold all_centries, mall. apply in_app_iff. Qed.

Lemma mem_of_all s id e : In e (mem_of s id) -> In e (all_centries s).
Proof. intros H. apply all_split. left. eapply meml_incl. exact H. Qed.

Lemma rtail_in s imm tabs e :
  In e (concat (rtail s imm tabs)) <->
  (exists i, imm = Some i /\ In e (mem_of s i)) \/ In e (concat tabs).
Proof.
  unfold rtail. rewrite concat_app, in_app_iff. destruct imm as [i|]; cbn [concat].
  - rewrite app_nil_r. split; intros [H|H]; try tauto.
    + left. exists i. split; [reflexivity|exact H].
    + destruct H as (j & E & H). inversion E. subst. left. exact H.
  - split; intros [H|H]; try tauto; [destruct H|]. destruct H as (j & E & _). discriminate.
Qed.

Lemma rsrcs_in s m imm tabs e :
  In e (concat (rsrcs s m imm tabs)) <->
  In e (mem_of s m) \/ (exists i, imm = Some i /\ In e (mem_of s i)) \/ In e (concat tabs).
Proof. rewrite rsrcs_eq. cbn [concat]. rewrite in_app_iff, rtail_in. tauto. Qed.

Lemma reader_ok_ext s s' q m imm tabs :
  c_mems s' = c_mems s -> c_mem s' = c_mem s -> c_tables s' = c_tables s ->
  c_nextmem s' = c_nextmem s -> c_seq s <= c_seq s' ->
  reader_ok s q m imm tabs -> reader_ok s' q m imm tabs.
Proof.
  intros H1 H2 H3 H4 H5 (R1 & R2 & R3 & R4 & R5 & R6 & R7). unfold reader_ok.
  rewrite (rsrcs_ext s s' m imm tabs H1), (all_ext s s' H1 H3), H2, H4.
  split; [lia|]. split; [exact R2|]. split; [exact R3|]. split; [exact R4|].
  split; [exact R5|]. split; [exact R6|exact R7].
Qed.

(** * steps that leave the memory alone *)
Lemma minv_threads log log' s s' :
  MInv log s ->
  c_mems s' = c_mems s -> c_mem s' = c_mem s -> c_imm s' = c_imm s -> c_tables s' = c_tables s ->
  c_nextmem s' = c_nextmem s -> c_seq s <= c_seq s' ->
  ops log' ++ inflight s' = ops log ++ inflight s ->
  (forall t k q mo imm tabs, pc_of s' t = Some (RCaptured k q mo imm tabs) ->
     pc_of s t = Some (RCaptured k q mo imm tabs) \/ exists m, mo = Some m /\ reader_ok s q m imm tabs) ->
  (forall t i, pc_of s' t = Some (FBuilding i) -> pc_of s t = Some (FBuilding i) \/ c_imm s = Some i) ->
  MInv log' s'.
Proof.
  intros M H1 H2 H3 H4 H5 H6 HI HR HF.
  assert (MO : forall id, mem_of s' id = mem_of s id) by (intros id; apply mem_of_ext; exact H1).
  assert (AE : all_centries s' = all_centries s) by (apply all_ext; assumption).
  assert (GE : gchain s' = gchain s).
  { unfold gchain. rewrite H2, H3, H4. apply rsrcs_ext. exact H1. }
  constructor.
  - rewrite H1, H5. apply (m_ids _ _ M).
  - rewrite H1. apply (m_nodup _ _ M).
  - rewrite H1, H2. apply (m_mem _ _ M).
  - rewrite H1, H2, H3. apply (m_imm _ _ M).
  - intros id. rewrite MO. apply (m_sorted _ _ M).
  - rewrite H4. apply (m_tsorted _ _ M).
  - rewrite GE. apply (m_rec _ _ M).
  - rewrite AE, GE. apply (m_cover _ _ M).
  - rewrite AE, HI. apply (m_exact1 _ _ M).
  - rewrite H1, HI. apply (m_exact2 _ _ M).
  - rewrite H1. apply (m_nodupseq _ _ M).
  - intros t k q mo imm tabs H. destruct (HR _ _ _ _ _ _ H) as [H'|(m & E & R)].
    + destruct (m_reader _ _ M _ _ _ _ _ _ H') as (m & E & R). exists m. split; [exact E|].
      eapply reader_ok_ext; eassumption.
    + exists m. split; [exact E|]. eapply reader_ok_ext; eassumption.
  - intros t i H. rewrite H3. destruct (HF _ _ H) as [H'|H']; [|exact H'].
    eapply (m_flush1 _ _ M). exact H'.
Qed.

(** * rotation *)
Lemma forallb_newer_nil X : forallb (newer_than []) X = true.
Proof. apply forallb_forall. intros y _. reflexivity. Qed.

Lemma minv_rotate log s : MInv log s -> c_imm s = None -> MInv log (rotate s).
Proof.
  intros M HI. set (nm := c_nextmem s).
  assert (LT : forall id, In id (map fst (c_mems s)) -> id < nm) by apply (m_ids _ _ M).
  assert (MO : forall id, id < nm -> mem_of (rotate s) id = mem_of s id).
  { intros id H. unfold mem_of, rotate. cbn [c_mems find fst].
    assert (E : c_nextmem s =? id = false) by (apply N.eqb_neq; unfold nm in H; lia).
    rewrite E. reflexivity. }
  assert (MN : mem_of (rotate s) nm = []).
  { unfold mem_of, rotate. cbn [c_mems find fst]. fold nm. rewrite N.eqb_refl. reflexivity. }
  assert (CM : c_mem s < nm) by (apply LT; apply (m_mem _ _ M)).
  assert (AE : all_centries (rotate s) = all_centries s) by reflexivity.
  assert (ML : mall (c_mems (rotate s)) = mall (c_mems s)) by reflexivity.
  constructor.
  - cbn [rotate c_mems c_nextmem map fst]. intros id [<-|H]; [lia|]. apply LT in H. unfold nm in H. lia.
  - cbn [rotate c_mems map fst]. constructor; [|apply (m_nodup _ _ M)].
    intros H. apply LT in H. unfold nm in H. lia.
  - cbn [rotate c_mems c_mem map fst]. left. reflexivity.
  - cbn [rotate c_mems c_mem c_imm map fst]. intros i E. inversion E. subst i.
    split; [unfold nm in CM; lia|]. right. apply (m_mem _ _ M).
  - intros id. destruct (N.eq_dec id nm) as [->|Ne]; [rewrite MN; reflexivity|].
    destruct (N.lt_ge_cases id nm) as [L|G]; [rewrite MO by exact L; apply (m_sorted _ _ M)|].
    rewrite mem_of_meml, meml_notin; [reflexivity|]. cbn [rotate c_mems map fst].
    intros [E|H]; [fold nm in E; congruence|]. apply LT in H. lia.
  - apply (m_tsorted _ _ M).
  - pose proof (m_rec _ _ M) as R. unfold gchain in *. rewrite HI in R.
    cbn [rotate c_mem c_imm c_tables]. fold nm. rewrite rsrcs_eq in *. rewrite MN.
    unfold rtail in *. rewrite MO by exact CM. cbn [app] in *. cbn [recency_ok].
    rewrite forallb_newer_nil. exact R.
  - intros e He. rewrite AE in He. apply (m_cover _ _ M) in He. unfold gchain in *.
    rewrite HI in He. apply rsrcs_in in He. apply rsrcs_in.
    cbn [rotate c_mem c_imm c_tables]. right.
    destruct He as [He|[(i & E & _)|He]]; [|discriminate|right; exact He].
    left. exists (c_mem s). split; [reflexivity|]. rewrite MO by exact CM. exact He.
  - rewrite AE. apply (m_exact1 _ _ M).
  - rewrite ML. apply (m_exact2 _ _ M).
  - rewrite ML. apply (m_nodupseq _ _ M).
  - intros t k q mo imm tabs H. destruct (m_reader _ _ M _ _ _ _ _ _ H) as (m & E & R).
    exists m. split; [exact E|]. destruct R as (R1 & R2 & R3 & R4 & R5 & R6 & R7).
    assert (RS : rsrcs (rotate s) m imm tabs = rsrcs s m imm tabs).
    { unfold rsrcs. rewrite MO by exact R2. destruct imm as [i|]; [|reflexivity].
      rewrite MO; [reflexivity|]. apply (R3 i eq_refl). }
    unfold reader_ok. rewrite RS, AE. cbn [rotate c_seq c_nextmem c_mem]. fold nm.
    split; [exact R1|]. split; [unfold nm in *; lia|]. split.
    { intros i Ei. destruct (R3 i Ei) as [A B]. unfold nm in *. split; lia. }
    split; [exact R4|]. split; [exact R5|]. split; [exact R6|exact R7].
  - intros t i H. pose proof (m_flush1 _ _ M _ _ H) as E. congruence.
Qed.

(** * installation of the table built from the immutable memtable *)
Lemma minv_install log s i :
  MInv log s -> c_imm s = Some i -> (forall t j, pc_of s t <> Some (FBuilding j)) ->
  MInv log (install s i).
Proof.
  intros M HI NB.
  assert (MO : forall id, mem_of (install s i) id = mem_of s id) by reflexivity.
  assert (A1 : forall e, In e (all_centries (install s i)) <-> In e (all_centries s)).
  { intros e. rewrite !all_split. cbn [install c_mems c_tables concat]. rewrite in_app_iff.
    split; [|tauto]. intros [H|[H|H]]; [tauto| |tauto]. left. eapply meml_incl. exact H. }
  assert (GE : gchain (install s i) = gchain s).
  { unfold gchain. rewrite HI. reflexivity. }
  constructor.
  - apply (m_ids _ _ M).
  - apply (m_nodup _ _ M).
  - apply (m_mem _ _ M).
  - cbn [install c_imm]. intros j E. discriminate.
  - intros id. rewrite MO. apply (m_sorted _ _ M).
  - cbn [install c_tables forallb]. rewrite (m_sorted _ _ M), (m_tsorted _ _ M). reflexivity.
  - rewrite GE. apply (m_rec _ _ M).
  - intros e He. rewrite GE. apply (m_cover _ _ M). apply A1. exact He.
  - intros e He. apply A1 in He. apply (m_exact1 _ _ M) in He. exact He.
  - apply (m_exact2 _ _ M).
  - apply (m_nodupseq _ _ M).
  - intros t k q mo imm tabs H. destruct (m_reader _ _ M _ _ _ _ _ _ H) as (m & E & R).
    exists m. split; [exact E|]. destruct R as (R1 & R2 & R3 & R4 & R5 & R6 & R7).
    split; [exact R1|]. split; [exact R2|]. split; [exact R3|]. split; [exact R4|].
    split; [exact R5|]. split.
    + intros e He. apply A1. apply R6. exact He.
    + intros e He Hq. apply A1 in He. apply (R7 e He Hq).
  - intros t j H. exfalso. eapply NB. exact H.
Qed.

(** * an insertion of the leader *)
Lemma recency_insert_head e x rest :
  recency_ok (x :: rest) = true ->
  (forall b, In b (concat rest) -> sq b < sq e) ->
  recency_ok (insert_entry e x :: rest) = true.
Proof.
  cbn [recency_ok]. rewrite !andb_true_iff. intros [R1 R2] HB. split; [|exact R2].
  rewrite forallb_forall in *. intros y Hy. apply newer_than_insert; [apply R1; exact Hy|].
  intros b Hb. apply HB. apply in_concat. exists y. split; assumption.
Qed.

Lemma minv_ins W log s t g b m o r nx :
  TInv W log (c_seq s) (c_mem s) (c_queue s) (c_threads s) -> MInv log s ->
  pc_of s t = Some (WLeading g b m (o :: r) nx) ->
  MInv log (ins_step s t g b m o r nx).
Proof.
  intros T M Hp. rewrite pc_of_pcl in Hp.
  pose proof (t_leader _ _ _ _ _ _ T _ _ Hp) as LO. cbn [leader_ok] in LO.
  destruct LO as (Eb & Em & GO & dn & Eops & Enx). subst b m.
  destruct (t_head _ _ _ _ _ _ T _ _ Hp eq_refl) as [rest Hq].
  set (e := wop_entry o nx). set (s' := ins_step s t g (c_seq s) (c_mem s) o r nx).
  set (cm := c_mem s).
  assert (Ese : sq e = nx) by apply wop_entry_seq.
  assert (IF : inflight s = dn).
  { unfold inflight, inflightl. rewrite Hq, Hp. cbn [pc_done]. rewrite Eops. apply firstn_done. }
  assert (IF' : inflight s' = dn ++ [o]).
  { unfold inflight, inflightl. cbn [s' ins_step c_queue c_threads]. rewrite Hq.
    rewrite (pcl_set_pc_same _ _ _ _ Hp). cbn [pc_done]. rewrite Eops.
    change (dn ++ o :: r) with (dn ++ [o] ++ r). rewrite app_assoc. apply firstn_done. }
  assert (ENT : ents 0 (ops log ++ inflight s') = ents 0 (ops log ++ inflight s) ++ [e]).
  { rewrite IF, IF', app_assoc, ents_app. cbn [ents]. f_equal. unfold e. f_equal. f_equal.
    rewrite len_app, <- (t_seq _ _ _ _ _ _ T). lia. }
  assert (BOUND : forall x, In x (all_centries s) -> sq x < nx).
  { intros x Hx. apply (m_exact1 _ _ M) in Hx. apply ents_seq in Hx. rewrite IF, len_app in Hx.
    rewrite <- (t_seq _ _ _ _ _ _ T) in Hx. lia. }
  assert (MS : mem_of s' cm = insert_entry e (mem_of s cm)).
  { unfold mem_of. cbn [s' ins_step c_mems]. apply meml_set_mem_same. apply (m_mem _ _ M). }
  assert (MOT : forall id, id <> cm -> mem_of s' id = mem_of s id).
  { intros id Ne. unfold mem_of. cbn [s' ins_step c_mems]. apply meml_set_mem_other. exact Ne. }
  assert (MONO : forall id x, In x (mem_of s id) -> In x (mem_of s' id)).
  { intros id x Hx. destruct (N.eq_dec id cm) as [->|Ne].
    - rewrite MS. apply insert_entry_in. right. exact Hx.
    - rewrite MOT by exact Ne. exact Hx. }
  assert (PERM : Permutation (mall (c_mems s')) (e :: mall (c_mems s))).
  { cbn [s' ins_step c_mems]. apply mall_insert; [apply (m_nodup _ _ M)|apply (m_mem _ _ M)]. }
  assert (A1 : forall x, In x (all_centries s') <-> x = e \/ In x (all_centries s)).
  { intros x. rewrite !all_split. cbn [s' ins_step c_tables]. fold s'. split.
    - intros [H|H]; [|tauto]. apply (Permutation_in _ PERM) in H. destruct H as [<-|H]; tauto.
    - intros [->|[H|H]]; [| |tauto]; left; apply (Permutation_in _ (Permutation_sym PERM)).
      + left. reflexivity.
      + right. exact H. }
  assert (RSM : forall mm imm tabs x, In x (concat (rsrcs s mm imm tabs)) -> In x (concat (rsrcs s' mm imm tabs))).
  { intros mm imm tabs x Hx. apply rsrcs_in in Hx. apply rsrcs_in.
    destruct Hx as [Hx|[(i & E & Hx)|Hx]]; [left; apply MONO; exact Hx| |right; right; exact Hx].
    right. left. exists i. split; [exact E|apply MONO; exact Hx]. }
  assert (RSB : forall mm imm tabs, (forall x, In x (concat tabs) -> In x (all_centries s)) ->
                  forall x, In x (concat (rsrcs s mm imm tabs)) -> sq x < sq e).
  { intros mm imm tabs HT x Hx. rewrite Ese. apply BOUND. apply rsrcs_in in Hx.
    destruct Hx as [Hx|[(i & E & Hx)|Hx]]; [eapply mem_of_all; exact Hx|eapply mem_of_all; exact Hx|].
    apply HT. exact Hx. }
  assert (REC : forall mm imm tabs,
            recency_ok (rsrcs s mm imm tabs) = true -> (forall i, imm = Some i -> i <> cm) ->
            (forall x, In x (concat tabs) -> In x (all_centries s)) ->
            recency_ok (rsrcs s' mm imm tabs) = true).
  { intros mm imm tabs R NI HT.
    assert (TL : rtail s' imm tabs = rtail s imm tabs).
    { unfold rtail. destruct imm as [i|]; [|reflexivity]. rewrite MOT; [reflexivity|]. apply NI. reflexivity. }
    rewrite rsrcs_eq in *. rewrite TL. destruct (N.eq_dec mm cm) as [->|Ne].
    - rewrite MS. apply recency_insert_head; [exact R|]. intros x Hx.
      apply (RSB cm imm tabs HT). rewrite rsrcs_eq. cbn [concat]. apply in_or_app. right. exact Hx.
    - rewrite MOT by exact Ne. exact R. }
  constructor.
  - cbn [s' ins_step c_mems c_nextmem]. rewrite set_mem_fst. apply (m_ids _ _ M).
  - cbn [s' ins_step c_mems]. rewrite set_mem_fst. apply (m_nodup _ _ M).
  - cbn [s' ins_step c_mems c_mem]. rewrite set_mem_fst. apply (m_mem _ _ M).
  - cbn [s' ins_step c_mems c_mem c_imm]. rewrite set_mem_fst. apply (m_imm _ _ M).
  - intros id. destruct (N.eq_dec id cm) as [->|Ne]; [|rewrite MOT by exact Ne; apply (m_sorted _ _ M)].
    rewrite MS. apply insert_entry_sorted; [apply (m_sorted _ _ M)|].
    intros x Hx E. apply ikey_cmp_eq_iff in E. destruct E as [_ E].
    assert (sq x < nx) by (apply BOUND; eapply mem_of_all; exact Hx). rewrite Ese in E. lia.
  - apply (m_tsorted _ _ M).
  - unfold gchain. cbn [s' ins_step c_mem c_imm c_tables]. fold s'. apply REC.
    + apply (m_rec _ _ M).
    + intros i Ei. apply (m_imm _ _ M). exact Ei.
    + intros x Hx. apply all_split. right. exact Hx.
  - intros x Hx. apply A1 in Hx. unfold gchain. cbn [s' ins_step c_mem c_imm c_tables]. fold s'.
    destruct Hx as [->|Hx].
    + apply rsrcs_in. left. fold cm. rewrite MS. apply insert_entry_in. left. reflexivity.
    + apply RSM. apply (m_cover _ _ M). exact Hx.
  - intros x Hx. rewrite ENT. apply in_or_app. apply A1 in Hx. destruct Hx as [->|Hx].
    + right. left. reflexivity.
    + left. apply (m_exact1 _ _ M). exact Hx.
  - intros x Hx. rewrite ENT in Hx. apply in_app_or in Hx.
    apply (Permutation_in _ (Permutation_sym PERM)). destruct Hx as [Hx|[<-|[]]].
    + right. apply (m_exact2 _ _ M). exact Hx.
    + left. reflexivity.
  - eapply Permutation_NoDup; [apply Permutation_map; apply Permutation_sym; exact PERM|].
    cbn [map]. constructor; [|apply (m_nodupseq _ _ M)].
    intros H. apply in_map_iff in H. destruct H as (x & E & Hx).
    assert (sq x < nx) by (apply BOUND; apply all_split; left; exact Hx). rewrite Ese in E. lia.
  - intros x k q mo imm tabs H. rewrite pc_of_pcl in H. cbn [s' ins_step c_threads] in H.
    apply pcl_set_pc_some in H. destruct H as [(_ & E & _)|[Ne H]]; [discriminate|].
    destruct (m_reader _ _ M x k q mo imm tabs H) as (mm & E & R). exists mm. split; [exact E|].
    destruct R as (R1 & R2 & R3 & R4 & R5 & R6 & R7).
    split; [exact R1|]. split; [exact R2|]. split; [exact R3|]. split; [exact R4|].
    split; [|split].
    + apply REC; [exact R5| |exact R6]. intros i Ei. apply (R3 i Ei).
    + intros x0 Hx0. apply A1. right. apply R6. exact Hx0.
    + intros x0 Hx0 Hq0. apply A1 in Hx0. destruct Hx0 as [->|Hx0].
      * exfalso. rewrite Ese in Hq0. lia.
      * apply RSM. apply R7; assumption.
  - intros x i H. rewrite pc_of_pcl in H. cbn [s' ins_step c_threads] in H.
    apply pcl_set_pc_some in H. destruct H as [(_ & E & _)|[Ne H]]; [discriminate|].
    eapply (m_flush1 _ _ M). exact H.
Qed.

(** * Part 5: the invariant is reachable; the theorems *)

(** * the invariant *)

(** [W]: the batches submitted so far (ghost); [log]: the commit log = the groups published so
    far, in publication order (ghost) *)
Record GInv (W log : list (tid * list wop)) (s : cstate) : Prop := mkGInv {
  g_t : TInv W log (c_seq s) (c_mem s) (c_queue s) (c_threads s);
  g_m : MInv log s
}.

Definition CInv (s : cstate) : Prop := exists W log, GInv W log s.

(** * well-formed schedules: thread ids are fresh at spawn; the background thread is unique
    (a [PFlush] is spawned only when no other flush is in progress) *)

Definition no_flusher (s : cstate) : bool :=
  forallb (fun tp => negb (flushing (snd tp))) (c_threads s).

Definition ok_ev (s : cstate) (e : sched_ev) : bool :=
  match e with
  | ESpawn t p =>
      match pc_of s t with None => true | Some _ => false end
      && match p with PFlush => no_flusher s | _ => true end
  | EStep _ _ => true
  end.

Fixpoint wf_from (d : bool) (s : cstate) (evs : list sched_ev) : bool :=
  match evs with
  | [] => true
  | e :: r => ok_ev s e && wf_from d (sched_step d s e) r
  end.

Definition wf_sched (d : bool) (evs : list sched_ev) : bool := wf_from d c_init evs.

Lemma wf_from_app d evs1 : forall s evs2,
  wf_from d s (evs1 ++ evs2) = wf_from d s evs1 && wf_from d (fold_left (sched_step d) evs1 s) evs2.
Proof.
  induction evs1 as [|e r IH]; intros s evs2; [reflexivity|].
  cbn [app wf_from fold_left]. rewrite IH, andb_assoc. reflexivity.
Qed.

Lemma wf_sched_snoc d evs e :
  wf_sched d (evs ++ [e]) = wf_sched d evs && ok_ev (sched_run d evs) e.
Proof.
  unfold wf_sched. rewrite wf_from_app. cbn [wf_from]. rewrite andb_true_r. reflexivity.
Qed.

Lemma wf_sched_app_l d evs1 evs2 : wf_sched d (evs1 ++ evs2) = true -> wf_sched d evs1 = true.
Proof. unfold wf_sched. rewrite wf_from_app. intros H. apply andb_true_iff in H. tauto. Qed.

Lemma sched_run_snoc d evs e : sched_run d (evs ++ [e]) = sched_step d (sched_run d evs) e.
Proof. unfold sched_run. rewrite fold_left_app. reflexivity. Qed.

(** * ghost history *)

Definition delta_W (e : sched_ev) : list (tid * list wop) :=
  match e with ESpawn t (PWrite b) => [(t, b)] | _ => [] end.

Definition delta_log (s : cstate) (e : sched_ev) : list (tid * list wop) :=
  match e with
  | EStep t _ => match pc_of s t with Some (WPublish g _ _) => g | _ => [] end
  | _ => []
  end.

(** the batches submitted by a schedule (most recent first) *)
Definition writers (evs : list sched_ev) : list (tid * list wop) :=
  fold_left (fun w e => delta_W e ++ w) evs [].

Lemma writers_snoc evs e : writers (evs ++ [e]) = delta_W e ++ writers evs.
Proof. unfold writers. rewrite fold_left_app. reflexivity. Qed.

Lemma writers_in evs t b : In (t, b) (writers evs) <-> In (ESpawn t (PWrite b)) evs.
Proof.
  induction evs as [|e evs IH] using rev_ind; [cbn; tauto|].
  rewrite writers_snoc, !in_app_iff, IH. cbn [In]. split.
  - intros [H|H]; [|tauto]. right. left. destruct e as [t0 [b0| |]|]; cbn in H; try tauto.
    destruct H as [H|[]]. inversion H. reflexivity.
  - intros [H|[H|[]]]; [tauto|]. subst e. left. left. reflexivity.
Qed.

(** the commit log of a schedule: the groups in publication order *)
Definition gstep (x : cstate * list (tid * list wop)) (e : sched_ev) :=
  (sched_step true (fst x) e, snd x ++ delta_log (fst x) e).

Definition grun (evs : list sched_ev) := fold_left gstep evs (c_init, []).

Definition commit_log (evs : list sched_ev) : list (tid * list wop) := snd (grun evs).

Lemma grun_fst_gen evs : forall x, fst (fold_left gstep evs x) = fold_left (sched_step true) evs (fst x).
Proof. induction evs as [|e r IH]; intros x; [reflexivity|]. cbn [fold_left]. rewrite IH. reflexivity. Qed.

Lemma grun_fst evs : fst (grun evs) = sched_run true evs.
Proof. apply grun_fst_gen. Qed.

Lemma commit_log_snoc evs e :
  commit_log (evs ++ [e]) = commit_log evs ++ delta_log (sched_run true evs) e.
Proof.
  unfold commit_log, grun. rewrite fold_left_app. cbn [fold_left gstep snd].
  fold (grun evs). rewrite grun_fst. reflexivity.
Qed.

(** * preservation *)

Lemma pc_done_nonleading p : leading p = false -> pc_done p = [].
Proof. destruct p; cbn; intros H; try reflexivity; discriminate. Qed.

Lemma inflightl_upd qu ths t p p' :
  pcl ths t = Some p -> pc_done p' = pc_done p -> inflightl qu (set_pc ths t p') = inflightl qu ths.
Proof.
  intros Hp HD. destruct qu as [|h r]; [reflexivity|]. cbn [inflightl]. rewrite pcl_set_pc.
  destruct (h =? t) eqn:E; [|reflexivity]. apply N.eqb_eq in E. subst h. rewrite Hp. exact HD.
Qed.

Lemma ginv_upd W log s t p p' :
  GInv W log s ->
  pc_of s t = Some p ->
  leading p' = leading p -> pc_group p' = pc_group p -> qpc p' = qpc p ->
  (flushing p' = true -> flushing p = true) ->
  p' <> WFollower -> p <> WFollower ->
  (forall b, p' <> WQueued b) -> (forall b, p <> WQueued b) -> (forall r, p <> Done r) ->
  leader_ok (c_seq s) (c_mem s) (c_threads s) t p' ->
  pc_done p' = pc_done p ->
  (forall k q mo imm tabs, p' = RCaptured k q mo imm tabs ->
     exists m, mo = Some m /\ reader_ok s q m imm tabs) ->
  (forall i, p' = FBuilding i -> c_imm s = Some i) ->
  GInv W log (upd_pc s t p').
Proof.
  intros [T M] Hp HL HG HQ HF NF' NF NQ' NQ ND LO HD HR HB. rewrite pc_of_pcl in Hp. split.
  - cbn [upd_pc c_seq c_mem c_queue c_threads]. eapply tinv_upd; try eassumption.
    eapply leader_ok_mono; [|exact LO]. intros x Hx. rewrite pcl_set_pc_other; [exact Hx|].
    intros ->. congruence.
  - eapply (minv_threads log log s); try reflexivity; try exact M.
    + unfold inflight. cbn [upd_pc c_queue c_threads]. f_equal. eapply inflightl_upd; eassumption.
    + intros x k q mo imm tabs H. rewrite pc_of_pcl in H. cbn [upd_pc c_threads] in H.
      apply pcl_set_pc_some in H. destruct H as [(_ & E & _)|[_ H]]; [|left; exact H].
      right. eapply HR. symmetry. exact E.
    + intros x i H. rewrite pc_of_pcl in H. cbn [upd_pc c_threads] in H.
      apply pcl_set_pc_some in H. destruct H as [(_ & E & _)|[_ H]]; [|left; exact H].
      right. eapply HB. symmetry. exact E.
Qed.

Lemma no_flusher_spec s : no_flusher s = true -> forall x px, pc_of s x = Some px -> flushing px = false.
Proof.
  unfold no_flusher. rewrite forallb_forall. intros H x px Hx. rewrite pc_of_pcl in Hx.
  apply pcl_in in Hx. specialize (H _ Hx). cbn [snd] in H. apply negb_true_iff in H. exact H.
Qed.

Lemma inflightl_spawn qu ths t p0 r0 :
  pcl ths t = None -> (forall h, In h qu -> pcl ths h <> None) -> pc_done p0 = [] ->
  inflightl (qu ++ r0) ((t, p0) :: ths) = inflightl qu ths \/ qu = [].
Proof.
  intros Hn HQ HD. destruct qu as [|h r]; [right; reflexivity|left]. cbn [app inflightl].
  rewrite pcl_cons. destruct (t =? h) eqn:E; [|reflexivity]. apply N.eqb_eq in E. subst h.
  exfalso. apply (HQ t); [left; reflexivity|exact Hn].
Qed.

Lemma ginv_spawn W log s t p :
  GInv W log s -> ok_ev s (ESpawn t p) = true ->
  GInv (delta_W (ESpawn t p) ++ W) log (spawn s t p).
Proof.
  intros [T M] OK. cbn [ok_ev] in OK. apply andb_true_iff in OK. destruct OK as [OK1 OK2].
  destruct (pc_of s t) eqn:Hn; [discriminate|]. rewrite pc_of_pcl in Hn.
  assert (QPC : forall h, In h (c_queue s) -> pcl (c_threads s) h <> None).
  { intros h Hh. destruct (t_qpc _ _ _ _ _ _ T h Hh) as (ph & Hph & _). congruence. }
  assert (RD : forall p0, (forall k q mo imm tabs, p0 <> RCaptured k q mo imm tabs) ->
             forall x k q mo imm tabs,
             pcl ((t, p0) :: c_threads s) x = Some (RCaptured k q mo imm tabs) ->
             pcl (c_threads s) x = Some (RCaptured k q mo imm tabs)).
  { intros p0 NR x k q mo imm tabs H. rewrite pcl_cons in H. destruct (t =? x); [|exact H].
    inversion H. exfalso. eapply NR. eassumption. }
  assert (FB : forall p0, (forall i, p0 <> FBuilding i) -> forall x i,
             pcl ((t, p0) :: c_threads s) x = Some (FBuilding i) ->
             pcl (c_threads s) x = Some (FBuilding i)).
  { intros p0 NR x i H. rewrite pcl_cons in H. destruct (t =? x); [|exact H].
    inversion H. exfalso. eapply NR. eassumption. }
  destruct p as [b|k|]; cbn [delta_W app spawn].
  - split.
    + cbn [c_seq c_mem c_queue c_threads]. apply tinv_spawn_w; assumption.
    + eapply (minv_threads log log s); try reflexivity; try exact M.
      * f_equal. unfold inflight. cbn [c_queue c_threads].
        destruct (inflightl_spawn (c_queue s) (c_threads s) t (WQueued b) [t] Hn QPC eq_refl) as [E|E];
          [exact E|]. rewrite E. cbn [app inflightl]. rewrite pcl_cons, N.eqb_refl. reflexivity.
      * intros x k q mo imm tabs H. left. rewrite pc_of_pcl in *. cbn [c_threads] in H.
        eapply (RD (WQueued b)); [|exact H]. intros; discriminate.
      * intros x i H. left. rewrite pc_of_pcl in *. cbn [c_threads] in H.
        eapply (FB (WQueued b)); [|exact H]. intros; discriminate.
  - split.
    + cbn [c_seq c_mem c_queue c_threads]. apply tinv_spawn_o; try assumption; try reflexivity;
        try discriminate.
    + eapply (minv_threads log log s); try reflexivity; try exact M.
      * f_equal. unfold inflight. cbn [c_queue c_threads].
        destruct (inflightl_spawn (c_queue s) (c_threads s) t (RStart k) [] Hn QPC eq_refl) as [E|E].
        -- rewrite app_nil_r in E. exact E.
        -- rewrite E. reflexivity.
      * intros x k0 q mo imm tabs H. left. rewrite pc_of_pcl in *. cbn [c_threads] in H.
        eapply (RD (RStart k)); [|exact H]. intros; discriminate.
      * intros x i H. left. rewrite pc_of_pcl in *. cbn [c_threads] in H.
        eapply (FB (RStart k)); [|exact H]. intros; discriminate.
  - split.
    + cbn [c_seq c_mem c_queue c_threads]. apply tinv_spawn_o; try assumption; try reflexivity;
        try discriminate.
      intros _ x px Hx. eapply no_flusher_spec; [exact OK2|]. rewrite pc_of_pcl. exact Hx.
    + eapply (minv_threads log log s); try reflexivity; try exact M.
      * f_equal. unfold inflight. cbn [c_queue c_threads].
        destruct (inflightl_spawn (c_queue s) (c_threads s) t FStart [] Hn QPC eq_refl) as [E|E].
        -- rewrite app_nil_r in E. exact E.
        -- rewrite E. reflexivity.
      * intros x k0 q mo imm tabs H. left. rewrite pc_of_pcl in *. cbn [c_threads] in H.
        eapply (RD FStart); [|exact H]. intros; discriminate.
      * intros x i H. left. rewrite pc_of_pcl in *. cbn [c_threads] in H.
        eapply (FB FStart); [|exact H]. intros; discriminate.
Qed.

Lemma NoDup_firstn {A} (l : list A) : forall n, NoDup l -> NoDup (firstn n l).
Proof.
  induction l as [|x l IH]; intros n ND; [rewrite firstn_nil; constructor|].
  destruct n as [|n]; [constructor|]. inversion ND as [|? ? Hx ND']. subst. cbn [firstn].
  constructor; [|apply IH; exact ND']. intros H. apply Hx.
  rewrite <- (firstn_skipn n l). apply in_or_app. left. exact H.
Qed.

(** the leader forms its group (after an optional rotation) *)
Lemma ginv_group W log s s1 t b0 rest take :
  GInv W log s ->
  MInv log s1 ->
  c_seq s1 = c_seq s -> c_queue s1 = c_queue s -> c_threads s1 = c_threads s ->
  c_queue s = t :: rest -> pc_of s t = Some (WQueued b0) ->
  GInv W log (form_group s1 t take).
Proof.
  intros [T M] M1 E1 E2 E3 Hq Hp. rewrite pc_of_pcl in Hp.
  set (g := batches_of s1 (members_of s1 take)).
  assert (HG : forall x bx, In (x, bx) g <->
             In x (firstn (Nat.max 1 take) (c_queue s)) /\ pcl (c_threads s) x = Some (WQueued bx)).
  { intros x bx. unfold g. rewrite batches_of_in. unfold members_of. rewrite E2, pc_of_pcl, E3. tauto. }
  assert (NDg : NoDup (map fst g)).
  { unfold g. apply batches_of_nodup. unfold members_of. rewrite E2.
    apply NoDup_firstn. apply (t_queue _ _ _ _ _ _ T). }
  split.
  - cbn [form_group c_seq c_mem c_queue c_threads]. fold g. rewrite E1, E2, E3.
    eapply tinv_group; eassumption.
  - eapply (minv_threads log log s1); try reflexivity; try exact M1.
    + f_equal. unfold inflight. cbn [form_group c_queue c_threads]. fold g. rewrite E2, E3, Hq.
      cbn [inflightl]. rewrite Hp.
      erewrite pcl_set_pc_same; [reflexivity|]. rewrite pcl_follow_self. exact Hp.
    + intros x k q mo imm tabs H. left. rewrite pc_of_pcl in *. cbn [form_group c_threads] in H.
      fold g in H. apply pcl_set_pc_some in H. destruct H as [(_ & E & _)|[_ H]]; [discriminate|].
      apply pcl_follow_inv in H. destruct H as [H|H]; [discriminate|]. exact H.
    + intros x i H. left. rewrite pc_of_pcl in *. cbn [form_group c_threads] in H.
      fold g in H. apply pcl_set_pc_some in H. destruct H as [(_ & E & _)|[_ H]]; [discriminate|].
      apply pcl_follow_inv in H. destruct H as [H|H]; [discriminate|]. exact H.
Qed.

Lemma ginv_publish W log s t g b n :
  GInv W log s -> pc_of s t = Some (WPublish g b n) -> GInv W (log ++ g) (publish s g b n).
Proof.
  intros [T M] Hp. rewrite pc_of_pcl in Hp.
  pose proof (tinv_publish _ _ _ _ _ _ _ _ _ _ T Hp) as T'.
  pose proof (t_leader _ _ _ _ _ _ T _ _ Hp) as LO. cbn [leader_ok] in LO.
  destruct LO as (Eb & (Gt & Gnd & Gf) & En).
  destruct (t_head _ _ _ _ _ _ T _ _ Hp eq_refl) as [rest Hq].
  split; [exact T'|].
  eapply (minv_threads log (log ++ g) s); try reflexivity; try exact M.
  - cbn [publish c_seq]. lia.
  - rewrite ops_app, <- app_assoc. f_equal.
    assert (I1 : inflight s = ops g).
    { unfold inflight. rewrite Hq. cbn [inflightl]. rewrite Hp. reflexivity. }
    rewrite I1. unfold inflight. cbn [publish c_queue c_threads].
    destruct (filter (fun x => negb (existsb (N.eqb x) (map fst g))) (c_queue s)) as [|h r] eqn:F;
      [cbn [inflightl]; rewrite app_nil_r; reflexivity|].
    assert (Hh : In h (filter (fun x => negb (existsb (N.eqb x) (map fst g))) (c_queue s)))
      by (rewrite F; left; reflexivity).
    apply filter_In in Hh. destruct Hh as [Hh1 Hh2]. apply negb_true_iff in Hh2.
    assert (Hn : ~ In h (map fst g)).
    { intros Hi. assert (existsb (N.eqb h) (map fst g) = true); [|congruence].
      apply existsb_exists. exists h. split; [exact Hi|apply N.eqb_refl]. }
    cbn [inflightl]. rewrite pcl_finish_out by exact Hn.
    destruct (t_qpc _ _ _ _ _ _ T h Hh1) as (ph & Hph & _). rewrite Hph.
    rewrite pc_done_nonleading; [rewrite app_nil_r; reflexivity|].
    destruct (leading ph) eqn:L; [|reflexivity]. exfalso. apply Hn.
    assert (h = t) by (eapply leader_unique; [exact T|exact Hph|exact Hp|exact L|reflexivity]).
    subst h. exact Gt.
  - intros x k q mo imm tabs H. left. rewrite pc_of_pcl in *. cbn [publish c_threads] in H.
    apply pcl_finish_inv in H. destruct H as [H|H]; [discriminate|exact H].
  - intros x i H. left. rewrite pc_of_pcl in *. cbn [publish c_threads] in H.
    apply pcl_finish_inv in H. destruct H as [H|H]; [discriminate|exact H].
Qed.

Lemma reader_ok_capture log s :
  MInv log s -> reader_ok s (c_seq s) (c_mem s) (c_imm s) (c_tables s).
Proof.
  intros M. split; [lia|]. split; [apply (m_ids _ _ M); apply (m_mem _ _ M)|]. split.
  { intros i Ei. destruct (m_imm _ _ M i Ei) as [A B]. split; [apply (m_ids _ _ M); exact B|exact A]. }
  split; [apply (m_tsorted _ _ M)|]. split; [apply (m_rec _ _ M)|]. split.
  - intros e He. apply all_split. right. exact He.
  - intros e He _. apply (m_cover _ _ M). exact He.
Qed.

Lemma ginv_cstep W log s t c s' :
  GInv W log s -> cstep true s t c = Some s' ->
  GInv W (log ++ delta_log s (EStep t c)) s'.
Proof.
  intros G HS. pose proof G as [T M]. cbn [delta_log].
  destruct (pc_of s t) as [p|] eqn:Hp; [|rewrite cstep_none in HS by exact Hp; discriminate].
  pose proof Hp as Hp'. rewrite pc_of_pcl in Hp'.
  pose proof (t_leader _ _ _ _ _ _ T _ _ Hp') as LO.
  destruct p as [b0|g b m todo nx|g b m|g b n| |k|k q mo imm tabs| |i|r].
  - (* WQueued *)
    rewrite app_nil_r. rewrite (cstep_WQueued _ _ _ _ _ Hp) in HS.
    destruct (c_queue s) as [|h rest] eqn:Hq; [discriminate|].
    destruct (negb (h =? t)) eqn:Eh; [discriminate|]. apply negb_false_iff, N.eqb_eq in Eh. subst h.
    destruct (ch_rotate c && imm_some s) eqn:ER; [discriminate|]. inversion HS. subst s'. clear HS.
    destruct (ch_rotate c) eqn:Rot.
    + cbn [andb] in ER. unfold imm_some in ER. destruct (c_imm s) eqn:HI; [discriminate|].
      eapply (ginv_group W log s (rotate s)); try reflexivity; try eassumption.
      apply minv_rotate; assumption.
    + eapply (ginv_group W log s s); try reflexivity; eassumption.
  - (* WLeading *)
    rewrite app_nil_r. cbn [leader_ok] in LO. destruct LO as (Eb & Em & GO & dn & Eops & Enx).
    destruct todo as [|o r].
    + rewrite (cstep_WLeading_nil _ _ _ _ _ _ _ _ Hp) in HS. inversion HS. subst s'.
      eapply ginv_upd; try exact G; try exact Hp; try reflexivity; try discriminate;
        try (intros; discriminate).
      * cbn [leader_ok]. split; [exact Eb|]. split; [exact GO|].
        rewrite app_nil_r in Eops. rewrite Eops. lia.
      * cbn [pc_done]. cbn [length]. rewrite Nat.sub_0_r, firstn_all. reflexivity.
    + rewrite (cstep_WLeading_cons _ _ _ _ _ _ _ _ _ _ Hp) in HS. inversion HS. subst s'. split.
      * cbn [ins_step c_seq c_mem c_queue c_threads].
        eapply tinv_upd; try exact T; try exact Hp'; try reflexivity; try discriminate;
          try (intros; discriminate).
        eapply leader_ok_mono with (ths := c_threads s).
        -- intros x Hx. rewrite pcl_set_pc_other; [exact Hx|]. intros ->. congruence.
        -- cbn [leader_ok]. split; [exact Eb|]. split; [exact Em|]. split; [exact GO|].
           exists (dn ++ [o]). rewrite <- app_assoc. split; [exact Eops|]. rewrite len_app.
           change (len [o]) with 1. lia.
      * eapply minv_ins; eassumption.
  - (* WBeforeWal *)
    rewrite app_nil_r. rewrite (cstep_WBeforeWal _ _ _ _ _ _ _ Hp) in HS. inversion HS. subst s'.
    cbn [leader_ok] in LO. destruct LO as (Eb & Em & GO).
    eapply ginv_upd; try exact G; try exact Hp; try reflexivity; try discriminate;
      try (intros; discriminate).
    + cbn [leader_ok]. split; [exact Eb|]. split; [exact Em|]. split; [exact GO|].
      exists []. split; [reflexivity|]. rewrite len_nil. lia.
    + cbn [pc_done]. rewrite Nat.sub_diag. reflexivity.
  - (* WPublish *)
    rewrite (cstep_WPublish _ _ _ _ _ _ _ Hp) in HS. inversion HS. subst s'.
    eapply ginv_publish; eassumption.
  - rewrite (cstep_WFollower _ _ _ _ Hp) in HS. discriminate.
  - (* RStart *)
    rewrite app_nil_r. rewrite (cstep_RStart _ _ _ _ _ Hp) in HS. inversion HS. subst s'.
    eapply ginv_upd; try exact G; try exact Hp; try reflexivity; try discriminate;
      try (intros; discriminate).
    intros k0 q mo imm tabs E. inversion E. subst. exists (c_mem s). split; [reflexivity|].
    eapply reader_ok_capture. exact M.
  - (* RCaptured *)
    rewrite app_nil_r. destruct (m_reader _ _ M _ _ _ _ _ _ Hp) as (mm & -> & R).
    rewrite (cstep_RCaptured _ _ _ _ _ _ _ _ _ Hp) in HS. inversion HS. subst s'.
    eapply ginv_upd; try exact G; try exact Hp; try reflexivity; try discriminate;
      try (intros; discriminate).
  - (* FStart *)
    rewrite app_nil_r. rewrite (cstep_FStart _ _ _ _ Hp) in HS. inversion HS. subst s'.
    destruct (c_imm s) as [i|] eqn:HI.
    + eapply ginv_upd; try exact G; try exact Hp; try reflexivity; try discriminate;
        try (intros; discriminate).
      intros j E. inversion E. subst. exact HI.
    + eapply ginv_upd; try exact G; try exact Hp; try reflexivity; try discriminate;
        try (intros; discriminate).
  - (* FBuilding *)
    rewrite app_nil_r. rewrite (cstep_FBuilding _ _ _ _ _ Hp) in HS. inversion HS. subst s'.
    assert (G2 : GInv W log (upd_pc s t (Done None))).
    { eapply ginv_upd; try exact G; try exact Hp; try reflexivity; try discriminate;
        try (intros; discriminate). }
    destruct G2 as [T2 M2]. split; [exact T2|].
    apply minv_install; [exact M2|exact (m_flush1 _ _ M _ _ Hp)|].
    intros x j Hx. rewrite pc_of_pcl in Hx. cbn [upd_pc c_threads] in Hx.
    apply pcl_set_pc_some in Hx. destruct Hx as [(_ & E & _)|[Ne Hx]]; [discriminate|].
    apply Ne. eapply (t_flush2 _ _ _ _ _ _ T); [exact Hx|exact Hp'|reflexivity|reflexivity].
  - rewrite (cstep_Done _ _ _ _ _ Hp) in HS. discriminate.
Qed.

Lemma ginv_init : GInv [] [] c_init.
Proof.
  split.
  - constructor; cbn; try (intros; discriminate); try (intros; contradiction); try constructor.
    all: try (intros; contradiction).
  - constructor.
    + intros id [<-|[]]. cbn. lia.
    + cbn. constructor; [intros []|constructor].
    + left. reflexivity.
    + intros i E. discriminate.
    + intros id. unfold mem_of. cbn. destruct (0 =? id); reflexivity.
    + reflexivity.
    + reflexivity.
    + intros e [].
    + intros e [].
    + intros e [].
    + constructor.
    + intros t k q mo imm tabs H. discriminate.
    + intros t i H. discriminate.
Qed.

Lemma delta_log_nostep s t c : cstep true s t c = None -> delta_log s (EStep t c) = [].
Proof.
  intros H. cbn [delta_log]. destruct (pc_of s t) as [p|] eqn:Hp; [|reflexivity].
  destruct p; try reflexivity. rewrite (cstep_WPublish _ _ _ _ _ _ _ Hp) in H. discriminate.
Qed.

Lemma ginv_sched_step W log s e :
  GInv W log s -> ok_ev s e = true ->
  GInv (delta_W e ++ W) (log ++ delta_log s e) (sched_step true s e).
Proof.
  intros G OK. destruct e as [t p|t c].
  - cbn [delta_log sched_step]. rewrite app_nil_r. apply ginv_spawn; assumption.
  - cbn [delta_W app sched_step]. destruct (cstep true s t c) as [s'|] eqn:HS.
    + eapply ginv_cstep; eassumption.
    + rewrite (delta_log_nostep _ _ _ HS), app_nil_r. exact G.
Qed.

(** ** the invariant holds in every reachable state, for every well-formed schedule *)
Theorem ginv_reachable evs :
  wf_sched true evs = true -> GInv (writers evs) (commit_log evs) (sched_run true evs).
Proof.
  induction evs as [|e evs IH] using rev_ind; intros WF; [exact ginv_init|].
  rewrite wf_sched_snoc in WF. apply andb_true_iff in WF. destruct WF as [WF OK].
  rewrite writers_snoc, commit_log_snoc, sched_run_snoc. apply ginv_sched_step; [apply IH; exact WF|exact OK].
Qed.

Theorem cinv_reachable evs : wf_sched true evs = true -> CInv (sched_run true evs).
Proof. intros WF. exists (writers evs), (commit_log evs). apply ginv_reachable. exact WF. Qed.

(** * consequences of the invariant *)

Lemma ginv_seq W log s : GInv W log s -> c_seq s = len (ops log).
Proof. intros [T _]. apply (t_seq _ _ _ _ _ _ T). Qed.

Lemma ginv_uniq W log s : GInv W log s -> uniq_entries (all_centries s).
Proof.
  intros [_ M] e1 e2 H1 H2 _ E. apply (m_exact1 _ _ M) in H1, H2. eapply ents_inj; eassumption.
Qed.

Lemma ginv_seq_pos W log s e : GInv W log s -> In e (all_centries s) -> 1 <= sq e.
Proof. intros [_ M] H. apply (m_exact1 _ _ M) in H. apply ents_seq in H. lia. Qed.

(** a boolean shadow of part of the invariant, for evaluation on concrete schedules *)
Definition cinv_b (s : cstate) : bool :=
  forallb sorted_entries (gchain s) && recency_ok (gchain s)
  && forallb sorted_entries (map snd (c_mems s))
  && forallb (fun e : entry => 1 <=? sq e) (all_centries s)
  && forallb (fun e : entry => existsb (fun x : entry => ikey_eqb (fst x) (fst e) ) (concat (gchain s)))
             (all_centries s).

(** * frame: what a step does to the set of entries *)

Definition frame (s s' : cstate) : Prop :=
  c_seq s <= c_seq s' /\
  (forall x, In x (all_centries s) -> In x (all_centries s')) /\
  (forall x, In x (all_centries s') -> In x (all_centries s) \/ c_seq s < sq x).

Lemma frame_same s s' : all_centries s' = all_centries s -> c_seq s <= c_seq s' -> frame s s'.
Proof. intros E L. split; [exact L|]. rewrite E. split; intros x Hx; tauto. Qed.

Lemma ins_all W log s t g b m o r nx :
  GInv W log s -> pc_of s t = Some (WLeading g b m (o :: r) nx) ->
  (forall x, In x (all_centries (ins_step s t g b m o r nx)) <-> x = wop_entry o nx \/ In x (all_centries s))
  /\ c_seq s < nx.
Proof.
  intros [T M] Hp. rewrite pc_of_pcl in Hp.
  pose proof (t_leader _ _ _ _ _ _ T _ _ Hp) as LO. cbn [leader_ok] in LO.
  destruct LO as (Eb & Em & GO & dn & Eops & Enx). subst b m. split; [|lia].
  assert (PERM : Permutation (mall (c_mems (ins_step s t g (c_seq s) (c_mem s) o r nx)))
                             (wop_entry o nx :: mall (c_mems s))).
  { cbn [ins_step c_mems]. apply mall_insert; [apply (m_nodup _ _ M)|apply (m_mem _ _ M)]. }
  intros x. rewrite !all_split. cbn [ins_step c_tables]. split.
  - intros [H|H]; [|tauto]. apply (Permutation_in _ PERM) in H. destruct H as [<-|H]; tauto.
  - intros [->|[H|H]]; [| |tauto]; left; apply (Permutation_in _ (Permutation_sym PERM)).
    + left. reflexivity.
    + right. exact H.
Qed.

Lemma install_all s i x : In x (all_centries (install s i)) <-> In x (all_centries s).
Proof.
  rewrite !all_split. cbn [install c_mems c_tables concat]. rewrite in_app_iff.
  split; [|tauto]. intros [H|[H|H]]; [tauto| |tauto]. left. eapply meml_incl. exact H.
Qed.

Lemma cstep_frame W log s t c s' : GInv W log s -> cstep true s t c = Some s' -> frame s s'.
Proof.
  intros G HS. pose proof G as [T M].
  destruct (pc_of s t) as [p|] eqn:Hp; [|rewrite cstep_none in HS by exact Hp; discriminate].
  pose proof Hp as Hp'. rewrite pc_of_pcl in Hp'.
  pose proof (t_leader _ _ _ _ _ _ T _ _ Hp') as LO.
  destruct p as [b0|g b m todo nx|g b m|g b n| |k|k q mo imm tabs| |i|r].
  - rewrite (cstep_WQueued _ _ _ _ _ Hp) in HS.
    destruct (c_queue s) as [|h rest] eqn:Hq; [discriminate|].
    destruct (negb (h =? t)); [discriminate|].
    destruct (ch_rotate c && imm_some s); [discriminate|]. inversion HS. subst s'.
    destruct (ch_rotate c); apply frame_same; try reflexivity.
  - destruct todo as [|o r].
    + rewrite (cstep_WLeading_nil _ _ _ _ _ _ _ _ Hp) in HS. inversion HS. apply frame_same; reflexivity.
    + rewrite (cstep_WLeading_cons _ _ _ _ _ _ _ _ _ _ Hp) in HS. inversion HS. subst s'.
      destruct (ins_all _ _ _ _ _ _ _ _ _ _ G Hp) as [A1 L]. split; [reflexivity|]. split.
      * intros x Hx. apply A1. right. exact Hx.
      * intros x Hx. apply A1 in Hx. destruct Hx as [->|Hx]; [right|left; exact Hx].
        rewrite wop_entry_seq. exact L.
  - rewrite (cstep_WBeforeWal _ _ _ _ _ _ _ Hp) in HS. inversion HS. apply frame_same; reflexivity.
  - rewrite (cstep_WPublish _ _ _ _ _ _ _ Hp) in HS. inversion HS. apply frame_same; [reflexivity|].
    cbn [leader_ok] in LO. destruct LO as (Eb & _). cbn [publish c_seq]. lia.
  - rewrite (cstep_WFollower _ _ _ _ Hp) in HS. discriminate.
  - rewrite (cstep_RStart _ _ _ _ _ Hp) in HS. inversion HS. apply frame_same; reflexivity.
  - destruct (m_reader _ _ M _ _ _ _ _ _ Hp) as (mm & -> & R).
    rewrite (cstep_RCaptured _ _ _ _ _ _ _ _ _ Hp) in HS. inversion HS. apply frame_same; reflexivity.
  - rewrite (cstep_FStart _ _ _ _ Hp) in HS. inversion HS. apply frame_same; reflexivity.
  - rewrite (cstep_FBuilding _ _ _ _ _ Hp) in HS. inversion HS. split; [reflexivity|].
    split; intros x Hx.
    + apply install_all. exact Hx.
    + left. apply install_all in Hx. exact Hx.
  - rewrite (cstep_Done _ _ _ _ _ Hp) in HS. discriminate.
Qed.

Lemma spawn_all s t p : all_centries (spawn s t p) = all_centries s.
Proof. destruct p; reflexivity. Qed.

Lemma spawn_seq s t p : c_seq (spawn s t p) = c_seq s.
Proof. destruct p; reflexivity. Qed.

Lemma sched_step_frame W log s e : GInv W log s -> frame s (sched_step true s e).
Proof.
  intros G. destruct e as [t p|t c]; cbn [sched_step].
  - apply frame_same; [apply spawn_all|rewrite spawn_seq; reflexivity].
  - destruct (cstep true s t c) as [s'|] eqn:HS; [eapply cstep_frame; eassumption|].
    apply frame_same; reflexivity.
Qed.

(** what a reader at [q] must see does not change once [q] is published *)
Lemma spec_get_stable W log s e q k :
  GInv W log s -> q <= c_seq s -> spec_get (sched_step true s e) k q = spec_get s k q.
Proof.
  intros G Hq. destruct (sched_step_frame W log s e G) as (F1 & F2 & F3).
  unfold spec_get. apply visible_ext_le; [eapply ginv_uniq; exact G|].
  intros x Hx. split; [|apply F2]. intros H. destruct (F3 x H) as [H'|H']; [exact H'|lia].
Qed.

(** * threads that are not writers keep their program counter under the steps of others *)

Lemma pcl_follow_fwd ths t g x p :
  pcl ths x = Some p -> pcl (follow ths t g) x = Some p \/ In x (map fst g).
Proof.
  intros H. destruct (in_dec N.eq_dec x (map fst g)) as [Hi|Hn]; [right; exact Hi|left].
  rewrite pcl_follow_out by exact Hn. exact H.
Qed.

Lemma spawn_pc_other s t p x : x <> t -> pc_of (spawn s t p) x = pc_of s x.
Proof.
  intros Ne. rewrite !pc_of_pcl. destruct p; cbn [spawn c_threads]; rewrite pcl_cons;
    (destruct (t =? x) eqn:E; [apply N.eqb_eq in E; congruence|reflexivity]).
Qed.

Lemma cstep_pc_other W log s t c s' x p :
  GInv W log s -> cstep true s t c = Some s' -> x <> t ->
  pc_of s x = Some p -> qpc p = false -> pc_of s' x = Some p.
Proof.
  intros G HS Ne Hx Qp. pose proof G as [T M]. rewrite pc_of_pcl in Hx.
  destruct (pc_of s t) as [pt|] eqn:Hp; [|rewrite cstep_none in HS by exact Hp; discriminate].
  pose proof Hp as Hp'. rewrite pc_of_pcl in Hp'.
  pose proof (t_leader _ _ _ _ _ _ T _ _ Hp') as LO.
  assert (UPD : forall p', pc_of (upd_pc s t p') x = Some p).
  { intros p'. rewrite pc_of_pcl. cbn [upd_pc c_threads]. rewrite pcl_set_pc_other by exact Ne. exact Hx. }
  destruct pt as [b0|g b m todo nx|g b m|g b n| |k|k q mo imm tabs| |i|r].
  - rewrite (cstep_WQueued _ _ _ _ _ Hp) in HS.
    destruct (c_queue s) as [|h rest] eqn:Hq; [discriminate|].
    destruct (negb (h =? t)); [discriminate|].
    destruct (ch_rotate c && imm_some s); [discriminate|]. inversion HS. subst s'.
    assert (FG : forall s1, c_threads s1 = c_threads s -> pc_of (form_group s1 t (ch_take c)) x = Some p).
    { intros s1 E3. rewrite pc_of_pcl. cbn [form_group c_threads]. rewrite pcl_set_pc_other by exact Ne.
      rewrite E3. destruct (pcl_follow_fwd (c_threads s) t (batches_of s1 (members_of s1 (ch_take c))) x p Hx)
        as [H|H]; [exact H|]. exfalso.
      apply in_map_iff in H. destruct H as ([x' bx] & E & Hin). cbn in E. subst x'.
      apply batches_of_in in Hin. destruct Hin as [_ Hin]. rewrite pc_of_pcl, E3 in Hin.
      rewrite Hx in Hin. inversion Hin. subst p. discriminate. }
    destruct (ch_rotate c); apply FG; reflexivity.
  - destruct todo as [|o r].
    + rewrite (cstep_WLeading_nil _ _ _ _ _ _ _ _ Hp) in HS. inversion HS. apply UPD.
    + rewrite (cstep_WLeading_cons _ _ _ _ _ _ _ _ _ _ Hp) in HS. inversion HS.
      rewrite pc_of_pcl. cbn [ins_step c_threads]. rewrite pcl_set_pc_other by exact Ne. exact Hx.
  - rewrite (cstep_WBeforeWal _ _ _ _ _ _ _ Hp) in HS. inversion HS. apply UPD.
  - rewrite (cstep_WPublish _ _ _ _ _ _ _ Hp) in HS. inversion HS.
    rewrite pc_of_pcl. cbn [publish c_threads]. rewrite pcl_finish_out; [exact Hx|].
    cbn [leader_ok] in LO. destruct LO as (_ & (_ & _ & Gf) & _). intros Hi.
    destruct (Gf x Hi) as [E|E]; [congruence|]. rewrite Hx in E. inversion E. subst p. discriminate.
  - rewrite (cstep_WFollower _ _ _ _ Hp) in HS. discriminate.
  - rewrite (cstep_RStart _ _ _ _ _ Hp) in HS. inversion HS. apply UPD.
  - destruct (m_reader _ _ M _ _ _ _ _ _ Hp) as (mm & -> & R).
    rewrite (cstep_RCaptured _ _ _ _ _ _ _ _ _ Hp) in HS. inversion HS. apply UPD.
  - rewrite (cstep_FStart _ _ _ _ Hp) in HS. inversion HS. apply UPD.
  - rewrite (cstep_FBuilding _ _ _ _ _ Hp) in HS. inversion HS. apply (UPD (Done None)).
  - rewrite (cstep_Done _ _ _ _ _ Hp) in HS. discriminate.
Qed.

(** * T2: a get returns what the specification prescribes at its capture point *)

Lemma reader_answer log s q m imm tabs k :
  MInv log s -> uniq_entries (all_centries s) -> reader_ok s q m imm tabs ->
  lookup_sources (rsrcs s m imm tabs) k q = spec_get s k q.
Proof.
  intros M U (R1 & R2 & R3 & R4 & R5 & R6 & R7).
  change (lookup_sources (rsrcs s m imm tabs) k q)
    with (res_opt (first_answer (rsrcs s m imm tabs) (mkIKey k q OP_PUT))).
  rewrite sources_get_visible; [|
    rewrite rsrcs_eq; cbn [forallb]; rewrite (m_sorted _ _ M); cbn [andb]; unfold rtail;
    rewrite forallb_app, R4, andb_true_r; destruct imm as [i|]; [cbn [forallb]; rewrite (m_sorted _ _ M)|];
    reflexivity | exact R5].
  unfold spec_get. apply visible_ext_le; [exact U|]. intros e He. split.
  - intros H. apply rsrcs_in in H. destruct H as [H|[(i & _ & H)|H]];
      [eapply mem_of_all; exact H|eapply mem_of_all; exact H|apply R6; exact H].
  - intros H. apply R7; assumption.
Qed.

(** the tracked reader [t] that captured sequence [q] in state [s0] *)
Definition Track (s0 : cstate) (t : tid) (k : bytes) (q : N) (s : cstate) : Prop :=
  q <= c_seq s /\ (forall k', spec_get s k' q = spec_get s0 k' q) /\
  ((exists m imm tabs, pc_of s t = Some (RCaptured k q (Some m) imm tabs))
   \/ pc_of s t = Some (Done (Some (spec_get s0 k q)))).

Lemma track_step W log s0 t k q s e :
  GInv W log s -> ok_ev s e = true -> Track s0 t k q s -> Track s0 t k q (sched_step true s e).
Proof.
  intros G OK (Hq & HS & HP). pose proof G as [T M].
  destruct (sched_step_frame W log s e G) as (F1 & _ & _).
  split; [lia|]. split.
  { intros k'. rewrite (spec_get_stable W log s e q k' G Hq). apply HS. }
  assert (PT : exists p, pc_of s t = Some p /\ qpc p = false).
  { destruct HP as [(m & imm & tabs & H)|H]; eexists; (split; [exact H|reflexivity]). }
  destruct PT as (p & Hp & Qp).
  destruct e as [t' p0|t' c]; cbn [sched_step].
  - assert (Ne : t <> t').
    { intros ->. cbn [ok_ev] in OK. rewrite Hp in OK. discriminate. }
    rewrite (spawn_pc_other s t' p0 t Ne). exact HP.
  - destruct (cstep true s t' c) as [s'|] eqn:HC; [|exact HP].
    destruct (N.eq_dec t t') as [<-|Ne].
    + destruct HP as [(m & imm & tabs & H)|H].
      * rewrite (cstep_RCaptured _ _ _ _ _ _ _ _ _ H) in HC. inversion HC. right.
        rewrite pc_of_pcl. cbn [upd_pc c_threads]. rewrite pc_of_pcl in H.
        rewrite (pcl_set_pc_same _ _ _ _ H). do 3 f_equal.
        destruct (m_reader _ _ M _ _ _ _ _ _ H) as (mm & E & R). inversion E. subst mm.
        rewrite (reader_answer log s q m imm tabs k M (ginv_uniq _ _ _ G) R). apply HS.
      * rewrite (cstep_Done _ _ _ _ _ H) in HC. discriminate.
    + rewrite (cstep_pc_other W log s t' c s' t p G HC Ne Hp Qp). rewrite <- Hp. exact HP.
Qed.

Lemma track_run s0 t k q evs : forall s W log,
  GInv W log s -> wf_from true s evs = true -> Track s0 t k q s ->
  Track s0 t k q (fold_left (sched_step true) evs s).
Proof.
  induction evs as [|e evs IH]; intros s W log G WF TR; [exact TR|].
  cbn [wf_from] in WF. apply andb_true_iff in WF. destruct WF as [OK WF]. cbn [fold_left].
  eapply IH; [eapply ginv_sched_step; eassumption|exact WF|eapply track_step; eassumption].
Qed.

Theorem get_linearizable evs1 t c evs2 k r :
  wf_sched true (evs1 ++ EStep t c :: evs2) = true ->
  pc_of (sched_run true evs1) t = Some (RStart k) ->
  pc_of (sched_run true (evs1 ++ EStep t c :: evs2)) t = Some (Done (Some r)) ->
  r = spec_get (sched_run true evs1) k (c_seq (sched_run true evs1)).
Proof.
  intros WF H0 H1. set (s0 := sched_run true evs1) in *.
  pose proof (ginv_reachable evs1 (wf_sched_app_l _ _ _ WF)) as G0. fold s0 in G0.
  unfold wf_sched in WF. rewrite wf_from_app in WF. apply andb_true_iff in WF.
  destruct WF as [WF1 WF2]. fold (sched_run true evs1) in WF2. fold s0 in WF2.
  cbn [wf_from] in WF2. apply andb_true_iff in WF2. destruct WF2 as [OK WF2].
  unfold sched_run in H1. rewrite fold_left_app in H1. fold (sched_run true evs1) in H1. fold s0 in H1.
  cbn [fold_left] in H1.
  pose proof (ginv_sched_step _ _ s0 (EStep t c) G0 OK) as G1.
  assert (TR1 : Track s0 t k (c_seq s0) (sched_step true s0 (EStep t c))).
  { cbn [sched_step]. rewrite (cstep_RStart _ _ _ _ _ H0). split; [reflexivity|]. split; [reflexivity|].
    left. exists (c_mem s0), (c_imm s0), (c_tables s0). rewrite pc_of_pcl. cbn [upd_pc c_threads].
    rewrite pc_of_pcl in H0. rewrite (pcl_set_pc_same _ _ _ _ H0). reflexivity. }
  pose proof (track_run s0 t k (c_seq s0) evs2 _ _ _ G1 WF2 TR1) as (_ & _ & HP).
  rewrite H1 in HP. destruct HP as [(m & imm & tabs & E)|E]; [discriminate|]. inversion E. reflexivity.
Qed.

(** the same in terms of the sorted-map specification: the value after applying, in publication
    order, every batch of the commit log *)
Lemma spec_get_log W log s k :
  GInv W log s -> spec_get s k (c_seq s) = map_get k (map_apply [] (ops log)).
Proof.
  intros G. pose proof G as [T M]. rewrite (ginv_seq _ _ _ G).
  rewrite <- (proj1 (visible_ents (ops log) k)). unfold spec_get.
  apply visible_ext_le; [apply ents_uniq|]. intros e He. split.
  - intros H. apply (m_exact1 _ _ M) in H. rewrite ents_app in H. apply in_app_or in H.
    destruct H as [H|H]; [exact H|]. apply ents_seq in H. lia.
  - intros H. apply all_split. left. apply (m_exact2 _ _ M). rewrite ents_app. apply in_or_app.
    left. exact H.
Qed.

Theorem get_linearizable_log evs1 t c evs2 k r :
  wf_sched true (evs1 ++ EStep t c :: evs2) = true ->
  pc_of (sched_run true evs1) t = Some (RStart k) ->
  pc_of (sched_run true (evs1 ++ EStep t c :: evs2)) t = Some (Done (Some r)) ->
  r = map_get k (map_apply [] (ops (commit_log evs1))).
Proof.
  intros WF H0 H1. rewrite (get_linearizable _ _ _ _ _ _ WF H0 H1).
  eapply spec_get_log. apply ginv_reachable. eapply wf_sched_app_l. exact WF.
Qed.

(** * the commit log and the published sequence numbers *)

Lemma commit_log_app evs1 evs2 : exists l, commit_log (evs1 ++ evs2) = commit_log evs1 ++ l.
Proof.
  induction evs2 as [|e evs2 IH] using rev_ind.
  - exists []. rewrite !app_nil_r. reflexivity.
  - destruct IH as [l IH]. rewrite app_assoc, commit_log_snoc, IH. eexists. rewrite <- app_assoc. reflexivity.
Qed.

Lemma cseq_log evs : wf_sched true evs = true -> c_seq (sched_run true evs) = len (ops (commit_log evs)).
Proof. intros WF. eapply ginv_seq. apply ginv_reachable. exact WF. Qed.

Theorem c_seq_monotone evs1 evs2 :
  wf_sched true (evs1 ++ evs2) = true ->
  c_seq (sched_run true evs1) <= c_seq (sched_run true (evs1 ++ evs2)).
Proof.
  intros WF. rewrite (cseq_log _ WF), (cseq_log _ (wf_sched_app_l _ _ _ WF)).
  destruct (commit_log_app evs1 evs2) as [l ->]. rewrite ops_app, len_app. lia.
Qed.

(** [q] is a value the published sequence number took during the run: exactly the sequence
    numbers a reader can capture *)
Definition published (evs : list sched_ev) (q : N) : Prop :=
  exists evs1 evs2, evs = evs1 ++ evs2 /\ c_seq (sched_run true evs1) = q.

(** every published sequence number is a batch boundary of the commit log *)
Theorem published_boundary evs q :
  wf_sched true evs = true -> published evs q ->
  exists l1 l2, commit_log evs = l1 ++ l2 /\ q = len (ops l1).
Proof.
  intros WF (evs1 & evs2 & -> & <-). destruct (commit_log_app evs1 evs2) as [l E].
  exists (commit_log evs1), l. split; [exact E|]. apply cseq_log. eapply wf_sched_app_l. exact WF.
Qed.

Lemma published_le evs q : wf_sched true evs = true -> published evs q -> q <= c_seq (sched_run true evs).
Proof. intros WF (evs1 & evs2 & -> & <-). apply c_seq_monotone. exact WF. Qed.

Lemma split_compare {A} (l1 : list A) x l2 : forall l1' l2',
  l1 ++ x :: l2 = l1' ++ l2' -> (exists m, l1 = l1' ++ m) \/ (exists m, l1' = l1 ++ x :: m).
Proof.
  induction l1 as [|a l1 IH]; intros l1' l2' H.
  - destruct l1' as [|y l1']; [left; exists []; reflexivity|]. cbn in H. inversion H. subst.
    right. exists l1'. reflexivity.
  - destruct l1' as [|y l1']; [left; exists (a :: l1); reflexivity|]. cbn in H. inversion H. subst.
    destruct (IH _ _ H2) as [[m ->]|[m ->]]; [left; exists m; reflexivity|right; exists m; reflexivity].
Qed.

Lemma block_in_seq pre b post L' rest e :
  pre ++ b ++ post = L' ++ rest -> In e (ents 0 L') -> len pre < sq e -> sq e <= len pre + len b ->
  In e (ents (len pre) b).
Proof.
  intros E H L1 L2.
  assert (H' : In e (ents 0 (L' ++ rest))) by (rewrite ents_app; apply in_or_app; left; exact H).
  rewrite <- E, !ents_app, N.add_0_l in H'. apply in_app_or in H'. destruct H' as [H'|H'].
  - apply ents_seq in H'. lia.
  - apply in_app_or in H'. destruct H' as [H'|H']; [exact H'|]. apply ents_seq in H'. lia.
Qed.

Lemma block_present pre b post e :
  In e (ents (len pre) b) -> In e (ents 0 (pre ++ b ++ post)).
Proof.
  intros H. rewrite !ents_app, N.add_0_l. apply in_or_app. right. apply in_or_app. left. exact H.
Qed.

Lemma leader_prefix cs cm ths t p :
  leader_ok cs cm ths t p -> leading p = true -> exists rest, ops (pc_group p) = pc_done p ++ rest.
Proof.
  destruct p; cbn [leading]; try discriminate; cbn [leader_ok pc_group pc_done]; intros LO _.
  - destruct LO as (_ & _ & _ & dn & E & _). exists todo. rewrite E at 3. rewrite E. rewrite firstn_done. reflexivity.
  - exists (ops group). reflexivity.
  - exists []. rewrite app_nil_r. reflexivity.
Qed.

Lemma inflight_leader W log s t p :
  GInv W log s -> pc_of s t = Some p -> leading p = true -> inflight s = pc_done p.
Proof.
  intros [T _] Hp L. rewrite pc_of_pcl in Hp. destruct (t_head _ _ _ _ _ _ T _ _ Hp L) as [rest Hq].
  unfold inflight. rewrite Hq. cbn [inflightl]. rewrite Hp. reflexivity.
Qed.

(** ** T1: batch atomicity *)
Theorem batch_all_or_nothing evs t b :
  wf_sched true evs = true -> In (ESpawn t (PWrite b)) evs ->
  let s := sched_run true evs in
  pc_of s t = Some (WQueued b) \/
  exists a,
    (forall q, published evs q -> q <= a \/ a + len b <= q) /\
    (forall e, In e (all_centries s) -> a < sq e -> sq e <= a + len b -> In e (ents a b)) /\
    (a + len b <= c_seq s -> forall e, In e (ents a b) -> In e (all_centries s)).
Proof.
  intros WF Hin s. pose proof (ginv_reachable evs WF) as G. fold s in G. pose proof G as [T M].
  apply writers_in in Hin.
  destruct (t_w _ _ _ _ _ _ T t b Hin) as [A|[(tl & p & Hl & Ll & Gl)|[C1 C2]]]; [left; exact A|right|right].
  - (* in the group of the leader *)
    pose proof (t_leader _ _ _ _ _ _ T _ _ Hl) as LO.
    destruct (leader_prefix _ _ _ _ _ LO Ll) as [rest' Ep].
    pose proof (inflight_leader _ _ s tl p G Hl Ll) as EI.
    apply in_split in Gl. destruct Gl as (g1 & g2 & Eg).
    assert (ES : (ops (commit_log evs) ++ ops g1) ++ b ++ ops g2 = (ops (commit_log evs) ++ inflight s) ++ rest').
    { rewrite EI, <- !app_assoc. f_equal. rewrite <- Ep, Eg, ops_app, ops_cons. reflexivity. }
    exists (len (ops (commit_log evs) ++ ops g1)).
    assert (LA : c_seq s <= len (ops (commit_log evs) ++ ops g1)).
    { rewrite len_app, (ginv_seq _ _ _ G). lia. }
    split; [|split].
    + intros q Hq. left. pose proof (published_le evs q WF Hq). fold s in H. lia.
    + intros e He L1 L2. eapply block_in_seq; [exact ES|apply (m_exact1 _ _ M); exact He|exact L1|exact L2].
    + intros L e He. assert (b = []) by (destruct b; [reflexivity|rewrite len_cons in L; lia]).
      subst b. destruct He.
  - (* in the commit log *)
    apply in_split in C1. destruct C1 as (l1 & l2 & El).
    assert (ES : ops l1 ++ b ++ (ops l2 ++ inflight s) = (ops (commit_log evs) ++ inflight s) ++ []).
    { rewrite app_nil_r, El, ops_app, ops_cons, <- !app_assoc. reflexivity. }
    exists (len (ops l1)). split; [|split].
    + intros q Hq. destruct (published_boundary evs q WF Hq) as (l1' & l2' & E & ->).
      rewrite El in E. destruct (split_compare _ _ _ _ _ E) as [[m ->]|[m ->]].
      * left. rewrite ops_app, len_app. lia.
      * right. rewrite ops_app, ops_cons, !len_app. lia.
    + intros e He L1 L2. eapply block_in_seq; [exact ES|apply (m_exact1 _ _ M); exact He|exact L1|exact L2].
    + intros _ e He. apply all_split. left. apply (m_exact2 _ _ M).
      rewrite app_nil_r in ES. rewrite <- ES. apply block_present. exact He.
Qed.

(** no published sequence number shows a part of a batch: at a published [q] either every
    operation of the batch is present at or below [q], or no entry at or below [q] lies in the
    block of the batch *)
Corollary batch_visible_all_or_none evs t b q :
  wf_sched true evs = true -> In (ESpawn t (PWrite b)) evs -> published evs q ->
  let s := sched_run true evs in
  pc_of s t = Some (WQueued b) \/
  exists a,
    (forall e, In e (all_centries s) -> a < sq e -> sq e <= a + len b -> In e (ents a b)) /\
    ((forall e, In e (ents a b) -> In e (all_centries s) /\ sq e <= q)
     \/ (forall e, In e (all_centries s) -> sq e <= q -> ~ (a < sq e /\ sq e <= a + len b))).
Proof.
  intros WF Hin Hq s.
  destruct (batch_all_or_nothing evs t b WF Hin) as [A|(a & B1 & B2 & B3)]; [left; exact A|right].
  exists a. fold s in B2, B3. split; [exact B2|]. destruct (B1 q Hq) as [L|L].
  - right. intros e He Le [L1 L2]. lia.
  - left. intros e He. pose proof (published_le evs q WF Hq) as LQ. fold s in LQ. split.
    + apply B3; [lia|exact He].
    + apply ents_seq in He. lia.
Qed.

(** * acknowledged writes *)

(** a writer that returned is in the commit log *)
Theorem acknowledged_in_log evs t b r :
  wf_sched true evs = true -> In (ESpawn t (PWrite b)) evs ->
  pc_of (sched_run true evs) t = Some (Done r) -> In (t, b) (commit_log evs).
Proof.
  intros WF Hin HD. pose proof (ginv_reachable evs WF) as [T M]. apply writers_in in Hin.
  rewrite pc_of_pcl in HD.
  destruct (t_w _ _ _ _ _ _ T t b Hin) as [A|[(tl & p & Hl & Ll & Gl)|[C1 C2]]]; [congruence| |exact C1].
  exfalso. pose proof (t_leader _ _ _ _ _ _ T _ _ Hl) as LO.
  assert (GO : group_ok (c_threads (sched_run true evs)) tl (pc_group p)).
  { destruct p; cbn in Ll; try discriminate; cbn [leader_ok pc_group] in *; tauto. }
  destruct GO as (_ & _ & F). destruct (F t (in_map_fst _ _ _ Gl)) as [->|Hf]; [|congruence].
  rewrite Hl in HD. inversion HD. subst p. discriminate.
Qed.

(** the commit log contains only submitted batches, each at most once, and its threads are done *)
Theorem log_only_submitted evs t b :
  wf_sched true evs = true -> In (t, b) (commit_log evs) -> In (ESpawn t (PWrite b)) evs.
Proof.
  intros WF H. pose proof (ginv_reachable evs WF) as [T _]. apply writers_in.
  eapply (t_logW _ _ _ _ _ _ T). exact H.
Qed.

Theorem log_nodup evs : wf_sched true evs = true -> NoDup (map fst (commit_log evs)).
Proof. intros WF. pose proof (ginv_reachable evs WF) as [T _]. apply (t_lognodup _ _ _ _ _ _ T). Qed.

Theorem log_done evs t :
  wf_sched true evs = true -> In t (map fst (commit_log evs)) ->
  pc_of (sched_run true evs) t = Some (Done None).
Proof. intros WF H. pose proof (ginv_reachable evs WF) as [T _]. apply (t_logdone _ _ _ _ _ _ T). exact H. Qed.

(** a get reflects every write acknowledged before it started, and nothing of a write
    submitted after its capture point *)
Theorem read_sees_acknowledged evs1 t c evs2 k r t' b r' :
  wf_sched true (evs1 ++ EStep t c :: evs2) = true ->
  pc_of (sched_run true evs1) t = Some (RStart k) ->
  pc_of (sched_run true (evs1 ++ EStep t c :: evs2)) t = Some (Done (Some r)) ->
  In (ESpawn t' (PWrite b)) evs1 -> pc_of (sched_run true evs1) t' = Some (Done r') ->
  exists l1 l2, commit_log evs1 = l1 ++ (t', b) :: l2 /\
                r = map_get k (map_apply [] (ops l1 ++ b ++ ops l2)).
Proof.
  intros WF H0 H1 Hin HD.
  pose proof (acknowledged_in_log evs1 t' b r' (wf_sched_app_l _ _ _ WF) Hin HD) as HL.
  apply in_split in HL. destruct HL as (l1 & l2 & E). exists l1, l2. split; [exact E|].
  rewrite (get_linearizable_log _ _ _ _ _ _ WF H0 H1), E, ops_app, ops_cons. reflexivity.
Qed.

Theorem read_ignores_later_writes evs1 t' b :
  wf_sched true evs1 = true -> ~ In (ESpawn t' (PWrite b)) evs1 -> ~ In (t', b) (commit_log evs1).
Proof. intros WF H1 H2. apply H1. apply log_only_submitted; assumption. Qed.

(** * T4: writers exactly once *)

Lemma filter_none_seq (f : entry -> N) l n :
  ~ In n (map f l) -> filter (fun x => f x =? n) l = [].
Proof.
  induction l as [|x l IH]; intros H; [reflexivity|]. cbn [filter map In] in *.
  destruct (f x =? n) eqn:E; [apply N.eqb_eq in E; tauto|]. apply IH. tauto.
Qed.

Lemma filter_unique (f : entry -> N) l e :
  NoDup (map f l) -> In e l -> filter (fun x => f x =? f e) l = [e].
Proof.
  induction l as [|x l IH]; intros ND H; [destruct H|]. cbn [map] in ND.
  inversion ND as [|? ? Hx ND']. subst. cbn [filter]. destruct H as [->|H].
  - rewrite N.eqb_refl. f_equal. apply filter_none_seq. exact Hx.
  - destruct (f x =? f e) eqn:E; [|apply IH; assumption].
    apply N.eqb_eq in E. exfalso. apply Hx. rewrite E. apply in_map. exact H.
Qed.

Lemma log_step_of evs t b :
  In (t, b) (commit_log evs) ->
  exists evs1 e evs2, evs = evs1 ++ e :: evs2 /\ In (t, b) (delta_log (sched_run true evs1) e).
Proof.
  induction evs as [|e evs IH] using rev_ind; [intros []|].
  rewrite commit_log_snoc. intros H. apply in_app_or in H. destruct H as [H|H].
  - destruct (IH H) as (evs1 & e1 & evs2 & -> & D). exists evs1, e1, (evs2 ++ [e]).
    split; [rewrite <- app_assoc; reflexivity|exact D].
  - exists evs, e, []. split; [reflexivity|exact H].
Qed.

Theorem writers_exactly_once evs t b r :
  wf_sched true evs = true -> In (ESpawn t (PWrite b)) evs ->
  pc_of (sched_run true evs) t = Some (Done r) ->
  let s := sched_run true evs in
  exists l1 l2,
    commit_log evs = l1 ++ (t, b) :: l2 /\ ~ In t (map fst l1) /\ ~ In t (map fst l2) /\
    let a := len (ops l1) in
    (forall e, In e (ents a b) ->
       filter (fun x : entry => sq x =? sq e) (mall (c_mems s)) = [e]) /\
    a + len b <= c_seq s /\
    exists evs1 e evs2, evs = evs1 ++ e :: evs2 /\
      c_seq (sched_run true evs1) <= a /\ a + len b <= c_seq (sched_run true (evs1 ++ [e])).
Proof.
  intros WF Hin HD s.
  pose proof (acknowledged_in_log evs t b r WF Hin HD) as HL.
  destruct (log_step_of evs t b HL) as (evs1 & e & evs2 & Eev & D).
  assert (Eev' : evs = (evs1 ++ [e]) ++ evs2) by (rewrite <- app_assoc; exact Eev).
  assert (WF1 : wf_sched true (evs1 ++ [e]) = true) by (rewrite Eev' in WF; eapply wf_sched_app_l; exact WF).
  assert (WF0 : wf_sched true evs1 = true) by (eapply wf_sched_app_l; exact WF1).
  apply in_split in D. destruct D as (d1 & d2 & ED).
  destruct (commit_log_app (evs1 ++ [e]) evs2) as [rest ER]. rewrite <- Eev' in ER.
  rewrite commit_log_snoc, ED in ER.
  exists (commit_log evs1 ++ d1), (d2 ++ rest).
  assert (EL : commit_log evs = (commit_log evs1 ++ d1) ++ (t, b) :: d2 ++ rest).
  { rewrite ER, <- !app_assoc. reflexivity. }
  pose proof (log_nodup evs WF) as ND. rewrite EL, map_app in ND. cbn [map fst] in ND.
  apply NoDup_remove_2 in ND.
  pose proof (ginv_reachable evs WF) as G. fold s in G. pose proof G as [T M].
  split; [exact EL|]. split; [intros H; apply ND; apply in_or_app; left; exact H|].
  split; [intros H; apply ND; apply in_or_app; right; exact H|]. cbn zeta. split; [|split].
  - intros x Hx. apply (filter_unique (fun e0 : entry => sq e0)); [apply (m_nodupseq _ _ M)|]. apply (m_exact2 _ _ M).
    remember (commit_log evs1 ++ d1) as L1 eqn:EL1. rewrite EL. rewrite ops_app.
    change (ops ((t, b) :: d2 ++ rest)) with (b ++ ops (d2 ++ rest)). rewrite <- !app_assoc.
    apply (block_present (ops L1) b (ops (d2 ++ rest) ++ inflight s)). exact Hx.
  - rewrite (ginv_seq _ _ _ G), EL, !ops_app, ops_cons, !len_app. lia.
  - exists evs1, e, evs2. split; [exact Eev|].
    rewrite (cseq_log _ WF0), (cseq_log _ WF1), commit_log_snoc, ED.
    rewrite !ops_app, ops_cons, !len_app. lia.
Qed.

(** the publication step of a non-empty batch is unique *)
Theorem publish_step_unique evs a n evs1 e evs2 evs1' e' evs2' :
  wf_sched true evs = true -> 0 < n ->
  evs = evs1 ++ e :: evs2 -> evs = evs1' ++ e' :: evs2' ->
  c_seq (sched_run true evs1) <= a -> a + n <= c_seq (sched_run true (evs1 ++ [e])) ->
  c_seq (sched_run true evs1') <= a -> a + n <= c_seq (sched_run true (evs1' ++ [e'])) ->
  evs1 = evs1'.
Proof.
  intros WF Hn E1 E2 A1 A2 B1 B2.
  assert (KEY : forall x y ex ey x2 y2, evs = x ++ ex :: x2 -> evs = y ++ ey :: y2 ->
            c_seq (sched_run true x) <= a -> a + n <= c_seq (sched_run true (y ++ [ey])) ->
            forall m, x = y ++ ey :: m -> False).
  { intros x y ex ey x2 y2 Ex Ey Ax Ay m Em.
    assert (Wx : wf_sched true x = true) by (rewrite Ex in WF; eapply wf_sched_app_l; exact WF).
    assert (Em' : x = (y ++ [ey]) ++ m) by (rewrite <- app_assoc; exact Em).
    rewrite Em' in Wx. pose proof (c_seq_monotone _ _ Wx) as Mo. rewrite <- Em' in Mo. lia. }
  rewrite E1 in E2. destruct (split_compare _ _ _ _ _ E2) as [[m Em]|[m Em]].
  - destruct m as [|x m]; [rewrite app_nil_r in Em; exact Em|]. exfalso.
    rewrite Em, <- app_assoc in E2. apply app_inv_head in E2. cbn in E2. inversion E2. subst x.
    eapply (KEY evs1 evs1' e e' evs2 evs2'); [exact E1|rewrite E1, Em, <- app_assoc; cbn; f_equal; f_equal; exact H1|exact A1|exact B2|exact Em].
  - exfalso. eapply (KEY evs1' evs1 e' e evs2' evs2); [|exact E1|exact B1|exact A2|exact Em].
    rewrite E1. exact E2.
Qed.

(** * T3: the unrepaired code ([get] loads the memtable pointer after unlocking) loses a
    committed write *)

Definition ch0 : choice := mkChoice 1 false.
Definition chR : choice := mkChoice 1 true.

Definition d6_evs1 : list sched_ev :=
  [ESpawn 1 (PWrite [WPut [107] [118]]);
   EStep 1 ch0; EStep 1 ch0; EStep 1 ch0; EStep 1 ch0; EStep 1 ch0;
   ESpawn 2 (PGet [107])].

Definition d6_evs2 : list sched_ev :=
  [ESpawn 3 (PWrite [WPut [120] [121]]);
   EStep 3 chR; EStep 3 ch0; EStep 3 ch0; EStep 3 ch0; EStep 3 ch0;
   ESpawn 4 PFlush; EStep 4 ch0; EStep 4 ch0;
   EStep 2 ch0].

Theorem C05_d6_refuted_proof :
  exists evs1 t c evs2 k r,
    wf_sched false (evs1 ++ EStep t c :: evs2) = true /\
    pc_of (sched_run false evs1) t = Some (RStart k) /\
    pc_of (sched_run false (evs1 ++ EStep t c :: evs2)) t = Some (Done (Some r)) /\
    spec_get (sched_run false evs1) k (c_seq (sched_run false evs1)) = Some [118] /\
    r = None.
Proof.
  exists d6_evs1, 2, ch0, d6_evs2, [107], None.
  split; [vm_compute; reflexivity|]. split; [vm_compute; reflexivity|].
  split; [vm_compute; reflexivity|]. split; [vm_compute; reflexivity|reflexivity].
Qed.

(** the same schedule on the repaired code returns the committed value *)
Theorem C05_d6_fixed_proof :
  pc_of (sched_run true (d6_evs1 ++ EStep 2 ch0 :: d6_evs2)) 2 = Some (Done (Some (Some [118]))).
Proof. vm_compute. reflexivity. Qed.

(** * the boolean shadow follows from the invariant *)

Lemma meml_in_nodup ms id es : NoDup (map fst ms) -> In (id, es) ms -> meml ms id = es.
Proof.
  induction ms as [|[a l] ms IH]; intros ND H; [destruct H|]. cbn [map fst] in ND.
  inversion ND as [|? ? Ha ND']. subst. rewrite meml_cons. destruct H as [H|H].
  - inversion H. subst. rewrite N.eqb_refl. reflexivity.
  - destruct (a =? id) eqn:E; [|apply IH; assumption]. apply N.eqb_eq in E. subst a.
    exfalso. apply Ha. eapply in_map_fst. exact H.
Qed.

Theorem ginv_cinv_b W log s : GInv W log s -> cinv_b s = true.
Proof.
  intros G. pose proof G as [T M]. unfold cinv_b. rewrite !andb_true_iff.
  split; [split; [split; [split|]|]|].
  - unfold gchain. rewrite rsrcs_eq. cbn [forallb]. rewrite (m_sorted _ _ M). cbn [andb]. unfold rtail.
    rewrite forallb_app, (m_tsorted _ _ M), andb_true_r.
    destruct (c_imm s) as [i|]; [cbn [forallb]; rewrite (m_sorted _ _ M)|]; reflexivity.
  - apply (m_rec _ _ M).
  - apply forallb_forall. intros es Hes. apply in_map_iff in Hes. destruct Hes as ([id es'] & E & Hin).
    cbn in E. subst es'. rewrite <- (meml_in_nodup _ _ _ (m_nodup _ _ M) Hin). apply (m_sorted _ _ M).
  - apply forallb_forall. intros e He. apply N.leb_le. eapply ginv_seq_pos; eassumption.
  - apply forallb_forall. intros e He. apply existsb_exists. exists e.
    split; [apply (m_cover _ _ M); exact He|]. apply ikey_eqb_iff. reflexivity.
Qed.

Theorem cinv_b_reachable evs : wf_sched true evs = true -> cinv_b (sched_run true evs) = true.
Proof. intros WF. eapply ginv_cinv_b. apply ginv_reachable. exact WF. Qed.

(** * plain-language projections of the invariant *)

(** the entries that exist are exactly the operations of the commit log followed by the
    operations the leader has inserted so far, numbered from 1 *)
Theorem entries_exact evs :
  wf_sched true evs = true ->
  let s := sched_run true evs in
  c_seq s = len (ops (commit_log evs)) /\
  (forall e, In e (all_centries s) <-> In e (ents 0 (ops (commit_log evs) ++ inflight s))) /\
  NoDup (map (fun e : entry => sq e) (mall (c_mems s))).
Proof.
  intros WF s. pose proof (ginv_reachable evs WF) as G. fold s in G. pose proof G as [T M].
  split; [eapply ginv_seq; exact G|]. split; [|apply (m_nodupseq _ _ M)].
  intros e. split; [apply (m_exact1 _ _ M)|]. intros H. apply all_split. left. apply (m_exact2 _ _ M). exact H.
Qed.

(** entries above the published sequence number belong to the group of the leader *)
Theorem unpublished_entries_inflight evs e :
  wf_sched true evs = true ->
  let s := sched_run true evs in
  In e (all_centries s) -> 1 <= sq e /\ (c_seq s < sq e -> In e (ents (c_seq s) (inflight s))).
Proof.
  intros WF s He. destruct (entries_exact evs WF) as (E1 & E2 & _). fold s in E1, E2.
  apply E2 in He. split; [apply ents_seq in He; lia|]. intros L.
  rewrite ents_app, N.add_0_l, <- E1 in He. apply in_app_or in He. destruct He as [He|He]; [|exact He].
  apply ents_seq in He. lia.
Qed.

(** at most one thread is between taking a group and publishing it; it is the head of the queue *)
Theorem one_leader evs t1 t2 p1 p2 :
  wf_sched true evs = true ->
  let s := sched_run true evs in
  pc_of s t1 = Some p1 -> pc_of s t2 = Some p2 -> leading p1 = true -> leading p2 = true ->
  t1 = t2 /\ exists rest, c_queue s = t1 :: rest.
Proof.
  intros WF s H1 H2 L1 L2. pose proof (ginv_reachable evs WF) as [T M]. fold s in T.
  rewrite pc_of_pcl in H1, H2. split; [eapply leader_unique; eassumption|].
  eapply (t_head _ _ _ _ _ _ T); eassumption.
Qed.

(** what a parked reader holds *)
Theorem parked_reader_ok evs t k q mo imm tabs :
  wf_sched true evs = true ->
  let s := sched_run true evs in
  pc_of s t = Some (RCaptured k q mo imm tabs) ->
  exists m, mo = Some m /\ reader_ok s q m imm tabs /\
            lookup_sources (rsrcs s m imm tabs) k q = spec_get s k q.
Proof.
  intros WF s H. pose proof (ginv_reachable evs WF) as G. fold s in G. pose proof G as [T M].
  destruct (m_reader _ _ M _ _ _ _ _ _ H) as (m & E & R). exists m. split; [exact E|]. split; [exact R|].
  eapply reader_answer; [exact M|eapply ginv_uniq; exact G|exact R].
Qed.

(** * a static sufficient condition for the freshness clause of [wf_sched] *)

Definition spawn_ids (evs : list sched_ev) : list tid :=
  flat_map (fun e => match e with ESpawn t _ => [t] | _ => [] end) evs.

(** the flush clause alone: a [PFlush] is spawned only when no flush is in progress *)
Fixpoint flush_disc_from (d : bool) (s : cstate) (evs : list sched_ev) : bool :=
  match evs with
  | [] => true
  | e :: r =>
      match e with ESpawn _ PFlush => no_flusher s | _ => true end
      && flush_disc_from d (sched_step d s e) r
  end.

Definition flush_disc (d : bool) (evs : list sched_ev) : bool := flush_disc_from d c_init evs.

Lemma flush_disc_from_app d evs1 : forall s evs2,
  flush_disc_from d s (evs1 ++ evs2)
  = flush_disc_from d s evs1 && flush_disc_from d (fold_left (sched_step d) evs1 s) evs2.
Proof.
  induction evs1 as [|e r IH]; intros s evs2; [reflexivity|].
  cbn [app flush_disc_from fold_left]. rewrite IH, andb_assoc. reflexivity.
Qed.

Lemma set_pc_fst ths t p : map fst (set_pc ths t p) = map fst ths.
Proof.
  unfold set_pc. rewrite map_map. apply map_ext. intros [a pa]. cbn [fst].
  destruct (a =? t) eqn:E; [|reflexivity]. apply N.eqb_eq in E. cbn. congruence.
Qed.

Lemma follow_fst g : forall ths t, map fst (follow ths t g) = map fst ths.
Proof.
  induction g as [|[mt mb] g IH]; intros ths t; [reflexivity|]. rewrite follow_cons, IH.
  destruct (mt =? t); [reflexivity|apply set_pc_fst].
Qed.

Lemma finish_fst ms : forall ths, map fst (finish ths ms) = map fst ths.
Proof.
  induction ms as [|m ms IH]; intros ths; [reflexivity|]. unfold finish in *. cbn [fold_left].
  rewrite IH. apply set_pc_fst.
Qed.

Lemma cstep_tids d s t c s' :
  cstep d s t c = Some s' -> map fst (c_threads s') = map fst (c_threads s).
Proof.
  intros HS. destruct (pc_of s t) as [p|] eqn:Hp; [|rewrite cstep_none in HS by exact Hp; discriminate].
  destruct p as [b0|g b m todo nx|g b m|g b n| |k|k q mo imm tabs| |i|r].
  - rewrite (cstep_WQueued _ _ _ _ _ Hp) in HS. destruct (c_queue s) as [|h0 rest0]; [discriminate|].
    destruct (negb (h0 =? t)); [discriminate|]. destruct (ch_rotate c && imm_some s); [discriminate|].
    inversion HS. cbn [form_group c_threads]. rewrite set_pc_fst, follow_fst.
    destruct (ch_rotate c); reflexivity.
  - destruct todo as [|o r].
    + rewrite (cstep_WLeading_nil _ _ _ _ _ _ _ _ Hp) in HS. inversion HS. apply set_pc_fst.
    + rewrite (cstep_WLeading_cons _ _ _ _ _ _ _ _ _ _ Hp) in HS. inversion HS. apply set_pc_fst.
  - rewrite (cstep_WBeforeWal _ _ _ _ _ _ _ Hp) in HS. inversion HS. apply set_pc_fst.
  - rewrite (cstep_WPublish _ _ _ _ _ _ _ Hp) in HS. inversion HS. apply finish_fst.
  - rewrite (cstep_WFollower _ _ _ _ Hp) in HS. discriminate.
  - rewrite (cstep_RStart _ _ _ _ _ Hp) in HS. inversion HS. apply set_pc_fst.
  - unfold cstep in HS. rewrite Hp in HS. inversion HS. apply set_pc_fst.
  - rewrite (cstep_FStart _ _ _ _ Hp) in HS. inversion HS. apply set_pc_fst.
  - rewrite (cstep_FBuilding _ _ _ _ _ Hp) in HS. inversion HS. apply set_pc_fst.
  - rewrite (cstep_Done _ _ _ _ _ Hp) in HS. discriminate.
Qed.

Lemma pcl_notin_none ths t : ~ In t (map fst ths) -> pcl ths t = None.
Proof.
  induction ths as [|[a pa] ths IH]; intros H; [reflexivity|]. cbn [map fst In] in H.
  rewrite pcl_cons. destruct (a =? t) eqn:E; [apply N.eqb_eq in E; tauto|]. apply IH. tauto.
Qed.

Lemma spawn_ids_snoc evs e :
  spawn_ids (evs ++ [e]) = spawn_ids evs ++ match e with ESpawn t _ => [t] | _ => [] end.
Proof. unfold spawn_ids. rewrite flat_map_app. cbn [flat_map]. rewrite app_nil_r. reflexivity. Qed.

Lemma run_tids d evs t : In t (map fst (c_threads (sched_run d evs))) -> In t (spawn_ids evs).
Proof.
  induction evs as [|e evs IH] using rev_ind; [intros []|].
  rewrite sched_run_snoc, spawn_ids_snoc, in_app_iff. destruct e as [t0 p|t0 c]; cbn [sched_step].
  - intros H. assert (H' : t0 = t \/ In t (map fst (c_threads (sched_run d evs)))).
    { destruct p; cbn [spawn c_threads map fst] in H; exact H. }
    destruct H' as [->|H']; [right; left; reflexivity|left; apply IH; exact H'].
  - destruct (cstep d (sched_run d evs) t0 c) as [s'|] eqn:HS.
    + rewrite (cstep_tids _ _ _ _ _ HS). intros H. left. apply IH. exact H.
    + intros H. left. apply IH. exact H.
Qed.

(** thread ids spawned at most once + the flush clause = a well-formed schedule *)
Theorem wf_sched_static d evs :
  NoDup (spawn_ids evs) -> flush_disc d evs = true -> wf_sched d evs = true.
Proof.
  induction evs as [|e evs IH] using rev_ind; intros ND FD; [reflexivity|].
  rewrite wf_sched_snoc. unfold flush_disc in FD. rewrite flush_disc_from_app in FD.
  apply andb_true_iff in FD. destruct FD as [FD1 FD2]. fold (sched_run d evs) in FD2.
  rewrite spawn_ids_snoc in ND. apply andb_true_iff. split.
  - apply IH; [|exact FD1]. destruct e; [|rewrite app_nil_r in ND; exact ND].
    apply NoDup_remove_1 in ND. rewrite app_nil_r in ND. exact ND.
  - destruct e as [t p|t c]; [|reflexivity]. cbn [ok_ev]. apply andb_true_iff. split.
    + rewrite pc_of_pcl, pcl_notin_none; [reflexivity|]. intros H. apply run_tids in H.
      apply NoDup_remove_2 in ND. apply ND. rewrite app_nil_r. exact H.
    + cbn [flush_disc_from] in FD2. rewrite andb_true_r in FD2. destruct p; try reflexivity. exact FD2.
Qed.
