(** Lemmas about checksum masking. *)
From Coq Require Import Lia ZArith ZifyN ZifyBool.
From RainVerif Require Import Params.
From RainVerif.model Require Import Bytes Crc.
Open Scope N_scope.
Ltac Zify.zify_post_hook ::= Z.div_mod_to_equations.

Lemma rot_left_right c : c < two32 -> rot_left15 (rot_right15 c) = c.
Proof.
  unfold two32, rot_left15, rot_right15. intros Hc. lia.
Qed.

Lemma rot_right15_bound c : c < two32 -> rot_right15 c < two32.
Proof. unfold two32, rot_right15. intros Hc. lia. Qed.

Lemma unmask_mask c : c < two32 -> unmask_checksum (mask_checksum c) = c.
Proof.
  intros Hc. unfold unmask_checksum, mask_checksum.
  pose proof (rot_right15_bound c Hc) as Hr.
  set (r := rot_right15 c) in *.
  replace ((((r + CRC_MASKING_DELTA) mod two32 + two32 - CRC_MASKING_DELTA mod two32) mod two32))
    with r.
  - subst r. apply rot_left_right; assumption.
  - unfold two32 in *. generalize CRC_MASKING_DELTA. intros d. lia.
Qed.

Lemma mask_bound c : mask_checksum c < two32.
Proof. unfold mask_checksum, two32. lia. Qed.

Lemma crc32c_bound d : crc32c d < two32.
Proof. unfold crc32c, two32. lia. Qed.
