(** M7: histories of sessions. Every session starts from what the previous one left (after a crash
    anywhere in its effects, torn or not, or after a clean shutdown); what is left is always
    [Crashed]: recovery returns the batches acknowledged so far (up to the crash point). This is
    the development of [ProtoProofs] redone with [Crashed] ([ProtoCrash]) in place of
    [crash_ok] / [Closed]. *)
From Coq Require Import Lia Arith List NArith Bool.
From RainVerif Require Import Params.
From RainVerif.model Require Import Bytes Key Block Crc Log Table TableSpec Version Lsm DbSpec Codec WalModel Gc Recover Proto.
From RainVerif.proofs Require Import ContentsProofs ProtoDurable ProtoSteps ProtoOpen ProtoInstall ProtoCrash ProtoProofs.
Import ListNotations.
Open Scope N_scope.
Arguments N.add : simpl never.
Arguments N.sub : simpl never.
Arguments N.mul : simpl never.
Arguments N.eqb : simpl never.
Arguments N.ltb : simpl never.
Arguments N.leb : simpl never.
Arguments N.of_nat : simpl never.
Arguments N.to_nat : simpl never.

(** the state between two operations of a run that started from a crashed directory *)
Definition RInvC (s : prun) (acked : list batch) : Prop :=
  pr_failed s = false /\
  match pr_db s with
  | Some d => pr_img s = pd_img d /\ InvE d acked
  | None => Crashed (pr_img s) acked
  end.

Lemma RInvC_Crashed s acked : RInvC s acked -> Crashed (pr_img s) acked.
Proof.
  intros [_ HR]. destruct (pr_db s) as [d|]; [|exact HR].
  destruct HR as [-> IE]. apply InvE_Crashed. exact IE.
Qed.

Lemma RInv_RInvC s acked : RInv s acked -> RInvC s acked.
Proof.
  intros [Hf HR]. split; [exact Hf|]. destruct (pr_db s) as [d|]; [exact HR|].
  apply Closed_Crashed. left. exact HR.
Qed.

(** * one step *)
Lemma step_safe_c s o acked :
  RInvC s acked -> step_okP s o -> pr_failed (fst (p_step s o)) = false ->
  pr_img (fst (p_step s o)) = apply_fsops (pr_img s) (snd (p_step s o)) /\
  RInvC (fst (p_step s o)) (acked ++ firstn (step_writes s o) (acked_batches (nops acked) [o])) /\
  forall n torn, (n <= length (snd (p_step s o)))%nat ->
    Crashed (crash_image (pr_img s) (snd (p_step s o)) n torn)
            (acked ++ firstn (step_extra s o n torn) (acked_batches (nops acked) [o])).
Proof.
  intros HRC Hok Hnf. pose proof (RInvC_Crashed _ _ HRC) as HC. destruct HRC as [Hf HR].
  unfold step_extra, step_writes. unfold p_step in *. rewrite Hf in *.
  destruct o as [oo|b| |l sz q|del add ptr q]; unfold step_okP, step_ok in Hok.
  - (* QOpen *)
    destruct (p_open oo (pr_img s)) as [[d' ops]|] eqn:E.
    + cbn [fst snd pr_img pr_db pr_failed acked_batches firstn] in *.
      destruct (open_step_c oo _ acked d' ops HC Hok E) as (H1 & H2 & H3).
      rewrite app_nil_r.
      split; [exact H1|]. split.
      * split; [reflexivity|]. cbn [pr_db pr_img]. split; [reflexivity|exact H2].
      * intros n torn Hn. apply H3. exact Hn.
    + cbn [fst pr_failed] in Hnf. discriminate.
  - (* QWrite *)
    destruct (pr_db s) as [d|] eqn:Ed; [|discriminate].
    destruct HR as [Ei IE].
    pose proof (write_step d acked b IE Hok) as W. cbv zeta in W.
    destruct W as (W1 & W2 & W3 & W4 & _ & _).
    pose proof (write_step_crashed d acked b IE Hok) as WC. cbv zeta in WC.
    destruct WC as (W5 & W6).
    destruct (p_write d b) as [d' ops] eqn:E. cbn [fst snd] in *.
    subst ops. cbn [acked_batches]. rewrite <- W3.
    set (data := fst (log_append (pd_wal_boff d) (batch_bytes (pd_seq d + 1, b)))) in *.
    cbn [firstn pr_img pr_db pr_failed].
    split; [rewrite Ei; cbn [apply_fsops fold_left]; exact W2|].
    split.
    + split; [reflexivity|]. cbn [pr_db pr_img]. split; [reflexivity|exact W4].
    + intros n torn Hn. cbn [length] in Hn. rewrite Ei.
      destruct n as [|[|n]]; [| |lia].
      * rewrite crash_image_0. cbn [firstn]. rewrite app_nil_r. exact W5.
      * destruct torn as [t|].
        -- unfold crash_image. cbn [firstn nth_error torn_fsop apply_fsops fold_left].
           specialize (W6 t). destruct (length data <=? t)%nat.
           ++ cbn [firstn]. exact W6.
           ++ cbn [firstn]. rewrite app_nil_r. exact W6.
        -- unfold crash_image. cbn [firstn apply_fsops fold_left].
           specialize (W6 (length data)). rewrite firstn_all, Nat.leb_refl in W6. exact W6.
  - (* QRotate *)
    destruct (pr_db s) as [d|] eqn:Ed.
    + destruct HR as [Ei IE].
      assert (pd_imm d <> None \/ rotate_okb d = true) as Hc.
      { destruct (pd_imm d); [left; discriminate|right; exact Hok]. }
      destruct (rotate_step d acked IE Hc) as (H1 & H2 & _).
      pose proof (rotate_step_crashed d acked IE Hc) as H3.
      destruct (p_rotate d) as [d' ops] eqn:E. cbn [fst snd] in *.
      cbn [acked_batches firstn pr_img pr_db pr_failed]. rewrite app_nil_r.
      split; [rewrite Ei; exact H1|]. split.
      * split; [reflexivity|]. cbn [pr_db pr_img]. split; [reflexivity|exact H2].
      * intros n torn Hn. rewrite Ei. apply H3. exact Hn.
    + cbn [fst snd acked_batches firstn apply_fsops fold_left length]. rewrite app_nil_r.
      split; [reflexivity|]. split.
      * split; [exact Hf|]. rewrite Ed. exact HR.
      * intros n torn Hn. assert (n = 0)%nat as -> by lia. rewrite crash_image_0. exact HC.
  - (* QFlush *)
    destruct (pr_db s) as [d|] eqn:Ed.
    + destruct HR as [Ei IE].
      assert (pd_imm d = None \/ flush_okb d l sz q = true) as Hc.
      { destruct (pd_imm d); [right; exact Hok|left; reflexivity]. }
      destruct (p_flush d l sz q) as [[d' ops]|] eqn:E.
      * destruct (flush_step d acked l sz q d' ops IE Hc E) as (H1 & H2 & _).
        pose proof (flush_step_crashed d acked l sz q d' ops IE Hc E) as H3.
        cbn [fst snd acked_batches firstn pr_img pr_db pr_failed]. rewrite app_nil_r.
        split; [rewrite Ei; exact H1|]. split.
        -- split; [reflexivity|]. cbn [pr_db pr_img]. split; [reflexivity|exact H2].
        -- intros n torn Hn. rewrite Ei. apply H3. exact Hn.
      * cbn [fst pr_failed] in Hnf. discriminate.
    + cbn [fst snd acked_batches firstn apply_fsops fold_left length]. rewrite app_nil_r.
      split; [reflexivity|]. split.
      * split; [exact Hf|]. rewrite Ed. exact HR.
      * intros n torn Hn. assert (n = 0)%nat as -> by lia. rewrite crash_image_0. exact HC.
  - (* QInstall *)
    destruct (pr_db s) as [d|] eqn:Ed.
    + destruct HR as [Ei IE]. destruct Hok as [Hok HP].
      destruct (p_install d del add ptr q) as [[d' ops]|] eqn:E.
      * destruct (install_step d acked del add ptr q d' ops IE Hok HP E) as (H1 & H2 & _).
        pose proof (install_step_crashed d acked del add ptr q d' ops IE Hok HP E) as H3.
        cbn [fst snd acked_batches firstn pr_img pr_db pr_failed]. rewrite app_nil_r.
        split; [rewrite Ei; exact H1|]. split.
        -- split; [reflexivity|]. cbn [pr_db pr_img]. split; [reflexivity|exact H2].
        -- intros n torn Hn. rewrite Ei. apply H3. exact Hn.
      * cbn [fst pr_failed] in Hnf. discriminate.
    + cbn [fst snd acked_batches firstn apply_fsops fold_left length]. rewrite app_nil_r.
      split; [reflexivity|]. split.
      * split; [exact Hf|]. rewrite Ed. exact HR.
      * intros n torn Hn. assert (n = 0)%nat as -> by lia. rewrite crash_image_0. exact HC.
Qed.

(** * runs *)
Theorem run_crash_safe_c : forall ops s acked,
  RInvC s acked -> run_okP s ops -> pr_failed (fst (p_run s ops)) = false ->
  pr_img (fst (p_run s ops)) = apply_fsops (pr_img s) (snd (p_run s ops)) /\
  RInvC (fst (p_run s ops)) (acked ++ acked_batches (nops acked) ops) /\
  forall n torn, (n <= length (snd (p_run s ops)))%nat ->
    Crashed (crash_image (pr_img s) (snd (p_run s ops)) n torn)
            (acked ++ firstn (crash_k s ops n torn) (acked_batches (nops acked) ops)).
Proof.
  induction ops as [|o r IH]; intros s acked HR Hok Hnf.
  - cbn [p_run fst snd apply_fsops fold_left length crash_k acked_batches firstn].
    rewrite app_nil_r. split; [reflexivity|]. split; [exact HR|].
    intros n torn Hn. assert (n = 0)%nat as -> by lia.
    rewrite crash_image_0. apply RInvC_Crashed. exact HR.
  - destruct (p_run_cons s o r) as [E1 E2]. rewrite E1 in *. rewrite E2.
    cbn [run_okP] in Hok. destruct Hok as [Hok1 Hok2].
    assert (pr_failed (fst (p_step s o)) = false) as Hnf1.
    { destruct (pr_failed (fst (p_step s o))) eqn:F; [|reflexivity].
      destruct (failed_sticky r _ F) as [C _]. rewrite C in Hnf. discriminate. }
    destruct (step_safe_c s o acked HR Hok1 Hnf1) as (S1 & S2 & S3).
    pose proof (step_writes_length s o (nops acked) (proj1 HR) Hok1) as HL.
    rewrite HL, firstn_all in S2.
    destruct (IH _ _ S2 Hok2 Hnf) as (I1 & I2 & I3).
    rewrite acked_batches_cons.
    split; [|split].
    + rewrite I1, S1, apply_fsops_app. reflexivity.
    + rewrite List.app_assoc. rewrite nops_app in I2. exact I2.
    + intros n torn Hn. rewrite app_length in Hn.
      rewrite crash_image_app. cbn [crash_k].
      destruct (n <=? length (snd (p_step s o)))%nat eqn:En.
      * rewrite firstn_app_le by (rewrite <- HL; apply step_extra_le).
        apply S3. apply Nat.leb_le. exact En.
      * apply Nat.leb_gt in En. rewrite HL, firstn_app_exact, List.app_assoc.
        rewrite <- S1. rewrite nops_app in I3. apply I3. lia.
Qed.

(** * one session from a crashed directory *)
Lemma RInvC_start img bs : Crashed img bs -> RInvC (session_start img) bs.
Proof. intros H. split; [reflexivity|]. exact H. Qed.

Theorem session_safe img bs s : Crashed img bs -> session_okP img s ->
  Crashed (session_end img s) (bs ++ session_keeps img (nops bs) s).
Proof.
  intros HC (Hok & Hnf & Hn).
  destruct (run_crash_safe_c (fst s) (session_start img) bs (RInvC_start _ _ HC) Hok Hnf) as (_ & R2 & R3).
  unfold session_end, session_keeps. destruct (snd s) as [[n torn]|].
  - apply (R3 n torn Hn).
  - apply RInvC_Crashed. exact R2.
Qed.

(** * M7: every history of sessions, each ending in a crash (anywhere, torn or not) or cleanly,
    the next one opening what is left *)
Theorem history_safe : forall h img bs, Crashed img bs -> hist_okP img h ->
  Crashed (fst (hist_end img bs h)) (snd (hist_end img bs h)).
Proof.
  induction h as [|s r IH]; intros img bs HC Hok.
  - exact HC.
  - cbn [hist_end]. destruct Hok as [H1 H2]. apply IH; [|exact H2].
    apply session_safe; assumption.
Qed.

Lemma Crashed_empty : Crashed empty_image [].
Proof. apply Closed_Crashed. left. split; reflexivity. Qed.

Corollary history_safe_from_empty h : hist_okP empty_image h ->
  crash_ok (fst (hist_end empty_image [] h)) (snd (hist_end empty_image [] h)).
Proof. intros H. apply Crashed_crash_ok. apply history_safe; [exact Crashed_empty|exact H]. Qed.

Corollary history_safe_b h : hist_ok empty_image h = true ->
  crash_ok (fst (hist_end empty_image [] h)) (snd (hist_end empty_image [] h)).
Proof. intros H. apply history_safe_from_empty. apply hist_ok_okP. exact H. Qed.

(** spelled out: after any such history the database opens (once CURRENT exists) and recovers
    exactly the batches the history keeps *)
Corollary history_recovers h : hist_okP empty_image h ->
  let img := fst (hist_end empty_image [] h) in
  let bs := snd (hist_end empty_image [] h) in
  (i_current img = None /\ bs = []) \/
  exists rc, recover_image img = inl rc /\ rec_contents img rc = replay [] bs /\ rc_seq rc = nops bs.
Proof. intros H. exact (history_safe_from_empty h H). Qed.

(** C16: after a crash (image [Crashed] with batches [bs], e.g. a torn log tail), a session that
    reopens (any oracle, either reuse setting), writes and ends cleanly or in a later crash keeps
    [bs] and its own acknowledged prefix *)
Corollary writes_after_recovery_survive img bs s : Crashed img bs -> session_okP img s ->
  (i_current (session_end img s) = None /\ bs ++ session_keeps img (nops bs) s = []) \/
  exists rc, recover_image (session_end img s) = inl rc /\
     rec_contents (session_end img s) rc = replay [] (bs ++ session_keeps img (nops bs) s) /\
     rc_seq rc = nops (bs ++ session_keeps img (nops bs) s).
Proof. intros HC Hok. exact (Crashed_crash_ok _ _ (session_safe img bs s HC Hok)). Qed.

Print Assumptions session_safe.
Print Assumptions history_safe.
Print Assumptions history_safe_b.
Print Assumptions writes_after_recovery_survive.
