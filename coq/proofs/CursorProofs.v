(** Proofs for C04 (the iterators). Part 1: the merging iterator ([MergingIterator]) over sorted
    children with globally distinct (user key, sequence) pairs is a sorted-list cursor over the
    merged entries. Part 2: the database iterator ([DatabaseIterator], LevelDB's DBIter) over the
    merging iterator is a sorted-map cursor over the visible key-value pairs; corollary for the
    iterator handed out by a well-formed LSM state. No axioms. *)
From Coq Require Import Lia ZArith ZifyN ZifyBool ZifyNat Arith Permutation Sorted.
From RainVerif Require Import Params.
From RainVerif.model Require Import Bytes Key Block Table TableSpec Version Lsm LsmSpec DbSpec Cursor.
From RainVerif.proofs Require Import KeyProofs.
From RainVerif.proofs Require CompactProofs GetProofs.
Open Scope nat_scope.
Arguments N.add : simpl never.
Arguments N.sub : simpl never.
Arguments N.mul : simpl never.
Arguments N.div : simpl never.
Arguments N.modulo : simpl never.
Arguments N.eqb : simpl never.
Arguments N.ltb : simpl never.
Arguments N.leb : simpl never.
Arguments N.compare : simpl never.

Notation key_of := CompactProofs.key_of.
Notation elt := CompactProofs.elt.

(** every (user key, sequence) occurs once over all children *)
Definition keys_unique (ls : list (list entry)) : Prop :=
  NoDup (map (fun e => (ik_user (fst e), ik_seq (fst e))) (concat ls)).

(** a script never issues [CNext] / [CPrev] when the cursor is invalid *)
Fixpoint admissible_from (M : list entry) (p : option nat) (ops : list cop) : Prop :=
  match ops with
  | [] => True
  | o :: r =>
      match o with
      | CNext | CPrev => p <> None
      | _ => True
      end /\ admissible_from M (lc_step M p o) r
  end.

Definition admissible (M : list entry) (ops : list cop) : Prop := admissible_from M None ops.

(** * Generic list facts *)

Lemma list_nth_ext {A} (a b : list A) :
  (forall j, nth_error a j = nth_error b j) -> a = b.
Proof.
  revert b. induction a as [|x a IH]; intros b H.
  - destruct b as [|y b]; [reflexivity|]. specialize (H 0). discriminate.
  - destruct b as [|y b]; [specialize (H 0); discriminate|].
    pose proof (H 0) as H0. cbn [nth_error] in H0. inversion H0; subst. f_equal.
    apply IH. intros j. exact (H (S j)).
Qed.

Lemma nth_error_Some_lt {A} (l : list A) i x : nth_error l i = Some x -> i < length l.
Proof. intros H. apply nth_error_Some. congruence. Qed.

Lemma nth_error_rev {A} (l : list A) i :
  i < length l -> nth_error (rev l) i = nth_error l (length l - 1 - i).
Proof.
  induction l as [|a l IH]; cbn [length rev]; intros Hi; [lia|].
  destruct (Nat.eq_dec i (length l)) as [->|Hne].
  - rewrite nth_error_app2 by (rewrite rev_length; lia). rewrite rev_length, Nat.sub_diag.
    replace (S (length l) - 1 - length l) with 0 by lia. reflexivity.
  - rewrite nth_error_app1 by (rewrite rev_length; lia). rewrite IH by lia.
    replace (S (length l) - 1 - i) with (S (length l - 1 - i)) by lia. reflexivity.
Qed.

Lemma NoDup_app_disj {A} (a b : list A) x : NoDup (a ++ b) -> In x a -> In x b -> False.
Proof.
  induction a as [|y a IH]; cbn [app]; intros H Ha Hb; [destruct Ha|].
  apply NoDup_cons_iff in H. destruct H as [H1 H2]. destruct Ha as [->|Ha].
  - apply H1. apply in_or_app. right. exact Hb.
  - apply IH; assumption.
Qed.

Lemma NoDup_concat_disj {A B} (g : A -> B) (ls : list (list A)) :
  NoDup (map g (concat ls)) ->
  forall i j a b x y, i < j -> nth_error ls i = Some a -> nth_error ls j = Some b ->
    In x a -> In y b -> g x <> g y.
Proof.
  induction ls as [|l0 r IH]; intros Hnd i j a b x y Hij Ha Hb Hx Hy E.
  - destruct i; discriminate.
  - cbn [concat] in Hnd. rewrite map_app in Hnd. destruct j as [|j]; [lia|].
    cbn [nth_error] in Hb. destruct i as [|i]; cbn [nth_error] in Ha.
    + inversion Ha; subst a. apply (NoDup_app_disj _ _ (g x) Hnd).
      * apply in_map. exact Hx.
      * rewrite E. apply in_map. apply in_concat. exists b. split; [|exact Hy].
        eapply nth_error_In. exact Hb.
    + assert (Hnd' : NoDup (map g (concat r))).
      { clear -Hnd. induction (map g l0) as [|z t IHt]; cbn [app] in Hnd; [exact Hnd|].
        apply NoDup_cons_iff in Hnd. tauto. }
      apply (IH Hnd' i j a b x y); auto. lia.
Qed.

(** * The order on entries *)

Lemma SS_nth l : StronglySorted elt l ->
  forall i j a b, i < j -> nth_error l i = Some a -> nth_error l j = Some b ->
  ikey_lt (fst a) (fst b).
Proof.
  induction l as [|e r IH]; intros H i j a b Hij Ha Hb.
  - destruct i; discriminate.
  - apply StronglySorted_inv in H. destruct H as [Hr He].
    destruct j as [|j]; [lia|]. cbn [nth_error] in Hb.
    destruct i as [|i]; cbn [nth_error] in Ha.
    + inversion Ha; subst. rewrite Forall_forall in He. apply He. eapply nth_error_In; eauto.
    + eapply (IH Hr i j); eauto. lia.
Qed.

Lemma SS_nth_le l : StronglySorted elt l ->
  forall i j a b, i <= j -> nth_error l i = Some a -> nth_error l j = Some b ->
  ikey_le (fst a) (fst b).
Proof.
  intros H i j a b Hij Ha Hb. destruct (Nat.eq_dec i j) as [->|Hne].
  - rewrite Ha in Hb. inversion Hb; subst. apply ikey_le_refl.
  - apply ikey_lt_le. apply (SS_nth l H i j a b); [lia|exact Ha|exact Hb].
Qed.

Lemma SS_nth_inv l : StronglySorted elt l ->
  forall i j a b, nth_error l i = Some a -> nth_error l j = Some b ->
  ikey_lt (fst a) (fst b) -> i < j.
Proof.
  intros H i j a b Ha Hb L. destruct (Nat.lt_ge_cases i j) as [C|C]; [exact C|]. exfalso.
  pose proof (SS_nth_le l H j i b a C Hb Ha) as Le. apply ikey_not_lt_le in Le. contradiction.
Qed.

(** * Prefix counts of downward closed predicates *)

Fixpoint pfx (f : entry -> bool) (l : list entry) : nat :=
  match l with
  | [] => 0
  | e :: r => if f e then S (pfx f r) else 0
  end.

Definition fpos (f : entry -> bool) (l : list entry) : option nat :=
  if Nat.ltb (pfx f l) (length l) then Some (pfx f l) else None.

Definition bpos (f : entry -> bool) (l : list entry) : option nat :=
  match pfx f l with 0 => None | S n => Some n end.

Definition ltk (t : ikey) (e : entry) : bool := ikey_ltb (fst e) t.
Definition lek (t : ikey) (e : entry) : bool := negb (ikey_ltb t (fst e)).

Definition cut (f : entry -> bool) : Prop :=
  forall a b : entry, ikey_le (fst a) (fst b) -> f b = true -> f a = true.

Lemma cut_ltk t : cut (ltk t).
Proof.
  intros a b Le H. unfold ltk in *. apply ikey_ltb_iff in H. apply ikey_ltb_iff.
  eapply ikey_le_lt_trans; eassumption.
Qed.

Lemma cut_lek t : cut (lek t).
Proof.
  intros a b Le H. unfold lek in *. apply negb_true_iff in H. apply negb_true_iff.
  apply ikey_ltb_false_iff in H. apply ikey_ltb_false_iff. eapply ikey_le_trans; eassumption.
Qed.

Lemma cut_false : cut (fun _ => false).
Proof. intros a b _ H. discriminate. Qed.

Lemma cut_true : cut (fun _ => true).
Proof. intros a b _ _. reflexivity. Qed.

Lemma pfx_le f l : pfx f l <= length l.
Proof. induction l as [|e r IH]; cbn [pfx length]; [lia|]. destruct (f e); lia. Qed.

Lemma pfx_lt_true f l : forall i e, i < pfx f l -> nth_error l i = Some e -> f e = true.
Proof.
  induction l as [|x r IH]; cbn [pfx]; intros i e Hi Hn; [lia|].
  destruct (f x) eqn:E; [|lia]. destruct i as [|i]; cbn [nth_error] in Hn.
  - inversion Hn; subst; exact E.
  - eapply IH; eauto. lia.
Qed.

Lemma pfx_at_false f l e : nth_error l (pfx f l) = Some e -> f e = false.
Proof.
  induction l as [|x r IH]; cbn [pfx]; [discriminate|].
  destruct (f x) eqn:E; cbn [nth_error]; intros H; [auto|]. inversion H; subst; exact E.
Qed.

Lemma pfx_ext f g l : (forall e, In e l -> f e = g e) -> pfx f l = pfx g l.
Proof.
  induction l as [|x r IH]; intros H; cbn [pfx]; [reflexivity|].
  rewrite <- (H x (or_introl eq_refl)). rewrite IH; [reflexivity|].
  intros e He. apply H. right. exact He.
Qed.

Lemma pfx_unique f l n :
  n <= length l ->
  (forall i e, nth_error l i = Some e -> (f e = true <-> i < n)) ->
  pfx f l = n.
Proof.
  intros Hn H. destruct (Nat.lt_trichotomy (pfx f l) n) as [C|[C|C]]; [|exact C|]; exfalso.
  - destruct (nth_error l (pfx f l)) as [e|] eqn:E; [|apply nth_error_None in E; lia].
    pose proof (pfx_at_false _ _ _ E) as F. apply (H _ _ E) in C. congruence.
  - pose proof (pfx_le f l) as Hl.
    destruct (nth_error l n) as [e|] eqn:E; [|apply nth_error_None in E; lia].
    pose proof (pfx_lt_true f l n e C E) as T. apply (H _ _ E) in T. lia.
Qed.

Lemma pfx_spec f l : StronglySorted elt l -> cut f ->
  forall i e, nth_error l i = Some e -> (f e = true <-> i < pfx f l).
Proof.
  intros Hs Hc i e Hi. split; [|intros H; eapply pfx_lt_true; eauto].
  intros T. destruct (Nat.lt_ge_cases i (pfx f l)) as [C|C]; [exact C|]. exfalso.
  assert (Hl : i < length l) by (apply nth_error_Some; congruence).
  destruct (nth_error l (pfx f l)) as [x|] eqn:E; [|apply nth_error_None in E; lia].
  pose proof (pfx_at_false _ _ _ E) as F.
  pose proof (SS_nth_le l Hs _ _ _ _ C E Hi) as Le.
  rewrite (Hc _ _ Le T) in F. discriminate.
Qed.

Lemma pfx_at l n K v : StronglySorted elt l -> nth_error l n = Some (K, v) ->
  pfx (ltk K) l = n /\ pfx (lek K) l = S n.
Proof.
  intros Hs Hn. assert (Hl : n < length l) by (apply nth_error_Some; congruence).
  split; apply pfx_unique; try lia; intros i e Hi.
  - unfold ltk. rewrite ikey_ltb_iff. split.
    + intros L. eapply (SS_nth_inv l Hs i n); eauto.
    + intros L. apply (SS_nth l Hs i n e (K, v) L Hi Hn).
  - unfold lek. rewrite negb_true_iff, ikey_ltb_false_iff. split.
    + intros Le. destruct (Nat.lt_ge_cases i (S n)) as [C|C]; [exact C|]. exfalso.
      assert (L : ikey_lt (fst (K, v)) (fst e)) by (eapply (SS_nth l Hs n i); eauto; lia).
      apply ikey_not_lt_le in Le. contradiction.
    + intros L. apply (SS_nth_le l Hs i n e (K, v)); [lia|exact Hi|exact Hn].
Qed.

Lemma fpos_none f l : StronglySorted elt l -> cut f ->
  (fpos f l = None <-> forall e, In e l -> f e = true).
Proof.
  intros Hs Hc. unfold fpos. pose proof (pfx_le f l) as Hl. split.
  - destruct (Nat.ltb (pfx f l) (length l)) eqn:E; [discriminate|]. intros _ e He.
    apply Nat.ltb_ge in E. apply In_nth_error in He. destruct He as [i Hi].
    apply (pfx_spec f l Hs Hc i e Hi). apply nth_error_Some_lt in Hi. lia.
  - intros H. destruct (Nat.ltb (pfx f l) (length l)) eqn:E; [|reflexivity].
    apply Nat.ltb_lt in E. destruct (nth_error l (pfx f l)) as [x|] eqn:Ex.
    + pose proof (pfx_at_false _ _ _ Ex) as F. rewrite (H x) in F; [discriminate|].
      eapply nth_error_In; eauto.
    + apply nth_error_None in Ex. lia.
Qed.

Lemma fpos_some f l n : StronglySorted elt l -> cut f -> fpos f l = Some n ->
  n = pfx f l /\ exists e, nth_error l n = Some e /\ f e = false /\
    forall e', In e' l -> f e' = false -> ikey_le (fst e) (fst e').
Proof.
  intros Hs Hc. unfold fpos. destruct (Nat.ltb (pfx f l) (length l)) eqn:E; [|discriminate].
  intros H. inversion H; subst n. clear H. split; [reflexivity|]. apply Nat.ltb_lt in E.
  destruct (nth_error l (pfx f l)) as [x|] eqn:Ex; [|apply nth_error_None in Ex; lia].
  exists x. split; [reflexivity|]. split; [eapply pfx_at_false; eauto|].
  intros e' He' F. apply In_nth_error in He'. destruct He' as [i Hi].
  apply (SS_nth_le l Hs (pfx f l) i); auto.
  destruct (Nat.lt_ge_cases i (pfx f l)) as [C|C]; [|exact C].
  rewrite (pfx_lt_true f l i e' C Hi) in F. discriminate.
Qed.

Lemma bpos_none f l : StronglySorted elt l -> cut f ->
  (bpos f l = None <-> forall e, In e l -> f e = false).
Proof.
  intros Hs Hc. unfold bpos. split.
  - destruct (pfx f l) eqn:E; [|discriminate]. intros _ e He.
    apply In_nth_error in He. destruct He as [i Hi].
    destruct (f e) eqn:F; [|reflexivity]. apply (pfx_spec f l Hs Hc i e Hi) in F. lia.
  - intros H. destruct (pfx f l) eqn:E; [reflexivity|]. exfalso.
    pose proof (pfx_le f l) as Hl.
    destruct (nth_error l 0) as [x|] eqn:Ex; [|apply nth_error_None in Ex; lia].
    assert (T : f x = true) by (apply (pfx_lt_true f l 0 x); [lia|exact Ex]).
    rewrite (H x) in T; [discriminate|]. eapply nth_error_In; eauto.
Qed.

Lemma bpos_some f l n : StronglySorted elt l -> cut f -> bpos f l = Some n ->
  pfx f l = S n /\ exists e, nth_error l n = Some e /\ f e = true /\
    forall e', In e' l -> f e' = true -> ikey_le (fst e') (fst e).
Proof.
  intros Hs Hc. unfold bpos. destruct (pfx f l) eqn:E; [discriminate|].
  intros H. inversion H; subst n0. clear H. split; [reflexivity|].
  pose proof (pfx_le f l) as Hl.
  destruct (nth_error l n) as [x|] eqn:Ex; [|apply nth_error_None in Ex; lia].
  exists x. split; [reflexivity|]. split; [apply (pfx_lt_true f l n x); [lia|exact Ex]|].
  intros e' He' T. apply In_nth_error in He'. destruct He' as [i Hi].
  apply (SS_nth_le l Hs i n); auto. apply (pfx_spec f l Hs Hc i e' Hi) in T. lia.
Qed.

(** [lc_seek] is the prefix count of the keys below the target *)
Lemma lower_bound_from_pfx l : forall i t,
  lower_bound_from l i t =
  if Nat.ltb (pfx (ltk t) l) (length l) then Some (i + pfx (ltk t) l) else None.
Proof.
  induction l as [|x r IH]; intros i t; cbn [lower_bound_from pfx length]; [reflexivity|].
  change (ltk t x) with (ikey_ltb (fst x) t). destruct (ikey_ltb (fst x) t).
  - rewrite IH. change (Nat.ltb (S (pfx (ltk t) r)) (S (length r)))
      with (Nat.ltb (pfx (ltk t) r) (length r)).
    destruct (Nat.ltb (pfx (ltk t) r) (length r)); [f_equal; lia|reflexivity].
  - cbn. f_equal. lia.
Qed.

Lemma lc_seek_fpos l t : lc_seek l t = fpos (ltk t) l.
Proof. unfold lc_seek, fpos. rewrite lower_bound_from_pfx. reflexivity. Qed.

Lemma lc_first_fpos l : lc_first l = fpos (fun _ => false) l.
Proof. destruct l; reflexivity. Qed.

Lemma pfx_true l : pfx (fun _ => true) l = length l.
Proof. induction l as [|x r IH]; cbn [pfx length]; [reflexivity|]. rewrite IH. reflexivity. Qed.

Lemma lc_last_bpos l : lc_last l = bpos (fun _ => true) l.
Proof.
  unfold bpos. rewrite pfx_true. destruct l as [|x r]; [reflexivity|].
  cbn [lc_last length]. f_equal. lia.
Qed.

Lemma lc_next_fpos l n g : pfx g l = S n -> lc_next l (Some n) = fpos g l.
Proof. intros H. unfold lc_next, fpos. rewrite H. reflexivity. Qed.

Lemma lc_prev_bpos l n g : pfx g l = n -> lc_prev (Some n) = bpos g l.
Proof. intros H. unfold lc_prev, bpos. rewrite H. reflexivity. Qed.

Lemma turn_back l g :
  (if ch_valid (l, fpos g l) then ch_prev (l, fpos g l) else ch_last (l, fpos g l))
  = (l, bpos g l).
Proof.
  unfold ch_valid, ch_entry, ch_prev, ch_last, fpos. cbn [fst snd].
  pose proof (pfx_le g l) as Hl.
  destruct (Nat.ltb (pfx g l) (length l)) eqn:E.
  - apply Nat.ltb_lt in E. cbn [lc_current].
    destruct (nth_error l (pfx g l)) eqn:Ex; [|apply nth_error_None in Ex; lia].
    reflexivity.
  - apply Nat.ltb_ge in E. cbn [lc_current]. f_equal. rewrite lc_last_bpos. unfold bpos.
    rewrite pfx_true. replace (pfx g l) with (length l) by lia. reflexivity.
Qed.

(** * [find_smallest] / [find_largest] *)

Lemma fsf_none cs : forall i best,
  find_smallest_from cs i best = None <-> best = None /\ forall c, In c cs -> ch_entry c = None.
Proof.
  induction cs as [|c r IH]; intros i best; cbn [find_smallest_from].
  - split; [intros ->; split; [reflexivity|intros c []]|tauto].
  - rewrite IH. split.
    + intros [H1 H2]. destruct (ch_entry c) as [[k v]|] eqn:E.
      * destruct best as [[bi bk]|]; [destruct (ikey_ltb k bk)|]; discriminate.
      * split; [exact H1|]. intros c' [<-|Hc']; auto.
    + intros [-> H]. rewrite (H c (or_introl eq_refl)). split; [reflexivity|].
      intros c' Hc'. apply H. right. exact Hc'.
Qed.

Lemma fsf_min cs : forall i best r rk,
  find_smallest_from cs i best = Some (r, rk) ->
  (forall c k v, In c cs -> ch_entry c = Some (k, v) -> ikey_le rk k) /\
  (forall bi bk, best = Some (bi, bk) -> ikey_le rk bk).
Proof.
  induction cs as [|c rest IH]; intros i best r rk; cbn [find_smallest_from].
  - intros ->. split; [intros c k v []|]. intros bi bk E. inversion E; subst. apply ikey_le_refl.
  - intros H. apply IH in H. destruct H as [H1 H2].
    destruct (ch_entry c) as [[k v]|] eqn:E.
    + destruct best as [[bi bk]|].
      * destruct (ikey_ltb k bk) eqn:L.
        -- specialize (H2 _ _ eq_refl). split.
           ++ intros c' k' v' [<-|Hc'] E'; [|eapply H1; eauto].
              rewrite E in E'. inversion E'; subst. exact H2.
           ++ intros bi' bk' Eb. inversion Eb; subst. apply ikey_ltb_iff in L.
              eapply ikey_le_trans; [exact H2|]. apply ikey_lt_le. exact L.
        -- specialize (H2 _ _ eq_refl). split.
           ++ intros c' k' v' [<-|Hc'] E'; [|eapply H1; eauto].
              rewrite E in E'. inversion E'; subst. apply ikey_ltb_false_iff in L.
              eapply ikey_le_trans; eassumption.
           ++ intros bi' bk' Eb. inversion Eb; subst. exact H2.
      * specialize (H2 _ _ eq_refl). split.
        -- intros c' k' v' [<-|Hc'] E'; [|eapply H1; eauto].
           rewrite E in E'. inversion E'; subst. exact H2.
        -- intros bi bk Eb. discriminate.
    + split; [|exact H2]. intros c' k' v' [<-|Hc'] E'; [congruence|]. eapply H1; eauto.
Qed.

Lemma fsf_at cs : forall i best r rk,
  find_smallest_from cs i best = Some (r, rk) ->
  best = Some (r, rk) \/
  exists c v, i <= r /\ nth_error cs (r - i) = Some c /\ ch_entry c = Some (rk, v).
Proof.
  induction cs as [|c rest IH]; intros i best r rk; cbn [find_smallest_from].
  - intros ->. left. reflexivity.
  - intros H. apply IH in H. destruct H as [H|(c' & v' & Hi & Hn & He)].
    + destruct (ch_entry c) as [[k v]|] eqn:E.
      * assert (X : Some (i, k) = Some (r, rk) ->
                    exists c0 v0, i <= r /\ nth_error (c :: rest) (r - i) = Some c0 /\
                                  ch_entry c0 = Some (rk, v0)).
        { intros X. inversion X; subst. exists c, v. rewrite Nat.sub_diag. auto. }
        destruct best as [[bi bk]|]; [destruct (ikey_ltb k bk)|]; auto.
      * left. exact H.
    + right. exists c', v'. split; [lia|]. split; [|exact He].
      replace (r - i) with (S (r - S i)) by lia. exact Hn.
Qed.

Lemma find_smallest_none cs :
  find_smallest cs = None <-> forall c, In c cs -> ch_entry c = None.
Proof.
  unfold find_smallest. destruct (find_smallest_from cs 0 None) as [[r rk]|] eqn:E; cbn [option_map].
  - split; [discriminate|]. intros H.
    assert (X : find_smallest_from cs 0 None = None) by (apply fsf_none; auto). congruence.
  - apply fsf_none in E. split; [intros _; tauto|reflexivity].
Qed.

Lemma find_smallest_some cs i :
  find_smallest cs = Some i ->
  exists c k v, nth_error cs i = Some c /\ ch_entry c = Some (k, v) /\
    forall c' k' v', In c' cs -> ch_entry c' = Some (k', v') -> ikey_le k k'.
Proof.
  unfold find_smallest. destruct (find_smallest_from cs 0 None) as [[r rk]|] eqn:E;
    cbn [option_map fst]; [|discriminate].
  intros H. inversion H; subst r. clear H.
  pose proof (fsf_min _ _ _ _ _ E) as [M1 _].
  apply fsf_at in E. destruct E as [E|(c & v & _ & Hn & He)]; [discriminate|].
  rewrite Nat.sub_0_r in Hn. exists c, rk, v. auto.
Qed.

Lemma flr_none cs : forall i best,
  find_largest_rev cs i best = None <-> best = None /\ forall c, In c cs -> ch_entry c = None.
Proof.
  induction cs as [|c r IH]; intros i best; cbn [find_largest_rev].
  - split; [intros ->; split; [reflexivity|intros c []]|tauto].
  - rewrite IH. split.
    + intros [H1 H2]. destruct (ch_entry c) as [[k v]|] eqn:E.
      * destruct best as [[bi bk]|]; [destruct (ikey_ltb bk k)|]; discriminate.
      * split; [exact H1|]. intros c' [<-|Hc']; auto.
    + intros [-> H]. rewrite (H c (or_introl eq_refl)). split; [reflexivity|].
      intros c' Hc'. apply H. right. exact Hc'.
Qed.

Lemma flr_max cs : forall i best r rk,
  find_largest_rev cs i best = Some (r, rk) ->
  (forall c k v, In c cs -> ch_entry c = Some (k, v) -> ikey_le k rk) /\
  (forall bi bk, best = Some (bi, bk) -> ikey_le bk rk).
Proof.
  induction cs as [|c rest IH]; intros i best r rk; cbn [find_largest_rev].
  - intros ->. split; [intros c k v []|]. intros bi bk E. inversion E; subst. apply ikey_le_refl.
  - intros H. apply IH in H. destruct H as [H1 H2].
    destruct (ch_entry c) as [[k v]|] eqn:E.
    + destruct best as [[bi bk]|].
      * destruct (ikey_ltb bk k) eqn:L.
        -- specialize (H2 _ _ eq_refl). split.
           ++ intros c' k' v' [<-|Hc'] E'; [|eapply H1; eauto].
              rewrite E in E'. inversion E'; subst. exact H2.
           ++ intros bi' bk' Eb. inversion Eb; subst. apply ikey_ltb_iff in L.
              eapply ikey_le_trans; [|exact H2]. apply ikey_lt_le. exact L.
        -- specialize (H2 _ _ eq_refl). split.
           ++ intros c' k' v' [<-|Hc'] E'; [|eapply H1; eauto].
              rewrite E in E'. inversion E'; subst. apply ikey_ltb_false_iff in L.
              eapply ikey_le_trans; eassumption.
           ++ intros bi' bk' Eb. inversion Eb; subst. exact H2.
      * specialize (H2 _ _ eq_refl). split.
        -- intros c' k' v' [<-|Hc'] E'; [|eapply H1; eauto].
           rewrite E in E'. inversion E'; subst. exact H2.
        -- intros bi bk Eb. discriminate.
    + split; [|exact H2]. intros c' k' v' [<-|Hc'] E'; [congruence|]. eapply H1; eauto.
Qed.

Lemma flr_at cs : forall i best r rk,
  find_largest_rev cs i best = Some (r, rk) ->
  best = Some (r, rk) \/
  exists pos c v, nth_error cs pos = Some c /\ r = i - pos /\ ch_entry c = Some (rk, v).
Proof.
  induction cs as [|c rest IH]; intros i best r rk; cbn [find_largest_rev].
  - intros ->. left. reflexivity.
  - intros H. apply IH in H. destruct H as [H|(pos & c' & v' & Hn & Hr & He)].
    + destruct (ch_entry c) as [[k v]|] eqn:E.
      * assert (X : Some (i, k) = Some (r, rk) ->
                    exists pos c0 v0, nth_error (c :: rest) pos = Some c0 /\ r = i - pos /\
                                  ch_entry c0 = Some (rk, v0)).
        { intros X. inversion X; subst. exists 0, c, v. rewrite Nat.sub_0_r. auto. }
        destruct best as [[bi bk]|]; [destruct (ikey_ltb bk k)|]; auto.
      * left. exact H.
    + right. exists (S pos), c', v'. split; [exact Hn|]. split; [lia|exact He].
Qed.

Lemma find_largest_none cs :
  find_largest cs = None <-> forall c, In c cs -> ch_entry c = None.
Proof.
  unfold find_largest.
  destruct (find_largest_rev (rev cs) (length cs - 1) None) as [[r rk]|] eqn:E; cbn [option_map].
  - split; [discriminate|]. intros H.
    assert (X : find_largest_rev (rev cs) (length cs - 1) None = None).
    { apply flr_none. split; [reflexivity|]. intros c Hc. apply H. apply in_rev. exact Hc. }
    congruence.
  - apply flr_none in E. split; [|reflexivity]. intros _ c Hc. apply (proj2 E).
    apply in_rev in Hc. exact Hc.
Qed.

Lemma find_largest_some cs i :
  find_largest cs = Some i ->
  exists c k v, nth_error cs i = Some c /\ ch_entry c = Some (k, v) /\
    forall c' k' v', In c' cs -> ch_entry c' = Some (k', v') -> ikey_le k' k.
Proof.
  unfold find_largest.
  destruct (find_largest_rev (rev cs) (length cs - 1) None) as [[r rk]|] eqn:E;
    cbn [option_map fst]; [|discriminate].
  intros H. inversion H; subst r. clear H.
  pose proof (flr_max _ _ _ _ _ E) as [M1 _].
  apply flr_at in E. destruct E as [E|(pos & c & v & Hn & Hr & He)]; [discriminate|].
  assert (Hp : pos < length cs).
  { rewrite <- rev_length. apply nth_error_Some. congruence. }
  rewrite nth_error_rev in Hn by exact Hp.
  exists c, rk, v. split; [subst i; exact Hn|]. split; [exact He|].
  intros c' k' v' Hc'. apply M1. apply in_rev in Hc'. exact Hc'.
Qed.

(** * positions of [map_except] / [update_child] *)

Lemma nth_error_map_except g i cs : forall k j,
  nth_error (map_except g (Some i) cs k) j =
  option_map (fun c => if Nat.eqb (k + j) i then c else g c) (nth_error cs j).
Proof.
  induction cs as [|c r IH]; intros k j; cbn [map_except].
  - destruct j; reflexivity.
  - destruct j as [|j]; cbn [nth_error option_map].
    + rewrite Nat.add_0_r. reflexivity.
    + rewrite IH. replace (S k + j) with (k + S j) by lia. reflexivity.
Qed.

Lemma nth_error_update_child h cs : forall i j,
  nth_error (update_child h i cs) j =
  option_map (fun c => if Nat.eqb j i then h c else c) (nth_error cs j).
Proof.
  induction cs as [|c r IH]; intros i j.
  - destruct i; destruct j; reflexivity.
  - destruct i as [|i]; destruct j as [|j]; cbn [update_child nth_error option_map]; try reflexivity.
    + destruct (nth_error r j); reflexivity.
    + rewrite IH. reflexivity.
Qed.

(** * The simulation *)

Section MERGE.
Variable ls : list (list entry).
Hypothesis Hsorted : Forall (fun l => sorted_entries l = true) ls.
Hypothesis Huniq : keys_unique ls.

Definition M : list entry := sort_entries (concat ls).

Lemma M_SS : StronglySorted elt M.
Proof. apply CompactProofs.sort_entries_SS. exact Huniq. Qed.

Lemma M_perm : Permutation M (concat ls).
Proof. apply CompactProofs.sort_entries_perm. Qed.

Lemma M_length : length M = length (concat ls).
Proof. apply Permutation_length. exact M_perm. Qed.

Lemma M_nodup : NoDup (map key_of M).
Proof.
  eapply Permutation_NoDup; [|exact Huniq]. apply Permutation_map. symmetry. exact M_perm.
Qed.

Lemma M_uniq a b : In a M -> In b M -> ikey_cmp (fst a) (fst b) = Eq -> a = b.
Proof.
  intros Ha Hb E. apply (CompactProofs.NoDup_map_inj key_of M M_nodup); auto.
  apply CompactProofs.key_of_eq_iff. exact E.
Qed.

Lemma child_in_M l e : In l ls -> In e l -> In e M.
Proof.
  intros Hl He. apply CompactProofs.sort_entries_In. apply in_concat. exists l. auto.
Qed.

Lemma M_in_child e : In e M -> exists l, In l ls /\ In e l.
Proof. intros H. apply (proj1 (CompactProofs.sort_entries_In _ _)) in H. apply in_concat in H. exact H. Qed.

Lemma child_SS l : In l ls -> StronglySorted elt l.
Proof.
  intros Hl. apply CompactProofs.sorted_entries_SS. rewrite Forall_forall in Hsorted. auto.
Qed.

Lemma diff_children i j a b x y :
  nth_error ls i = Some a -> nth_error ls j = Some b -> i <> j ->
  In x a -> In y b -> ikey_cmp (fst x) (fst y) <> Eq.
Proof.
  intros Ha Hb Hne Hx Hy E. apply CompactProofs.key_of_eq_iff in E.
  destruct (Nat.lt_ge_cases i j) as [C|C].
  - exact (NoDup_concat_disj key_of ls Huniq i j a b x y C Ha Hb Hx Hy E).
  - assert (C' : j < i) by lia. symmetry in E.
    exact (NoDup_concat_disj key_of ls Huniq j i b a y x C' Hb Ha Hy Hx E).
Qed.

Definition fstate (f : entry -> bool) : list child := map (fun l => (l, fpos f l)) ls.
Definition bstate (f : entry -> bool) : list child := map (fun l => (l, bpos f l)) ls.

Lemma fstate_fst f : map fst (fstate f) = ls.
Proof. unfold fstate. rewrite map_map. cbn [fst]. apply map_id. Qed.

Lemma bstate_fst f : map fst (bstate f) = ls.
Proof. unfold bstate. rewrite map_map. cbn [fst]. apply map_id. Qed.

Lemma fstate_nth f j : nth_error (fstate f) j = option_map (fun l => (l, fpos f l)) (nth_error ls j).
Proof. unfold fstate. apply nth_error_map. Qed.

Lemma bstate_nth f j : nth_error (bstate f) j = option_map (fun l => (l, bpos f l)) (nth_error ls j).
Proof. unfold bstate. apply nth_error_map. Qed.

(** agreement of a cut with the canonical cuts at the current key *)
Lemma cut_agree_fwd f p K v : cut f -> fpos f M = Some p -> nth_error M p = Some (K, v) ->
  forall e, In e M -> f e = ltk K e.
Proof.
  intros Hc Hp Hn e He. apply (fpos_some f M p M_SS Hc) in Hp. destruct Hp as [Hp _].
  apply In_nth_error in He. destruct He as [i Hi].
  pose proof (pfx_spec f M M_SS Hc i e Hi) as S1.
  pose proof (pfx_spec (ltk K) M M_SS (cut_ltk K) i e Hi) as S2.
  rewrite (proj1 (pfx_at M p K v M_SS Hn)) in S2. rewrite <- Hp in S1.
  destruct (f e), (ltk K e); try reflexivity; exfalso.
  - assert (X : false = true) by (apply S2; apply S1; reflexivity). discriminate.
  - assert (X : false = true) by (apply S1; apply S2; reflexivity). discriminate.
Qed.

Lemma cut_agree_bwd f p K v : cut f -> bpos f M = Some p -> nth_error M p = Some (K, v) ->
  forall e, In e M -> f e = lek K e.
Proof.
  intros Hc Hp Hn e He. apply (bpos_some f M p M_SS Hc) in Hp. destruct Hp as [Hp _].
  apply In_nth_error in He. destruct He as [i Hi].
  pose proof (pfx_spec f M M_SS Hc i e Hi) as S1.
  pose proof (pfx_spec (lek K) M M_SS (cut_lek K) i e Hi) as S2.
  rewrite (proj2 (pfx_at M p K v M_SS Hn)) in S2. rewrite Hp in S1.
  destruct (f e), (lek K e); try reflexivity; exfalso.
  - assert (X : false = true) by (apply S2; apply S1; reflexivity). discriminate.
  - assert (X : false = true) by (apply S1; apply S2; reflexivity). discriminate.
Qed.

(** the child under [find_smallest] of a forward state holds the entry of the merged cursor *)
Lemma fstate_none f : cut f -> fpos f M = None -> find_smallest (fstate f) = None.
Proof.
  intros Hc Hp. apply find_smallest_none. intros c Hc'. unfold fstate in Hc'.
  apply in_map_iff in Hc'. destruct Hc' as (l & <- & Hl).
  unfold ch_entry. cbn [fst snd].
  assert (N : fpos f l = None).
  { apply (fpos_none f l (child_SS l Hl) Hc). intros e He.
    apply (proj1 (fpos_none f M M_SS Hc) Hp). eapply child_in_M; eauto. }
  rewrite N. reflexivity.
Qed.

Lemma fstate_some f p : cut f -> fpos f M = Some p ->
  exists i li n K v,
    find_smallest (fstate f) = Some i /\ nth_error ls i = Some li /\
    nth_error M p = Some (K, v) /\ nth_error li n = Some (K, v) /\ fpos f li = Some n.
Proof.
  intros Hc Hp. destruct (fpos_some f M p M_SS Hc Hp) as (_ & e0 & Hn & F0 & Min0).
  assert (He0 : In e0 M) by (eapply nth_error_In; eauto).
  (* some child is valid *)
  destruct (M_in_child e0 He0) as (l0 & Hl0 & Hin0).
  destruct (find_smallest (fstate f)) as [i|] eqn:FS.
  2:{ exfalso. pose proof (proj1 (find_smallest_none _) FS (l0, fpos f l0)) as X.
      unfold ch_entry in X. cbn [fst snd] in X.
      assert (Hc0 : In (l0, fpos f l0) (fstate f)).
      { unfold fstate. apply in_map_iff. exists l0. auto. }
      specialize (X Hc0). destruct (fpos f l0) as [n0|] eqn:P0.
      - destruct (fpos_some f l0 n0 (child_SS l0 Hl0) Hc P0) as (_ & x & Hx & _).
        cbn [lc_current] in X. congruence.
      - pose proof (proj1 (fpos_none f l0 (child_SS l0 Hl0) Hc) P0 e0 Hin0). congruence. }
  apply find_smallest_some in FS. destruct FS as (c & k & v & Hci & Hce & Hmin).
  rewrite fstate_nth in Hci. destruct (nth_error ls i) as [li|] eqn:Hli; [|discriminate].
  cbn [option_map] in Hci. inversion Hci; subst c. clear Hci.
  unfold ch_entry in Hce. cbn [fst snd] in Hce.
  destruct (fpos f li) as [n|] eqn:Pn; [|discriminate]. cbn [lc_current] in Hce.
  assert (Hli' : In li ls) by (eapply nth_error_In; eauto).
  destruct (fpos_some f li n (child_SS li Hli') Hc Pn) as (_ & x & Hx & Fx & _).
  rewrite Hce in Hx. inversion Hx; subst x. clear Hx.
  assert (HkM : In (k, v) M) by (eapply child_in_M; [exact Hli'|eapply nth_error_In; eauto]).
  (* e0 <= (k,v) since (k,v) is a non-f element of M *)
  pose proof (Min0 (k, v) HkM Fx) as Le1.
  (* (k,v) <= e0: the child holding e0 sits at or before e0 *)
  assert (Le2 : ikey_le (fst (k, v)) (fst e0)).
  { destruct (fpos f l0) as [n0|] eqn:P0.
    - destruct (fpos_some f l0 n0 (child_SS l0 Hl0) Hc P0) as (_ & x0 & Hx0 & Fx0 & Minx0).
      destruct x0 as [k0 v0].
      assert (Hc0 : In (l0, Some n0) (fstate f)).
      { unfold fstate. apply in_map_iff. exists l0. rewrite P0. auto. }
      pose proof (Hmin (l0, Some n0) k0 v0 Hc0 Hx0) as A.
      pose proof (Minx0 e0 Hin0 F0) as B. cbn [fst] in *. eapply ikey_le_trans; eassumption.
    - pose proof (proj1 (fpos_none f l0 (child_SS l0 Hl0) Hc) P0 e0 Hin0). congruence. }
  assert (E : e0 = (k, v)).
  { apply M_uniq; auto. apply ikey_le_antisym; assumption. }
  subst e0. exists i, li, n, k, v. auto.
Qed.

Lemma bstate_none f : cut f -> bpos f M = None -> find_largest (bstate f) = None.
Proof.
  intros Hc Hp. apply find_largest_none. intros c Hc'. unfold bstate in Hc'.
  apply in_map_iff in Hc'. destruct Hc' as (l & <- & Hl).
  unfold ch_entry. cbn [fst snd].
  assert (N : bpos f l = None).
  { apply (bpos_none f l (child_SS l Hl) Hc). intros e He.
    apply (proj1 (bpos_none f M M_SS Hc) Hp). eapply child_in_M; eauto. }
  rewrite N. reflexivity.
Qed.

Lemma bstate_some f p : cut f -> bpos f M = Some p ->
  exists i li n K v,
    find_largest (bstate f) = Some i /\ nth_error ls i = Some li /\
    nth_error M p = Some (K, v) /\ nth_error li n = Some (K, v) /\ bpos f li = Some n.
Proof.
  intros Hc Hp. destruct (bpos_some f M p M_SS Hc Hp) as (_ & e0 & Hn & F0 & Max0).
  assert (He0 : In e0 M) by (eapply nth_error_In; eauto).
  destruct (M_in_child e0 He0) as (l0 & Hl0 & Hin0).
  destruct (find_largest (bstate f)) as [i|] eqn:FS.
  2:{ exfalso. pose proof (proj1 (find_largest_none _) FS (l0, bpos f l0)) as X.
      unfold ch_entry in X. cbn [fst snd] in X.
      assert (Hc0 : In (l0, bpos f l0) (bstate f)).
      { unfold bstate. apply in_map_iff. exists l0. auto. }
      specialize (X Hc0). destruct (bpos f l0) as [n0|] eqn:P0.
      - destruct (bpos_some f l0 n0 (child_SS l0 Hl0) Hc P0) as (_ & x & Hx & _).
        cbn [lc_current] in X. congruence.
      - pose proof (proj1 (bpos_none f l0 (child_SS l0 Hl0) Hc) P0 e0 Hin0). congruence. }
  apply find_largest_some in FS. destruct FS as (c & k & v & Hci & Hce & Hmax).
  rewrite bstate_nth in Hci. destruct (nth_error ls i) as [li|] eqn:Hli; [|discriminate].
  cbn [option_map] in Hci. inversion Hci; subst c. clear Hci.
  unfold ch_entry in Hce. cbn [fst snd] in Hce.
  destruct (bpos f li) as [n|] eqn:Pn; [|discriminate]. cbn [lc_current] in Hce.
  assert (Hli' : In li ls) by (eapply nth_error_In; eauto).
  destruct (bpos_some f li n (child_SS li Hli') Hc Pn) as (_ & x & Hx & Fx & _).
  rewrite Hce in Hx. inversion Hx; subst x. clear Hx.
  assert (HkM : In (k, v) M) by (eapply child_in_M; [exact Hli'|eapply nth_error_In; eauto]).
  pose proof (Max0 (k, v) HkM Fx) as Le1.
  assert (Le2 : ikey_le (fst e0) (fst (k, v))).
  { destruct (bpos f l0) as [n0|] eqn:P0.
    - destruct (bpos_some f l0 n0 (child_SS l0 Hl0) Hc P0) as (_ & x0 & Hx0 & Fx0 & Maxx0).
      destruct x0 as [k0 v0].
      assert (Hc0 : In (l0, Some n0) (bstate f)).
      { unfold bstate. apply in_map_iff. exists l0. rewrite P0. auto. }
      pose proof (Hmax (l0, Some n0) k0 v0 Hc0 Hx0) as A.
      pose proof (Maxx0 e0 Hin0 F0) as B. cbn [fst] in *. eapply ikey_le_trans; eassumption.
    - pose proof (proj1 (bpos_none f l0 (child_SS l0 Hl0) Hc) P0 e0 Hin0). congruence. }
  assert (E : e0 = (k, v)).
  { apply M_uniq; auto. apply ikey_le_antisym; assumption. }
  subst e0. exists i, li, n, k, v. auto.
Qed.

(** the simulation relation *)
Inductive R (ms : mstate) : option nat -> Prop :=
| R_none : map fst (m_children ms) = ls -> m_cur ms = None -> R ms None
| R_fwd f p : cut f -> m_children ms = fstate f -> m_fwd ms = true ->
              m_cur ms = find_smallest (fstate f) -> fpos f M = Some p -> R ms (Some p)
| R_bwd f p : cut f -> m_children ms = bstate f -> m_fwd ms = false ->
              m_cur ms = find_largest (bstate f) -> bpos f M = Some p -> R ms (Some p).

Lemma R_children ms P : R ms P -> map fst (m_children ms) = ls.
Proof.
  intros [H _|f p _ H _ _ _|f p _ H _ _ _]; [exact H| |]; rewrite H;
    [apply fstate_fst|apply bstate_fst].
Qed.

Lemma R_lt ms p : R ms (Some p) -> p < length M.
Proof.
  intros H. inversion H as [|f p' Hc _ _ _ Hp|f p' Hc _ _ _ Hp]; subst.
  - destruct (fpos_some f M p M_SS Hc Hp) as (_ & e & He & _). apply nth_error_Some. congruence.
  - destruct (bpos_some f M p M_SS Hc Hp) as (_ & e & He & _). apply nth_error_Some. congruence.
Qed.

Lemma R_current ms P : R ms P -> m_current ms = lc_current M P.
Proof.
  intros H. unfold m_current. inversion H as [Hf Hc|f p Hc Hch Hd Hcur Hp|f p Hc Hch Hd Hcur Hp]; subst.
  - rewrite Hc. reflexivity.
  - destruct (fstate_some f p Hc Hp) as (i & li & n & K & v & FS & Hli & HM & Hn & Pn).
    rewrite Hcur, FS, Hch, fstate_nth, Hli. cbn [option_map lc_current].
    unfold ch_entry. cbn [fst snd]. rewrite Pn. cbn [lc_current]. congruence.
  - destruct (bstate_some f p Hc Hp) as (i & li & n & K & v & FS & Hli & HM & Hn & Pn).
    rewrite Hcur, FS, Hch, bstate_nth, Hli. cbn [option_map lc_current].
    unfold ch_entry. cbn [fst snd]. rewrite Pn. cbn [lc_current]. congruence.
Qed.

Lemma R_valid ms P : R ms P -> m_valid ms = match P with Some _ => true | None => false end.
Proof.
  intros H. unfold m_valid. inversion H as [Hf Hc|f p Hc Hch Hd Hcur Hp|f p Hc Hch Hd Hcur Hp]; subst.
  - rewrite Hc. reflexivity.
  - destruct (fstate_some f p Hc Hp) as (i & li & n & K & v & FS & _). rewrite Hcur, FS. reflexivity.
  - destruct (bstate_some f p Hc Hp) as (i & li & n & K & v & FS & _). rewrite Hcur, FS. reflexivity.
Qed.

Lemma R_bound ms P : R ms P -> entries_bound ms = S (S (length M)).
Proof.
  intros H. unfold entries_bound. rewrite (R_children ms P H), M_length. reflexivity.
Qed.

Lemma R_of_fstate f d : cut f -> d = true -> R (mkM (fstate f) d (find_smallest (fstate f))) (fpos f M).
Proof.
  intros Hc ->. destruct (fpos f M) as [p|] eqn:Hp.
  - eapply R_fwd; eauto.
  - apply R_none; cbn [m_children m_cur]; [apply fstate_fst|apply fstate_none; auto].
Qed.

Lemma R_of_bstate f : cut f -> R (mkM (bstate f) false (find_largest (bstate f))) (bpos f M).
Proof.
  intros Hc. destruct (bpos f M) as [p|] eqn:Hp.
  - eapply R_bwd; eauto.
  - apply R_none; cbn [m_children m_cur]; [apply bstate_fst|apply bstate_none; auto].
Qed.

Lemma map_children_eq (g : child -> child) (h : list entry -> option nat) cs :
  map fst cs = ls -> (forall c, g c = (fst c, h (fst c))) ->
  map g cs = map (fun l => (l, h l)) ls.
Proof.
  intros <- Hg. rewrite map_map. apply map_ext. exact Hg.
Qed.

Lemma R_seek ms P t : R ms P -> R (m_seek ms t) (lc_seek M t).
Proof.
  intros H. apply R_children in H. unfold m_seek.
  rewrite (map_children_eq (fun c => ch_seek c t) (fpos (ltk t)) _ H).
  - rewrite lc_seek_fpos. apply R_of_fstate; [apply cut_ltk|reflexivity].
  - intros c. unfold ch_seek. rewrite lc_seek_fpos. reflexivity.
Qed.

Lemma R_first ms P : R ms P -> R (m_first ms) (lc_first M).
Proof.
  intros H. apply R_children in H. unfold m_first.
  rewrite (map_children_eq ch_first (fpos (fun _ => false)) _ H).
  - rewrite lc_first_fpos. apply R_of_fstate; [apply cut_false|reflexivity].
  - intros c. unfold ch_first. rewrite lc_first_fpos. reflexivity.
Qed.

Lemma R_last ms P : R ms P -> R (m_last ms) (lc_last M).
Proof.
  intros H. apply R_children in H. unfold m_last.
  rewrite (map_children_eq ch_last (bpos (fun _ => true)) _ H).
  - rewrite lc_last_bpos. apply R_of_bstate. apply cut_true.
  - intros c. unfold ch_last. rewrite lc_last_bpos. reflexivity.
Qed.

(** the facts about the current key shared by the four stepping cases *)
Lemma other_child_agree i li j lj K v n :
  nth_error ls i = Some li -> nth_error li n = Some (K, v) ->
  nth_error ls j = Some lj -> j <> i ->
  forall e, In e lj -> ltk K e = lek K e.
Proof.
  intros Hli Hn Hlj Hne e He. unfold ltk, lek.
  assert (NE : ikey_cmp (fst e) (fst (K, v)) <> Eq).
  { eapply (diff_children j i lj li); eauto. eapply nth_error_In; eauto. }
  cbn [fst] in NE. unfold ikey_ltb. rewrite (ikey_cmp_opp K (fst e)).
  destruct (ikey_cmp (fst e) K); cbn [CompOpp negb]; congruence.
Qed.

Lemma pfx_child_agree f g l : In l ls -> (forall e, In e M -> f e = g e) -> pfx f l = pfx g l.
Proof. intros Hl H. apply pfx_ext. intros e He. apply H. eapply child_in_M; eauto. Qed.

Lemma R_next ms p : R ms (Some p) ->
  exists ms', m_next ms = Some ms' /\ R ms' (lc_next M (Some p)).
Proof.
  intros H. pose proof (R_current ms _ H) as Hcur0. cbn [lc_current] in Hcur0.
  inversion H as [|f p' Hc Hch Hd Hcur Hp|f p' Hc Hch Hd Hcur Hp]; subst p'.
  - (* forward *)
    destruct (fstate_some f p Hc Hp) as (i & li & n & K & v & FS & Hli & HM & Hn & Pn).
    pose proof (cut_agree_fwd f p K v Hc Hp HM) as Ag.
    assert (Hli' : In li ls) by (eapply nth_error_In; eauto).
    destruct (pfx_at li n K v (child_SS li Hli') Hn) as [Q1 Q2].
    destruct (pfx_at M p K v M_SS HM) as [Q3 Q4].
    unfold m_next. rewrite Hd, Hcur, FS.
    eexists. split; [reflexivity|].
    assert (E : update_child ch_next i (m_children ms) = fstate (lek K)).
    { apply list_nth_ext. intros j. rewrite nth_error_update_child, Hch, !fstate_nth.
      destruct (nth_error ls j) as [lj|] eqn:Hlj; [|reflexivity]. cbn [option_map]. f_equal.
      destruct (Nat.eqb j i) eqn:Eji.
      - apply Nat.eqb_eq in Eji. subst j. rewrite Hli in Hlj. inversion Hlj; subst lj.
        unfold ch_next. cbn [fst snd]. rewrite Pn. f_equal. apply lc_next_fpos. exact Q2.
      - apply Nat.eqb_neq in Eji. f_equal. unfold fpos.
        assert (Hlj' : In lj ls) by (eapply nth_error_In; eauto).
        rewrite (pfx_child_agree f (ltk K) lj Hlj' Ag).
        rewrite (pfx_ext (ltk K) (lek K) lj (other_child_agree i li j lj K v n Hli Hn Hlj Eji)).
        reflexivity. }
    rewrite E. rewrite (lc_next_fpos M p (lek K) Q4). apply R_of_fstate; [apply cut_lek|reflexivity].
  - (* backward: switch direction *)
    destruct (bstate_some f p Hc Hp) as (i & li & n & K & v & FS & Hli & HM & Hn & Pn).
    pose proof (cut_agree_bwd f p K v Hc Hp HM) as Ag.
    assert (Hli' : In li ls) by (eapply nth_error_In; eauto).
    destruct (pfx_at li n K v (child_SS li Hli') Hn) as [Q1 Q2].
    destruct (pfx_at M p K v M_SS HM) as [Q3 Q4].
    unfold m_next. rewrite Hd, Hcur0, HM, Hcur, FS.
    eexists. split; [reflexivity|].
    match goal with |- R (mkM ?cs _ _) _ => assert (E : cs = fstate (lek K)) end.
    { apply list_nth_ext. intros j.
      rewrite nth_error_update_child, nth_error_map_except, Hch, bstate_nth, fstate_nth.
      destruct (nth_error ls j) as [lj|] eqn:Hlj; [|reflexivity]. cbn [option_map]. f_equal.
      cbn [Nat.add]. destruct (Nat.eqb j i) eqn:Eji.
      - apply Nat.eqb_eq in Eji. subst j. rewrite Hli in Hlj. inversion Hlj; subst lj.
        unfold ch_next. cbn [fst snd]. rewrite Pn. f_equal. apply lc_next_fpos. exact Q2.
      - apply Nat.eqb_neq in Eji.
        assert (Hlj' : In lj ls) by (eapply nth_error_In; eauto).
        assert (Es : ch_seek (lj, bpos f lj) K = (lj, fpos (lek K) lj)).
        { unfold ch_seek. cbn [fst]. rewrite lc_seek_fpos. f_equal. unfold fpos.
          rewrite (pfx_ext (ltk K) (lek K) lj (other_child_agree i li j lj K v n Hli Hn Hlj Eji)).
          reflexivity. }
        rewrite Es. destruct (ch_entry (lj, fpos (lek K) lj)) as [[k v']|] eqn:Ee; [|reflexivity].
        destruct (ikey_eqb k K) eqn:Ek; [|reflexivity]. exfalso.
        apply ikey_eqb_iff in Ek. subst k. unfold ch_entry in Ee. cbn [fst snd] in Ee.
        destruct (fpos (lek K) lj) as [m|]; [|discriminate]. cbn [lc_current] in Ee.
        apply nth_error_In in Ee.
        apply (diff_children j i lj li (K, v') (K, v) Hlj Hli Eji Ee); [eapply nth_error_In; eauto|].
        apply ikey_cmp_refl. }
    rewrite E. rewrite (lc_next_fpos M p (lek K) Q4). apply R_of_fstate; [apply cut_lek|reflexivity].
Qed.

Lemma R_prev ms p : R ms (Some p) ->
  exists ms', m_prev ms = Some ms' /\ R ms' (lc_prev (Some p)).
Proof.
  intros H. pose proof (R_current ms _ H) as Hcur0. cbn [lc_current] in Hcur0.
  inversion H as [|f p' Hc Hch Hd Hcur Hp|f p' Hc Hch Hd Hcur Hp]; subst p'.
  - (* forward: switch direction *)
    destruct (fstate_some f p Hc Hp) as (i & li & n & K & v & FS & Hli & HM & Hn & Pn).
    pose proof (cut_agree_fwd f p K v Hc Hp HM) as Ag.
    assert (Hli' : In li ls) by (eapply nth_error_In; eauto).
    destruct (pfx_at li n K v (child_SS li Hli') Hn) as [Q1 Q2].
    destruct (pfx_at M p K v M_SS HM) as [Q3 Q4].
    unfold m_prev. rewrite Hd, Hcur0, HM, Hcur, FS. cbn [negb].
    eexists. split; [reflexivity|].
    match goal with |- R (mkM ?cs _ _) _ => assert (E : cs = bstate (ltk K)) end.
    { apply list_nth_ext. intros j.
      rewrite nth_error_update_child, nth_error_map_except, Hch, bstate_nth, fstate_nth.
      destruct (nth_error ls j) as [lj|] eqn:Hlj; [|reflexivity]. cbn [option_map]. f_equal.
      cbn [Nat.add]. destruct (Nat.eqb j i) eqn:Eji.
      - apply Nat.eqb_eq in Eji. subst j. rewrite Hli in Hlj. inversion Hlj; subst lj.
        unfold ch_prev. cbn [fst snd]. rewrite Pn. f_equal. apply lc_prev_bpos. exact Q1.
      - assert (Es : ch_seek (lj, fpos f lj) K = (lj, fpos (ltk K) lj)).
        { unfold ch_seek. cbn [fst]. rewrite lc_seek_fpos. reflexivity. }
        rewrite Es. apply turn_back. }
    rewrite E. rewrite (lc_prev_bpos M p (ltk K) Q3). apply R_of_bstate. apply cut_ltk.
  - (* backward *)
    destruct (bstate_some f p Hc Hp) as (i & li & n & K & v & FS & Hli & HM & Hn & Pn).
    pose proof (cut_agree_bwd f p K v Hc Hp HM) as Ag.
    assert (Hli' : In li ls) by (eapply nth_error_In; eauto).
    destruct (pfx_at li n K v (child_SS li Hli') Hn) as [Q1 Q2].
    destruct (pfx_at M p K v M_SS HM) as [Q3 Q4].
    unfold m_prev. rewrite Hd, Hcur, FS. cbn [negb].
    eexists. split; [reflexivity|].
    assert (E : update_child ch_prev i (m_children ms) = bstate (ltk K)).
    { apply list_nth_ext. intros j. rewrite nth_error_update_child, Hch, !bstate_nth.
      destruct (nth_error ls j) as [lj|] eqn:Hlj; [|reflexivity]. cbn [option_map]. f_equal.
      destruct (Nat.eqb j i) eqn:Eji.
      - apply Nat.eqb_eq in Eji. subst j. rewrite Hli in Hlj. inversion Hlj; subst lj.
        unfold ch_prev. cbn [fst snd]. rewrite Pn. f_equal. apply lc_prev_bpos. exact Q1.
      - apply Nat.eqb_neq in Eji. f_equal. unfold bpos.
        assert (Hlj' : In lj ls) by (eapply nth_error_In; eauto).
        rewrite (pfx_child_agree f (lek K) lj Hlj' Ag).
        rewrite <- (pfx_ext (ltk K) (lek K) lj (other_child_agree i li j lj K v n Hli Hn Hlj Eji)).
        reflexivity. }
    rewrite E. rewrite (lc_prev_bpos M p (ltk K) Q3). apply R_of_bstate. apply cut_ltk.
Qed.

Lemma R_new poss : length poss = length ls -> R (m_new (combine ls poss)) None.
Proof.
  intros HL. apply R_none; cbn [m_new m_children m_cur]; [|reflexivity].
  clear -HL. revert poss HL. induction ls as [|l r IH]; intros poss HL; [reflexivity|].
  destruct poss as [|p poss]; [discriminate|]. cbn [combine map fst]. f_equal. apply IH.
  cbn [length] in HL. lia.
Qed.

Lemma R_step ms P o :
  R ms P -> (match o with CNext | CPrev => P <> None | _ => True end) ->
  exists ms', m_step ms o = Some ms' /\ R ms' (lc_step M P o).
Proof.
  intros H Ad. destruct o; cbn [m_step lc_step].
  - eexists. split; [reflexivity|]. eapply R_seek; eauto.
  - eexists. split; [reflexivity|]. eapply R_first; eauto.
  - eexists. split; [reflexivity|]. eapply R_last; eauto.
  - destruct P as [p|]; [|contradiction]. apply R_next. exact H.
  - destruct P as [p|]; [|contradiction]. apply R_prev. exact H.
Qed.

Lemma R_run ops : forall ms P,
  R ms P -> admissible_from M P ops -> m_run ms ops = (lc_run M P ops, true).
Proof.
  induction ops as [|o r IH]; intros ms P H Ad; cbn [m_run lc_run]; [reflexivity|].
  cbn [admissible_from] in Ad. destruct Ad as [A1 A2].
  destruct (R_step ms P o H A1) as (ms' & E & H'). rewrite E.
  rewrite (IH ms' _ H' A2). cbn [fst snd]. rewrite (R_current ms' _ H'). reflexivity.
Qed.

End MERGE.

Theorem merging_refines_proof :
  forall (ls : list (list entry)) (poss : list (option nat)) ops,
    length poss = length ls ->
    Forall (fun l => sorted_entries l = true) ls ->
    keys_unique ls ->
    admissible (sort_entries (concat ls)) ops ->
    m_run (m_new (combine ls poss)) ops = (lc_run (sort_entries (concat ls)) None ops, true).
Proof.
  intros ls poss ops HL Hs Hu Ad.
  apply (R_run ls Hs Hu ops _ None); [apply R_new; exact HL|exact Ad].
Qed.


(* ===================================================================================== *)
(** * Part 2: the database iterator                                                       *)
(* ===================================================================================== *)

Notation map_sorted := GetProofs.map_sorted.

(** * The order on user keys *)

Definition ule (a b : bytes) : Prop := bytes_cmp a b <> Gt.
Definition ult (a b : bytes) : Prop := bytes_cmp a b = Lt.

Lemma ule_refl a : ule a a.
Proof. unfold ule. rewrite bytes_cmp_refl. discriminate. Qed.

Lemma ult_irrefl a : ~ ult a a.
Proof. apply bytes_cmp_lt_irrefl. Qed.

Lemma ult_ule a b : ult a b -> ule a b.
Proof. unfold ult, ule. intros ->. discriminate. Qed.

Lemma ult_trans a b c : ult a b -> ult b c -> ult a c.
Proof. apply bytes_cmp_lt_trans. Qed.

Lemma ule_ult_trans a b c : ule a b -> ult b c -> ult a c.
Proof. apply bytes_cmp_le_lt_trans. Qed.

Lemma ult_ule_trans a b c : ult a b -> ule b c -> ult a c.
Proof. apply bytes_cmp_lt_le_trans. Qed.

Lemma ule_trans a b c : ule a b -> ule b c -> ule a c.
Proof. apply bytes_cmp_le_trans. Qed.

Lemma not_ult_ule a b : ~ ult a b -> ule b a.
Proof. unfold ult, ule. intros H G. apply H. apply bytes_cmp_gt_lt. exact G. Qed.

Lemma ule_not_ult a b : ule a b -> ~ ult b a.
Proof. unfold ult, ule. intros H G. apply H. apply bytes_cmp_gt_lt. exact G. Qed.

Lemma ule_antisym a b : ule a b -> ule b a -> a = b.
Proof.
  intros H1 H2. destruct (bytes_cmp_total a b) as [L|[E|L]]; [|exact E|].
  - exfalso. exact (ule_not_ult _ _ H2 L).
  - exfalso. exact (ule_not_ult _ _ H1 L).
Qed.

Lemma ule_cases a b : ule a b -> ult a b \/ a = b.
Proof.
  intros H. destruct (bytes_cmp_total a b) as [L|[E|L]]; auto.
  exfalso. exact (ule_not_ult _ _ H L).
Qed.

Lemma bytes_ltb_ult a b : bytes_ltb a b = true <-> ult a b.
Proof. apply bytes_ltb_iff. Qed.

Lemma bytes_ltb_false a b : bytes_ltb a b = false <-> ule b a.
Proof.
  split.
  - intros H. apply not_ult_ule. intros L. apply bytes_ltb_ult in L. congruence.
  - intros H. destruct (bytes_ltb a b) eqn:E; [|reflexivity]. apply bytes_ltb_ult in E.
    exfalso. exact (ule_not_ult _ _ H E).
Qed.

Lemma bytes_leb_ule a b : bytes_leb a b = true <-> ule a b.
Proof. apply bytes_leb_iff. Qed.

Lemma bytes_leb_false a b : bytes_leb a b = false <-> ult b a.
Proof.
  split.
  - intros H. destruct (bytes_cmp_total b a) as [L|[E|L]]; [exact L| |].
    + subst. rewrite (proj2 (bytes_leb_ule a a) (ule_refl a)) in H. discriminate.
    + rewrite (proj2 (bytes_leb_ule a b) (ult_ule _ _ L)) in H. discriminate.
  - intros H. destruct (bytes_leb a b) eqn:E; [|reflexivity]. apply bytes_leb_ule in E.
    exfalso. exact (ule_not_ult _ _ E H).
Qed.

(** * Sorted association lists by index *)

Lemma V_lt (V : list kv) : map_sorted V ->
  forall i j a b, i < j -> nth_error V i = Some a -> nth_error V j = Some b -> ult (fst a) (fst b).
Proof.
  induction V as [|x r IH]; intros HS i j a b Hij Ha Hb.
  - destruct i; discriminate.
  - cbn [GetProofs.map_sorted] in HS. destruct HS as [H1 H2].
    destruct j as [|j]; [lia|]. cbn [nth_error] in Hb.
    destruct i as [|i]; cbn [nth_error] in Ha.
    + inversion Ha; subst. apply H1. eapply nth_error_In; eauto.
    + apply (IH H2 i j); auto. lia.
Qed.

Lemma V_get_nth (V : list kv) : map_sorted V ->
  forall i k v, nth_error V i = Some (k, v) -> map_get k V = Some v.
Proof.
  induction V as [|[k0 v0] r IH]; intros HS i k v Hi.
  - destruct i; discriminate.
  - cbn [GetProofs.map_sorted] in HS. destruct HS as [H1 H2]. cbn [map_get].
    destruct i as [|i]; cbn [nth_error] in Hi.
    + inversion Hi; subst. rewrite bytes_cmp_refl. reflexivity.
    + assert (L : bytes_cmp k0 k = Lt).
      { apply (H1 (k, v)). eapply nth_error_In; eauto. }
      rewrite (proj2 (bytes_cmp_gt_lt k k0) L). eapply IH; eauto.
Qed.

Lemma V_nth_get (V : list kv) : forall k v, map_get k V = Some v ->
  exists i, nth_error V i = Some (k, v).
Proof.
  induction V as [|[k0 v0] r IH]; intros k v H; cbn [map_get] in H; [discriminate|].
  destruct (bytes_cmp k k0) eqn:C; [|discriminate|].
  - apply bytes_cmp_eq in C. subst. inversion H; subst. exists 0. reflexivity.
  - destruct (IH k v H) as [i Hi]. exists (S i). exact Hi.
Qed.

Fixpoint vcnt (V : list kv) (k : bytes) : nat :=
  match V with
  | [] => 0
  | (k', _) :: r => if bytes_ltb k' k then S (vcnt r k) else 0
  end.

Lemma vcnt_le V k : vcnt V k <= length V.
Proof.
  induction V as [|[k' v'] r IH]; cbn [vcnt length]; [lia|]. destruct (bytes_ltb k' k); lia.
Qed.

Lemma mlb_vcnt V : forall i k,
  map_lower_bound V i k = if Nat.ltb (vcnt V k) (length V) then Some (i + vcnt V k) else None.
Proof.
  induction V as [|[k' v'] r IH]; intros i k; cbn [map_lower_bound vcnt length]; [reflexivity|].
  destruct (bytes_ltb k' k).
  - rewrite IH. change (Nat.ltb (S (vcnt r k)) (S (length r))) with (Nat.ltb (vcnt r k) (length r)).
    destruct (Nat.ltb (vcnt r k) (length r)); [f_equal; lia|reflexivity].
  - cbn. f_equal. lia.
Qed.

Lemma vcnt_lt_true V k : forall i a, i < vcnt V k -> nth_error V i = Some a -> ult (fst a) k.
Proof.
  induction V as [|[k' v'] r IH]; cbn [vcnt]; intros i a Hi Ha; [lia|].
  destruct (bytes_ltb k' k) eqn:E; [|lia]. destruct i as [|i]; cbn [nth_error] in Ha.
  - inversion Ha; subst. apply bytes_ltb_ult. exact E.
  - eapply IH; eauto. lia.
Qed.

Lemma vcnt_at_false V k a : nth_error V (vcnt V k) = Some a -> ~ ult (fst a) k.
Proof.
  induction V as [|[k' v'] r IH]; cbn [vcnt]; [discriminate|].
  destruct (bytes_ltb k' k) eqn:E; cbn [nth_error]; intros H; [auto|].
  inversion H; subst. cbn [fst]. intros L. apply bytes_ltb_ult in L. congruence.
Qed.

Lemma vcnt_spec V k : map_sorted V ->
  forall i a, nth_error V i = Some a -> (i < vcnt V k <-> ult (fst a) k).
Proof.
  intros HS i a Ha. split; [intros H; eapply vcnt_lt_true; eauto|].
  intros L. destruct (Nat.lt_ge_cases i (vcnt V k)) as [C|C]; [exact C|]. exfalso.
  assert (Hl : i < length V) by (eapply nth_error_Some_lt; eauto).
  destruct (nth_error V (vcnt V k)) as [x|] eqn:E; [|apply nth_error_None in E; lia].
  apply (vcnt_at_false V k x E).
  destruct (Nat.eq_dec (vcnt V k) i) as [Ei|Ni].
  - rewrite Ei in E. rewrite E in Ha. inversion Ha; subst. exact L.
  - eapply ult_trans; [|exact L]. apply (V_lt V HS (vcnt V k) i); auto. lia.
Qed.

(** * The merged entries by index *)

Section DBITER.
Variable ls : list (list entry).
Hypothesis Hsorted : Forall (fun l => sorted_entries l = true) ls.
Hypothesis Huniq : keys_unique ls.
Variable q : N.
Variable V : list kv.
Hypothesis HVs : map_sorted V.
Hypothesis HVg : forall k, map_get k V = visible (concat ls) q k.

Local Notation M := (CursorProofs.M ls).
Local Notation R := (CursorProofs.R ls).

(** the interface of the merging iterator (part 1) *)
Lemma Rlt ms p : R ms (Some p) -> p < length M.
Proof. apply R_lt; assumption. Qed.
Lemma Rcur ms P : R ms P -> m_current ms = lc_current M P.
Proof. apply R_current; assumption. Qed.
Lemma Rval ms P : R ms P -> m_valid ms = match P with Some _ => true | None => false end.
Proof. apply R_valid; assumption. Qed.
Lemma Rbound ms P : R ms P -> entries_bound ms = S (S (length M)).
Proof. apply R_bound; assumption. Qed.
Lemma Rseek ms P t : R ms P -> R (m_seek ms t) (lc_seek M t).
Proof. apply R_seek; assumption. Qed.
Lemma Rfirst ms P : R ms P -> R (m_first ms) (lc_first M).
Proof. apply R_first; assumption. Qed.
Lemma Rlast ms P : R ms P -> R (m_last ms) (lc_last M).
Proof. apply R_last; assumption. Qed.
Lemma Rnext ms p : R ms (Some p) -> exists ms', m_next ms = Some ms' /\ R ms' (lc_next M (Some p)).
Proof. apply R_next; assumption. Qed.
Lemma Rprev ms p : R ms (Some p) -> exists ms', m_prev ms = Some ms' /\ R ms' (lc_prev (Some p)).
Proof. apply R_prev; assumption. Qed.
Lemma MSS : StronglySorted elt M.
Proof. apply M_SS; assumption. Qed.
Lemma Mnodup : NoDup (map key_of M).
Proof. apply M_nodup; assumption. Qed.

Definition de : entry := (mkIKey [] 0%N 0%N, []).
Definition Me (p : nat) : entry := nth p M de.
Definition U (p : nat) : bytes := ik_user (fst (Me p)).
Definition Sq (p : nat) : N := ik_seq (fst (Me p)).
Definition Vl (p : nat) : bytes := snd (Me p).
Definition qe (p : nat) : Prop := (Sq p <= q)%N.
Definition isdel (p : nat) : bool := (ik_op (fst (Me p)) =? OP_DELETE)%N.
Definition shadowed (p : nat) : Prop := exists p', p' < p /\ U p' = U p /\ qe p'.
Definition vis (p : nat) : Prop := p < length M /\ qe p /\ isdel p = false /\ ~ shadowed p.

Lemma Me_nth p : p < length M -> nth_error M p = Some (Me p).
Proof. intros H. apply nth_error_nth'. exact H. Qed.

Lemma Me_in p : p < length M -> In (Me p) M.
Proof. intros H. eapply nth_error_In. apply Me_nth. exact H. Qed.

Lemma In_Me e : In e M -> exists p, p < length M /\ Me p = e.
Proof.
  intros H. apply In_nth_error in H. destruct H as [p Hp]. exists p.
  split; [eapply nth_error_Some_lt; eauto|]. unfold Me. eapply nth_error_nth; eauto.
Qed.

Lemma M_lt p p' : p < p' -> p' < length M -> ikey_lt (fst (Me p)) (fst (Me p')).
Proof.
  intros H1 H2. apply (SS_nth M MSS p p'); [exact H1|apply Me_nth; lia|apply Me_nth; lia].
Qed.

Lemma U_mono p p' : p <= p' -> p' < length M -> ule (U p) (U p').
Proof.
  intros H1 H2. destruct (Nat.eq_dec p p') as [->|Hne]; [apply ule_refl|].
  assert (L : ikey_lt (fst (Me p)) (fst (Me p'))) by (apply M_lt; lia).
  apply CompactProofs.ikey_lt_cases in L. unfold U. destruct L as [L|[E _]].
  - apply ult_ule. exact L.
  - rewrite E. apply ule_refl.
Qed.

Lemma Sq_anti p p' : p < p' -> p' < length M -> U p = U p' -> (Sq p' < Sq p)%N.
Proof.
  intros H1 H2 E. apply (CompactProofs.ikey_lt_same_user _ _ (M_lt p p' H1 H2)). exact E.
Qed.

Lemma U_lt_idx p p' : p < length M -> p' < length M -> ult (U p) (U p') -> p < p'.
Proof.
  intros H1 H2 L. destruct (Nat.lt_ge_cases p p') as [C|C]; [exact C|]. exfalso.
  exact (ule_not_ult _ _ (U_mono p' p C H1) L).
Qed.

Lemma U_convex p1 p2 p3 : p1 <= p2 -> p2 <= p3 -> p3 < length M -> U p1 = U p3 -> U p2 = U p1.
Proof.
  intros H1 H2 H3 E. apply ule_antisym.
  - rewrite E. apply U_mono; assumption.
  - apply U_mono; lia.
Qed.

Lemma qe_up p p' : p < p' -> p' < length M -> U p = U p' -> qe p -> qe p'.
Proof. intros H1 H2 E Q. pose proof (Sq_anti p p' H1 H2 E). unfold qe in *. lia. Qed.

Lemma vis_ult p p' : vis p -> vis p' -> p < p' -> ult (U p) (U p').
Proof.
  intros (L1 & Q1 & _) (L2 & _ & _ & NS) H.
  destruct (ule_cases _ _ (U_mono p p' (Nat.lt_le_incl _ _ H) L2)) as [L|E]; [exact L|].
  exfalso. apply NS. exists p. auto.
Qed.

(** ** visibility in terms of indices *)

Lemma visible_M k : visible (concat ls) q k = visible M q k.
Proof.
  symmetry. apply CompactProofs.visible_perm; [apply Mnodup|apply M_perm].
Qed.

Lemma vis_visible p : vis p -> visible M q (U p) = Some (Vl p).
Proof.
  intros (L & Q & D & NS). unfold visible.
  assert (E : newest_le M (U p) q = Some (Me p)).
  { apply CompactProofs.newest_le_iff_nodup; [apply Mnodup|].
    split; [apply Me_in; exact L|]. split; [reflexivity|]. split; [exact Q|].
    intros e' He' Eu Es. destruct (In_Me e' He') as (p' & L' & <-).
    fold (U p') in Eu. fold (Sq p') in Es. fold (Sq p') (Sq p).
    destruct (Nat.lt_trichotomy p' p) as [C|[->|C]].
    - exfalso. apply NS. exists p'. auto.
    - lia.
    - pose proof (Sq_anti p p' C L' (eq_sym Eu)). lia. }
  rewrite E. unfold isdel in D. unfold Vl. destruct (Me p) as [key v]. cbn [fst snd] in *.
  rewrite D. reflexivity.
Qed.

Lemma visible_vis u v : visible M q u = Some v -> exists p, vis p /\ U p = u /\ Vl p = v.
Proof.
  unfold visible. destruct (newest_le M u q) as [[key v']|] eqn:E; [|discriminate].
  destruct (ik_op key =? OP_DELETE)%N eqn:D; [discriminate|]. intros H. inversion H; subst v'.
  apply CompactProofs.newest_le_iff_nodup in E; [|apply Mnodup].
  destruct E as (Hin & Eu & Es & Mx). destruct (In_Me _ Hin) as (p & L & Ep).
  exists p. unfold vis, U, Vl, qe, Sq, isdel. rewrite Ep. cbn [fst snd] in *.
  split; [|auto]. split; [exact L|]. split; [exact Es|]. split; [exact D|].
  intros (p' & C & Eu' & Q'). unfold U in Eu'. rewrite Ep in Eu'. cbn [fst] in Eu'.
  assert (A : (ik_seq (fst (Me p')) <= ik_seq key)%N).
  { apply Mx; [apply Me_in; lia|congruence|exact Q']. }
  assert (B : (Sq p < Sq p')%N).
  { apply Sq_anti; [exact C|exact L|]. unfold U. rewrite Ep. exact Eu'. }
  unfold Sq in B. rewrite Ep in B. cbn [fst] in B. lia.
Qed.

(** ** the correspondence between indices of [V] and visible entries of [M] *)

Definition Vat (i p : nat) : Prop := vis p /\ nth_error V i = Some (U p, Vl p).

Lemma Vat_of_index i : i < length V -> exists p, Vat i p.
Proof.
  intros H. destruct (nth_error V i) as [[k v]|] eqn:E; [|apply nth_error_None in E; lia].
  pose proof (V_get_nth V HVs i k v E) as G. rewrite HVg, visible_M in G.
  destruct (visible_vis k v G) as (p & Hv & <- & <-). exists p. split; assumption.
Qed.

Lemma Vat_of_vis p : vis p -> exists i, Vat i p.
Proof.
  intros Hv. pose proof (vis_visible p Hv) as G. rewrite <- visible_M, <- HVg in G.
  destruct (V_nth_get V _ _ G) as [i Hi]. exists i. split; assumption.
Qed.

Lemma Vat_lt i p i' p' : Vat i p -> Vat i' p' -> (i < i' <-> p < p').
Proof.
  intros [Hv Hn] [Hv' Hn']. split; intros H.
  - pose proof (V_lt V HVs i i' _ _ H Hn Hn') as L. cbn [fst] in L.
    apply U_lt_idx; [apply Hv|apply Hv'|exact L].
  - pose proof (vis_ult p p' Hv Hv' H) as L.
    destruct (Nat.lt_trichotomy i i') as [C|[C|C]]; [exact C| |]; exfalso.
    + subst i'. rewrite Hn in Hn'. inversion Hn' as [[E1 E2]]. rewrite E1 in L.
      exact (ult_irrefl _ L).
    + pose proof (V_lt V HVs i' i _ _ C Hn' Hn) as L'. cbn [fst] in L'.
      exact (ult_irrefl _ (ult_trans _ _ _ L L')).
Qed.

Lemma Vat_idx_lt i p : Vat i p -> i < length V.
Proof. intros [_ H]. eapply nth_error_Some_lt; eauto. Qed.

(** ** extremal visible entries and their [V] indices *)

Definition least_vis (n : nat) (r : option nat) : Prop :=
  match r with
  | Some p => n <= p /\ vis p /\ forall x, n <= x -> x < p -> ~ vis x
  | None => forall x, n <= x -> ~ vis x
  end.

Definition greatest_vis (n : nat) (r : option nat) : Prop :=
  match r with
  | Some p => p < n /\ vis p /\ forall x, p < x -> x < n -> ~ vis x
  | None => forall x, x < n -> ~ vis x
  end.

Definition greatest_q (n : nat) (P : option nat) : Prop :=
  match P with
  | Some p => p < n /\ qe p /\ forall x, p < x -> x < n -> ~ qe x
  | None => forall x, x < n -> ~ qe x
  end.

Lemma least_to_V n j r :
  least_vis n r -> (forall i p, Vat i p -> (n <= p <-> j <= i)) ->
  match r with
  | Some p => j < length V /\ Vat j p
  | None => length V <= j
  end.
Proof.
  intros HL HT. destruct r as [p|]; cbn [least_vis] in HL.
  - destruct HL as (Hn & Hv & Hmin). destruct (Vat_of_vis p Hv) as [i Hi].
    pose proof (proj1 (HT i p Hi) Hn) as Hji.
    destruct (Nat.eq_dec j i) as [->|Hne]; [split; [eapply Vat_idx_lt; eauto|exact Hi]|].
    exfalso. assert (Hlt : j < i) by lia.
    assert (Hj : j < length V) by (pose proof (Vat_idx_lt i p Hi); lia).
    destruct (Vat_of_index j Hj) as [pj Hpj].
    apply (Hmin pj).
    + apply (HT j pj Hpj). lia.
    + apply (Vat_lt j pj i p Hpj Hi). exact Hlt.
    + apply Hpj.
  - destruct (Nat.lt_ge_cases j (length V)) as [C|C]; [|exact C]. exfalso.
    destruct (Vat_of_index j C) as [pj Hpj]. apply (HL pj); [|apply Hpj].
    apply (HT j pj Hpj). lia.
Qed.

Lemma greatest_to_V n j r :
  greatest_vis n r -> j <= length V -> (forall i p, Vat i p -> (p < n <-> i < j)) ->
  match r with
  | Some p => exists j', j = S j' /\ Vat j' p
  | None => j = 0
  end.
Proof.
  intros HG Hj HT. destruct r as [p|]; cbn [greatest_vis] in HG.
  - destruct HG as (Hn & Hv & Hmax). destruct (Vat_of_vis p Hv) as [i Hi].
    pose proof (proj1 (HT i p Hi) Hn) as Hij.
    destruct j as [|j']; [lia|]. exists j'. split; [reflexivity|].
    destruct (Nat.eq_dec i j') as [->|Hne]; [exact Hi|]. exfalso.
    assert (Hj' : j' < length V) by lia.
    destruct (Vat_of_index j' Hj') as [pj Hpj].
    apply (Hmax pj).
    + apply (Vat_lt i p j' pj Hi Hpj). lia.
    + apply (HT j' pj Hpj). lia.
    + apply Hpj.
  - destruct j as [|j']; [reflexivity|]. exfalso.
    assert (Hj' : j' < length V) by lia.
    destruct (Vat_of_index j' Hj') as [pj Hpj]. apply (HG pj); [|apply Hpj].
    apply (HT j' pj Hpj). lia.
Qed.

(** * [find_next_client_entry] *)

Definition opt_some {A} (o : option A) : bool := match o with Some _ => true | None => false end.

Definition skips (sk : bool) (ck : option bytes) (u : bytes) : bool :=
  match sk, ck with
  | true, Some c => bytes_leb u c
  | _, _ => false
  end.

Definition nsk (e : entry) (sk : bool) : bool :=
  if (q <? ik_seq (fst e))%N then sk
  else if (ik_op (fst e) =? OP_DELETE)%N then true else sk.

Definition nck (e : entry) (ck : option bytes) : option bytes :=
  if (q <? ik_seq (fst e))%N then ck
  else if (ik_op (fst e) =? OP_DELETE)%N then Some (ik_user (fst e)) else ck.

Lemma fnc_unfold f m sk ck e :
  m_current m = Some e ->
  find_next_client (S f) m q sk ck =
  if negb (q <? ik_seq (fst e))%N && negb (ik_op (fst e) =? OP_DELETE)%N
     && negb (skips sk ck (ik_user (fst e)))
  then Some (m, true, None)
  else match m_next m with
       | None => None
       | Some m' =>
           if m_valid m' then find_next_client f m' q (nsk e sk) (nck e ck)
           else Some (m', false, None)
       end.
Proof.
  intros H. cbn [find_next_client]. rewrite H. destruct e as [k v]. unfold nsk, nck, skips.
  cbn [fst].
  destruct (q <? ik_seq k)%N; cbn [negb andb]; [reflexivity|].
  destruct (ik_op k =? OP_DELETE)%N; cbn [negb andb]; [reflexivity|].
  destruct sk; [|reflexivity]. destruct ck as [c|]; [|reflexivity].
  destruct (bytes_leb (ik_user k) c); reflexivity.
Qed.

Definition InvN (p : nat) (sk : bool) (ck : option bytes) : Prop :=
  (forall p' p'', p <= p' -> p' < length M -> p'' < p -> U p'' = U p' -> qe p'' ->
     skips sk ck (U p') = true) /\
  (forall c p', sk = true -> ck = Some c -> p <= p' -> p' < length M -> qe p' -> ule c (U p')).

Definition least_visx (n : nat) (sk : bool) (ck : option bytes) (r : option nat) : Prop :=
  match r with
  | Some p => n <= p /\ vis p /\ skips sk ck (U p) = false /\
              forall x, n <= x -> x < p -> ~ (vis x /\ skips sk ck (U x) = false)
  | None => forall x, n <= x -> ~ (vis x /\ skips sk ck (U x) = false)
  end.

Lemma least_visx_step p sk ck sk' ck' r :
  ~ (vis p /\ skips sk ck (U p) = false) ->
  (forall x, S p <= x -> vis x -> skips sk ck (U x) = skips sk' ck' (U x)) ->
  least_visx (S p) sk' ck' r -> least_visx p sk ck r.
Proof.
  intros Hp Heq HL. destruct r as [p1|]; cbn [least_visx] in *.
  - destruct HL as (H1 & H2 & H3 & H4). split; [lia|]. split; [exact H2|].
    split; [rewrite (Heq p1 H1 H2); exact H3|].
    intros x Hx1 Hx2 [Hv Hs]. destruct (Nat.eq_dec x p) as [->|Hne]; [apply Hp; auto|].
    apply (H4 x); [lia|exact Hx2|]. split; [exact Hv|]. rewrite <- (Heq x) by (auto; lia). exact Hs.
  - intros x Hx [Hv Hs]. destruct (Nat.eq_dec x p) as [->|Hne]; [apply Hp; auto|].
    apply (HL x); [lia|]. split; [exact Hv|]. rewrite <- (Heq x) by (auto; lia). exact Hs.
Qed.

Lemma least_visx_end p sk ck :
  length M <= S p -> ~ (vis p /\ skips sk ck (U p) = false) -> least_visx p sk ck None.
Proof.
  intros HL Hp x Hx [Hv Hs]. destruct (Nat.eq_dec x p) as [->|Hne]; [apply Hp; auto|].
  destruct Hv as [Hv _]. lia.
Qed.

Lemma qltb_qe p : (q <? Sq p)%N = false <-> qe p.
Proof. unfold qe. rewrite N.ltb_ge. tauto. Qed.

Lemma fnc_spec : forall fuel ms p sk ck,
  R ms (Some p) -> length M - p < fuel -> InvN p sk ck ->
  exists ms' r, find_next_client fuel ms q sk ck = Some (ms', opt_some r, None) /\
                R ms' r /\ least_visx p sk ck r.
Proof.
  induction fuel as [|f IH]; intros ms p sk ck HR Hf [I1 I2]; [lia|].
  pose proof (Rlt ms p HR) as Lp.
  pose proof (Rcur ms _ HR) as Hc. cbn [lc_current] in Hc.
  rewrite (Me_nth p Lp) in Hc. rewrite (fnc_unfold f ms sk ck (Me p) Hc).
  fold (Sq p) (U p) (isdel p).
  destruct (negb (q <? Sq p)%N && negb (isdel p) && negb (skips sk ck (U p))) eqn:Found.
  - (* found *)
    apply andb_true_iff in Found. destruct Found as [Found F3].
    apply andb_true_iff in Found. destruct Found as [F1 F2].
    apply negb_true_iff in F1, F2, F3. apply qltb_qe in F1.
    exists ms, (Some p). split; [reflexivity|]. split; [exact HR|].
    cbn [least_visx]. split; [lia|]. split; [|split; [exact F3|intros x; lia]].
    split; [exact Lp|]. split; [exact F1|]. split; [exact F2|].
    intros (p'' & C & Eu & Q''). rewrite (I1 p p'' (Nat.le_refl _) Lp C Eu Q'') in F3. discriminate.
  - (* skipped *)
    destruct (Rnext ms p HR) as (ms1 & Hn & HR1). rewrite Hn.
    assert (NV : ~ (vis p /\ skips sk ck (U p) = false)).
    { intros [(_ & Q & D & NS) Hs]. apply qltb_qe in Q. rewrite Q, D, Hs in Found. discriminate. }
    cbn [lc_next] in HR1. destruct (Nat.ltb (S p) (length M)) eqn:EL.
    2:{ apply Nat.ltb_ge in EL. rewrite (Rval ms1 _ HR1).
        exists ms1, None. split; [reflexivity|]. split; [exact HR1|].
        apply least_visx_end; assumption. }
    apply Nat.ltb_lt in EL. rewrite (Rval ms1 _ HR1).
    assert (Step : InvN (S p) (nsk (Me p) sk) (nck (Me p) ck) /\
                   forall x, S p <= x -> vis x ->
                     skips sk ck (U x) = skips (nsk (Me p) sk) (nck (Me p) ck) (U x)).
    { unfold nsk, nck. fold (Sq p) (U p) (isdel p).
      destruct (q <? Sq p)%N eqn:EQ.
      - (* newer than the snapshot *)
        split; [|reflexivity]. split.
        + intros p' p'' H1 H2 H3 Eu Q''. destruct (Nat.eq_dec p'' p) as [->|Hne].
          * apply qltb_qe in Q''. congruence.
          * apply (I1 p' p''); auto; lia.
        + intros c p' H1 H2 H3 H4 Q'. apply (I2 c p'); auto. lia.
      - apply qltb_qe in EQ. destruct (isdel p) eqn:ED.
        + (* tombstone *)
          split; [split|].
          * intros p' p'' H1 H2 H3 Eu Q''. cbn [skips]. apply bytes_leb_ule.
            rewrite (U_convex p'' p p'); auto; try lia. rewrite Eu. apply ule_refl.
          * intros c p' _ Ec H1 H2 Q'. inversion Ec; subst c. apply U_mono; lia.
          * intros x Hx Hv. cbn [skips].
            assert (L : ult (U p) (U x)).
            { destruct (ule_cases _ _ (U_mono p x ltac:(lia) (proj1 Hv))) as [L|E]; [exact L|].
              exfalso. apply (proj2 (proj2 (proj2 Hv))). exists p. split; [lia|]. auto. }
            rewrite (proj2 (bytes_leb_false (U x) (U p)) L).
            unfold skips. destruct sk; [|reflexivity]. destruct ck as [c|]; [|reflexivity].
            apply bytes_leb_false. eapply ule_ult_trans; [|exact L].
            apply (I2 c p); auto.
        + (* an older put of a key that is being skipped *)
          cbn [negb andb] in Found. apply negb_false_iff in Found.
          split; [|reflexivity]. split.
          * intros p' p'' H1 H2 H3 Eu Q''. destruct (Nat.eq_dec p'' p) as [->|Hne].
            -- rewrite <- Eu. exact Found.
            -- apply (I1 p' p''); auto; lia.
          * intros c p' H1 H2 H3 H4 Q'. apply (I2 c p'); auto. lia. }
    destruct Step as [Inv' Heq].
    destruct (IH ms1 (S p) _ _ HR1 ltac:(lia) Inv') as (ms' & r & E & HR' & HL).
    exists ms', r. split; [exact E|]. split; [exact HR'|].
    eapply least_visx_step; eauto.
Qed.

Lemma fnc_top m p sk ck :
  R m (Some p) -> InvN p sk ck ->
  exists m' r, find_next_client (entries_bound m) m q sk ck = Some (m', opt_some r, None) /\
               R m' r /\ least_visx p sk ck r.
Proof.
  intros HR HI. apply fnc_spec; auto. rewrite (Rbound m _ HR). lia.
Qed.

Lemma least_convert n sk ck n' r :
  (forall x, vis x -> (n <= x /\ skips sk ck (U x) = false <-> n' <= x)) ->
  least_visx n sk ck r -> least_vis n' r.
Proof.
  intros HT HL. destruct r as [p|]; cbn [least_visx least_vis] in *.
  - destruct HL as (H1 & H2 & H3 & H4). split; [apply (HT p H2); auto|]. split; [exact H2|].
    intros x Hx1 Hx2 Hv. destruct (proj2 (HT x Hv) Hx1) as [A B]. apply (H4 x); auto.
  - intros x Hx Hv. destruct (proj2 (HT x Hv) Hx) as [A B]. apply (HL x); auto.
Qed.

(** * [find_prev_client_entry] *)

Definition Pn (P : option nat) : nat := match P with Some p => S p | None => 0 end.

Definition stopb (ld : bool) (ck : option bytes) (e : entry) : bool :=
  negb ld && match ck with Some c => bytes_ltb (ik_user (fst e)) c | None => false end.

Lemma fpl_unfold f m ld ck cv :
  find_prev_loop (S f) m q ld ck cv =
  match m_current m with
  | None => Some (m, ld, ck, cv)
  | Some e =>
      if (q <? ik_seq (fst e))%N then
        match m_prev m with
        | None => None
        | Some m' => if m_valid m' then find_prev_loop f m' q ld ck cv else Some (m', ld, ck, cv)
        end
      else if stopb ld ck e then Some (m, ld, ck, cv)
      else
        let isd := (ik_op (fst e) =? OP_DELETE)%N in
        let ck' := if isd then None else Some (ik_user (fst e)) in
        let cv' := if isd then None else Some (snd e) in
        match m_prev m with
        | None => None
        | Some m' => if m_valid m' then find_prev_loop f m' q isd ck' cv' else Some (m', isd, ck', cv')
        end
  end.
Proof. cbn [find_prev_loop]. destruct (m_current m) as [[k v]|]; reflexivity. Qed.

Lemma fpl_tail f m P ld ck cv :
  R m P -> 1 <= f ->
  (if m_valid m then find_prev_loop f m q ld ck cv else Some (m, ld, ck, cv))
  = find_prev_loop f m q ld ck cv.
Proof.
  intros HR Hf. destruct f as [|f]; [lia|]. rewrite (Rval m P HR). destruct P as [p|]; [reflexivity|].
  rewrite fpl_unfold, (Rcur m None HR). reflexivity.
Qed.

Definition Pend (P : option nat) (ld : bool) (ck cv : option bytes) (top : nat) : Prop :=
  if ld then top = Pn P
  else exists pc, Pn P <= pc /\ pc < length M /\ top = S pc /\ qe pc /\ isdel pc = false /\
                  ck = Some (U pc) /\ cv = Some (Vl pc) /\
                  forall x, Pn P <= x -> x < pc -> ~ qe x.

Definition PrevPost (top : nat) (P' : option nat) (ld' : bool) (ck' cv' : option bytes) : Prop :=
  exists r, greatest_vis top r /\
    match r with
    | Some p => ld' = false /\ ck' = Some (U p) /\ cv' = Some (Vl p) /\ greatest_q p P'
    | None => ld' = true /\ P' = None
    end.

Lemma greatest_vis_mono n n' r :
  n <= n' -> (forall x, n <= x -> x < n' -> ~ vis x) -> greatest_vis n r -> greatest_vis n' r.
Proof.
  intros Hn Hx HG. destruct r as [p|]; cbn [greatest_vis] in *.
  - destruct HG as (H1 & H2 & H3). split; [lia|]. split; [exact H2|].
    intros x Hx1 Hx2. destruct (Nat.lt_ge_cases x n) as [C|C]; [apply H3; auto|apply Hx; auto].
  - intros x Hx1. destruct (Nat.lt_ge_cases x n) as [C|C]; [apply HG; auto|apply Hx; auto].
Qed.

Lemma PrevPost_mono n n' P' ld' ck' cv' :
  n <= n' -> (forall x, n <= x -> x < n' -> ~ vis x) ->
  PrevPost n P' ld' ck' cv' -> PrevPost n' P' ld' ck' cv'.
Proof.
  intros Hn Hx (r & HG & Hr). exists r. split; [|exact Hr]. eapply greatest_vis_mono; eauto.
Qed.

Lemma fpl_spec : forall fuel ms P ld ck cv top,
  R ms P -> Pn P < fuel -> Pend P ld ck cv top ->
  exists ms' P' ld' ck' cv',
    find_prev_loop fuel ms q ld ck cv = Some (ms', ld', ck', cv') /\ R ms' P' /\
    PrevPost top P' ld' ck' cv'.
Proof.
  induction fuel as [|f IH]; intros ms P ld ck cv top HR Hf HP; [lia|].
  rewrite fpl_unfold, (Rcur ms P HR). destruct P as [p|]; cbn [lc_current].
  2:{ (* ran off the front *)
      exists ms, None, ld, ck, cv. split; [reflexivity|]. split; [exact HR|].
      unfold Pend in HP. destruct ld.
      - subst top. exists None. cbn [Pn greatest_vis]. split; [intros x; lia|auto].
      - destruct HP as (pc & H1 & H2 & -> & Q & D & -> & -> & Hb). exists (Some pc).
        cbn [greatest_vis]. split; [split; [lia|split]|].
        + split; [exact H2|]. split; [exact Q|]. split; [exact D|].
          intros (x & Hx & _ & Qx). apply (Hb x); [cbn [Pn]; lia|exact Hx|exact Qx].
        + intros x; lia.
        + repeat split. cbn [greatest_q]. intros x Hx. apply Hb; [cbn [Pn]; lia|exact Hx]. }
  pose proof (Rlt ms p HR) as Lp. rewrite (Me_nth p Lp). cbn [Pn] in Hf.
  fold (Sq p) (U p) (isdel p) (Vl p).
  destruct (Rprev ms p HR) as (ms1 & Hpv & HR1).
  assert (Pn1 : Pn (lc_prev (Some p)) = p) by (destruct p; reflexivity).
  destruct (q <? Sq p)%N eqn:EQ.
  - (* newer than the snapshot: not processed *)
    rewrite Hpv, (fpl_tail f ms1 _ ld ck cv HR1 ltac:(lia)).
    assert (NQ : ~ qe p) by (intros Q; apply qltb_qe in Q; congruence).
    unfold Pend in HP. destruct ld.
    + subst top. cbn [Pn].
      destruct (IH ms1 _ true ck cv p HR1 ltac:(lia)) as (ms' & P' & ld' & ck' & cv' & E & HR' & Post).
      { unfold Pend. rewrite Pn1. reflexivity. }
      exists ms', P', ld', ck', cv'. split; [exact E|]. split; [exact HR'|].
      eapply PrevPost_mono; [| |exact Post]; [lia|].
      intros x Hx1 Hx2 (_ & Q & _). replace x with p in Q by lia. contradiction.
    + destruct (IH ms1 _ false ck cv top HR1 ltac:(lia)) as (ms' & P' & ld' & ck' & cv' & E & HR' & Post).
      { unfold Pend. rewrite Pn1. destruct HP as (pc & H1 & H2 & H3 & Q & D & Eck & Ecv & Hb).
        exists pc. cbn [Pn] in H1. repeat (split; [first [assumption|lia]|]).
        intros x Hx1 Hx2. destruct (Nat.eq_dec x p) as [->|Hne]; [exact NQ|].
        apply Hb; [cbn [Pn]; lia|exact Hx2]. }
      exists ms', P', ld', ck', cv'. auto.
  - apply qltb_qe in EQ. destruct (stopb ld ck (Me p)) eqn:ES.
    + (* the entry of a smaller user key confirms the pending one *)
      unfold stopb in ES. apply andb_true_iff in ES. destruct ES as [ES1 ES2].
      apply negb_true_iff in ES1. subst ld. unfold Pend in HP.
      destruct HP as (pc & H1 & H2 & -> & Q & D & -> & -> & Hb). fold (U p) in ES2.
      apply bytes_ltb_ult in ES2. cbn [Pn] in H1.
      exists ms, (Some p), false, (Some (U pc)), (Some (Vl pc)). split; [reflexivity|].
      split; [exact HR|]. exists (Some pc). cbn [greatest_vis greatest_q].
      split; [split; [lia|split]|].
      * split; [exact H2|]. split; [exact Q|]. split; [exact D|].
        intros (x & Hx & Eu & Qx). destruct (Nat.lt_trichotomy x p) as [C|[->|C]].
        -- pose proof (U_mono x p ltac:(lia) Lp) as Le. rewrite Eu in Le.
           exact (ule_not_ult _ _ Le ES2).
        -- rewrite Eu in ES2. exact (ult_irrefl _ ES2).
        -- apply (Hb x); [cbn [Pn]; lia|exact Hx|exact Qx].
      * intros x; lia.
      * repeat split; [lia|exact EQ|]. intros x Hx1 Hx2. apply Hb; [cbn [Pn]; lia|exact Hx2].
    + (* processed: it becomes the pending entry (or clears it) *)
      cbn zeta. fold (isdel p). rewrite Hpv.
      rewrite (fpl_tail f ms1 _ _ _ _ HR1 ltac:(lia)).
      (* everything strictly between p and the old top is invisible *)
      assert (Above : forall x, S p <= x -> x < top -> ~ vis x).
      { unfold Pend in HP. destruct ld; [subst top; cbn [Pn]; intros x; lia|].
        destruct HP as (pc & H1 & H2 & -> & Q & D & -> & -> & Hb). cbn [Pn] in H1.
        unfold stopb in ES. cbn [negb andb] in ES. fold (U p) in ES. apply bytes_ltb_false in ES.
        assert (Eu : U p = U pc) by (apply ule_antisym; [apply U_mono; lia|exact ES]).
        intros x Hx1 Hx2 (_ & Qx & _ & NS). destruct (Nat.eq_dec x pc) as [->|Hne].
        - apply NS. exists p. split; [lia|]. auto.
        - apply (Hb x); [cbn [Pn]; lia|lia|exact Qx]. }
      assert (Top : S p <= top).
      { unfold Pend in HP. destruct ld; [subst top; cbn [Pn]; lia|].
        destruct HP as (pc & H1 & _ & -> & _). cbn [Pn] in H1. lia. }
      destruct (isdel p) eqn:ED.
      * destruct (IH ms1 _ true None None p HR1 ltac:(lia)) as (ms' & P' & ld' & ck' & cv' & E & HR' & Post).
        { unfold Pend. rewrite Pn1. reflexivity. }
        exists ms', P', ld', ck', cv'. split; [exact E|]. split; [exact HR'|].
        eapply PrevPost_mono; [| |exact Post]; [lia|].
        intros x Hx1 Hx2. destruct (Nat.eq_dec x p) as [->|Hne].
        -- intros (_ & _ & D & _). congruence.
        -- apply Above; lia.
      * destruct (IH ms1 _ false (Some (U p)) (Some (Vl p)) (S p) HR1 ltac:(lia))
          as (ms' & P' & ld' & ck' & cv' & E & HR' & Post).
        { unfold Pend. rewrite Pn1. exists p. repeat (split; [first [assumption|lia|reflexivity]|]).
          intros x; lia. }
        exists ms', P', ld', ck', cv'. split; [exact E|]. split; [exact HR'|].
        eapply PrevPost_mono; [| |exact Post]; [lia|]. intros x Hx1 Hx2. apply Above; lia.
Qed.

(** [find_prev_client_entry] as a whole *)
Lemma fpc_spec d m P ck cv :
  R m P -> d_seq d = q ->
  exists d' r, find_prev_client d m ck cv = Some d' /\ greatest_vis (Pn P) r /\ d_seq d' = q /\
    exists P', R (d_inner d') P' /\
    match r with
    | None => d_valid d' = false
    | Some p => d_valid d' = true /\ d_fwd d' = false /\ d_ckey d' = Some (U p) /\
                d_cval d' = Some (Vl p) /\ greatest_q p P'
    end.
Proof.
  intros HR Hq. unfold find_prev_client. rewrite Hq, (Rbound m P HR).
  pose proof (Rlt m) as Hlt.
  assert (HPn : Pn P < S (S (length M))).
  { destruct P as [p|]; cbn [Pn]; [specialize (Hlt p HR)|]; lia. }
  destruct (fpl_spec _ m P true ck cv (Pn P) HR HPn eq_refl)
    as (ms' & P' & ld' & ck' & cv' & E & HR' & r & HG & Hr).
  rewrite E. destruct r as [p|].
  - destruct Hr as (-> & -> & -> & HQ). eexists. exists (Some p). split; [reflexivity|].
    split; [exact HG|]. split; [reflexivity|]. exists P'. cbn. auto 10.
  - destruct Hr as (-> & ->). eexists. exists None. split; [reflexivity|].
    split; [exact HG|]. split; [reflexivity|]. exists None. cbn. auto.
Qed.

(** * the loop of [prev] in the forward direction *)
Lemma psl_spec ck : forall fuel ms p,
  R ms (Some p) -> p < fuel ->
  exists res, prev_skip_loop fuel ms ck = Some res /\
    match res with
    | Some ms' => exists p', R ms' (Some p') /\ p' < p /\ ult (U p') ck /\
                             forall x, p' < x -> x < p -> ~ ult (U x) ck
    | None => forall x, x < p -> ~ ult (U x) ck
    end.
Proof.
  induction fuel as [|f IH]; intros ms p HR Hf; [lia|]. cbn [prev_skip_loop].
  destruct (Rprev ms p HR) as (ms1 & Hpv & HR1). rewrite Hpv, (Rcur ms1 _ HR1).
  destruct p as [|p]; cbn [lc_prev lc_current].
  - exists None. split; [reflexivity|]. intros x; lia.
  - pose proof (Rlt ms1 p HR1) as Lp. rewrite (Me_nth p Lp).
    destruct (Me p) as [k v] eqn:EM. assert (Ek : ik_user k = U p) by (unfold U; rewrite EM; reflexivity).
    rewrite Ek. destruct (bytes_ltb (U p) ck) eqn:EL.
    + apply bytes_ltb_ult in EL. exists (Some ms1). split; [reflexivity|]. exists p.
      split; [exact HR1|]. split; [lia|]. split; [exact EL|]. intros x; lia.
    + destruct (IH ms1 p HR1 ltac:(lia)) as (res & E & Hres). exists res. split; [exact E|].
      assert (NL : ~ ult (U p) ck) by (intros L; apply bytes_ltb_ult in L; congruence).
      destruct res as [ms'|].
      * destruct Hres as (p' & HR' & H1 & H2 & H3). exists p'. split; [exact HR'|].
        split; [lia|]. split; [exact H2|]. intros x Hx1 Hx2.
        destruct (Nat.eq_dec x p) as [->|Hne]; [exact NL|apply H3; lia].
      * intros x Hx. destruct (Nat.eq_dec x p) as [->|Hne]; [exact NL|apply Hres; lia].
Qed.

(** * The simulation of the database iterator *)

Definition DR (d : dstate) (Pv : option nat) : Prop :=
  d_seq d = q /\ exists P, R (d_inner d) P /\
  match Pv with
  | None => d_valid d = false
  | Some i => d_valid d = true /\ exists p, Vat i p /\
       if d_fwd d then P = Some p
       else d_ckey d = Some (U p) /\ d_cval d = Some (Vl p) /\ greatest_q p P
  end.

Lemma DR_valid d Pv : DR d Pv -> d_valid d = opt_some Pv.
Proof. intros (_ & P & _ & H). destruct Pv as [i|]; [destruct H as [H _]|]; exact H. Qed.

Lemma DR_current d Pv :
  DR d Pv -> d_current d = match Pv with Some i => nth_error V i | None => None end.
Proof.
  intros (_ & P & HR & H). unfold d_current. destruct Pv as [i|]; [|rewrite H; reflexivity].
  destruct H as (Hv & p & [Hvis Hn] & H). rewrite Hv. cbn [negb]. destruct (d_fwd d).
  - subst P. rewrite (Rcur _ _ HR). cbn [lc_current]. rewrite (Me_nth p (proj1 Hvis)).
    rewrite Hn. unfold U, Vl. destruct (Me p) as [k v]. reflexivity.
  - destruct H as (-> & -> & _). rewrite Hn. reflexivity.
Qed.

Lemma DR_fwd_intro m' r a b n j :
  R m' r -> least_vis n r -> (forall i p, Vat i p -> (n <= p <-> j <= i)) ->
  DR (mkD m' true (opt_some r) a b q) (if Nat.ltb j (length V) then Some j else None).
Proof.
  intros HR HL HT. pose proof (least_to_V n j r HL HT) as H. destruct r as [p|].
  - destruct H as [H1 H2]. rewrite (proj2 (Nat.ltb_lt _ _) H1).
    split; [reflexivity|]. exists (Some p). split; [exact HR|]. cbn. split; [reflexivity|].
    exists p. auto.
  - rewrite (proj2 (Nat.ltb_ge _ _) H). split; [reflexivity|]. exists None. split; [exact HR|].
    reflexivity.
Qed.

Lemma DR_bwd_intro d' r n j :
  d_seq d' = q ->
  (exists P', R (d_inner d') P' /\
     match r with
     | None => d_valid d' = false
     | Some p => d_valid d' = true /\ d_fwd d' = false /\ d_ckey d' = Some (U p) /\
                 d_cval d' = Some (Vl p) /\ greatest_q p P'
     end) ->
  greatest_vis n r -> j <= length V -> (forall i p, Vat i p -> (p < n <-> i < j)) ->
  DR d' (match j with 0 => None | S j' => Some j' end).
Proof.
  intros Hq (P' & HR & Hr) HG Hj HT. pose proof (greatest_to_V n j r HG Hj HT) as H.
  destruct r as [p|].
  - destruct H as (j' & -> & HV). destruct Hr as (H1 & H2 & H3 & H4 & H5).
    split; [exact Hq|]. exists P'. split; [exact HR|]. split; [exact H1|]. exists p.
    split; [exact HV|]. rewrite H2. auto.
  - subst j. split; [exact Hq|]. exists P'. auto.
Qed.

Lemma greatest_convert n n' r :
  (forall x, vis x -> (x < n <-> x < n')) -> greatest_vis n r -> greatest_vis n' r.
Proof.
  intros HT HG. destruct r as [p|]; cbn [greatest_vis] in *.
  - destruct HG as (H1 & H2 & H3). split; [apply (HT p H2); exact H1|]. split; [exact H2|].
    intros x Hx1 Hx2 Hv. apply (H3 x); auto. apply (HT x Hv). exact Hx2.
  - intros x Hx Hv. apply (HG x); auto. apply (HT x Hv). exact Hx.
Qed.

Lemma key_lt_tk p t :
  ikey_lt (fst (Me p)) (mkIKey t q OP_PUT) <-> ult (U p) t \/ (U p = t /\ (q < Sq p)%N).
Proof. rewrite CompactProofs.ikey_lt_cases. cbn [ik_user ik_seq]. reflexivity. Qed.

Lemma pfx_false l : pfx (fun _ => false) l = 0.
Proof. destruct l; reflexivity. Qed.

Lemma Pn_last (l : list entry) : Pn (lc_last l) = length l.
Proof. destruct l as [|x r]; cbn [lc_last Pn length]; lia. Qed.

(** ** seek *)
Lemma d_seek_ok d Pv t :
  DR d Pv -> exists d', d_seek d t = Some d' /\ DR d' (map_lower_bound V 0 t).
Proof.
  intros (Hq & P & HR & _). unfold d_seek. rewrite Hq.
  set (tk := mkIKey t q OP_PUT).
  pose proof (Rseek _ P tk HR) as HR0. rewrite lc_seek_fpos in HR0. unfold fpos in HR0.
  set (n0 := pfx (ltk tk) M) in *.
  rewrite (Rval _ _ HR0), mlb_vcnt. cbn [Nat.add].
  assert (Spec : forall x, x < length M -> (x < n0 <-> ikey_lt (fst (Me x)) tk)).
  { intros x Hx.
    pose proof (pfx_spec (ltk tk) M MSS (cut_ltk tk) x (Me x) (Me_nth x Hx)) as S0.
    change (pfx (ltk tk) M) with n0 in S0. rewrite <- S0. unfold ltk. apply ikey_ltb_iff. }
  assert (Thr : forall i p, Vat i p -> (n0 <= p <-> vcnt V t <= i)).
  { intros i p [Hv Hn]. pose proof (vcnt_spec V t HVs i _ Hn) as S1. cbn [fst] in S1.
    pose proof (Spec p (proj1 Hv)) as S2. unfold tk in S2. rewrite key_lt_tk in S2.
    destruct Hv as (_ & Q & _). unfold qe in Q. split; intros H.
    - destruct (Nat.lt_ge_cases i (vcnt V t)) as [C|C]; [|exact C]. exfalso.
      apply S1 in C. assert (p < n0) by (apply S2; auto). lia.
    - destruct (Nat.lt_ge_cases p n0) as [C|C]; [|exact C]. exfalso.
      apply S2 in C. destruct C as [C|[_ C]]; [|lia]. apply S1 in C. lia. }
  destruct (Nat.ltb n0 (length M)) eqn:EL.
  - assert (Inv : InvN n0 false (Some t)).
    { split; [|intros; discriminate]. intros p' p'' H1 H2 H3 Eu Q''. exfalso.
      assert (A : ikey_lt (fst (Me p'')) tk) by (apply Spec; lia).
      unfold tk in A. rewrite key_lt_tk in A. unfold qe in Q''.
      destruct A as [A|[_ A]]; [|lia]. rewrite Eu in A.
      assert (B : p' < n0); [|lia]. apply Spec; [exact H2|]. unfold tk. apply key_lt_tk. auto. }
    destruct (fnc_top _ n0 false (Some t) HR0 Inv) as (m' & r & E & HR' & HL). rewrite E.
    eexists. split; [reflexivity|]. apply (DR_fwd_intro m' r _ _ n0 (vcnt V t)); auto.
    apply (least_convert n0 false (Some t)); [|exact HL]. intros x Hv. cbn [skips]. tauto.
  - apply Nat.ltb_ge in EL. eexists. split; [reflexivity|].
    change false with (opt_some (@None nat)).
    apply (DR_fwd_intro _ None _ _ n0 (vcnt V t)); auto.
    intros x Hx (Hlt & _). lia.
Qed.

(** ** seek_to_first *)
Lemma d_first_ok d Pv :
  DR d Pv -> exists d', d_first d = Some d' /\ DR d' (match V with [] => None | _ => Some 0 end).
Proof.
  intros (Hq & P & HR & _). unfold d_first. rewrite Hq.
  pose proof (Rfirst _ P HR) as HR0. rewrite lc_first_fpos in HR0. unfold fpos in HR0.
  rewrite pfx_false in HR0. rewrite (Rval _ _ HR0).
  assert (EV : match V with [] => None | _ => Some 0 end
               = if Nat.ltb 0 (length V) then Some 0 else None) by (destruct V; reflexivity).
  rewrite EV.
  assert (Thr : forall i p, Vat i p -> (0 <= p <-> 0 <= i)) by (intros; lia).
  destruct (Nat.ltb 0 (length M)) eqn:EL.
  - assert (Inv : InvN 0 false (d_ckey d)).
    { split; [intros; lia|intros; discriminate]. }
    destruct (fnc_top _ 0 false (d_ckey d) HR0 Inv) as (m' & r & E & HR' & HL). rewrite E.
    eexists. split; [reflexivity|]. apply (DR_fwd_intro m' r _ _ 0 0); auto.
    apply (least_convert 0 false (d_ckey d)); [|exact HL]. intros x Hv. cbn [skips]. tauto.
  - apply Nat.ltb_ge in EL. eexists. split; [reflexivity|].
    change false with (opt_some (@None nat)).
    apply (DR_fwd_intro _ None _ _ 0 0); auto. intros x Hx (Hlt & _). lia.
Qed.

(** ** seek_to_last *)
Lemma d_last_ok d Pv :
  DR d Pv ->
  exists d', d_last d = Some d' /\
             DR d' (match V with [] => None | _ => Some (length V - 1) end).
Proof.
  intros (Hq & P & HR & _). unfold d_last.
  pose proof (Rlast _ P HR) as HR0.
  destruct (fpc_spec d _ _ (d_ckey d) None HR0 Hq) as (d' & r & E & HG & Hq' & HP').
  exists d'. split; [exact E|]. rewrite Pn_last in HG.
  assert (EV : match V with [] => None | _ => Some (length V - 1) end
               = match length V with 0 => None | S j' => Some j' end).
  { destruct V as [|x l]; [reflexivity|]. cbn [length]. f_equal. lia. }
  rewrite EV. apply (DR_bwd_intro d' r (length M) (length V)); auto.
  intros i p HV. pose proof (Vat_idx_lt i p HV). pose proof (proj1 (proj1 HV)). lia.
Qed.

(** ** next *)
Lemma next_thr p n0 : vis p -> n0 <= p ->
  forall x, vis x -> (n0 <= x /\ skips true (Some (U p)) (U x) = false <-> S p <= x).
Proof.
  intros Hp Hn x Hx. cbn [skips]. rewrite bytes_leb_false. split.
  - intros [_ L]. apply U_lt_idx; [apply Hp|apply Hx|exact L].
  - intros H. split; [lia|]. apply vis_ult; auto.
Qed.

Lemma d_next_ok d i :
  DR d (Some i) ->
  exists d', d_next d = Some d' /\ DR d' (if Nat.ltb (S i) (length V) then Some (S i) else None).
Proof.
  intros (Hq & P & HR & Hv & p & HV & H). unfold d_next. rewrite Hv, Hq. cbn [negb].
  pose proof (proj1 HV) as Hvis. pose proof (proj1 Hvis) as Lp.
  assert (Thr : forall i' p', Vat i' p' -> (S p <= p' <-> S i <= i')).
  { intros i' p' HV'. pose proof (Vat_lt i p i' p' HV HV'). lia. }
  destruct (d_fwd d); cbn [negb].
  - (* forward *)
    subst P. rewrite (Rcur _ _ HR). cbn [lc_current]. rewrite (Me_nth p Lp).
    destruct (Me p) as [k v] eqn:EM.
    assert (Ek : ik_user k = U p) by (unfold U; rewrite EM; reflexivity). rewrite Ek.
    destruct (Rnext _ p HR) as (m1 & Hn & HR1). rewrite Hn. cbn [lc_next] in HR1.
    rewrite (Rval _ _ HR1). destruct (Nat.ltb (S p) (length M)) eqn:EL; cbn [negb].
    + assert (Inv : InvN (S p) true (Some (U p))).
      { split.
        - intros p' p'' H1 H2 H3 Eu Q''. cbn [skips]. apply bytes_leb_ule.
          rewrite (U_convex p'' p p'); auto; try lia. rewrite Eu. apply ule_refl.
        - intros c p' _ Ec H1 H2 Q'. inversion Ec; subst c. apply U_mono; lia. }
      destruct (fnc_top _ (S p) true (Some (U p)) HR1 Inv) as (m' & r & E & HR' & HL). rewrite E.
      eexists. split; [reflexivity|]. apply (DR_fwd_intro m' r _ _ (S p) (S i)); auto.
      apply (least_convert (S p) true (Some (U p))); [|exact HL].
      intros x Hx. pose proof (next_thr p (S p) Hvis) as T.
      split; [intros [A B]; exact A|]. intros A. split; [exact A|].
      cbn [skips]. apply bytes_leb_false. apply vis_ult; auto.
    + apply Nat.ltb_ge in EL. eexists. split; [reflexivity|].
      change false with (opt_some (@None nat)).
      apply (DR_fwd_intro _ None _ _ (S p) (S i)); auto. intros x Hx (Hlt & _). lia.
  - (* backward: the inner iterator sits before the entries of the current key *)
    destruct H as (Eck & Ecv & HQ).
    assert (HR1 : exists m, (if m_valid (d_inner d) then m_next (d_inner d)
                             else Some (m_first (d_inner d))) = Some m /\ R m (Some (Pn P))
                            /\ Pn P <= p).
    { rewrite (Rval _ _ HR). destruct P as [pp|]; cbn [greatest_q Pn] in *.
      - destruct HQ as (H1 & _). destruct (Rnext _ pp HR) as (m1 & Hn & HR1). exists m1.
        split; [exact Hn|]. cbn [lc_next] in HR1.
        rewrite (proj2 (Nat.ltb_lt (S pp) (length M))) in HR1 by lia. split; [exact HR1|lia].
      - eexists. split; [reflexivity|]. split; [|lia]. pose proof (Rfirst _ _ HR) as HR1.
        rewrite lc_first_fpos in HR1. unfold fpos in HR1. rewrite pfx_false in HR1.
        rewrite (proj2 (Nat.ltb_lt 0 (length M))) in HR1 by lia. exact HR1. }
    destruct HR1 as (m & -> & HR1 & Hn0). rewrite (Rval _ _ HR1). cbn [negb]. rewrite Eck.
    assert (Inv : InvN (Pn P) true (Some (U p))).
    { split.
      - intros p' p'' H1 H2 H3 Eu Q''. cbn [skips]. apply bytes_leb_ule. rewrite <- Eu.
        apply U_mono; lia.
      - intros c p' _ Ec H1 H2 Q'. inversion Ec; subst c.
        destruct (Nat.lt_ge_cases p' p) as [C|C]; [|apply U_mono; lia]. exfalso.
        destruct P as [pp|]; cbn [greatest_q Pn] in *.
        + destruct HQ as (_ & _ & HQ). apply (HQ p'); auto.
        + apply (HQ p'); auto. }
    destruct (fnc_top _ (Pn P) true (Some (U p)) HR1 Inv) as (m' & r & E & HR' & HL). rewrite E.
    eexists. split; [reflexivity|]. apply (DR_fwd_intro m' r _ _ (S p) (S i)); auto.
    apply (least_convert (Pn P) true (Some (U p))); [|exact HL]. apply next_thr; auto.
Qed.

(** ** prev *)
Lemma d_prev_ok d i :
  DR d (Some i) ->
  exists d', d_prev d = Some d' /\ DR d' (match i with 0 => None | S i' => Some i' end).
Proof.
  intros (Hq & P & HR & Hv & p & HV & H). unfold d_prev. rewrite Hv. cbn [negb].
  pose proof (proj1 HV) as Hvis. pose proof (proj1 Hvis) as Lp.
  pose proof (Vat_idx_lt i p HV) as Li.
  assert (Thr : forall i' p', Vat i' p' -> (p' < p <-> i' < i)).
  { intros i' p' HV'. pose proof (Vat_lt i' p' i p HV' HV). tauto. }
  destruct (d_fwd d).
  - (* forward: step back over the entries of the current key first *)
    subst P. rewrite (Rcur _ _ HR). cbn [lc_current]. rewrite (Me_nth p Lp).
    destruct (Me p) as [k v] eqn:EM.
    assert (Ek : ik_user k = U p) by (unfold U; rewrite EM; reflexivity). rewrite Ek.
    destruct (psl_spec (U p) (entries_bound (d_inner d)) (d_inner d) p HR) as (res & E & Hres).
    { rewrite (Rbound _ _ HR). lia. }
    rewrite E. destruct res as [m|].
    + destruct Hres as (p' & HR' & H1 & H2 & H3).
      destruct (fpc_spec d m (Some p') (Some (U p)) (d_cval d) HR' Hq)
        as (d' & r & E' & HG & Hq' & HP').
      exists d'. split; [exact E'|]. apply (DR_bwd_intro d' r p i); auto; [|lia].
      apply (greatest_convert (Pn (Some p'))); [|exact HG]. intros x Hx. cbn [Pn]. split; [lia|].
      intros C. destruct (Nat.lt_ge_cases x (S p')) as [C'|C']; [exact C'|]. exfalso.
      apply (H3 x); [lia|exact C|]. apply vis_ult; auto.
    + eexists. split; [reflexivity|].
      assert (Ei : i = 0).
      { apply (greatest_to_V p i None); [|lia|exact Thr]. intros x Hx Hvx.
        apply (Hres x Hx). apply vis_ult; auto. }
      subst i. split; [exact Hq|]. eexists. split; [|reflexivity].
      cbn [d_inner]. eapply Rlast. eapply Rfirst. exact HR.
  - (* backward *)
    destruct H as (Eck & Ecv & HQ).
    destruct (fpc_spec d _ P (d_ckey d) (d_cval d) HR Hq) as (d' & r & E' & HG & Hq' & HP').
    exists d'. split; [exact E'|]. apply (DR_bwd_intro d' r p i); auto; [|lia].
    apply (greatest_convert (Pn P)); [|exact HG]. intros x Hx.
    destruct P as [pp|]; cbn [greatest_q Pn] in *.
    + destruct HQ as (H1 & H2 & H3). split; [lia|]. intros C.
      destruct (Nat.lt_ge_cases x (S pp)) as [C'|C']; [exact C'|]. exfalso.
      apply (H3 x); [lia|exact C|apply Hx].
    + split; [lia|]. intros C. exfalso. apply (HQ x C). apply Hx.
Qed.

(** ** scripts *)
Lemma d_run_ok ops : forall d Pv,
  DR d Pv -> d_run d ops = (fst (cursor_run V Pv ops), true).
Proof.
  induction ops as [|o ops IH]; intros d Pv HD; [reflexivity|].
  assert (Obs : forall d' Pv', DR d' Pv' ->
            match d_current d' with Some e => OAt e | None => OInvalid end
            = match Pv' with
              | None => OInvalid
              | Some i => match nth_error V i with Some e => OAt e | None => OInvalid end
              end).
  { intros d' Pv' HD'. rewrite (DR_current d' Pv' HD'). destruct Pv'; reflexivity. }
  assert (Go : forall res Pv', (exists d', res = Some d' /\ DR d' Pv') ->
            match res with
            | None => ([], false)
            | Some d' =>
                (match d_current d' with Some e => OAt e | None => OInvalid end
                   :: fst (d_run d' ops), snd (d_run d' ops))
            end
            = (match Pv' with
               | None => OInvalid
               | Some i => match nth_error V i with Some e => OAt e | None => OInvalid end
               end :: fst (cursor_run V Pv' ops), true)).
  { intros res Pv' (d' & -> & HD'). rewrite (IH d' Pv' HD'), (Obs d' Pv' HD'). reflexivity. }
  cbn [d_run cursor_run]. pose proof (DR_valid d Pv HD) as Hval.
  destruct o; cbn [cursor_step negb].
  - apply Go. apply d_first_ok with (Pv := Pv). exact HD.
  - apply Go. apply d_last_ok with (Pv := Pv). exact HD.
  - apply Go. apply d_seek_ok with (Pv := Pv). exact HD.
  - rewrite Hval. destruct Pv as [i|]; cbn [opt_some negb].
    + apply Go. apply d_next_ok. exact HD.
    + rewrite (IH d None HD). reflexivity.
  - rewrite Hval. destruct Pv as [i|]; cbn [opt_some negb].
    + destruct i as [|i']; [apply (Go _ None)|apply (Go _ (Some i'))]; apply (d_prev_ok d _ HD).
    + rewrite (IH d None HD). reflexivity.
Qed.

Lemma DR_new poss : length poss = length ls -> DR (d_new (combine ls poss) q) None.
Proof.
  intros HL. split; [reflexivity|]. exists None. split; [|reflexivity].
  cbn [d_new d_inner]. apply R_new. exact HL.
Qed.

End DBITER.

(** * The theorems *)

Lemma map_fst_combine {A B} (l : list A) : forall (l' : list B),
  length l' = length l -> map fst (combine l l') = l.
Proof.
  induction l as [|x r IH]; intros l' HL; [reflexivity|].
  destruct l' as [|y l']; [discriminate|]. cbn [combine map fst]. f_equal. apply IH.
  cbn [length] in HL. lia.
Qed.

Theorem dbiter_refines_gen :
  forall (cs : list child) (q : N) (V : list kv) (ops : list iop),
    Forall (fun l => sorted_entries l = true) (map fst cs) ->
    keys_unique (map fst cs) ->
    map_sorted V ->
    (forall k, map_get k V = visible (concat (map fst cs)) q k) ->
    d_run (d_new cs q) ops = (fst (cursor_run V None ops), true).
Proof.
  intros cs q V ops Hs Hu HVs HVg.
  apply (d_run_ok (map fst cs) Hs Hu q V HVs HVg ops).
  split; [reflexivity|]. exists None. split; [|reflexivity].
  apply R_none; reflexivity.
Qed.

Theorem dbiter_refines_proof :
  forall (ls : list (list entry)) (poss : list (option nat)) (q : N) (ops : list iop),
    length poss = length ls ->
    Forall (fun l => sorted_entries l = true) ls ->
    keys_unique ls ->
    d_run (d_new (combine ls poss) q) ops
    = (fst (cursor_run (contents (concat ls) q) None ops), true).
Proof.
  intros ls poss q ops HL Hs Hu.
  pose proof (map_fst_combine ls poss HL) as E.
  destruct (GetProofs.contents_spec (concat ls) q) as [S G].
  apply dbiter_refines_gen; rewrite ?E; auto.
Qed.

(** ** the iterator handed out by a database state *)

Lemma NoDup_app_intro {A} (a b : list A) :
  NoDup a -> NoDup b -> (forall x, In x a -> In x b -> False) -> NoDup (a ++ b).
Proof.
  induction a as [|x a IH]; intros Ha Hb Hd; [exact Hb|]. cbn [app].
  apply NoDup_cons_iff in Ha. destruct Ha as [H1 H2]. constructor.
  - intros H. apply in_app_or in H. destruct H as [H|H]; [contradiction|].
    apply (Hd x); [left; reflexivity|exact H].
  - apply IH; auto. intros y Hy. apply Hd. right. exact Hy.
Qed.

Lemma sources_nodup srcs :
  forallb sorted_entries srcs = true -> recency_ok srcs = true ->
  NoDup (map key_of (concat srcs)).
Proof.
  induction srcs as [|x r IH]; intros S Rc; [constructor|].
  cbn [forallb] in S. apply andb_true_iff in S. destruct S as [Sx Sr].
  apply GetProofs.recency_cons_inv in Rc. destruct Rc as [Rx Rr].
  cbn [concat]. rewrite map_app. apply NoDup_app_intro.
  - apply CompactProofs.SS_elt_NoDup_keys. apply CompactProofs.sorted_entries_SS. exact Sx.
  - apply IH; assumption.
  - intros k H1 H2. apply in_map_iff in H1. destruct H1 as (a & Ea & Ha).
    apply in_map_iff in H2. destruct H2 as (b & Eb & Hb).
    apply in_concat in Hb. destruct Hb as (y & Hy & Hb).
    assert (E : key_of a = key_of b) by congruence. inversion E as [[E1 E2]].
    pose proof (GetProofs.newer_than_spec _ _ (Rx y Hy) a b Ha Hb E1). lia.
Qed.

Lemma insert_num_perm f l : Permutation (insert_by_num_desc f l) (f :: l).
Proof.
  induction l as [|g r IH]; cbn [insert_by_num_desc]; [reflexivity|].
  destruct (fm_num g <? fm_num f)%N; [reflexivity|]. rewrite IH. apply perm_swap.
Qed.

Lemma sort_num_perm l : Permutation (sort_by_num_desc l) l.
Proof.
  unfold sort_by_num_desc. induction l as [|f l IH]; cbn [fold_right]; [constructor|].
  rewrite insert_num_perm. constructor. exact IH.
Qed.

Lemma perm_concat {A} (l l' : list (list A)) :
  Permutation l l' -> Permutation (concat l) (concat l').
Proof.
  induction 1 as [|x l l' H IH|x y l|l l' l'' H1 IH1 H2 IH2]; cbn [concat].
  - constructor.
  - apply Permutation_app_head. exact IH.
  - rewrite !app_assoc. apply Permutation_app_tail. apply Permutation_app_comm.
  - etransitivity; eassumption.
Qed.

Lemma concat_filter_nonempty {A} (l : list (list A)) :
  concat (filter (fun es => match es with [] => false | _ => true end) l) = concat l.
Proof.
  induction l as [|x r IH]; [reflexivity|]. cbn [filter]. destruct x as [|a x].
  - cbn [concat app]. exact IH.
  - cbn [concat]. rewrite IH. reflexivity.
Qed.

Definition child_lists (s : lsm) : list (list entry) :=
  l_mem s :: match l_imm s with Some i => [i] | None => [] end
  ++ map (fun f => file_entries s (fm_num f)) (level_files (l_ver s) O)
  ++ filter (fun es => match es with [] => false | _ => true end)
            (map (fun fs => flat_map (fun f => file_entries s (fm_num f)) fs) (tl (l_ver s))).

Lemma iter_children_fst s : map fst (iter_children s) = child_lists s.
Proof. unfold iter_children. rewrite map_map. cbn [fst]. apply map_id. Qed.

Lemma child_lists_perm s : Permutation (concat (child_lists s)) (concat (sources s)).
Proof.
  unfold child_lists, sources. cbn [concat]. apply Permutation_app_head.
  rewrite !concat_app. apply Permutation_app_head. apply Permutation_app.
  - apply perm_concat. apply Permutation_map. symmetry. apply sort_num_perm.
  - rewrite concat_filter_nonempty. reflexivity.
Qed.

Lemma child_lists_in_sources s l : In l (child_lists s) -> In l (sources s).
Proof.
  unfold child_lists, sources. intros [H|H]; [left; exact H|right].
  apply in_app_or in H. apply in_or_app. destruct H as [H|H]; [left; exact H|right].
  apply in_app_or in H. apply in_or_app. destruct H as [H|H]; [left|right].
  - apply in_map_iff in H. destruct H as (f & <- & Hf).
    apply (in_map (fun f => file_entries s (fm_num f))). apply GetProofs.sort_num_in. exact Hf.
  - apply filter_In in H. exact (proj1 H).
Qed.

Theorem db_iterator_proof :
  forall (s : lsm) (q : N) (ops : list iop),
    lsm_wf_b s = true ->
    d_run (d_new (iter_children s) q) ops
    = (fst (cursor_run (contents (all_entries s) q) None ops), true).
Proof.
  intros s q ops W. apply GetProofs.lsm_wf_b_iff in W.
  destruct W as (_ & _ & _ & So & Re & _).
  pose proof (sources_nodup _ So Re) as ND.
  assert (ND' : NoDup (map key_of (concat (child_lists s)))).
  { eapply Permutation_NoDup; [|exact ND]. apply Permutation_map. symmetry.
    apply child_lists_perm. }
  destruct (GetProofs.contents_spec (all_entries s) q) as [S G].
  apply dbiter_refines_gen; rewrite ?iter_children_fst; auto.
  - apply Forall_forall. intros l Hl. rewrite forallb_forall in So. apply So.
    apply child_lists_in_sources. exact Hl.
  - intros k. rewrite G. symmetry. apply CompactProofs.visible_ext.
    + apply CompactProofs.NoDup_key_inj. exact ND'.
    + intros e. rewrite GetProofs.all_entries_sources. split; apply Permutation_in;
        [|symmetry]; apply child_lists_perm.
Qed.

(** * Example data for the non-vacuity checks of [props/C04a.v] *)

Definition xa : bytes := [97%N].
Definition xb : bytes := [98%N].
Definition xc : bytes := [99%N].
Definition xd : bytes := [100%N].
Definition xe : bytes := [101%N].
Definition xf : bytes := [102%N].
Definition xg : bytes := [103%N].

Definition xput (k : bytes) (s : N) (v : N) : entry := (mkIKey k s OP_PUT, [v]).
Definition xdel (k : bytes) (s : N) : entry := (mkIKey k s OP_DELETE, []).

(** three children (a memtable and two table runs): several versions per key, runs of
    tombstones, entries newer than the snapshots used below *)
Definition ex_child0 : list entry :=
  [xput xa 20 1; xdel xa 12; xput xb 18 2; xdel xc 19; xput xd 30 3; xput xe 17 4; xdel xf 26;
   xdel xg 28; xput xg 27 5].
Definition ex_child1 : list entry :=
  [xput xa 9 6; xdel xb 11; xput xb 8 7; xput xc 10 8; xdel xd 7; xput xf 13 9; xdel xg 16].
Definition ex_child2 : list entry :=
  [xput xa 3 10; xput xb 2 11; xput xc 4 12; xput xc 1 13; xput xd 6 14; xput xd 5 15;
   xput xg 15 16; xput xg 14 17].
Definition ex_children : list (list entry) := [ex_child0; ex_child1; ex_child2].
Definition ex_poss : list (option nat) := [Some O; None; None].

Definition ex_script : list iop :=
  [IFirst; INext; INext; IPrev; IPrev; INext; ILast; IPrev; INext; INext;
   ISeek xc; IPrev; INext; ISeek xb; INext; IPrev; IPrev; IPrev; IFirst; IPrev;
   ILast; INext; ISeek [122%N]; ILast; IPrev; IPrev; INext; IPrev; INext; INext].

Definition ex_mscript : list cop :=
  [CFirst; CNext; CNext; CPrev; CNext; CLast; CPrev; CPrev; CNext; CPrev;
   CSeek (mkIKey xc 10 OP_PUT); CPrev; CPrev; CNext; CNext; CNext; CPrev;
   CSeek (mkIKey xd 100 OP_PUT); CNext; CPrev; CPrev; CLast; CPrev; CNext;
   CFirst; CNext; CPrev; CNext; CNext; CPrev].

(** two children holding the same (user key, sequence) *)
Definition dup_children : list (list entry) := [[xput xa 5 1]; [xput xa 5 2]].
