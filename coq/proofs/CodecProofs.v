(** Round trips of the codecs of [model/Codec.v]: varints as read by [VarIntReader], length
    prefixed slices, write batches ([src/batch.rs]) and version changes
    ([src/versioning/version_manifest.rs]). No axioms. *)
From Coq Require Import Lia ZArith ZifyN ZifyBool ZifyNat Arith List NArith Bool.
From RainVerif Require Import Params.
From RainVerif.model Require Import Bytes Key Block Version Lsm DbSpec Codec WalModel.
From RainVerif.proofs Require Import KeyProofs BlockProofs.
Import ListNotations.
Open Scope N_scope.
Ltac Zify.zify_post_hook ::= Z.div_mod_to_equations.
Arguments N.add : simpl never.
Arguments N.sub : simpl never.
Arguments N.mul : simpl never.
Arguments N.div : simpl never.
Arguments N.modulo : simpl never.
Arguments N.eqb : simpl never.
Arguments N.ltb : simpl never.
Arguments N.leb : simpl never.
Arguments N.pow : simpl never.
Arguments N.of_nat : simpl never.
Arguments N.to_nat : simpl never.

Definition two64 : N := 18446744073709551616.
Definition two32' : N := 4294967296.

(** * Varints *)

(** [varint_read] is [varint_dec] returning the remaining input instead of the length *)
Lemma varint_read_dec : forall fuel shift acc l,
  varint_read fuel shift acc l =
  match varint_dec fuel shift acc l with
  | Some (v, n) => Some (v, skipn n l)
  | None => None
  end.
Proof.
  induction fuel as [|fuel IH]; intros shift acc l; [reflexivity|].
  cbn [varint_read varint_dec]. destruct l as [|b r]; [reflexivity|].
  destruct (b <? 128) eqn:E; [reflexivity|].
  rewrite IH.
  destruct (varint_dec fuel (shift + 7)
              ((acc + b mod 128 * 2 ^ shift) mod 18446744073709551616) r) as [[v n]|];
    reflexivity.
Qed.

Lemma varint_read_enc_gen k fe fd n shift acc rest :
  n < 128 ^ N.of_nat (S k) -> (k <= fe)%nat -> (k < fd)%nat ->
  acc + n * 2 ^ shift < 18446744073709551616 ->
  varint_read fd shift acc (varint_enc fe n ++ rest) = Some (acc + n * 2 ^ shift, rest).
Proof.
  intros Hn Hfe Hfd Hb. rewrite varint_read_dec.
  rewrite (varint_dec_enc k fe fd n shift acc rest Hn Hfe Hfd Hb).
  rewrite skipn_app_len by reflexivity. reflexivity.
Qed.

(** a u32 is read back with the five byte limit of [read_varint::<u32>] *)
Theorem varint_read_enc32 n rest :
  n < 4294967296 -> varint_read 5 0 0 (varint_enc 10 n ++ rest) = Some (n, rest).
Proof.
  intros Hn.
  assert (H5 : 128 ^ N.of_nat 5 = 34359738368) by reflexivity.
  rewrite (varint_read_enc_gen 4 10 5 n 0 0 rest); try lia.
  rewrite N.pow_0_r. f_equal. f_equal. lia.
Qed.

(** a u64 is read back with the ten byte limit of [read_varint::<u64>] *)
Theorem varint_read_enc64 n rest :
  n < 18446744073709551616 -> varint_read 10 0 0 (varint_enc 10 n ++ rest) = Some (n, rest).
Proof.
  intros Hn.
  assert (H10 : 128 ^ N.of_nat 10 = 1180591620717411303424) by reflexivity.
  rewrite (varint_read_enc_gen 9 10 10 n 0 0 rest); try lia.
  rewrite N.pow_0_r. f_equal. f_equal. lia.
Qed.

Theorem read_varint32_enc n rest :
  n < 4294967296 -> read_varint32 (varint32 n ++ rest) = Some (n, rest).
Proof.
  intros Hn. unfold read_varint32, varint32. rewrite varint_read_enc32 by assumption.
  rewrite N.mod_small by assumption. reflexivity.
Qed.

Theorem read_varint64_enc n rest :
  n < 18446744073709551616 -> read_varint64 (varint64 n ++ rest) = Some (n, rest).
Proof.
  intros Hn. unfold read_varint64, varint64. apply varint_read_enc64. assumption.
Qed.

Lemma varint32_small t : t < 128 -> varint32 t = [t].
Proof.
  intros Ht. unfold varint32. cbn [varint_enc].
  destruct (t <? 128) eqn:E; [reflexivity|lia].
Qed.

Lemma read_varint32_tag t rest : t < 128 -> read_varint32 (t :: rest) = Some (t, rest).
Proof.
  intros Ht. change (t :: rest) with ([t] ++ rest). rewrite <- (varint32_small t Ht).
  apply read_varint32_enc. lia.
Qed.

(** * Slices *)

Theorem read_slice_write s rest :
  blen s < 4294967296 -> read_slice (write_slice s ++ rest) = Some (s, rest).
Proof.
  intros Hs. unfold read_slice, write_slice. rewrite <- app_assoc.
  rewrite N.mod_small by assumption. rewrite read_varint32_enc by assumption.
  rewrite blen_app.
  destruct (blen s + blen rest <? blen s) eqn:E; [lia|].
  rewrite takeN_app_exact, dropN_app_exact by reflexivity. reflexivity.
Qed.

(** * Write batches *)

Lemma elem_decode_encode o rest :
  wop_ok o = true -> elem_decode (elem_encode o ++ rest) = Some (o, rest).
Proof.
  intros Hok. destruct o as [k v|k]; cbn [wop_ok] in Hok.
  - apply andb_true_iff in Hok. destruct Hok as [Hk Hv].
    unfold elem_encode. rewrite <- !app_assoc. cbn [app elem_decode].
    change (OP_PUT =? OP_PUT) with true. cbv iota.
    rewrite read_slice_write by lia. rewrite read_slice_write by lia. reflexivity.
  - unfold elem_encode. rewrite <- !app_assoc. cbn [app elem_decode].
    change (OP_DELETE =? OP_PUT) with false. change (OP_DELETE =? OP_DELETE) with true. cbv iota.
    rewrite read_slice_write by lia. reflexivity.
Qed.

Lemma elems_decode_encode : forall ops rest,
  forallb wop_ok ops = true ->
  elems_decode (length ops) (concat (map elem_encode ops) ++ rest) = Some ops.
Proof.
  induction ops as [|o ops IH]; intros rest Hok; [reflexivity|].
  cbn [forallb] in Hok. apply andb_true_iff in Hok. destruct Hok as [Ho Hops].
  cbn [length map concat elems_decode]. rewrite <- app_assoc.
  rewrite elem_decode_encode by assumption. rewrite IH by assumption. reflexivity.
Qed.

(** a batch is read back from its encoding, whatever follows it *)
Theorem batch_decode_encode_app (b : batch) rest :
  batch_ok b = true -> batch_decode (batch_bytes b ++ rest) = Some b.
Proof.
  destruct b as [seq ops]. unfold batch_ok, batch_bytes. cbn [fst snd]. intros Hok.
  apply andb_true_iff in Hok. destruct Hok as [Hok Hops].
  apply andb_true_iff in Hok. destruct Hok as [Hseq Hlen].
  unfold batch_decode, batch_encode. rewrite <- !app_assoc.
  rewrite blen_app.
  assert (H8 : blen (le_encode 8 seq) = 8).
  { unfold blen. rewrite le_encode_length. reflexivity. }
  rewrite H8.
  destruct (8 + blen (varint32 (N.of_nat (length ops) mod 4294967296) ++
                      concat (map elem_encode ops) ++ rest) <? 8) eqn:E; [lia|].
  rewrite firstn_app_len by apply le_encode_length.
  rewrite skipn_app_len by apply le_encode_length.
  rewrite le_decode_encode8 by lia.
  rewrite N.mod_small by lia.
  rewrite read_varint32_enc by lia.
  rewrite Nat2N.id. rewrite elems_decode_encode by assumption. reflexivity.
Qed.

Theorem batch_decode_encode (b : batch) :
  batch_ok b = true -> batch_decode (batch_bytes b) = Some b.
Proof.
  intros Hok. rewrite <- (app_nil_r (batch_bytes b)). apply batch_decode_encode_app. assumption.
Qed.

(** * Version changes *)

Definition opt_ok (o : option N) : bool :=
  match o with Some v => v <? 18446744073709551616 | None => true end.

Definition key_ok (k : ikey) : bool :=
  ikey_boundedb k && (blen (ikey_encode k) <? 4294967296).

Definition fmeta_ok (f : fmeta) : bool :=
  (fm_num f <? 18446744073709551616) && (fm_size f <? 18446744073709551616)
  && key_ok (fm_small f) && key_ok (fm_large f).

Definition pair_eqb (a b : N * N) : bool := (fst a =? fst b) && (snd a =? snd b).

Fixpoint nodupb (l : list (N * N)) : bool :=
  match l with
  | [] => true
  | d :: r => negb (existsb (pair_eqb d) r) && nodupb r
  end.

(** well-formedness of a version change: all numbers fit their wire types, the levels are
    valid, and no file is listed twice as deleted (the deleted files are a set in the code) *)
Definition vchange_ok (c : vchange) : bool :=
  opt_ok (vc_wal c) && opt_ok (vc_prev_wal c) && opt_ok (vc_curr_file c) && opt_ok (vc_prev_seq c)
  && forallb (fun p => (fst p <? MAX_NUM_LEVELS) && key_ok (snd p)) (vc_pointers c)
  && forallb (fun d => (fst d <? MAX_NUM_LEVELS) && (snd d <? 18446744073709551616)) (vc_deleted c)
  && nodupb (vc_deleted c)
  && forallb (fun n => (fst n <? MAX_NUM_LEVELS) && fmeta_ok (snd n)) (vc_new c).

(** the encoding as a sequence of tagged fields *)
Inductive field :=
| FWal (v : N) | FPrevWal (v : N) | FCurr (v : N) | FPrevSeq (v : N)
| FPtr (lv : N) (k : ikey) | FDel (lv num : N) | FNew (lv : N) (f : fmeta).

Definition field_bytes (f : field) : bytes :=
  match f with
  | FWal v => varint32 TAG_WAL ++ varint64 v
  | FPrevWal v => varint32 TAG_PREV_WAL ++ varint64 v
  | FCurr v => varint32 TAG_CURR_FILE ++ varint64 v
  | FPrevSeq v => varint32 TAG_PREV_SEQ ++ varint64 v
  | FPtr lv k => varint32 TAG_POINTER ++ varint32 lv ++ write_slice (ikey_encode k)
  | FDel lv num => varint32 TAG_DELETED ++ varint32 lv ++ varint64 num
  | FNew lv f => varint32 TAG_NEW_FILE ++ varint32 lv ++ fmeta_encode f
  end.

Definition field_ok (c : vchange) (f : field) : bool :=
  match f with
  | FWal v | FPrevWal v | FCurr v | FPrevSeq v => v <? 18446744073709551616
  | FPtr lv k => (lv <? MAX_NUM_LEVELS) && key_ok k
  | FDel lv num => (lv <? MAX_NUM_LEVELS) && (num <? 18446744073709551616)
                   && negb (existsb (fun d => (fst d =? lv) && (snd d =? num)) (vc_deleted c))
  | FNew lv f => (lv <? MAX_NUM_LEVELS) && fmeta_ok f
  end.

Definition field_apply (c : vchange) (f : field) : vchange :=
  match f with
  | FWal v => mkVC (Some v) (vc_prev_wal c) (vc_curr_file c) (vc_prev_seq c) (vc_pointers c) (vc_deleted c) (vc_new c)
  | FPrevWal v => mkVC (vc_wal c) (Some v) (vc_curr_file c) (vc_prev_seq c) (vc_pointers c) (vc_deleted c) (vc_new c)
  | FCurr v => mkVC (vc_wal c) (vc_prev_wal c) (Some v) (vc_prev_seq c) (vc_pointers c) (vc_deleted c) (vc_new c)
  | FPrevSeq v => mkVC (vc_wal c) (vc_prev_wal c) (vc_curr_file c) (Some v) (vc_pointers c) (vc_deleted c) (vc_new c)
  | FPtr lv k => mkVC (vc_wal c) (vc_prev_wal c) (vc_curr_file c) (vc_prev_seq c) (vc_pointers c ++ [(lv, k)]) (vc_deleted c) (vc_new c)
  | FDel lv num => mkVC (vc_wal c) (vc_prev_wal c) (vc_curr_file c) (vc_prev_seq c) (vc_pointers c) (vc_deleted c ++ [(lv, num)]) (vc_new c)
  | FNew lv f => mkVC (vc_wal c) (vc_prev_wal c) (vc_curr_file c) (vc_prev_seq c) (vc_pointers c) (vc_deleted c) (vc_new c ++ [(lv, f)])
  end.

Lemma read_level_enc lv rest :
  lv < MAX_NUM_LEVELS -> read_level (varint32 lv ++ rest) = Some (lv, rest).
Proof.
  intros Hlv. unfold read_level. unfold MAX_NUM_LEVELS in Hlv.
  rewrite read_varint32_enc by lia.
  destruct (lv <? MAX_NUM_LEVELS) eqn:E; [reflexivity|unfold MAX_NUM_LEVELS in E; lia].
Qed.

Lemma key_ok_spec k : key_ok k = true -> ikey_bounded k /\ blen (ikey_encode k) < 4294967296.
Proof.
  unfold key_ok. rewrite andb_true_iff, ikey_boundedb_iff. intros [H1 H2]. split; [assumption|lia].
Qed.

Lemma read_key_slice k rest :
  key_ok k = true ->
  read_slice (write_slice (ikey_encode k) ++ rest) = Some (ikey_encode k, rest) /\
  ikey_decode (ikey_encode k) = Some k.
Proof.
  intros Hk. apply key_ok_spec in Hk. destruct Hk as [Hb Hl].
  split; [apply read_slice_write; assumption|apply ikey_decode_encode; assumption].
Qed.

Theorem fmeta_decode_encode f rest :
  fmeta_ok f = true -> fmeta_decode (fmeta_encode f ++ rest) = Some (f, rest).
Proof.
  unfold fmeta_ok. intros Hok.
  apply andb_true_iff in Hok. destruct Hok as [Hok Hl].
  apply andb_true_iff in Hok. destruct Hok as [Hok Hs].
  apply andb_true_iff in Hok. destruct Hok as [Hn Hz].
  unfold fmeta_decode, fmeta_encode. rewrite <- !app_assoc.
  rewrite read_varint64_enc by lia. rewrite read_varint64_enc by lia.
  destruct (read_key_slice (fm_small f) (write_slice (ikey_encode (fm_large f)) ++ rest) Hs)
    as [E1 E2].
  rewrite E1, E2.
  destruct (read_key_slice (fm_large f) rest Hl) as [E3 E4].
  rewrite E3, E4. destruct f; reflexivity.
Qed.

Ltac eqb_const :=
  repeat match goal with
  | |- context [N.eqb (Npos ?a) (Npos ?b)] =>
      let v := eval vm_compute in (N.eqb (Npos a) (Npos b)) in
      change (N.eqb (Npos a) (Npos b)) with v
  end.

Lemma loop_field fuel f rest c :
  field_ok c f = true ->
  vchange_decode_loop (S fuel) (field_bytes f ++ rest) c
  = vchange_decode_loop fuel rest (field_apply c f).
Proof.
  intros Hok.
  destruct f as [v|v|v|v|lv k|lv num|lv fm]; cbn [field_ok] in Hok;
    unfold field_bytes, field_apply;
    unfold TAG_WAL, TAG_PREV_WAL, TAG_CURR_FILE, TAG_PREV_SEQ, TAG_POINTER, TAG_DELETED,
           TAG_NEW_FILE;
    rewrite varint32_small by lia; rewrite <- !app_assoc; cbn [app vchange_decode_loop];
    rewrite read_varint32_tag by lia;
    unfold TAG_WAL, TAG_PREV_WAL, TAG_CURR_FILE, TAG_PREV_SEQ, TAG_POINTER, TAG_DELETED,
           TAG_NEW_FILE; eqb_const; cbv iota.
  - rewrite read_varint64_enc by lia. reflexivity.
  - rewrite read_varint64_enc by lia. reflexivity.
  - rewrite read_varint64_enc by lia. reflexivity.
  - rewrite read_varint64_enc by lia. reflexivity.
  - apply andb_true_iff in Hok. destruct Hok as [Hlv Hk].
    rewrite read_level_enc by lia.
    destruct (read_key_slice k rest Hk) as [E1 E2]. rewrite E1, E2. reflexivity.
  - apply andb_true_iff in Hok. destruct Hok as [Hok Hd].
    apply andb_true_iff in Hok. destruct Hok as [Hlv Hn].
    rewrite read_level_enc by lia. rewrite read_varint64_enc by lia.
    apply negb_true_iff in Hd. rewrite Hd. reflexivity.
  - apply andb_true_iff in Hok. destruct Hok as [Hlv Hf].
    rewrite read_level_enc by lia. rewrite fmeta_decode_encode by assumption. reflexivity.
Qed.

(** all fields are acceptable in sequence, starting from [c] *)
Fixpoint fields_ok (c : vchange) (fs : list field) : bool :=
  match fs with
  | [] => true
  | f :: r => field_ok c f && fields_ok (field_apply c f) r
  end.

Lemma loop_fields : forall fs fuel c,
  fields_ok c fs = true -> (length fs < fuel)%nat ->
  vchange_decode_loop fuel (concat (map field_bytes fs)) c = Some (fold_left field_apply fs c).
Proof.
  induction fs as [|f fs IH]; intros fuel c Hok Hf.
  - destruct fuel as [|fuel]; [cbn [length] in Hf; lia|]. reflexivity.
  - destruct fuel as [|fuel]; [cbn [length] in Hf; lia|].
    cbn [fields_ok] in Hok. apply andb_true_iff in Hok. destruct Hok as [Ho Hr].
    cbn [map concat fold_left]. rewrite loop_field by assumption.
    apply IH; [assumption|cbn [length] in Hf; lia].
Qed.

Lemma field_bytes_length f : (1 <= length (field_bytes f))%nat.
Proof.
  destruct f; unfold field_bytes;
    unfold TAG_WAL, TAG_PREV_WAL, TAG_CURR_FILE, TAG_PREV_SEQ, TAG_POINTER, TAG_DELETED,
           TAG_NEW_FILE;
    rewrite varint32_small by lia; cbn [app length]; lia.
Qed.

Lemma fields_length fs : (length fs <= length (concat (map field_bytes fs)))%nat.
Proof.
  induction fs as [|f fs IH]; cbn [map concat length]; [lia|].
  rewrite app_length. pose proof (field_bytes_length f). lia.
Qed.

Definition opt_fields (mk : N -> field) (o : option N) : list field :=
  match o with Some v => [mk v] | None => [] end.

Definition fields_of (c : vchange) : list field :=
  opt_fields FWal (vc_wal c) ++ opt_fields FPrevWal (vc_prev_wal c)
  ++ opt_fields FCurr (vc_curr_file c) ++ opt_fields FPrevSeq (vc_prev_seq c)
  ++ map (fun p => FPtr (fst p) (snd p)) (vc_pointers c)
  ++ map (fun d => FDel (fst d) (snd d)) (vc_deleted c)
  ++ map (fun n => FNew (fst n) (snd n)) (vc_new c).

Lemma concat_map_app {A} (f : A -> bytes) x y :
  concat (map f (x ++ y)) = concat (map f x) ++ concat (map f y).
Proof. rewrite map_app, concat_app. reflexivity. Qed.

Lemma opt_field_fields tag mk o :
  (forall v, field_bytes (mk v) = varint32 tag ++ varint64 v) ->
  opt_field tag o = concat (map field_bytes (opt_fields mk o)).
Proof.
  intros Hmk. destruct o as [v|]; cbn [opt_field opt_fields map concat]; [|reflexivity].
  rewrite Hmk, app_nil_r. reflexivity.
Qed.

Lemma concat_map_map {A} (g : A -> field) (h : A -> bytes) l :
  (forall a, field_bytes (g a) = h a) ->
  concat (map h l) = concat (map field_bytes (map g l)).
Proof.
  intros Hgh. induction l as [|a l IH]; cbn [map concat]; [reflexivity|].
  rewrite Hgh, IH. reflexivity.
Qed.

Lemma vchange_encode_fields c : vchange_encode c = concat (map field_bytes (fields_of c)).
Proof.
  unfold vchange_encode, fields_of. rewrite !concat_map_app.
  rewrite <- (opt_field_fields TAG_WAL FWal) by reflexivity.
  rewrite <- (opt_field_fields TAG_PREV_WAL FPrevWal) by reflexivity.
  rewrite <- (opt_field_fields TAG_CURR_FILE FCurr) by reflexivity.
  rewrite <- (opt_field_fields TAG_PREV_SEQ FPrevSeq) by reflexivity.
  rewrite <- (concat_map_map (fun p : N * ikey => FPtr (fst p) (snd p))
               (fun p => varint32 TAG_POINTER ++ varint32 (fst p) ++ write_slice (ikey_encode (snd p))))
    by reflexivity.
  rewrite <- (concat_map_map (fun d : N * N => FDel (fst d) (snd d))
               (fun d => varint32 TAG_DELETED ++ varint32 (fst d) ++ varint64 (snd d)))
    by reflexivity.
  rewrite <- (concat_map_map (fun n : N * fmeta => FNew (fst n) (snd n))
               (fun n => varint32 TAG_NEW_FILE ++ varint32 (fst n) ++ fmeta_encode (snd n)))
    by reflexivity.
  reflexivity.
Qed.

(** ** Replaying the fields of [c] on the empty change gives [c] back *)

Lemma fields_ok_app : forall x y c,
  fields_ok c (x ++ y) = fields_ok c x && fields_ok (fold_left field_apply x c) y.
Proof.
  induction x as [|f x IH]; intros y c; cbn [app fields_ok fold_left]; [reflexivity|].
  rewrite IH, andb_assoc. reflexivity.
Qed.

Lemma existsb_app_false {A} (p : A -> bool) x y :
  existsb p (x ++ y) = false <-> existsb p x = false /\ existsb p y = false.
Proof. rewrite existsb_app, orb_false_iff. tauto. Qed.

Lemma nodupb_app_not_in : forall acc d r,
  nodupb (acc ++ d :: r) = true ->
  existsb (fun x => (fst x =? fst d) && (snd x =? snd d)) acc = false /\
  nodupb ((acc ++ [d]) ++ r) = true.
Proof.
  intros acc d r Hn. split.
  - induction acc as [|a acc IH]; [reflexivity|].
    cbn [app nodupb] in Hn. apply andb_true_iff in Hn. destruct Hn as [Ha Hn].
    cbn [existsb]. rewrite (IH Hn), orb_false_r.
    apply negb_true_iff in Ha. apply existsb_app_false in Ha. destruct Ha as [_ Ha].
    cbn [existsb] in Ha. apply orb_false_iff in Ha. destruct Ha as [Ha _].
    exact Ha.
  - rewrite <- app_assoc. exact Hn.
Qed.

Lemma ptr_fields : forall ps c,
  forallb (fun p : N * ikey => (fst p <? MAX_NUM_LEVELS) && key_ok (snd p)) ps = true ->
  fields_ok c (map (fun p => FPtr (fst p) (snd p)) ps) = true /\
  fold_left field_apply (map (fun p => FPtr (fst p) (snd p)) ps) c
  = mkVC (vc_wal c) (vc_prev_wal c) (vc_curr_file c) (vc_prev_seq c) (vc_pointers c ++ ps)
         (vc_deleted c) (vc_new c).
Proof.
  induction ps as [|[lv k] ps IH]; intros c Hok.
  - cbn [map fields_ok fold_left]. rewrite app_nil_r. destruct c; auto.
  - cbn [forallb fst snd] in Hok. apply andb_true_iff in Hok. destruct Hok as [Hp Hps].
    cbn [map fields_ok fold_left fst snd field_ok]. rewrite Hp. cbn [andb].
    destruct (IH (field_apply c (FPtr lv k)) Hps) as [E1 E2]. rewrite E1, E2.
    split; [reflexivity|]. cbn [field_apply vc_wal vc_prev_wal vc_curr_file vc_prev_seq
                                 vc_pointers vc_deleted vc_new].
    rewrite <- app_assoc. reflexivity.
Qed.

Lemma new_fields : forall ns c,
  forallb (fun n : N * fmeta => (fst n <? MAX_NUM_LEVELS) && fmeta_ok (snd n)) ns = true ->
  fields_ok c (map (fun n => FNew (fst n) (snd n)) ns) = true /\
  fold_left field_apply (map (fun n => FNew (fst n) (snd n)) ns) c
  = mkVC (vc_wal c) (vc_prev_wal c) (vc_curr_file c) (vc_prev_seq c) (vc_pointers c)
         (vc_deleted c) (vc_new c ++ ns).
Proof.
  induction ns as [|[lv f] ns IH]; intros c Hok.
  - cbn [map fields_ok fold_left]. rewrite app_nil_r. destruct c; auto.
  - cbn [forallb fst snd] in Hok. apply andb_true_iff in Hok. destruct Hok as [Hp Hps].
    cbn [map fields_ok fold_left fst snd field_ok]. rewrite Hp. cbn [andb].
    destruct (IH (field_apply c (FNew lv f)) Hps) as [E1 E2]. rewrite E1, E2.
    split; [reflexivity|]. cbn [field_apply vc_wal vc_prev_wal vc_curr_file vc_prev_seq
                                 vc_pointers vc_deleted vc_new].
    rewrite <- app_assoc. reflexivity.
Qed.

Lemma del_fields : forall ds c,
  forallb (fun d : N * N => (fst d <? MAX_NUM_LEVELS) && (snd d <? 18446744073709551616)) ds = true ->
  nodupb (vc_deleted c ++ ds) = true ->
  fields_ok c (map (fun d => FDel (fst d) (snd d)) ds) = true /\
  fold_left field_apply (map (fun d => FDel (fst d) (snd d)) ds) c
  = mkVC (vc_wal c) (vc_prev_wal c) (vc_curr_file c) (vc_prev_seq c) (vc_pointers c)
         (vc_deleted c ++ ds) (vc_new c).
Proof.
  induction ds as [|[lv num] ds IH]; intros c Hok Hnd.
  - cbn [map fields_ok fold_left]. rewrite app_nil_r. destruct c; auto.
  - cbn [forallb fst snd] in Hok. apply andb_true_iff in Hok. destruct Hok as [Hp Hps].
    destruct (nodupb_app_not_in _ _ _ Hnd) as [Hni Hnd'].
    cbn [fst snd] in Hni.
    cbn [map fields_ok fold_left fst snd field_ok]. rewrite Hp, Hni. cbn [andb negb].
    destruct (IH (field_apply c (FDel lv num)) Hps) as [E1 E2].
    { cbn [field_apply vc_deleted]. exact Hnd'. }
    rewrite E1, E2.
    split; [reflexivity|]. cbn [field_apply vc_wal vc_prev_wal vc_curr_file vc_prev_seq
                                 vc_pointers vc_deleted vc_new].
    rewrite <- app_assoc. reflexivity.
Qed.

Lemma fields_of_ok c :
  vchange_ok c = true ->
  fields_ok vc_empty (fields_of c) = true /\ fold_left field_apply (fields_of c) vc_empty = c.
Proof.
  unfold vchange_ok. intros Hok.
  apply andb_true_iff in Hok. destruct Hok as [Hok Hnew].
  apply andb_true_iff in Hok. destruct Hok as [Hok Hnd].
  apply andb_true_iff in Hok. destruct Hok as [Hok Hdel].
  apply andb_true_iff in Hok. destruct Hok as [Hok Hptr].
  apply andb_true_iff in Hok. destruct Hok as [Hok H4].
  apply andb_true_iff in Hok. destruct Hok as [Hok H3].
  apply andb_true_iff in Hok. destruct Hok as [H1 H2].
  destruct c as [w pw cf ps ptrs dels news].
  cbn [vc_wal vc_prev_wal vc_curr_file vc_prev_seq vc_pointers vc_deleted vc_new] in *.
  unfold fields_of.
  cbn [vc_wal vc_prev_wal vc_curr_file vc_prev_seq vc_pointers vc_deleted vc_new].
  rewrite !fields_ok_app, !fold_left_app.
  set (c1 := fold_left field_apply (opt_fields FWal w) vc_empty).
  assert (E1 : fields_ok vc_empty (opt_fields FWal w) = true /\ c1 = mkVC w None None None [] [] []).
  { subst c1. destruct w as [v|]; cbn [opt_fields fields_ok fold_left field_ok opt_ok] in *.
    - rewrite H1. split; reflexivity.
    - split; reflexivity. }
  destruct E1 as [O1 E1]. rewrite O1, E1. clear c1 E1 O1.
  set (c2 := fold_left field_apply (opt_fields FPrevWal pw) _).
  assert (E2 : fields_ok (mkVC w None None None [] [] []) (opt_fields FPrevWal pw) = true
               /\ c2 = mkVC w pw None None [] [] []).
  { subst c2. destruct pw as [v|]; cbn [opt_fields fields_ok fold_left field_ok opt_ok] in *.
    - rewrite H2. split; reflexivity.
    - split; reflexivity. }
  destruct E2 as [O2 E2]. rewrite O2, E2. clear c2 E2 O2.
  set (c3 := fold_left field_apply (opt_fields FCurr cf) _).
  assert (E3 : fields_ok (mkVC w pw None None [] [] []) (opt_fields FCurr cf) = true
               /\ c3 = mkVC w pw cf None [] [] []).
  { subst c3. destruct cf as [v|]; cbn [opt_fields fields_ok fold_left field_ok opt_ok] in *.
    - rewrite H3. split; reflexivity.
    - split; reflexivity. }
  destruct E3 as [O3 E3]. rewrite O3, E3. clear c3 E3 O3.
  set (c4 := fold_left field_apply (opt_fields FPrevSeq ps) _).
  assert (E4 : fields_ok (mkVC w pw cf None [] [] []) (opt_fields FPrevSeq ps) = true
               /\ c4 = mkVC w pw cf ps [] [] []).
  { subst c4. destruct ps as [v|]; cbn [opt_fields fields_ok fold_left field_ok opt_ok] in *.
    - rewrite H4. split; reflexivity.
    - split; reflexivity. }
  destruct E4 as [O4 E4]. rewrite O4, E4. clear c4 E4 O4.
  destruct (ptr_fields ptrs (mkVC w pw cf ps [] [] []) Hptr) as [O5 E5].
  rewrite O5, E5. clear O5 E5.
  cbn [vc_wal vc_prev_wal vc_curr_file vc_prev_seq vc_pointers vc_deleted vc_new app].
  destruct (del_fields dels (mkVC w pw cf ps ptrs [] []) Hdel) as [O6 E6].
  { cbn [vc_deleted app]. exact Hnd. }
  rewrite O6, E6. clear O6 E6.
  cbn [vc_wal vc_prev_wal vc_curr_file vc_prev_seq vc_pointers vc_deleted vc_new app].
  destruct (new_fields news (mkVC w pw cf ps ptrs dels []) Hnew) as [O7 E7].
  rewrite O7, E7. split; reflexivity.
Qed.

Theorem vchange_decode_encode c :
  vchange_ok c = true -> vchange_decode (vchange_encode c) = Some c.
Proof.
  intros Hok. destruct (fields_of_ok c Hok) as [Hf Hfold].
  unfold vchange_decode. rewrite vchange_encode_fields.
  rewrite loop_fields; [rewrite Hfold; reflexivity|assumption|].
  pose proof (fields_length (fields_of c)). lia.
Qed.

(** [nodupb] is the boolean form of [NoDup] *)
Lemma nodupb_NoDup l : nodupb l = true <-> NoDup l.
Proof.
  induction l as [|d r IH]; cbn [nodupb].
  - split; [constructor|reflexivity].
  - rewrite andb_true_iff, negb_true_iff, IH. split.
    + intros [Hn Hr]. constructor; [|assumption].
      intros Hin. assert (E : existsb (pair_eqb d) r = true).
      { apply existsb_exists. exists d. split; [assumption|].
        unfold pair_eqb. rewrite !N.eqb_refl. reflexivity. }
      congruence.
    + intros Hnd. inversion Hnd as [|x l' Hn Hr]; subst. split; [|assumption].
      destruct (existsb (pair_eqb d) r) eqn:E; [|reflexivity].
      apply existsb_exists in E. destruct E as [[a b] [Hin E]].
      unfold pair_eqb in E. cbn [fst snd] in E. apply andb_true_iff in E.
      destruct E as [Ea Eb]. apply N.eqb_eq in Ea. apply N.eqb_eq in Eb.
      destruct d as [d1 d2]. cbn [fst snd] in *. subst. contradiction.
Qed.

(** Sensitivity: without the no-duplicate condition the round trip fails (the deleted files are
    a set in the code, so a duplicate collapses) *)
Example vchange_duplicate_deleted_collapses :
  let c := mkVC None None None None [] [(1, 5); (1, 5)] [] in
  vchange_decode (vchange_encode c) = Some (mkVC None None None None [] [(1, 5)] []).
Proof. vm_compute. reflexivity. Qed.
