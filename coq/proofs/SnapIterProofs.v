(** Corollaries for C03 (snapshots): at one sequence number the point lookup and the database
    iterator agree, a full scan returns exactly [contents], and an iterator over a live snapshot
    observes the same thing, for every script, after any admissible run that does not release
    the snapshot. Everything is obtained by combining [GetProofs.db_get_correct] /
    [GetProofs.contents_spec] (C01), [CursorProofs.db_iterator_proof] (C04) and
    [LsmProofs.snapshot_stable(_multiset)] / [LsmProofs.run_wf] (C03, C10). No axioms. *)
From Coq Require Import Lia Arith List NArith.
From RainVerif Require Import Params.
From RainVerif.model Require Import Bytes Key Block Table TableSpec Version Lsm LsmSpec DbSpec Cursor.
From RainVerif.proofs Require Import KeyProofs.
From RainVerif.proofs Require GetProofs LsmProofs CursorProofs.
Import ListNotations.
Open Scope nat_scope.

Notation map_sorted := GetProofs.map_sorted.

(** * T1: [contents] is the sorted association list whose lookups are [visible] *)

Theorem contents_lookup (es : list entry) (q : N) :
  map_sorted (contents es q) /\ forall k, map_get k (contents es q) = visible es q k.
Proof. exact (GetProofs.contents_spec es q). Qed.

(** sorted association lists are determined by their lookups *)
Lemma sorted_map_ext : forall m1 m2 : list kv, map_sorted m1 -> map_sorted m2 ->
  (forall k, map_get k m1 = map_get k m2) -> m1 = m2.
Proof.
  induction m1 as [|[k1 v1] r1 IH]; intros [|[k2 v2] r2] S1 S2 G.
  - reflexivity.
  - specialize (G k2). cbn [map_get] in G. rewrite bytes_cmp_refl in G. discriminate.
  - specialize (G k1). cbn [map_get] in G. rewrite bytes_cmp_refl in G. discriminate.
  - cbn [GetProofs.map_sorted fst] in S1, S2. destruct S1 as [L1 S1], S2 as [L2 S2].
    assert (E : k1 = k2 /\ v1 = v2).
    { destruct (bytes_cmp k1 k2) eqn:C.
      - apply bytes_cmp_eq in C. subst k2. split; [reflexivity|].
        specialize (G k1). cbn [map_get] in G. rewrite bytes_cmp_refl in G. congruence.
      - specialize (G k1). cbn [map_get] in G. rewrite bytes_cmp_refl, C in G. discriminate.
      - apply bytes_cmp_gt_lt in C.
        specialize (G k2). cbn [map_get] in G. rewrite bytes_cmp_refl, C in G. discriminate. }
    destruct E as [<- <-]. f_equal. apply IH; [exact S1|exact S2|].
    intros k. destruct (bytes_cmp k k1) eqn:C.
    + apply bytes_cmp_eq in C. subst k.
      rewrite (GetProofs.map_get_below k1 r1), (GetProofs.map_get_below k1 r2); [reflexivity| |].
      * intros p Hp. apply (L2 p Hp).
      * intros p Hp. apply (L1 p Hp).
    + rewrite (GetProofs.map_get_below k r1), (GetProofs.map_get_below k r2); [reflexivity| |].
      * intros p Hp. eapply bytes_cmp_lt_trans; [exact C|apply (L2 p Hp)].
      * intros p Hp. eapply bytes_cmp_lt_trans; [exact C|apply (L1 p Hp)].
    + specialize (G k). cbn [map_get] in G. rewrite C in G. exact G.
Qed.

(** two entry lists with the same view at [q] have the same [contents] at [q] *)
Theorem contents_ext (es es' : list entry) (q : N) :
  (forall k, visible es q k = visible es' q k) -> contents es q = contents es' q.
Proof.
  intros H. destruct (contents_lookup es q) as [S G], (contents_lookup es' q) as [S' G'].
  apply sorted_map_ext; [exact S|exact S'|]. intros k. rewrite G, G'. apply H.
Qed.

(** * T2: a seek and a point lookup at the same sequence number agree *)

(** the first pair whose key is not below [k] *)
Fixpoint seek_entry (m : list kv) (k : bytes) : option kv :=
  match m with
  | [] => None
  | (k', v') :: r => if bytes_ltb k' k then seek_entry r k else Some (k', v')
  end.

Lemma mlb_seek_entry : forall (m : list kv) (i : nat) (k : bytes),
  match map_lower_bound m i k with
  | None => seek_entry m k = None
  | Some j => exists d, j = i + d /\ nth_error m d = seek_entry m k /\ seek_entry m k <> None
  end.
Proof.
  induction m as [|[k' v'] r IH]; intros i k; cbn [map_lower_bound seek_entry]; [reflexivity|].
  destruct (bytes_ltb k' k).
  - specialize (IH (S i) k). destruct (map_lower_bound r (S i) k) as [j|]; [|exact IH].
    destruct IH as (d & -> & H1 & H2). exists (S d). split; [lia|]. split; [exact H1|exact H2].
  - exists 0. split; [lia|]. split; [reflexivity|discriminate].
Qed.

(** the observation of [seek k] on a sorted-map cursor *)
Lemma cursor_seek_obs (m : list kv) (p : option nat) (k : bytes) :
  fst (cursor_run m p [ISeek k])
  = [match seek_entry m k with Some e => OAt e | None => OInvalid end].
Proof.
  cbn [cursor_run cursor_step fst]. pose proof (mlb_seek_entry m 0 k) as H.
  destruct (map_lower_bound m 0 k) as [j|].
  - destruct H as (d & -> & H1 & H2). cbn [Nat.add]. rewrite H1.
    destruct (seek_entry m k); [reflexivity|contradiction].
  - rewrite H. reflexivity.
Qed.

(** [map_get] stops on the same pair *)
Lemma seek_entry_get : forall (m : list kv) (k : bytes),
  match seek_entry m k with
  | None => map_get k m = None
  | Some (k', v') => (k' = k /\ map_get k m = Some v') \/ (bytes_cmp k k' = Lt /\ map_get k m = None)
  end.
Proof.
  induction m as [|[k0 v0] r IH]; intros k; cbn [seek_entry map_get]; [reflexivity|].
  unfold bytes_ltb. destruct (bytes_cmp k0 k) eqn:C.
  - apply bytes_cmp_eq in C. subst k0. rewrite bytes_cmp_refl. left. split; reflexivity.
  - rewrite (proj2 (bytes_cmp_gt_lt k k0) C). apply IH.
  - apply bytes_cmp_gt_lt in C. rewrite C. right. split; reflexivity.
Qed.

(** the seek observation of the database iterator of a well-formed state at sequence [q] *)
Definition seek_obs (s : lsm) (q : N) (k : bytes) : list iter_obs * bool :=
  d_run (d_new (iter_children s) q) [ISeek k].

Theorem get_iter_agree (s : lsm) (q : N) (k : bytes) :
  lsm_wf_b s = true ->
  snd (seek_obs s q k) = true /\
  match db_get_at s k q with
  | Some v => fst (seek_obs s q k) = [OAt (k, v)]
  | None => fst (seek_obs s q k) = [OInvalid]
            \/ exists k' v', fst (seek_obs s q k) = [OAt (k', v')] /\ bytes_cmp k k' = Lt
  end.
Proof.
  intros W. unfold seek_obs. rewrite (CursorProofs.db_iterator_proof s q [ISeek k] W).
  cbn [fst snd]. split; [reflexivity|].
  rewrite cursor_seek_obs, (GetProofs.db_get_correct s k q W).
  destruct (contents_lookup (all_entries s) q) as [_ G]. rewrite <- G.
  pose proof (seek_entry_get (contents (all_entries s) q) k) as H.
  destruct (seek_entry (contents (all_entries s) q) k) as [[k' v']|].
  - destruct H as [[-> H]|[L H]]; rewrite H; [reflexivity|].
    right. exists k', v'. split; [reflexivity|exact L].
  - rewrite H. left. reflexivity.
Qed.

(** the two directions of "exactly when" *)
Corollary get_iter_agree_found (s : lsm) (q : N) (k v : bytes) :
  lsm_wf_b s = true ->
  (fst (seek_obs s q k) = [OAt (k, v)] <-> db_get_at s k q = Some v).
Proof.
  intros W. destruct (get_iter_agree s q k W) as [_ H]. split.
  - intros E. destruct (db_get_at s k q) as [v0|].
    + rewrite E in H. injection H as ->. reflexivity.
    + exfalso. rewrite E in H. destruct H as [H|(k' & v' & H & L)]; [discriminate|].
      injection H as <- _. rewrite bytes_cmp_refl in L. discriminate.
  - intros E. rewrite E in H. exact H.
Qed.

Corollary get_iter_agree_absent (s : lsm) (q : N) (k : bytes) :
  lsm_wf_b s = true ->
  ((fst (seek_obs s q k) = [OInvalid]
    \/ exists k' v', fst (seek_obs s q k) = [OAt (k', v')] /\ bytes_cmp k k' = Lt)
   <-> db_get_at s k q = None).
Proof.
  intros W. destruct (get_iter_agree s q k W) as [_ H]. split.
  - intros E. destruct (db_get_at s k q) as [v0|]; [exfalso|reflexivity]. rewrite H in E.
    destruct E as [E|(k' & v' & E & L)]; [discriminate|].
    injection E as <- _. rewrite bytes_cmp_refl in L. discriminate.
  - intros E. rewrite E in H. exact H.
Qed.

(** * T3: a full forward scan observes exactly [contents] *)

Lemma skipn_nth_cons {A} : forall (l : list A) (i : nat) (x : A),
  nth_error l i = Some x -> skipn i l = x :: skipn (S i) l.
Proof.
  induction l as [|y r IH]; intros [|i] x H; cbn [nth_error] in H; try discriminate.
  - injection H as ->. reflexivity.
  - cbn [skipn]. rewrite (IH i x H). reflexivity.
Qed.

Lemma cursor_nexts (m : list kv) : forall (n i : nat),
  i + n = length m -> i < length m ->
  fst (cursor_run m (Some i) (repeat INext n)) = map OAt (skipn (S i) m) ++ [OInvalid].
Proof.
  induction n as [|n IH]; intros i E L; [lia|].
  cbn [repeat cursor_run cursor_step fst]. destruct (Nat.ltb (S i) (length m)) eqn:C.
  - apply Nat.ltb_lt in C. destruct (nth_error m (S i)) as [e|] eqn:Ne.
    + rewrite (skipn_nth_cons m (S i) e Ne). cbn [map app]. f_equal. apply IH; lia.
    + apply nth_error_None in Ne. lia.
  - apply Nat.ltb_ge in C. assert (n = 0) as -> by lia.
    rewrite (skipn_all2 m) by lia. reflexivity.
Qed.

Lemma cursor_scan (m : list kv) (p : option nat) :
  fst (cursor_run m p (IFirst :: repeat INext (length m))) = map OAt m ++ [OInvalid].
Proof.
  destruct m as [|e r]; [reflexivity|].
  change (fst (cursor_run (e :: r) p (IFirst :: repeat INext (length (e :: r)))))
    with (OAt e :: fst (cursor_run (e :: r) (Some 0) (repeat INext (length (e :: r))))).
  rewrite cursor_nexts; [reflexivity|reflexivity|cbn [length]; lia].
Qed.

Theorem scan_is_contents (s : lsm) (q : N) :
  lsm_wf_b s = true ->
  d_run (d_new (iter_children s) q) (IFirst :: repeat INext (length (contents (all_entries s) q)))
  = (map OAt (contents (all_entries s) q) ++ [OInvalid], true).
Proof.
  intros W. rewrite (CursorProofs.db_iterator_proof s q _ W). rewrite cursor_scan. reflexivity.
Qed.

(** * T4: an iterator over a live snapshot observes the state at its creation, forever *)

Lemma iterator_view_ext (s s' : lsm) (q : N) (ops : list iop) :
  lsm_wf_b s = true -> lsm_wf_b s' = true ->
  (forall k, visible (all_entries s') q k = visible (all_entries s) q k) ->
  d_run (d_new (iter_children s') q) ops = d_run (d_new (iter_children s) q) ops.
Proof.
  intros W W' H.
  rewrite (CursorProofs.db_iterator_proof s' q ops W'), (CursorProofs.db_iterator_proof s q ops W).
  rewrite (contents_ext _ _ q H). reflexivity.
Qed.

Theorem iterator_snapshot_stable :
  forall mfs steps s q, lsm_wf_b s = true -> In q (l_snaps s) -> LsmProofs.run_adm mfs s steps ->
    ~ In (SRelease q) steps ->
    let s' := fold_left (lsm_step true true mfs) steps s in
    forall ops, d_run (d_new (iter_children s') q) ops = d_run (d_new (iter_children s) q) ops.
Proof.
  intros mfs steps s q W Hq A Nr s' ops. apply iterator_view_ext.
  - exact W.
  - apply LsmProofs.run_wf; assumption.
  - intros k. apply (LsmProofs.snapshot_stable mfs steps s q W Hq A Nr k).
Qed.

Theorem iterator_snapshot_stable_multiset :
  forall mfs steps s q, lsm_wf_b s = true -> LsmProofs.run_adm mfs s steps ->
    (LsmProofs.releases q steps < count_occ N.eq_dec (l_snaps s) q)%nat ->
    let s' := fold_left (lsm_step true true mfs) steps s in
    forall ops, d_run (d_new (iter_children s') q) ops = d_run (d_new (iter_children s) q) ops.
Proof.
  intros mfs steps s q W A C s' ops. apply iterator_view_ext.
  - exact W.
  - apply LsmProofs.run_wf; assumption.
  - intros k. apply (LsmProofs.snapshot_stable_multiset mfs steps s q W A C k).
Qed.

(** the full scan at a live snapshot is the same list before and after the run *)
Corollary contents_snapshot_stable :
  forall mfs steps s q, lsm_wf_b s = true -> LsmProofs.run_adm mfs s steps ->
    (LsmProofs.releases q steps < count_occ N.eq_dec (l_snaps s) q)%nat ->
    let s' := fold_left (lsm_step true true mfs) steps s in
    contents (all_entries s') q = contents (all_entries s) q.
Proof.
  intros mfs steps s q W A C s'. apply contents_ext.
  intros k. apply (LsmProofs.snapshot_stable_multiset mfs steps s q W A C k).
Qed.
