(** Installing a compaction or a trivial move (M5): the step lemma [install_step], under the
    hypothesis that the new tables only contain entries of the old ones and read the same at
    and above the last sequence number. No axioms. *)
From Coq Require Import Lia ZArith ZifyN ZifyBool ZifyNat Arith List NArith Bool Permutation Sorted.
From RainVerif Require Import Params.
From RainVerif.model Require Import Bytes Key Block Crc Log Table TableSpec Version Lsm DbSpec Codec WalModel Gc Recover Proto.
From RainVerif.proofs Require Import LogXProofs ImgProofs ManifestSem ContentsProofs ProtoDurable ProtoSteps ProtoOpen.
From RainVerif.proofs Require CodecProofs WalProofs GetProofs KeyProofs LogProofs.
Import ListNotations.
Open Scope N_scope.
Arguments N.add : simpl never.
Arguments N.sub : simpl never.
Arguments N.mul : simpl never.
Arguments N.div : simpl never.
Arguments N.modulo : simpl never.
Arguments N.eqb : simpl never.
Arguments N.ltb : simpl never.
Arguments N.leb : simpl never.
Arguments N.min : simpl never.
Arguments N.max : simpl never.
Arguments N.pow : simpl never.
Arguments N.of_nat : simpl never.
Arguments N.to_nat : simpl never.

(** * [log_and_apply] with an open manifest, for an arbitrary change *)
Section LAAG.
Variables (d1 : pdb) (dv : dview) (bsF : list batch) (Q : N).
Hypothesis R : Rec (pd_img d1) dv bsF Q.
Hypothesis Hv : pd_ver d1 = dv_ver dv.
Hypothesis Hp : pd_prev_wal d1 = None.
Variables (c : vchange) (seq : N).
Hypothesis Hcprev : vc_prev_wal c = None.
Let wal' := match vc_wal c with Some w => w | None => pd_vs_wal d1 end.
Let c' := mkVC (Some wal') None (Some (pd_next d1)) (Some seq) (vc_pointers c) (vc_deleted c) (vc_new c).
Variable v' : version.
Hypothesis Hedit : apply_edit (pd_ver d1) (edit_of c) = Some v'.
Hypothesis Hvok : vok c'.
Hypothesis Hnodup : NoDup (lvl_nums (ma_added (man_acc (dv_changes dv)) ++ news_of c')).
Hypothesis HDTab : DTab (i_tables (pd_img d1)) v'.
Hypothesis Hwal : dv_wal dv <= wal'.
Variables (moved : list batch) (Q' : N).
Let logs' := filter (fun nb => wal' <=? fst nb) (dv_logs dv).
Hypothesis Hsplit : log_batches (dv_logs dv) = moved ++ log_batches logs'.
Hypothesis Htok : tables_ok (tab_entries (pd_img d1) v') (bsF ++ moved) Q'.
Hypothesis HQ' : Q' <= nops (bsF ++ log_batches (dv_logs dv)).
Hypothesis Hs1 : nops (bsF ++ moved) <= seq.
Hypothesis Hs2 : seq <= nops (bsF ++ log_batches (dv_logs dv)).
Hypothesis Ho : pd_manifest_open d1 = true.
Hypothesis Hm : pd_manifest d1 = dv_man dv.
Variable file : bytes.
Hypothesis Hfile : lookupN (dv_man dv) (i_manifests (pd_img d1)) = Some file.
Hypothesis Hlf : logfile file (map vchange_encode (dv_changes dv)) (pd_manifest_boff d1).

Let acked := bsF ++ log_batches (dv_logs dv).
Let recd := log_append (pd_manifest_boff d1) (vchange_encode c').
Let op := FsAppend (FManifest (pd_manifest d1)) (fst recd).
Let dv2 := mkDV (dv_man dv) (dv_changes dv ++ [c']) v' wal' (pd_next d1) seq logs'.
Let d2 := mkPD (apply_fsop (pd_img d1) op) v' (fold_left set_pointer (vc_pointers c) (pd_pointers d1))
               (pd_next d1) (pd_manifest d1) true
               (snd recd) wal' None (pd_wal d1) (pd_wal_boff d1) (pd_seq d1) (pd_mem d1) (pd_imm d1).

Lemma laag_acked : (bsF ++ moved) ++ log_batches logs' = acked.
Proof. unfold acked. rewrite Hsplit, <- List.app_assoc. reflexivity. Qed.

Lemma laag_eq : log_and_apply d1 c seq = Some (d2, [op]).
Proof.
  unfold log_and_apply. rewrite Hedit, Ho, Hp, Hcprev. reflexivity.
Qed.

Lemma laag_sem : DSem (dv_changes dv ++ [c']) v' wal' (pd_next d1) seq.
Proof.
  destruct R as [D _ _ _ _]. destruct D as (_ & _ & (Hok & Hn & Hw & Hq & Hb) & _ & _).
  split; [apply Forall_app; split; [exact Hok|constructor; [exact Hvok|constructor]]|].
  rewrite man_acc_snoc. split; [reflexivity|]. split; [reflexivity|]. split; [reflexivity|].
  apply (build_levels_step _ _ (dv_ver dv)); [exact Hnodup|exact Hb|].
  rewrite <- Hv. exact Hedit.
Qed.

Lemma laag_rec : Rec (pd_img d2) dv2 (bsF ++ moved) Q'.
Proof.
  unfold dv2, logs'.
  apply (Rec_commit (pd_img d1) (pd_img d2) dv bsF Q); try reflexivity; try assumption.
  - destruct R as [D _ _ _ _]. apply D.
  - unfold d2, op. cbn [pd_img]. rewrite Hm. cbn [apply_fsop i_manifests].
    apply (DMan_app_same _ _ (dv_changes dv)).
    + intros file' Hl'. pose proof (eq_trans (eq_sym Hl') Hfile) as E. injection E as ->. exists true.
      rewrite map_app. cbn [map]. apply (logfile_read _ _ (snd recd)). apply logfile_append. exact Hlf.
    + destruct R as [D _ _ _ _]. apply D.
  - apply laag_sem.
Qed.

Lemma laag_torn t : (t < length (fst recd))%nat ->
  Rec (apply_fsop (pd_img d1) (FsAppend (FManifest (pd_manifest d1)) (firstn t (fst recd)))) dv bsF Q.
Proof.
  intros Ht. rewrite Hm. apply (Rec_manifests (pd_img d1)); try reflexivity; [exact R|].
  cbn [apply_fsop i_manifests]. apply (DMan_app_same _ _ (dv_changes dv)).
  - intros file' Hl'. pose proof (eq_trans (eq_sym Hl') Hfile) as E. injection E as ->.
    apply (logfile_read_torn _ _ _ _ _ Hlf Ht).
  - destruct R as [D _ _ _ _]. apply D.
Qed.

Lemma laag_crash : all_crash (fun i => Good i acked) (pd_img d1) [op].
Proof.
  apply all_crash_cons.
  - apply (Rec_good _ _ _ _ R).
  - intros k. unfold op. cbn [torn_fsop apply_fsops fold_left].
    destruct (Nat.lt_ge_cases k (length (fst recd))) as [L|L].
    + apply (Rec_good _ _ _ _ (laag_torn k L)).
    + rewrite firstn_all2 by exact L. rewrite <- laag_acked. apply (Rec_good _ _ _ _ laag_rec).
  - apply all_crash_nil. rewrite <- laag_acked. apply (Rec_good _ _ _ _ laag_rec).
Qed.

Lemma laag_manfile :
  lookupN (dv_man dv2) (i_manifests (pd_img d2)) = Some (file ++ fst recd) /\
  logfile (file ++ fst recd) (map vchange_encode (dv_changes dv2)) (pd_manifest_boff d2).
Proof.
  split.
  - unfold d2, op. cbn [pd_img dv2 dv_man]. rewrite Hm. cbn [apply_fsop i_manifests].
    rewrite lookupN_app_assoc, N.eqb_refl.
    etransitivity; [apply (f_equal (option_map _)); exact Hfile|reflexivity].
  - unfold dv2, d2. cbn [dv_changes pd_manifest_boff]. rewrite map_app. cbn [map].
    apply logfile_append. exact Hlf.
Qed.
End LAAG.

(** * Side conditions of an install *)

(** the manifest state accumulated from the records of the manifest CURRENT names *)
Definition recorded_acc (img : image) : macc :=
  match i_current img with
  | Some c =>
      match parse_current c with
      | Some n =>
          match lookupN n (i_manifests img) with
          | Some file =>
              match decode_changes (rx_records (log_read_all_x file)) with
              | Some cs => fold_left accumulate cs macc_empty
              | None => macc_empty
              end
          | None => macc_empty
          end
      | None => macc_empty
      end
  | None => macc_empty
  end.

Lemma recorded_acc_durable img dv : Durable img dv -> recorded_acc img = man_acc (dv_changes dv).
Proof.
  intros (Hc & Hm & Hs & _ & _). destruct Hc as [Hc Hlt]. destruct Hm as (file & i & Hl & Hr).
  destruct Hs as (Hok & _).
  unfold recorded_acc. rewrite Hc, (parse_current_contents _ Hlt), Hl, Hr. cbn [rx_records].
  rewrite (decode_changes_map _ Hok). reflexivity.
Qed.

Fixpoint nodup_ln (l : list (nat * N)) : bool :=
  match l with
  | [] => true
  | x :: r => negb (existsb (fun y => Nat.eqb (fst x) (fst y) && (snd x =? snd y)) r) && nodup_ln r
  end.

Lemma nodup_ln_NoDup l : nodup_ln l = true -> NoDup l.
Proof.
  induction l as [|x r IH]; cbn [nodup_ln]; [constructor|].
  intros H. apply andb_true_iff in H. destruct H as [H1 H2]. constructor; [|apply IH; exact H2].
  intros Hin. apply negb_true_iff in H1. assert (E : existsb (fun y => Nat.eqb (fst x) (fst y) && (snd x =? snd y)) r = true).
  { apply existsb_exists. exists x. split; [exact Hin|]. rewrite Nat.eqb_refl, N.eqb_refl. reflexivity. }
  congruence.
Qed.

Definition install_parts (d : pdb) (added : list (N * fmeta * list entry)) :=
  let fresh := filter (fun a => negb (existsb (fun p => fst p =? fm_num (snd (fst a))) (i_tables (pd_img d)))) added in
  let ops1 := flat_map (fun a => table_ops (fm_num (snd (fst a))) (snd a)) fresh in
  let next := fold_left (fun m a => N.max m (fm_num (snd (fst a)))) fresh (pd_next d) in
  (ops1, next).

Definition install_change' (d : pdb) (deleted : list (N * N)) (added : list (N * fmeta * list entry))
           (pointers : list (N * ikey)) (seq : N) : vchange :=
  mkVC (Some (pd_vs_wal d)) None (Some (snd (install_parts d added))) (Some seq) pointers deleted (map fst added).

(** the record fits the wire format, no (level, number) is added twice in the history of the
    manifest, the sequence number recorded lies between the one recorded last and the last
    published one, file numbers stay below 2^64, every table of the new version is readable *)
Definition install_okb (d : pdb) (deleted : list (N * N)) (added : list (N * fmeta * list entry))
           (pointers : list (N * ikey)) (seq : N) : bool :=
  let ops1 := fst (install_parts d added) in
  let next := snd (install_parts d added) in
  let c' := install_change' d deleted added pointers seq in
  CodecProofs.vchange_ok c'
  && (next <? two64)
  && (recorded_seq (pd_img d) <=? seq) && (seq <=? pd_seq d)
  && nodup_ln (lvl_nums (ma_added (recorded_acc (pd_img d)) ++ news_of c'))
  && forallb (fun a => fm_num (snd (fst a)) <=? next) added
  && match apply_edit (pd_ver d) (edit_of c') with
     | Some v' =>
         forallb (fun n => match table_entries_of (apply_fsops (pd_img d) ops1) n with Some _ => true | None => false end)
                 (version_numbers v')
     | None => true
     end.

(** the hypothesis of M5 (what [compact_preserves_visible] provides for the real compaction,
    together with the fact that a compaction only drops entries) *)
Definition install_preserves (d : pdb) (deleted : list (N * N)) (added : list (N * fmeta * list entry))
           (pointers : list (N * ikey)) (seq : N) : Prop :=
  match apply_edit (pd_ver d) (edit_of (install_change' d deleted added pointers seq)) with
  | Some v' =>
      let T := tab_entries (pd_img d) (pd_ver d) in
      let T' := tab_entries (apply_fsops (pd_img d) (fst (install_parts d added))) v' in
      (forall e, In e T' -> In e T) /\
      (forall q k, pd_seq d <= q -> visible T' q k = visible T q k)
  | None => True
  end.

Lemma tab_entries_invisible_list dv ops : forall img,
  Forall (invisible dv) ops -> tab_entries (apply_fsops img ops) (dv_ver dv) = tab_entries img (dv_ver dv).
Proof.
  induction ops as [|o ops IH]; intros img H; [reflexivity|].
  cbn [apply_fsops fold_left]. pose proof (Forall_inv H) as Ho. apply Forall_inv_tail in H.
  pose proof (IH (apply_fsop img o) H) as E. unfold apply_fsops in E. rewrite E.
  apply tab_entries_invisible. exact Ho.
Qed.

Lemma fold_max_ge {A} (f : A -> N) l : forall m, m <= fold_left (fun m a => N.max m (f a)) l m.
Proof.
  induction l as [|a l IH]; intros m; cbn [fold_left]; [lia|].
  specialize (IH (N.max m (f a))). lia.
Qed.

Lemma vok_parts c0 : vok c0 ->
  Forall ptr_ok (vc_pointers c0) /\
  (forall p, In p (vc_new c0) -> fst p < MAX_NUM_LEVELS /\ CodecProofs.fmeta_ok (snd p) = true).
Proof.
  unfold vok, CodecProofs.vchange_ok. intros H.
  do 7 (apply andb_true_iff in H; destruct H as [H ?]).
  split.
  - apply Forall_forall. intros x Hx. rewrite forallb_forall in H3. specialize (H3 x Hx).
    apply andb_true_iff in H3. destruct H3 as [A B]. apply N.ltb_lt in A. split; assumption.
  - intros p Hp. rewrite forallb_forall in H0. specialize (H0 p Hp).
    apply andb_true_iff in H0. destruct H0 as [A B]. apply N.ltb_lt in A. split; assumption.
Qed.

Lemma flat_table_ops_wals {A} (f : A -> N) (g : A -> list entry) l : forall img,
  i_wals (apply_fsops img (flat_map (fun a => table_ops (f a) (g a)) l)) = i_wals img.
Proof.
  induction l as [|a l IH]; intros img; [reflexivity|]. cbn [flat_map]. rewrite apply_fsops_app, IH.
  apply table_ops_other.
Qed.

(** * Installing a compaction *)
Section INSTALL.
Variables (d : pdb) (dv : dview) (bsF : list batch) (Q : N) (older : list (N * list batch)) (bsM : list batch).
Hypothesis I : Inv d dv bsF Q older bsM.
Variables (deleted : list (N * N)) (added : list (N * fmeta * list entry)) (pointers : list (N * ikey)) (seq : N).
Hypothesis Hok : install_okb d deleted added pointers seq = true.
Hypothesis HP : install_preserves d deleted added pointers seq.

Let ops1 := fst (install_parts d added).
Let next := snd (install_parts d added).
Let img1 := apply_fsops (pd_img d) ops1.
Let d1 := mkPD img1 (pd_ver d) (pd_pointers d) next (pd_manifest d) (pd_manifest_open d)
               (pd_manifest_boff d) (pd_vs_wal d) (pd_prev_wal d) (pd_wal d) (pd_wal_boff d)
               (pd_seq d) (pd_mem d) (pd_imm d).
Let c := mkVC None None None None pointers deleted (map fst added).
Let c' := install_change' d deleted added pointers seq.
Variable v' : version.
Hypothesis Hedit : apply_edit (pd_ver d) (edit_of c) = Some v'.
Let Q' := N.max Q (pd_seq d).
Let R0 : Rec (pd_img d) dv bsF Q := iv_rec _ _ _ _ _ _ I.
Let D0 : Durable (pd_img d) dv := rec_dur _ _ _ _ R0.

Lemma in_ok_parts :
  vok c' /\ next < two64 /\ dv_seq dv <= seq /\ seq <= pd_seq d /\
  NoDup (lvl_nums (ma_added (man_acc (dv_changes dv)) ++ news_of c')) /\
  (forall x, In x added -> fm_num (snd (fst x)) <= next) /\
  DTab (i_tables img1) v'.
Proof.
  pose proof Hok as Hok'. unfold install_okb in Hok'. fold ops1 next c' in Hok'.
  change (edit_of c') with (edit_of c) in Hok'. rewrite Hedit in Hok'.
  do 6 (apply andb_true_iff in Hok'; destruct Hok' as [Hok' ?]).
  split; [exact Hok'|]. split; [apply N.ltb_lt; assumption|].
  split; [rewrite <- (recorded_seq_durable _ _ D0); apply N.leb_le; assumption|].
  split; [apply N.leb_le; assumption|].
  split; [rewrite <- (recorded_acc_durable _ _ D0); apply nodup_ln_NoDup; assumption|].
  split.
  - intros x Hx. rewrite forallb_forall in H0. apply N.leb_le. apply H0. exact Hx.
  - intros n Hn. rewrite forallb_forall in H. specialize (H n Hn). fold img1 in H.
    unfold table_entries_of in H. destruct (lookupN n (i_tables img1)) as [[es|]|]; try discriminate.
    exists es. reflexivity.
Qed.

Lemma in_next_ge : pd_next d <= next.
Proof. unfold next, install_parts. cbn [snd]. apply fold_max_ge. Qed.

Lemma in_ops1_invisible : Forall (invisible dv) ops1.
Proof.
  unfold ops1, install_parts. cbn [fst]. apply Forall_forall. intros o Ho. apply in_flat_map in Ho.
  destruct Ho as (x & Hx & Ho). apply filter_In in Hx. destruct Hx as [_ Hf]. apply negb_true_iff in Hf.
  assert (Hn : ~ In (fm_num (snd (fst x))) (version_numbers (dv_ver dv))).
  { intros Hin. destruct D0 as (_ & _ & _ & Dt & _). destruct (Dt _ Hin) as [es He].
    assert (E : existsb (fun p => fst p =? fm_num (snd (fst x))) (i_tables (pd_img d)) = true); [|congruence].
    apply existsb_exists. unfold lookupN in He.
    destruct (find (fun p => fst p =? fm_num (snd (fst x))) (i_tables (pd_img d))) as [p|] eqn:Ef; [|discriminate].
    apply find_some in Ef. exists p. exact Ef. }
  pose proof (table_ops_invisible dv _ (snd x) Hn) as Hall. rewrite Forall_forall in Hall. apply Hall. exact Ho.
Qed.

Lemma in_rec1 : Rec img1 dv bsF Q.
Proof. apply Rec_invisible_list; [exact R0|apply in_ops1_invisible]. Qed.

Lemma in_tok : tables_ok (tab_entries img1 v') (bsF ++ []) Q'.
Proof.
  rewrite app_nil_r. pose proof (rec_tab _ _ _ _ R0) as Ht.
  pose proof HP as HP'.
  unfold install_preserves in HP'. change (edit_of (install_change' d deleted added pointers seq)) with (edit_of c) in HP'.
  rewrite Hedit in HP'. cbv zeta in HP'. fold ops1 img1 in HP'. rewrite (iv_ver _ _ _ _ _ _ I) in HP'.
  destruct HP' as [Hsub Hvis].
  apply (tables_ok_install (tab_entries (pd_img d) (dv_ver dv))).
  - apply (tables_ok_mono _ _ Q); [exact Ht|unfold Q'; lia].
  - destruct Ht as (Hu & _ & _). intros e1 e2 H1 H2. apply Hu; apply Hsub; assumption.
  - destruct Ht as (_ & Hb & _). intros e He. apply Hb. apply Hsub. exact He.
  - intros k q' Hq. apply Hvis. unfold Q' in Hq. lia.
Qed.

Lemma in_filter : filter (fun nb => pd_vs_wal d <=? fst nb) (dv_logs dv) = dv_logs dv.
Proof.
  apply LogProofs.filter_all_true. intros nb Hnb. apply N.leb_le. rewrite (iv_vswal _ _ _ _ _ _ I).
  destruct D0 as (_ & _ & _ & _ & Dw).
  assert (Hin : In (fst nb) (map fst (dv_logs dv))) by (apply in_map; exact Hnb).
  apply (DWal_names _ _ _ _ Dw) in Hin. tauto.
Qed.

Let recd := log_append (pd_manifest_boff d) (vchange_encode c').
Let op := FsAppend (FManifest (pd_manifest d)) (fst recd).
Let dv2 := mkDV (dv_man dv) (dv_changes dv ++ [c']) v' (pd_vs_wal d) next seq (dv_logs dv).
Let d2 := mkPD (apply_fsop img1 op) v' (fold_left set_pointer pointers (pd_pointers d))
               next (pd_manifest d) true (snd recd) (pd_vs_wal d) None (pd_wal d) (pd_wal_boff d)
               (pd_seq d) (pd_mem d) (pd_imm d).

Lemma in_manfile1 : exists file, lookupN (dv_man dv) (i_manifests img1) = Some file /\
                                logfile file (map vchange_encode (dv_changes dv)) (pd_manifest_boff d).
Proof.
  destruct (iv_manfile _ _ _ _ _ _ I) as (file & Hl & Hlf). exists file. split; [|exact Hlf].
  pose proof in_ops1_invisible as Hi. unfold img1. clear - Hl Hi.
  revert Hl. generalize (pd_img d). induction Hi as [|o ops Ho _ IH]; intros img Hl; [exact Hl|].
  cbn [apply_fsops fold_left]. apply IH. rewrite (invisible_lookup_man _ dv o Ho). exact Hl.
Qed.

Lemma in_total : nops (bsF ++ log_batches (dv_logs dv)) = pd_seq d.
Proof. symmetry. apply (iv_seq _ _ _ _ _ _ I). Qed.

Lemma in_laa :
  log_and_apply d1 c seq = Some (d2, [op]) /\
  Rec (pd_img d2) dv2 bsF Q' /\
  all_crash (fun i => Good i (bsF ++ log_batches (dv_logs dv))) img1 [op] /\
  (exists file, lookupN (dv_man dv2) (i_manifests (pd_img d2)) = Some file /\
                logfile file (map vchange_encode (dv_changes dv2)) (pd_manifest_boff d2)).
Proof.
  destruct in_ok_parts as (Hvok & Hnx & Hs1 & Hs3 & Hnd & Hle & HDT).
  destruct in_manfile1 as (file & Hl & Hlf).
  pose proof in_rec1 as R1. pose proof in_tok as Htok. pose proof in_filter as Hfil. pose proof in_total as Htot.
  assert (Hsplit : log_batches (dv_logs dv) = [] ++ log_batches (filter (fun nb => pd_vs_wal d <=? fst nb) (dv_logs dv))).
  { rewrite Hfil. reflexivity. }
  assert (HQ : Q' <= nops (bsF ++ log_batches (dv_logs dv))).
  { rewrite Htot. unfold Q'. pose proof (rec_Q _ _ _ _ R0). lia. }
  assert (Hs1' : nops (bsF ++ []) <= seq).
  { rewrite app_nil_r. pose proof (rec_seq _ _ _ _ R0). lia. }
  assert (Hs2' : seq <= nops (bsF ++ log_batches (dv_logs dv))) by (rewrite Htot; exact Hs3).
  assert (Hwal : dv_wal dv <= pd_vs_wal d) by (rewrite (iv_vswal _ _ _ _ _ _ I); lia).
  split; [|split; [|split]].
  - apply (laag_eq d1 (proj1 (iv_prev _ _ _ _ _ _ I)) c seq eq_refl v' Hedit (iv_open _ _ _ _ _ _ I)).
  - pose proof (laag_rec d1 dv bsF Q R1 (iv_ver _ _ _ _ _ _ I) c seq v' Hedit Hvok Hnd HDT Hwal [] Q' Hsplit Htok HQ Hs1' Hs2'
                  (iv_man _ _ _ _ _ _ I) file Hl Hlf) as X.
    rewrite app_nil_r in X. cbn [d1 pd_vs_wal vc_wal c pd_next pd_manifest_boff pd_manifest pd_img] in X.
    rewrite Hfil in X. exact X.
  - pose proof (laag_crash d1 dv bsF Q R1 (iv_ver _ _ _ _ _ _ I) c seq v' Hedit Hvok Hnd HDT Hwal [] Q' Hsplit Htok HQ Hs1' Hs2'
                  (iv_man _ _ _ _ _ _ I) file Hl Hlf) as X.
    exact X.
  - eexists. apply (laag_manfile d1 dv c seq v' (iv_man _ _ _ _ _ _ I) file Hl Hlf).
Qed.

Lemma in_wals1 : i_wals img1 = i_wals (pd_img d).
Proof. unfold img1, ops1, install_parts. cbn [fst]. apply flat_table_ops_wals. Qed.

Lemma in_inv2 : Inv d2 dv2 bsF Q' older bsM.
Proof.
  destruct in_laa as (_ & R2 & _ & Hmf2). destruct in_ok_parts as (Hvok & Hnx & Hs1 & Hs3 & Hnd & Hle & HDT).
  destruct (vok_parts _ Hvok) as [Hptrs Hnew]. pose proof in_next_ge as Hng. pose proof in_wals1 as Hw1.
  pose proof I as I'.
  destruct I' as [R0' Hv Hm Ho Hvw Hp Hn Hwn Hmf Hlg Hlfs Hwf Hmem Himm Hseq Hh Hptr Hb].
  assert (Ew : i_wals (pd_img d2) = i_wals (pd_img d)) by (cbn [d2 pd_img op apply_fsop i_wals]; exact Hw1).
  refine (mkInv d2 dv2 bsF Q' older bsM R2 eq_refl Hm eq_refl eq_refl _ _ _ Hmf2 Hlg _ _ Hmem Himm Hseq _ _ _).
  - split; [reflexivity|]. unfold dv2. cbn [dv_changes]. rewrite man_acc_snoc. apply Hp.
  - cbn [dv2 dv_next dv_man dv_wal d2 pd_next]. rewrite Hvw. lia.
  - intros n Hin. rewrite Ew in Hin. apply Hwn in Hin. cbn [d2 pd_next]. lia.
  - rewrite Ew. exact Hlfs.
  - rewrite Ew. exact Hwf.
  - unfold dv2. cbn [dv_changes dv_next]. rewrite man_acc_snoc.
    change (ma_added (accumulate (man_acc (dv_changes dv)) c'))
      with (ma_added (man_acc (dv_changes dv)) ++ news_of c').
    split; [exact Hnd|]. intros l f Hin. apply in_app_or in Hin. destruct Hin as [Hin|Hin].
    + destruct (proj2 Hh l f Hin) as (H1 & H2 & H3). split; [lia|]. split; assumption.
    + unfold news_of in Hin. apply in_map_iff in Hin. destruct Hin as (p & E & Hp'). injection E as <- <-.
      destruct (Hnew p Hp') as [H1 H2]. split; [|split; [exact H2|unfold NLEVELS; lia]].
      cbn [c' install_change' vc_new] in Hp'. apply in_map_iff in Hp'. destruct Hp' as (x & <- & Hx).
      apply Hle. exact Hx.
  - split.
    + cbn [d2 pd_pointers]. apply fold_set_pointer_ok; [apply Hptr|exact Hptrs].
    + unfold dv2. cbn [dv_changes]. rewrite man_acc_snoc. cbn [accumulate ma_pointers].
      apply fold_set_pointer_ok; [apply Hptr|exact Hptrs].
  - cbn [d2 pd_next pd_seq]. split; [exact Hnx|apply Hb].
Qed.

Lemma in_gc_invisible : Forall (invisible dv2) (gc_ops d2).
Proof. apply gc_invisible; try reflexivity. apply (iv_man _ _ _ _ _ _ I). Qed.

Lemma install_eq :
  p_install d deleted added pointers seq
  = Some (with_img d2 (apply_fsops (pd_img d2) (gc_ops d2)), ops1 ++ [op] ++ gc_ops d2).
Proof.
  destruct in_laa as (Heq & _). unfold p_install.
  change (log_and_apply _ _ seq) with (log_and_apply d1 c seq). rewrite Heq. reflexivity.
Qed.

Lemma install_result :
  InvE (with_img d2 (apply_fsops (pd_img d2) (gc_ops d2))) (bsF ++ log_batches (dv_logs dv)) /\
  all_crash (fun i => Good i (bsF ++ log_batches (dv_logs dv))) (pd_img d) (ops1 ++ [op] ++ gc_ops d2).
Proof.
  destruct in_laa as (_ & R2 & Hc & _). split.
  - exists dv2, bsF, Q', older, bsM. split; [|reflexivity].
    apply (Inv_invisible_ops _ d2); [apply in_inv2|apply in_gc_invisible].
  - apply all_crash_app.
    + apply (all_crash_invisible _ dv bsF Q); [|exact R0|apply in_ops1_invisible].
      intros img' R'. apply (Rec_good _ _ _ _ R').
    + fold img1. apply all_crash_app; [exact Hc|].
      apply (all_crash_invisible _ dv2 bsF Q'); [|exact R2|apply in_gc_invisible].
      intros img' R'. apply (Rec_good _ _ _ _ R').
Qed.
Lemma install_after_cs : CSE (pd_img d2) (bsF ++ log_batches (dv_logs dv)).
Proof. exists dv2, bsF, Q'. split; [apply (Inv_CS _ _ _ _ _ _ in_inv2)|reflexivity]. Qed.

Lemma install_crash_cs :
  all_crash (fun i => CSE i (bsF ++ log_batches (dv_logs dv))) (pd_img d) (ops1 ++ [op] ++ gc_ops d2).
Proof.
  pose proof (Inv_CS _ _ _ _ _ _ I) as C0.
  apply all_crash_app.
  - apply (all_crash_invisible_cs _ _ _ _ _ C0 in_ops1_invisible).
  - fold img1. pose proof (CS_invisible_ops _ _ _ _ _ C0 in_ops1_invisible) as C1. fold img1 in C1.
    apply all_crash_app.
    + destruct in_manfile1 as (file & Hl & Hlf). pose proof install_after_cs as Ha.
      cbn [d2 pd_img] in Ha. unfold op in *. rewrite (iv_man _ _ _ _ _ _ I) in *.
      apply (crash_cs_manifest_append img1 dv bsF Q file (pd_manifest_boff d) _ _ C1 eq_refl Hl Hlf Ha).
    + cbn [apply_fsops fold_left].
      apply (all_crash_invisible_cs (pd_img d2) dv2 bsF Q' _ (Inv_CS _ _ _ _ _ _ in_inv2) in_gc_invisible).
Qed.
End INSTALL.

Theorem install_step_c : forall d acked deleted added pointers seq d' ops,
  InvE d acked ->
  install_okb d deleted added pointers seq = true ->
  install_preserves d deleted added pointers seq ->
  p_install d deleted added pointers seq = Some (d', ops) ->
  all_crash (fun i => CSE i acked) (pd_img d) ops.
Proof.
  intros d acked deleted added pointers seq d' ops (dv & bsF & Q & older & bsM & I & ->) Hok HP Hin.
  destruct (apply_edit (pd_ver d) (edit_of (mkVC None None None None pointers deleted (map fst added))))
    as [v'|] eqn:Hedit.
  2:{ unfold p_install, log_and_apply in Hin. cbn [pd_ver vc_deleted vc_new] in Hin. rewrite Hedit in Hin. discriminate. }
  rewrite (install_eq d dv bsF Q older bsM I deleted added pointers seq Hok HP v' Hedit) in Hin.
  injection Hin as <- <-.
  apply (install_crash_cs d dv bsF Q older bsM I deleted added pointers seq Hok HP v' Hedit).
Qed.

(** the step lemma *)
Theorem install_step : forall d acked deleted added pointers seq d' ops,
  InvE d acked ->
  install_okb d deleted added pointers seq = true ->
  install_preserves d deleted added pointers seq ->
  p_install d deleted added pointers seq = Some (d', ops) ->
  pd_img d' = apply_fsops (pd_img d) ops /\
  InvE d' acked /\
  all_crash (fun i => Good i acked) (pd_img d) ops.
Proof.
  intros d acked deleted added pointers seq d' ops (dv & bsF & Q & older & bsM & I & ->) Hok HP Hin.
  destruct (apply_edit (pd_ver d) (edit_of (mkVC None None None None pointers deleted (map fst added))))
    as [v'|] eqn:Hedit.
  2:{ unfold p_install, log_and_apply in Hin. cbn [pd_ver vc_deleted vc_new] in Hin. rewrite Hedit in Hin. discriminate. }
  rewrite (install_eq d dv bsF Q older bsM I deleted added pointers seq Hok HP v' Hedit) in Hin.
  injection Hin as <- <-.
  destruct (install_result d dv bsF Q older bsM I deleted added pointers seq Hok HP v' Hedit) as [IE Hc].
  split; [|split; [exact IE|exact Hc]].
  cbn [with_img pd_img]. rewrite !apply_fsops_app. reflexivity.
Qed.

(** * Side conditions of a run with installs *)
Definition step_okP (s : prun) (o : pop) : Prop :=
  match o, pr_db s with
  | QInstall del add ptr q, Some d =>
      install_okb d del add ptr q = true /\ install_preserves d del add ptr q
  | _, _ => step_ok s o = true
  end.

Fixpoint run_okP (s : prun) (ops : list pop) : Prop :=
  match ops with
  | [] => True
  | o :: r => step_okP s o /\ run_okP (fst (p_step s o)) r
  end.

Lemma step_ok_okP s o : step_ok s o = true -> step_okP s o.
Proof.
  unfold step_okP. destruct o; try (intros H; exact H).
  unfold step_ok. destruct (pr_db s); [discriminate|intros H; exact H].
Qed.

Lemma run_ok_okP : forall ops s, run_ok s ops = true -> run_okP s ops.
Proof.
  induction ops as [|o r IH]; intros s H; [exact Logic.I|].
  cbn [run_ok] in H. apply andb_true_iff in H. destruct H as [H1 H2].
  split; [apply step_ok_okP; exact H1|apply IH; exact H2].
Qed.

(** the hypothesis of M5 holds for every install that writes no table and keeps the set of file
    numbers (a trivial move) *)
Lemma install_preserves_move d acked deleted added pointers seq v' :
  InvE d acked ->
  fst (install_parts d added) = [] ->
  apply_edit (pd_ver d) (edit_of (install_change' d deleted added pointers seq)) = Some v' ->
  (forall n, In n (version_numbers v') <-> In n (version_numbers (pd_ver d))) ->
  install_preserves d deleted added pointers seq.
Proof.
  intros (dv & bsF & Q & older & bsM & I & _) Hops Hedit Hnum.
  unfold install_preserves. rewrite Hedit, Hops. cbv zeta. cbn [apply_fsops fold_left].
  assert (Hsame : forall e, In e (tab_entries (pd_img d) v') <-> In e (tab_entries (pd_img d) (pd_ver d))).
  { intros e. rewrite !in_tab_entries. split; intros (n & es & Hn & Hl & He); exists n, es;
      (split; [apply Hnum; exact Hn|auto]). }
  split; [intros e He; apply Hsame; exact He|].
  intros q k _. apply visible_ext; [exact Hsame|].
  pose proof (rec_tab _ _ _ _ (iv_rec _ _ _ _ _ _ I)) as (Hu & _ & _).
  rewrite <- (iv_ver _ _ _ _ _ _ I) in Hu.
  apply (GetProofs.uniq_entries_ext (tab_entries (pd_img d) (pd_ver d))); [|exact Hu].
  intros e. symmetry. apply Hsame.
Qed.
