(** Proofs for C01 (point lookups): the search order of [DB::get] / [Version::get] returns what
    a reader at sequence [q] must see, wherever the data lives. No axioms. *)
From Coq Require Import Lia ZArith ZifyN ZifyBool ZifyNat Arith Permutation.
From RainVerif Require Import Params.
From RainVerif.model Require Import Bytes Key Block Table TableSpec Version Lsm LsmSpec DbSpec.
From RainVerif.proofs Require Import KeyProofs.
Open Scope N_scope.
Arguments N.add : simpl never.
Arguments N.sub : simpl never.
Arguments N.mul : simpl never.
Arguments N.div : simpl never.
Arguments N.modulo : simpl never.
Arguments N.eqb : simpl never.
Arguments N.ltb : simpl never.
Arguments N.leb : simpl never.
Arguments N.of_nat : simpl never.
Arguments N.to_nat : simpl never.
Arguments N.compare : simpl never.

(** * Part 0: order facts on internal keys in terms of (user key, sequence) *)

Lemma ikey_lt_inv a b :
  ikey_lt a b ->
  bytes_cmp (ik_user a) (ik_user b) = Lt \/ (ik_user a = ik_user b /\ ik_seq b < ik_seq a).
Proof.
  unfold ikey_lt, ikey_cmp. destruct (bytes_cmp (ik_user a) (ik_user b)) eqn:E; intros H.
  - right. split; [apply bytes_cmp_eq; exact E|]. apply N.compare_lt_iff in H. exact H.
  - left. reflexivity.
  - discriminate.
Qed.

Lemma ikey_le_inv a b :
  ikey_le a b ->
  bytes_cmp (ik_user a) (ik_user b) = Lt \/ (ik_user a = ik_user b /\ ik_seq b <= ik_seq a).
Proof.
  unfold ikey_le, ikey_cmp. destruct (bytes_cmp (ik_user a) (ik_user b)) eqn:E; intros H.
  - right. split; [apply bytes_cmp_eq; exact E|]. apply N.compare_le_iff. exact H.
  - left. reflexivity.
  - contradiction.
Qed.

Lemma ikey_lt_user_same a b :
  ikey_lt a b -> ik_user a = ik_user b -> ik_seq b < ik_seq a.
Proof.
  intros H E. apply ikey_lt_inv in H. destruct H as [H|[_ H]]; [|exact H].
  rewrite E in H. exfalso. eapply bytes_cmp_lt_irrefl; eassumption.
Qed.

Lemma ikey_le_user a b : ikey_le a b -> bytes_cmp (ik_user a) (ik_user b) <> Gt.
Proof.
  intros H. apply ikey_le_inv in H. destruct H as [H|[H _]].
  - rewrite H. discriminate.
  - rewrite H, bytes_cmp_refl. discriminate.
Qed.

Lemma ikey_cmp_eq_user a b : ikey_cmp a b = Eq -> ik_user a = ik_user b.
Proof. intros H. apply ikey_cmp_eq_iff in H. tauto. Qed.

(** * Part 1: the newest entry at or below a sequence bound, characterised *)

Definition cand (k : bytes) (q : N) (e : entry) : Prop :=
  ik_user (fst e) = k /\ ik_seq (fst e) <= q.

Definition candb (k : bytes) (q : N) (e : entry) : bool :=
  bytes_eqb (ik_user (fst e)) k && (ik_seq (fst e) <=? q).

Lemma candb_iff k q e : candb k q e = true <-> cand k q e.
Proof.
  unfold candb, cand. rewrite andb_true_iff, bytes_eqb_iff, N.leb_le. tauto.
Qed.

Lemma candb_false_iff k q e : candb k q e = false <-> ~ cand k q e.
Proof.
  rewrite <- candb_iff. destruct (candb k q e); split; intros H.
  - discriminate.
  - exfalso. apply H. reflexivity.
  - discriminate.
  - reflexivity.
Qed.

(** [o] is a newest candidate of [es] (or [None] when there is no candidate) *)
Definition newest_rel (es : list entry) (k : bytes) (q : N) (o : option entry) : Prop :=
  match o with
  | Some e =>
      In e es /\ cand k q e /\
      forall e', In e' es -> cand k q e' -> ik_seq (fst e') <= ik_seq (fst e)
  | None => forall e', In e' es -> ~ cand k q e'
  end.

Definition answer_of (o : option entry) : get_result :=
  match o with
  | None => GNotFound
  | Some (key, v) => if ik_op key =? OP_DELETE then GDeleted else GFound v
  end.

Definition res_opt (r : get_result) : option bytes :=
  match r with GFound v => Some v | _ => None end.

Definition newest_step (k : bytes) (q : N) (best : option entry) (e : entry) : option entry :=
  if bytes_eqb (ik_user (fst e)) k && (ik_seq (fst e) <=? q) then
    match best with
    | Some b => if ik_seq (fst b) <? ik_seq (fst e) then Some e else best
    | None => Some e
    end
  else best.

Lemma newest_le_snoc es e k q :
  newest_le (es ++ [e]) k q = newest_step k q (newest_le es k q) e.
Proof. unfold newest_le. rewrite fold_left_app. reflexivity. Qed.

Lemma newest_le_rel es k q : newest_rel es k q (newest_le es k q).
Proof.
  induction es as [|e es IH] using rev_ind.
  - cbn. intros e' [].
  - rewrite newest_le_snoc. unfold newest_step.
    fold (candb k q e). destruct (candb k q e) eqn:C.
    + apply candb_iff in C.
      destruct (newest_le es k q) as [b|] eqn:B; cbn [newest_rel] in IH |- *.
      * destruct IH as (Hin & Hc & Hmax).
        destruct (ik_seq (fst b) <? ik_seq (fst e)) eqn:L.
        -- apply N.ltb_lt in L. split; [apply in_or_app; right; left; reflexivity|].
           split; [exact C|]. intros e' He' Ce'. apply in_app_or in He'.
           destruct He' as [He'|[<-|[]]]; [|lia]. specialize (Hmax e' He' Ce'). lia.
        -- apply N.ltb_ge in L. split; [apply in_or_app; left; exact Hin|].
           split; [exact Hc|]. intros e' He' Ce'. apply in_app_or in He'.
           destruct He' as [He'|[<-|[]]]; [auto|lia].
      * split; [apply in_or_app; right; left; reflexivity|]. split; [exact C|].
        intros e' He' Ce'. apply in_app_or in He'.
        destruct He' as [He'|[<-|[]]]; [|lia]. exfalso. eapply IH; eassumption.
    + apply candb_false_iff in C.
      destruct (newest_le es k q) as [b|] eqn:B; cbn [newest_rel] in IH |- *.
      * destruct IH as (Hin & Hc & Hmax). split; [apply in_or_app; left; exact Hin|].
        split; [exact Hc|]. intros e' He' Ce'. apply in_app_or in He'.
        destruct He' as [He'|[<-|[]]]; [auto|contradiction].
      * intros e' He' Ce'. apply in_app_or in He'.
        destruct He' as [He'|[<-|[]]]; [eapply IH; eassumption|contradiction].
Qed.

Lemma visible_answer es q k :
  visible es q k = res_opt (answer_of (newest_le es k q)).
Proof.
  unfold visible, answer_of, res_opt. destruct (newest_le es k q) as [[key v]|]; [|reflexivity].
  destruct (ik_op key =? OP_DELETE); reflexivity.
Qed.

(** [newest_rel] only depends on the set of entries *)
Lemma newest_rel_ext es es' k q o :
  (forall e, In e es <-> In e es') -> newest_rel es k q o -> newest_rel es' k q o.
Proof.
  intros HE. destruct o as [e|]; cbn [newest_rel].
  - intros (Hin & Hc & Hmax). split; [apply HE; exact Hin|]. split; [exact Hc|].
    intros e' He'. apply Hmax. apply HE. exact He'.
  - intros H e' He'. apply H. apply HE. exact He'.
Qed.

(** (user key, sequence) identifies an entry *)
Definition uniq_entries (es : list entry) : Prop :=
  forall e1 e2, In e1 es -> In e2 es ->
    ik_user (fst e1) = ik_user (fst e2) -> ik_seq (fst e1) = ik_seq (fst e2) -> e1 = e2.

Lemma newest_rel_unique es k q o1 o2 :
  uniq_entries es -> newest_rel es k q o1 -> newest_rel es k q o2 -> o1 = o2.
Proof.
  intros U H1 H2. destruct o1 as [e1|], o2 as [e2|]; cbn [newest_rel] in *.
  - destruct H1 as (I1 & C1 & M1), H2 as (I2 & C2 & M2). f_equal. apply U; auto.
    + destruct C1, C2. congruence.
    + specialize (M1 e2 I2 C2). specialize (M2 e1 I1 C1). lia.
  - destruct H1 as (I1 & C1 & _). exfalso. eapply H2; eassumption.
  - destruct H2 as (I2 & C2 & _). exfalso. eapply H1; eassumption.
  - reflexivity.
Qed.

(** * Part 2: sorted runs *)

Lemma sorted_cons_iff e r :
  sorted_entries (e :: r) = true <->
  (forall x, In x r -> ikey_lt (fst e) (fst x)) /\ sorted_entries r = true.
Proof.
  revert e. induction r as [|e' r IH]; intros e.
  - cbn. split; [intros _; split; [intros x []|reflexivity]|reflexivity].
  - change (sorted_entries (e :: e' :: r))
      with (ikey_ltb (fst e) (fst e') && sorted_entries (e' :: r)).
    rewrite andb_true_iff, ikey_ltb_iff. split.
    + intros [H1 H2]. split; [|exact H2]. intros x [<-|Hx]; [exact H1|].
      apply IH in H2. destruct H2 as [H2 _]. eapply ikey_lt_trans; [exact H1|]. auto.
    + intros [H1 H2]. split; [apply H1; left; reflexivity|exact H2].
Qed.

Lemma sorted_app_inv a b :
  sorted_entries (a ++ b) = true ->
  sorted_entries a = true /\ sorted_entries b = true /\
  forall x y, In x a -> In y b -> ikey_lt (fst x) (fst y).
Proof.
  induction a as [|e a IH]; cbn [app].
  - intros H. split; [reflexivity|]. split; [exact H|]. intros x y [].
  - intros H. apply sorted_cons_iff in H. destruct H as [H1 H2].
    destruct (IH H2) as (Sa & Sb & Hab). split.
    + apply sorted_cons_iff. split; [|exact Sa]. intros x Hx. apply H1. apply in_or_app. auto.
    + split; [exact Sb|]. intros x y [<-|Hx] Hy; [|auto]. apply H1. apply in_or_app. auto.
Qed.

Lemma sorted_uniq es : sorted_entries es = true -> uniq_entries es.
Proof.
  induction es as [|e es IH]; intros S e1 e2 H1 H2 EU ES; [destruct H1|].
  apply sorted_cons_iff in S. destruct S as [Hlt S].
  destruct H1 as [<-|H1], H2 as [<-|H2].
  - reflexivity.
  - exfalso. specialize (Hlt e2 H2). apply (ikey_lt_user_same _ _ Hlt) in EU. lia.
  - exfalso. specialize (Hlt e1 H1). symmetry in EU. apply (ikey_lt_user_same _ _ Hlt) in EU. lia.
  - apply IH; assumption.
Qed.

Lemma sorted_first_le es a e :
  sorted_entries es = true -> first_key es = Some a -> In e es -> ikey_le a (fst e).
Proof.
  destruct es as [|e0 es]; [discriminate|]. cbn [first_key]. intros S [= <-] [<-|H].
  - apply ikey_le_refl.
  - apply sorted_cons_iff in S. apply ikey_lt_le. apply S. exact H.
Qed.

Lemma last_key_snoc es e : last_key (es ++ [e]) = Some (fst e).
Proof. unfold last_key. rewrite rev_app_distr. reflexivity. Qed.

Lemma sorted_last_ge es b e :
  sorted_entries es = true -> last_key es = Some b -> In e es -> ikey_le (fst e) b.
Proof.
  intros S L H. destruct es as [|e0 es0]; [destruct H|].
  destruct (last_key_some (e0 :: es0)) as (b0 & el & E & L'); [discriminate|].
  rewrite L in L'. injection L' as ->. rewrite E in S, H.
  apply in_app_or in H. destruct H as [H|[<-|[]]]; [|apply ikey_le_refl].
  apply sorted_app_inv in S. destruct S as (_ & _ & S). apply ikey_lt_le. apply S; [exact H|].
  left. reflexivity.
Qed.

Lemma last_key_in es b : last_key es = Some b -> exists e, In e es /\ fst e = b.
Proof.
  intros L. destruct es as [|e0 es0]; [discriminate|].
  destruct (last_key_some (e0 :: es0)) as (b0 & el & E & L'); [discriminate|].
  rewrite L in L'. injection L' as ->. exists el. split; [|reflexivity].
  rewrite E. apply in_or_app. right. left. reflexivity.
Qed.

(** ** target comparisons *)

Lemma ltb_target_not_cand e k q op :
  ikey_ltb (fst e) (mkIKey k q op) = true -> ~ cand k q e.
Proof.
  intros H [Hu Hs]. apply ikey_ltb_iff in H.
  apply ikey_lt_user_same in H; cbn [ik_user ik_seq] in *; [lia|exact Hu].
Qed.

Lemma geb_target_same_user (e : entry) k q op :
  ikey_ltb (fst e) (mkIKey k q op) = false -> ik_user (fst e) = k -> ik_seq (fst e) <= q.
Proof.
  intros H Hu. apply ikey_ltb_false_iff in H. apply ikey_le_inv in H.
  cbn [ik_user ik_seq] in H. destruct H as [H|[_ H]]; [|exact H].
  rewrite Hu in H. exfalso. eapply bytes_cmp_lt_irrefl; eassumption.
Qed.

Lemma geb_target_other_user (e : entry) k q op :
  ikey_ltb (fst e) (mkIKey k q op) = false -> ik_user (fst e) <> k ->
  bytes_cmp k (ik_user (fst e)) = Lt.
Proof.
  intros H Hu. apply ikey_ltb_false_iff in H. apply ikey_le_inv in H.
  cbn [ik_user ik_seq] in H. destruct H as [H|[H _]]; [exact H|]. congruence.
Qed.

(** ** one sorted run answers with its newest candidate *)

Lemma get_spec_cons_lt e r t :
  ikey_ltb (fst e) t = true -> get_spec (e :: r) t = get_spec r t.
Proof. intros H. unfold get_spec. cbn [find]. rewrite H. reflexivity. Qed.

Lemma get_spec_cons_ge e r t :
  ikey_ltb (fst e) t = false ->
  get_spec (e :: r) t =
    if negb (bytes_eqb (ik_user (fst e)) (ik_user t)) then GNotFound else answer_of (Some e).
Proof.
  intros H. unfold get_spec. cbn [find]. rewrite H. cbn [negb]. destruct e as [key v].
  reflexivity.
Qed.

Lemma get_spec_run es k q op :
  sorted_entries es = true ->
  exists o, newest_rel es k q o /\ get_spec es (mkIKey k q op) = answer_of o.
Proof.
  induction es as [|e r IH]; intros S.
  - exists None. split; [intros e' []|reflexivity].
  - apply sorted_cons_iff in S. destruct S as [Hlt S].
    destruct (ikey_ltb (fst e) (mkIKey k q op)) eqn:L.
    + destruct (IH S) as (o & Ho & Hg). exists o. rewrite get_spec_cons_lt by exact L.
      split; [|exact Hg]. pose proof (ltb_target_not_cand _ _ _ _ L) as NC.
      destruct o as [b|]; cbn [newest_rel] in Ho |- *.
      * destruct Ho as (Hin & Hc & Hmax). split; [right; exact Hin|]. split; [exact Hc|].
        intros e' [<-|He'] Ce'; [contradiction|auto].
      * intros e' [<-|He']; [exact NC|auto].
    + rewrite get_spec_cons_ge by exact L. cbn [ik_user].
      destruct (bytes_eqb (ik_user (fst e)) k) eqn:EU; cbn [negb].
      * apply bytes_eqb_iff in EU. exists (Some e). split; [|reflexivity].
        pose proof (geb_target_same_user _ _ _ _ L EU) as Hs.
        split; [left; reflexivity|]. split; [split; assumption|].
        intros e' [<-|He'] [Cu Cs]; [lia|]. specialize (Hlt e' He').
        apply ikey_lt_user_same in Hlt; [lia|congruence].
      * exists None. split; [|reflexivity].
        assert (EU' : ik_user (fst e) <> k).
        { intros E. apply bytes_eqb_iff in E. congruence. }
        pose proof (geb_target_other_user _ _ _ _ L EU') as Hk.
        intros e' [<-|He'] [Cu Cs]; [contradiction|]. specialize (Hlt e' He').
        apply ikey_lt_le, ikey_le_user in Hlt. rewrite Cu in Hlt.
        apply Hlt. apply bytes_cmp_gt_lt.
        destruct (bytes_cmp (ik_user (fst e)) k) eqn:E2.
        -- apply bytes_cmp_eq in E2. contradiction.
        -- exfalso. eapply bytes_cmp_lt_irrefl. eapply bytes_cmp_lt_trans; eassumption.
        -- apply bytes_cmp_gt_lt in E2. exact E2.
Qed.

Lemma answer_of_some_not_nf e : answer_of (Some e) <> GNotFound.
Proof. destruct e as [key v]. cbn. destruct (ik_op key =? OP_DELETE); discriminate. Qed.

Lemma get_spec_no_user es t :
  (forall e, In e es -> ik_user (fst e) <> ik_user t) -> get_spec es t = GNotFound.
Proof.
  intros H. unfold get_spec.
  destruct (find (fun e => negb (ikey_ltb (fst e) t)) es) as [[key v]|] eqn:F; [|reflexivity].
  apply find_some in F. destruct F as [F _]. apply H in F. cbn [fst] in F.
  destruct (bytes_eqb (ik_user key) (ik_user t)) eqn:E; [|reflexivity].
  apply bytes_eqb_iff in E. contradiction.
Qed.

(** * Part 3: sources in recency order *)

Lemma first_answer_app a b t :
  first_answer (a ++ b) t =
  match first_answer a t with GNotFound => first_answer b t | r => r end.
Proof.
  induction a as [|x a IH]; cbn [app first_answer]; [reflexivity|].
  destruct (get_spec x t); auto.
Qed.

Lemma newer_than_spec x y :
  newer_than x y = true ->
  forall a b, In a x -> In b y -> ik_user (fst a) = ik_user (fst b) ->
              ik_seq (fst b) < ik_seq (fst a).
Proof.
  unfold newer_than. intros H a b Ha Hb E.
  rewrite forallb_forall in H. specialize (H a Ha). rewrite forallb_forall in H.
  specialize (H b Hb). apply orb_true_iff in H. destruct H as [H|H].
  - apply negb_true_iff in H. exfalso.
    assert (T : bytes_eqb (ik_user (fst a)) (ik_user (fst b)) = true) by (apply bytes_eqb_iff; exact E).
    congruence.
  - apply N.ltb_lt in H. exact H.
Qed.

Lemma newer_than_intro x y :
  (forall a b, In a x -> In b y -> ik_user (fst a) = ik_user (fst b) ->
               ik_seq (fst b) < ik_seq (fst a)) ->
  newer_than x y = true.
Proof.
  intros H. unfold newer_than. apply forallb_forall. intros a Ha. apply forallb_forall.
  intros b Hb. destruct (bytes_eqb (ik_user (fst a)) (ik_user (fst b))) eqn:E; [|reflexivity].
  cbn [negb orb]. apply N.ltb_lt. apply H; auto. apply bytes_eqb_iff. exact E.
Qed.

Lemma recency_cons_inv x r :
  recency_ok (x :: r) = true ->
  (forall y, In y r -> newer_than x y = true) /\ recency_ok r = true.
Proof.
  cbn [recency_ok]. rewrite andb_true_iff, forallb_forall. tauto.
Qed.

Lemma in_concat_iff {A} (ls : list (list A)) (x : A) :
  In x (concat ls) <-> exists l, In l ls /\ In x l.
Proof.
  induction ls as [|l ls IH]; cbn [concat].
  - split; [intros []|intros (l & [] & _)].
  - rewrite in_app_iff, IH. split.
    + intros [H|(l' & H1 & H2)]; [exists l; split; [left; reflexivity|exact H]|].
      exists l'. split; [right; exact H1|exact H2].
    + intros (l' & [<-|H1] & H2); [left; exact H2|]. right. exists l'. split; assumption.
Qed.

Lemma sources_uniq srcs :
  forallb sorted_entries srcs = true -> recency_ok srcs = true ->
  uniq_entries (concat srcs).
Proof.
  induction srcs as [|x r IH]; intros S R; [intros e1 e2 []|].
  cbn [forallb] in S. apply andb_true_iff in S. destruct S as [Sx Sr].
  apply recency_cons_inv in R. destruct R as [Rx Rr].
  specialize (IH Sr Rr). cbn [concat]. intros e1 e2 H1 H2 EU ES.
  apply in_app_or in H1. apply in_app_or in H2. destruct H1 as [H1|H1], H2 as [H2|H2].
  - eapply sorted_uniq; eassumption.
  - exfalso. apply in_concat_iff in H2. destruct H2 as (y & Hy & H2).
    pose proof (newer_than_spec _ _ (Rx y Hy) e1 e2 H1 H2 EU). lia.
  - exfalso. apply in_concat_iff in H1. destruct H1 as (y & Hy & H1).
    symmetry in EU. pose proof (newer_than_spec _ _ (Rx y Hy) e2 e1 H2 H1 EU). lia.
  - apply IH; assumption.
Qed.

Theorem first_answer_newest srcs k q op :
  forallb sorted_entries srcs = true -> recency_ok srcs = true ->
  forall o, newest_rel (concat srcs) k q o ->
            first_answer srcs (mkIKey k q op) = answer_of o.
Proof.
  induction srcs as [|x r IH]; intros S R o Ho.
  - cbn [first_answer]. destruct o as [e|]; [|reflexivity]. destruct Ho as ([] & _).
  - pose proof (sources_uniq _ S R) as U.
    cbn [forallb] in S. apply andb_true_iff in S. destruct S as [Sx Sr].
    apply recency_cons_inv in R. destruct R as [Rx Rr].
    destruct (get_spec_run x k q op Sx) as (ox & Hox & Hg).
    cbn [first_answer]. rewrite Hg. destruct ox as [e|].
    + assert (Hn : newest_rel (concat (x :: r)) k q (Some e)).
      { cbn [newest_rel concat] in Hox |- *. destruct Hox as (Hin & Hc & Hmax).
        split; [apply in_or_app; left; exact Hin|]. split; [exact Hc|].
        intros e' He' Ce'. apply in_app_or in He'. destruct He' as [He'|He']; [auto|].
        apply in_concat_iff in He'. destruct He' as (y & Hy & He').
        apply N.lt_le_incl. apply (newer_than_spec _ _ (Rx y Hy) e e' Hin He').
        destruct Hc, Ce'. congruence. }
      rewrite (newest_rel_unique _ _ _ _ _ U Ho Hn).
      pose proof (answer_of_some_not_nf e) as NF.
      destruct (answer_of (Some e)); [reflexivity|reflexivity|contradiction].
    + cbn [answer_of]. apply IH; [exact Sr|exact Rr|].
      cbn [newest_rel] in Hox. cbn [concat] in Ho.
      destruct o as [e'|]; cbn [newest_rel] in Ho |- *.
      * destruct Ho as (Hin & Hc & Hmax). apply in_app_or in Hin.
        destruct Hin as [Hin|Hin]; [exfalso; eapply Hox; eassumption|].
        split; [exact Hin|]. split; [exact Hc|]. intros e2 H2. apply Hmax.
        apply in_or_app. right. exact H2.
      * intros e2 H2. apply Ho. apply in_or_app. right. exact H2.
Qed.

(** dropping or replacing sources that answer the same does not change the search *)
Lemma first_answer_map_ext {A} (f g : A -> list entry) (l : list A) t :
  (forall x, In x l -> get_spec (f x) t = get_spec (g x) t) ->
  first_answer (map f l) t = first_answer (map g l) t.
Proof.
  induction l as [|x l IH]; intros H; [reflexivity|]. cbn [map first_answer].
  rewrite (H x) by (left; reflexivity). rewrite IH; [reflexivity|].
  intros y Hy. apply H. right. exact Hy.
Qed.

Lemma first_answer_filter {A} (f : A -> list entry) (p : A -> bool) (l : list A) t :
  (forall x, In x l -> p x = false -> get_spec (f x) t = GNotFound) ->
  first_answer (map f (filter p l)) t = first_answer (map f l) t.
Proof.
  induction l as [|x l IH]; intros H; [reflexivity|]. cbn [filter map first_answer].
  assert (IH' : first_answer (map f (filter p l)) t = first_answer (map f l) t).
  { apply IH. intros y Hy. apply H. right. exact Hy. }
  destruct (p x) eqn:P.
  - cbn [map first_answer]. rewrite IH'. reflexivity.
  - rewrite (H x) by (auto; left; reflexivity). exact IH'.
Qed.

(** * Part 4: file selection *)

(** ** level 0: sorting by descending number commutes with filtering *)

Fixpoint num_desc (l : list fmeta) : Prop :=
  match l with
  | [] => True
  | g :: r => Forall (fun h => fm_num h <= fm_num g) r /\ num_desc r
  end.

Lemma insert_num_in f l x : In x (insert_by_num_desc f l) <-> x = f \/ In x l.
Proof.
  induction l as [|g r IH]; cbn [insert_by_num_desc].
  - cbn. intuition.
  - destruct (fm_num g <? fm_num f); cbn [In]; [intuition|]. rewrite IH. cbn [In]. intuition.
Qed.

Lemma sort_num_in l x : In x (sort_by_num_desc l) <-> In x l.
Proof.
  induction l as [|f l IH]; cbn [sort_by_num_desc fold_right]; [tauto|].
  fold (sort_by_num_desc l). rewrite insert_num_in, IH. cbn [In]. intuition.
Qed.

Lemma insert_num_desc f l : num_desc l -> num_desc (insert_by_num_desc f l).
Proof.
  induction l as [|g r IH]; cbn [insert_by_num_desc num_desc].
  - intros _. split; [constructor|exact I].
  - intros [Hg Hr]. destruct (fm_num g <? fm_num f) eqn:L.
    + apply N.ltb_lt in L. cbn [num_desc]. split; [|split; assumption].
      constructor; [lia|]. rewrite Forall_forall in Hg |- *. intros h Hh.
      specialize (Hg h Hh). lia.
    + apply N.ltb_ge in L. cbn [num_desc]. split; [|apply IH; exact Hr].
      rewrite Forall_forall in Hg |- *. intros h Hh. apply insert_num_in in Hh.
      destruct Hh as [->|Hh]; [exact L|auto].
Qed.

Lemma sort_num_desc l : num_desc (sort_by_num_desc l).
Proof.
  induction l as [|f l IH]; cbn [sort_by_num_desc fold_right]; [exact I|].
  apply insert_num_desc. exact IH.
Qed.

Lemma insert_all_lt f l :
  Forall (fun h => fm_num h < fm_num f) l -> insert_by_num_desc f l = f :: l.
Proof.
  destruct l as [|g r]; cbn [insert_by_num_desc]; [reflexivity|]. intros H.
  apply Forall_inv in H. apply N.ltb_lt in H. rewrite H. reflexivity.
Qed.

Lemma filter_insert_num p f l :
  num_desc l ->
  filter p (insert_by_num_desc f l) =
  if p f then insert_by_num_desc f (filter p l) else filter p l.
Proof.
  induction l as [|g r IH]; cbn [insert_by_num_desc num_desc].
  - intros _. cbn [filter]. destruct (p f); reflexivity.
  - intros [Hg Hr]. destruct (fm_num g <? fm_num f) eqn:L.
    + apply N.ltb_lt in L. cbn [filter]. destruct (p f) eqn:Pf; [|reflexivity].
      rewrite insert_all_lt; [reflexivity|].
      assert (A : Forall (fun h => fm_num h < fm_num f) (g :: r)).
      { constructor; [exact L|]. rewrite Forall_forall in Hg |- *. intros h Hh.
        specialize (Hg h Hh). lia. }
      rewrite Forall_forall in A |- *. intros h Hh. apply A.
      change (In h (filter p (g :: r))) in Hh. apply filter_In in Hh. tauto.
    + cbn [filter]. rewrite (IH Hr). destruct (p g) eqn:Pg, (p f) eqn:Pf; try reflexivity.
      cbn [insert_by_num_desc]. rewrite L. reflexivity.
Qed.

Lemma filter_sort_num p l :
  filter p (sort_by_num_desc l) = sort_by_num_desc (filter p l).
Proof.
  induction l as [|f l IH]; [reflexivity|].
  change (sort_by_num_desc (f :: l)) with (insert_by_num_desc f (sort_by_num_desc l)).
  rewrite filter_insert_num by apply sort_num_desc. rewrite IH. cbn [filter].
  destruct (p f); reflexivity.
Qed.

(** ** exact bounds of a file *)

Lemma file_bounds_inv es f :
  file_bounds_ok es f = true ->
  exists a b, first_key es = Some a /\ last_key es = Some b /\
              ikey_cmp (fm_small f) a = Eq /\ ikey_cmp (fm_large f) b = Eq /\
              sorted_entries es = true.
Proof.
  unfold file_bounds_ok. destruct (first_key es) as [a|]; [|discriminate].
  destruct (last_key es) as [b|]; [|discriminate]. intros H.
  repeat (apply andb_true_iff in H; destruct H as [H ?]).
  exists a, b. repeat split; try assumption.
  - destruct (ikey_cmp (fm_small f) a); [reflexivity|discriminate|discriminate].
  - destruct (ikey_cmp (fm_large f) b); [reflexivity|discriminate|discriminate].
Qed.

Lemma file_entry_between es f e :
  file_bounds_ok es f = true -> In e es ->
  ikey_le (fm_small f) (fst e) /\ ikey_le (fst e) (fm_large f).
Proof.
  intros B He. destruct (file_bounds_inv _ _ B) as (a & b & Fa & Lb & Ea & Eb & S).
  pose proof (sorted_first_le _ _ _ S Fa He) as H1.
  pose proof (sorted_last_ge _ _ _ S Lb He) as H2.
  unfold ikey_le in *. rewrite (ikey_cmp_eq_compat_l _ _ _ Ea).
  rewrite (ikey_cmp_eq_compat_r _ _ _ Eb). split; assumption.
Qed.

Lemma file_last_entry es f :
  file_bounds_ok es f = true -> exists e, In e es /\ ikey_cmp (fm_large f) (fst e) = Eq.
Proof.
  intros B. destruct (file_bounds_inv _ _ B) as (a & b & Fa & Lb & Ea & Eb & S).
  destruct (last_key_in _ _ Lb) as (e & He & <-). exists e. split; assumption.
Qed.

Lemma file_outside_no_user es f u :
  file_bounds_ok es f = true ->
  bytes_leb (ik_user (fm_small f)) u && bytes_leb u (ik_user (fm_large f)) = false ->
  forall e, In e es -> ik_user (fst e) <> u.
Proof.
  intros B H e He E. destruct (file_entry_between _ _ _ B He) as [H1 H2].
  apply ikey_le_user in H1, H2. rewrite E in H1, H2.
  apply bytes_leb_iff in H1, H2. rewrite H1, H2 in H. discriminate.
Qed.

(** ** levels >= 1: binary search for the first file whose largest key is >= target *)

Ltac Zify.zify_post_hook ::= Z.div_mod_to_equations.

Section FFUB.
Variable fs : list fmeta.
Variable target : ikey.
Hypothesis mono : forall i j fi fj, (i < j)%nat ->
  nth_error fs i = Some fi -> nth_error fs j = Some fj -> ikey_lt (fm_large fi) (fm_large fj).

Lemma mono_lt_down i j fi fj :
  (i <= j)%nat -> nth_error fs i = Some fi -> nth_error fs j = Some fj ->
  ikey_ltb (fm_large fj) target = true -> ikey_ltb (fm_large fi) target = true.
Proof.
  intros Hij Hi Hj L. destruct (Nat.eq_dec i j) as [->|N]; [congruence|].
  apply ikey_ltb_iff. apply ikey_ltb_iff in L. eapply ikey_lt_trans; [|exact L].
  eapply mono; [|exact Hi|exact Hj]. lia.
Qed.

Lemma mono_ge_up i j fi fj :
  (i <= j)%nat -> nth_error fs i = Some fi -> nth_error fs j = Some fj ->
  ikey_ltb (fm_large fi) target = false -> ikey_ltb (fm_large fj) target = false.
Proof.
  intros Hij Hi Hj L. destruct (ikey_ltb (fm_large fj) target) eqn:E; [|reflexivity].
  rewrite (mono_lt_down _ _ _ _ Hij Hi Hj E) in L. discriminate.
Qed.

Lemma ffub_loop_spec fuel : forall l r,
  (l <= r <= length fs)%nat -> (r - l < fuel)%nat ->
  (forall j f, (j < l)%nat -> nth_error fs j = Some f -> ikey_ltb (fm_large f) target = true) ->
  (forall j f, (r <= j)%nat -> nth_error fs j = Some f -> ikey_ltb (fm_large f) target = false) ->
  (l <= ffub_loop fuel fs l r target <= r)%nat /\
  (forall j f, (j < ffub_loop fuel fs l r target)%nat -> nth_error fs j = Some f ->
               ikey_ltb (fm_large f) target = true) /\
  (forall j f, (ffub_loop fuel fs l r target <= j)%nat -> nth_error fs j = Some f ->
               ikey_ltb (fm_large f) target = false).
Proof.
  induction fuel as [|fuel IH]; intros l r Hb Hf HL HR; [lia|].
  cbn [ffub_loop]. destruct (Nat.ltb l r) eqn:LR.
  - apply Nat.ltb_lt in LR.
    assert (Hm : (l <= Nat.div2 (l + r) < r)%nat).
    { rewrite Nat.div2_div. lia. }
    set (mid := Nat.div2 (l + r)) in *.
    destruct (nth_error fs mid) as [file|] eqn:Nm.
    + destruct (ikey_ltb (fm_large file) target) eqn:Lm.
      * destruct (IH (S mid) r) as (B1 & B2 & B3); [lia|lia| |exact HR|].
        -- intros j f Hj Nj. eapply (mono_lt_down j mid); [lia|exact Nj|exact Nm|exact Lm].
        -- split; [lia|]. split; assumption.
      * destruct (IH l mid) as (B1 & B2 & B3); [lia|lia|exact HL| |].
        -- intros j f Hj Nj. eapply (mono_ge_up mid j); [lia|exact Nm|exact Nj|exact Lm].
        -- split; [lia|]. split; assumption.
    + apply nth_error_None in Nm. lia.
  - apply Nat.ltb_ge in LR. assert (l = r) by lia. subst r.
    split; [lia|]. split; assumption.
Qed.

Lemma find_file_upper_bound_spec :
  match find_file_upper_bound fs target with
  | None => forall f, In f fs -> ikey_ltb (fm_large f) target = true
  | Some i =>
      exists pre f post, fs = pre ++ f :: post /\ length pre = i /\
        (forall g, In g pre -> ikey_ltb (fm_large g) target = true) /\
        ikey_ltb (fm_large f) target = false
  end.
Proof.
  unfold find_file_upper_bound.
  destruct (ffub_loop_spec (S (length fs)) O (length fs)) as (B1 & B2 & B3).
  - lia.
  - lia.
  - intros j f Hj. lia.
  - intros j f Hj Nj. assert (nth_error fs j = None) by (apply nth_error_None; exact Hj).
    congruence.
  - set (i := ffub_loop (S (length fs)) fs 0 (length fs) target) in *.
    destruct (Nat.eqb i (length fs)) eqn:E.
    + apply Nat.eqb_eq in E. intros f Hf. apply In_nth_error in Hf. destruct Hf as (j & Nj).
      eapply B2; [|exact Nj]. rewrite E. apply nth_error_Some. congruence.
    + apply Nat.eqb_neq in E. assert (Hi : (i < length fs)%nat) by lia.
      destruct (nth_error fs i) as [f|] eqn:Ni; [|apply nth_error_None in Ni; lia].
      destruct (nth_error_split _ _ Ni) as (pre & post & -> & Hlen).
      exists pre, f, post. split; [reflexivity|]. split; [exact Hlen|]. split.
      * intros g Hg. apply In_nth_error in Hg. destruct Hg as (j & Nj).
        assert (Hj : (j < length pre)%nat) by (apply nth_error_Some; congruence).
        eapply (B2 j); [lia|]. rewrite nth_error_app1 by exact Hj. exact Nj.
      * eapply (B3 i); [lia|exact Ni].
Qed.
End FFUB.

(** ** levels >= 1: the selected file answers for the whole level run *)

Lemma get_spec_app_lt a b t :
  (forall e, In e a -> ikey_ltb (fst e) t = true) -> get_spec (a ++ b) t = get_spec b t.
Proof.
  induction a as [|e a IH]; intros H; [reflexivity|]. cbn [app].
  rewrite get_spec_cons_lt by (apply H; left; reflexivity).
  apply IH. intros x Hx. apply H. right. exact Hx.
Qed.

Lemma get_spec_app_ge a b t :
  (exists e, In e a /\ ikey_ltb (fst e) t = false) -> get_spec (a ++ b) t = get_spec a t.
Proof.
  induction a as [|e a IH]; intros (x & Hx & Lx); [destruct Hx|]. cbn [app].
  destruct (ikey_ltb (fst e) t) eqn:L.
  - rewrite !get_spec_cons_lt by exact L. apply IH. destruct Hx as [<-|Hx]; [congruence|].
    exists x. split; assumption.
  - rewrite !get_spec_cons_ge by exact L. reflexivity.
Qed.

Lemma get_spec_nil t : get_spec [] t = GNotFound.
Proof. reflexivity. Qed.

Section LEVEL.
Variable fe : N -> list entry.

Definition frun (fs : list fmeta) : list entry := flat_map (fun f => fe (fm_num f)) fs.

Lemma frun_split pre f post :
  frun (pre ++ f :: post) = frun pre ++ fe (fm_num f) ++ frun post.
Proof. unfold frun. rewrite flat_map_app. reflexivity. Qed.

Lemma file_entries_lt f t e :
  file_bounds_ok (fe (fm_num f)) f = true -> ikey_ltb (fm_large f) t = true ->
  In e (fe (fm_num f)) -> ikey_ltb (fst e) t = true.
Proof.
  intros B L He. apply ikey_ltb_iff. apply ikey_ltb_iff in L.
  eapply ikey_le_lt_trans; [|exact L]. eapply file_entry_between; eassumption.
Qed.

Lemma level_mono fs :
  (forall f, In f fs -> file_bounds_ok (fe (fm_num f)) f = true) ->
  sorted_entries (frun fs) = true ->
  forall i j fi fj, (i < j)%nat ->
    nth_error fs i = Some fi -> nth_error fs j = Some fj ->
    ikey_lt (fm_large fi) (fm_large fj).
Proof.
  intros B S i j fi fj Hij Ni Nj.
  destruct (nth_error_split _ _ Ni) as (l1 & l2 & E & Hlen). subst fs.
  rewrite nth_error_app2 in Nj by lia.
  destruct (j - length l1)%nat as [|m] eqn:Em; [lia|]. cbn [nth_error] in Nj.
  apply nth_error_In in Nj.
  rewrite frun_split in S. apply sorted_entries_app_r in S. apply sorted_app_inv in S.
  destruct S as (_ & _ & S).
  destruct (file_last_entry _ _ (B fi ltac:(apply in_or_app; right; left; reflexivity)))
    as (ei & Hei & Ei).
  destruct (file_last_entry _ _ (B fj ltac:(apply in_or_app; right; right; exact Nj)))
    as (ej & Hej & Ej).
  unfold ikey_lt. rewrite (ikey_cmp_eq_compat_l _ _ _ Ei), (ikey_cmp_eq_compat_r _ _ _ Ej).
  apply S; [exact Hei|]. unfold frun. apply in_flat_map. exists fj. split; assumption.
Qed.

Lemma overlapping_files_level_eq fs t :
  overlapping_files_level fs t =
  match find_file_upper_bound fs t with
  | None => []
  | Some i =>
      match nth_error fs i with
      | None => []
      | Some f => if bytes_leb (ik_user (fm_small f)) (ik_user t) then [f] else []
      end
  end.
Proof. destruct fs; reflexivity. Qed.

Theorem level_select_answer fs t :
  (forall f, In f fs -> file_bounds_ok (fe (fm_num f)) f = true) ->
  sorted_entries (frun fs) = true ->
  first_answer (map (fun f => fe (fm_num f)) (overlapping_files_level fs t)) t
  = get_spec (frun fs) t.
Proof.
  intros B S. rewrite overlapping_files_level_eq.
  pose proof (find_file_upper_bound_spec fs t (level_mono fs B S)) as F.
  destruct (find_file_upper_bound fs t) as [i|].
  - destruct F as (pre & f & post & E & Hlen & Hpre & Hf). subst fs.
    assert (Ni : nth_error (pre ++ f :: post) i = Some f).
    { rewrite nth_error_app2 by lia. rewrite Hlen, Nat.sub_diag. reflexivity. }
    rewrite Ni.
    assert (Bf : file_bounds_ok (fe (fm_num f)) f = true).
    { apply B. apply in_or_app. right. left. reflexivity. }
    assert (G : get_spec (frun (pre ++ f :: post)) t = get_spec (fe (fm_num f)) t).
    { rewrite frun_split. rewrite get_spec_app_lt.
      - apply get_spec_app_ge. destruct (file_last_entry _ _ Bf) as (e & He & Ee).
        exists e. split; [exact He|]. apply ikey_ltb_false_iff.
        apply ikey_ltb_false_iff in Hf. unfold ikey_le in *.
        rewrite <- (ikey_cmp_eq_compat_r _ _ _ Ee). exact Hf.
      - intros e He. unfold frun in He. apply in_flat_map in He.
        destruct He as (g & Hg & He). eapply file_entries_lt; [|apply Hpre; exact Hg|exact He].
        apply B. apply in_or_app. left. exact Hg. }
    rewrite G. destruct (bytes_leb (ik_user (fm_small f)) (ik_user t)) eqn:L.
    + cbn [map first_answer]. destruct (get_spec (fe (fm_num f)) t); reflexivity.
    + cbn [map first_answer]. symmetry. apply get_spec_no_user.
      apply (file_outside_no_user _ f); [exact Bf|]. rewrite L. reflexivity.
  - cbn [map first_answer]. rewrite <- (app_nil_r (frun fs)). rewrite get_spec_app_lt.
    + reflexivity.
    + intros e He. unfold frun in He. apply in_flat_map in He.
      destruct He as (g & Hg & He). eapply file_entries_lt; [apply B; exact Hg|apply F; exact Hg|exact He].
Qed.

Lemma levels_select_answer rest t :
  (forall fs, In fs rest -> forall f, In f fs -> file_bounds_ok (fe (fm_num f)) f = true) ->
  (forall fs, In fs rest -> sorted_entries (frun fs) = true) ->
  first_answer (map (fun f => fe (fm_num f))
                    (concat (map (fun fs => overlapping_files_level fs t) rest))) t
  = first_answer (map frun rest) t.
Proof.
  induction rest as [|fs rest IH]; intros B S; [reflexivity|].
  cbn [map concat]. rewrite map_app, first_answer_app.
  rewrite level_select_answer; [|apply B; left; reflexivity|apply S; left; reflexivity].
  cbn [first_answer]. rewrite IH; [reflexivity| |].
  - intros fs' H. apply B. right. exact H.
  - intros fs' H. apply S. right. exact H.
Qed.

(** ** level 0: the files whose range does not contain the user key cannot answer *)
Lemma l0_select_answer l0 t :
  (forall f, In f l0 -> file_bounds_ok (fe (fm_num f)) f = true) ->
  first_answer (map (fun f => fe (fm_num f)) (overlapping_files_l0 l0 (ik_user t))) t
  = first_answer (map (fun f => fe (fm_num f)) (sort_by_num_desc l0)) t.
Proof.
  intros B. unfold overlapping_files_l0. rewrite <- filter_sort_num.
  apply first_answer_filter. intros f Hf P. apply (proj1 (sort_num_in _ _)) in Hf.
  apply get_spec_no_user. apply (file_outside_no_user _ f); [apply B; exact Hf|exact P].
Qed.
End LEVEL.

(** * Part 5: the invariant and the assembly *)

Lemma lsm_wf_b_iff s :
  lsm_wf_b s = true <->
  l_panic s = false /\
  Nat.eqb (length (l_ver s)) (N.to_nat MAX_NUM_LEVELS) = true /\
  shape_ok (l_ver s) (file_entries s) = true /\
  forallb sorted_entries (sources s) = true /\
  recency_ok (sources s) = true /\
  forallb (forallb (entry_ok (l_seq s))) (sources s) = true /\
  forallb (fun f => fm_num f <=? l_next s) (concat (l_ver s)) = true /\
  forallb (fun q => q <=? l_seq s) (l_snaps s) = true.
Proof. unfold lsm_wf_b. rewrite !andb_true_iff, negb_true_iff. tauto. Qed.

Lemma shape_bounds v store :
  shape_ok v store = true ->
  forall fs, In fs v -> forall f, In f fs -> file_bounds_ok (store (fm_num f)) f = true.
Proof.
  unfold shape_ok. rewrite !andb_true_iff. intros [[_ H] _] fs Hfs f Hf.
  rewrite forallb_forall in H. specialize (H fs Hfs). rewrite forallb_forall in H. auto.
Qed.

Lemma level_run_frun s fs : level_run s fs = frun (file_entries s) fs.
Proof. reflexivity. Qed.

Lemma first_answer_cong_tail x a b b' t :
  first_answer b t = first_answer b' t ->
  first_answer (x :: a ++ b) t = first_answer (x :: a ++ b') t.
Proof. intros H. cbn [first_answer]. rewrite !first_answer_app, H. reflexivity. Qed.

Lemma version_sources_answer s t :
  shape_ok (l_ver s) (file_entries s) = true ->
  forallb sorted_entries (sources s) = true ->
  first_answer (version_sources s t) t =
  first_answer (map (fun f => file_entries s (fm_num f))
                    (sort_by_num_desc (level_files (l_ver s) O))
                ++ map (level_run s) (tl (l_ver s))) t.
Proof.
  intros Sh So. unfold version_sources, get_overlapping_files.
  pose proof (shape_bounds _ _ Sh) as B.
  assert (SR : forall fs, In fs (tl (l_ver s)) -> sorted_entries (level_run s fs) = true).
  { intros fs Hfs. rewrite forallb_forall in So. apply So. unfold sources.
    right. apply in_or_app. right. apply in_or_app. right. apply in_map. exact Hfs. }
  destruct (l_ver s) as [|l0 rest]; [reflexivity|].
  cbn [tl] in SR. change (level_files (l0 :: rest) 0) with l0. cbn [tl concat].
  rewrite map_app, !first_answer_app.
  rewrite (l0_select_answer (file_entries s)) by (apply B; left; reflexivity).
  rewrite (levels_select_answer (file_entries s)).
  - reflexivity.
  - intros fs Hfs. apply B. right. exact Hfs.
  - exact SR.
Qed.

Lemma all_entries_sources s e :
  In e (all_entries s) <-> In e (concat (sources s)).
Proof.
  unfold all_entries, sources, version_entries. cbn [concat].
  rewrite !concat_app, !in_app_iff.
  assert (I : In e (match l_imm s with Some i => i | None => [] end) <->
              In e (concat (match l_imm s with Some i => [i] | None => [] end))).
  { destruct (l_imm s); cbn [concat]; [rewrite app_nil_r|]; tauto. }
  rewrite <- I. clear I.
  assert (V : In e (flat_map (fun fs => flat_map (fun f => file_entries s (fm_num f)) fs) (l_ver s))
              <-> In e (concat (map (fun f => file_entries s (fm_num f))
                                    (sort_by_num_desc (level_files (l_ver s) 0))))
                  \/ In e (concat (map (level_run s) (tl (l_ver s))))).
  { rewrite <- !flat_map_concat_map. destruct (l_ver s) as [|l0 rest].
    - cbn. tauto.
    - change (level_files (l0 :: rest) 0) with l0. cbn [tl flat_map]. rewrite in_app_iff.
      rewrite !in_flat_map. split.
      + intros [(f & Hf & He)|H]; [left|right; exact H]. exists f. split; [|exact He].
        apply sort_num_in. exact Hf.
      + intros [(f & Hf & He)|H]; [left|right; exact H]. exists f. split; [|exact He].
        apply sort_num_in. exact Hf. }
  rewrite V. tauto.
Qed.

Theorem db_get_correct :
  forall (s : lsm) (k : bytes) (q : N),
    lsm_wf_b s = true ->
    db_get_at s k q = visible (all_entries s) q k.
Proof.
  intros s k q W. apply lsm_wf_b_iff in W.
  destruct W as (_ & _ & Sh & So & Re & _).
  rewrite visible_answer. unfold db_get_at.
  set (t := mkIKey k q OP_PUT).
  change (res_opt (first_answer
            (l_mem s :: match l_imm s with Some i => [i] | None => [] end
                        ++ version_sources s t) t)
          = res_opt (answer_of (newest_le (all_entries s) k q))).
  f_equal.
  rewrite (first_answer_cong_tail _ _ _ _ _ (version_sources_answer s t Sh So)).
  change (first_answer (sources s) t = answer_of (newest_le (all_entries s) k q)).
  apply first_answer_newest; [exact So|exact Re|].
  eapply newest_rel_ext; [apply all_entries_sources|]. apply newest_le_rel.
Qed.

(** * Part 6: writes preserve the invariant *)

Definition wop_entry (o : wop) (n : N) : entry :=
  match o with
  | WPut k v => (mkIKey k n OP_PUT, v)
  | WDel k => (mkIKey k n OP_DELETE, [])
  end.

Definition write1 (s : lsm) (o : wop) : lsm :=
  mkLsm (insert_entry (wop_entry o (l_seq s + 1)) (l_mem s)) (l_imm s) (l_ver s) (l_store s)
        (l_seq s + 1) (l_snaps s) (l_next s) (l_panic s).

Lemma wop_entry_seq o n : ik_seq (fst (wop_entry o n)) = n.
Proof. destruct o; reflexivity. Qed.

Lemma wop_entry_op o n : ik_op (fst (wop_entry o n)) <= 1.
Proof. destruct o; cbn; unfold OP_PUT, OP_DELETE; lia. Qed.

Lemma step_write_nil d d14 m s : lsm_wf_b s = true -> lsm_step d d14 m s (SWrite []) = s.
Proof.
  intros W. apply lsm_wf_b_iff in W. destruct W as (P & _). unfold lsm_step. rewrite P.
  destruct s; cbn [Lsm.l_panic] in P; subst; reflexivity.
Qed.

Lemma step_write_cons d d14 m s o r :
  l_panic s = false ->
  lsm_step d d14 m s (SWrite (o :: r)) = lsm_step d d14 m (write1 s o) (SWrite r).
Proof.
  intros P. unfold lsm_step. change (l_panic (write1 s o)) with (l_panic s). rewrite P.
  destruct o; reflexivity.
Qed.

Lemma insert_entry_in e l x : In x (insert_entry e l) <-> x = e \/ In x l.
Proof.
  induction l as [|y l IH]; cbn [insert_entry].
  - cbn. intuition.
  - destruct (ikey_ltb (fst y) (fst e)); cbn [In]; [rewrite IH|]; intuition.
Qed.

Lemma insert_entry_sorted e l :
  sorted_entries l = true ->
  (forall x, In x l -> ikey_cmp (fst x) (fst e) <> Eq) ->
  sorted_entries (insert_entry e l) = true.
Proof.
  induction l as [|y l IH]; intros S NE; [reflexivity|]. cbn [insert_entry].
  pose proof S as S0. apply sorted_cons_iff in S. destruct S as [Hy S].
  destruct (ikey_ltb (fst y) (fst e)) eqn:L.
  - apply sorted_cons_iff. split.
    + intros x Hx. apply insert_entry_in in Hx. destruct Hx as [->|Hx]; [|auto].
      apply ikey_ltb_iff. exact L.
    + apply IH; [exact S|]. intros x Hx. apply NE. right. exact Hx.
  - apply sorted_cons_iff. split; [|exact S0].
    assert (Ley : ikey_lt (fst e) (fst y)).
    { apply ikey_ltb_false_iff in L. apply ikey_le_iff in L. destruct L as [L|L]; [exact L|].
      exfalso. apply (NE y); [left; reflexivity|]. apply ikey_cmp_eq_sym. exact L. }
    intros x [<-|Hx]; [exact Ley|]. eapply ikey_lt_trans; [exact Ley|auto].
Qed.

Lemma entry_ok_iff n e :
  entry_ok n e = true <-> ik_seq (fst e) <= n /\ 1 <= ik_seq (fst e) /\ ik_op (fst e) <= 1.
Proof. unfold entry_ok. rewrite !andb_true_iff, !N.leb_le. tauto. Qed.

Lemma forallb_imp {A} (p p' : A -> bool) l :
  (forall x, p x = true -> p' x = true) -> forallb p l = true -> forallb p' l = true.
Proof. rewrite !forallb_forall. auto. Qed.

Lemma sources_head s : sources s = l_mem s :: tl (sources s).
Proof. reflexivity. Qed.

Lemma sources_write1 s o :
  sources (write1 s o) = insert_entry (wop_entry o (l_seq s + 1)) (l_mem s) :: tl (sources s).
Proof. reflexivity. Qed.

Lemma sources_seq_bound s :
  forallb (forallb (entry_ok (l_seq s))) (sources s) = true ->
  forall e, In e (concat (sources s)) -> ik_seq (fst e) <= l_seq s.
Proof.
  intros H e He. apply in_concat_iff in He. destruct He as (x & Hx & He).
  rewrite forallb_forall in H. specialize (H x Hx). rewrite forallb_forall in H.
  specialize (H e He). apply entry_ok_iff in H. tauto.
Qed.

Theorem write1_wf s o : lsm_wf_b s = true -> lsm_wf_b (write1 s o) = true.
Proof.
  intros W. apply lsm_wf_b_iff in W. destruct W as (P & Ln & Sh & So & Re & Eo & Fn & Sn).
  pose proof (sources_seq_bound s Eo) as SB.
  apply lsm_wf_b_iff. rewrite sources_write1. rewrite sources_head in So, Re, Eo, SB.
  set (rest := tl (sources s)) in *. set (e := wop_entry o (l_seq s + 1)).
  change (l_seq (write1 s o)) with (l_seq s + 1).
  cbn [forallb recency_ok] in So, Re, Eo |- *.
  apply andb_true_iff in So, Re, Eo. destruct So as [So1 So2], Re as [Re1 Re2], Eo as [Eo1 Eo2].
  assert (Eseq : ik_seq (fst e) = l_seq s + 1) by apply wop_entry_seq.
  split; [exact P|]. split; [exact Ln|]. split; [exact Sh|]. split; [|split; [|split; [|split]]].
  - apply andb_true_iff. split; [|exact So2]. apply insert_entry_sorted; [exact So1|].
    intros x Hx E. apply ikey_cmp_eq_iff in E. destruct E as [_ E].
    assert (ik_seq (fst x) <= l_seq s) by (apply SB; cbn [concat]; apply in_or_app; left; exact Hx).
    lia.
  - apply andb_true_iff. split; [|exact Re2]. apply forallb_forall. intros y Hy.
    apply newer_than_intro. intros a b Ha Hb EU. apply insert_entry_in in Ha.
    destruct Ha as [->|Ha].
    + assert (ik_seq (fst b) <= l_seq s).
      { apply SB. cbn [concat]. apply in_or_app. right. apply in_concat_iff. exists y. auto. }
      lia.
    + rewrite forallb_forall in Re1. eapply newer_than_spec; [apply Re1; exact Hy| | |]; eassumption.
  - apply andb_true_iff.
    assert (Mono : forall x, entry_ok (l_seq s) x = true -> entry_ok (l_seq s + 1) x = true).
    { intros x Hx. apply entry_ok_iff in Hx. apply entry_ok_iff. lia. }
    split.
    + apply forallb_forall. intros x Hx. apply insert_entry_in in Hx. destruct Hx as [->|Hx].
      * apply entry_ok_iff. pose proof (wop_entry_op o (l_seq s + 1)). fold e in H. lia.
      * apply Mono. rewrite forallb_forall in Eo1. auto.
    + eapply forallb_imp; [|exact Eo2]. intros x. apply forallb_imp. exact Mono.
  - exact Fn.
  - eapply forallb_imp; [|exact Sn]. intros x Hx. apply N.leb_le in Hx. apply N.leb_le.
    change (l_seq (write1 s o)) with (l_seq s + 1). lia.
Qed.

Theorem write_wf d d14 m b : forall s, lsm_wf_b s = true -> lsm_wf_b (lsm_step d d14 m s (SWrite b)) = true.
Proof.
  induction b as [|o r IH]; intros s W.
  - rewrite step_write_nil by exact W. exact W.
  - rewrite step_write_cons by (apply lsm_wf_b_iff in W; tauto). apply IH. apply write1_wf. exact W.
Qed.

(** * Part 7: a write batch against the sorted-map specification *)

Lemma uniq_entries_ext es es' :
  (forall e, In e es <-> In e es') -> uniq_entries es -> uniq_entries es'.
Proof. intros HE U e1 e2 H1 H2. apply U; apply HE; assumption. Qed.

Lemma all_entries_uniq s : lsm_wf_b s = true -> uniq_entries (all_entries s).
Proof.
  intros W. apply lsm_wf_b_iff in W. destruct W as (_ & _ & _ & So & Re & _).
  eapply uniq_entries_ext; [|apply sources_uniq; eassumption].
  intros e. symmetry. apply all_entries_sources.
Qed.

Lemma all_entries_seq_bound s e :
  lsm_wf_b s = true -> In e (all_entries s) -> ik_seq (fst e) <= l_seq s.
Proof.
  intros W He. apply lsm_wf_b_iff in W. destruct W as (_ & _ & _ & _ & _ & Eo & _).
  apply sources_seq_bound; [exact Eo|]. apply all_entries_sources. exact He.
Qed.

Lemma all_entries_write1 s o x :
  In x (all_entries (write1 s o)) <-> x = wop_entry o (l_seq s + 1) \/ In x (all_entries s).
Proof.
  change (all_entries (write1 s o))
    with (insert_entry (wop_entry o (l_seq s + 1)) (l_mem s)
          ++ match l_imm s with Some i => i | None => [] end ++ version_entries s).
  unfold all_entries. rewrite !in_app_iff, insert_entry_in. tauto.
Qed.

(** adding an entry younger than everything *)
Lemma visible_add es es1 e q k0 :
  (forall x, In x es -> ik_seq (fst x) <= q) ->
  uniq_entries es ->
  ik_seq (fst e) = q + 1 ->
  (forall x, In x es1 <-> x = e \/ In x es) ->
  visible es1 (q + 1) k0 =
  if bytes_eqb k0 (ik_user (fst e)) then res_opt (answer_of (Some e)) else visible es q k0.
Proof.
  intros SB U Es HI. rewrite !visible_answer.
  pose proof (newest_le_rel es1 k0 (q + 1)) as R1.
  destruct (bytes_eqb k0 (ik_user (fst e))) eqn:EK.
  - apply bytes_eqb_iff in EK.
    assert (Ce : cand k0 (q + 1) e) by (split; [congruence|lia]).
    destruct (newest_le es1 k0 (q + 1)) as [e'|]; cbn [newest_rel] in R1.
    + destruct R1 as (Hin & Hc & Hmax). apply HI in Hin. destruct Hin as [->|Hin]; [reflexivity|].
      exfalso. specialize (SB e' Hin).
      assert (ik_seq (fst e) <= ik_seq (fst e')) by (apply Hmax; [apply HI; left; reflexivity|exact Ce]).
      lia.
    + exfalso. apply (R1 e); [apply HI; left; reflexivity|exact Ce].
  - assert (NK : ik_user (fst e) <> k0).
    { intros E. assert (T : bytes_eqb k0 (ik_user (fst e)) = true) by (apply bytes_eqb_iff; congruence).
      congruence. }
    assert (R : newest_rel es k0 q (newest_le es1 k0 (q + 1))).
    { destruct (newest_le es1 k0 (q + 1)) as [e'|]; cbn [newest_rel] in R1 |- *.
      - destruct R1 as (Hin & Hc & Hmax). apply HI in Hin. destruct Hin as [->|Hin].
        + destruct Hc. contradiction.
        + split; [exact Hin|]. split; [split; [apply Hc|apply SB; exact Hin]|].
          intros x Hx [Cu Cs]. apply Hmax; [apply HI; right; exact Hx|]. split; [exact Cu|lia].
      - intros x Hx [Cu Cs]. apply (R1 x); [apply HI; right; exact Hx|]. split; [exact Cu|lia]. }
    rewrite (newest_rel_unique _ _ _ _ _ U R (newest_le_rel es k0 q)). reflexivity.
Qed.

(** ** sorted association lists *)

Fixpoint map_sorted (m : list kv) : Prop :=
  match m with
  | [] => True
  | p :: r => (forall p', In p' r -> bytes_cmp (fst p) (fst p') = Lt) /\ map_sorted r
  end.

Lemma bytes_eqb_cmp a b : bytes_eqb a b = match bytes_cmp a b with Eq => true | _ => false end.
Proof. reflexivity. Qed.

Lemma bytes_cmp_Gt_Lt a b : bytes_cmp a b = Gt -> bytes_cmp b a = Lt.
Proof. apply bytes_cmp_gt_lt. Qed.

Lemma bytes_cmp_Lt_Gt a b : bytes_cmp a b = Lt -> bytes_cmp b a = Gt.
Proof. apply bytes_cmp_gt_lt. Qed.

(** normalise hypotheses on [bytes_cmp] to [Lt] facts and equalities, then look for a cycle *)
Ltac bnorm :=
  repeat match goal with
  | H : bytes_cmp _ _ = Eq |- _ => apply bytes_cmp_eq in H; subst
  | H : bytes_cmp _ _ = Gt |- _ => apply bytes_cmp_Gt_Lt in H
  end.

Ltac babsurd :=
  bnorm;
  solve [ exfalso;
          match goal with
          | H : bytes_cmp ?a ?a = Lt |- _ => exact (bytes_cmp_lt_irrefl _ H)
          | H1 : bytes_cmp ?a ?b = Lt, H2 : bytes_cmp ?b ?a = Lt |- _ =>
              exact (bytes_cmp_lt_irrefl _ (bytes_cmp_lt_trans _ _ _ H1 H2))
          | H1 : bytes_cmp ?a ?b = Lt, H2 : bytes_cmp ?b ?c = Lt, H3 : bytes_cmp ?c ?a = Lt |- _ =>
              exact (bytes_cmp_lt_irrefl _ (bytes_cmp_lt_trans _ _ _ (bytes_cmp_lt_trans _ _ _ H1 H2) H3))
          end ].

Lemma map_put_in k v m p : In p (map_put k v m) -> p = (k, v) \/ In p m.
Proof.
  induction m as [|[k' v'] r IH]; cbn [map_put].
  - intros [<-|[]]. left. reflexivity.
  - destruct (bytes_cmp k k'); cbn [In].
    + intros [<-|H]; auto.
    + intros [<-|H]; auto.
    + intros [<-|H]; auto. apply IH in H. tauto.
Qed.

Lemma map_del_in k m p : In p (map_del k m) -> In p m.
Proof.
  induction m as [|[k' v'] r IH]; cbn [map_del]; [auto|].
  destruct (bytes_cmp k k'); cbn [In]; auto. intros [<-|H]; auto.
Qed.

Lemma map_put_sorted k v m : map_sorted m -> map_sorted (map_put k v m).
Proof.
  induction m as [|[k' v'] r IH]; cbn [map_put map_sorted].
  - intros _. split; [intros p' []|exact I].
  - intros [H1 H2]. cbn [fst] in H1. destruct (bytes_cmp k k') eqn:C; cbn [map_sorted fst].
    + apply bytes_cmp_eq in C. subst k'. split; assumption.
    + split; [|split; assumption]. intros p' [<-|Hp]; [exact C|].
      eapply bytes_cmp_lt_trans; [exact C|auto].
    + split; [|auto]. intros p' Hp. apply map_put_in in Hp. destruct Hp as [->|Hp]; [|auto].
      cbn [fst]. apply bytes_cmp_Gt_Lt. exact C.
Qed.

Lemma map_del_sorted k m : map_sorted m -> map_sorted (map_del k m).
Proof.
  induction m as [|[k' v'] r IH]; cbn [map_del map_sorted]; [auto|].
  intros [H1 H2]. destruct (bytes_cmp k k') eqn:C; cbn [map_sorted].
  - exact H2.
  - split; assumption.
  - split; [|auto]. intros p' Hp. apply map_del_in in Hp. auto.
Qed.

Lemma map_get_below k m :
  (forall p, In p m -> bytes_cmp k (fst p) = Lt) -> map_get k m = None.
Proof.
  destruct m as [|[k' v'] r]; [reflexivity|]. intros H. cbn [map_get].
  pose proof (H (k', v') (or_introl eq_refl)) as H0. cbn [fst] in H0. rewrite H0. reflexivity.
Qed.

Lemma map_get_put k0 k v m :
  map_get k0 (map_put k v m) = if bytes_eqb k0 k then Some v else map_get k0 m.
Proof.
  induction m as [|[k' v'] r IH]; cbn [map_put].
  - cbn [map_get]. rewrite bytes_eqb_cmp. destruct (bytes_cmp k0 k); reflexivity.
  - rewrite bytes_eqb_cmp in *.
    destruct (bytes_cmp k k') eqn:C; cbn [map_get].
    + apply bytes_cmp_eq in C. subst k'. destruct (bytes_cmp k0 k); reflexivity.
    + destruct (bytes_cmp k0 k) eqn:C0; [reflexivity| |reflexivity].
      rewrite (bytes_cmp_lt_trans _ _ _ C0 C). reflexivity.
    + destruct (bytes_cmp k0 k') eqn:C1.
      * destruct (bytes_cmp k0 k) eqn:C0; try reflexivity. babsurd.
      * destruct (bytes_cmp k0 k) eqn:C0; try reflexivity. babsurd.
      * exact IH.
Qed.

Lemma map_get_del k0 k m :
  map_sorted m ->
  map_get k0 (map_del k m) = if bytes_eqb k0 k then None else map_get k0 m.
Proof.
  induction m as [|[k' v'] r IH]; cbn [map_del map_sorted].
  - intros _. cbn [map_get]. destruct (bytes_eqb k0 k); reflexivity.
  - intros [H1 H2]. cbn [fst] in H1. rewrite bytes_eqb_cmp in *.
    destruct (bytes_cmp k k') eqn:C; cbn [map_get].
    + apply bytes_cmp_eq in C. subst k'.
      destruct (bytes_cmp k0 k) eqn:C0.
      * apply bytes_cmp_eq in C0. subst k0. apply map_get_below. exact H1.
      * apply map_get_below. intros p Hp. eapply bytes_cmp_lt_trans; [exact C0|auto].
      * reflexivity.
    + destruct (bytes_cmp k0 k) eqn:C0; try reflexivity.
      apply bytes_cmp_eq in C0. subst k0. rewrite C. reflexivity.
    + destruct (bytes_cmp k0 k') eqn:C1.
      * destruct (bytes_cmp k0 k) eqn:C0; try reflexivity. babsurd.
      * destruct (bytes_cmp k0 k) eqn:C0; try reflexivity.
      * exact (IH H2).
Qed.

(** ** [contents]: the map whose lookups are [visible] *)

Definition uk_step (acc : list bytes) (e : entry) : list bytes :=
  if existsb (bytes_eqb (ik_user (fst e))) acc then acc else ik_user (fst e) :: acc.

Lemma user_keys_fold_in es : forall acc k,
  In k (fold_left uk_step es acc) <-> In k acc \/ exists e, In e es /\ ik_user (fst e) = k.
Proof.
  induction es as [|e es IH]; intros acc k; cbn [fold_left].
  - split; [auto|]. intros [H|(e & [] & _)]. exact H.
  - rewrite IH. unfold uk_step at 1.
    destruct (existsb (bytes_eqb (ik_user (fst e))) acc) eqn:X.
    + apply existsb_exists in X. destruct X as (x & Hx & E). apply bytes_eqb_iff in E.
      split.
      * intros [H|(e' & He' & E')]; [auto|]. right. exists e'. split; [right; exact He'|exact E'].
      * intros [H|(e' & [<-|He'] & E')]; [auto| |].
        -- left. congruence.
        -- right. exists e'. split; assumption.
    + cbn [In]. split.
      * intros [[H|H]|(e' & He' & E')]; [|auto|].
        -- right. exists e. split; [left; reflexivity|exact H].
        -- right. exists e'. split; [right; exact He'|exact E'].
      * intros [H|(e' & [<-|He'] & E')]; [auto|auto|]. right. exists e'. split; assumption.
Qed.

Lemma user_keys_in es k :
  In k (user_keys es) <-> exists e, In e es /\ ik_user (fst e) = k.
Proof.
  unfold user_keys. change (fold_left _ es []) with (fold_left uk_step es []).
  rewrite user_keys_fold_in. cbn [In]. tauto.
Qed.

Lemma visible_no_user es q k :
  (forall e, In e es -> ik_user (fst e) <> k) -> visible es q k = None.
Proof.
  intros H. rewrite visible_answer. pose proof (newest_le_rel es k q) as R.
  destruct (newest_le es k q) as [e|]; [|reflexivity]. destruct R as (Hin & [Cu _] & _).
  exfalso. eapply H; eassumption.
Qed.

Definition contents_step (es : list entry) (q : N) (m : list kv) (k : bytes) : list kv :=
  match visible es q k with Some v => map_put k v m | None => m end.

Lemma contents_fold es q : forall ks m done,
  map_sorted m ->
  (forall k, (In k done -> map_get k m = visible es q k) /\ (~ In k done -> map_get k m = None)) ->
  map_sorted (fold_left (contents_step es q) ks m) /\
  forall k, ((In k ks \/ In k done) -> map_get k (fold_left (contents_step es q) ks m) = visible es q k)
            /\ (~ (In k ks \/ In k done) -> map_get k (fold_left (contents_step es q) ks m) = None).
Proof.
  induction ks as [|k1 ks IH]; intros m done Sm Inv; cbn [fold_left].
  - split; [exact Sm|]. intros k. destruct (Inv k) as [I1 I2]. split.
    + intros [[]|H]. auto.
    + intros H. apply I2. intros D. apply H. right. exact D.
  - destruct (IH (contents_step es q m k1) (k1 :: done)) as [S' Inv'].
    + unfold contents_step. destruct (visible es q k1); [apply map_put_sorted|]; exact Sm.
    + intros k. unfold contents_step.
      destruct (bytes_eqb k k1) eqn:E.
      * apply bytes_eqb_iff in E. subst k1. split; [|intros H; exfalso; apply H; left; reflexivity].
        intros _. destruct (visible es q k) as [v|] eqn:V.
        -- rewrite map_get_put. rewrite (proj2 (bytes_eqb_iff k k) eq_refl). reflexivity.
        -- destruct (in_dec (list_eq_dec N.eq_dec) k done) as [D|D].
           ++ rewrite (proj1 (Inv k) D). exact V.
           ++ apply (proj2 (Inv k) D).
      * assert (NE : k1 <> k).
        { intros ->. rewrite (proj2 (bytes_eqb_iff k k) eq_refl) in E. discriminate. }
        assert (G : map_get k match visible es q k1 with Some v => map_put k1 v m | None => m end
                    = map_get k m).
        { destruct (visible es q k1); [|reflexivity]. rewrite map_get_put, E. reflexivity. }
        rewrite G. destruct (Inv k) as [I1 I2]. split.
        -- intros [H|H]; [contradiction|auto].
        -- intros H. apply I2. intros D. apply H. right. exact D.
    + split; [exact S'|]. intros k. destruct (Inv' k) as [J1 J2]. split.
      * intros [[->|H]|H]; apply J1; cbn [In]; auto.
      * intros H. apply J2. cbn [In] in H |- *. tauto.
Qed.

Lemma contents_spec es q :
  map_sorted (contents es q) /\ forall k, map_get k (contents es q) = visible es q k.
Proof.
  unfold contents.
  change (fold_left _ (user_keys es) []) with (fold_left (contents_step es q) (user_keys es) []).
  destruct (contents_fold es q (user_keys es) [] []) as [S Inv].
  - exact I.
  - intros k. split; [intros []|reflexivity].
  - split; [exact S|]. intros k. destruct (Inv k) as [I1 I2].
    destruct (in_dec (list_eq_dec N.eq_dec) k (user_keys es)) as [D|D].
    + apply I1. left. exact D.
    + rewrite I2 by (intros [H|[]]; contradiction). symmetry. apply visible_no_user.
      intros e He E. apply D. apply user_keys_in. exists e. split; assumption.
Qed.

(** ** the corollary *)

Definition map_apply1 (m : list kv) (o : wop) : list kv :=
  match o with WPut k v => map_put k v m | WDel k => map_del k m end.

Lemma map_apply_cons m o r : map_apply m (o :: r) = map_apply (map_apply1 m o) r.
Proof. reflexivity. Qed.

Lemma visible_write1 s o k0 :
  lsm_wf_b s = true ->
  visible (all_entries (write1 s o)) (l_seq s + 1) k0 =
  match o with
  | WPut k v => if bytes_eqb k0 k then Some v else visible (all_entries s) (l_seq s) k0
  | WDel k => if bytes_eqb k0 k then None else visible (all_entries s) (l_seq s) k0
  end.
Proof.
  intros W.
  rewrite (visible_add (all_entries s) _ (wop_entry o (l_seq s + 1)) (l_seq s) k0).
  - destruct o; reflexivity.
  - intros x. apply all_entries_seq_bound. exact W.
  - apply all_entries_uniq. exact W.
  - apply wop_entry_seq.
  - apply all_entries_write1.
Qed.

Theorem write_then_get_gen d d14 m b : forall s mp,
  lsm_wf_b s = true ->
  map_sorted mp ->
  (forall k, map_get k mp = visible (all_entries s) (l_seq s) k) ->
  forall k, db_get (lsm_step d d14 m s (SWrite b)) k = map_get k (map_apply mp b).
Proof.
  induction b as [|o r IH]; intros s mp W Sm Hm k.
  - rewrite step_write_nil by exact W. unfold db_get. rewrite db_get_correct by exact W.
    symmetry. apply Hm.
  - rewrite step_write_cons by (apply lsm_wf_b_iff in W; tauto). rewrite map_apply_cons.
    apply IH.
    + apply write1_wf. exact W.
    + destruct o; [apply map_put_sorted|apply map_del_sorted]; exact Sm.
    + intros k0. change (l_seq (write1 s o)) with (l_seq s + 1).
      rewrite visible_write1 by exact W. destruct o as [k1 v1|k1]; cbn [map_apply1].
      * rewrite map_get_put, Hm. reflexivity.
      * rewrite map_get_del by exact Sm. rewrite Hm. reflexivity.
Qed.

Theorem C01_write_then_get_proof d d14 m s b :
  lsm_wf_b s = true ->
  forall k, db_get (lsm_step d d14 m s (SWrite b)) k
            = map_get k (map_apply (contents (all_entries s) (l_seq s)) b).
Proof.
  intros W. destruct (contents_spec (all_entries s) (l_seq s)) as [S G].
  apply write_then_get_gen; assumption.
Qed.

Theorem db_get_contents s :
  lsm_wf_b s = true ->
  forall k, db_get s k = map_get k (contents (all_entries s) (l_seq s)).
Proof.
  intros W k. unfold db_get. rewrite db_get_correct by exact W.
  symmetry. apply contents_spec.
Qed.

(** * Part 8: witnesses *)

(** a well-formed state: memtable, immutable memtable, two overlapping level-0 files (listed
    oldest first in the version), a two-file level 1 where the versions of user key "b" straddle
    the two files, and a level-2 file; a tombstone for "d" in level 0 above a value in level 2 *)
Definition ka : bytes := [97].
Definition kb : bytes := [98].
Definition kc : bytes := [99].
Definition kd : bytes := [100].
Definition ke : bytes := [101].

Definition ex_f10 : list entry := [(mkIKey ka 7 OP_PUT, [1;7]); (mkIKey kd 9 OP_DELETE, [])].
Definition ex_f11 : list entry := [(mkIKey ka 12 OP_PUT, [1;12]); (mkIKey kc 11 OP_PUT, [3;11])].
Definition ex_f5 : list entry := [(mkIKey ka 3 OP_PUT, [1;3]); (mkIKey kb 6 OP_PUT, [2;6])].
Definition ex_f6 : list entry := [(mkIKey kb 4 OP_PUT, [2;4]); (mkIKey kc 5 OP_PUT, [3;5])].
Definition ex_f3 : list entry := [(mkIKey kb 2 OP_PUT, [2;2]); (mkIKey kd 1 OP_PUT, [4;1])].

Definition ex_state : lsm :=
  mkLsm [(mkIKey kc 14 OP_PUT, [3;14])]
        (Some [(mkIKey ka 13 OP_DELETE, [])])
        [ [mkFM 10 100 (mkIKey ka 7 OP_PUT) (mkIKey kd 9 OP_DELETE);
           mkFM 11 100 (mkIKey ka 12 OP_PUT) (mkIKey kc 11 OP_PUT)];
          [mkFM 5 100 (mkIKey ka 3 OP_PUT) (mkIKey kb 6 OP_PUT);
           mkFM 6 100 (mkIKey kb 4 OP_PUT) (mkIKey kc 5 OP_PUT)];
          [mkFM 3 100 (mkIKey kb 2 OP_PUT) (mkIKey kd 1 OP_PUT)];
          []; []; []; [] ]
        [(10, ex_f10); (11, ex_f11); (5, ex_f5); (6, ex_f6); (3, ex_f3)]
        14 [5] 20 false.

(** the same shape, but the level-0 file with the higher number holds the older version *)
Definition bad_state : lsm :=
  mkLsm [] None
        [ [mkFM 10 100 (mkIKey ka 7 OP_PUT) (mkIKey ka 7 OP_PUT);
           mkFM 11 100 (mkIKey ka 2 OP_PUT) (mkIKey ka 2 OP_PUT)];
          []; []; []; []; []; [] ]
        [(10, [(mkIKey ka 7 OP_PUT, [1;7])]); (11, [(mkIKey ka 2 OP_PUT, [1;2])])]
        14 [] 20 false.

Theorem recency_needed :
  exists s k q,
    shape_ok (l_ver s) (file_entries s) = true /\
    forallb sorted_entries (sources s) = true /\
    forallb (forallb (entry_ok (l_seq s))) (sources s) = true /\
    recency_ok (sources s) = false /\
    lsm_wf_b s = false /\
    db_get_at s k q <> visible (all_entries s) q k.
Proof.
  exists bad_state, ka, 14.
  split; [vm_compute; reflexivity|]. split; [vm_compute; reflexivity|].
  split; [vm_compute; reflexivity|]. split; [vm_compute; reflexivity|].
  split; [vm_compute; reflexivity|]. intros H. vm_compute in H. discriminate H.
Qed.

(** a level >= 1 whose files are not in key order (the binary search then looks at the wrong
    file): the shape part of the invariant is needed too *)
Definition bad_state2 : lsm :=
  mkLsm [] None
        [ [];
          [mkFM 6 100 (mkIKey kc 5 OP_PUT) (mkIKey kc 5 OP_PUT);
           mkFM 5 100 (mkIKey ka 3 OP_PUT) (mkIKey ka 3 OP_PUT);
           mkFM 7 100 (mkIKey kd 4 OP_PUT) (mkIKey kd 4 OP_PUT)];
          []; []; []; []; [] ]
        [(5, [(mkIKey ka 3 OP_PUT, [1;3])]); (6, [(mkIKey kc 5 OP_PUT, [3;5])]);
         (7, [(mkIKey kd 4 OP_PUT, [4;4])])]
        14 [] 20 false.

Theorem level_order_needed :
  exists s k q,
    recency_ok (sources s) = true /\
    lsm_wf_b s = false /\
    db_get_at s k q <> visible (all_entries s) q k.
Proof.
  exists bad_state2, kc, 14.
  split; [vm_compute; reflexivity|]. split; [vm_compute; reflexivity|].
  intros H. vm_compute in H. discriminate H.
Qed.

(** * Part 9: model-only restatements of the intermediate results *)

Theorem run_get_visible es k q op :
  sorted_entries es = true ->
  res_opt (get_spec es (mkIKey k q op)) = visible es q k.
Proof.
  intros S. destruct (get_spec_run es k q op S) as (o & Ho & Hg).
  rewrite Hg, visible_answer.
  rewrite (newest_rel_unique _ _ _ _ _ (sorted_uniq _ S) Ho (newest_le_rel es k q)). reflexivity.
Qed.

Theorem run_get_not_found_iff es k q op :
  sorted_entries es = true ->
  (get_spec es (mkIKey k q op) = GNotFound <->
   forall e, In e es -> ~ (ik_user (fst e) = k /\ ik_seq (fst e) <= q)).
Proof.
  intros S. destruct (get_spec_run es k q op S) as (o & Ho & Hg). rewrite Hg.
  destruct o as [e|]; cbn [newest_rel] in Ho.
  - split; [intros H; exfalso; eapply answer_of_some_not_nf; exact H|].
    intros H. exfalso. destruct Ho as (Hin & Hc & _). eapply H; eassumption.
  - split; [intros _; exact Ho|reflexivity].
Qed.

Theorem sources_get_visible srcs k q op :
  forallb sorted_entries srcs = true -> recency_ok srcs = true ->
  res_opt (first_answer srcs (mkIKey k q op)) = visible (concat srcs) q k.
Proof.
  intros S R. rewrite visible_answer. f_equal.
  apply first_answer_newest; [exact S|exact R|apply newest_le_rel].
Qed.

Theorem db_get_current s k :
  lsm_wf_b s = true -> db_get s k = visible (all_entries s) (l_seq s) k.
Proof. intros W. unfold db_get. apply db_get_correct. exact W. Qed.
