(** Correctness of the log writer / reader model ([model/Log.v], [model/LogScript.v]). *)
From Coq Require Import Lia ZArith ZifyN ZifyBool ZifyNat Arith List NArith Bool.
From RainVerif Require Import Params.
From RainVerif.model Require Import Bytes Crc Log LogScript.
From RainVerif.proofs Require Import CrcProofs.
Import ListNotations.
Open Scope N_scope.
Ltac Zify.zify_post_hook ::= Z.div_mod_to_equations.
Arguments N.add : simpl never.
Arguments N.sub : simpl never.
Arguments N.mul : simpl never.
Arguments N.div : simpl never.
Arguments N.modulo : simpl never.
Arguments N.eqb : simpl never.
Arguments N.ltb : simpl never.
Arguments N.leb : simpl never.
Arguments N.min : simpl never.
Arguments N.of_nat : simpl never.
Arguments N.to_nat : simpl never.

(** * Generic facts on byte strings *)

Lemma blen_app a b : blen (a ++ b) = blen a + blen b.
Proof. unfold blen. rewrite app_length. lia. Qed.

Lemma blen_nil : blen [] = 0.
Proof. reflexivity. Qed.

Lemma to_nat_blen a : N.to_nat (blen a) = length a.
Proof. unfold blen. lia. Qed.

Lemma blen_0_nil a : blen a = 0 -> a = [].
Proof. destruct a; [reflexivity|]. unfold blen. cbn [length]. lia. Qed.

Lemma firstn_app_exact {A} (a b : list A) : firstn (length a) (a ++ b) = a.
Proof.
  rewrite firstn_app, Nat.sub_diag, firstn_all. cbn [firstn]. apply app_nil_r.
Qed.

Lemma skipn_app_exact {A} (a b : list A) : skipn (length a) (a ++ b) = b.
Proof.
  rewrite skipn_app, Nat.sub_diag, skipn_all. reflexivity.
Qed.

Lemma takeN_app_exact n a b : blen a = n -> takeN n (a ++ b) = a.
Proof. intros <-. unfold takeN. rewrite to_nat_blen. apply firstn_app_exact. Qed.

Lemma dropN_app_exact n a b : blen a = n -> dropN n (a ++ b) = b.
Proof. intros <-. unfold dropN. rewrite to_nat_blen. apply skipn_app_exact. Qed.

Lemma length_zeros n : length (zeros n) = n.
Proof. induction n; cbn [zeros length]; congruence. Qed.

Lemma blen_zeros n : blen (zeros (N.to_nat n)) = n.
Proof. unfold blen. rewrite length_zeros. lia. Qed.

Lemma le2 v : v < 65536 -> le_decode (le_encode 2 v) = v.
Proof. intros Hv. cbn [le_encode le_decode]. lia. Qed.

Lemma le4 v : v < two32 -> le_decode (le_encode 4 v) = v.
Proof. unfold two32. intros Hv. cbn [le_encode le_decode]. lia. Qed.

Lemma app_split_le {A} (a b c d : list A) :
  a ++ b = c ++ d -> (length a <= length c)%nat -> exists x, c = a ++ x /\ b = x ++ d.
Proof.
  revert c. induction a as [|x a IH]; intros c E L.
  - exists c. split; [reflexivity|exact E].
  - destruct c as [|y c]; cbn [length] in L; [lia|].
    cbn [app] in E. injection E as -> E.
    destruct (IH c E) as [z [-> ->]]; [lia|].
    exists z. split; reflexivity.
Qed.

Section LOGTHM.
Variable B H : N.
Variable crc : bytes -> N.
Hypothesis H_is_7 : H = 7.
Hypothesis B_big : H < B.
Hypothesis B_small : B - H < 65536.
Hypothesis crc_bound : forall d, crc d < two32.

Lemma B_nz : B <> 0.
Proof. lia. Qed.

(** * Fragments: header decoding *)

Definition hdr (t : N) (d : bytes) : bytes :=
  le_encode 4 (mask_checksum (crc d)) ++ le_encode 2 (blen d) ++ [t].

Lemma frag_split t d : fragment crc t d = hdr t d ++ d.
Proof. unfold fragment, hdr. rewrite <- !app_assoc. reflexivity. Qed.

Lemma blen_hdr t d : blen (hdr t d) = H.
Proof. rewrite H_is_7. reflexivity. Qed.

Lemma blen_fragment t d : blen (fragment crc t d) = H + blen d.
Proof. rewrite frag_split, blen_app, blen_hdr. reflexivity. Qed.

Lemma hdr_dlen t d : blen d < 65536 -> le_decode (firstn 2 (skipn 4 (hdr t d))) = blen d.
Proof. intros Hd. unfold hdr. cbn [le_encode app skipn firstn]. apply (le2 _ Hd). Qed.

Lemma hdr_type t d : nth 6 (hdr t d) 0 = t.
Proof. reflexivity. Qed.

Lemma hdr_crc t d : le_decode (firstn 4 (hdr t d)) = mask_checksum (crc d).
Proof.
  unfold hdr. cbn [le_encode app firstn]. apply (le4 _ (mask_bound _)).
Qed.

(** [read_header_and_payload] on a complete fragment *)
Lemma rhp_frag b pos flen t d tail :
  t <= 3 -> blen d < 65536 ->
  read_header_and_payload B H crc (mkReader (fragment crc t d ++ tail) b pos flen)
  = PRec t d (mkReader tail ((b + H + blen d) mod B) (pos + H + blen d) flen).
Proof.
  intros Ht Hd. unfold read_header_and_payload. cbn [r_rest r_boff r_cpos r_flen].
  rewrite frag_split, <- app_assoc.
  rewrite (takeN_app_exact H (hdr t d)) by apply blen_hdr.
  rewrite (dropN_app_exact H (hdr t d)) by apply blen_hdr.
  rewrite hdr_dlen by assumption. rewrite hdr_type, hdr_crc.
  rewrite (takeN_app_exact (blen d) d) by reflexivity.
  rewrite (dropN_app_exact (blen d) d) by reflexivity.
  rewrite unmask_mask by apply crc_bound.
  rewrite !blen_app, blen_hdr, N.eqb_refl.
  destruct (H + (blen d + blen tail) <? H) eqn:E1; [lia|].
  destruct (blen d + blen tail <? blen d) eqn:E2; [lia|].
  destruct (3 <? t) eqn:E3; [lia|].
  reflexivity.
Qed.

(** [read_header_and_payload] on a proper prefix of a fragment: end of file *)
Lemma rhp_short b pos flen t d junk s :
  blen d < 65536 -> fragment crc t d = junk ++ s -> s <> [] ->
  read_header_and_payload B H crc (mkReader junk b pos flen) = PEof.
Proof.
  intros Hd E Hs. unfold read_header_and_payload. cbn [r_rest r_boff r_cpos r_flen].
  destruct (blen junk <? H) eqn:E1; [reflexivity|].
  rewrite frag_split in E.
  destruct (app_split_le (hdr t d) d junk s E) as [x [-> Ed]].
  { pose proof (blen_hdr t d) as Hh. unfold blen in *. lia. }
  rewrite (takeN_app_exact H (hdr t d)) by apply blen_hdr.
  rewrite (dropN_app_exact H (hdr t d)) by apply blen_hdr.
  rewrite hdr_dlen by assumption.
  subst d. rewrite blen_app.
  destruct s as [|s0 s]; [congruence|].
  destruct (blen x <? blen x + blen (s0 :: s)) eqn:E2; [reflexivity|].
  unfold blen in E2. cbn [length] in E2. lia.
Qed.


(** * Physical layout: padded fragments *)

Inductive item := It (n t : N) (d : bytes).

Definition item_bytes (it : item) : bytes :=
  match it with It n t d => zeros (N.to_nat n) ++ fragment crc t d end.

Definition isize (it : item) : N :=
  match it with It n t d => n + H + blen d end.

Fixpoint bytes_of (its : list item) : bytes :=
  match its with [] => [] | it :: r => item_bytes it ++ bytes_of r end.

Fixpoint size (its : list item) : N :=
  match its with [] => 0 | it :: r => isize it + size r end.

Definition item_ok (pos : N) (it : item) : Prop :=
  match it with
  | It n t d =>
      t <= 3 /\
      ((n = 0 /\ pos mod B + H + blen d <= B) \/
       (0 < n /\ n < H /\ pos mod B + n = B /\ H + blen d <= B))
  end.

Fixpoint layout_ok (pos : N) (its : list item) : Prop :=
  match its with
  | [] => True
  | it :: r => item_ok pos it /\ layout_ok (pos + isize it) r
  end.

Lemma blen_item_bytes it : blen (item_bytes it) = isize it.
Proof.
  destruct it as [n t d]. cbn [item_bytes isize].
  rewrite blen_app, blen_zeros, blen_fragment. lia.
Qed.

Lemma blen_bytes_of its : blen (bytes_of its) = size its.
Proof.
  induction its as [|it r IH]; cbn [bytes_of size]; [reflexivity|].
  rewrite blen_app, blen_item_bytes, IH. reflexivity.
Qed.

Lemma bytes_of_app x y : bytes_of (x ++ y) = bytes_of x ++ bytes_of y.
Proof.
  induction x as [|it r IH]; cbn [bytes_of app]; [reflexivity|].
  rewrite IH, app_assoc. reflexivity.
Qed.

Lemma size_app x y : size (x ++ y) = size x + size y.
Proof.
  induction x as [|it r IH]; cbn [size app]; [reflexivity|]. rewrite IH. lia.
Qed.

Lemma layout_ok_app pos x y :
  layout_ok pos (x ++ y) <-> layout_ok pos x /\ layout_ok (pos + size x) y.
Proof.
  revert pos. induction x as [|it r IH]; intros pos; cbn [layout_ok app size].
  - rewrite N.add_0_r. tauto.
  - rewrite IH. replace (pos + isize it + size r) with (pos + (isize it + size r)) by lia. tauto.
Qed.

Lemma isize_pos it : 0 < isize it.
Proof. destruct it as [n t d]. cbn [isize]. lia. Qed.

Lemma size_length its : N.of_nat (length its) <= size its.
Proof.
  induction its as [|it r IH]; cbn [size length]; [lia|].
  pose proof (isize_pos it). lia.
Qed.

Lemma item_ok_dlen pos n t d : item_ok pos (It n t d) -> blen d < 65536.
Proof. cbn [item_ok]. lia. Qed.

(** * Reader states and [read_physical] *)

Definition rd (pos : N) (rest : bytes) : reader :=
  mkReader rest (pos mod B) pos (pos + blen rest).

Lemma mod_lt pos : pos mod B < B.
Proof. apply N.mod_upper_bound. apply B_nz. Qed.

Lemma mod_add_l pos x : (pos mod B + x) mod B = (pos + x) mod B.
Proof. apply N.add_mod_idemp_l. apply B_nz. Qed.

Lemma mod_pad pos n x : pos mod B + n = B -> (pos + (n + x)) mod B = x mod B.
Proof.
  intros E. rewrite N.add_assoc. rewrite <- mod_add_l. rewrite <- (mod_add_l pos n), E.
  rewrite N.mod_same by apply B_nz. reflexivity.
Qed.

Lemma rp_item pos n t d tail :
  item_ok pos (It n t d) ->
  read_physical B H crc (rd pos (item_bytes (It n t d) ++ tail))
  = PRec t d (rd (pos + isize (It n t d)) tail).
Proof.
  intros Hok. pose proof (item_ok_dlen _ _ _ _ Hok) as Hd.
  destruct Hok as [Ht Hok]. pose proof (mod_lt pos) as Hm.
  unfold read_physical, rd. cbn [r_rest r_boff r_cpos r_flen item_bytes isize].
  destruct (B <? pos mod B) eqn:E0; [lia|].
  destruct Hok as [[-> Hfit]|[Hn0 [HnH [Hpad Hfit]]]].
  - destruct (B - pos mod B <? H) eqn:E1; [lia|].
    change (zeros (N.to_nat 0)) with (@nil N). cbn [app].
    rewrite rhp_frag by assumption. f_equal. f_equal.
    + rewrite <- N.add_assoc, mod_add_l. f_equal; lia.
    + lia.
    + rewrite blen_app, blen_fragment. lia.
  - destruct (B - pos mod B <? H) eqn:E1; [|lia].
    replace (B - pos mod B) with n by lia.
    destruct (n =? 0) eqn:E2; [lia|].
    rewrite <- app_assoc.
    rewrite (dropN_app_exact n) by apply blen_zeros.
    rewrite !blen_app, blen_zeros.
    destruct (n + (blen (fragment crc t d) + blen tail) <? n) eqn:E3; [lia|].
    rewrite rhp_frag by assumption. f_equal. f_equal.
    + replace (pos + (n + H + blen d)) with (pos + (n + (H + blen d))) by lia.
      rewrite (mod_pad pos n (H + blen d)) by assumption. f_equal; lia.
    + lia.
    + rewrite blen_fragment. lia.
Qed.

Definition eof_at (pos : N) (junk : bytes) : Prop :=
  read_physical B H crc (rd pos junk) = PEof.

Lemma eof_nil pos : eof_at pos [].
Proof.
  unfold eof_at, read_physical, rd. cbn [r_rest r_boff r_cpos r_flen].
  pose proof (mod_lt pos) as Hm. rewrite blen_nil.
  destruct (B <? pos mod B) eqn:E0; [lia|].
  unfold read_header_and_payload. cbn [r_rest r_boff r_cpos r_flen]. rewrite blen_nil.
  destruct (B - pos mod B <? H) eqn:E1.
  - destruct (B - pos mod B =? 0) eqn:E2; [lia|].
    destruct (0 <? B - pos mod B) eqn:E3; [reflexivity|lia].
  - destruct (0 <? H) eqn:E3; [reflexivity|lia].
Qed.

Lemma eof_prefix pos it junk s :
  item_ok pos it -> item_bytes it = junk ++ s -> s <> [] -> eof_at pos junk.
Proof.
  destruct it as [n t d]. intros Hok E Hs.
  pose proof (item_ok_dlen _ _ _ _ Hok) as Hd.
  destruct Hok as [Ht Hok]. pose proof (mod_lt pos) as Hm.
  unfold eof_at, read_physical, rd. cbn [r_rest r_boff r_cpos r_flen].
  cbn [item_bytes] in E.
  destruct (B <? pos mod B) eqn:E0; [lia|].
  destruct Hok as [[-> Hfit]|[Hn0 [HnH [Hpad Hfit]]]].
  - destruct (B - pos mod B <? H) eqn:E1; [lia|].
    change (zeros (N.to_nat 0)) with (@nil N) in E. cbn [app] in E.
    apply (rhp_short _ _ _ t d junk s); assumption.
  - destruct (B - pos mod B <? H) eqn:E1; [|lia].
    replace (B - pos mod B) with n by lia.
    destruct (n =? 0) eqn:E2; [lia|].
    destruct (blen junk <? n) eqn:E3; [reflexivity|].
    destruct (app_split_le (zeros (N.to_nat n)) (fragment crc t d) junk s E) as [x [-> Ex]].
    { rewrite length_zeros. unfold blen in E3. lia. }
    rewrite (dropN_app_exact n) by apply blen_zeros.
    apply (rhp_short _ _ _ t d x s); assumption.
Qed.

(** * The fragment sequencing automaton of the fixed reader *)

Definition fstep (i : bool) (b : bytes) (t : N) (d : bytes) : option bytes * bool * bytes :=
  if t =? 0 then (Some d, false, [])
  else if t =? 1 then (None, true, d)
  else if t =? 2 then (if i then (None, true, b ++ d) else (None, false, []))
  else (if i then (Some (b ++ d), false, []) else (None, false, [])).

(** all records (with the offset of their end) assembled from a fragment sequence *)
Fixpoint asm (pos : N) (i : bool) (b : bytes) (its : list item) : list (bytes * N) :=
  match its with
  | [] => []
  | it :: r =>
      match it with It n t d =>
        match fstep i b t d with
        | (Some x, i', b') => (x, pos + isize it) :: asm (pos + isize it) i' b' r
        | (None, i', b') => asm (pos + isize it) i' b' r
        end
      end
  end.

(** the first record, its end offset and the remaining fragments *)
Fixpoint next (pos : N) (i : bool) (b : bytes) (its : list item)
  : option (bytes * N * list item) :=
  match its with
  | [] => None
  | it :: r =>
      match it with It n t d =>
        match fstep i b t d with
        | (Some x, i', b') => Some (x, pos + isize it, r)
        | (None, i', b') => next (pos + isize it) i' b' r
        end
      end
  end.

(** sequencing state after a fragment sequence *)
Fixpoint fin (i : bool) (b : bytes) (its : list item) : bool * bytes :=
  match its with
  | [] => (i, b)
  | It n t d :: r =>
      match fstep i b t d with
      | (_, i', b') => fin i' b' r
      end
  end.

Lemma asm_next pos i b its :
  asm pos i b its =
  match next pos i b its with
  | None => []
  | Some (d, e, r) => (d, e) :: asm e false [] r
  end.
Proof.
  revert pos i b. induction its as [|[n t d] r IH]; intros pos i b; cbn [asm next]; [reflexivity|].
  unfold fstep.
  destruct (t =? 0); [reflexivity|].
  destruct (t =? 1); [apply IH|].
  destruct (t =? 2); destruct i; try apply IH. reflexivity.
Qed.

Lemma next_props its : forall pos i b d e r,
  layout_ok pos its -> next pos i b its = Some (d, e, r) ->
  layout_ok e r /\ (length r < length its)%nat /\ e + size r = pos + size its.
Proof.
  induction its as [|[n t x] its IH]; intros pos i b d e r Hl Hn; cbn [next] in Hn; [discriminate|].
  cbn [layout_ok] in Hl. destruct Hl as [_ Hl]. cbn [length size].
  destruct (fstep i b t x) as [[[y|] i'] b'].
  - injection Hn as <- <- <-. split; [assumption|]. cbn [isize]. split; lia.
  - destruct (IH _ _ _ _ _ _ Hl Hn) as [H1 [H2 H3]]. split; [assumption|]. split; lia.
Qed.

Lemma asm_app x : forall pos i b y,
  asm pos i b (x ++ y) =
  asm pos i b x ++ asm (pos + size x) (fst (fin i b x)) (snd (fin i b x)) y.
Proof.
  induction x as [|[n t d] x IH]; intros pos i b y; cbn [asm fin app size fst snd].
  - rewrite N.add_0_r. reflexivity.
  - destruct (fstep i b t d) as [[[z|] i'] b']; rewrite IH;
      rewrite (N.add_assoc pos); reflexivity.
Qed.

Lemma asm_le its : forall pos i b d e, In (d, e) (asm pos i b its) -> e <= pos + size its.
Proof.
  induction its as [|[n t x] its IH]; intros pos i b d e Hin; cbn [asm size] in *; [contradiction|].
  pose proof (isize_pos (It n t x)) as Hp.
  destruct (fstep i b t x) as [[[z|] i'] b'].
  - destruct Hin as [Hin|Hin].
    + injection Hin as <- <-. cbn [isize] in *. lia.
    + apply IH in Hin. lia.
  - apply IH in Hin. lia.
Qed.

Lemma asm_ge0 its : forall pos i b d e, In (d, e) (asm pos i b its) -> pos <= e.
Proof.
  induction its as [|[n t x] its IH]; intros pos i b d e Hin; cbn [asm] in *; [contradiction|].
  destruct (fstep i b t x) as [[[z|] i'] b'].
  - destruct Hin as [Hin|Hin].
    + injection Hin as <- <-. cbn [isize] in *. lia.
    + apply IH in Hin. lia.
  - apply IH in Hin. lia.
Qed.

Lemma asm_ge it its pos i b d e : In (d, e) (asm pos i b (it :: its)) -> pos + isize it <= e.
Proof.
  destruct it as [n t x]. cbn [asm]. intros Hin.
  destruct (fstep i b t x) as [[[z|] i'] b'].
  - destruct Hin as [Hin|Hin].
    + injection Hin as <- <-. cbn [isize] in *. lia.
    + apply asm_ge0 in Hin. assumption.
  - apply asm_ge0 in Hin. assumption.
Qed.

(** * The reader on a well laid out file *)

Lemma rrl_correct its : forall fuel pos buf infrag junk,
  layout_ok pos its -> eof_at (pos + size its) junk -> (length its < fuel)%nat ->
  read_record_loop B H crc true fuel (rd pos (bytes_of its ++ junk)) buf infrag =
  match next pos infrag buf its with
  | None => REof
  | Some (d, e, r) => RRec d (rd e (bytes_of r ++ junk))
  end.
Proof.
  induction its as [|[n t d] its IH]; intros fuel pos buf infrag junk Hl He Hf;
    (destruct fuel as [|fuel]; [cbn [length] in Hf; lia|]).
  - cbn [size] in He. rewrite N.add_0_r in He. cbn [bytes_of app next read_record_loop].
    unfold eof_at in He. rewrite He. reflexivity.
  - cbn [layout_ok] in Hl. destruct Hl as [Hok Hl].
    cbn [size] in He. rewrite N.add_assoc in He. cbn [length] in Hf.
    cbn [bytes_of next read_record_loop]. rewrite <- app_assoc, rp_item by assumption.
    cbn [negb]. unfold fstep, T_FULL, T_FIRST, T_MIDDLE, T_LAST.
    assert (Hf' : (length its < fuel)%nat) by lia.
    destruct (t =? 0); [reflexivity|].
    destruct (t =? 1); [apply IH; assumption|].
    destruct (t =? 2); destruct infrag; try (apply IH; assumption). reflexivity.
Qed.

Lemma bytes_of_nil its : bytes_of its = [] -> its = [].
Proof.
  destruct its as [|it r]; [reflexivity|]. intros E.
  apply (f_equal blen) in E. rewrite blen_bytes_of, blen_nil in E. cbn [size] in E.
  pose proof (isize_pos it). lia.
Qed.

Lemma ral_correct : forall fuel its pos junk,
  layout_ok pos its -> eof_at (pos + size its) junk -> (length its < fuel)%nat ->
  read_all_loop B H crc true fuel (rd pos (bytes_of its ++ junk))
  = (map fst (asm pos false [] its), false).
Proof.
  induction fuel as [|fuel IH]; intros its pos junk Hl He Hf; [lia|].
  cbn [read_all_loop]. unfold read_record.
  destruct ((0 <? r_cpos (rd pos (bytes_of its ++ junk))) &&
            (r_flen (rd pos (bytes_of its ++ junk)) <=? r_cpos (rd pos (bytes_of its ++ junk))))
    eqn:E.
  - cbn [rd r_cpos r_flen] in E.
    assert (E' : blen (bytes_of its ++ junk) = 0) by lia.
    apply blen_0_nil in E'. apply app_eq_nil in E'. destruct E' as [E' _].
    apply bytes_of_nil in E'. subst its. reflexivity.
  - clear E. rewrite rrl_correct; try assumption.
    2:{ cbn [rd r_rest]. rewrite app_length.
        pose proof (size_length its) as Hs. rewrite <- blen_bytes_of in Hs. unfold blen in Hs. lia. }
    rewrite asm_next.
    destruct (next pos false [] its) as [[[d e] r]|] eqn:En; [|reflexivity].
    destruct (next_props _ _ _ _ _ _ _ Hl En) as [Hl' [Hlen Hsz]].
    rewrite IH; [reflexivity|assumption| |lia].
    rewrite Hsz. assumption.
Qed.

Lemma reader_open_rd file : reader_open file = rd 0 file.
Proof.
  unfold reader_open, rd. rewrite N.mod_0_l by apply B_nz. rewrite N.add_0_l. reflexivity.
Qed.

Theorem read_all_layout its junk :
  layout_ok 0 its -> eof_at (size its) junk ->
  read_all B H crc true (bytes_of its ++ junk) = (map fst (asm 0 false [] its), false).
Proof.
  intros Hl He. unfold read_all. rewrite reader_open_rd. apply ral_correct.
  - assumption.
  - rewrite N.add_0_l. assumption.
  - rewrite app_length.
    pose proof (size_length its) as Hs. rewrite <- blen_bytes_of in Hs. unfold blen in Hs. lia.
Qed.


(** * The writer at the level of items *)

Definition padn (boff : N) : N := if B - boff <? H then B - boff else 0.

Definition w_n (boff : N) (data : bytes) : N :=
  N.min (blen data) (B - boff_after_pad B H boff - H).

Definition w_item (boff : N) (data : bytes) (first : bool) : item :=
  It (padn boff) (frag_type first (blen data =? w_n boff data)) (takeN (w_n boff data) data).

Definition w_boff2 (boff : N) (data : bytes) : N :=
  boff_after_pad B H boff + H + w_n boff data.

Fixpoint append_items (fuel : nat) (boff : N) (data : bytes) (first : bool) : list item :=
  match fuel with
  | O => []
  | S f =>
      match dropN (w_n boff data) data with
      | [] => [w_item boff data first]
      | _ :: _ =>
          w_item boff data first
          :: append_items f (w_boff2 boff data) (dropN (w_n boff data) data) false
      end
  end.

Fixpoint append_end (fuel : nat) (boff : N) (data : bytes) : N :=
  match fuel with
  | O => boff
  | S f =>
      match dropN (w_n boff data) data with
      | [] => w_boff2 boff data
      | _ :: _ => append_end f (w_boff2 boff data) (dropN (w_n boff data) data)
      end
  end.

(** does the writer finish the record within [fuel] fragments? *)
Fixpoint completes (fuel : nat) (boff : N) (data : bytes) : bool :=
  match fuel with
  | O => false
  | S f =>
      match dropN (w_n boff data) data with
      | [] => true
      | _ :: _ => completes f (w_boff2 boff data) (dropN (w_n boff data) data)
      end
  end.

Lemma pad_of_padn boff : pad_of B H boff = zeros (N.to_nat (padn boff)).
Proof. unfold pad_of, padn. destruct (B - boff <? H); reflexivity. Qed.

Lemma append_loop_items : forall fuel boff data first,
  append_loop B H crc fuel boff data first
  = (bytes_of (append_items fuel boff data first), append_end fuel boff data).
Proof.
  induction fuel as [|fuel IH]; intros boff data first; [reflexivity|].
  cbn [append_loop append_items append_end].
  fold (w_n boff data). fold (w_boff2 boff data). rewrite IH. cbn [fst snd].
  destruct (dropN (w_n boff data) data) as [|x l] eqn:E.
  - cbn [bytes_of w_item item_bytes]. unfold w_item. cbn [item_bytes].
    rewrite app_nil_r, pad_of_padn. reflexivity.
  - cbn [bytes_of]. unfold w_item. cbn [item_bytes]. rewrite pad_of_padn. reflexivity.
Qed.

Definition wst (pos boff : N) : Prop := boff <= B /\ boff mod B = pos mod B.

Lemma wst_cases pos boff :
  wst pos boff -> (boff = B /\ pos mod B = 0) \/ (boff < B /\ pos mod B = boff).
Proof.
  intros [Hle Hm]. destruct (N.eq_dec boff B) as [->|Hne].
  - left. rewrite N.mod_same in Hm by apply B_nz. auto.
  - right. rewrite N.mod_small in Hm by lia. split; [lia|auto].
Qed.

Lemma wst_open len : wst len (open_boff B len).
Proof.
  unfold wst, open_boff. pose proof (mod_lt len). split; [lia|]. apply N.mod_mod, B_nz.
Qed.

Lemma frag_type_le first last : frag_type first last <= 3.
Proof. destruct first, last; unfold frag_type, T_FULL, T_FIRST, T_MIDDLE, T_LAST; cbn [andb]; lia. Qed.

Lemma blen_takeN n l : n <= blen l -> blen (takeN n l) = n.
Proof.
  unfold blen, takeN. intros Hn. rewrite firstn_length_le by lia. lia.
Qed.

Lemma w_n_le boff data : w_n boff data <= blen data.
Proof. unfold w_n. lia. Qed.

Lemma w_step_ok pos boff data first :
  wst pos boff ->
  item_ok pos (w_item boff data first) /\
  wst (pos + isize (w_item boff data first)) (w_boff2 boff data).
Proof.
  intros Hw. pose proof (wst_cases _ _ Hw) as Hc. destruct Hw as [Hle Hm].
  pose proof (w_n_le boff data) as Hn.
  unfold w_item, w_boff2, wst. cbn [item_ok isize].
  rewrite (blen_takeN _ _ Hn).
  pose proof (frag_type_le first (blen data =? w_n boff data)) as Ht.
  set (ty := frag_type first (blen data =? w_n boff data)) in *. clearbody ty.
  revert Hn. unfold w_n, padn, boff_after_pad.
  set (sz := blen data). clearbody sz.
  destruct (B - boff <? H) eqn:E; intros Hn.
  - destruct Hc as [[-> Hp]|[Hlt Hp]].
    + replace (B - B) with 0 by lia. rewrite Hp.
      split; [split; [assumption|left; lia]|].
      split; [lia|].
      rewrite <- (mod_add_l pos), Hp. f_equal.
    + split; [split; [assumption|right; lia]|].
      split; [lia|].
      replace (B - boff + H + N.min sz (B - 0 - H))
        with (B - boff + (H + N.min sz (B - 0 - H))) by lia.
      rewrite mod_pad by lia. f_equal.
  - destruct Hc as [[Hb Hp]|[Hlt Hp]]; [exfalso; clear - Hb E H_is_7; lia|].
    split; [split; [assumption|left; lia]|].
    split; [lia|].
    rewrite <- (mod_add_l pos), Hp. f_equal. lia.
Qed.

Lemma append_items_layout : forall fuel boff data first pos,
  wst pos boff ->
  layout_ok pos (append_items fuel boff data first) /\
  wst (pos + size (append_items fuel boff data first)) (append_end fuel boff data).
Proof.
  induction fuel as [|fuel IH]; intros boff data first pos Hw.
  - cbn [append_items append_end layout_ok size]. rewrite N.add_0_r. auto.
  - cbn [append_items append_end].
    destruct (w_step_ok pos boff data first Hw) as [Hok Hw'].
    destruct (dropN (w_n boff data) data) as [|x l] eqn:E.
    + cbn [layout_ok size]. rewrite N.add_0_r. auto.
    + rewrite <- E. cbn [layout_ok size].
      destruct (IH (w_boff2 boff data) (dropN (w_n boff data) data) false _ Hw') as [Hl Hw2].
      rewrite N.add_assoc. auto.
Qed.

(** ** Fragment types emitted by the writer *)

Lemma drop_nil boff data :
  dropN (w_n boff data) data = [] -> w_n boff data = blen data.
Proof.
  intros E. pose proof (w_n_le boff data) as Hn.
  apply (f_equal (@length N)) in E. unfold dropN in E. rewrite skipn_length in E.
  cbn [length] in E. unfold blen in *. lia.
Qed.

Lemma drop_cons boff data x l :
  dropN (w_n boff data) data = x :: l -> w_n boff data < blen data.
Proof.
  intros E. apply (f_equal (@length N)) in E. unfold dropN in E. rewrite skipn_length in E.
  cbn [length] in E. unfold blen in *. lia.
Qed.

Lemma takeN_all data : takeN (blen data) data = data.
Proof. unfold takeN. rewrite to_nat_blen. apply firstn_all. Qed.

Lemma take_drop n data : takeN n data ++ dropN n data = data.
Proof. apply firstn_skipn. Qed.

Lemma fstep_full i b d : fstep i b (frag_type true true) d = (Some d, false, []).
Proof. reflexivity. Qed.
Lemma fstep_last b d : fstep true b (frag_type false true) d = (Some (b ++ d), false, []).
Proof. reflexivity. Qed.
Lemma fstep_first i b d : fstep i b (frag_type true false) d = (None, true, d).
Proof. reflexivity. Qed.
Lemma fstep_middle b d : fstep true b (frag_type false false) d = (None, true, b ++ d).
Proof. reflexivity. Qed.

Lemma asm_complete : forall fuel boff data first pos i b,
  completes fuel boff data = true -> (first = false -> i = true) ->
  asm pos i b (append_items fuel boff data first)
  = [((if first then [] else b) ++ data, pos + size (append_items fuel boff data first))].
Proof.
  induction fuel as [|fuel IH]; intros boff data first pos i b Hc Hi; cbn [completes] in Hc;
    [discriminate|].
  cbn [append_items].
  destruct (dropN (w_n boff data) data) as [|x l] eqn:E.
  - pose proof (drop_nil _ _ E) as En. unfold w_item. rewrite En, N.eqb_refl, takeN_all.
    cbn [asm size]. rewrite N.add_0_r.
    destruct first.
    + rewrite fstep_full. reflexivity.
    + rewrite (Hi eq_refl), fstep_last. reflexivity.
  - pose proof (drop_cons _ _ _ _ E) as En. rewrite <- E in *. clear E.
    unfold w_item at 1. cbn [asm size].
    destruct (blen data =? w_n boff data) eqn:E2; [lia|].
    rewrite N.add_assoc.
    destruct first.
    + rewrite fstep_first. rewrite IH by auto. cbn [app].
      unfold w_item. rewrite E2. rewrite take_drop. reflexivity.
    + rewrite (Hi eq_refl), fstep_middle. rewrite IH by auto.
      unfold w_item. rewrite E2. rewrite <- app_assoc, take_drop. reflexivity.
Qed.

Lemma asm_incomplete : forall fuel boff data first pos i b,
  completes fuel boff data = false -> (first = false -> i = true) ->
  asm pos i b (append_items fuel boff data first) = [].
Proof.
  induction fuel as [|fuel IH]; intros boff data first pos i b Hc Hi; cbn [completes] in Hc;
    [reflexivity|].
  cbn [append_items].
  destruct (dropN (w_n boff data) data) as [|x l] eqn:E; [discriminate|].
  pose proof (drop_cons _ _ _ _ E) as En. rewrite <- E in *. clear E.
  unfold w_item at 1. cbn [asm].
  destruct (blen data =? w_n boff data) eqn:E2; [lia|].
  destruct first.
  - rewrite fstep_first. apply IH; auto.
  - rewrite (Hi eq_refl), fstep_middle. apply IH; auto.
Qed.

Lemma completes_same : forall k F boff data first,
  completes k boff data = true -> completes F boff data = true ->
  append_items k boff data first = append_items F boff data first.
Proof.
  induction k as [|k IH]; intros F boff data first Hk HF; cbn [completes] in Hk; [discriminate|].
  destruct F as [|F]; cbn [completes] in HF; [discriminate|].
  cbn [append_items].
  destruct (dropN (w_n boff data) data) as [|x l] eqn:E; [reflexivity|].
  f_equal. apply IH; assumption.
Qed.

Lemma incomplete_size : forall k F boff data first,
  completes k boff data = false -> completes F boff data = true ->
  size (append_items k boff data first) < size (append_items F boff data first).
Proof.
  induction k as [|k IH]; intros F boff data first Hk HF;
    (destruct F as [|F]; cbn [completes] in HF; [discriminate|]).
  - cbn [append_items size].
    pose proof (isize_pos (w_item boff data first)) as Hp.
    destruct (dropN (w_n boff data) data) as [|x l]; cbn [size]; lia.
  - cbn [completes] in Hk. cbn [append_items].
    destruct (dropN (w_n boff data) data) as [|x l] eqn:E; [discriminate|].
    cbn [size]. specialize (IH F _ _ false Hk HF). lia.
Qed.

Definition space (boff : N) : N := B - boff_after_pad B H boff - H.

Lemma completes_enough : forall fuel boff data,
  (2 * length data + (if (space boff =? 0)%N then 2 else 1) <= fuel)%nat ->
  completes fuel boff data = true.
Proof.
  induction fuel as [|fuel IH]; intros boff data Hf.
  - destruct (space boff =? 0); lia.
  - cbn [completes].
    destruct (dropN (w_n boff data) data) as [|x l] eqn:E; [reflexivity|].
    pose proof (drop_cons _ _ _ _ E) as En. rewrite <- E. apply IH.
    unfold dropN. rewrite skipn_length.
    assert (Hn : w_n boff data = space boff) by (unfold w_n, space in *; lia).
    rewrite Hn in *. clear E.
    destruct (space boff =? 0) eqn:E0.
    + assert (E1 : space (w_boff2 boff data) =? 0 = false).
      { unfold w_boff2. rewrite Hn. revert E0. unfold space, boff_after_pad.
        destruct (B - boff <? H) eqn:E3; intros E0;
          destruct (B - (_ + H + _) <? H) eqn:E4; lia. }
      rewrite E1. lia.
    + unfold blen in En. destruct (space (w_boff2 boff data) =? 0); lia.
Qed.

Lemma completes_append boff data : completes (append_fuel data) boff data = true.
Proof.
  apply completes_enough. unfold append_fuel. destruct (space boff =? 0); lia.
Qed.

(** ** One session *)

Lemma sess_records_items : forall recs len boff,
  wst len boff ->
  exists its,
    fst (fst (sess_records B H crc len boff recs)) = bytes_of its /\
    layout_ok len its /\
    wst (len + size its) (snd (fst (sess_records B H crc len boff recs))) /\
    (forall i b, asm len i b its = snd (sess_records B H crc len boff recs)).
Proof.
  induction recs as [|r rs IH]; intros len boff Hw.
  - exists []. cbn [sess_records fst snd bytes_of layout_ok size asm]. rewrite N.add_0_r. auto.
  - cbn [sess_records fst snd]. unfold append. rewrite append_loop_items. cbn [fst snd].
    rewrite blen_bytes_of.
    set (ir := append_items (append_fuel r) boff r true).
    destruct (append_items_layout (append_fuel r) boff r true len Hw) as [Hl Hw'].
    fold ir in Hl, Hw'.
    destruct (IH (len + size ir) _ Hw') as [its [Hb [Hl2 [Hw2 Ha]]]].
    exists (ir ++ its). rewrite bytes_of_app, Hb, size_app, N.add_assoc.
    split; [reflexivity|]. split; [apply layout_ok_app; auto|]. split; [assumption|].
    intros i b. rewrite asm_app, Ha. unfold ir.
    rewrite asm_complete by (auto using completes_append || discriminate).
    reflexivity.
Qed.

Lemma partial_items pos boff p :
  wst pos boff ->
  exists its,
    partial_bytes B H crc boff p = bytes_of its /\
    layout_ok pos its /\
    forall i b, asm pos i b its
                = map (fun r => (r, pos + size its)) (partial_complete B H crc boff p).
Proof.
  intros Hw. destruct p as [[r k]|].
  - exists (append_items k boff r true).
    cbn [partial_bytes partial_complete]. unfold append. rewrite !append_loop_items. cbn [fst].
    split; [reflexivity|].
    split; [apply append_items_layout; assumption|].
    intros i b. rewrite !blen_bytes_of.
    pose proof (completes_append boff r) as HF.
    destruct (completes k boff r) eqn:Hk.
    + rewrite (completes_same k (append_fuel r)) by assumption.
      rewrite N.eqb_refl. cbn [map].
      rewrite asm_complete by (assumption || discriminate). reflexivity.
    + pose proof (incomplete_size k (append_fuel r) boff r true Hk HF) as Hlt.
      destruct (size (append_items k boff r true) =? size (append_items (append_fuel r) boff r true))
        eqn:E; [lia|].
      cbn [map]. apply asm_incomplete; [assumption|discriminate].
  - exists []. cbn [partial_bytes partial_complete bytes_of layout_ok asm map]. auto.
Qed.

(** * Scripts *)

Definition Inv (st : bytes * list (bytes * N)) : Prop :=
  exists its, fst st = bytes_of its /\ layout_ok 0 its /\ snd st = asm 0 false [] its.

Lemma Inv_init : Inv ([], []).
Proof. exists []. cbn. auto. Qed.

Lemma Inv_sess st recs p : Inv st -> Inv (script_step B H crc st (LSess recs p)).
Proof.
  intros [its [Hf [Hl Ha]]]. cbn [script_step fst snd]. rewrite Hf, Ha, blen_bytes_of.
  destruct (sess_records_items recs (size its) _ (wst_open (size its)))
    as [is_ [Hb [Hl1 [Hw1 Ha1]]]].
  destruct (partial_items (size its + size is_) _ p Hw1) as [ip [Hb2 [Hl2 Ha2]]].
  exists (its ++ is_ ++ ip). cbn [fst snd].
  rewrite Hb, Hb2.
  split; [rewrite !bytes_of_app; reflexivity|].
  split.
  - apply layout_ok_app. split; [assumption|]. rewrite N.add_0_l.
    apply layout_ok_app. auto.
  - rewrite asm_app, N.add_0_l, asm_app, Ha1, Ha2. f_equal. f_equal.
    rewrite !blen_app, !blen_bytes_of, N.add_assoc. reflexivity.
Qed.

Lemma Inv_sessions : forall ops st,
  sessions_only ops = true -> Inv st -> Inv (fold_left (script_step B H crc) ops st).
Proof.
  induction ops as [|op ops IH]; intros st Hs Hi; cbn [fold_left]; [assumption|].
  destruct op as [recs p| |]; cbn [sessions_only] in Hs; try discriminate.
  apply IH; [assumption|]. apply Inv_sess. assumption.
Qed.

Lemma claimed_cases : forall ops,
  claimed ops = true ->
  sessions_only ops = true \/
  exists pre n, ops = pre ++ [LTrunc n] /\ sessions_only pre = true.
Proof.
  induction ops as [|op ops IH]; intros Hc; [left; reflexivity|].
  destruct op as [recs p|n|off b].
  - cbn [claimed] in Hc. destruct (IH Hc) as [Hs|[pre [n [-> Hs]]]].
    + left. assumption.
    + right. exists (LSess recs p :: pre), n. split; [reflexivity|assumption].
  - destruct ops; cbn in Hc; [|discriminate]. right. exists [], n. split; reflexivity.
  - cbn in Hc. discriminate.
Qed.

(** ** Truncation *)

Lemma take_items : forall (its : list item) (n : nat),
  exists its1 its2 junk,
    its = its1 ++ its2 /\
    firstn n (bytes_of its) = bytes_of its1 ++ junk /\
    (length (bytes_of its1) <= n)%nat /\
    ((its2 = [] /\ junk = []) \/
     (exists it r s, its2 = it :: r /\ item_bytes it = junk ++ s /\ s <> [] /\
                     (n < length (bytes_of its1) + length (item_bytes it))%nat)).
Proof.
  induction its as [|it its IH]; intros n.
  - exists [], [], []. cbn [bytes_of app length]. rewrite firstn_nil.
    split; [reflexivity|]. split; [reflexivity|]. split; [lia|]. left. auto.
  - destruct (le_lt_dec (length (item_bytes it)) n) as [Hle|Hlt].
    + destruct (IH (n - length (item_bytes it))%nat) as [i1 [i2 [junk [E1 [E2 [E3 E4]]]]]].
      exists (it :: i1), i2, junk. cbn [bytes_of app].
      split; [rewrite E1; reflexivity|].
      split.
      { rewrite firstn_app, E2, firstn_all2 by lia. rewrite app_assoc. reflexivity. }
      split; [rewrite app_length; lia|].
      destruct E4 as [E4|[it' [r [s [E5 [E6 [E7 E8]]]]]]]; [left; assumption|].
      right. exists it', r, s. rewrite app_length. repeat split; try assumption. lia.
    + exists [], (it :: its), (firstn n (item_bytes it)). cbn [bytes_of app length].
      split; [reflexivity|].
      split.
      { rewrite firstn_app. replace (n - length (item_bytes it))%nat with 0%nat by lia.
        cbn [firstn]. apply app_nil_r. }
      split; [lia|].
      right. exists it, its, (skipn n (item_bytes it)).
      split; [reflexivity|]. split; [symmetry; apply firstn_skipn|].
      split; [|lia].
      intros E. apply (f_equal (@length N)) in E. rewrite skipn_length in E. cbn [length] in E. lia.
Qed.

Lemma filter_all_true {A} (f : A -> bool) l : (forall x, In x l -> f x = true) -> filter f l = l.
Proof.
  induction l as [|a l IH]; intros Hall; cbn [filter]; [reflexivity|].
  rewrite (Hall a) by (left; reflexivity). f_equal. apply IH. intros x Hx. apply Hall. right. exact Hx.
Qed.

Lemma filter_all_false {A} (f : A -> bool) l : (forall x, In x l -> f x = false) -> filter f l = [].
Proof.
  induction l as [|a l IH]; intros Hall; cbn [filter]; [reflexivity|].
  rewrite (Hall a) by (left; reflexivity). apply IH. intros x Hx. apply Hall. right. exact Hx.
Qed.

Lemma filter_asm its1 its2 n pos i b :
  pos + size its1 <= n ->
  (its2 = [] \/ exists it r, its2 = it :: r /\ n < pos + size its1 + isize it) ->
  filter (fun re : bytes * N => snd re <=? n) (asm pos i b (its1 ++ its2)) = asm pos i b its1.
Proof.
  intros Hle H2. rewrite asm_app, filter_app.
  rewrite filter_all_true.
  2:{ intros [d e] Hin. apply asm_le in Hin. cbn [snd]. lia. }
  rewrite filter_all_false; [apply app_nil_r|].
  intros [d e] Hin. destruct H2 as [->|[it [r [-> Hlt]]]].
  - cbn [asm] in Hin. contradiction.
  - apply asm_ge in Hin. cbn [snd]. lia.
Qed.

(** * Main theorem *)

Theorem log_script_correct :
  forall ops l,
    script_spec B H crc ops = Some l ->
    read_all B H crc true (script_file B H crc ops) = (l, false).
Proof.
  intros ops l. unfold script_spec, script_file, script_run.
  destruct (claimed ops) eqn:Hc; [|discriminate]. intros E. injection E as <-.
  destruct (claimed_cases ops Hc) as [Hs|[pre [n [-> Hs]]]].
  - destruct (Inv_sessions ops _ Hs Inv_init) as [its [Hf [Hl Ha]]].
    rewrite Hf, Ha. rewrite <- (app_nil_r (bytes_of its)).
    apply read_all_layout; [assumption|apply eof_nil].
  - rewrite fold_left_app. cbn [fold_left].
    destruct (Inv_sessions pre _ Hs Inv_init) as [its [Hf [Hl Ha]]].
    cbn [script_step fst snd]. rewrite Hf, Ha. unfold takeN.
    destruct (take_items its (N.to_nat n)) as [i1 [i2 [junk [E1 [E2 [E3 E4]]]]]].
    rewrite E2. subst its.
    apply layout_ok_app in Hl. destruct Hl as [Hl1 Hl2]. rewrite N.add_0_l in Hl2.
    assert (Hsz : size i1 <= n).
    { rewrite <- blen_bytes_of. unfold blen. lia. }
    rewrite filter_asm.
    + apply read_all_layout; [assumption|].
      destruct E4 as [[-> ->]|[it [r [s [-> [E5 [E6 E7]]]]]]]; [apply eof_nil|].
      cbn [layout_ok] in Hl2. destruct Hl2 as [Hok _].
      apply (eof_prefix _ it junk s); assumption.
    + rewrite N.add_0_l. assumption.
    + destruct E4 as [[-> ->]|[it [r [s [-> [E5 [E6 E7]]]]]]]; [left; reflexivity|].
      right. exists it, r. split; [reflexivity|].
      rewrite N.add_0_l, <- blen_bytes_of, <- blen_item_bytes. unfold blen. lia.
Qed.

(** * Corollaries: plain sessions (no interruption) *)

Definition sess_ops (sessions : list (list bytes)) : list lop :=
  map (fun s => LSess s None) sessions.

Lemma sess_records_append_all : forall recs len boff,
  fst (fst (sess_records B H crc len boff recs)) = fst (append_all B H crc boff recs) /\
  map fst (snd (sess_records B H crc len boff recs)) = recs.
Proof.
  induction recs as [|r rs IH]; intros len boff; cbn [sess_records append_all fst snd map].
  - auto.
  - destruct (IH (len + blen (fst (append B H crc boff r))) (snd (append B H crc boff r)))
      as [E1 E2].
    rewrite E1, E2. auto.
Qed.

Lemma script_sessions : forall sessions st,
  fst (fold_left (script_step B H crc) (sess_ops sessions) st)
    = write_sessions B H crc (fst st) sessions /\
  map fst (snd (fold_left (script_step B H crc) (sess_ops sessions) st))
    = map fst (snd st) ++ concat sessions.
Proof.
  induction sessions as [|s ss IH]; intros st; cbn [sess_ops map fold_left write_sessions concat].
  - rewrite app_nil_r. auto.
  - fold (sess_ops ss). destruct (IH (script_step B H crc st (LSess s None))) as [E1 E2].
    rewrite E1, E2. clear E1 E2 IH.
    cbn [script_step fst snd partial_bytes partial_complete map].
    destruct (sess_records_append_all s (blen (fst st)) (open_boff B (blen (fst st)))) as [E1 E2].
    rewrite !app_nil_r, map_app, E1, E2, app_assoc. auto.
Qed.

Lemma sess_ops_sessions_only sessions : sessions_only (sess_ops sessions) = true.
Proof. induction sessions as [|s ss IH]; cbn [sess_ops map sessions_only]; auto. Qed.

Lemma sess_ops_claimed sessions : claimed (sess_ops sessions) = true.
Proof. induction sessions as [|s ss IH]; cbn [sess_ops map claimed]; auto. Qed.

Lemma sess_ops_trunc_claimed sessions n : claimed (sess_ops sessions ++ [LTrunc n]) = true.
Proof. induction sessions as [|s ss IH]; cbn [sess_ops map claimed app]; auto. Qed.

Theorem log_roundtrip : forall sessions : list (list bytes),
  read_all B H crc true (write_sessions B H crc [] sessions) = (concat sessions, false).
Proof.
  intros sessions.
  destruct (script_sessions sessions ([], [])) as [E1 E2]. cbn [fst snd map app] in E1, E2.
  rewrite <- E1, <- E2. apply (log_script_correct (sess_ops sessions)).
  unfold script_spec. rewrite sess_ops_claimed. reflexivity.
Qed.

(** the records kept by a truncation form a prefix: exactly those ending at or before [n] *)
Lemma asm_filter_prefix n its : forall pos i b,
  exists k,
    filter (fun re : bytes * N => snd re <=? n) (asm pos i b its) = firstn k (asm pos i b its) /\
    forall j r e, nth_error (asm pos i b its) j = Some (r, e) -> (e <= n <-> (j < k)%nat).
Proof.
  induction its as [|[p t d] its IH]; intros pos i b; cbn [asm].
  - exists 0%nat. split; [reflexivity|]. intros [|j] r e Hj; discriminate Hj.
  - destruct (fstep i b t d) as [[[z|] i'] b']; [|apply IH].
    set (pos' := pos + isize (It p t d)).
    destruct (pos' <=? n) eqn:E.
    + destruct (IH pos' i' b') as [k [Hk1 Hk2]]. exists (S k).
      cbn [filter snd firstn]. rewrite E, Hk1. split; [reflexivity|].
      intros [|j] r e Hj; cbn [nth_error] in Hj.
      * injection Hj as <- <-. lia.
      * specialize (Hk2 j r e Hj). lia.
    + exists 0%nat. cbn [filter snd firstn]. rewrite E.
      assert (Hall : forall r e, In (r, e) (asm pos' i' b' its) -> n < e).
      { intros r e Hin. apply asm_ge0 in Hin. lia. }
      split.
      * apply filter_all_false. intros [r e] Hin. apply Hall in Hin. cbn [snd]. lia.
      * intros [|j] r e Hj; cbn [nth_error] in Hj.
        -- injection Hj as <- <-. lia.
        -- apply nth_error_In, Hall in Hj. lia.
Qed.

Theorem log_truncation : forall (sessions : list (list bytes)) (n : N),
  let st := script_run B H crc (map (fun s => LSess s None) sessions) in
  fst st = write_sessions B H crc [] sessions /\
  map fst (snd st) = concat sessions /\
  exists k,
    read_all B H crc true (takeN n (write_sessions B H crc [] sessions))
      = (firstn k (concat sessions), false) /\
    forall j r e, nth_error (snd st) j = Some (r, e) -> (e <= n <-> (j < k)%nat).
Proof.
  intros sessions n. fold (sess_ops sessions). cbv zeta. unfold script_run.
  destruct (script_sessions sessions ([], [])) as [E1 E2]. cbn [fst snd map app] in E1, E2.
  split; [assumption|]. split; [assumption|].
  pose proof (log_script_correct (sess_ops sessions ++ [LTrunc n])) as Hc.
  unfold script_spec, script_file, script_run in Hc.
  rewrite sess_ops_trunc_claimed, fold_left_app in Hc. cbn [fold_left script_step fst snd] in Hc.
  specialize (Hc _ eq_refl). rewrite E1 in Hc. rewrite Hc. clear Hc.
  destruct (Inv_sessions (sess_ops sessions) _ (sess_ops_sessions_only sessions) Inv_init)
    as [its [Hf [Hl Ha]]].
  rewrite <- E2, Ha.
  destruct (asm_filter_prefix n its 0 false []) as [k [Hk1 Hk2]].
  exists k. rewrite Hk1, firstn_map. split; [reflexivity|assumption].
Qed.

End LOGTHM.

(** * Instances at the parameters of the implementation *)

Theorem log_script_correct_inst : forall ops l,
  log_script_spec ops = Some l -> log_read_all true (fst (log_script_run ops)) = (l, false).
Proof.
  apply (log_script_correct BLOCK_SIZE_BYTES HEADER_LENGTH_BYTES crc32c).
  - reflexivity.
  - reflexivity.
  - reflexivity.
  - exact crc32c_bound.
Qed.

Theorem log_roundtrip_inst : forall sessions : list (list bytes),
  log_read_all true (log_write_sessions [] sessions) = (concat sessions, false).
Proof.
  apply (log_roundtrip BLOCK_SIZE_BYTES HEADER_LENGTH_BYTES crc32c).
  - reflexivity.
  - reflexivity.
  - reflexivity.
  - exact crc32c_bound.
Qed.

Theorem log_truncation_inst : forall (sessions : list (list bytes)) (n : N),
  let st := log_script_run (map (fun s => LSess s None) sessions) in
  fst st = log_write_sessions [] sessions /\
  map fst (snd st) = concat sessions /\
  exists k,
    log_read_all true (takeN n (log_write_sessions [] sessions))
      = (firstn k (concat sessions), false) /\
    forall j r e, nth_error (snd st) j = Some (r, e) -> (e <= n <-> (j < k)%nat).
Proof.
  apply (log_truncation BLOCK_SIZE_BYTES HEADER_LENGTH_BYTES crc32c).
  - reflexivity.
  - reflexivity.
  - reflexivity.
  - exact crc32c_bound.
Qed.

(** * Sensitivity witness: the reader before the fix for D9 ([seq = false]) *)

Definition wit_rec40 : bytes := repeat 65 40.
Definition wit_ops : list lop :=
  [LSess [] (Some (wit_rec40, 1%nat)); LSess [[1]] None].

Theorem unfixed_reader_refuted :
  exists ops l,
    script_spec 32 7 crc32c ops = Some l /\
    read_all 32 7 crc32c false (script_file 32 7 crc32c ops) <> (l, false).
Proof.
  exists wit_ops, [[1]]. split.
  - vm_compute. reflexivity.
  - vm_compute. intros E. discriminate E.
Qed.
