(** The full stack: the logical LSM state machine ([model/Lsm.v]) and the persistence protocol
    ([model/Proto.v], [model/Recover.v]) run in lockstep. Definitions: the coupling relation, the
    protocol operations a logical step determines, joint runs and their side conditions, the
    logical state rebuilt from an opened database. Proofs in [StackProofs.v]. *)
From Coq Require Import Lia List NArith Bool Arith.
From RainVerif Require Import Params.
From RainVerif.model Require Import Bytes Key Block Crc Log Table TableSpec Version Lsm LsmSpec DbSpec Codec WalModel Gc Recover Proto.
From RainVerif.proofs Require Import LogXProofs ImgProofs ManifestSem ContentsProofs ProtoDurable ProtoSteps ProtoOpen ProtoInstall LsmProofs.
From RainVerif.proofs Require CodecProofs.
Import ListNotations.
Open Scope N_scope.

(** * S1: the coupling *)

(** the logical state and the running database agree: same memtable, immutable memtable, version
    (file metadata included), sequence number and file-number counter; every table file of the
    version reads back from the directory as exactly the entries the logical store holds for it.
    Snapshots live on the logical side only. *)
Record Coupled (l : lsm) (d : pdb) : Prop := mkCoupled {
  cp_mem : pd_mem d = l_mem l;
  cp_imm : pd_imm d = l_imm l;
  cp_ver : pd_ver d = l_ver l;
  cp_seq : pd_seq d = l_seq l;
  cp_next : pd_next d = l_next l;
  cp_panic : l_panic l = false;
  cp_tabs : forall n, In n (version_numbers (l_ver l)) ->
              table_entries_of (pd_img d) n = Some (file_entries l n)
}.

(** every table file of the directory belongs to the current version (true after every open,
    flush and install, which end with [remove_obsolete_files]); with the invariant of the logical
    side (numbers of the version are at most the counter) the outputs of a compaction are new
    files *)
Definition TabsLive (d : pdb) : Prop :=
  forall n, In n (map fst (i_tables (pd_img d))) -> In n (version_numbers (pd_ver d)).

(** the counter offset: [lsm_init] starts its file counter at 1; creating a database consumes two
    numbers on the protocol side (the manifest's successor and the first write-ahead log: the
    counter is 3 after [p_open] on the empty directory). On the logical side these are an empty
    rotation and an empty flush; the state coupled with a freshly created database is therefore
    [fresh_lsm = lsm_run [SRotate; SFlush]], a reachable state. *)
Definition fresh_lsm : lsm := mkLsm [] None empty_version [] 0 [] 3 false.

(** * S2: the protocol operations a logical step determines *)

Definition ents_size (es : list entry) : N :=
  blen (concat (map (fun e => ikey_encode (fst e) ++ snd e) es)).

Section JOINT.
Variable mfs : N.

Notation lstep := (lsm_step true true mfs).

(** flush: the level [pick_level_for_memtable_output] chose, the current sequence number, and the
    size the logical step records: [fm_size] is part of the version, so the coupling (equal
    versions) determines it ([StackProofs.ex_flush_size_refuted]) *)
Definition flush_pops (l : lsm) : list pop :=
  match l_imm l with
  | None => []
  | Some [] => [QFlush 0 0 (l_seq l)]
  | Some ((e0 :: _) as es) =>
      match last_key es with
      | None => []
      | Some lk =>
          [QFlush (N.of_nat (pick_level_for_memtable_output (l_ver l) mfs (ik_user (fst e0)) (ik_user lk)))
                  (ents_size es) (l_seq l)]
      end
  end.

Definition compact_outs (l : lsm) (level : nat) (ci : cinputs) (cuts : list nat) : list (fmeta * list entry) :=
  number_outputs
    (cut_blocks (compact_entries (smallest_snapshot l) (is_base_level_for_key (l_ver l) level)
                                 (map (fun f => file_entries l (fm_num f)) (ci_in0 ci ++ ci_in1 ci))) cuts)
    (l_next l).

Definition compact_deleted (level : nat) (ci : cinputs) : list (N * N) :=
  map (fun f => (N.of_nat level, fm_num f)) (ci_in0 ci) ++ map (fun f => (N.of_nat (S level), fm_num f)) (ci_in1 ci).

Definition compact_added (level : nat) (outs : list (fmeta * list entry)) : list (N * fmeta * list entry) :=
  map (fun o => (N.of_nat (S level), fst o, snd o)) outs.

(** compaction: exactly the deleted inputs and the added outputs (metadata and entries) that
    [do_compact] computes; the compaction pointers are arbitrary *)
Definition compact_pops (l : lsm) (level : nat) (seed : list N) (cuts : list nat) (ptrs : list (N * ikey)) : list pop :=
  match finalize_inputs true true mfs (l_ver l) level (files_of (l_ver l) level seed) with
  | None => []
  | Some ci =>
      [QInstall (compact_deleted level ci) (compact_added level (compact_outs l level ci cuts)) ptrs (l_seq l)]
  end.

(** trivial move: the file is deleted from its level and added, with its entries, one level down;
    nothing when the logical step does nothing *)
Definition move_pops (l : lsm) (level : nat) (seed : list N) (ptrs : list (N * ikey)) : list pop :=
  match finalize_inputs true true mfs (l_ver l) level (files_of (l_ver l) level seed) with
  | None => []
  | Some ci =>
      match ci_in0 ci with
      | [f] =>
          if negb (is_trivial_move mfs ci) then []
          else [QInstall [(N.of_nat level, fm_num f)]
                         [(N.of_nat (S level), f, file_entries l (fm_num f))] ptrs (l_seq l)]
      | _ => []
      end
  end.

Definition pops_of_step (l : lsm) (st : step) (ptrs : list (N * ikey)) : list pop :=
  match st with
  | SWrite b => [QWrite b]
  | SRotate => [QRotate]
  | SFlush => flush_pops l
  | SCompact level seed cuts => compact_pops l level seed cuts ptrs
  | STrivialMove level seed => move_pops l level seed ptrs
  | SSnapshot | SRelease _ => []
  end.

(** a step of a joint run: the logical step and the compaction pointers the protocol records *)
Definition jstep := (step * list (N * ikey))%type.

Fixpoint joint_pops (l : lsm) (js : list jstep) : list pop :=
  match js with
  | [] => []
  | (st, ptrs) :: r => pops_of_step l st ptrs ++ joint_pops (lstep l st) r
  end.

Definition jlsm (l : lsm) (js : list jstep) : lsm := fold_left lstep (map fst js) l.

Definition jwrites (js : list jstep) : nat :=
  length (filter (fun j => match fst j with SWrite _ => true | _ => false end) js).

(** ** numeric side conditions of a joint step: everything fits its wire type. For the installs
    this is [vchange_ok] of the record written to the manifest (levels, numbers and sizes below
    their bounds, keys with encodings shorter than 2^32, the counter and the sequence number below
    2^64). *)
Definition install_num_ok (d : pdb) (o : pop) : Prop :=
  match o with
  | QInstall del add ptrs q => CodecProofs.vchange_ok (install_change' d del add ptrs q) = true
  | _ => True
  end.

(** a trivial move records the file at its new level: the manifest must not already name that
    (level, number) pair. This follows from the monotone history of joint runs
    ([StackProofs.move_hist_ok], [StackProofs.JointH]); [StackProofs.jrun_ok0] is [jrun_ok]
    without it *)
Definition install_hist_ok (d : pdb) (o : pop) : Prop :=
  match o with
  | QInstall del add ptrs q =>
      NoDup (lvl_nums (ma_added (recorded_acc (pd_img d)) ++ news_of (install_change' d del add ptrs q)))
  | _ => True
  end.

Definition step_num_ok (l : lsm) (d : pdb) (st : step) (ptrs : list (N * ikey)) : Prop :=
  match st with
  | SWrite b => bokb (l_seq l + 1, b) = true /\ l_seq l + N.of_nat (length b) < two64
  | SRotate => l_next l + 1 < two64
  | SFlush => l_next l + 1 < two64 /\
              match l_imm l with Some es => ents_size es < two64 | None => True end
  | SCompact level seed cuts => Forall (install_num_ok d) (compact_pops l level seed cuts ptrs)
  | STrivialMove level seed => Forall (install_num_ok d) (move_pops l level seed ptrs) /\
                               Forall (install_hist_ok d) (move_pops l level seed ptrs)
  | SSnapshot | SRelease _ => True
  end.

(** a joint run is admissible: every logical step is admissible (as the implementation issues
    them, [LsmProofs.step_admissible]) and every record fits the wire format *)
Fixpoint jrun_ok (l : lsm) (s : prun) (js : list jstep) : Prop :=
  match js with
  | [] => True
  | (st, ptrs) :: r =>
      step_admissible l st /\
      (forall d, pr_db s = Some d -> step_num_ok l d st ptrs) /\
      jrun_ok (lstep l st) (fst (p_run s (pops_of_step l st ptrs))) r
  end.

End JOINT.

(** the state of a joint run between two steps *)
Record Joint (l : lsm) (d : pdb) (acked : list batch) : Prop := mkJoint {
  j_wf : lsm_wf_b l = true;
  j_cpl : Coupled l d;
  j_inv : InvE d acked;
  j_live : TabsLive d
}.

(** the run of the protocol side: create the database, then the operations of the joint steps *)
Definition joint_ops (mfs : N) (o : open_oracle) (js : list jstep) : list pop :=
  QOpen o :: joint_pops mfs fresh_lsm js.

Definition opened (o : open_oracle) : prun := fst (p_step prun_init (QOpen o)).

(** * S4: the logical state of an opened database *)

(** the table files of a directory that can be read *)
Definition store_of (img : image) : list (N * list entry) :=
  flat_map (fun p => match snd p with Some es => [(fst p, es)] | None => [] end) (i_tables img).

(** version from the manifest (plus the level-0 tables written while replaying the logs), the
    store from the directory, the memtable rebuilt from the reused log (or empty), no immutable
    memtable, no snapshot *)
Definition lsm_of_pdb (d : pdb) : lsm :=
  mkLsm (pd_mem d) (pd_imm d) (pd_ver d) (store_of (pd_img d)) (pd_seq d) [] (pd_next d) false.

Definition lsm_of_open (o : open_oracle) (img : image) : option lsm :=
  match p_open o img with
  | Some (d, _) => Some (lsm_of_pdb d)
  | None => None
  end.
