(** The recovered contents are the replay of the acknowledged batches: the entries that the batches
    put into the memtable (and, through flushes and compactions, into table files) read, at any
    sequence number at or above the last one, as the sorted map obtained by applying the
    operations of the batches in order. No axioms. *)
From Coq Require Import Lia ZArith ZifyN ZifyBool ZifyNat Arith List NArith Bool.
From RainVerif Require Import Params.
From RainVerif.model Require Import Bytes Key Block Crc Log Table TableSpec Version Lsm DbSpec Codec WalModel Recover.
From RainVerif.proofs Require Import KeyProofs GetProofs.
Import ListNotations.
Open Scope N_scope.
Arguments N.add : simpl never.
Arguments N.sub : simpl never.
Arguments N.mul : simpl never.
Arguments N.eqb : simpl never.
Arguments N.ltb : simpl never.
Arguments N.leb : simpl never.
Arguments N.max : simpl never.
Arguments N.of_nat : simpl never.

Definition nops (bs : list batch) : N := fold_left (fun a b => a + N.of_nat (length (snd b))) bs 0.

Definition all_entries_of (bs : list batch) : list entry := flat_map batch_entries bs.

(** what the table files must satisfy w.r.t. the batches [bsF] that were flushed into them: [Q] is a threshold above which
    reads of the tables agree with reads of the flushed batches *)
Definition tables_ok (T : list entry) (bsF : list batch) (Q : N) : Prop :=
  uniq_entries T /\ (forall e, In e T -> ik_seq (fst e) <= nops bsF) /\
  (forall k q', Q <= q' -> visible T q' k = visible (all_entries_of bsF) q' k).

(** * Part 1: counting operations, chained batches *)

Lemma nops_fold_acc : forall (bs : list batch) a,
  fold_left (fun a b => a + N.of_nat (length (snd b))) bs a = a + nops bs.
Proof.
  unfold nops. induction bs as [|b bs IH]; intros a; cbn [fold_left].
  - lia.
  - rewrite IH. rewrite (IH (0 + _)). lia.
Qed.

Lemma nops_nil : nops [] = 0.
Proof. reflexivity. Qed.

Lemma nops_cons b bs : nops (b :: bs) = N.of_nat (length (snd b)) + nops bs.
Proof. unfold nops at 1. cbn [fold_left]. rewrite nops_fold_acc. lia. Qed.

Lemma nops_app : forall a b, nops (a ++ b) = nops a + nops b.
Proof.
  induction a as [|x a IH]; intros b; cbn [app].
  - rewrite nops_nil. lia.
  - rewrite !nops_cons, IH. lia.
Qed.

Lemma chained_cons_inv s b bs :
  batches_chained s (b :: bs) = true ->
  fst b = s + 1 /\ batches_chained (s + N.of_nat (length (snd b))) bs = true.
Proof.
  cbn [batches_chained]. intros H. apply andb_true_iff in H. destruct H as [H1 H2].
  apply N.eqb_eq in H1. split; assumption.
Qed.

Lemma chained_app : forall a b s,
  batches_chained s (a ++ b) = batches_chained s a && batches_chained (s + nops a) b.
Proof.
  induction a as [|x a IH]; intros b s; cbn [app batches_chained].
  - rewrite nops_nil, N.add_0_r. reflexivity.
  - rewrite IH, nops_cons.
    replace (s + (N.of_nat (length (snd x)) + nops a)) with (s + N.of_nat (length (snd x)) + nops a) by lia.
    rewrite andb_assoc. reflexivity.
Qed.

(** * Part 2: the entries of the batches: sequence numbers, uniqueness *)

Lemma rwop_seq o n : ik_seq (fst (Recover.wop_entry o n)) = n.
Proof. destruct o; reflexivity. Qed.

Lemma ops_entries_range : forall ops n e, In e (ops_entries n ops) ->
  n <= ik_seq (fst e) /\ ik_seq (fst e) < n + N.of_nat (length ops).
Proof.
  induction ops as [|o r IH]; intros n e; cbn [ops_entries In length].
  - intros [].
  - intros [<-|H].
    + rewrite rwop_seq. lia.
    + apply IH in H. lia.
Qed.

Lemma uniq_union A B es n :
  uniq_entries A -> uniq_entries B ->
  (forall e, In e A -> ik_seq (fst e) <= n) -> (forall e, In e B -> n < ik_seq (fst e)) ->
  (forall e, In e es <-> In e A \/ In e B) -> uniq_entries es.
Proof.
  intros UA UB HA HB HE e1 e2 H1 H2 Eu Es.
  apply HE in H1. apply HE in H2. destruct H1 as [H1|H1], H2 as [H2|H2].
  - apply UA; auto.
  - specialize (HA _ H1). specialize (HB _ H2). lia.
  - specialize (HB _ H1). specialize (HA _ H2). lia.
  - apply UB; auto.
Qed.

Lemma uniq_nil : uniq_entries [].
Proof. intros e1 e2 []. Qed.

Lemma uniq_single e : uniq_entries [e].
Proof. intros e1 e2 [<-|[]] [<-|[]] _ _. reflexivity. Qed.

Lemma ops_entries_uniq : forall ops n, uniq_entries (ops_entries n ops).
Proof.
  induction ops as [|o r IH]; intros n.
  - apply uniq_nil.
  - cbn [ops_entries].
    apply (uniq_union [Recover.wop_entry o n] (ops_entries (n + 1) r) _ n).
    + apply uniq_single.
    + apply IH.
    + intros e [<-|[]]. rewrite rwop_seq. lia.
    + intros e H. apply ops_entries_range in H. lia.
    + intros e. cbn [In]. tauto.
Qed.

Lemma all_entries_cons b bs : all_entries_of (b :: bs) = batch_entries b ++ all_entries_of bs.
Proof. reflexivity. Qed.

Lemma all_entries_app a b : all_entries_of (a ++ b) = all_entries_of a ++ all_entries_of b.
Proof.
  induction a as [|x a IH]; cbn [app].
  - reflexivity.
  - rewrite !all_entries_cons, IH, app_assoc. reflexivity.
Qed.

Lemma entries_seq_range : forall bs s e, batches_chained s bs = true -> In e (all_entries_of bs) ->
  s < ik_seq (fst e) /\ ik_seq (fst e) <= s + nops bs.
Proof.
  induction bs as [|b bs IH]; intros s e Hc Hin.
  - destruct Hin.
  - apply chained_cons_inv in Hc. destruct Hc as [H1 H2].
    rewrite all_entries_cons in Hin. apply in_app_or in Hin. rewrite nops_cons.
    destruct Hin as [Hin|Hin].
    + unfold batch_entries in Hin. apply ops_entries_range in Hin. lia.
    + apply (IH _ _ H2) in Hin. lia.
Qed.

Lemma entries_uniq : forall bs s, batches_chained s bs = true -> uniq_entries (all_entries_of bs).
Proof.
  induction bs as [|b bs IH]; intros s Hc.
  - apply uniq_nil.
  - apply chained_cons_inv in Hc. destruct Hc as [H1 H2]. rewrite all_entries_cons.
    apply (uniq_union (batch_entries b) (all_entries_of bs) _ (s + N.of_nat (length (snd b)))).
    + apply ops_entries_uniq.
    + apply (IH _ H2).
    + intros e H. unfold batch_entries in H. apply ops_entries_range in H. lia.
    + intros e H. apply (entries_seq_range _ _ _ H2) in H. lia.
    + intros e. apply in_app_iff.
Qed.

(** * Part 3: sorted maps *)

Lemma map_sorted_ext : forall m1 m2, map_sorted m1 -> map_sorted m2 ->
  (forall k, map_get k m1 = map_get k m2) -> m1 = m2.
Proof.
  induction m1 as [|[k1 v1] r1 IH]; intros [|[k2 v2] r2] S1 S2 G.
  - reflexivity.
  - specialize (G k2). cbn [map_get] in G. rewrite bytes_cmp_refl in G. discriminate.
  - specialize (G k1). cbn [map_get] in G. rewrite bytes_cmp_refl in G. discriminate.
  - cbn [map_sorted fst] in S1, S2. destruct S1 as [L1 S1], S2 as [L2 S2].
    assert (E : k1 = k2 /\ v1 = v2).
    { destruct (bytes_cmp k1 k2) eqn:C.
      - apply bytes_cmp_eq in C. subst k2. split; [reflexivity|].
        specialize (G k1). cbn [map_get] in G. rewrite bytes_cmp_refl in G. congruence.
      - specialize (G k1). cbn [map_get] in G. rewrite bytes_cmp_refl, C in G. discriminate.
      - apply bytes_cmp_Gt_Lt in C.
        specialize (G k2). cbn [map_get] in G. rewrite bytes_cmp_refl, C in G. discriminate. }
    destruct E as [<- <-]. f_equal. apply IH; [exact S1|exact S2|].
    intros k. destruct (bytes_cmp k k1) eqn:C.
    + apply bytes_cmp_eq in C. subst k.
      rewrite (map_get_below k1 r1), (map_get_below k1 r2); [reflexivity| |].
      * intros p Hp. apply (L2 p Hp).
      * intros p Hp. apply (L1 p Hp).
    + rewrite (map_get_below k r1), (map_get_below k r2); [reflexivity| |].
      * intros p Hp. eapply bytes_cmp_lt_trans; [exact C|apply (L2 p Hp)].
      * intros p Hp. eapply bytes_cmp_lt_trans; [exact C|apply (L1 p Hp)].
    + specialize (G k). cbn [map_get] in G. rewrite C in G. exact G.
Qed.

Lemma map_apply1_sorted m o : map_sorted m -> map_sorted (map_apply1 m o).
Proof. destruct o; [apply map_put_sorted|apply map_del_sorted]. Qed.

Lemma map_apply_sorted : forall ops m, map_sorted m -> map_sorted (map_apply m ops).
Proof.
  induction ops as [|o r IH]; intros m S.
  - exact S.
  - rewrite map_apply_cons. apply IH. apply map_apply1_sorted. exact S.
Qed.

Lemma replay_cons m b bs : replay m (b :: bs) = replay (map_apply m (snd b)) bs.
Proof. reflexivity. Qed.

Lemma replay_sorted : forall bs m, map_sorted m -> map_sorted (replay m bs).
Proof.
  induction bs as [|b bs IH]; intros m S.
  - exact S.
  - rewrite replay_cons. apply IH. apply map_apply_sorted. exact S.
Qed.

(** * Part 4: [visible] depends on the set of entries only; raising the bound *)

Lemma newest_le_ext a b q k :
  (forall e, In e a <-> In e b) -> uniq_entries a -> newest_le a k q = newest_le b k q.
Proof.
  intros HE U. apply (newest_rel_unique a k q); [exact U|apply newest_le_rel|].
  apply (newest_rel_ext b a); [intros e; symmetry; apply HE|apply newest_le_rel].
Qed.

Lemma visible_ext : forall a b q k,
  (forall e, In e a <-> In e b) -> uniq_entries a -> visible a q k = visible b q k.
Proof.
  intros a b q k HE U. unfold visible. rewrite (newest_le_ext a b q k HE U). reflexivity.
Qed.

Lemma fold_left_ext_in {A B} (f g : A -> B -> A) (l : list B) :
  (forall a x, In x l -> f a x = g a x) -> forall a, fold_left f l a = fold_left g l a.
Proof.
  induction l as [|y l IH]; intros H a; cbn [fold_left].
  - reflexivity.
  - rewrite (H a y) by (left; reflexivity). apply IH. intros a' x Hx. apply H. right. exact Hx.
Qed.

Lemma visible_raise es q q' k :
  (forall e, In e es -> ik_seq (fst e) <= q) -> q <= q' -> visible es q' k = visible es q k.
Proof.
  intros SB L.
  assert (E : newest_le es k q' = newest_le es k q).
  { unfold newest_le. apply fold_left_ext_in. intros a x Hx. specialize (SB x Hx).
    replace (ik_seq (fst x) <=? q') with true by (symmetry; apply N.leb_le; lia).
    replace (ik_seq (fst x) <=? q) with true by (symmetry; apply N.leb_le; lia).
    reflexivity. }
  unfold visible. rewrite E. reflexivity.
Qed.

(** * Part 5: the entries of chained batches read as the replay *)

Definition repr (es : list entry) (m : list kv) (n : N) : Prop :=
  (forall x, In x es -> ik_seq (fst x) <= n) /\ uniq_entries es /\ map_sorted m /\
  forall k, visible es n k = map_get k m.

Lemma repr_op es m n o :
  repr es m n -> repr (es ++ [Recover.wop_entry o (n + 1)]) (map_apply1 m o) (n + 1).
Proof.
  intros (SB & U & Sm & V). split; [|split; [|split]].
  - intros x Hx. apply in_app_or in Hx. destruct Hx as [Hx|[<-|[]]].
    + specialize (SB x Hx). lia.
    + rewrite rwop_seq. lia.
  - apply (uniq_union es [Recover.wop_entry o (n + 1)] _ n).
    + exact U.
    + apply uniq_single.
    + exact SB.
    + intros e [<-|[]]. rewrite rwop_seq. lia.
    + intros e. apply in_app_iff.
  - apply map_apply1_sorted. exact Sm.
  - intros k.
    rewrite (visible_add es _ (Recover.wop_entry o (n + 1)) n k SB U (rwop_seq _ _)).
    + destruct o as [k1 v1|k1]; cbn [Recover.wop_entry fst ik_user map_apply1].
      * rewrite map_get_put, V. destruct (bytes_eqb k k1); reflexivity.
      * rewrite map_get_del by exact Sm. rewrite V. destruct (bytes_eqb k k1); reflexivity.
    + intros x. rewrite in_app_iff. cbn [In]. split.
      * intros [H|[<-|[]]]; auto.
      * intros [->|H]; [right; left; reflexivity|left; exact H].
Qed.

Lemma repr_ops : forall ops es m n,
  repr es m n -> repr (es ++ ops_entries (n + 1) ops) (map_apply m ops) (n + N.of_nat (length ops)).
Proof.
  induction ops as [|o r IH]; intros es m n R.
  - cbn [ops_entries length]. rewrite app_nil_r. replace (n + N.of_nat 0) with n by lia. exact R.
  - cbn [ops_entries].
    replace (es ++ Recover.wop_entry o (n + 1) :: ops_entries (n + 1 + 1) r)
      with ((es ++ [Recover.wop_entry o (n + 1)]) ++ ops_entries (n + 1 + 1) r)
      by (rewrite <- app_assoc; reflexivity).
    rewrite map_apply_cons.
    replace (n + N.of_nat (length (o :: r))) with ((n + 1) + N.of_nat (length r)) by (cbn [length]; lia).
    apply IH. apply repr_op. exact R.
Qed.

Lemma repr_batches : forall bs es m n,
  batches_chained n bs = true -> repr es m n ->
  repr (es ++ all_entries_of bs) (replay m bs) (n + nops bs).
Proof.
  induction bs as [|b bs IH]; intros es m n Hc R.
  - cbn [all_entries_of flat_map]. rewrite app_nil_r, nops_nil, N.add_0_r. exact R.
  - apply chained_cons_inv in Hc. destruct Hc as [H1 H2].
    rewrite all_entries_cons, app_assoc, replay_cons, nops_cons, N.add_assoc.
    apply IH; [exact H2|]. unfold batch_entries. rewrite H1. apply repr_ops. exact R.
Qed.

Lemma repr_nil : repr [] [] 0.
Proof.
  split; [intros x []|]. split; [apply uniq_nil|]. split; [exact I|]. intros k. reflexivity.
Qed.

Theorem batches_repr bs :
  batches_chained 0 bs = true -> repr (all_entries_of bs) (replay [] bs) (nops bs).
Proof.
  intros Hc. pose proof (repr_batches bs [] [] 0 Hc repr_nil) as R.
  rewrite N.add_0_l in R. exact R.
Qed.

Theorem visible_replay bs q k :
  batches_chained 0 bs = true -> nops bs <= q ->
  visible (all_entries_of bs) q k = map_get k (replay [] bs).
Proof.
  intros Hc Hq. destruct (batches_repr bs Hc) as (SB & _ & _ & V).
  rewrite (visible_raise _ (nops bs) q k SB Hq). apply V.
Qed.

(** the recovered contents are the replay of the acknowledged batches *)
Theorem contents_replay : forall bs es q,
  batches_chained 0 bs = true ->
  (forall e, In e es <-> In e (all_entries_of bs)) ->
  nops bs <= q ->
  contents es q = replay [] bs.
Proof.
  intros bs es q Hc HE Hq. destruct (contents_spec es q) as [S G].
  apply map_sorted_ext; [exact S|apply replay_sorted; exact I|].
  intros k. rewrite G.
  rewrite (visible_ext es (all_entries_of bs) q k HE).
  - apply visible_replay; assumption.
  - apply (uniq_entries_ext (all_entries_of bs)); [intros e; symmetry; apply HE|].
    apply (entries_uniq bs 0 Hc).
Qed.

(** * Part 6: older entries (tables) and newer entries (logs) *)

Lemma newest_split A B es n q k :
  (forall e, In e es <-> In e A \/ In e B) -> uniq_entries es ->
  (forall e, In e A -> ik_seq (fst e) <= n) -> (forall e, In e B -> n < ik_seq (fst e)) ->
  newest_le es k q = match newest_le B k q with Some b => Some b | None => newest_le A k q end.
Proof.
  intros HE U HA HB. apply (newest_rel_unique es k q); [exact U|apply newest_le_rel|].
  pose proof (newest_le_rel B k q) as RB. destruct (newest_le B k q) as [b|].
  - cbn [newest_rel] in *. destruct RB as (Ib & Cb & Mb).
    split; [apply HE; right; exact Ib|]. split; [exact Cb|].
    intros e' He' Ce'. apply HE in He'. destruct He' as [He'|He']; [|auto].
    specialize (HA _ He'). specialize (HB _ Ib). lia.
  - pose proof (newest_le_rel A k q) as RA. destruct (newest_le A k q) as [a|]; cbn [newest_rel] in *.
    + destruct RA as (Ia & Ca & Ma). split; [apply HE; left; exact Ia|]. split; [exact Ca|].
      intros e' He' Ce'. apply HE in He'. destruct He' as [He'|He']; [auto|].
      exfalso. eapply RB; eassumption.
    + intros e' He' Ce'. apply HE in He'. destruct He' as [He'|He']; [eapply RA|eapply RB]; eassumption.
Qed.

Lemma visible_union A A' B es es' n q k :
  (forall e, In e es <-> In e A \/ In e B) ->
  (forall e, In e es' <-> In e A' \/ In e B) ->
  uniq_entries A -> uniq_entries A' -> uniq_entries B ->
  (forall e, In e A -> ik_seq (fst e) <= n) ->
  (forall e, In e A' -> ik_seq (fst e) <= n) ->
  (forall e, In e B -> n < ik_seq (fst e)) ->
  visible A q k = visible A' q k ->
  visible es q k = visible es' q k.
Proof.
  intros HE HE' UA UA' UB HA HA' HB V. unfold visible in *.
  rewrite (newest_split A B es n q k HE (uniq_union A B es n UA UB HA HB HE) HA HB).
  rewrite (newest_split A' B es' n q k HE' (uniq_union A' B es' n UA' UB HA' HB HE') HA' HB).
  destruct (newest_le B k q) as [b|]; [reflexivity|exact V].
Qed.

Lemma tables_logs_visible T bsF bsL es Q q k :
  batches_chained 0 (bsF ++ bsL) = true ->
  tables_ok T bsF Q ->
  (forall e, In e es <-> In e T \/ In e (all_entries_of bsL)) ->
  Q <= q ->
  visible es q k = visible (all_entries_of (bsF ++ bsL)) q k.
Proof.
  intros Hc (UT & BT & VT) HE Hq.
  rewrite chained_app in Hc. apply andb_true_iff in Hc. destruct Hc as [HcF HcL].
  rewrite N.add_0_l in HcL.
  apply (visible_union T (all_entries_of bsF) (all_entries_of bsL) es _ (nops bsF)).
  - exact HE.
  - intros e. rewrite all_entries_app. apply in_app_iff.
  - exact UT.
  - apply (entries_uniq _ _ HcF).
  - apply (entries_uniq _ _ HcL).
  - exact BT.
  - intros e H. apply (entries_seq_range _ _ _ HcF) in H. lia.
  - intros e H. apply (entries_seq_range _ _ _ HcL) in H. lia.
  - apply VT. exact Hq.
Qed.

Theorem contents_replay_gen : forall T bsF bsL es Q q,
  batches_chained 0 (bsF ++ bsL) = true ->
  tables_ok T bsF Q ->
  (forall e, In e es <-> In e T \/ In e (all_entries_of bsL)) ->
  Q <= q -> nops (bsF ++ bsL) <= q ->
  contents es q = replay [] (bsF ++ bsL).
Proof.
  intros T bsF bsL es Q q Hc TO HE HQ Hq. destruct (contents_spec es q) as [S G].
  apply map_sorted_ext; [exact S|apply replay_sorted; exact I|].
  intros k. rewrite G. rewrite (tables_logs_visible T bsF bsL es Q q k Hc TO HE HQ).
  apply visible_replay; assumption.
Qed.

Theorem tables_ok_nil : forall Q, tables_ok [] [] Q.
Proof.
  intros Q. split; [apply uniq_nil|]. split; [intros e []|]. intros k q' _. reflexivity.
Qed.

Theorem tables_ok_mono : forall T bsF Q Q', tables_ok T bsF Q -> Q <= Q' -> tables_ok T bsF Q'.
Proof.
  intros T bsF Q Q' (U & B & V) L. split; [exact U|]. split; [exact B|].
  intros k q' Hq. apply V. lia.
Qed.

Theorem tables_ok_ext : forall T T' bsF Q,
  (forall e, In e T <-> In e T') -> tables_ok T bsF Q -> tables_ok T' bsF Q.
Proof.
  intros T T' bsF Q HE (U & B & V). split; [apply (uniq_entries_ext T T' HE U)|].
  split; [intros e He; apply B; apply HE; exact He|].
  intros k q' Hq. rewrite <- (visible_ext T T' q' k HE U). apply V. exact Hq.
Qed.

Theorem tables_ok_flush : forall T bsF bsI T' Q,
  batches_chained 0 (bsF ++ bsI) = true -> tables_ok T bsF Q ->
  (forall e, In e T' <-> In e T \/ In e (all_entries_of bsI)) ->
  tables_ok T' (bsF ++ bsI) Q.
Proof.
  intros T bsF bsI T' Q Hc TO HE. pose proof TO as (UT & BT & VT).
  pose proof Hc as Hc'. rewrite chained_app in Hc'. apply andb_true_iff in Hc'.
  destruct Hc' as [HcF HcI]. rewrite N.add_0_l in HcI.
  split; [|split].
  - apply (uniq_union T (all_entries_of bsI) T' (nops bsF)).
    + exact UT.
    + apply (entries_uniq _ _ HcI).
    + exact BT.
    + intros e H. apply (entries_seq_range _ _ _ HcI) in H. lia.
    + exact HE.
  - intros e He. apply HE in He. rewrite nops_app. destruct He as [He|He].
    + specialize (BT e He). lia.
    + apply (entries_seq_range _ _ _ HcI) in He. lia.
  - intros k q' Hq. apply (tables_logs_visible T bsF bsI T' Q q' k Hc TO HE Hq).
Qed.

(** a compaction: the new tables only contain entries of the old ones and read the same above [Q] *)
Theorem tables_ok_install : forall T T' bsF Q,
  tables_ok T bsF Q -> uniq_entries T' ->
  (forall e, In e T' -> ik_seq (fst e) <= nops bsF) ->
  (forall k q', Q <= q' -> visible T' q' k = visible T q' k) ->
  tables_ok T' bsF Q.
Proof.
  intros T T' bsF Q (U & B & V) U' B' V'. split; [exact U'|]. split; [exact B'|].
  intros k q' Hq. rewrite (V' k q' Hq). apply V. exact Hq.
Qed.

(** * Part 7: the memtable holds the entries of the batches inserted; recovered sequence number *)

Lemma insert_entries_in : forall (es mem : list entry) x,
  In x (fold_left (fun m e => insert_entry e m) es mem) <-> In x es \/ In x mem.
Proof.
  induction es as [|e es IH]; intros mem x; cbn [fold_left In].
  - tauto.
  - rewrite IH, insert_entry_in. split.
    + intros [H|[->|H]]; auto.
    + intros [[<-|H]|H]; auto.
Qed.

Lemma fold_max_ge : forall (bs : list batch) m,
  m <= fold_left (fun m b => N.max m (batch_last_seq b)) bs m.
Proof.
  induction bs as [|b bs IH]; intros m; cbn [fold_left].
  - lia.
  - specialize (IH (N.max m (batch_last_seq b))). lia.
Qed.

Lemma seen_chained_gen : forall bs s m, batches_chained s bs = true -> m <= s ->
  N.max s (fold_left (fun m b => N.max m (batch_last_seq b)) bs m) = s + nops bs.
Proof.
  induction bs as [|b bs IH]; intros s m Hc Hm; cbn [fold_left].
  - rewrite nops_nil. lia.
  - apply chained_cons_inv in Hc. destruct Hc as [H1 H2]. rewrite nops_cons.
    assert (E : N.max m (batch_last_seq b) = s + N.of_nat (length (snd b)))
      by (unfold batch_last_seq; lia).
    rewrite E.
    specialize (IH (s + N.of_nat (length (snd b))) (s + N.of_nat (length (snd b))) H2 (N.le_refl _)).
    pose proof (fold_max_ge bs (s + N.of_nat (length (snd b)))). lia.
Qed.

Theorem seen_chained : forall bs s, batches_chained s bs = true ->
  N.max s (fold_left (fun m b => N.max m (batch_last_seq b)) bs 0) = s + nops bs.
Proof.
  intros bs s Hc. apply seen_chained_gen; [exact Hc|lia].
Qed.

Print Assumptions contents_replay.
Print Assumptions contents_replay_gen.
Print Assumptions tables_ok_flush.
